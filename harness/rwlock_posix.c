/* C02 harness (posix model): /repo/src/prwlock-posix.c with pthread_rwlock_* wrapped at link time
 * (-Wl,--wrap=...) so that every pthread call returns a scripted code.  The p_rwlock_* result is
 * compared with the mapping model (PV.RWLock.Posix).
 * ops:  call <op> <code>   script the next pthread return code, call p_rwlock_<op> (lock)
 *       null <op>          p_rwlock_<op> (NULL)
 *       new <code>         p_rwlock_new with pthread_rwlock_init returning <code>
 *       reset
 */
#define _GNU_SOURCE
#include <stdio.h>
#include <stdlib.h>
#include <string.h>
#include <unistd.h>
#include <pthread.h>
#include "pmem.h"
#include "prwlock.h"

P_LIB_API ppointer p_malloc0 (psize n) { return calloc (1, n); }
P_LIB_API ppointer p_malloc (psize n) { return malloc (n); }
P_LIB_API void p_free (ppointer p) { free (p); }

static int next_code = 0;
static const char *called = "none";
static int ncalls = 0;

#define WRAP(name) int __wrap_pthread_rwlock_##name (pthread_rwlock_t *l) { (void) l; called = #name; ncalls++; return next_code; }
WRAP (rdlock) WRAP (tryrdlock) WRAP (wrlock) WRAP (trywrlock) WRAP (unlock) WRAP (destroy)
int __wrap_pthread_rwlock_init (pthread_rwlock_t *l, const pthread_rwlockattr_t *a) { (void) l; (void) a; called = "init"; ncalls++; return next_code; }

static const char *op_names[6] = { "rlock", "wlock", "rtry", "wtry", "runlock", "wunlock" };
static pboolean do_op (int k, PRWLock *l) {
	switch (k) {
	case 0: return p_rwlock_reader_lock (l);
	case 1: return p_rwlock_writer_lock (l);
	case 2: return p_rwlock_reader_trylock (l);
	case 3: return p_rwlock_writer_trylock (l);
	case 4: return p_rwlock_reader_unlock (l);
	default: return p_rwlock_writer_unlock (l);
	}
}

int main (void) {
	char line[256], a[64], b[64];
	FILE *out = fdopen (dup (1), "w");
	PRWLock *lock;
	dup2 (2, 1);
	next_code = 0;
	lock = p_rwlock_new ();
	while (fgets (line, sizeof line, stdin)) {
		int n, k, f = -1;
		char c[64];
		a[0] = b[0] = c[0] = 0;
		n = sscanf (line, "%63s %63s %63s", a, b, c);
		if (n < 1) continue;
		for (k = 0; k < 6; k++) if (!strcmp (b, op_names[k])) f = k;
		if (!strcmp (a, "call") && n == 3 && f >= 0) {
			pboolean r;
			next_code = atoi (c); called = "none"; ncalls = 0;
			r = do_op (f, lock);
			fprintf (out, "%s pthread=%s ret=%d\n", op_names[f], ncalls == 1 ? called : (ncalls == 0 ? "none" : "many"), r ? 1 : 0);
		} else if (!strcmp (a, "null") && n == 2 && f >= 0) {
			pboolean r;
			called = "none"; ncalls = 0;
			r = do_op (f, NULL);
			fprintf (out, "%s pthread=%s ret=%d\n", op_names[f], ncalls == 0 ? "none" : called, r ? 1 : 0);
		} else if (!strcmp (a, "new") && n == 2) {
			PRWLock *l2;
			next_code = atoi (b); called = "none"; ncalls = 0;
			l2 = p_rwlock_new ();
			fprintf (out, "new ret=%d\n", l2 != NULL);
			next_code = 0;
			if (l2) p_rwlock_free (l2);
		} else if (!strcmp (a, "reset") && n == 1) fprintf (out, "ok\n");
		else fprintf (out, "bad-op\n");
		fflush (out);
	}
	return 0;
}

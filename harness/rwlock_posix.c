/* C02 harness (posix model): /repo/src/prwlock-posix.c with pthread_rwlock_* wrapped at link time
 * (-Wl,--wrap=...) so that every pthread call returns a scripted code.  The p_rwlock_* result is
 * compared with the mapping model (PV.RWLock.Posix).
 *       free <code>        p_rwlock_free of a fresh object, pthread_rwlock_destroy returning <code>:
 *                          `free pthread=destroy handle=own released=1`
 * ops:  call <op> <code>   script the next pthread return code, call p_rwlock_<op> (lock)
 *       null <op>          p_rwlock_<op> (NULL)
 *       new <code>         p_rwlock_new with pthread_rwlock_init returning <code>
 *       ident              two lock objects: every p_rwlock_* call on a lock must hand pthread the handle INSIDE that
 *                          object (and p_rwlock_new / p_rwlock_free the handle of the new / freed object):
 *                          `ident ok` or `ident !WRONG-HANDLE(<call>)`
 *       reset
 */
#define _GNU_SOURCE
#include <stdio.h>
#include <stdlib.h>
#include <string.h>
#include <unistd.h>
#include <pthread.h>
#include "pmem.h"
#include "prwlock.h"

static size_t last_alloc_size;
P_LIB_API ppointer p_malloc0 (psize n) { last_alloc_size = n; return calloc (1, n); }
P_LIB_API ppointer p_malloc (psize n) { return malloc (n); }
static const void *watch_ptr; static int watch_freed;
P_LIB_API void p_free (ppointer p) { if (p != NULL && p == watch_ptr) watch_freed++; free (p); }

static int next_code = 0;
static const char *called = "none";
static int ncalls = 0;

static const void *last_hdl;
#define WRAP(name) int __wrap_pthread_rwlock_##name (pthread_rwlock_t *l) { last_hdl = l; called = #name; ncalls++; return next_code; }
WRAP (rdlock) WRAP (tryrdlock) WRAP (wrlock) WRAP (trywrlock) WRAP (unlock) WRAP (destroy)
int __wrap_pthread_rwlock_init (pthread_rwlock_t *l, const pthread_rwlockattr_t *a) { last_hdl = l; (void) a; called = "init"; ncalls++; return next_code; }

static const char *op_names[6] = { "rlock", "wlock", "rtry", "wtry", "runlock", "wunlock" };
static pboolean do_op (int k, PRWLock *l) {
	switch (k) {
	case 0: return p_rwlock_reader_lock (l);
	case 1: return p_rwlock_writer_lock (l);
	case 2: return p_rwlock_reader_trylock (l);
	case 3: return p_rwlock_writer_trylock (l);
	case 4: return p_rwlock_reader_unlock (l);
	default: return p_rwlock_writer_unlock (l);
	}
}

static int inside (const void *p, const void *b, size_t n) { return p != NULL && (const char *) p >= (const char *) b && (const char *) p < (const char *) b + n; }

static const char *do_ident (PRWLock *l1, size_t sz) {
	static char res[64];
	PRWLock *l2, *l[2];
	int i, k;
	next_code = 0; last_hdl = NULL;
	l2 = p_rwlock_new ();
	if (!l2) return "!NEW-FAILED";
	if (!inside (last_hdl, l2, last_alloc_size)) { free (l2); return "!WRONG-HANDLE(init)"; }
	if (l2 == l1) return "!SAME-OBJECT";
	l[0] = l1; l[1] = l2;
	for (i = 0; i < 4; i++) for (k = 0; k < 6; k++) {
		last_hdl = NULL; ncalls = 0;
		do_op (k, l[i & 1]);
		if (ncalls != 1 || !inside (last_hdl, l[i & 1], sz) || inside (last_hdl, l[!(i & 1)], sz)) {
			snprintf (res, sizeof res, "!WRONG-HANDLE(%s)", op_names[k]);
			return res;
		}
	}
	{
		const char *base = (const char *) l2;
		last_hdl = NULL;
		p_rwlock_free (l2);
		if (last_hdl == NULL || (const char *) last_hdl < base || (const char *) last_hdl >= base + sz) return "!WRONG-HANDLE(destroy)";
	}
	return "ok";
}

int main (void) {
	char line[256], a[64], b[64];
	FILE *out = fdopen (dup (1), "w");
	PRWLock *lock;
	dup2 (2, 1);
	next_code = 0;
	lock = p_rwlock_new ();
	size_t lock_size = last_alloc_size;
	while (fgets (line, sizeof line, stdin)) {
		int n, k, f = -1;
		char c[64];
		a[0] = b[0] = c[0] = 0;
		n = sscanf (line, "%63s %63s %63s", a, b, c);
		if (n < 1) continue;
		for (k = 0; k < 6; k++) if (!strcmp (b, op_names[k])) f = k;
		if (!strcmp (a, "call") && n == 3 && f >= 0) {
			pboolean r;
			next_code = atoi (c); called = "none"; ncalls = 0;
			r = do_op (f, lock);
			fprintf (out, "%s pthread=%s ret=%d\n", op_names[f], ncalls == 1 ? called : (ncalls == 0 ? "none" : "many"), r ? 1 : 0);
		} else if (!strcmp (a, "null") && n == 2 && f >= 0) {
			pboolean r;
			called = "none"; ncalls = 0;
			r = do_op (f, NULL);
			fprintf (out, "%s pthread=%s ret=%d\n", op_names[f], ncalls == 0 ? "none" : called, r ? 1 : 0);
		} else if (!strcmp (a, "new") && n == 2) {
			PRWLock *l2;
			next_code = atoi (b); called = "none"; ncalls = 0;
			l2 = p_rwlock_new ();
			fprintf (out, "new ret=%d\n", l2 != NULL);
			next_code = 0;
			if (l2) p_rwlock_free (l2);
		} else if (!strcmp (a, "free") && n == 2) {
			/* p_rwlock_free of a fresh object while pthread_rwlock_destroy returns the scripted code: destroy is
			   called once, on the object's handle, and the object is released whatever destroy says */
			PRWLock *l2;
			next_code = 0;
			l2 = p_rwlock_new ();
			if (!l2) fprintf (out, "free !NEW-FAILED\n");
			else {
				size_t sz = last_alloc_size;
				next_code = atoi (b); called = "none"; ncalls = 0; last_hdl = NULL;
				watch_ptr = l2; watch_freed = 0;
				p_rwlock_free (l2);
				watch_ptr = NULL;
				fprintf (out, "free pthread=%s handle=%s released=%d\n", ncalls == 1 ? called : (ncalls == 0 ? "none" : "many"),
					 ((const char *) last_hdl >= (const char *) l2 && (const char *) last_hdl < (const char *) l2 + sz) ? "own" : "other", watch_freed);
			}
			next_code = 0;
		} else if (!strcmp (a, "ident") && n == 1) { fprintf (out, "ident %s\n", do_ident (lock, lock_size)); next_code = 0;
		} else if (!strcmp (a, "reset") && n == 1) fprintf (out, "ok\n");
		else fprintf (out, "bad-op\n");
		fflush (out);
	}
	return 0;
}

/* The "general" read-write lock (prwlock-general.c: a mutex and two condition variables) is not the
 * model configured for this platform, but it compiles here and is in scope of C18/C20.  It is built
 * under renamed symbols so that it can live next to the configured prwlock-posix.c. */
#define p_rwlock_new            pg_rwlock_new
#define p_rwlock_reader_lock    pg_rwlock_reader_lock
#define p_rwlock_reader_trylock pg_rwlock_reader_trylock
#define p_rwlock_reader_unlock  pg_rwlock_reader_unlock
#define p_rwlock_writer_lock    pg_rwlock_writer_lock
#define p_rwlock_writer_trylock pg_rwlock_writer_trylock
#define p_rwlock_writer_unlock  pg_rwlock_writer_unlock
#define p_rwlock_free           pg_rwlock_free
#define p_rwlock_init           pg_rwlock_init
#define p_rwlock_shutdown       pg_rwlock_shutdown
#include "prwlock-general.c"

/* C19 (sleep part): p_uthread_sleep with the native sleep call scripted at link time
 * (-Wl,--wrap=clock_nanosleep,--wrap=nanosleep), plus a real-signal mode.
 * op:  sleep MSEC AMBIENT_ERRNO r1 r2 ...   with ri = OK | EINTR:<rem_ns> | ERR:<code>
 *      -> ret=<r> calls=[<requested ns of each native call>]
 * op:  real MSEC PERIOD_US    (SIGALRM storm, handler without SA_RESTART, real clock)
 *      -> ret=<r> elapsed_ok=<0|1> signals>0=<0|1>
 * clock_nanosleep semantics: error code is the RETURN VALUE, errno untouched. */
#include <plibsys.h>
#include <stdio.h>
#include <stdlib.h>
#include <string.h>
#include <errno.h>
#include <time.h>
#include <signal.h>
#include <sys/time.h>

static char *script[64]; static int nscript, pos, scripted;
static unsigned long long calls[64]; static int ncalls;
static volatile sig_atomic_t nsignals;

int __real_clock_nanosleep (clockid_t, int, const struct timespec *, struct timespec *);
int __real_nanosleep (const struct timespec *, struct timespec *);

static int next_result (const struct timespec *req, struct timespec *rem, int *code) {
	if (ncalls < 64) calls[ncalls++] = (unsigned long long) req->tv_sec * 1000000000ULL + (unsigned long long) req->tv_nsec;
	if (pos >= nscript) { *code = 0; return 0; }       /* script exhausted: behave as completed */
	char *r = script[pos++];
	if (!strcmp (r, "OK")) { *code = 0; return 0; }
	if (!strncmp (r, "EINTR:", 6)) {
		unsigned long long ns = strtoull (r + 6, NULL, 10);
		if (rem) { rem->tv_sec = (time_t) (ns / 1000000000ULL); rem->tv_nsec = (long) (ns % 1000000000ULL); }
		*code = EINTR; return 1;
	}
	*code = atoi (r + 4); return 1;
}

int __wrap_clock_nanosleep (clockid_t c, int f, const struct timespec *req, struct timespec *rem) {
	int code;
	if (!scripted) return __real_clock_nanosleep (c, f, req, rem);
	next_result (req, rem, &code);
	return code;                                        /* errno is NOT touched */
}
int __wrap_nanosleep (const struct timespec *req, struct timespec *rem) {
	int code;
	if (!scripted) return __real_nanosleep (req, rem);
	if (!next_result (req, rem, &code)) return 0;
	errno = code; return -1;
}

static void on_alarm (int s) { (void) s; ++nsignals; }

int main (void) {
	static char line[4096];
	p_libsys_init ();
	while (fgets (line, sizeof line, stdin)) {
		char *tok = strtok (line, " \n");
		if (!tok) continue;
		if (!strcmp (tok, "sleep")) {
			char *ms = strtok (NULL, " \n"), *amb = strtok (NULL, " \n");
			if (!ms || !amb) { puts ("bad-op"); fflush (stdout); continue; }
			nscript = pos = ncalls = 0;
			while ((tok = strtok (NULL, " \n")) && nscript < 64) script[nscript++] = tok;
			scripted = 1;
			errno = atoi (amb);
			pint r = p_uthread_sleep ((puint32) strtoul (ms, NULL, 10));
			scripted = 0;
			printf ("ret=%d calls=[", r);
			for (int i = 0; i < ncalls; ++i) printf ("%s%llu", i ? " " : "", calls[i]);
			printf ("]\n");
		} else if (!strcmp (tok, "real")) {
			char *ms = strtok (NULL, " \n"), *per = strtok (NULL, " \n");
			if (!ms || !per) { puts ("bad-op"); fflush (stdout); continue; }
			struct sigaction sa; memset (&sa, 0, sizeof sa); sa.sa_handler = on_alarm; /* no SA_RESTART */
			sigaction (SIGALRM, &sa, NULL);
			struct itimerval it; long us = atol (per);
			it.it_interval.tv_sec = 0; it.it_interval.tv_usec = us; it.it_value = it.it_interval;
			nsignals = 0;
			struct timespec t0, t1;
			clock_gettime (CLOCK_MONOTONIC, &t0);
			setitimer (ITIMER_REAL, &it, NULL);
			pint r = p_uthread_sleep ((puint32) strtoul (ms, NULL, 10));
			memset (&it, 0, sizeof it); setitimer (ITIMER_REAL, &it, NULL);
			clock_gettime (CLOCK_MONOTONIC, &t1);
			long long el = (t1.tv_sec - t0.tv_sec) * 1000000000LL + (t1.tv_nsec - t0.tv_nsec);
			/* the property: returns 0 only after at least the requested time */
			int ok = !(r == 0 && el < (long long) strtoul (ms, NULL, 10) * 1000000LL);
			printf ("ret=%d elapsed_ok=%d signals>0=%d\n", r, ok, nsignals > 0);
		} else puts ("bad-op");
		fflush (stdout);
	}
	p_libsys_shutdown ();
	return 0;
}

/* C09 / C10 / C19 supporting runs on the REAL kernel (loopback only).  Not a proof: failing-input search with
 * one-sided oracles.  One sub-test per invocation:
 *   socket_real tcp   <seed> <4|6> <bytes> <storm 0|1> <mode 0..3>   mode bit0: sender non-blocking, bit1: receiver non-blocking
 *   socket_real udp   <seed> <4|6> <storm>
 *   socket_real timed <4|6> <T ms> <storm>
 *   socket_real sigdata <4|6> <T ms>      data arrives at 0.8 T of a wait with timeout T while signals come every T/5
 *   socket_real flags <4|6>
 *   socket_real gone  <4|6>
 *   socket_real udpq  <seed> <4|6>        several datagrams (two senders, lengths including 0) queued before the first receive,
 *                                          buffers shorter / equal / longer, with and without an address result; then a connected
 *                                          datagram socket whose peer port is closed: the wait is woken by POLLERR alone
 * prints one line: `ok …`, `skip <why>` or `FAIL <what>` (exit 0 / 0 / 1). */
#define _GNU_SOURCE
#include <plibsys.h>
#include <stdio.h>
#include <stdlib.h>
#include <string.h>
#include <errno.h>
#include <signal.h>
#include <time.h>
#include <fcntl.h>
#include <unistd.h>
#include <pthread.h>
#include <sys/time.h>
#include <sys/socket.h>

static volatile sig_atomic_t n_alarm, n_pipe;
static volatile sig_atomic_t alarm_budget = -1;     /* >= 0: the storm switches itself off after that many signals */
static void on_alarm (int s) {
	(void) s; n_alarm++;
	if (alarm_budget > 0 && --alarm_budget == 0) { struct itimerval it; memset (&it, 0, sizeof it); setitimer (ITIMER_REAL, &it, NULL); }
}
static void on_pipe (int s) { (void) s; n_pipe++; }

static void storm_us (long us);
static void storm (int on) { storm_us (on ? 700 : 0); }
static void storm_us (long us) {
	int on = us > 0;
	struct sigaction sa; struct itimerval it;
	memset (&sa, 0, sizeof sa); sa.sa_handler = on_alarm; sa.sa_flags = 0;      /* NO SA_RESTART */
	sigemptyset (&sa.sa_mask);
	sigaction (SIGALRM, &sa, NULL);
	memset (&it, 0, sizeof it);
	if (on) { it.it_interval.tv_sec = it.it_value.tv_sec = us / 1000000; it.it_interval.tv_usec = it.it_value.tv_usec = us % 1000000; }
	setitimer (ITIMER_REAL, &it, NULL);
}
static double now_ms (void) { struct timespec t; clock_gettime (CLOCK_MONOTONIC, &t); return t.tv_sec * 1e3 + t.tv_nsec / 1e6; }

static unsigned long long rs;
static unsigned rnd (void) { rs = rs * 6364136223846793005ULL + 1442695040888963407ULL; return (unsigned) (rs >> 33); }
static unsigned char stream_byte (unsigned long long seed, unsigned long long i) {
	unsigned long long x = (i + seed) * 0x9E3779B97F4A7C15ULL; x ^= x >> 29; return (unsigned char) (x * 0xBF58476D1CE4E5B9ULL >> 56);
}
static int same_addr (PSocketAddress *a, PSocketAddress *b) {
	char *x = p_socket_address_get_address (a), *y = p_socket_address_get_address (b);
	int r = x && y && !strcmp (x, y) && p_socket_address_get_port (a) == p_socket_address_get_port (b)
		&& p_socket_address_get_family (a) == p_socket_address_get_family (b);
	p_free (x); p_free (y);
	return r;
}
static const char *loop_addr (int fam) { return fam == 6 ? "::1" : "127.0.0.1"; }
static PSocketFamily pfam (int fam) { return fam == 6 ? P_SOCKET_FAMILY_INET6 : P_SOCKET_FAMILY_INET; }

#define FAILF(...) do { storm (0); printf ("FAIL " __VA_ARGS__); printf ("\n"); exit (1); } while (0)
#define SKIP(why) do { storm (0); printf ("skip %s\n", why); exit (0); } while (0)

static void bad_native (const char *what, PError *err) {
	int nat = p_error_get_native_code (err), code = p_error_get_code (err);
	if (nat == EINTR || ((nat == EAGAIN || nat == EWOULDBLOCK) && code != P_ERROR_IO_TIMED_OUT))
		FAILF ("%s: blocking call reported code=%d native=%d (%s)", what, code, nat, p_error_get_message (err));
}

/* listening socket on an ephemeral loopback port; *port filled */
static PSocket *listener (int fam, int backlog, int *port) {
	PError *err = NULL;
	PSocket *l = p_socket_new (pfam (fam), P_SOCKET_TYPE_STREAM, P_SOCKET_PROTOCOL_TCP, &err);
	if (!l) { if (fam == 6) SKIP ("no IPv6 socket"); FAILF ("socket: %s", p_error_get_message (err)); }
	PSocketAddress *a = p_socket_address_new (loop_addr (fam), 0);
	if (!a || !p_socket_bind (l, a, TRUE, &err)) { if (fam == 6) SKIP ("::1 unavailable"); FAILF ("bind: %s", err ? p_error_get_message (err) : "addr"); }
	p_socket_address_free (a);
	p_socket_set_listen_backlog (l, backlog);
	if (!p_socket_listen (l, &err)) FAILF ("listen: %s", p_error_get_message (err));
	a = p_socket_get_local_address (l, &err);
	*port = p_socket_address_get_port (a);
	p_socket_address_free (a);
	return l;
}

/* ---------------------------------------------------------------- tcp */
struct tx { PSocket *s; unsigned long long seed, total; int nonblock; unsigned long long calls, wb; char fail[200]; };
static void *sender (void *p) {
	struct tx *t = p; unsigned long long pos = 0; unsigned long long lr = t->seed * 77 + 5;
	char *buf = malloc (70000);
	p_socket_set_blocking (t->s, !t->nonblock);
	while (pos < t->total) {
		lr = lr * 6364136223846793005ULL + 1442695040888963407ULL;
		size_t n = 1 + (size_t) ((lr >> 33) % ((lr >> 20) % 8 == 0 ? 65536 : 900));
		if (n > t->total - pos) n = (size_t) (t->total - pos);
		for (size_t i = 0; i < n; i++) buf[i] = (char) stream_byte (t->seed, pos + i);
		PError *err = NULL;
		pssize k = p_socket_send (t->s, buf, n, &err);
		t->calls++;
		if (k < 0) {
			if (t->nonblock && p_error_get_code (err) == P_ERROR_IO_WOULD_BLOCK) {
				t->wb++; p_error_free (err); err = NULL;
				p_socket_io_condition_wait (t->s, P_SOCKET_IO_CONDITION_POLLOUT, &err);   /* waits even when non-blocking */
				if (err) { if (p_error_get_native_code (err) == EINTR) { snprintf (t->fail, sizeof t->fail, "io_condition_wait reported EINTR"); return NULL; } p_error_free (err); }
				continue;
			}
			snprintf (t->fail, sizeof t->fail, "send failed code=%d native=%d at %llu", p_error_get_code (err), p_error_get_native_code (err), pos);
			return NULL;
		}
		if (k == 0 || (size_t) k > n) { snprintf (t->fail, sizeof t->fail, "send returned %zd for %zu", (ssize_t) k, n); return NULL; }
		pos += (unsigned long long) k;
	}
	free (buf);
	return NULL;
}

static int t_tcp (unsigned long long seed, int fam, unsigned long long total, int st, int mode) {
	int port; PError *err = NULL;
	PSocket *l = listener (fam, 5, &port);
	PSocket *c = p_socket_new (pfam (fam), P_SOCKET_TYPE_STREAM, P_SOCKET_PROTOCOL_TCP, &err);
	PSocketAddress *a = p_socket_address_new (loop_addr (fam), (puint16) port);
	storm (st);
	if (!p_socket_connect (c, a, &err)) { bad_native ("connect", err); FAILF ("connect: %s", p_error_get_message (err)); }
	PSocket *srv = p_socket_accept (l, &err);
	if (!srv) { bad_native ("accept", err); FAILF ("accept: %s", p_error_get_message (err)); }
	/* small socket buffers so that short writes / would-block / waiting really happen */
	p_socket_set_buffer_size (c, P_SOCKET_DIRECTION_SND, 4096, NULL);
	p_socket_set_buffer_size (srv, P_SOCKET_DIRECTION_RCV, 4096, NULL);
	struct tx t; memset (&t, 0, sizeof t); t.s = c; t.seed = seed; t.total = total; t.nonblock = mode & 1;
	pthread_t th; pthread_create (&th, NULL, sender, &t);
	int rnb = (mode >> 1) & 1;
	p_socket_set_blocking (srv, !rnb);
	unsigned long long pos = 0, calls = 0, wb = 0; unsigned long long sum = 1469598103934665603ULL, want = 1469598103934665603ULL;
	char *buf = malloc (70000);
	while (pos < total) {
		size_t n = 1 + rnd () % (rnd () % 8 == 0 ? 65536 : 700);
		err = NULL;
		pssize k = p_socket_receive (srv, buf, n, &err);
		calls++;
		if (k < 0) {
			if (rnb && p_error_get_code (err) == P_ERROR_IO_WOULD_BLOCK) {
				wb++; p_error_free (err); err = NULL;
				p_socket_io_condition_wait (srv, P_SOCKET_IO_CONDITION_POLLIN, &err);
				if (err) { bad_native ("io_condition_wait", err); p_error_free (err); }
				if (t.fail[0]) break;
				continue;
			}
			bad_native ("receive", err);
			FAILF ("receive failed code=%d native=%d at %llu", p_error_get_code (err), p_error_get_native_code (err), pos);
		}
		if (k == 0) FAILF ("receive returned 0 (EOF) at %llu of %llu", pos, total);
		if ((size_t) k > n) FAILF ("receive returned %zd > buflen %zu", (ssize_t) k, n);
		for (pssize i = 0; i < k; i++) {
			unsigned char w = stream_byte (seed, pos + (unsigned long long) i);
			if ((unsigned char) buf[i] != w) FAILF ("byte %llu differs: got %02x want %02x", pos + (unsigned long long) i, (unsigned char) buf[i], w);
			sum = (sum ^ (unsigned char) buf[i]) * 1099511628211ULL; want = (want ^ w) * 1099511628211ULL;
		}
		pos += (unsigned long long) k;
	}
	pthread_join (th, NULL);
	storm (0);
	if (t.fail[0]) FAILF ("sender: %s", t.fail);
	if (pos != total || sum != want) FAILF ("received %llu of %llu, checksum %s", pos, total, sum == want ? "equal" : "DIFFERENT");
	printf ("ok tcp fam=%d bytes=%llu sends=%llu recvs=%llu wouldblock=%llu/%llu signals=%d checksum=%016llx\n", fam, total, t.calls, calls, t.wb, wb, (int) n_alarm, sum);
	p_socket_free (c); p_socket_free (srv); p_socket_free (l); p_socket_address_free (a); free (buf);
	return 0;
}

/* ---------------------------------------------------------------- stall
 * A blocking sender with a finite timeout against a receiver that does not read for a while, then drains everything:
 * "the concatenation of the bytes returned by successful receives equals the concatenation of the bytes REPORTED AS SENT".
 * The sender counts what its calls report (a call that fails reports nothing), closes, and the receiver reads up to EOF:
 * it must get exactly the reported bytes, in order — also the ones reported just before the close (a close must not
 * throw away data that was reported as sent). */
struct stx { PSocket *s; unsigned long long seed, reported; int timeouts, calls; char fail[160]; };
static void *stall_sender (void *arg) {
	struct stx *t = arg;
	char *buf = malloc (1 << 20);
	for (int round = 0; round < 6 && !t->fail[0]; round++) {
		size_t n = round == 5 ? 3000 : (size_t) 1 << 20;
		for (size_t i = 0; i < n; i++) buf[i] = (char) stream_byte (t->seed, t->reported + i);
		PError *err = NULL;
		pssize k = p_socket_send (t->s, buf, n, &err);
		t->calls++;
		if (k < 0) {
			int code = p_error_get_code (err), nat = p_error_get_native_code (err);
			p_error_free (err);
			if (code == P_ERROR_IO_TIMED_OUT) { t->timeouts++; usleep (100000); continue; }
			snprintf (t->fail, sizeof t->fail, "send failed code=%d native=%d", code, nat);
			break;
		}
		if ((size_t) k > n) { snprintf (t->fail, sizeof t->fail, "send returned %zd > %zu", (ssize_t) k, n); break; }
		t->reported += (unsigned long long) k;
	}
	free (buf);
	p_socket_close (t->s, NULL);                       /* right after the last reported bytes */
	return NULL;
}
static int t_stall (unsigned long long seed, int fam, int timeout_ms) {
	int port; PError *err = NULL;
	PSocket *l = listener (fam, 5, &port);
	PSocket *c = p_socket_new (pfam (fam), P_SOCKET_TYPE_STREAM, P_SOCKET_PROTOCOL_TCP, &err);
	PSocketAddress *a = p_socket_address_new (loop_addr (fam), (puint16) port);
	if (!p_socket_connect (c, a, &err)) FAILF ("connect: %s", p_error_get_message (err));
	PSocket *srv = p_socket_accept (l, &err);
	if (!srv) FAILF ("accept: %s", p_error_get_message (err));
	p_socket_set_buffer_size (c, P_SOCKET_DIRECTION_SND, 65536, NULL);
	p_socket_set_buffer_size (srv, P_SOCKET_DIRECTION_RCV, 65536, NULL);
	p_socket_set_timeout (c, timeout_ms);
	struct stx t; memset (&t, 0, sizeof t); t.s = c; t.seed = seed;
	pthread_t th; pthread_create (&th, NULL, stall_sender, &t);
	usleep ((useconds_t) timeout_ms * 2500);            /* the sender runs into its timeout at least once */
	unsigned long long pos = 0; char *buf = malloc (65536);
	p_socket_set_timeout (srv, 20000);
	for (;;) {
		err = NULL;
		pssize k = p_socket_receive (srv, buf, 65536, &err);
		if (k < 0) {
			pthread_join (th, NULL);
			FAILF ("receive failed code=%d native=%d after %llu bytes (the sender reported %llu bytes as sent, %d timeouts, then closed)", p_error_get_code (err), p_error_get_native_code (err), pos, t.reported, t.timeouts);
		}
		if (k == 0) break;
		for (pssize i = 0; i < k; i++)
			if ((unsigned char) buf[i] != stream_byte (seed, pos + (unsigned long long) i)) {
				pthread_join (th, NULL);
				FAILF ("byte %llu differs from the stream the sender's successful calls reported (reported so far %llu, %d timed-out calls): bytes of a call that reported failure were delivered, or data was lost / duplicated", pos + (unsigned long long) i, t.reported, t.timeouts);
			}
		pos += (unsigned long long) k;
	}
	pthread_join (th, NULL);
	if (t.fail[0]) FAILF ("sender: %s", t.fail);
	if (pos != t.reported) FAILF ("received %llu bytes up to end of stream, the sender's calls reported %llu bytes as sent (%d calls, %d of them timed out)", pos, t.reported, t.calls, t.timeouts);
	printf ("ok stall fam=%d reported=%llu received=%llu timeouts=%d\n", fam, t.reported, pos, t.timeouts);
	return 0;
}

/* ---------------------------------------------------------------- udp */
static int t_udp (unsigned long long seed, int fam, int st) {
	PError *err = NULL;
	PSocket *r = p_socket_new (pfam (fam), P_SOCKET_TYPE_DATAGRAM, P_SOCKET_PROTOCOL_UDP, &err);
	PSocket *s = p_socket_new (pfam (fam), P_SOCKET_TYPE_DATAGRAM, P_SOCKET_PROTOCOL_UDP, &err);
	if (!r || !s) { if (fam == 6) SKIP ("no IPv6 socket"); FAILF ("socket"); }
	PSocketAddress *a0 = p_socket_address_new (loop_addr (fam), 0);
	if (!a0 || !p_socket_bind (r, a0, TRUE, &err) || !p_socket_bind (s, a0, TRUE, &err)) { if (fam == 6) SKIP ("::1 unavailable"); FAILF ("bind"); }
	PSocketAddress *ra = p_socket_get_local_address (r, &err), *sa = p_socket_get_local_address (s, &err);
	PSocketAddress *dst = p_socket_address_new (loop_addr (fam), p_socket_address_get_port (ra));
	p_socket_set_timeout (r, 3000);
	storm (st);
	static const int sizes[] = { 1, 2, 7, 64, 512, 1400, 4000 };
	int n = 0;
	char dg[4096], buf[8192];
	for (unsigned i = 0; i < sizeof sizes / sizeof *sizes; i++)
		for (int rel = -1; rel <= 1; rel++) {           /* receive buffer shorter / equal / longer than the datagram */
			int len = sizes[i], bl = len + rel * (1 + (int) (rnd () % 3));
			if (bl < 1) bl = 1;
			for (int k = 0; k < len; k++) dg[k] = (char) stream_byte (seed + i, (unsigned long long) k);
			err = NULL;
			pssize w = p_socket_send_to (s, dst, dg, (psize) len, &err);
			if (w != len) { if (err) bad_native ("send_to", err); FAILF ("send_to returned %zd for %d", (ssize_t) w, len); }
			PSocketAddress *from = NULL;
			memset (buf, 0x5a, sizeof buf);
			pssize g = p_socket_receive_from (r, &from, buf, (psize) bl, &err);
			if (g < 0) { bad_native ("receive_from", err); FAILF ("receive_from: code=%d native=%d", p_error_get_code (err), p_error_get_native_code (err)); }
			int want = len < bl ? len : bl;
			if (g != want) FAILF ("datagram %d into buffer %d: returned %zd, want %d", len, bl, (ssize_t) g, want);
			if (memcmp (buf, dg, (size_t) want) != 0) FAILF ("datagram %d into buffer %d: bytes differ", len, bl);
			if ((unsigned char) buf[bl] != 0x5a) FAILF ("datagram %d into buffer %d: wrote past buflen", len, bl);
			if (!from || !same_addr (from, sa)) FAILF ("receive_from did not report the sender's address");
			p_socket_address_free (from);
			n++;
		}
	storm (0);
	printf ("ok udp fam=%d datagrams=%d signals=%d\n", fam, n, (int) n_alarm);
	return 0;
}

/* ---------------------------------------------------------------- udpq */
static int t_udpq (unsigned long long seed, int fam) {
	PError *err = NULL;
	alarm (25);                                      /* a busy loop / hang inside the library ends the run (SIGALRM, default action) */
	PSocket *r = p_socket_new (pfam (fam), P_SOCKET_TYPE_DATAGRAM, P_SOCKET_PROTOCOL_UDP, &err);
	PSocket *s[2];
	s[0] = p_socket_new (pfam (fam), P_SOCKET_TYPE_DATAGRAM, P_SOCKET_PROTOCOL_UDP, &err);
	s[1] = p_socket_new (pfam (fam), P_SOCKET_TYPE_DATAGRAM, P_SOCKET_PROTOCOL_UDP, &err);
	if (!r || !s[0] || !s[1]) { if (fam == 6) SKIP ("no IPv6 socket"); FAILF ("socket"); }
	PSocketAddress *a0 = p_socket_address_new (loop_addr (fam), 0);
	if (!a0 || !p_socket_bind (r, a0, FALSE, &err) || !p_socket_bind (s[0], a0, FALSE, &err) || !p_socket_bind (s[1], a0, FALSE, &err)) { if (fam == 6) SKIP ("::1 unavailable"); FAILF ("bind"); }
	p_socket_set_buffer_size (r, P_SOCKET_DIRECTION_RCV, 262144, NULL);
	PSocketAddress *ra = p_socket_get_local_address (r, &err);
	PSocketAddress *sa[2] = { p_socket_get_local_address (s[0], &err), p_socket_get_local_address (s[1], &err) };
	PSocketAddress *dst = p_socket_address_new (loop_addr (fam), p_socket_address_get_port (ra));
	p_socket_set_timeout (r, 3000);
	static const int len[] = { 0, 1, 100, 0, 1400, 7, 3000, 0, 0, 2, 64, 1 };
	static const int bl[]  = { 8, 1,  50, 4, 1400, 16, 4000, 1, 9, 1, 65, 3000 };
	enum { N = sizeof len / sizeof *len };
	static char dg[N][4096]; char buf[8192];
	for (int round = 0; round < 2; round++) {        /* round 0: blocking receiver with timeout, round 1: non-blocking receiver */
		for (int i = 0; i < N; i++) {
			for (int k = 0; k < len[i]; k++) dg[i][k] = (char) stream_byte (seed + (unsigned) i + 31u * (unsigned) round, (unsigned long long) k);
			err = NULL;
			pssize w = p_socket_send_to (s[i % 2], dst, dg[i], (psize) len[i], &err);
			if (w != len[i]) { if (err) bad_native ("send_to", err); FAILF ("send_to of a %d-byte datagram returned %zd (code %d native %d)", len[i], (ssize_t) w, err ? p_error_get_code (err) : 0, err ? p_error_get_native_code (err) : 0); }
		}
		p_socket_set_blocking (r, round == 0);
		if (round == 1) usleep (20000);
		for (int i = 0; i < N; i++) {
			PSocketAddress *from = NULL; int want_addr = (i % 3) != 2;
			memset (buf, 0x5a, sizeof buf); err = NULL;
			pssize g = p_socket_receive_from (r, want_addr ? &from : NULL, buf, (psize) bl[i], &err);
			if (g < 0) { bad_native ("receive_from", err); FAILF ("receive_from #%d: code=%d native=%d", i, p_error_get_code (err), p_error_get_native_code (err)); }
			int want = len[i] < bl[i] ? len[i] : bl[i];
			if (g != want) FAILF ("queued datagram #%d (%d bytes) into a buffer of %d: returned %zd, want %d", i, len[i], bl[i], (ssize_t) g, want);
			if (memcmp (buf, dg[i], (size_t) want) != 0) FAILF ("queued datagram #%d: bytes differ (not the %d-th datagram sent)", i, i);
			if ((unsigned char) buf[bl[i]] != 0x5a) FAILF ("queued datagram #%d: wrote past buflen", i);
			if (want_addr && (!from || !same_addr (from, sa[i % 2]))) FAILF ("queued datagram #%d: receive_from did not report its sender", i);
			if (from) p_socket_address_free (from);
		}
		/* nothing left: a cut-off tail must not show up as a datagram */
		p_socket_set_blocking (r, FALSE); err = NULL;
		pssize g = p_socket_receive_from (r, NULL, buf, sizeof buf, &err);
		if (g >= 0 || p_error_get_code (err) != P_ERROR_IO_WOULD_BLOCK) FAILF ("after %d datagrams a further receive_from returned %zd (code %d)", (int) N, (ssize_t) g, err ? p_error_get_code (err) : 0);
		p_error_free (err);
	}
	/* connected datagram socket, nobody on the peer port: the kernel reports the ICMP error as POLLERR (without POLLIN) and
	 * recv fails with ECONNREFUSED: a genuine error, to be reported at once, neither swallowed nor turned into a time-out */
	PSocket *tmp = p_socket_new (pfam (fam), P_SOCKET_TYPE_DATAGRAM, P_SOCKET_PROTOCOL_UDP, &err);
	p_socket_bind (tmp, a0, FALSE, &err);
	PSocketAddress *ta = p_socket_get_local_address (tmp, &err);
	PSocketAddress *closed_port = p_socket_address_new (loop_addr (fam), p_socket_address_get_port (ta));
	p_socket_free (tmp);
	PSocket *c = p_socket_new (pfam (fam), P_SOCKET_TYPE_DATAGRAM, P_SOCKET_PROTOCOL_UDP, &err);
	err = NULL;
	if (!p_socket_connect (c, closed_port, &err)) FAILF ("connect of a datagram socket: code %d native %d", p_error_get_code (err), p_error_get_native_code (err));
	const int T = 1200; const char *icmp = "not-delivered-here";
	p_socket_set_timeout (c, T);
	p_socket_send (c, "x", 1, NULL);
	usleep (30000);
	double t0 = now_ms (); err = NULL;
	pssize k = p_socket_receive (c, buf, 16, &err);
	double el = now_ms () - t0;
	if (k >= 0) FAILF ("receive on a datagram socket connected to a closed port returned %zd", (ssize_t) k);
	if (p_error_get_native_code (err) == ECONNREFUSED) {
		icmp = "reported";
		if (p_error_get_code (err) != P_ERROR_IO_CONNECTION_REFUSED) FAILF ("ECONNREFUSED reported with code %d", p_error_get_code (err));
		if (el >= T) FAILF ("pending socket error reported only after %.0f ms (time-out %d ms)", el, T);
	} else if (p_error_get_code (err) == P_ERROR_IO_TIMED_OUT) {
		if (el < T) FAILF ("receive timed out after %.1f ms < T=%d", el, T);
	} else { bad_native ("receive", err); FAILF ("receive with a pending socket error: code %d native %d", p_error_get_code (err), p_error_get_native_code (err)); }
	alarm (0);
	printf ("ok udpq fam=%d datagrams=%d pending_error=%s\n", fam, 2 * (int) N, icmp);
	return 0;
}

/* ---------------------------------------------------------------- timed */
static int t_timed (int fam, int T, int st) {
	int port; PError *err = NULL; double t0, el; int nchk = 0;
	PSocket *l = listener (fam, 0, &port);
	/* an interrupted poll is re-issued with the FULL timeout, so a signal period below T would keep the wait alive for
	 * ever (probed separately below); for the lower-bound checks the storm is slower than T */
	storm_us (st ? (long) T * 1700 : 0);
	/* accept with nobody connecting */
	p_socket_set_timeout (l, T);
	t0 = now_ms ();
	PSocket *x = p_socket_accept (l, &err);
	el = now_ms () - t0;
	if (x != NULL) FAILF ("accept returned a socket with nobody connecting");
	if (p_error_get_code (err) != P_ERROR_IO_TIMED_OUT) FAILF ("accept: code %d native %d instead of TIMED_OUT", p_error_get_code (err), p_error_get_native_code (err));
	if (el < T) FAILF ("accept timed out after %.1f ms < T=%d", el, T);
	p_error_free (err); err = NULL; nchk++;
	/* non-blocking accept returns at once with WOULD_BLOCK */
	p_socket_set_blocking (l, FALSE);
	x = p_socket_accept (l, &err);
	if (x != NULL || p_error_get_code (err) != P_ERROR_IO_WOULD_BLOCK) FAILF ("non-blocking accept: code %d", err ? p_error_get_code (err) : -1);
	p_error_free (err); err = NULL; nchk++;
	p_socket_set_blocking (l, TRUE);
	/* receive on a connected socket whose peer stays silent */
	PSocket *c = p_socket_new (pfam (fam), P_SOCKET_TYPE_STREAM, P_SOCKET_PROTOCOL_TCP, &err);
	PSocketAddress *a = p_socket_address_new (loop_addr (fam), (puint16) port);
	if (!p_socket_connect (c, a, &err)) { bad_native ("connect", err); FAILF ("connect: %s", p_error_get_message (err)); }
	p_socket_set_timeout (l, 2000);
	PSocket *srv = p_socket_accept (l, &err);
	if (!srv) { bad_native ("accept", err); FAILF ("accept: %s", p_error_get_message (err)); }
	p_socket_set_timeout (c, T);
	char b[16];
	t0 = now_ms ();
	pssize k = p_socket_receive (c, b, sizeof b, &err);
	el = now_ms () - t0;
	if (k >= 0 || p_error_get_code (err) != P_ERROR_IO_TIMED_OUT) FAILF ("receive: ret %zd code %d instead of TIMED_OUT", (ssize_t) k, err ? p_error_get_code (err) : 0);
	if (el < T) FAILF ("receive timed out after %.1f ms < T=%d", el, T);
	p_error_free (err); err = NULL; nchk++;
	p_socket_set_blocking (c, FALSE);
	k = p_socket_receive (c, b, sizeof b, &err);
	if (k >= 0 || p_error_get_code (err) != P_ERROR_IO_WOULD_BLOCK) FAILF ("non-blocking receive: ret %zd code %d", (ssize_t) k, err ? p_error_get_code (err) : 0);
	p_error_free (err); err = NULL; nchk++;
	/* connect that cannot complete: accept queue of the backlog-0 listener is full, further SYNs are dropped */
	PSocket *fill[8]; int nf = 0, hung = 0;
	for (; nf < 8; nf++) {
		fill[nf] = p_socket_new (pfam (fam), P_SOCKET_TYPE_STREAM, P_SOCKET_PROTOCOL_TCP, NULL);
		p_socket_set_blocking (fill[nf], FALSE);
		p_socket_connect (fill[nf], a, NULL);
	}
	usleep (50000);
	PSocket *h = p_socket_new (pfam (fam), P_SOCKET_TYPE_STREAM, P_SOCKET_PROTOCOL_TCP, NULL);
	p_socket_set_timeout (h, T);
	t0 = now_ms ();
	pboolean ok = p_socket_connect (h, a, &err);
	el = now_ms () - t0;
	if (!ok && p_error_get_code (err) == P_ERROR_IO_TIMED_OUT) {
		hung = 1;
		if (el < T) FAILF ("connect timed out after %.1f ms < T=%d", el, T);
		nchk++;
	} else if (!ok) bad_native ("connect", err);
	storm (0);
	/* informational probe: signals every T/8 for 24*T, then quiet: how long does a wait with timeout T take? */
	int before = (int) n_alarm; double starve = 0;
	if (st) {
		int port2; PSocket *l2 = listener (fam, 1, &port2);
		p_socket_set_timeout (l2, T);
		l = l2;
		alarm_budget = 8 * 24;
		storm_us ((long) T * 1000 / 8);
		err = NULL; t0 = now_ms ();
		x = p_socket_accept (l, &err);
		starve = now_ms () - t0;
		storm (0); alarm_budget = -1;
		if (x != NULL || p_error_get_code (err) != P_ERROR_IO_TIMED_OUT) FAILF ("accept under fast signals: code %d native %d", err ? p_error_get_code (err) : 0, err ? p_error_get_native_code (err) : 0);
		if (starve < T) FAILF ("accept timed out after %.1f ms < T=%d", starve, T);
	}
	printf ("ok timed fam=%d T=%d checks=%d connect_hang=%s signals=%d wait_under_signals_every_T/8=%.0fms(%d signals)\n", fam, T, nchk,
		hung ? "checked" : "not-reproducible-here", before, starve, (int) n_alarm - before);
	return 0;
}

/* ---------------------------------------------------------------- sigdata */
struct late { int fam, port, delay_ms; };
static void *late_sender (void *p) {
	struct late *l = p;
	sigset_t m; sigemptyset (&m); sigaddset (&m, SIGALRM); pthread_sigmask (SIG_BLOCK, &m, NULL);
	struct timespec ts = { l->delay_ms / 1000, (l->delay_ms % 1000) * 1000000L };
	while (nanosleep (&ts, &ts) != 0) ;
	PSocket *u = p_socket_new (pfam (l->fam), P_SOCKET_TYPE_DATAGRAM, P_SOCKET_PROTOCOL_UDP, NULL);
	PSocketAddress *a = p_socket_address_new (loop_addr (l->fam), (puint16) l->port);
	if (u && a) p_socket_send_to (u, a, "forty-two bytes of late but timely data..!", 42, NULL);
	if (a) p_socket_address_free (a);
	if (u) p_socket_free (u);
	return NULL;
}

/* a handled signal must not change the outcome: the datagram that arrives before the timeout is delivered */
static int t_sigdata (int fam, int T) {
	PError *err = NULL;
	sigset_t m, old; sigemptyset (&m); sigaddset (&m, SIGALRM);
	PSocket *r = p_socket_new (pfam (fam), P_SOCKET_TYPE_DATAGRAM, P_SOCKET_PROTOCOL_UDP, &err);
	if (!r) { if (fam == 6) SKIP ("no IPv6 socket"); FAILF ("socket: %s", p_error_get_message (err)); }
	PSocketAddress *a = p_socket_address_new (loop_addr (fam), 0);
	if (!a || !p_socket_bind (r, a, TRUE, &err)) { if (fam == 6) SKIP ("::1 unavailable"); FAILF ("bind"); }
	p_socket_address_free (a);
	a = p_socket_get_local_address (r, &err);
	struct late l = { fam, p_socket_address_get_port (a), T * 8 / 10 };
	p_socket_address_free (a);
	p_socket_set_timeout (r, T);
	pthread_t th;
	pthread_sigmask (SIG_BLOCK, &m, &old);            /* the helper inherits the blocked mask: signals reach this thread only */
	pthread_create (&th, NULL, late_sender, &l);
	pthread_sigmask (SIG_SETMASK, &old, NULL);
	storm_us ((long) T * 1000 / 5);
	char b[64];
	double t0 = now_ms ();
	pssize k = p_socket_receive_from (r, NULL, b, sizeof b, &err);
	double el = now_ms () - t0;
	storm (0);
	pthread_join (th, NULL);
	if (k != 42)
		FAILF ("receive_from with timeout %d ms under signals every %d ms: returned %zd after %.0f ms (code %d native %d) although the datagram arrived at %d ms",
		       T, T / 5, (ssize_t) k, el, err ? p_error_get_code (err) : 0, err ? p_error_get_native_code (err) : 0, l.delay_ms);
	printf ("ok sigdata fam=%d T=%d returned 42 bytes after %.0f ms, %d signal(s)\n", fam, T, el, (int) n_alarm);
	p_socket_free (r);
	return 0;
}

/* ---------------------------------------------------------------- flags */
static int t_flags (int fam) {
	int port; PError *err = NULL;
	PSocket *l = listener (fam, 5, &port);
	PSocket *c = p_socket_new (pfam (fam), P_SOCKET_TYPE_STREAM, P_SOCKET_PROTOCOL_TCP, &err);
	PSocket *u = p_socket_new (pfam (fam), P_SOCKET_TYPE_DATAGRAM, P_SOCKET_PROTOCOL_UDP, &err);
	PSocketAddress *a = p_socket_address_new (loop_addr (fam), (puint16) port);
	/* accepts that fail for a real reason come first: what a later successful accept returns must not depend on them
	 * (state carried from one call or one socket to the next): a stream socket that is not listening (EINVAL), a datagram
	 * socket (EOPNOTSUPP), a non-blocking listener with nobody connecting (would block) */
	{
		PSocket *nl = p_socket_new (pfam (fam), P_SOCKET_TYPE_STREAM, P_SOCKET_PROTOCOL_TCP, &err);
		PSocket *x;
		if (!nl) FAILF ("socket: %s", p_error_get_message (err));
		p_socket_set_blocking (nl, FALSE);
		if ((x = p_socket_accept (nl, NULL)) != NULL) FAILF ("accept on a socket that is not listening returned a socket");
		p_socket_set_blocking (u, FALSE);
		if ((x = p_socket_accept (u, NULL)) != NULL) FAILF ("accept on a datagram socket returned a socket");
		p_socket_set_blocking (l, FALSE);
		if ((x = p_socket_accept (l, &err)) != NULL) FAILF ("non-blocking accept with nobody connecting returned a socket");
		if (p_error_get_code (err) != P_ERROR_IO_WOULD_BLOCK) FAILF ("non-blocking accept with nobody connecting: code %d, not would-block", p_error_get_code (err));
		p_error_free (err); err = NULL;
		p_socket_set_blocking (l, TRUE);
		p_socket_free (nl);
	}
	if (!p_socket_connect (c, a, &err)) FAILF ("connect: %s", p_error_get_message (err));
	PSocket *srv = p_socket_accept (l, &err);
	if (!srv) FAILF ("accept: %s", p_error_get_message (err));
	PSocket *all[4] = { l, c, u, srv }; const char *nm[4] = { "listener", "client", "udp", "accepted" };
	for (int i = 0; i < 4; i++) {
		int fl = fcntl (p_socket_get_fd (all[i]), F_GETFD);
		if (fl < 0 || !(fl & FD_CLOEXEC)) FAILF ("%s socket fd %d has no FD_CLOEXEC (F_GETFD=%d)", nm[i], p_socket_get_fd (all[i]), fl);
	}
	if (!p_socket_is_connected (srv) || !p_socket_is_connected (c)) FAILF ("is_connected false after connect/accept");
	int fd = p_socket_get_fd (srv);
	if (!p_socket_close (srv, &err)) FAILF ("close");
	if (p_socket_get_fd (srv) != -1 || !p_socket_is_closed (srv) || p_socket_is_connected (srv)) FAILF ("getters after close");
	if (fcntl (fd, F_GETFD) != -1 || errno != EBADF) FAILF ("descriptor %d still open after close", fd);
	if (!p_socket_close (srv, &err)) FAILF ("second close not TRUE");
	char b[4];
	if (p_socket_receive (srv, b, 4, &err) != -1 || p_error_get_code (err) != P_ERROR_IO_NOT_AVAILABLE) FAILF ("receive after close");
	printf ("ok flags fam=%d\n", fam);
	return 0;
}

/* ---------------------------------------------------------------- eintrconn
 * A blocking connect whose native connect () is interrupted by a handled signal AFTER the handshake was started, and is
 * re-issued while the handshake is still running: POSIX answers the retry with EALREADY.  The caller must not see any of
 * this: the call waits and returns TRUE when the connection is made.  The handshake is kept pending by a listener whose
 * accept queue is full (the SYN is dropped and retransmitted about one second later, when a helper has drained the queue).
 * The interruption is injected by the link-time wrapper of connect () (the real call is made first, then EINTR is
 * reported), everything else is the real kernel. */
static volatile int conn_eintr_armed, conn_retry_errno = -2;
int __real_connect (int, const struct sockaddr *, socklen_t);
int __wrap_connect (int fd, const struct sockaddr *sa, socklen_t len) {
	int r;
	if (conn_eintr_armed == 1) {
		conn_eintr_armed = 2;
		r = __real_connect (fd, sa, len);
		if (r == 0) return 0;                                   /* connected at once: nothing to interrupt */
		errno = EINTR;
		return -1;
	}
	r = __real_connect (fd, sa, len);
	if (conn_eintr_armed == 2) { conn_eintr_armed = 3; conn_retry_errno = r == 0 ? 0 : errno; }
	return r;
}
struct drain { PSocket *l; int n; };
static void *drain_later (void *arg) {
	struct drain *d = arg;
	usleep (300000);
	for (int i = 0; i < d->n; i++) { PSocket *s = p_socket_accept (d->l, NULL); if (s) p_socket_free (s); }
	return NULL;
}
static int t_eintrconn (int fam) {
	int port; PError *err = NULL;
	PSocket *l = listener (fam, 1, &port);
	PSocketAddress *a = p_socket_address_new (loop_addr (fam), (puint16) port);
	PSocket *fill[3]; int nf = 0;
	/* fill the accept queue (backlog 1: two established connections wait, further SYNs are dropped) */
	for (int i = 0; i < 3; i++) {
		PSocket *f = p_socket_new (pfam (fam), P_SOCKET_TYPE_STREAM, P_SOCKET_PROTOCOL_TCP, &err);
		if (!f) FAILF ("socket: %s", p_error_get_message (err));
		p_socket_set_timeout (f, 200);
		if (p_socket_connect (f, a, NULL)) fill[nf++] = f; else { p_socket_free (f); break; }
	}
	if (nf == 3) { printf ("ok eintrconn fam=%d (the accept queue did not fill up: nothing to judge)\n", fam); return 0; }
	PSocket *c = p_socket_new (pfam (fam), P_SOCKET_TYPE_STREAM, P_SOCKET_PROTOCOL_TCP, &err);
	if (!c) FAILF ("socket: %s", p_error_get_message (err));
	p_socket_set_timeout (c, 15000);
	struct drain d = { l, nf + 1 }; pthread_t th;
	p_socket_set_blocking (l, TRUE); p_socket_set_timeout (l, 5000);
	pthread_create (&th, NULL, drain_later, &d);
	double t0 = now_ms ();
	conn_eintr_armed = 1;
	pboolean ok = p_socket_connect (c, a, &err);
	double dt = now_ms () - t0;
	conn_eintr_armed = 0;
	if (!ok) {
		int code = p_error_get_code (err), nat = p_error_get_native_code (err);
		if (code == P_ERROR_IO_TIMED_OUT) { printf ("ok eintrconn fam=%d (handshake not completed within 15 s: nothing to judge)\n", fam); return 0; }
		FAILF ("blocking connect interrupted once by a handled signal (native connect: EINTR, retry answered errno %d while the handshake was running) failed after %.0f ms with code=%d native=%d (%s) although the connection was made", conn_retry_errno, dt, code, nat, p_error_get_message (err));
	}
	if (!p_socket_is_connected (c)) FAILF ("connect returned TRUE but is_connected is FALSE");
	pthread_join (th, NULL);
	printf ("ok eintrconn fam=%d retry_errno=%d waited_ms=%.0f\n", fam, conn_retry_errno, dt);
	return 0;
}

/* ---------------------------------------------------------------- gone */
static int t_gone (int fam) {
	int port; PError *err = NULL;
	PSocket *l = listener (fam, 5, &port);
	PSocket *c = p_socket_new (pfam (fam), P_SOCKET_TYPE_STREAM, P_SOCKET_PROTOCOL_TCP, &err);
	PSocketAddress *a = p_socket_address_new (loop_addr (fam), (puint16) port);
	if (!p_socket_connect (c, a, &err)) FAILF ("connect");
	PSocket *srv = p_socket_accept (l, &err);
	if (!srv) FAILF ("accept");
	/* the application re-enables SIGPIPE delivery after p_libsys_init: only MSG_NOSIGNAL protects now */
	struct sigaction sa; memset (&sa, 0, sizeof sa); sa.sa_handler = on_pipe; sigaction (SIGPIPE, &sa, NULL);
	p_socket_free (srv);                     /* peer has gone */
	usleep (20000);
	char b[64] = { 0 }; int errs = 0, native = 0;
	for (int i = 0; i < 4; i++) {
		err = NULL;
		if (p_socket_send (c, b, sizeof b, &err) < 0) { errs++; native = p_error_get_native_code (err); p_error_free (err); }
		usleep (5000);
	}
	if (n_pipe != 0) FAILF ("p_socket_send to a vanished peer raised SIGPIPE %d time(s)", (int) n_pipe);
	if (errs == 0) FAILF ("p_socket_send to a vanished peer never failed");
	if (native != EPIPE && native != ECONNRESET) FAILF ("p_socket_send to a vanished peer: native %d", native);
	/* informational: p_socket_send_to passes flags 0 — with the handler installed the signal is delivered */
	int before = (int) n_pipe;
	p_socket_send_to (c, a, b, sizeof b, NULL);
	printf ("ok gone fam=%d send_errors=%d native=%d sigpipe_from_send=0 sigpipe_from_send_to=%d\n", fam, errs, native, (int) n_pipe - before);
	return 0;
}

int main (int argc, char **argv) {
	if (argc < 2) return 2;
	p_libsys_init ();
	if (!strcmp (argv[1], "tcp") && argc == 7) { rs = strtoull (argv[2], NULL, 10) * 2654435761ULL + 1; return t_tcp (strtoull (argv[2], NULL, 10), atoi (argv[3]), strtoull (argv[4], NULL, 10), atoi (argv[5]), atoi (argv[6])); }
	if (!strcmp (argv[1], "udp") && argc == 5) { rs = strtoull (argv[2], NULL, 10) + 99; return t_udp (strtoull (argv[2], NULL, 10), atoi (argv[3]), atoi (argv[4])); }
	if (!strcmp (argv[1], "timed") && argc == 5) return t_timed (atoi (argv[2]), atoi (argv[3]), atoi (argv[4]));
	if (!strcmp (argv[1], "sigdata") && argc == 4) return t_sigdata (atoi (argv[2]), atoi (argv[3]));
	if (!strcmp (argv[1], "flags") && argc == 3) return t_flags (atoi (argv[2]));
	if (!strcmp (argv[1], "gone") && argc == 3) return t_gone (atoi (argv[2]));
	if (!strcmp (argv[1], "eintrconn") && argc == 3) return t_eintrconn (atoi (argv[2]));
	if (!strcmp (argv[1], "stall") && argc == 5) return t_stall (strtoull (argv[2], NULL, 10), atoi (argv[3]), atoi (argv[4]));
	if (!strcmp (argv[1], "udpq") && argc == 4) { rs = strtoull (argv[2], NULL, 10) + 7; return t_udpq (strtoull (argv[2], NULL, 10), atoi (argv[3])); }
	return 2;
}

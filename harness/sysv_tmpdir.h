/* force-included (-include) when the library is built for harness/ipc_sysv.c: glibc's <stdio.h> defines P_tmpdir
 * ("/tmp"), which makes p_ipc_unix_get_temp_dir ignore $TMPDIR.  With the macro gone the System V key files go to
 * the private directory the check names in $TMPDIR, so a run can be cleaned up completely and does not meet the
 * key files of other users of /tmp. */
#include <stdio.h>
#undef P_tmpdir

/* C09 / C10 / C19 (socket part) harness: the real psocket.c of the working tree (textually included so
 * that `struct PSocket_` is visible), every native call replaced at link time (-Wl,--wrap=…) by a
 * wrapper that pops its result from the op file's script and logs its arguments.
 * Protocol: see lean/PV/Driver/Socket.lean (same ops, same answer lines).
 * p_socket_address_to_native is wrapped too: it answers FALSE for an address argument written `bad:<hex>`. */
#define _GNU_SOURCE
#include "psocket.c"

#include <plibsys.h>
#include <stdio.h>
#include <stdarg.h>
#include <setjmp.h>
#include <inttypes.h>
#include <sys/socket.h>

/* ------------------------------------------------------------------ script */
enum { S_socket, S_fcntl, S_setsockopt, S_getsockopt, S_getsockname, S_getpeername, S_bind, S_connect,
       S_listen, S_accept, S_recv, S_recvfrom, S_send, S_sendto, S_poll, S_shutdown, S_close, S_signal,
       S_fromnative, S_N };
static const char *sys_names[S_N] = { "socket", "fcntl", "setsockopt", "getsockopt", "getsockname", "getpeername",
	"bind", "connect", "listen", "accept", "recv", "recvfrom", "send", "sendto", "poll", "shutdown", "close",
	"signal", "fromnative" };

typedef struct {
	int sys, is_err;
	long long ret;            /* value, or errno when is_err */
	unsigned char *data; size_t dlen;
	unsigned char *sa; size_t salen;
	long long val, len;
	int has_x; long long xval;   /* poll: revents given exactly (x=) instead of `events | v` */
} Entry;

#define MAXQ 4096
static Entry q[MAXQ];
static int qh, qt;
static int in_call, dead;
static jmp_buf stop_jmp;
static char stop_msg[128];

/* issued log */
static char *isslog; static size_t isslen, isscap;
static void iss (const char *fmt, ...) {
	va_list ap; char tmp[512]; int n;
	va_start (ap, fmt); n = vsnprintf (tmp, sizeof tmp, fmt, ap); va_end (ap);
	if (isslen + (size_t) n + 2 > isscap) { isscap = (isscap + n + 2) * 2; isslog = realloc (isslog, isscap); }
	if (isslen) isslog[isslen++] = ',';
	memcpy (isslog + isslen, tmp, (size_t) n + 1); isslen += (size_t) n;
}
static void iss_raw (const char *s, size_t n) {
	if (isslen + n + 2 > isscap) { isscap = (isscap + n + 2) * 2; isslog = realloc (isslog, isscap); }
	memcpy (isslog + isslen, s, n); isslen += n; isslog[isslen] = 0;
}
static void iss_hex (const unsigned char *p, size_t n) {
	static const char *hx = "0123456789abcdef";
	if (n == 0) { iss_raw ("-", 1); return; }
	char *t = malloc (2 * n + 1);
	for (size_t i = 0; i < n; i++) { t[2 * i] = hx[p[i] >> 4]; t[2 * i + 1] = hx[p[i] & 15]; }
	iss_raw (t, 2 * n); free (t);
}
static FILE *out;
static void print_hex (const unsigned char *p, size_t n) {
	if (n == 0) { fputc ('-', out); return; }
	for (size_t i = 0; i < n; i++) fprintf (out, "%02x", p[i]);
}

/* kernel-side bookkeeping used for the direct oracles */
#define MAXFD 4096
static unsigned char cloexec_tab[MAXFD];
static int n_send, n_send_nosig;
/* direct oracle for "a call fails for a real reason": a native failure of a data call / of the wait other than EINTR / EAGAIN
 * after which the library went on issuing native calls (sw= in the answer; `-` when there is none) */
static long long pend_err, sw_err; static int have_pend, have_sw;

/* caller's buffers (to report pointer offsets) */
static const char *cur_buf; static size_t cur_cap;
/* bytes the wrappers wrote into the caller's buffer */
static size_t cur_written;
/* last new_from_native arguments */
static unsigned char last_na[128]; static size_t last_na_n; static long long last_na_len; static int have_na;

static Entry *pop (int sys) {
	if (qh == qt) { snprintf (stop_msg, sizeof stop_msg, "exhausted"); longjmp (stop_jmp, 1); }
	Entry *e = &q[qh];
	if (e->sys != sys) { snprintf (stop_msg, sizeof stop_msg, "mismatch %s %s", sys_names[sys], sys_names[e->sys]); longjmp (stop_jmp, 1); }
	if (have_pend && !have_sw) { have_sw = 1; sw_err = pend_err; }
	qh++;
	return e;
}
static long long fin (Entry *e) {
	if (e->is_err) {
		if ((e->sys == S_recv || e->sys == S_recvfrom || e->sys == S_send || e->sys == S_sendto || e->sys == S_accept || e->sys == S_poll)
		    && e->ret != EINTR && e->ret != EAGAIN && e->ret != EWOULDBLOCK && !have_pend) { have_pend = 1; pend_err = e->ret; }
		errno = (int) e->ret; return -1;
	}
	return e->ret;
}

/* ------------------------------------------------------------------ wrappers */
int __real_socket (int, int, int);
int __wrap_socket (int d, int t, int p) {
	if (!in_call) return __real_socket (d, t, p);
	Entry *e = pop (S_socket); iss ("socket:%d:%d:%d", d, t, p);
	long long r = fin (e);
	if (r >= 0 && r < MAXFD) cloexec_tab[r] = (t & SOCK_CLOEXEC) != 0;
	return (int) r;
}
int __real_fcntl (int, int, ...);
int __wrap_fcntl (int fd, int cmd, ...) {
	va_list ap; va_start (ap, cmd); long arg = va_arg (ap, long); va_end (ap);
	if (!in_call) return __real_fcntl (fd, cmd, arg);
	Entry *e = pop (S_fcntl); iss ("fcntl:%d:%d:%ld", fd, cmd, (long) (int) arg);
	long long r = fin (e);
	if (r >= 0 && cmd == F_SETFD && fd >= 0 && fd < MAXFD) cloexec_tab[fd] = ((int) arg & FD_CLOEXEC) != 0;
	if (r >= 0 && cmd == F_GETFD && fd >= 0 && fd < MAXFD) cloexec_tab[fd] = (r & FD_CLOEXEC) != 0;   /* the kernel's answer is the truth */
	return (int) r;
}
int __wrap_fcntl64 (int fd, int cmd, ...) {
	va_list ap; va_start (ap, cmd); long arg = va_arg (ap, long); va_end (ap);
	return __wrap_fcntl (fd, cmd, arg);
}
int __real_setsockopt (int, int, int, const void *, socklen_t);
int __wrap_setsockopt (int fd, int level, int opt, const void *val, socklen_t len) {
	if (!in_call) return __real_setsockopt (fd, level, opt, val, len);
	Entry *e = pop (S_setsockopt);
	int v = 0; if (val != NULL && len >= sizeof (int)) memcpy (&v, val, sizeof v);
	iss ("setsockopt:%d:%d:%d:%d:%u", fd, level, opt, v, (unsigned) len);
	return (int) fin (e);
}
int __real_getsockopt (int, int, int, void *, socklen_t *);
int __wrap_getsockopt (int fd, int level, int opt, void *val, socklen_t *len) {
	if (!in_call) return __real_getsockopt (fd, level, opt, val, len);
	Entry *e = pop (S_getsockopt); iss ("getsockopt:%d:%d:%d:%u", fd, level, opt, (unsigned) *len);
	if (!e->is_err) { int v = (int) e->val; if (*len >= sizeof v) memcpy (val, &v, sizeof v); *len = (socklen_t) e->len; }
	return (int) fin (e);
}
static int name_call (int sys, const char *nm, int fd, struct sockaddr *sa, socklen_t *len) {
	Entry *e = pop (sys); iss ("%s:%d:%u", nm, fd, (unsigned) *len);
	if (!e->is_err) { memcpy (sa, e->sa, e->salen < *len ? e->salen : *len); *len = (socklen_t) e->salen; }
	return (int) fin (e);
}
int __real_getsockname (int, struct sockaddr *, socklen_t *);
int __wrap_getsockname (int fd, struct sockaddr *sa, socklen_t *len) {
	if (!in_call) return __real_getsockname (fd, sa, len);
	return name_call (S_getsockname, "getsockname", fd, sa, len);
}
int __real_getpeername (int, struct sockaddr *, socklen_t *);
int __wrap_getpeername (int fd, struct sockaddr *sa, socklen_t *len) {
	if (!in_call) return __real_getpeername (fd, sa, len);
	return name_call (S_getpeername, "getpeername", fd, sa, len);
}
int __real_bind (int, const struct sockaddr *, socklen_t);
int __wrap_bind (int fd, const struct sockaddr *sa, socklen_t len) {
	if (!in_call) return __real_bind (fd, sa, len);
	Entry *e = pop (S_bind); iss ("bind:%d:", fd); iss_hex ((const unsigned char *) sa, len); char t[32]; iss_raw (t, (size_t) sprintf (t, ":%u", (unsigned) len));
	return (int) fin (e);
}
int __real_connect (int, const struct sockaddr *, socklen_t);
int __wrap_connect (int fd, const struct sockaddr *sa, socklen_t len) {
	if (!in_call) return __real_connect (fd, sa, len);
	Entry *e = pop (S_connect); iss ("connect:%d:", fd); iss_hex ((const unsigned char *) sa, len); char t[32]; iss_raw (t, (size_t) sprintf (t, ":%u", (unsigned) len));
	return (int) fin (e);
}
int __real_listen (int, int);
int __wrap_listen (int fd, int bl) {
	if (!in_call) return __real_listen (fd, bl);
	Entry *e = pop (S_listen); iss ("listen:%d:%d", fd, bl);
	return (int) fin (e);
}
int __real_accept (int, struct sockaddr *, socklen_t *);
int __wrap_accept (int fd, struct sockaddr *sa, socklen_t *len) {
	if (!in_call) return __real_accept (fd, sa, len);
	Entry *e = pop (S_accept); iss ("accept:%d:%d:%d", fd, sa == NULL, len == NULL);
	long long r = fin (e);
	if (r >= 0 && r < MAXFD) cloexec_tab[r] = 0;
	return (int) r;
}
/* a source that accepts with accept4 (): same script queue as accept; the descriptor is born close-on-exec iff
 * SOCK_CLOEXEC was passed (the issued-call log shows the flags, so the model column differs: a correspondence matter;
 * what the property says is judged on the close-on-exec state of the accepted socket) */
int __real_accept4 (int, struct sockaddr *, socklen_t *, int);
int __wrap_accept4 (int fd, struct sockaddr *sa, socklen_t *len, int flags) {
	if (!in_call) return __real_accept4 (fd, sa, len, flags);
	Entry *e = pop (S_accept); iss ("accept4:%d:%d:%d:%d", fd, sa == NULL, len == NULL, flags);
	long long r = fin (e);
	if (r >= 0 && r < MAXFD) cloexec_tab[r] = (flags & SOCK_CLOEXEC) != 0;
	return (int) r;
}
static size_t deliver (Entry *e, void *buf, size_t len) {
	size_t n = (size_t) e->ret;
	if (n > len) n = len;
	if (n > e->dlen) n = e->dlen;
	if ((const char *) buf >= cur_buf && (const char *) buf <= cur_buf + cur_cap) {
		size_t room = cur_cap - (size_t) ((const char *) buf - cur_buf);
		if (n > room) n = room;
	} else n = 0;
	memcpy (buf, e->data, n);
	return n;
}
ssize_t __real_recv (int, void *, size_t, int);
ssize_t __wrap_recv (int fd, void *buf, size_t len, int flags) {
	if (!in_call) return __real_recv (fd, buf, len, flags);
	Entry *e = pop (S_recv); iss ("recv:%d:%td:%zu:%d", fd, (const char *) buf - cur_buf, len, flags);
	if (!e->is_err) cur_written = deliver (e, buf, len);
	return (ssize_t) fin (e);
}
ssize_t __real_recvfrom (int, void *, size_t, int, struct sockaddr *, socklen_t *);
ssize_t __wrap_recvfrom (int fd, void *buf, size_t len, int flags, struct sockaddr *sa, socklen_t *salen) {
	if (!in_call) return __real_recvfrom (fd, buf, len, flags, sa, salen);
	Entry *e = pop (S_recvfrom); iss ("recvfrom:%d:%td:%zu:%d:%u", fd, (const char *) buf - cur_buf, len, flags, (unsigned) *salen);
	if (!e->is_err) {
		cur_written = deliver (e, buf, len);
		memcpy (sa, e->sa, e->salen < *salen ? e->salen : *salen); *salen = (socklen_t) e->salen;
	}
	return (ssize_t) fin (e);
}
static void log_out_data (const void *buf, size_t len) {
	size_t n = len;
	if ((const char *) buf >= cur_buf && (const char *) buf <= cur_buf + cur_cap) {
		size_t room = cur_cap - (size_t) ((const char *) buf - cur_buf);
		if (n > room) n = room;
	} else n = 0;
	iss_hex ((const unsigned char *) buf, n);
}
ssize_t __real_send (int, const void *, size_t, int);
ssize_t __wrap_send (int fd, const void *buf, size_t len, int flags) {
	if (!in_call) return __real_send (fd, buf, len, flags);
	Entry *e = pop (S_send); iss ("send:%d:%td:%zu:%d:", fd, (const char *) buf - cur_buf, len, flags); log_out_data (buf, len);
	n_send++; if (flags & MSG_NOSIGNAL) n_send_nosig++;
	return (ssize_t) fin (e);
}
ssize_t __real_sendto (int, const void *, size_t, int, const struct sockaddr *, socklen_t);
ssize_t __wrap_sendto (int fd, const void *buf, size_t len, int flags, const struct sockaddr *sa, socklen_t salen) {
	if (!in_call) return __real_sendto (fd, buf, len, flags, sa, salen);
	Entry *e = pop (S_sendto); iss ("sendto:%d:%td:%zu:%d:", fd, (const char *) buf - cur_buf, len, flags); log_out_data (buf, len);
	iss_raw (":", 1); iss_hex ((const unsigned char *) sa, salen); char t[32]; iss_raw (t, (size_t) sprintf (t, ":%u", (unsigned) salen));
	return (ssize_t) fin (e);
}
int __real_poll (struct pollfd *, nfds_t, int);
int __wrap_poll (struct pollfd *pfd, nfds_t n, int timeout) {
	if (!in_call) return __real_poll (pfd, n, timeout);
	Entry *e = pop (S_poll); iss ("poll:%d:%d:%d:%lu", pfd->fd, (int) pfd->events, timeout, (unsigned long) n);
	/* `v=` on a successful poll line: extra revents bits the kernel reports together with readiness
	 * (POLLHUP 16, POLLERR 8, …); the library only looks at poll's return value */
	if (!e->is_err && e->ret > 0) pfd->revents = e->has_x ? (short) e->xval : (short) (pfd->events | (short) e->val);
	return (int) fin (e);
}
int __real_shutdown (int, int);
int __wrap_shutdown (int fd, int how) {
	if (!in_call) return __real_shutdown (fd, how);
	Entry *e = pop (S_shutdown); iss ("shutdown:%d:%d", fd, how);
	return (int) fin (e);
}
int __real_close (int);
int __wrap_close (int fd) {
	if (!in_call) return __real_close (fd);
	Entry *e = pop (S_close); iss ("close:%d", fd);
	long long r = fin (e);
	if (r == 0 && fd >= 0 && fd < MAXFD) cloexec_tab[fd] = 0;
	return (int) r;
}
typedef void (*sighandler_fn) (int);
sighandler_fn __real_signal (int, sighandler_fn);
sighandler_fn __wrap_signal (int sig, sighandler_fn h) {
	if (!in_call) return __real_signal (sig, h);
	Entry *e = pop (S_signal); iss ("signal:%d:%d", sig, h == SIG_IGN);
	(void) e;
	return SIG_DFL;
}
PSocketAddress *__real_p_socket_address_new_from_native (pconstpointer, psize);
PSocketAddress *__wrap_p_socket_address_new_from_native (pconstpointer native, psize len) {
	if (!in_call) return __real_p_socket_address_new_from_native (native, len);
	Entry *e = pop (S_fromnative);
	size_t n = len < 128 ? (size_t) len : 128;
	iss ("fromnative:"); iss_hex ((const unsigned char *) native, n); char t[32]; iss_raw (t, (size_t) sprintf (t, ":%llu", (unsigned long long) len));
	memcpy (last_na, native, n); last_na_n = n; last_na_len = (long long) len; have_na = 1;
	if (!e->is_err && e->ret == 0) return NULL;
	return __real_p_socket_address_new_from_native (native, len);
}

/* an address argument written `bad:<hex>` is an object p_socket_address_to_native rejects (during that one call) */
static int bad_addr, bad_next;
pboolean __real_p_socket_address_to_native (const PSocketAddress *, ppointer, psize);
pboolean __wrap_p_socket_address_to_native (const PSocketAddress *a, ppointer dest, psize len) {
	if (in_call && bad_addr) return FALSE;
	return __real_p_socket_address_to_native (a, dest, len);
}

/* ------------------------------------------------------------------ op files */
#define NSLOT 16
static PSocket *slots[NSLOT];

static int hexval (int c) { if (c >= '0' && c <= '9') return c - '0'; if (c >= 'a' && c <= 'f') return c - 'a' + 10; if (c >= 'A' && c <= 'F') return c - 'A' + 10; return -1; }
/* returns malloc'd bytes (never NULL), -1 length on error */
static unsigned char *parse_hex (const char *s, long *n) {
	size_t l = strlen (s);
	if (!strcmp (s, "-")) { *n = 0; return malloc (1); }
	if (l % 2) { *n = -1; return NULL; }
	unsigned char *b = malloc (l / 2 + 1);
	for (size_t i = 0; i < l / 2; i++) {
		int a = hexval (s[2 * i]), c = hexval (s[2 * i + 1]);
		if (a < 0 || c < 0) { free (b); *n = -1; return NULL; }
		b[i] = (unsigned char) (a * 16 + c);
	}
	*n = (long) (l / 2);
	return b;
}
static int parse_ll (const char *s, long long *v) { char *end; if (!*s) return 0; *v = strtoll (s, &end, 10); return *end == 0; }
static int parse_ull (const char *s, unsigned long long *v) { char *end; if (!*s || *s == '-') return 0; *v = strtoull (s, &end, 10); return *end == 0; }
static int parse_slot (const char *s, int *v) { long long x; if (!parse_ll (s, &x) || x < 0 || x >= NSLOT) return 0; *v = (int) x; return 1; }
static int parse_bool (const char *s, int *v) { if (!strcmp (s, "0")) { *v = 0; return 1; } if (!strcmp (s, "1")) { *v = 1; return 1; } return 0; }
/* a pboolean argument given as any int (the API takes `pboolean` = int: every non-zero value means TRUE) */
static int parse_pbool (const char *s, int *v) { long long x; if (!parse_ll (s, &x) || x < -2147483647LL - 1 || x > 2147483647LL) return 0; *v = (int) x; return 1; }

static void clear_script (void) {
	for (int i = 0; i < qt; i++) { free (q[i].data); free (q[i].sa); q[i].data = q[i].sa = NULL; }
	qh = qt = 0;
}

static void print_getters (PSocket *s) {
	fprintf (out, "%d,%d,%d,%d,%d,%d,%d,%d,%d,%d,", p_socket_get_fd (s), (int) p_socket_get_family (s), (int) p_socket_get_type (s),
		(int) p_socket_get_protocol (s), (int) p_socket_get_keepalive (s), (int) p_socket_get_blocking (s),
		p_socket_get_listen_backlog (s), p_socket_get_timeout (s), (int) p_socket_is_connected (s), (int) p_socket_is_closed (s));
	if (s) fprintf (out, "%d", (int) s->listening); else fprintf (out, "-");
}

typedef struct {
	long long ret; PError *err;
	int slot, newslot, created, adopted;
	int want_addr_out; PSocketAddress *addr_out;
} CallOut;

static void begin_call (void) {
	isslen = 0; if (isslog) isslog[0] = 0;
	n_send = n_send_nosig = 0; cur_written = 0; have_na = 0; have_pend = have_sw = 0;
	bad_addr = bad_next; bad_next = 0;
	errno = 0; in_call = 1;
}

static void answer (CallOut *o) {
	in_call = 0; bad_addr = 0;
	fprintf (out, "r=%lld e=", o->ret);
	if (o->err) {
		fprintf (out, "%d/%d/", p_error_get_code (o->err), p_error_get_native_code (o->err));
		const char *m = p_error_get_message (o->err);
		for (; m && *m; m++) fputc (*m == ' ' ? '_' : *m, out);
		p_error_free (o->err);
	} else fputc ('-', out);
	fprintf (out, " d="); print_hex ((const unsigned char *) cur_buf, cur_written);
	fprintf (out, " a=");
	if (o->addr_out != NULL && have_na) { fprintf (out, "%lld:", last_na_len); print_hex (last_na, last_na_n); }
	else fputc ('-', out);
	if (o->addr_out) p_socket_address_free (o->addr_out);
	fprintf (out, " iss=%s left=%d g=", isslen ? isslog : "-", qt - qh);
	if (o->slot >= 0) print_getters (slots[o->slot]); else fputc ('-', out);
	fprintf (out, " n=");
	if (o->newslot >= 0 && o->created) print_getters (slots[o->newslot]); else fputc ('-', out);
	fprintf (out, " cx=");
	if (o->newslot >= 0 && o->created && !o->adopted) { int fd = slots[o->newslot]->fd; fprintf (out, "%d", fd >= 0 && fd < MAXFD ? cloexec_tab[fd] : 0); } else fputc ('-', out);
	fprintf (out, " ns=");
	if (n_send == 0) fputc ('-', out); else fputc (n_send == n_send_nosig ? '1' : '0', out);
	if (have_sw) fprintf (out, " sw=%lld", sw_err); else fprintf (out, " sw=-");
	fputc ('\n', out);
	clear_script ();
}

static PSocketAddress *mk_addr (const char *s, int *ok) {
	*ok = 1;
	if (!strcmp (s, "null")) return NULL;
	if (!strncmp (s, "bad:", 4)) { s += 4; bad_next = 1; }
	long n; unsigned char *b = parse_hex (s, &n);
	if (n < 0) { *ok = 0; return NULL; }
	PSocketAddress *a = __real_p_socket_address_new_from_native (b, (psize) n);
	free (b);
	if (a == NULL) *ok = 0;
	return a;
}

#define BAD do { fputs ("bad-op\n", out); goto next; } while (0)

int main (void) {
	static char line[1 << 21];
	char *tok[16];
	/* the library prints warnings with printf(): keep stdout for the answers only */
	out = fdopen (dup (1), "w"); dup2 (2, 1);
	p_libsys_init ();
	while (fgets (line, sizeof line, stdin)) {
		int nt = 0;
		for (char *p = strtok (line, " \t\r\n"); p && nt < 16; p = strtok (NULL, " \t\r\n")) tok[nt++] = p;
		if (nt == 0) continue;
		if (!strcmp (tok[0], "reset") && nt == 1) {
			in_call = 0;
			for (int i = 0; i < NSLOT; i++) if (slots[i]) { if (!slots[i]->closed) { slots[i]->closed = 1; } p_socket_free (slots[i]); slots[i] = NULL; }
			clear_script (); dead = 0; memset (cloexec_tab, 0, sizeof cloexec_tab);
			fputs ("ok\n", out); goto next;
		}
		if (dead) { fputs ("dead\n", out); goto next; }
		if (!strcmp (tok[0], "sys")) {
			if (nt < 3 || qt >= MAXQ) BAD;
			Entry e; memset (&e, 0, sizeof e); e.len = 4; e.sys = -1;
			for (int i = 0; i < S_N; i++) if (!strcmp (tok[1], sys_names[i])) e.sys = i;
			if (e.sys < 0) BAD;
			if (tok[2][0] == 'e') { e.is_err = 1; if (!parse_ll (tok[2] + 1, &e.ret)) BAD; }
			else { unsigned long long u; if (!parse_ull (tok[2], &u)) BAD; e.ret = (long long) u; }
			int okx = 1;
			for (int i = 3; i < nt && okx; i++) {
				long n;
				if (!strncmp (tok[i], "d=", 2)) { free (e.data); e.data = parse_hex (tok[i] + 2, &n); if (n < 0) okx = 0; else e.dlen = (size_t) n; }
				else if (!strncmp (tok[i], "sa=", 3)) { free (e.sa); e.sa = parse_hex (tok[i] + 3, &n); if (n < 0) okx = 0; else e.salen = (size_t) n; }
				else if (!strncmp (tok[i], "v=", 2)) { if (!parse_ll (tok[i] + 2, &e.val)) okx = 0; }
				else if (!strncmp (tok[i], "l=", 2)) { if (!parse_ll (tok[i] + 2, &e.len)) okx = 0; }
				else if (!strncmp (tok[i], "x=", 2)) { if (!parse_ll (tok[i] + 2, &e.xval)) okx = 0; else e.has_x = 1; }
				else okx = 0;
			}
			if (!okx) { free (e.data); free (e.sa); BAD; }
			q[qt++] = e;
			fputs ("ok\n", out); goto next;
		}
		{
			CallOut o; memset (&o, 0, sizeof o); o.slot = o.newslot = -1;
			int s = -1, ns = -1, b1, b2, ok;
			long long a1, a2, a3; unsigned long long u1;
			char *buf = NULL; PSocketAddress *addr = NULL; long hn;
			cur_buf = NULL; cur_cap = 0;
			bad_next = 0;
			if (setjmp (stop_jmp)) {
				in_call = 0; bad_addr = 0; dead = 1; clear_script ();
				fprintf (out, "%s\n", stop_msg); goto next;
			}
			if (!strcmp (tok[0], "initonce") && nt == 1) { begin_call (); p_socket_init_once (); o.ret = 1; answer (&o); }
			else if (!strcmp (tok[0], "new") && nt == 5) {
				if (!parse_slot (tok[1], &ns) || slots[ns] || !parse_ll (tok[2], &a1) || !parse_ll (tok[3], &a2) || !parse_ll (tok[4], &a3)) BAD;
				begin_call (); slots[ns] = p_socket_new ((PSocketFamily) a1, (PSocketType) a2, (PSocketProtocol) a3, &o.err);
				o.newslot = ns; o.created = slots[ns] != NULL; o.ret = o.created; answer (&o);
			}
			else if (!strcmp (tok[0], "newfd") && nt == 3) {
				if (!parse_slot (tok[1], &ns) || slots[ns] || !parse_ll (tok[2], &a1)) BAD;
				o.adopted = 1; begin_call (); slots[ns] = p_socket_new_from_fd ((pint) a1, &o.err);
				o.newslot = ns; o.created = slots[ns] != NULL; o.ret = o.created; answer (&o);
			}
			else if (!strcmp (tok[0], "free") && nt == 2) {
				if (!parse_slot (tok[1], &s)) BAD;
				begin_call (); p_socket_free (slots[s]); slots[s] = NULL; o.slot = s; o.ret = 1; answer (&o);
			}
			else if (!strcmp (tok[0], "bind") && nt == 4) {
				if (!parse_slot (tok[1], &s) || !parse_pbool (tok[3], &b1)) BAD;
				addr = mk_addr (tok[2], &ok); if (!ok) BAD;
				begin_call (); o.ret = p_socket_bind (slots[s], addr, b1, &o.err); o.slot = s; answer (&o);
				if (addr) p_socket_address_free (addr);
			}
			else if (!strcmp (tok[0], "connect") && nt == 3) {
				if (!parse_slot (tok[1], &s)) BAD;
				addr = mk_addr (tok[2], &ok); if (!ok) BAD;
				begin_call (); o.ret = p_socket_connect (slots[s], addr, &o.err); o.slot = s; answer (&o);
				if (addr) p_socket_address_free (addr);
			}
			else if (!strcmp (tok[0], "listen") && nt == 2) {
				if (!parse_slot (tok[1], &s)) BAD;
				begin_call (); o.ret = p_socket_listen (slots[s], &o.err); o.slot = s; answer (&o);
			}
			else if (!strcmp (tok[0], "accept") && nt == 3) {
				if (!parse_slot (tok[1], &s) || !parse_slot (tok[2], &ns) || slots[ns] || s == ns) BAD;
				begin_call (); slots[ns] = p_socket_accept (slots[s], &o.err);
				o.slot = s; o.newslot = ns; o.created = slots[ns] != NULL; o.ret = o.created; answer (&o);
			}
			else if (!strcmp (tok[0], "recv") && (nt == 3 || (nt == 4 && !strcmp (tok[3], "null")))) {
				if (!parse_slot (tok[1], &s) || !parse_ull (tok[2], &u1)) BAD;
				cur_cap = u1 > (1u << 20) ? (1u << 20) : (size_t) u1; buf = malloc (cur_cap ? cur_cap : 1); cur_buf = buf;
				begin_call (); o.ret = p_socket_receive (slots[s], nt == 4 ? NULL : buf, (psize) u1, &o.err); o.slot = s; answer (&o);
				free (buf);
			}
			else if (!strcmp (tok[0], "recvfrom") && (nt == 4 || (nt == 5 && !strcmp (tok[4], "null")))) {
				if (!parse_slot (tok[1], &s) || !parse_ull (tok[2], &u1) || !parse_bool (tok[3], &b1)) BAD;
				cur_cap = u1 > (1u << 20) ? (1u << 20) : (size_t) u1; buf = malloc (cur_cap ? cur_cap : 1); cur_buf = buf;
				begin_call (); o.ret = p_socket_receive_from (slots[s], b1 ? &o.addr_out : NULL, nt == 5 ? NULL : buf, (psize) u1, &o.err); o.slot = s; answer (&o);
				free (buf);
			}
			else if (!strcmp (tok[0], "send") && (nt == 3 || nt == 4)) {
				if (!parse_slot (tok[1], &s)) BAD;
				if (!strcmp (tok[2], "null")) { if (nt != 4) BAD; buf = NULL; hn = 0; }
				else { buf = (char *) parse_hex (tok[2], &hn); if (hn < 0) BAD; }
				u1 = (unsigned long long) hn;
				if (nt == 4 && !parse_ull (tok[3], &u1)) { free (buf); BAD; }
				cur_buf = buf; cur_cap = (size_t) hn;
				begin_call (); o.ret = p_socket_send (slots[s], buf, (psize) u1, &o.err); o.slot = s; cur_written = 0; answer (&o);
				free (buf);
			}
			else if (!strcmp (tok[0], "sendto") && (nt == 4 || nt == 5)) {
				if (!parse_slot (tok[1], &s)) BAD;
				addr = mk_addr (tok[2], &ok); if (!ok) BAD;
				if (!strcmp (tok[3], "null")) { if (nt != 5) BAD; buf = NULL; hn = 0; }
				else { buf = (char *) parse_hex (tok[3], &hn); if (hn < 0) BAD; }
				u1 = (unsigned long long) hn;
				if (nt == 5 && !parse_ull (tok[4], &u1)) { free (buf); BAD; }
				cur_buf = buf; cur_cap = (size_t) hn;
				begin_call (); o.ret = p_socket_send_to (slots[s], addr, buf, (psize) u1, &o.err); o.slot = s; cur_written = 0; answer (&o);
				free (buf); if (addr) p_socket_address_free (addr);
			}
			else if (!strcmp (tok[0], "close") && nt == 2) {
				if (!parse_slot (tok[1], &s)) BAD;
				begin_call (); o.ret = p_socket_close (slots[s], &o.err); o.slot = s; answer (&o);
			}
			else if (!strcmp (tok[0], "shutdown") && nt == 4) {
				if (!parse_slot (tok[1], &s) || !parse_pbool (tok[2], &b1) || !parse_pbool (tok[3], &b2)) BAD;
				begin_call (); o.ret = p_socket_shutdown (slots[s], b1, b2, &o.err); o.slot = s; answer (&o);
			}
			else if (!strcmp (tok[0], "setbuf") && nt == 4) {
				if (!parse_slot (tok[1], &s) || !parse_ll (tok[2], &a1) || !parse_ull (tok[3], &u1)) BAD;
				begin_call (); o.ret = p_socket_set_buffer_size (slots[s], (PSocketDirection) a1, (psize) u1, &o.err); o.slot = s; answer (&o);
			}
			else if (!strcmp (tok[0], "wait") && nt == 3) {
				if (!parse_slot (tok[1], &s) || !parse_ll (tok[2], &a1)) BAD;
				begin_call (); o.ret = p_socket_io_condition_wait (slots[s], (PSocketIOCondition) a1, &o.err); o.slot = s; answer (&o);
			}
			else if (!strcmp (tok[0], "chk") && nt == 2) {
				if (!parse_slot (tok[1], &s)) BAD;
				begin_call (); o.ret = p_socket_check_connect_result (slots[s], &o.err); o.slot = s; answer (&o);
			}
			else if (!strcmp (tok[0], "setka") && nt == 3) {
				if (!parse_slot (tok[1], &s) || !parse_pbool (tok[2], &b1)) BAD;
				begin_call (); p_socket_set_keepalive (slots[s], b1); o.ret = 1; o.slot = s; answer (&o);
			}
			else if (!strcmp (tok[0], "setblk") && nt == 3) {
				if (!parse_slot (tok[1], &s) || !parse_pbool (tok[2], &b1)) BAD;
				begin_call (); p_socket_set_blocking (slots[s], b1); o.ret = 1; o.slot = s; answer (&o);
			}
			else if (!strcmp (tok[0], "setbl") && nt == 3) {
				if (!parse_slot (tok[1], &s) || !parse_ll (tok[2], &a1)) BAD;
				begin_call (); p_socket_set_listen_backlog (slots[s], (pint) a1); o.ret = 1; o.slot = s; answer (&o);
			}
			else if (!strcmp (tok[0], "setto") && nt == 3) {
				if (!parse_slot (tok[1], &s) || !parse_ll (tok[2], &a1)) BAD;
				begin_call (); p_socket_set_timeout (slots[s], (pint) a1); o.ret = 1; o.slot = s; answer (&o);
			}
			else if ((!strcmp (tok[0], "local") || !strcmp (tok[0], "remote")) && nt == 2) {
				if (!parse_slot (tok[1], &s)) BAD;
				begin_call ();
				o.addr_out = tok[0][0] == 'l' ? p_socket_get_local_address (slots[s], &o.err) : p_socket_get_remote_address (slots[s], &o.err);
				o.ret = o.addr_out != NULL; o.slot = s; answer (&o);
			}
			else BAD;
		}
next:
		fflush (out);
	}
	return 0;
}

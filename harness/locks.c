/* C01 harness: lock / trylock / unlock sequences on the real lock implementations of the working tree.
 *
 *   -DPV_KIND=1  PSpinLock of the linked back-end (pspinlock-c11.c | -sync.c | -sim.c + pmutex-posix.c)
 *   -DPV_KIND=2  PMutex (pmutex-posix.c) on the real pthread mutex
 *   -DPV_KIND=3  PMutex with pthread_mutex_{init,lock,trylock,unlock,destroy} replaced at link time
 *                (-Wl,--wrap=…): each native call returns the code given in the op and is logged
 *   -DPV_VARIANT="c11" …  name answered by the `variant` op;  -DPV_HAS_WORD=1: the lock word is an int at
 *                offset 0 of the object (c11 / sync) and is printed after every op.
 *
 * ops (kinds 1, 2):  lock | try | unlock  (main thread)            -> "<ret>[ <word>]"
 *                    contend  (main thread holds; a second thread calls lock; 150 ms watchdog)
 *                                                                  -> blocks | acquired
 * ops (kind 3):      new C | lock C | try C | unlock C | free C    -> "<ret> <native function called | ->"
 * The library's own diagnostics (P_ERROR prints to stdout) are diverted to stderr. */
#include <pmutex.h>
#include <pspinlock.h>
#include <pmem.h>
#include <stdio.h>
#include <stdlib.h>
#include <string.h>
#include <stdint.h>
#include <unistd.h>
#include <pthread.h>
#include <time.h>

extern void p_mem_init (void);
extern void p_mem_shutdown (void);

#ifndef PV_HAS_WORD
#  define PV_HAS_WORD 0
#endif

static FILE *po;

#if PV_KIND == 1
static PSpinLock *L;
#  define NEW() p_spinlock_new ()
#  define LOCK() p_spinlock_lock (L)
#  define TRY() p_spinlock_trylock (L)
#  define UNLOCK() p_spinlock_unlock (L)
#  define FREE() p_spinlock_free (L)
#else
static PMutex *L;
#  define NEW() p_mutex_new ()
#  define LOCK() p_mutex_lock (L)
#  define TRY() p_mutex_trylock (L)
#  define UNLOCK() p_mutex_unlock (L)
#  define FREE() p_mutex_free (L)
#endif

#if PV_KIND == 3
static int script_code;
static const char *last_native = "-";
int __wrap_pthread_mutex_init (pthread_mutex_t *m, const pthread_mutexattr_t *a) { (void) m; (void) a; last_native = "pthread_mutex_init"; return script_code; }
int __wrap_pthread_mutex_lock (pthread_mutex_t *m) { (void) m; last_native = "pthread_mutex_lock"; return script_code; }
int __wrap_pthread_mutex_trylock (pthread_mutex_t *m) { (void) m; last_native = "pthread_mutex_trylock"; return script_code; }
int __wrap_pthread_mutex_unlock (pthread_mutex_t *m) { (void) m; last_native = "pthread_mutex_unlock"; return script_code; }
int __wrap_pthread_mutex_destroy (pthread_mutex_t *m) { (void) m; last_native = "pthread_mutex_destroy"; return script_code; }
#endif

static void answer (int ret) {
#if PV_HAS_WORD
	fprintf (po, "%d %d\n", ret, *(volatile int *) L);
#else
	fprintf (po, "%d\n", ret);
#endif
}

#if PV_KIND != 3
static volatile int t_done, t_go;

static void *contender (void *arg) {
	(void) arg;
	(void) LOCK ();
	__atomic_store_n (&t_done, 1, __ATOMIC_SEQ_CST);
	while (!__atomic_load_n (&t_go, __ATOMIC_SEQ_CST)) usleep (200);
	(void) UNLOCK ();
	return NULL;
}

static void contend (void) {
	pthread_t th;
	struct timespec ts = { 0, 1000000 };
	int i, early;
	t_done = 0; t_go = 0;
	if (pthread_create (&th, NULL, contender, NULL) != 0) { fputs ("thread-failed\n", po); return; }
	for (i = 0; i < 150 && !__atomic_load_n (&t_done, __ATOMIC_SEQ_CST); i++) nanosleep (&ts, NULL);
	early = __atomic_load_n (&t_done, __ATOMIC_SEQ_CST);
	fputs (early ? "acquired\n" : "blocks\n", po);
	(void) UNLOCK ();
	__atomic_store_n (&t_go, 1, __ATOMIC_SEQ_CST);
	pthread_join (th, NULL);
}
#endif

int main (void) {
	char line[256], op[32], arg[32];
	long long c;
	int out = dup (1);
	po = fdopen (out, "w");
	dup2 (2, 1);			/* library diagnostics -> stderr */
	p_mem_init ();
#if PV_KIND != 3
	L = NEW ();
#endif
	while (fgets (line, sizeof line, stdin)) {
		c = 0;
		int n = sscanf (line, "%31s %lld", op, &c);
		if (n < 1) continue;
		if (!strcmp (op, "variant")) {
			if (sscanf (line, "%*s %31s", arg) == 1 && !strcmp (arg, PV_VARIANT)) fputs ("ok\n", po); else fputs ("bad-op\n", po);
		}
#if PV_KIND != 3
		else if (!strcmp (op, "reset") && n == 1) { FREE (); L = NEW (); fputs ("ok\n", po); }
		else if (!strcmp (op, "lock") && n == 1) answer (LOCK ());
		else if (!strcmp (op, "try") && n == 1) answer (TRY ());
		else if (!strcmp (op, "unlock") && n == 1) answer (UNLOCK ());
		else if (!strcmp (op, "contend") && n == 1) contend ();
#else
		else if (!strcmp (op, "reset") && n == 1) { script_code = 0; if (L) FREE (); L = NULL; fputs ("ok\n", po); }
		else if (!strcmp (op, "new") && n == 2) {
			script_code = (int) c; last_native = "-";
			if (L) { int k = script_code; script_code = 0; FREE (); script_code = k; last_native = "-"; }
			L = NEW ();
			fprintf (po, "%s %s\n", L ? "ok" : "null", last_native);
		}
		else if (!strcmp (op, "lock") && n == 2) { script_code = (int) c; last_native = "-"; int r = LOCK (); fprintf (po, "%d %s\n", r, last_native); }
		else if (!strcmp (op, "try") && n == 2) { script_code = (int) c; last_native = "-"; int r = TRY (); fprintf (po, "%d %s\n", r, last_native); }
		else if (!strcmp (op, "unlock") && n == 2) { script_code = (int) c; last_native = "-"; int r = UNLOCK (); fprintf (po, "%d %s\n", r, last_native); }
		else if (!strcmp (op, "free") && n == 2) { script_code = (int) c; last_native = "-"; FREE (); L = NULL; fprintf (po, "- %s\n", last_native); }
#endif
		else fputs ("bad-op\n", po);
		fflush (po);
	}
	fflush (po);
	return 0;
}

/* C01 harness: lock / trylock / unlock sequences on the real lock implementations of the working tree.
 *
 *   -DPV_KIND=1  PSpinLock of the linked back-end (pspinlock-c11.c | -sync.c | -sim.c + pmutex-posix.c)
 *   -DPV_KIND=2  PMutex (pmutex-posix.c) on the real pthread mutex
 *   -DPV_KIND=3  PMutex with pthread_mutex_{init,lock,trylock,unlock,destroy} replaced at link time
 *                (-Wl,--wrap=…): each native call returns the code given in the op and is logged
 *   -DPV_VARIANT="c11" …  name answered by the `variant` op;  -DPV_HAS_WORD=1: the lock word is an int at
 *                offset 0 of the object (c11 / sync) and is printed after every op.
 *
 * ops (kinds 1, 2):  lock | try | unlock  (main thread)            -> "<ret>[ <word>]"
 *                    contend  (main thread holds; a second thread calls lock; 150 ms watchdog)
 *                                                                  -> blocks | acquired
 *                    lock K | try K | unlock K   the same on object K of 0..3 (0 = the object of the index-free
 *                             ops); K = -1 passes NULL             -> "<ret>[ <word>]" | "<ret> null"
 *                    tother K   a second thread calls trylock on object K once and, if it got the lock, unlocks it
 *                                                                  -> "<ret>[ <word afterwards>]"
 *                    contend2 K (main thread holds K) two more threads call lock: three threads; 150 ms watchdog
 *                             -> blocks | acquired ; then main unlocks and both take the lock in turn, " overlap"
 *                             is appended when the shadow holder count ever exceeded 1
 * ops (kind 3):      new C | lock C | try C | unlock C | free C    -> "<ret> <native function called | ->"
 *                    the native name carries "+attr" when pthread_mutex_init got an attribute object and "!ptr"
 *                    when a native call got another address than the one given to pthread_mutex_init
 * The library's own diagnostics (P_ERROR prints to stdout) are diverted to stderr. */
#include <pmutex.h>
#include <pspinlock.h>
#include <pmem.h>
#include <stdio.h>
#include <stdlib.h>
#include <string.h>
#include <stdint.h>
#include <unistd.h>
#include <pthread.h>
#include <time.h>

extern void p_mem_init (void);
extern void p_mem_shutdown (void);

#ifndef PV_HAS_WORD
#  define PV_HAS_WORD 0
#endif

static FILE *po;

#define NOBJ 4
#if PV_KIND == 1
typedef PSpinLock LK;
#  define NEW() p_spinlock_new ()
#  define LOCKX(l) p_spinlock_lock (l)
#  define TRYX(l) p_spinlock_trylock (l)
#  define UNLOCKX(l) p_spinlock_unlock (l)
#  define FREEX(l) p_spinlock_free (l)
#else
typedef PMutex LK;
#  define NEW() p_mutex_new ()
#  define LOCKX(l) p_mutex_lock (l)
#  define TRYX(l) p_mutex_trylock (l)
#  define UNLOCKX(l) p_mutex_unlock (l)
#  define FREEX(l) p_mutex_free (l)
#endif
static LK *OBJ[NOBJ];
#define L (OBJ[0])
#define LOCK() LOCKX (L)
#define TRY() TRYX (L)
#define UNLOCK() UNLOCKX (L)
#define FREE() FREEX (L)

#if PV_KIND == 3
static int script_code;
static const char *last_native = "-";
static pthread_mutex_t *init_ptr;
#define NAT(m, name) (last_native = ((m) == init_ptr) ? name : name "!ptr")
int __wrap_pthread_mutex_init (pthread_mutex_t *m, const pthread_mutexattr_t *a) { init_ptr = m; last_native = a ? "pthread_mutex_init+attr" : "pthread_mutex_init"; return script_code; }
int __wrap_pthread_mutex_lock (pthread_mutex_t *m) { NAT (m, "pthread_mutex_lock"); return script_code; }
int __wrap_pthread_mutex_trylock (pthread_mutex_t *m) { NAT (m, "pthread_mutex_trylock"); return script_code; }
int __wrap_pthread_mutex_unlock (pthread_mutex_t *m) { NAT (m, "pthread_mutex_unlock"); return script_code; }
int __wrap_pthread_mutex_destroy (pthread_mutex_t *m) { NAT (m, "pthread_mutex_destroy"); return script_code; }
#endif

static void answer_on (int ret, LK *l) {
	if (l == NULL) { fprintf (po, "%d null\n", ret); return; }
#if PV_HAS_WORD
	fprintf (po, "%d %d\n", ret, *(volatile int *) l);
#else
	fprintf (po, "%d\n", ret);
#endif
}
#define answer(ret) answer_on (ret, L)

#if PV_KIND != 3
static volatile int t_done, t_go;

static void *contender (void *arg) {
	(void) arg;
	(void) LOCK ();
	__atomic_store_n (&t_done, 1, __ATOMIC_SEQ_CST);
	while (!__atomic_load_n (&t_go, __ATOMIC_SEQ_CST)) usleep (200);
	(void) UNLOCK ();
	return NULL;
}

static void contend (void) {
	pthread_t th;
	struct timespec ts = { 0, 1000000 };
	int i, early;
	t_done = 0; t_go = 0;
	if (pthread_create (&th, NULL, contender, NULL) != 0) { fputs ("thread-failed\n", po); return; }
	for (i = 0; i < 150 && !__atomic_load_n (&t_done, __ATOMIC_SEQ_CST); i++) nanosleep (&ts, NULL);
	early = __atomic_load_n (&t_done, __ATOMIC_SEQ_CST);
	fputs (early ? "acquired\n" : "blocks\n", po);
	(void) UNLOCK ();
	__atomic_store_n (&t_go, 1, __ATOMIC_SEQ_CST);
	pthread_join (th, NULL);
}

/* a second thread: one trylock on *arg; unlocks again when it got the lock */
static void *try_other (void *arg) {
	LK *l = arg;
	int r = TRYX (l);
	if (r) (void) UNLOCKX (l);
	return (void *) (intptr_t) r;
}

static void tother (LK *l) {
	pthread_t th;
	void *r = NULL;
	if (pthread_create (&th, NULL, try_other, l) != 0) { fputs ("thread-failed\n", po); return; }
	pthread_join (th, &r);
	answer_on ((int) (intptr_t) r, l);
}

/* three threads: main holds, two more call lock */
static volatile int c2_done, c2_in, c2_overlap;

static void *contender2 (void *arg) {
	LK *l = arg;
	(void) LOCKX (l);
	__atomic_add_fetch (&c2_done, 1, __ATOMIC_SEQ_CST);
	if (__atomic_add_fetch (&c2_in, 1, __ATOMIC_SEQ_CST) != 1) c2_overlap = 1;
	while (!__atomic_load_n (&t_go, __ATOMIC_SEQ_CST)) usleep (200);
	usleep (3000);
	__atomic_sub_fetch (&c2_in, 1, __ATOMIC_SEQ_CST);
	(void) UNLOCKX (l);
	return NULL;
}

static void contend2 (LK *l) {
	pthread_t th[2];
	struct timespec ts = { 0, 1000000 };
	int i, early;
	c2_done = 0; c2_in = 0; c2_overlap = 0; t_go = 0;
	for (i = 0; i < 2; i++)
		if (pthread_create (&th[i], NULL, contender2, l) != 0) { fputs ("thread-failed\n", po); return; }
	for (i = 0; i < 150 && !__atomic_load_n (&c2_done, __ATOMIC_SEQ_CST); i++) nanosleep (&ts, NULL);
	early = __atomic_load_n (&c2_done, __ATOMIC_SEQ_CST);
	__atomic_store_n (&t_go, 1, __ATOMIC_SEQ_CST);
	(void) UNLOCKX (l);
	for (i = 0; i < 2; i++) pthread_join (th[i], NULL);
	fprintf (po, "%s%s\n", early ? "acquired" : "blocks", c2_overlap ? " overlap" : "");
}
#endif

int main (void) {
	char line[256], op[32], arg[32];
	long long c;
	int out = dup (1);
	po = fdopen (out, "w");
	dup2 (2, 1);			/* library diagnostics -> stderr */
	p_mem_init ();
#if PV_KIND != 3
	{ int k; for (k = 0; k < NOBJ; k++) OBJ[k] = NEW (); }
#endif
	while (fgets (line, sizeof line, stdin)) {
		c = 0;
		int n = sscanf (line, "%31s %lld", op, &c);
		if (n < 1) continue;
		if (!strcmp (op, "variant")) {
			if (sscanf (line, "%*s %31s", arg) == 1 && !strcmp (arg, PV_VARIANT)) fputs ("ok\n", po); else fputs ("bad-op\n", po);
		}
#if PV_KIND != 3
		else if (!strcmp (op, "reset") && n == 1) { int k; for (k = 0; k < NOBJ; k++) { FREEX (OBJ[k]); OBJ[k] = NEW (); } fputs ("ok\n", po); }
		else if (!strcmp (op, "lock") && n == 1) answer (LOCK ());
		else if (!strcmp (op, "try") && n == 1) answer (TRY ());
		else if (!strcmp (op, "unlock") && n == 1) answer (UNLOCK ());
		else if (!strcmp (op, "contend") && n == 1) contend ();
		else if (n == 2 && c >= -1 && c < NOBJ && (!strcmp (op, "lock") || !strcmp (op, "try") || !strcmp (op, "unlock"))) {
			LK *l = c < 0 ? NULL : OBJ[c];
			answer_on (op[0] == 'l' ? LOCKX (l) : op[0] == 't' ? TRYX (l) : UNLOCKX (l), l);
		}
		else if (!strcmp (op, "tother") && n == 2 && c >= 0 && c < NOBJ) tother (OBJ[c]);
		else if (!strcmp (op, "contend2") && n == 2 && c >= 0 && c < NOBJ) contend2 (OBJ[c]);
#else
		else if (!strcmp (op, "reset") && n == 1) { script_code = 0; if (L) FREE (); L = NULL; fputs ("ok\n", po); }
		else if (!strcmp (op, "new") && n == 2) {
			script_code = (int) c; last_native = "-";
			if (L) { int k = script_code; script_code = 0; FREE (); script_code = k; last_native = "-"; }
			L = NEW ();
			fprintf (po, "%s %s\n", L ? "ok" : "null", last_native);
		}
		else if (!strcmp (op, "lock") && n == 2) { script_code = (int) c; last_native = "-"; int r = LOCK (); fprintf (po, "%d %s\n", r, last_native); }
		else if (!strcmp (op, "try") && n == 2) { script_code = (int) c; last_native = "-"; int r = TRY (); fprintf (po, "%d %s\n", r, last_native); }
		else if (!strcmp (op, "unlock") && n == 2) { script_code = (int) c; last_native = "-"; int r = UNLOCK (); fprintf (po, "%d %s\n", r, last_native); }
		else if (!strcmp (op, "free") && n == 2) { script_code = (int) c; last_native = "-"; FREE (); L = NULL; fprintf (po, "- %s\n", last_native); }
#endif
		else fputs ("bad-op\n", po);
		fflush (po);
	}
	fflush (po);
	return 0;
}

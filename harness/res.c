/* C18 / C20 harness: resource accounting of the real library under allocator faults.
 *
 *  - a counting / tracking allocator is installed through the public p_mem_set_vtable(); it gives
 *    every allocation attempt a running index (1, 2, ...), records malloc/realloc/free with block
 *    ids (= allocation index) and fails allocation K once, from K on, or by an explicit bit mask;
 *  - library calls are issued through a small *call language* (one text line per call, objects
 *    live in numbered slots).  The Lean model (PV.Model.Res, driver `pvdriver res`) interprets the
 *    very same lines, so scenarios and random sequences are shared verbatim;
 *  - SCENARIOS: one C function each (a fixed list of call lines).  `scen NAME MODE K` runs one in a
 *    forked child and prints outcome classes, allocator trace, blocks outstanding, and the C20
 *    resource diff (/proc/self/fd, /proc/self/maps for own keys, /dev/shm names, TLS keys);
 *  - `begin` / `call ...` / `fail ...` / `end` run a sequence in-process with the resource counts
 *    printed after every call (C20);
 *  - close/closedir/fclose (and a few syscalls, for scripted failures) are interposed with
 *    -Wl,--wrap: every close of a descriptor that is not open is counted (fd_closed_once).
 *
 * Protocol answers go to the original stdout; the library's own P_ERROR/P_WARNING chatter (printf)
 * is sent to /dev/null.
 */
#include <plibsys.h>
#include "pipc-private.h"

#include <stdio.h>
#include <stdlib.h>
#include <string.h>
#include <stdarg.h>
#include <errno.h>
#include <unistd.h>
#include <fcntl.h>
#include <dirent.h>
#include <pthread.h>
#include <semaphore.h>
#include <signal.h>
#include <dlfcn.h>
#include <sys/mman.h>
#include <sys/stat.h>
#include <sys/wait.h>
#include <sys/socket.h>
#include <netinet/in.h>
#include <arpa/inet.h>

/* the general (mutex + 2 condvars) rwlock, compiled in res_rwg.c under renamed symbols */
extern PRWLock *pg_rwlock_new (void);
extern void pg_rwlock_free (PRWLock *lock);
extern pboolean pg_rwlock_reader_lock (PRWLock *lock);
extern pboolean pg_rwlock_reader_unlock (PRWLock *lock);
extern pboolean pg_rwlock_writer_lock (PRWLock *lock);
extern pboolean pg_rwlock_writer_unlock (PRWLock *lock);

static FILE *out;                 /* protocol output */
static const char *scratch;       /* PVRES_DIR: ini files, directory, tiny .so (made by the check) */

/* ------------------------------------------------------------------------------------------
 * tracking allocator
 */
#define MAXLIVE 65536
static pthread_mutex_t amx = PTHREAD_MUTEX_INITIALIZER;
static int    a_on;               /* tracking switched on */
static long   a_idx;              /* allocation attempts so far (malloc + realloc) */
static long   a_calls;            /* allocator calls so far (malloc + realloc + free) */
static long   a_badfree;          /* frees of pointers the tracker does not know */
static struct { void *p; long id; } a_live[MAXLIVE];
static int    a_nlive;
static int    f_mode;             /* 0 none, 1 once, 2 from, 3 mask */
static long   f_k;
static char   f_mask[4096];
static char  *tr;                 /* trace text */
static size_t trn, trcap;

static void tr_add (const char *fmt, ...) {
	char b[320];
	va_list ap;
	va_start (ap, fmt);
	int n = vsnprintf (b, sizeof b, fmt, ap);
	va_end (ap);
	if (n < 0) return;
	if ((size_t) n >= sizeof b) n = sizeof b - 1;
	if (trn + (size_t) n + 2 > trcap) {
		trcap = (trcap ? trcap * 2 : 8192) + (size_t) n;
		tr = realloc (tr, trcap);
	}
	if (trn) tr[trn++] = ' ';
	memcpy (tr + trn, b, (size_t) n);
	trn += (size_t) n;
	tr[trn] = 0;
}

static long n_injected;          /* allocation failures injected so far */
static int should_fail_ (long idx);
static int should_fail (long idx) { int r = should_fail_ (idx); if (r) n_injected++; return r; }
static int should_fail_ (long idx) {
	switch (f_mode) {
	case 1: return idx == f_k;
	case 2: return idx >= f_k;
	case 3: return idx >= 1 && (size_t) idx <= strlen (f_mask) && f_mask[idx - 1] == '1';
	default: return 0;
	}
}

static ppointer t_malloc (psize n) {
	if (!a_on) return malloc (n);
	pthread_mutex_lock (&amx);
	long idx = ++a_idx;
	a_calls++;
	void *p = NULL;
	if (should_fail (idx)) tr_add ("m%ldx", idx);
	else {
		p = malloc (n);
		if (p == NULL || a_nlive >= MAXLIVE) { fprintf (stderr, "res harness: out of memory\n"); _exit (77); }
		a_live[a_nlive].p = p; a_live[a_nlive].id = idx; a_nlive++;
		tr_add ("m%ld", idx);
	}
	pthread_mutex_unlock (&amx);
	return p;
}

static int find_live (void *p) {
	for (int i = a_nlive - 1; i >= 0; i--) if (a_live[i].p == p) return i;
	return -1;
}

static void t_free (ppointer p) {
	if (!a_on) { free (p); return; }
	pthread_mutex_lock (&amx);
	a_calls++;
	int i = find_live (p);
	if (i < 0) { a_badfree++; tr_add ("f?"); }
	else { tr_add ("f%ld", a_live[i].id); a_live[i] = a_live[--a_nlive]; }
	pthread_mutex_unlock (&amx);
	free (p);   /* ASan reports a double free / invalid free here */
}

static ppointer t_realloc (ppointer p, psize n) {
	if (!a_on) return realloc (p, n);
	pthread_mutex_lock (&amx);
	long idx = ++a_idx;
	a_calls++;
	void *q = NULL;
	int i = find_live (p);
	if (should_fail (idx)) tr_add ("m%ldx", idx);
	else {
		q = realloc (p, n);
		if (q == NULL) _exit (77);
		/* the model sees a reallocation as "a new block, the old one released" */
		tr_add ("m%ld", idx);
		if (i >= 0) { tr_add ("f%ld", a_live[i].id); a_live[i].p = q; a_live[i].id = idx; } else { a_badfree++; tr_add ("f?"); }
		a_calls++;
	}
	pthread_mutex_unlock (&amx);
	return q;
}

static void install_tracker (void) {
	PMemVTable vt;
	vt.f_malloc = t_malloc; vt.f_realloc = t_realloc; vt.f_free = t_free;
	if (!p_mem_set_vtable (&vt)) { fprintf (stderr, "p_mem_set_vtable failed\n"); _exit (78); }
}

/* ------------------------------------------------------------------------------------------
 * interposed libc calls (-Wl,--wrap=...): close accounting and scripted failures
 */
static long w_closes, w_badclose, w_keys;
static char w_fail[16][40];      /* armed one-shot failures by name */
static int take_fail (const char *name) {
	for (int i = 0; i < 16; i++)
		if (!strcmp (w_fail[i], name)) { w_fail[i][0] = 0; return 1; }
	return 0;
}
static int is_armed (const char *name) { for (int i = 0; i < 16; i++) if (!strcmp (w_fail[i], name)) return 1; return 0; }
static void arm_fail (const char *name) {
	for (int i = 0; i < 16; i++)
		if (!w_fail[i][0]) { snprintf (w_fail[i], sizeof w_fail[i], "%s", name); return; }
}

int __real_close (int fd);
int __wrap_close (int fd) {
	if (a_on) {
		w_closes++;
		if (fcntl (fd, F_GETFD) == -1) w_badclose++;      /* not open: closed twice, or never opened */
		/* scripted: the close is interrupted by a handled signal.  On Linux the descriptor is released all the same
		 * (close(2): retrying is wrong, the number may already belong to somebody else) */
		if (take_fail ("close")) { __real_close (fd); errno = EINTR; return -1; }
	}
	return __real_close (fd);
}
int __real_closedir (DIR *d);
int __wrap_closedir (DIR *d) {
	if (a_on) w_closes++;
	return __real_closedir (d);
}
int __real_fclose (FILE *f);
int __wrap_fclose (FILE *f) {
	if (a_on && f != out) w_closes++;
	return __real_fclose (f);
}

#define MAXMAP 256
static struct { void *a; size_t len; } w_maps[MAXMAP];
static int w_nmaps;
void *__real_mmap (void *addr, size_t len, int prot, int flags, int fd, off_t off);
void *__wrap_mmap (void *addr, size_t len, int prot, int flags, int fd, off_t off) {
	if (a_on && take_fail ("mmap")) { errno = ENOMEM; return MAP_FAILED; }
	void *r = __real_mmap (addr, len, prot, flags, fd, off);
	/* anonymous mappings cannot be recognised in /proc/self/maps: they are book-kept here */
	if (a_on && fd == -1 && r != MAP_FAILED && w_nmaps < MAXMAP) { w_maps[w_nmaps].a = r; w_maps[w_nmaps].len = len; w_nmaps++; }
	return r;
}
static size_t pgup (size_t n) { size_t pg = (size_t) sysconf (_SC_PAGESIZE); return (n + pg - 1) / pg * pg; }
static int munmap_scriptable;
int __real_munmap (void *addr, size_t len);
int __wrap_munmap (void *addr, size_t len) {
	if (a_on && munmap_scriptable && take_fail ("munmap")) { errno = EINVAL; return -1; }    /* only p_mem_munmap called with an error argument (mmap_unmap) */
	int r = __real_munmap (addr, len);
	if (a_on && r == 0)
		for (int i = 0; i < w_nmaps; i++)
			if (w_maps[i].a == addr) {
				if (pgup (len) >= pgup (w_maps[i].len)) w_maps[i] = w_maps[--w_nmaps];
				else { w_maps[i].a = (char *) addr + pgup (len); w_maps[i].len = pgup (w_maps[i].len) - pgup (len); }   /* a tail stays mapped */
				break;
			}
	return r;
}
static long w_sems;            /* sem_open handles not yet closed */
sem_t *__real_sem_open (const char *name, int oflag, ...);
sem_t *__wrap_sem_open (const char *name, int oflag, ...) {
	sem_t *r;
	if (a_on && take_fail ("sem_open")) { errno = EMFILE; return SEM_FAILED; }
	if (oflag & O_CREAT) {
		va_list ap; va_start (ap, oflag);
		mode_t mode = va_arg (ap, mode_t); unsigned value = va_arg (ap, unsigned);
		va_end (ap);
		r = __real_sem_open (name, oflag, mode, value);
	} else r = __real_sem_open (name, oflag);
	if (a_on && r != SEM_FAILED) w_sems++;
	return r;
}
int __real_sem_close (sem_t *s);
int __wrap_sem_close (sem_t *s) {
	int r = __real_sem_close (s);
	if (a_on && r == 0) w_sems--;
	return r;
}
int __real_ftruncate (int fd, off_t len);
int __wrap_ftruncate (int fd, off_t len) {
	if (a_on && take_fail ("ftruncate")) { errno = EINVAL; return -1; }
	return __real_ftruncate (fd, len);
}
int __real_fstat (int fd, struct stat *sb);
int __wrap_fstat (int fd, struct stat *sb) {
	if (a_on && take_fail ("fstat")) { errno = EIO; return -1; }
	return __real_fstat (fd, sb);
}
int __real_getsockopt (int fd, int level, int name, void *val, socklen_t *len);
int __wrap_getsockopt (int fd, int level, int name, void *val, socklen_t *len) {
	if (a_on && name == SO_TYPE && take_fail ("getsockopt")) { errno = ENOTSOCK; return -1; }     /* pp_socket_set_details_from_fd, its first question */
	return __real_getsockopt (fd, level, name, val, len);
}
int __real_pthread_attr_init (pthread_attr_t *a);
int __wrap_pthread_attr_init (pthread_attr_t *a) {
	if (a_on && take_fail ("pthread_attr_init")) return ENOMEM;
	return __real_pthread_attr_init (a);
}
int __real_pthread_attr_setdetachstate (pthread_attr_t *a, int st);
int __wrap_pthread_attr_setdetachstate (pthread_attr_t *a, int st) {
	if (a_on && take_fail ("pthread_attr_setdetachstate")) return EINVAL;
	return __real_pthread_attr_setdetachstate (a, st);
}
int __real_shm_open (const char *name, int oflag, mode_t mode);
int __wrap_shm_open (const char *name, int oflag, mode_t mode) {
	if (a_on && take_fail ("shm_open")) { errno = EACCES; return -1; }
	return __real_shm_open (name, oflag, mode);
}
/* fcntl: F_SETFL can be scripted to fail (pp_socket_set_fd_blocking: the error exit of a socket whose descriptor is already open) */
int __real_fcntl (int fd, int cmd, ...);
int __wrap_fcntl (int fd, int cmd, ...) {
	va_list ap; va_start (ap, cmd);
	long arg = va_arg (ap, long);
	va_end (ap);
	if (a_on && cmd == F_SETFL && take_fail ("fcntl")) { errno = EINVAL; return -1; }
	return __real_fcntl (fd, cmd, arg);
}
int __real_socket (int d, int t, int p);
int __wrap_socket (int d, int t, int p) {
	if (a_on && take_fail ("socket")) { errno = EMFILE; return -1; }
	return __real_socket (d, t, p);
}
/* A new thread is held at its very start until the creating call has returned: the library's thread
 * proxy touches thread-local storage (and may allocate) concurrently with p_uthread_create_full()
 * otherwise, and the order of allocator calls would depend on the scheduler. */
static volatile int th_go;
struct tramp { void *(*f) (void *); void *arg; };
static void *trampoline (void *p) {
	struct tramp t = *(struct tramp *) p;
	free (p);
	while (!__atomic_load_n (&th_go, __ATOMIC_SEQ_CST)) usleep (200);
	return t.f (t.arg);
}
int __real_pthread_create (pthread_t *t, const pthread_attr_t *a, void *(*f) (void *), void *arg);
int __wrap_pthread_create (pthread_t *t, const pthread_attr_t *a, void *(*f) (void *), void *arg) {
	if (a_on && take_fail ("pthread_create")) return EAGAIN;
	if (!a_on) return __real_pthread_create (t, a, f, arg);
	struct tramp *tp = malloc (sizeof *tp);
	tp->f = f; tp->arg = arg;
	int r = __real_pthread_create (t, a, trampoline, tp);
	if (r != 0) free (tp);
	return r;
}
int __real_pthread_key_create (pthread_key_t *k, void (*d) (void *));
int __wrap_pthread_key_create (pthread_key_t *k, void (*d) (void *)) {
	if (a_on && take_fail ("pthread_key_create")) return EAGAIN;
	int r = __real_pthread_key_create (k, d);
	if (a_on && r == 0) __atomic_add_fetch (&w_keys, 1, __ATOMIC_SEQ_CST);
	return r;
}
int __real_pthread_key_delete (pthread_key_t k);
int __wrap_pthread_key_delete (pthread_key_t k) {
	int r = __real_pthread_key_delete (k);
	if (a_on && r == 0) __atomic_sub_fetch (&w_keys, 1, __ATOMIC_SEQ_CST);
	return r;
}
int __real_pthread_mutex_init (pthread_mutex_t *m, const pthread_mutexattr_t *a);
int __wrap_pthread_mutex_init (pthread_mutex_t *m, const pthread_mutexattr_t *a) {
	if (a_on && take_fail ("pthread_mutex_init")) return ENOMEM;
	return __real_pthread_mutex_init (m, a);
}
int __real_pthread_cond_init (pthread_cond_t *c, const pthread_condattr_t *a);
int __wrap_pthread_cond_init (pthread_cond_t *c, const pthread_condattr_t *a) {
	if (a_on && take_fail ("pthread_cond_init")) return ENOMEM;
	return __real_pthread_cond_init (c, a);
}
void *__real_dlopen (const char *path, int flags);
void *__wrap_dlopen (const char *path, int flags) {
	if (a_on && take_fail ("dlopen")) return NULL;
	return __real_dlopen (path, flags);
}

/* ------------------------------------------------------------------------------------------
 * IPC names of this process and the resource snapshot
 */
#define NNAMES 6
static char nm_base[NNAMES][64];      /* the names given to the library */
static char nm_file[NNAMES][3][64];   /* /dev/shm files: sem of name, shm of name, lock sem of the shm */

extern void p_mem_shutdown (void);
static int lib_inited;
static void key_of (const char *name, const char *suffix, char *dst /* >= 32 */) {
	char b[160];
	snprintf (b, sizeof b, "%s%s", name, suffix);
	/* between p_libsys_shutdown and the next p_libsys_init the library has no allocator (its table holds NULLs):
	 * give it the default one for this helper call only */
	int bare = !lib_inited;
	if (bare) p_mem_restore_vtable ();
	pchar *k = p_ipc_get_platform_key (b, TRUE);
	snprintf (dst, 32, "%s", k ? k : "/?");
	p_free (k);
	if (bare) p_mem_shutdown ();
}

static void names_setup (long pid, long ctr) {
	for (int i = 0; i < NNAMES; i++) {
		char k[32], k2[32];
		snprintf (nm_base[i], sizeof nm_base[i], "pvres-%ld-%ld-%d", pid, ctr, i);
		key_of (nm_base[i], "_p_sem_object", k);
		snprintf (nm_file[i][0], 64, "sem.%s", k + 1);
		key_of (nm_base[i], "_p_shm_object", k);
		snprintf (nm_file[i][1], 64, "%s", k + 1);
		key_of (k, "_p_sem_object", k2);
		snprintf (nm_file[i][2], 64, "sem.%s", k2 + 1);
	}
}

static void names_remove (void) {
	char p[128];
	for (int i = 0; i < NNAMES; i++)
		for (int j = 0; j < 3; j++) {
			snprintf (p, sizeof p, "/dev/shm/%s", nm_file[i][j]);
			unlink (p);
		}
}

struct snap { int fds; int maps; int names; char fdt[2048]; char mapt[1024]; char namet[512]; };

static void take_snap (struct snap *s) {
	memset (s, 0, sizeof *s);
	/* descriptors */
	DIR *d = opendir ("/proc/self/fd");
	if (d) {
		struct dirent *e;
		int self = dirfd (d);
		while ((e = readdir (d)) != NULL) {
			if (e->d_name[0] == '.') continue;
			int fd = atoi (e->d_name);
			if (fd == self) continue;
			char lp[64], tg[256];
			snprintf (lp, sizeof lp, "/proc/self/fd/%d", fd);
			ssize_t n = readlink (lp, tg, sizeof tg - 1);
			if (n < 0) continue;
			tg[n] = 0;
			s->fds++;
			size_t L = strlen (s->fdt);
			if (strncmp (tg, "socket:", 7) == 0) strcpy (tg, "socket");
			if (strncmp (tg, "pipe:", 5) == 0) strcpy (tg, "pipe");
			snprintf (s->fdt + L, sizeof s->fdt - L, "%d=%s,", fd, tg);
		}
		__real_closedir (d);
	}
	/* mappings that carry one of our names (shm segments, semaphores) or come from the scratch dir (.so) */
	FILE *f = fopen ("/proc/self/maps", "r");
	if (f) {
		char line[512], seen[8][128];
		int nseen = 0;
		while (fgets (line, sizeof line, f)) {
			char *path = strchr (line, '/');
			if (!path) continue;
			path[strcspn (path, "\n")] = 0;
			/* semaphore mappings are not counted here: glibc maps a semaphore once per process however often it is
			 * opened (and from a temporary name when it creates it); sem_open / sem_close are counted instead */
			int mine = 0;
			if (strstr (path, "/dev/shm/sem.")) continue;
			for (int i = 0; i < NNAMES && !mine; i++)
				for (int j = 0; j < 3; j++)
					if (strstr (path, nm_file[i][j])) { mine = 1; break; }
			if (mine) {
				s->maps++;
				size_t L = strlen (s->mapt);
				snprintf (s->mapt + L, sizeof s->mapt - L, "%s,", path);
			} else if (scratch && strstr (path, scratch)) {
				int dup = 0;
				for (int i = 0; i < nseen; i++) if (!strcmp (seen[i], path)) dup = 1;
				if (!dup && nseen < 8) {
					snprintf (seen[nseen++], 128, "%s", path);
					s->maps++;
					size_t L = strlen (s->mapt);
					snprintf (s->mapt + L, sizeof s->mapt - L, "%s,", path);
				}
			}
		}
		__real_fclose (f);
	}
	s->maps += w_nmaps + (int) w_sems;
	/* names */
	for (int i = 0; i < NNAMES; i++)
		for (int j = 0; j < 3; j++) {
			char p[128];
			snprintf (p, sizeof p, "/dev/shm/%s", nm_file[i][j]);
			if (access (p, F_OK) == 0) {
				s->names++;
				size_t L = strlen (s->namet);
				snprintf (s->namet + L, sizeof s->namet - L, "%s,", nm_file[i][j]);
			}
		}
}

/* ------------------------------------------------------------------------------------------
 * slots and the call language
 */
#define NSLOT 24
enum { T_NONE, T_STR, T_LIST, T_STRLIST, T_TREE, T_HT, T_ERR, T_INI, T_HASH, T_DIR, T_DIRENT, T_SADDR, T_SOCK,
       T_SEM, T_SHM, T_SHMBUF, T_MUTEX, T_COND, T_RWLOCK, T_RWLOCKG, T_SPIN, T_PROF, T_THREAD, T_TLS, T_LOADER, T_MMAP };
struct kv { long k, v; };
struct slot { int t; void *p; long a, b, c; struct kv sh[64]; };
static struct slot S[NSLOT];
static int dl_pending;

#define OKS(i) ((i) >= 0 && (i) < NSLOT)
#define NEED(i, T) do { if (!OKS (i) || S[i].t != (T)) return '-'; } while (0)
#define EMPTY(i) do { if (!OKS (i) || S[i].t != T_NONE) return '-'; } while (0)
#define ERRARG2(e, d, d2) do { if ((e) >= 0 && (!OKS (e) || (S[e].t != T_NONE && S[e].t != T_ERR) || (e) == (d) || (e) == (d2))) return '-'; } while (0)
#define ERRARG(e, d) ERRARG2 (e, d, -2)
#define LIB() do { if (!lib_inited) return '-'; } while (0)

static void clr (int i) { memset (&S[i], 0, sizeof S[i]); }
static void put (int i, int t, void *p) { clr (i); S[i].t = t; S[i].p = p; }

static PError *e_tmp;
static PError **e_in (int e) {
	if (e < 0) return NULL;
	e_tmp = (S[e].t == T_ERR) ? (PError *) S[e].p : NULL;
	return &e_tmp;
}
static void e_out (int e) {
	if (e >= 0 && S[e].t == T_NONE && e_tmp != NULL) put (e, T_ERR, e_tmp);
}

static pint cmp_int (pconstpointer a, pconstpointer b) {
	return (psize) a < (psize) b ? -1 : ((psize) a > (psize) b ? 1 : 0);
}
#define PTR(x) ((ppointer) (psize) (x))

static int ai (char **av, int i) { return (av[i] == NULL || av[i][0] == 'x') ? -1 : atoi (av[i]); }

/* --- library */
static char c_lib_init (char **av) {
	if (lib_inited) return 'S';
	install_tracker ();
	p_libsys_init ();
	lib_inited = 1;
	return 'S';
}
/* p_libsys_init_full: the allocator table is handed over with the start of the library; an incomplete table is refused
 * by p_mem_set_vtable (and leaves the table in force untouched) */
static char c_lib_init_full (char **av) {
	if (lib_inited) return 'S';
	PMemVTable vt, bad;
	vt.f_malloc = t_malloc; vt.f_realloc = t_realloc; vt.f_free = t_free;
	bad = vt; bad.f_realloc = NULL;
	if (p_mem_set_vtable (&bad) != FALSE || p_mem_set_vtable (NULL) != FALSE) return 'X';
	p_libsys_init_full (&vt);
	lib_inited = 1;
	return p_libsys_version () != NULL ? 'S' : 'X';
}
static char c_lib_shutdown (char **av) {
	if (!lib_inited) return 'S';
	p_libsys_shutdown ();
	lib_inited = 0;
	return 'S';
}
static char c_cur_thread (char **av) { LIB (); return p_uthread_current () != NULL ? 'S' : 'F'; }
static char c_sysfail (char **av) { if (!av[1]) return '-'; arm_fail (av[1]); return 'S'; }

/* --- strings */
static char c_strdup (char **av) { int d = ai (av, 1); LIB (); EMPTY (d);
	pchar *r = p_strdup ("hello world"); if (!r) return 'F'; put (d, T_STR, r); return 'S'; }
static char c_strchomp (char **av) { int d = ai (av, 1), v = ai (av, 2); LIB (); EMPTY (d);
	pchar *r = p_strchomp (v == 0 ? "  abc  " : (v == 1 ? "" : " ")); if (!r) return 'F'; put (d, T_STR, r); return 'S'; }
static char c_strtok (char **av) { int d = ai (av, 1); LIB (); NEED (d, T_STR);
	pchar *buf = NULL; p_strtok ((pchar *) S[d].p, " ", &buf); return 'S'; }
static char c_strtod (char **av) { LIB (); return p_strtod (" 12.5e1 ") == 125.0 ? 'S' : 'F'; }
/* p_realloc of a block the caller owns: NULL means the old block is still valid (and still holds its bytes) */
static char c_str_realloc (char **av) { int d = ai (av, 1); LIB (); NEED (d, T_STR);
	if (p_realloc (S[d].p, 0) != NULL) return 'X';                 /* size 0: refused, nothing changes hands */
	pchar *r = p_realloc (S[d].p, strlen ((pchar *) S[d].p) + 64); if (!r) return 'F'; S[d].p = r; return 'S'; }
static char c_str_free (char **av) { int d = ai (av, 1); LIB (); NEED (d, T_STR); p_free (S[d].p); clr (d); return 'S'; }

/* --- list */
static char c_list_new (char **av) { int d = ai (av, 1); LIB (); EMPTY (d); put (d, T_LIST, NULL); return 'S'; }
static char list_add (char **av, int pre) { int d = ai (av, 1); long x = ai (av, 2); LIB (); NEED (d, T_LIST);
	PList *l = pre ? p_list_prepend (S[d].p, PTR (x)) : p_list_append (S[d].p, PTR (x));
	S[d].p = l;
	if ((long) p_list_length (l) == S[d].a + 1) { S[d].a++;
		PList *at = pre ? l : p_list_last (l);
		return (at != NULL && at->data == PTR (x)) ? 'S' : 'X'; }
	return (long) p_list_length (l) == S[d].a ? 'D' : 'X'; }
static char c_list_append (char **av) { return list_add (av, 0); }
static char c_list_prepend (char **av) { return list_add (av, 1); }
static char c_list_remove (char **av) { int d = ai (av, 1); long x = ai (av, 2); LIB (); NEED (d, T_LIST);
	S[d].p = p_list_remove (S[d].p, PTR (x)); S[d].a = (long) p_list_length (S[d].p); return 'S'; }
static char c_list_free (char **av) { int d = ai (av, 1); LIB (); NEED (d, T_LIST); p_list_free (S[d].p); clr (d); return 'S'; }
static char c_strlist_free (char **av) { int d = ai (av, 1); LIB (); NEED (d, T_STRLIST);
	p_list_foreach (S[d].p, (PFunc) p_free, NULL); p_list_free (S[d].p); clr (d); return 'S'; }

/* --- tree */
static char c_tree_new (char **av) { int d = ai (av, 1), t = ai (av, 2); LIB (); EMPTY (d);
	PTree *r = p_tree_new ((PTreeType) t, cmp_int); if (!r) return 'F'; put (d, T_TREE, r); return 'S'; }
static char c_tree_insert (char **av) { int d = ai (av, 1); long k = ai (av, 2); LIB (); NEED (d, T_TREE);
	PTree *t = S[d].p; int had = p_tree_lookup (t, PTR (k + 1)) != NULL; pint n0 = p_tree_get_nnodes (t);
	p_tree_insert (t, PTR (k + 1), PTR (k + 1));
	int found = p_tree_lookup (t, PTR (k + 1)) == PTR (k + 1); pint n1 = p_tree_get_nnodes (t);
	if (had) return (found && n1 == n0) ? 'S' : 'X';
	if (found && n1 == n0 + 1) return 'S';
	return (!found && n1 == n0) ? 'F' : 'X'; }        /* X: the tree says one thing through its count and another through its nodes */
static char c_tree_remove (char **av) { int d = ai (av, 1); long k = ai (av, 2); LIB (); NEED (d, T_TREE);
	int had = p_tree_lookup (S[d].p, PTR (k + 1)) != NULL; pint n0 = p_tree_get_nnodes (S[d].p);
	pboolean r = p_tree_remove (S[d].p, PTR (k + 1));
	if (p_tree_lookup (S[d].p, PTR (k + 1)) != NULL || p_tree_get_nnodes (S[d].p) != n0 - (had ? 1 : 0) || (r != FALSE) != had) return 'X';
	return 'S'; }
static char c_tree_clear (char **av) { int d = ai (av, 1); LIB (); NEED (d, T_TREE); p_tree_clear (S[d].p); return p_tree_get_nnodes (S[d].p) == 0 ? 'S' : 'X'; }
static char c_tree_free (char **av) { int d = ai (av, 1); LIB (); NEED (d, T_TREE); p_tree_free (S[d].p); clr (d); return 'S'; }

/* --- hash table (the slot keeps a shadow of the stored pairs: the API cannot list them without allocating) */
static int sh_find (struct slot *s, long k) { for (int i = 0; i < s->a; i++) if (s->sh[i].k == k) return i; return -1; }
static char c_ht_new (char **av) { int d = ai (av, 1); LIB (); EMPTY (d);
	PHashTable *r = p_hash_table_new (); if (!r) return 'F'; put (d, T_HT, r); return 'S'; }
static char c_ht_insert (char **av) { int d = ai (av, 1); long k = ai (av, 2), v = ai (av, 3); LIB (); NEED (d, T_HT);
	if (S[d].a >= 64 && sh_find (&S[d], k) < 0) return '-';
	p_hash_table_insert (S[d].p, PTR (k), PTR (v));
	int i = sh_find (&S[d], k);
	if (p_hash_table_lookup (S[d].p, PTR (k)) == (ppointer) -1) return i < 0 ? 'F' : 'X';     /* X: a key that was there is gone */
	if (p_hash_table_lookup (S[d].p, PTR (k)) != PTR (v)) return 'X';
	if (i < 0) { i = (int) S[d].a++; S[d].sh[i].k = k; }
	S[d].sh[i].v = v;
	return 'S'; }
static char c_ht_remove (char **av) { int d = ai (av, 1); long k = ai (av, 2); LIB (); NEED (d, T_HT);
	p_hash_table_remove (S[d].p, PTR (k));
	int i = sh_find (&S[d], k);
	if (i >= 0) S[d].sh[i] = S[d].sh[--S[d].a];
	if (p_hash_table_lookup (S[d].p, PTR (k)) != (ppointer) -1) return 'X';
	for (int j = 0; j < S[d].a; j++) if (p_hash_table_lookup (S[d].p, PTR (S[d].sh[j].k)) != PTR (S[d].sh[j].v)) return 'X';   /* the other pairs are as the mirror has them */
	return 'S'; }
static char ht_list (char **av, int what) { int s = ai (av, 1), d = ai (av, 2); long v = ai (av, 3); LIB (); NEED (s, T_HT); EMPTY (d);
	PList *l = what == 0 ? p_hash_table_keys (S[s].p) : (what == 1 ? p_hash_table_values (S[s].p) : p_hash_table_lookup_by_value (S[s].p, PTR (v), NULL));
	long want = S[s].a;
	if (what == 2) { want = 0; for (int i = 0; i < S[s].a; i++) if (S[s].sh[i].v == v) want++; }
	put (d, T_LIST, l); S[d].a = (long) p_list_length (l);
	return S[d].a == want ? 'S' : 'D'; }
static char c_ht_keys (char **av) { return ht_list (av, 0); }
static char c_ht_values (char **av) { return ht_list (av, 1); }
static char c_ht_lbv (char **av) { return ht_list (av, 2); }
static char c_ht_free (char **av) { int d = ai (av, 1); LIB (); NEED (d, T_HT); p_hash_table_free (S[d].p); clr (d); return 'S'; }

/* --- errors */
static char err_class (PError *e, int want_msg) { if (!e) return 'F'; return (want_msg && p_error_get_message (e) == NULL) ? 'D' : 'S'; }
static char c_err_new (char **av) { int d = ai (av, 1); LIB (); EMPTY (d);
	PError *r = p_error_new (); if (!r) return 'F'; put (d, T_ERR, r); return 'S'; }
static char c_err_new_literal (char **av) { int d = ai (av, 1); LIB (); EMPTY (d);
	PError *r = p_error_new_literal (5, 7, "literal message"); if (r) put (d, T_ERR, r); return err_class (r, 1); }
static char c_err_copy (char **av) { int s = ai (av, 1), d = ai (av, 2); LIB (); NEED (s, T_ERR); EMPTY (d);
	PError *r = p_error_copy (S[s].p); if (r) put (d, T_ERR, r);
	return err_class (r, p_error_get_message (S[s].p) != NULL); }
static char c_err_set_error (char **av) { int d = ai (av, 1); LIB (); NEED (d, T_ERR);
	p_error_set_error (S[d].p, 9, 11, "another message"); return err_class (S[d].p, 1); }
static char c_err_set_message (char **av) { int d = ai (av, 1); LIB (); NEED (d, T_ERR);
	p_error_set_message (S[d].p, "yet another"); return err_class (S[d].p, 1); }
static char c_err_clear (char **av) { int d = ai (av, 1); LIB (); NEED (d, T_ERR); p_error_clear (S[d].p); return 'S'; }
static char c_err_free (char **av) { int d = ai (av, 1); LIB (); NEED (d, T_ERR); p_error_free (S[d].p); clr (d); return 'S'; }
static char c_err_set_p (char **av) { int d = ai (av, 1); LIB (); ERRARG (d, -2); if (d < 0) { p_error_set_error_p (NULL, 1, 2, "m"); return 'S'; }
	int had = S[d].t == T_ERR;
	p_error_set_error_p (e_in (d), 600, 3, "set through pointer"); e_out (d);
	if (had) return 'S';
	return err_class (e_tmp, 1); }

/* --- INI: file f is scratch/ini<f>.ini, written by the check from the model's description.
 *     Sections are named s<i>, keys k<j>; the value of key j is determined by j % 4:
 *     0 -> "v<j>", 1 -> "{1 2 3}", 2 -> "true", 3 -> "1.5".  The layout (which key ids sit in which
 *     section) comes with the scenario line for the calls that need it. */
static int ini_exists (PIniFile *f, int sec, int key) {
	char sn[16], kn[16]; snprintf (sn, sizeof sn, "s%d", sec); snprintf (kn, sizeof kn, "k%d", key);
	return p_ini_file_is_key_exists (f, sn, kn); }
/* layout of the files (must agree with PV.Model.Res.iniFiles; cross-checked by the check through `inidesc`) */
static const int ini_layout[4][8][8] = {
	{ { -1 } },
	{ { 0, 1, -1 }, { -1 } },                              /* ini1: [s0] k0 k1 */
	{ { 0, 1, -1 }, { -2 }, { 2, 3, 5, -1 }, { -1 } },     /* ini2: [s0] k0 k1   [s1] (empty)   [s2] k2 k3 k5 */
	{ { 0, 1, -1 }, { -1 } },                              /* ini3: k6 k7 k4 before any section (ignored)   [s0] k0 k1 */
};
/* every expected (section, key) pair is there */
static int ini_complete (PIniFile *file, int f) {
	for (int s = 0; s < 8 && ini_layout[f][s][0] != -1; s++) for (int k = 0; k < 8 && ini_layout[f][s][k] >= 0; k++)
		if (!ini_exists (file, s, ini_layout[f][s][k])) return 0;
	return 1; }
/* what the object really holds (keys may have landed in another section when a header line was lost) */
static int ini_keys_present (PIniFile *file, int sec) { int n = 0; for (int k = 0; k < 8; k++) if (ini_exists (file, sec, k)) n++; return n; }
static int ini_secs_present (PIniFile *file) { int n = 0; for (int s = 0; s < 8; s++) if (ini_keys_present (file, s) > 0) n++; return n; }
static char c_ini_new (char **av) { int d = ai (av, 1), f = ai (av, 2); LIB (); EMPTY (d); if (f < 0 || f > 3) return '-';
	char path[512]; snprintf (path, sizeof path, "%s/ini%d.ini", scratch, f);
	PIniFile *r = p_ini_file_new (path); if (!r) return 'F'; put (d, T_INI, r); S[d].a = f; return 'S'; }
static char c_ini_parse (char **av) { int d = ai (av, 1), e = ai (av, 2); LIB (); NEED (d, T_INI); ERRARG (e, d);
	pboolean ok = p_ini_file_parse (S[d].p, e_in (e)); e_out (e);
	if (!ok) return 'F';
	return ini_complete (S[d].p, (int) S[d].a) ? 'S' : 'D'; }
static char strlist_class (PList *l, long want) { long len = (long) p_list_length (l), nn = 0;
	for (PList *c = l; c; c = c->next) if (c->data) nn++;
	if (want == 0) return 'S';
	if (len == 0) return 'F';
	return (len == want && nn == want) ? 'S' : 'D'; }
static char c_ini_sections (char **av) { int s = ai (av, 1), d = ai (av, 2); LIB (); NEED (s, T_INI); EMPTY (d);
	long want = p_ini_file_is_parsed (S[s].p) ? ini_secs_present (S[s].p) : 0;
	PList *l = p_ini_file_sections (S[s].p); put (d, T_STRLIST, l); return strlist_class (l, want); }
static char c_ini_keys (char **av) { int s = ai (av, 1), sec = ai (av, 2), d = ai (av, 3); LIB (); NEED (s, T_INI); EMPTY (d);
	char sn[16]; snprintf (sn, sizeof sn, "s%d", sec);
	long want = p_ini_file_is_parsed (S[s].p) ? ini_keys_present (S[s].p, sec) : 0;
	PList *l = p_ini_file_keys (S[s].p, sn); put (d, T_STRLIST, l); return strlist_class (l, want); }
static const char *ini_val (int key, char *buf) { switch (key % 4) { case 0: snprintf (buf, 16, "v%d", key); return buf; case 1: return "{1 2 3}"; case 2: return "true"; default: return "1.5"; } }
static char c_ini_string (char **av) { int s = ai (av, 1), sec = ai (av, 2), key = ai (av, 3), d = ai (av, 4); LIB (); NEED (s, T_INI); EMPTY (d);
	char sn[16], kn[16], vb[16]; snprintf (sn, sizeof sn, "s%d", sec); snprintf (kn, sizeof kn, "k%d", key);
	int ex = ini_exists (S[s].p, sec, key);
	pchar *r = p_ini_file_parameter_string (S[s].p, sn, kn, "dflt");
	if (!r) return 'F';
	put (d, T_STR, r);
	return (ex && strcmp (r, ini_val (key, vb)) != 0) ? 'D' : 'S'; }
static char c_ini_int (char **av) { int s = ai (av, 1), sec = ai (av, 2), key = ai (av, 3); LIB (); NEED (s, T_INI);
	char sn[16], kn[16]; snprintf (sn, sizeof sn, "s%d", sec); snprintf (kn, sizeof kn, "k%d", key);
	int ex = ini_exists (S[s].p, sec, key);
	pint r = p_ini_file_parameter_int (S[s].p, sn, kn, -7);
	return (ex && r == -7) ? 'D' : 'S'; }
static char c_ini_double (char **av) { int s = ai (av, 1), sec = ai (av, 2), key = ai (av, 3); LIB (); NEED (s, T_INI);
	char sn[16], kn[16]; snprintf (sn, sizeof sn, "s%d", sec); snprintf (kn, sizeof kn, "k%d", key);
	int ex = ini_exists (S[s].p, sec, key);
	double r = p_ini_file_parameter_double (S[s].p, sn, kn, -7.0);
	double want = (key % 4 == 3) ? 1.5 : 0.0;
	return (ex && r != want) ? 'D' : 'S'; }
static char c_ini_bool (char **av) { int s = ai (av, 1), sec = ai (av, 2), key = ai (av, 3); LIB (); NEED (s, T_INI);
	char sn[16], kn[16]; snprintf (sn, sizeof sn, "s%d", sec); snprintf (kn, sizeof kn, "k%d", key);
	int ex = ini_exists (S[s].p, sec, key);
	pboolean r = p_ini_file_parameter_boolean (S[s].p, sn, kn, 2);
	return (ex && r == 2) ? 'D' : 'S'; }
static char c_ini_list (char **av) { int s = ai (av, 1), sec = ai (av, 2), key = ai (av, 3), d = ai (av, 4); LIB (); NEED (s, T_INI); EMPTY (d);
	char sn[16], kn[16]; snprintf (sn, sizeof sn, "s%d", sec); snprintf (kn, sizeof kn, "k%d", key);
	long want = (ini_exists (S[s].p, sec, key) && key % 4 == 1) ? 3 : 0;
	PList *l = p_ini_file_parameter_list (S[s].p, sn, kn); put (d, T_STRLIST, l); return strlist_class (l, want); }
static char c_ini_free (char **av) { int d = ai (av, 1); LIB (); NEED (d, T_INI); p_ini_file_free (S[d].p); clr (d); return 'S'; }

/* --- crypto hash, IPC key */
static char c_hash_new (char **av) { int d = ai (av, 1), t = ai (av, 2); LIB (); EMPTY (d); if (t < 0 || t > 10) return '-';
	PCryptoHash *r = p_crypto_hash_new ((PCryptoHashType) t); if (!r) return 'F'; put (d, T_HASH, r); S[d].a = t; return 'S'; }
static const puchar hash_data[100] = "The quick brown fox jumps over the lazy dog";
static char c_hash_update (char **av) { int d = ai (av, 1); LIB (); NEED (d, T_HASH);
	p_crypto_hash_update (S[d].p, hash_data, sizeof hash_data); if (!S[d].c) S[d].b++; return 'S'; }
static char c_hash_string (char **av) { int s = ai (av, 1), d = ai (av, 2); LIB (); NEED (s, T_HASH); EMPTY (d);
	S[s].c = 1;                   /* a read (also one that fails for lack of memory) ends the message */
	pchar *r = p_crypto_hash_get_string (S[s].p); if (!r) return 'F'; put (d, T_STR, r); return 'S'; }
static char c_hash_reset (char **av) { int d = ai (av, 1); LIB (); NEED (d, T_HASH); p_crypto_hash_reset (S[d].p); S[d].b = 0; S[d].c = 0; return 'S'; }
/* "objects that existed before the call remain valid and unchanged": the digest of the object (read into a caller's
 * buffer, no allocation) is that of the bytes it absorbed before its first read, whatever failed in between.
 * The reference object is made with the tracker and the fault injection switched off. */
static char c_hash_check (char **av) { int d = ai (av, 1); LIB (); NEED (d, T_HASH);
	puchar got[64], want[64]; psize gl = sizeof got, wl = sizeof want;
	int on = a_on; a_on = 0;
	PCryptoHash *ref = p_crypto_hash_new ((PCryptoHashType) S[d].a);
	if (!ref) { a_on = on; return '-'; }
	for (long i = 0; i < S[d].b; i++) p_crypto_hash_update (ref, hash_data, sizeof hash_data);
	p_crypto_hash_get_digest (ref, want, &wl);
	p_crypto_hash_free (ref);
	a_on = on;
	S[d].c = 1;
	p_crypto_hash_get_digest (S[d].p, got, &gl);
	return (gl == wl && gl > 0 && !memcmp (got, want, gl)) ? 'S' : 'X'; }
static char c_hash_free (char **av) { int d = ai (av, 1); LIB (); NEED (d, T_HASH); p_crypto_hash_free (S[d].p); clr (d); return 'S'; }
static char c_ipc_key (char **av) { int d = ai (av, 1), posix = ai (av, 2); LIB (); EMPTY (d);
	pchar *r = p_ipc_get_platform_key ("some-ipc-name", posix ? TRUE : FALSE); if (!r) return 'F'; put (d, T_STR, r); return 'S'; }
static char c_ipc_tmpdir (char **av) { int d = ai (av, 1); LIB (); EMPTY (d);
	pchar *r = p_ipc_unix_get_temp_dir (); if (!r) return 'F'; put (d, T_STR, r); return 'S'; }

/* --- directories: scratch/d holds exactly DIR_ENTRIES entries including . and .. */
#define DIR_ENTRIES 5
static char c_dir_new (char **av) { int d = ai (av, 1), w = ai (av, 2), e = ai (av, 3); LIB (); EMPTY (d); ERRARG (e, d);
	char path[512]; snprintf (path, sizeof path, "%s/%s", scratch, w == 0 ? "d/" : "no-such-dir");
	PDir *r = p_dir_new (path, e_in (e)); e_out (e); if (!r) return 'F'; put (d, T_DIR, r); return 'S'; }
static char c_dir_next (char **av) { int s = ai (av, 1), d = ai (av, 2), e = ai (av, 3); LIB (); NEED (s, T_DIR); EMPTY (d); ERRARG2 (e, d, s);
	long inj0 = n_injected;
	PDirEntry *r = p_dir_get_next_entry (S[s].p, e_in (e)); e_out (e);
	if (!r) { if (S[s].a >= DIR_ENTRIES) return 'E'; S[s].a++; return 'F'; }
	S[s].a++; put (d, T_DIRENT, r);
	if (r->name == NULL) return 'D';
	char path[768]; struct stat sb; snprintf (path, sizeof path, "%s/d/%s", scratch, r->name);
	PDirEntryType want = P_DIR_ENTRY_TYPE_OTHER;
	if (stat (path, &sb) == 0) want = S_ISDIR (sb.st_mode) ? P_DIR_ENTRY_TYPE_DIR : (S_ISREG (sb.st_mode) ? P_DIR_ENTRY_TYPE_FILE : P_DIR_ENTRY_TYPE_OTHER);
	/* an entry that is genuinely of type OTHER (the dangling link) looks like the degraded result: the
	 * degraded case is then recognised by the injected failure itself */
	if (r->type != want) return 'D';
	return (want == P_DIR_ENTRY_TYPE_OTHER && n_injected != inj0) ? 'D' : 'S'; }
static char c_dir_path (char **av) { int s = ai (av, 1), d = ai (av, 2); LIB (); NEED (s, T_DIR); EMPTY (d);
	pchar *r = p_dir_get_path (S[s].p); if (!r) return 'F'; put (d, T_STR, r); return 'S'; }
static char c_dir_rewind (char **av) { int d = ai (av, 1); LIB (); NEED (d, T_DIR); p_dir_rewind (S[d].p, NULL); S[d].a = 0; return 'S'; }
static char c_dirent_free (char **av) { int d = ai (av, 1); LIB (); NEED (d, T_DIRENT); p_dir_entry_free (S[d].p); clr (d); return 'S'; }
static char c_dir_free (char **av) { int d = ai (av, 1); LIB (); NEED (d, T_DIR); p_dir_free (S[d].p); clr (d); return 'S'; }
/* p_dir_create below a path that does not exist, p_dir_remove of a directory that does not exist: both only report an error */
static char c_dir_create_missing (char **av) { int e = ai (av, 1); LIB (); ERRARG (e, -2);
	char path[512]; snprintf (path, sizeof path, "%s/no-such-dir/sub", scratch);
	pboolean ok = p_dir_create (path, 0755, e_in (e)); e_out (e); return ok ? 'X' : 'F'; }
static char c_dir_remove_missing (char **av) { int e = ai (av, 1); LIB (); ERRARG (e, -2);
	char path[512]; snprintf (path, sizeof path, "%s/no-such-dir", scratch);
	pboolean ok = p_dir_remove (path, e_in (e)); e_out (e); return ok ? 'X' : 'F'; }
/* public entry points called with invalid arguments: each must refuse (and report through the error argument) without
 * acquiring anything */
static char c_inval (char **av) { int w = ai (av, 1), e = ai (av, 2); LIB (); ERRARG (e, -2); if (w < 0 || w > 36) return '-';
	char buf[8]; int refused = 0; PError **ep = e_in (e);
	switch (w) {
	case 0: refused = p_dir_new (NULL, ep) == NULL; break;
	case 1: refused = p_dir_create (NULL, 0755, ep) == FALSE; break;
	case 2: refused = p_dir_remove (NULL, ep) == FALSE; break;
	case 3: refused = p_dir_get_next_entry (NULL, ep) == NULL; break;
	case 4: refused = p_dir_rewind (NULL, ep) == FALSE; break;
	case 5: refused = p_socket_new_from_fd (-1, ep) == NULL; break;
	case 6: refused = p_socket_get_local_address (NULL, ep) == NULL; break;
	case 7: refused = p_socket_get_remote_address (NULL, ep) == NULL; break;
	case 8: refused = p_socket_check_connect_result (NULL, ep) == FALSE; break;
	case 9: refused = p_socket_bind (NULL, NULL, TRUE, ep) == FALSE; break;
	case 10: refused = p_socket_connect (NULL, NULL, ep) == FALSE; break;
	case 11: refused = p_socket_listen (NULL, ep) == FALSE; break;
	case 12: refused = p_socket_accept (NULL, ep) == NULL; break;
	case 13: refused = p_socket_receive (NULL, buf, sizeof buf, ep) == -1; break;
	case 14: refused = p_socket_receive_from (NULL, NULL, buf, sizeof buf, ep) == -1; break;
	case 15: refused = p_socket_send (NULL, "x", 1, ep) == -1; break;
	case 16: refused = p_socket_send_to (NULL, NULL, "x", 1, ep) == -1; break;
	case 17: refused = p_socket_close (NULL, ep) == FALSE; break;
	case 18: refused = p_socket_shutdown (NULL, TRUE, TRUE, ep) == FALSE; break;
	case 19: refused = p_socket_set_buffer_size (NULL, P_SOCKET_DIRECTION_RCV, 1024, ep) == FALSE; break;
	case 20: refused = p_socket_io_condition_wait (NULL, P_SOCKET_IO_CONDITION_POLLIN, ep) == FALSE; break;
	case 21: refused = p_shm_new (NULL, 16, P_SHM_ACCESS_READWRITE, ep) == NULL; break;
	case 22: refused = p_shm_lock (NULL, ep) == FALSE; break;
	case 23: refused = p_shm_unlock (NULL, ep) == FALSE; break;
	case 24: refused = p_semaphore_new (NULL, 1, P_SEM_ACCESS_OPEN, ep) == NULL; break;
	case 25: refused = p_semaphore_new ("pvres-never-made", -1, P_SEM_ACCESS_OPEN, ep) == NULL; break;
	case 26: refused = p_semaphore_acquire (NULL, ep) == FALSE; break;
	case 27: refused = p_semaphore_release (NULL, ep) == FALSE; break;
	case 28: refused = p_shm_buffer_new (NULL, 16, ep) == NULL; break;
	case 29: refused = p_shm_buffer_read (NULL, buf, sizeof buf, ep) == -1; break;
	case 30: refused = p_shm_buffer_write (NULL, buf, sizeof buf, ep) == -1; break;
	case 31: refused = p_shm_buffer_get_free_space (NULL, ep) == -1; break;
	case 32: refused = p_shm_buffer_get_used_space (NULL, ep) == -1; break;
	case 33: refused = p_ini_file_parse (NULL, ep) == FALSE; break;
	case 34: refused = p_mem_mmap (0, ep) == NULL; break;
	case 35: refused = p_mem_munmap (NULL, 0, ep) == FALSE; break;
	default: refused = p_socket_new (P_SOCKET_FAMILY_INET, P_SOCKET_TYPE_UNKNOWN, P_SOCKET_PROTOCOL_TCP, ep) == NULL; break;
	}
	e_out (e);
	return refused ? 'F' : 'X'; }
static char c_file_remove_missing (char **av) { int e = ai (av, 1); LIB (); ERRARG (e, -2);
	char path[512]; snprintf (path, sizeof path, "%s/no-such-file", scratch);
	p_file_remove (path, e_in (e)); e_out (e); return 'F'; }

/* --- socket addresses and sockets (loopback only) */
static char c_sa_new (char **av) { int d = ai (av, 1), k = ai (av, 2); LIB (); EMPTY (d);
	PSocketAddress *r = p_socket_address_new (k == 0 ? "127.0.0.1" : (k == 1 ? "::1" : "bogus"), 80); if (!r) return 'F'; put (d, T_SADDR, r); return 'S'; }
static char c_sa_any (char **av) { int d = ai (av, 1), f = ai (av, 2); LIB (); EMPTY (d);
	PSocketAddress *r = p_socket_address_new_any (f >= 2 ? P_SOCKET_FAMILY_UNKNOWN : (f ? P_SOCKET_FAMILY_INET6 : P_SOCKET_FAMILY_INET), 81); if (!r) return 'F'; put (d, T_SADDR, r); return 'S'; }
static char c_sa_loop (char **av) { int d = ai (av, 1), f = ai (av, 2); LIB (); EMPTY (d);
	PSocketAddress *r = p_socket_address_new_loopback (f >= 2 ? P_SOCKET_FAMILY_UNKNOWN : (f ? P_SOCKET_FAMILY_INET6 : P_SOCKET_FAMILY_INET), 82); if (!r) return 'F'; put (d, T_SADDR, r); return 'S'; }
/* k (optional): 0 IPv4, 1 IPv4 with a length one byte short, 2 IPv6, 3 IPv6 with a short length, 4 a family the library does not know */
static char c_sa_native (char **av) { int d = ai (av, 1), k = av[2] ? ai (av, 2) : 0; LIB (); EMPTY (d); if (k < 0 || k > 4) return '-';
	struct sockaddr_in sin; memset (&sin, 0, sizeof sin); sin.sin_family = AF_INET; sin.sin_port = htons (83); sin.sin_addr.s_addr = htonl (INADDR_LOOPBACK);
	struct sockaddr_in6 sin6; memset (&sin6, 0, sizeof sin6); sin6.sin6_family = AF_INET6; sin6.sin6_port = htons (84); sin6.sin6_addr = in6addr_loopback;
	struct sockaddr_storage ss; memset (&ss, 0, sizeof ss); ss.ss_family = AF_UNIX;
	PSocketAddress *r = k <= 1 ? p_socket_address_new_from_native (&sin, sizeof sin - (k == 1))
	                  : (k <= 3 ? p_socket_address_new_from_native (&sin6, sizeof sin6 - (k == 3)) : p_socket_address_new_from_native (&ss, sizeof ss));
	if (!r) return 'F'; put (d, T_SADDR, r); return (k == 0 || k == 2) ? 'S' : 'X'; }
static char c_sa_addr (char **av) { int s = ai (av, 1), d = ai (av, 2); LIB (); NEED (s, T_SADDR); EMPTY (d);
	pchar *r = p_socket_address_get_address (S[s].p); if (!r) return 'F'; put (d, T_STR, r); return 'S'; }
static char c_sa_free (char **av) { int d = ai (av, 1); LIB (); NEED (d, T_SADDR); p_socket_address_free (S[d].p); clr (d); return 'S'; }

/* socket slot: a = port (when bound), b = state (0 fresh, 1 bound/listening, 2 connected, 3 closed, 4 after a refused connect), c = kind (0 tcp, 1 udp);
 * sh[0].k = connections waiting in the accept queue */
static long sock_port (PSocket *s) { struct sockaddr_in sin; socklen_t l = sizeof sin;
	if (getsockname (p_socket_get_fd (s), (struct sockaddr *) &sin, &l) != 0) return 0; return ntohs (sin.sin_port); }
static char c_sock_new (char **av) { int d = ai (av, 1), k = ai (av, 2), e = ai (av, 3); LIB (); EMPTY (d); ERRARG (e, d);
	PSocket *r = p_socket_new (P_SOCKET_FAMILY_INET, k ? P_SOCKET_TYPE_DATAGRAM : P_SOCKET_TYPE_STREAM, k ? P_SOCKET_PROTOCOL_UDP : P_SOCKET_PROTOCOL_TCP, e_in (e)); e_out (e);
	if (!r) return 'F'; put (d, T_SOCK, r); S[d].c = k ? 1 : 0; return 'S'; }
static char c_sock_bad (char **av) { int e = ai (av, 1); LIB (); ERRARG (e, -2);
	PSocket *r = p_socket_new (P_SOCKET_FAMILY_UNKNOWN, P_SOCKET_TYPE_STREAM, P_SOCKET_PROTOCOL_TCP, e_in (e)); e_out (e);
	if (r) p_socket_free (r); return 'F'; }
static char c_sock_listen (char **av) { int d = ai (av, 1), e = ai (av, 2); LIB (); NEED (d, T_SOCK); ERRARG (e, d); if (S[d].b != 0) return '-';
	PSocketAddress *a = p_socket_address_new ("127.0.0.1", 0); if (!a) return 'F';
	pboolean ok = p_socket_bind (S[d].p, a, TRUE, e_in (e)); e_out (e);
	p_socket_address_free (a);
	if (!ok) return 'F';
	if (S[d].c == 0) { ok = p_socket_listen (S[d].p, e_in (e)); e_out (e); if (!ok) return 'F'; }
	S[d].a = sock_port (S[d].p); S[d].b = 1; return 'S'; }
static char c_sock_connect (char **av) { int d = ai (av, 1), srv = ai (av, 2), e = ai (av, 3); LIB (); NEED (d, T_SOCK); NEED (srv, T_SOCK); ERRARG2 (e, d, srv);
	if (S[d].b != 0 || S[d].c != 0 || S[srv].b != 1 || S[srv].c != 0 || S[srv].sh[0].k >= 3) return '-';
	PSocketAddress *a = p_socket_address_new ("127.0.0.1", (puint16) S[srv].a); if (!a) return 'F';
	p_socket_set_timeout (S[d].p, 3000);
	pboolean ok = p_socket_connect (S[d].p, a, e_in (e)); e_out (e);
	p_socket_address_free (a);
	if (!ok) return 'F';
	S[d].b = 2; S[srv].sh[0].k++; return 'S'; }
static char c_sock_connect_refused (char **av) { int d = ai (av, 1), e = ai (av, 2); LIB (); NEED (d, T_SOCK); ERRARG (e, d);
	if (S[d].b != 0 || S[d].c != 0) return '-';
	/* a loopback port that was just bound and closed again: nobody listens there */
	int raw = __real_socket (AF_INET, SOCK_STREAM, 0); struct sockaddr_in sin; socklen_t l = sizeof sin;
	memset (&sin, 0, sizeof sin); sin.sin_family = AF_INET; sin.sin_addr.s_addr = htonl (INADDR_LOOPBACK);
	bind (raw, (struct sockaddr *) &sin, sizeof sin); getsockname (raw, (struct sockaddr *) &sin, &l); __real_close (raw);
	PSocketAddress *a = p_socket_address_new ("127.0.0.1", ntohs (sin.sin_port)); if (!a) return 'F';
	p_socket_set_timeout (S[d].p, 3000);
	pboolean ok = p_socket_connect (S[d].p, a, e_in (e)); e_out (e);
	p_socket_address_free (a);
	if (ok) { S[d].b = 2; return 'S'; }
	S[d].b = 4;                                     /* the kernel has bound it: it can neither listen nor connect again here */
	return 'F'; }
/* connect to a listener whose accept queue is full: the handshake never completes, the call times out */
static char c_sock_connect_timeout (char **av) { int d = ai (av, 1), e = ai (av, 2); LIB (); NEED (d, T_SOCK); ERRARG (e, d);
	if (S[d].b != 0 || S[d].c != 0) return '-';
	int l = __real_socket (AF_INET, SOCK_STREAM, 0), filler = __real_socket (AF_INET, SOCK_STREAM, 0);
	struct sockaddr_in sin; socklen_t sl = sizeof sin;
	memset (&sin, 0, sizeof sin); sin.sin_family = AF_INET; sin.sin_addr.s_addr = htonl (INADDR_LOOPBACK);
	bind (l, (struct sockaddr *) &sin, sizeof sin); listen (l, 0); getsockname (l, (struct sockaddr *) &sin, &sl);
	connect (filler, (struct sockaddr *) &sin, sizeof sin);                 /* takes the only place in the queue */
	PSocketAddress *a = p_socket_address_new ("127.0.0.1", ntohs (sin.sin_port));
	char r = 'F';
	if (a != NULL) {
		p_socket_set_timeout (S[d].p, 60);
		pboolean ok = p_socket_connect (S[d].p, a, e_in (e)); e_out (e);
		p_socket_address_free (a);
		if (ok) { S[d].b = 2; r = 'S'; } else S[d].b = 4;
	}
	__real_close (filler); __real_close (l);
	return r; }
static char c_sock_accept (char **av) { int s = ai (av, 1), d = ai (av, 2), e = ai (av, 3); LIB (); NEED (s, T_SOCK); EMPTY (d); ERRARG2 (e, d, s);
	if (S[s].b != 1 || S[s].c != 0) return '-';
	p_socket_set_timeout (S[s].p, S[s].sh[0].k > 0 ? 3000 : 40);          /* short: nobody is waiting, the call must time out */
	PSocket *r = p_socket_accept (S[s].p, e_in (e)); e_out (e);
	if (S[s].sh[0].k > 0) S[s].sh[0].k--;
	if (!r) return 'F';
	put (d, T_SOCK, r); S[d].b = 2; return 'S'; }
static char sock_addr (char **av, int remote) { int s = ai (av, 1), d = ai (av, 2), e = ai (av, 3); LIB (); NEED (s, T_SOCK); EMPTY (d); ERRARG2 (e, d, s);
	PSocketAddress *r = remote ? p_socket_get_remote_address (S[s].p, e_in (e)) : p_socket_get_local_address (S[s].p, e_in (e)); e_out (e);
	if (!r) return 'F'; put (d, T_SADDR, r); return 'S'; }
static char c_sock_local (char **av) { return sock_addr (av, 0); }
static char c_sock_remote (char **av) { return sock_addr (av, 1); }
static char c_sock_udp_echo (char **av) { int s = ai (av, 1), d = ai (av, 2), e = ai (av, 3); LIB (); NEED (s, T_SOCK); EMPTY (d); ERRARG2 (e, d, s);
	if (S[s].b != 1 || S[s].c != 1) return '-';
	PSocketAddress *a = p_socket_address_new ("127.0.0.1", (puint16) S[s].a); if (!a) return 'F';
	p_socket_set_timeout (S[s].p, 3000);
	pssize n = p_socket_send_to (S[s].p, a, "ping", 4, e_in (e)); e_out (e);
	p_socket_address_free (a);
	if (n != 4) return 'F';
	char buf[16]; PSocketAddress *from = NULL;
	n = p_socket_receive_from (S[s].p, &from, buf, sizeof buf, e_in (e)); e_out (e);
	if (n != 4) { if (from) p_socket_address_free (from); return 'F'; }
	if (!from) return 'D';
	put (d, T_SADDR, from); return 'S'; }
static char c_sock_close (char **av) { int d = ai (av, 1), e = ai (av, 2); LIB (); NEED (d, T_SOCK); ERRARG (e, d);
	pboolean ok = p_socket_close (S[d].p, e_in (e)); e_out (e); if (!ok) return 'F'; S[d].b = 3; return 'S'; }
/* shutdown of both directions: the descriptor stays open (and is closed later by close / free, exactly once) */
static char c_sock_shutdown (char **av) { int d = ai (av, 1); LIB (); NEED (d, T_SOCK);
	p_socket_shutdown (S[d].p, TRUE, TRUE, NULL); return 'S'; }
/* every I/O entry point on a socket that was closed: each must refuse with "not available"; only the first finds the error pointer empty */
static char c_sock_io_closed (char **av) { int d = ai (av, 1), w = ai (av, 2), e = ai (av, 3); LIB (); NEED (d, T_SOCK); ERRARG (e, d); if (S[d].b != 3 || w < 0 || w > 6) return '-';
	char buf[8]; int refused = 0;
	switch (w) {
	case 0: refused = p_socket_send (S[d].p, "x", 1, e_in (e)) == -1; break;
	case 1: refused = p_socket_receive (S[d].p, buf, sizeof buf, e_in (e)) == -1; break;
	case 2: refused = p_socket_shutdown (S[d].p, TRUE, TRUE, e_in (e)) == FALSE; break;
	case 3: refused = p_socket_set_buffer_size (S[d].p, P_SOCKET_DIRECTION_SND, 4096, e_in (e)) == FALSE; break;
	case 4: refused = p_socket_listen (S[d].p, e_in (e)) == FALSE; break;
	case 5: refused = p_socket_io_condition_wait (S[d].p, P_SOCKET_IO_CONDITION_POLLIN, e_in (e)) == FALSE; break;
	default: refused = p_socket_accept (S[d].p, e_in (e)) == NULL; break;
	}
	e_out (e);
	return refused ? 'F' : 'X'; }
static char c_sock_free (char **av) { int d = ai (av, 1); LIB (); NEED (d, T_SOCK); p_socket_free (S[d].p); clr (d); return 'S'; }
static char c_sock_from_fd (char **av) { int d = ai (av, 1), e = ai (av, 2); LIB (); EMPTY (d); ERRARG (e, d);
	int raw = __real_socket (AF_INET, SOCK_STREAM, 0); if (raw < 0) return '-';
	PSocket *r = p_socket_new_from_fd (raw, e_in (e)); e_out (e);
	if (!r) { close (raw); return 'F'; }
	put (d, T_SOCK, r); return 'S'; }

/* --- named semaphores, shared memory, shared buffers */
#define NAMEARG(n) do { if ((n) < 0 || (n) >= NNAMES) return '-'; } while (0)
static char c_sem_new (char **av) { int d = ai (av, 1), n = ai (av, 2), mode = ai (av, 3), e = ai (av, 4); LIB (); EMPTY (d); NAMEARG (n); ERRARG (e, d);
	PSemaphore *r = p_semaphore_new (nm_base[n], 1, mode ? P_SEM_ACCESS_CREATE : P_SEM_ACCESS_OPEN, e_in (e)); e_out (e);
	if (!r) return 'F'; put (d, T_SEM, r); S[d].c = n; return 'S'; }
static char c_sem_cycle (char **av) { int d = ai (av, 1), e = ai (av, 2); LIB (); NEED (d, T_SEM); ERRARG (e, d);
	pboolean ok = p_semaphore_release (S[d].p, e_in (e)); e_out (e); if (!ok) return 'F';
	ok = p_semaphore_acquire (S[d].p, e_in (e)); e_out (e); return ok ? 'S' : 'F'; }
static char c_sem_own (char **av) { int d = ai (av, 1); LIB (); NEED (d, T_SEM); p_semaphore_take_ownership (S[d].p); return 'S'; }
static char c_sem_free (char **av) { int d = ai (av, 1); LIB (); NEED (d, T_SEM); p_semaphore_free (S[d].p); clr (d); return 'S'; }
static psize shm_size (int k) { return k == 0 ? 1024 : (k == 1 ? 3 * 4096 : (k == 2 ? 512 : (k == 3 ? 8 : 0))); }
static char c_shm_new (char **av) { int d = ai (av, 1), n = ai (av, 2), sz = ai (av, 3), e = ai (av, 4); LIB (); EMPTY (d); NAMEARG (n); ERRARG (e, d);
	PShm *r = p_shm_new (nm_base[n], shm_size (sz), P_SHM_ACCESS_READWRITE, e_in (e)); e_out (e);
	if (!r) return 'F'; put (d, T_SHM, r); S[d].c = n; return 'S'; }
static char c_shm_own (char **av) { int d = ai (av, 1); LIB (); NEED (d, T_SHM); p_shm_take_ownership (S[d].p); return 'S'; }
static char c_shm_cycle (char **av) { int d = ai (av, 1), e = ai (av, 2); LIB (); NEED (d, T_SHM); ERRARG (e, d);
	pboolean ok = p_shm_lock (S[d].p, e_in (e)); e_out (e); if (!ok) return 'F';
	memset (p_shm_get_address (S[d].p), 0x5a, p_shm_get_size (S[d].p));
	ok = p_shm_unlock (S[d].p, e_in (e)); e_out (e); return ok ? 'S' : 'F'; }
static char c_shm_free (char **av) { int d = ai (av, 1); LIB (); NEED (d, T_SHM); p_shm_free (S[d].p); clr (d); return 'S'; }
static char c_shmbuf_new (char **av) { int d = ai (av, 1), n = ai (av, 2), sz = ai (av, 3), e = ai (av, 4); LIB (); EMPTY (d); NAMEARG (n); ERRARG (e, d);
	PShmBuffer *r = p_shm_buffer_new (nm_base[n], shm_size (sz), e_in (e)); e_out (e);
	if (!r) return 'F'; put (d, T_SHMBUF, r); S[d].c = n; return 'S'; }
static char c_shmbuf_rw (char **av) { int d = ai (av, 1), e = ai (av, 2); LIB (); NEED (d, T_SHMBUF); ERRARG (e, d);
	char b[8] = "abcdefg", r[8];
	p_shm_buffer_clear (S[d].p);
	pssize n = p_shm_buffer_write (S[d].p, b, sizeof b, e_in (e)); e_out (e); if (n != (pssize) sizeof b) return 'F';
	pint m = p_shm_buffer_read (S[d].p, r, sizeof r, e_in (e)); e_out (e); return (m == (pint) sizeof r && !memcmp (b, r, sizeof r)) ? 'S' : 'F'; }
static char c_shmbuf_fill (char **av) { int d = ai (av, 1), e = ai (av, 2); LIB (); NEED (d, T_SHMBUF); ERRARG (e, d);
	p_shm_buffer_clear (S[d].p);
	pssize n = p_shm_buffer_write (S[d].p, (ppointer) "fill!", 5, e_in (e)); e_out (e); return n == 5 ? 'S' : 'F'; }
static char c_shmbuf_own (char **av) { int d = ai (av, 1); LIB (); NEED (d, T_SHMBUF); p_shm_buffer_take_ownership (S[d].p); return 'S'; }
static char c_shmbuf_free (char **av) { int d = ai (av, 1); LIB (); NEED (d, T_SHMBUF); p_shm_buffer_free (S[d].p); clr (d); return 'S'; }

/* --- single-block objects: mutex, condition variable, rwlock (posix), spinlock, profiler; rwlock (general) */
#define ONE(name, T, newf, freef) \
	static char c_##name##_new (char **av) { int d = ai (av, 1); LIB (); EMPTY (d); void *r = newf (); if (!r) return 'F'; put (d, T, r); return 'S'; } \
	static char c_##name##_free (char **av) { int d = ai (av, 1); LIB (); NEED (d, T); freef (S[d].p); clr (d); return 'S'; }
ONE (mutex, T_MUTEX, p_mutex_new, p_mutex_free)
ONE (cond, T_COND, p_cond_variable_new, p_cond_variable_free)
ONE (rwlock, T_RWLOCK, p_rwlock_new, p_rwlock_free)
ONE (rwlockg, T_RWLOCKG, pg_rwlock_new, pg_rwlock_free)
ONE (spin, T_SPIN, p_spinlock_new, p_spinlock_free)
ONE (prof, T_PROF, p_time_profiler_new, p_time_profiler_free)
static char c_lock_cycle (char **av) { int d = ai (av, 1); LIB (); if (!OKS (d)) return '-';
	switch (S[d].t) {
	case T_MUTEX: return (p_mutex_lock (S[d].p) && p_mutex_trylock (S[d].p) == FALSE && p_mutex_unlock (S[d].p)) ? 'S' : 'F';
	case T_RWLOCK: return (p_rwlock_reader_lock (S[d].p) && p_rwlock_reader_unlock (S[d].p) && p_rwlock_writer_lock (S[d].p) && p_rwlock_writer_unlock (S[d].p)) ? 'S' : 'F';
	case T_RWLOCKG: return (pg_rwlock_reader_lock (S[d].p) && pg_rwlock_reader_unlock (S[d].p) && pg_rwlock_writer_lock (S[d].p) && pg_rwlock_writer_unlock (S[d].p)) ? 'S' : 'F';
	case T_SPIN: return (p_spinlock_lock (S[d].p) && p_spinlock_unlock (S[d].p)) ? 'S' : 'F';
	case T_COND: return p_cond_variable_signal (S[d].p) ? 'S' : 'F';
	default: return '-';
	} }

/* --- threads and thread-local storage */
static volatile int th_done;
static PUThreadKey *th_key;
static void *th_body (void *arg) {
	long body = (long) (psize) arg;
	if (body >= 1 && th_key != NULL) {
		ppointer v = p_malloc (8);
		if (v != NULL) {
			p_uthread_set_local (th_key, v);        /* released by the key's destructor (p_free) when the thread exits */
			if (p_uthread_get_local (th_key) != v) p_free (v);
		}
	}
	__atomic_store_n (&th_done, 1, __ATOMIC_SEQ_CST);
	if (body == 2) p_uthread_exit (7);                  /* leaves through the library; the join must see the code */
	return NULL;
}
static int ntasks (void) { int n = 0; DIR *d = opendir ("/proc/self/task"); if (!d) return -1; struct dirent *e;
	while ((e = readdir (d)) != NULL) if (e->d_name[0] != '.') n++; __real_closedir (d); return n; }
/* thread_run d joinable body key : create a thread, let it finish completely, keep the caller's reference in slot d */
static int th_long;
static char c_thread_run (char **av) { int d = ai (av, 1), joinable = ai (av, 2), body = ai (av, 3), k = ai (av, 4); LIB (); EMPTY (d);
	if (k >= 0) NEED (k, T_TLS);
	th_key = k >= 0 ? (PUThreadKey *) S[k].p : NULL;
	th_done = 0; th_go = 0;
	int base = ntasks ();
	PUThread *t = p_uthread_create (th_body, PTR (body), joinable ? TRUE : FALSE, th_long ? "a-thread-name-longer-than-fifteen-characters" : "t");
	__atomic_store_n (&th_go, 1, __ATOMIC_SEQ_CST);
	if (!t) return 'F';
	if (joinable) { pint code = p_uthread_join (t); if (body == 2 && code != 7) return 'X'; }
	for (int i = 0; i < 4000 && (!__atomic_load_n (&th_done, __ATOMIC_SEQ_CST) || ntasks () > base); i++) usleep (500);
	put (d, T_THREAD, t);
	return 'S'; }
static char c_thread_run_long (char **av) { th_long = 1; char r = c_thread_run (av); th_long = 0; return r; }
static char c_thread_unref (char **av) { int d = ai (av, 1); LIB (); NEED (d, T_THREAD);
	if (d % 2) { p_uthread_ref (S[d].p); p_uthread_unref (S[d].p); }     /* an extra reference taken and dropped: the object goes with the last one only */
	p_uthread_unref (S[d].p); clr (d); return 'S'; }
/* TLS slot: a = the value this (main) thread stored, owned by the caller */
static char c_tls_new (char **av) { int d = ai (av, 1); LIB (); EMPTY (d);
	PUThreadKey *r = p_uthread_local_new ((PDestroyFunc) p_free); if (!r) return 'F'; put (d, T_TLS, r); return 'S'; }
static char c_tls_set (char **av) { int d = ai (av, 1); LIB (); NEED (d, T_TLS);
	ppointer old = p_uthread_get_local (S[d].p);
	ppointer v = p_malloc (8); if (!v) return 'F';
	p_uthread_set_local (S[d].p, v);
	if (p_uthread_get_local (S[d].p) != v) { p_free (v); return 'F'; }
	if (old) p_free (old);
	S[d].a = (long) (psize) v; return 'S'; }
static char c_tls_replace (char **av) { int d = ai (av, 1); LIB (); NEED (d, T_TLS);
	ppointer v = p_malloc (8); if (!v) return 'F';
	p_uthread_replace_local (S[d].p, v);            /* destroys the previous value through the key's destructor */
	if (p_uthread_get_local (S[d].p) != v) { p_free (v); return 'F'; }
	S[d].a = (long) (psize) v; return 'S'; }
static char c_tls_get (char **av) { int d = ai (av, 1); LIB (); NEED (d, T_TLS);
	return p_uthread_get_local (S[d].p) == PTR (S[d].a) ? 'S' : 'F'; }
static char c_tls_free (char **av) { int d = ai (av, 1); LIB (); NEED (d, T_TLS);
	if (S[d].a) p_free (PTR (S[d].a));
	p_uthread_local_free (S[d].p); clr (d); return 'S'; }

/* --- library loader: scratch/libtiny.so is built by the check */
static int have_loader (void) { for (int i = 0; i < NSLOT; i++) if (S[i].t == T_LOADER) return 1; return 0; }
static char c_loader_new (char **av) { int d = ai (av, 1), w = ai (av, 2); LIB (); EMPTY (d); if (have_loader ()) return '-';
	char path[512]; snprintf (path, sizeof path, "%s/%s", scratch, w == 0 ? "libtiny.so" : (w == 1 ? "no-such-lib.so" : "notlib.so"));
	int scripted = is_armed ("dlopen");
	PLibraryLoader *r = p_library_loader_new (path);
	if (w == 0 && !scripted) dl_pending = 0;        /* any successful dl* call clears what dlerror() would report */
	if (!r) { if (w == 2 && !scripted) dl_pending = 1; return 'F'; }
	put (d, T_LOADER, r); return 'S'; }
static char c_loader_sym (char **av) { int d = ai (av, 1); LIB (); NEED (d, T_LOADER);
	dl_pending = 0;
	return p_library_loader_get_symbol (S[d].p, "tiny_answer") != NULL ? 'S' : 'F'; }
static char c_loader_err (char **av) { int d = ai (av, 1); LIB (); EMPTY (d);
	pchar *r = p_library_loader_get_last_error (NULL);
	int pend = dl_pending; dl_pending = 0;
	if (!r) return pend ? 'F' : 'E';
	put (d, T_STR, r); return 'S'; }
static char c_loader_free (char **av) { int d = ai (av, 1); LIB (); NEED (d, T_LOADER); p_library_loader_free (S[d].p); dl_pending = 0; clr (d); return 'S'; }

/* --- anonymous mappings */
static char c_mmap_new (char **av) { int d = ai (av, 1), sz = ai (av, 2), e = ai (av, 3); LIB (); EMPTY (d); ERRARG (e, d);
	psize n = (psize) (sz + 1) * 4096; ppointer r = p_mem_mmap (n, e_in (e)); e_out (e);
	if (!r) return 'F'; put (d, T_MMAP, r); S[d].a = (long) n; memset (r, 0xa5 ^ d, n); return 'S'; }
static char c_mmap_free (char **av) { int d = ai (av, 1); LIB (); NEED (d, T_MMAP);
	pboolean ok = p_mem_munmap (S[d].p, (psize) S[d].a, NULL); if (!ok) return 'F'; clr (d); return 'S'; }
/* p_mem_munmap with an error argument: when munmap() fails the mapping is still the caller's */
static char c_mmap_unmap (char **av) { int d = ai (av, 1), e = ai (av, 2); LIB (); NEED (d, T_MMAP); ERRARG (e, d);
	munmap_scriptable = 1;
	pboolean ok = p_mem_munmap (S[d].p, (psize) S[d].a, e_in (e)); e_out (e);
	munmap_scriptable = 0;
	if (!ok) return 'F'; clr (d); return 'S'; }

/* ------------------------------------------------------------------------------------------
 * value-level probes (C18: "objects that existed before the call remain valid and unchanged").
 * After every call line the API-visible content of every slot object is read back (under ASan, with the tracker
 * and the fault injection switched off, so that getters which allocate are transparent) and folded into a hash;
 * the hash of a slot that held the same kind of object before the call must be the same afterwards unless the
 * call is *allowed* to change that argument with the outcome it reported (column `may` of CALLS).
 */
static unsigned long long fnv (unsigned long long h, const void *p, size_t n) {
	const unsigned char *b = p;
	for (size_t i = 0; i < n; i++) { h ^= b[i]; h *= 1099511628211ULL; }
	return h;
}
#define FNV0 1469598103934665603ULL
static unsigned long long fnv_l (unsigned long long h, long long v) { return fnv (h, &v, sizeof v); }
static unsigned long long fnv_s (unsigned long long h, const char *s) { return s ? fnv (fnv_l (h, 1), s, strlen (s) + 1) : fnv_l (h, 0); }
static unsigned long long tree_h;
static long tree_visits; static psize tree_last; static int tree_sorted;
static int incons;                  /* set by content(): the object contradicts itself (node count vs nodes visited, key order, list lengths) */
static pboolean tree_visit (ppointer k, ppointer v, ppointer d) { tree_h = fnv_l (fnv_l (tree_h, (long long) (psize) k), (long long) (psize) v);
	if (tree_visits > 0 && (psize) k <= tree_last) tree_sorted = 0;
	tree_visits++; tree_last = (psize) k; return FALSE; }
static const char *TYNAME[] = { "none", "str", "list", "strlist", "tree", "ht", "err", "ini", "hash", "dir", "dirent", "saddr", "sock",
	"sem", "shm", "shmbuf", "mutex", "cond", "rwlock", "rwlockg", "spin", "prof", "thread", "tls", "loader", "mmap" };

static unsigned long long content (int i) {
	unsigned long long h = fnv_l (FNV0, S[i].t);
	void *p = S[i].p;
	switch (S[i].t) {
	case T_STR: return fnv_s (h, p);
	case T_LIST: { long n = 0; for (PList *c = p; c; c = c->next) { h = fnv_l (h, (long long) (psize) c->data); n++; }
		return fnv_l (fnv_l (h, n), (long long) p_list_length (p)); }
	case T_STRLIST: { for (PList *c = p; c; c = c->next) h = fnv_s (h, c->data); return fnv_l (h, (long long) p_list_length (p)); }
	case T_TREE: tree_h = fnv_l (h, p_tree_get_nnodes (p)); tree_h = fnv_l (tree_h, p_tree_get_type (p));
		tree_visits = 0; tree_sorted = 1; p_tree_foreach (p, tree_visit, NULL);
		if (tree_visits != p_tree_get_nnodes (p) || !tree_sorted) incons = 1;
		for (long k = 0; k < 12; k++) tree_h = fnv_l (tree_h, (long long) (psize) p_tree_lookup (p, PTR (k)));
		return tree_h;
	case T_HT: { PList *ks = p_hash_table_keys (p), *vs = p_hash_table_values (p);
		for (PList *c = ks; c; c = c->next) h = fnv_l (fnv_l (h, (long long) (psize) c->data), (long long) (psize) p_hash_table_lookup (p, c->data));
		for (PList *c = vs; c; c = c->next) h = fnv_l (h, (long long) (psize) c->data);
		h = fnv_l (fnv_l (h, (long long) p_list_length (ks)), (long long) p_list_length (vs));
		if (p_list_length (ks) != p_list_length (vs)) incons = 1;
		for (PList *c = ks; c; c = c->next) for (PList *c2 = c->next; c2; c2 = c2->next) if (c->data == c2->data) incons = 1;   /* a key twice */
		static const long probe[] = { 0, 1, 2, 3, 5, 7, 55, 102, 203 };
		for (size_t k = 0; k < sizeof probe / sizeof probe[0]; k++) h = fnv_l (h, (long long) (psize) p_hash_table_lookup (p, PTR (probe[k])));
		p_list_free (ks); p_list_free (vs); return h; }
	case T_ERR: return fnv_s (fnv_l (fnv_l (h, p_error_get_code (p)), p_error_get_native_code (p)), p_error_get_message (p));
	case T_INI: { h = fnv_l (h, p_ini_file_is_parsed (p));
		for (int s = 0; s < 8; s++) for (int k = 0; k < 8; k++) {
			char sn[16], kn[16]; snprintf (sn, sizeof sn, "s%d", s); snprintf (kn, sizeof kn, "k%d", k);
			if (!p_ini_file_is_key_exists (p, sn, kn)) continue;
			pchar *v = p_ini_file_parameter_string (p, sn, kn, "?"); h = fnv_s (fnv_l (fnv_l (h, s), k), v); p_free (v); }
		PList *secs = p_ini_file_sections (p);
		for (PList *c = secs; c; c = c->next) { h = fnv_s (h, c->data);
			PList *keys = p_ini_file_keys (p, c->data);
			for (PList *q = keys; q; q = q->next) h = fnv_s (h, q->data);
			p_list_foreach (keys, (PFunc) p_free, NULL); p_list_free (keys); }
		p_list_foreach (secs, (PFunc) p_free, NULL); p_list_free (secs); return h; }
	case T_DIR: { pchar *v = p_dir_get_path (p); h = fnv_s (h, v); p_free (v); return h; }
	case T_DIRENT: { PDirEntry *e = p; return fnv_l (fnv_s (h, e->name), e->type); }
	case T_SADDR: { pchar *v = p_socket_address_get_address (p); h = fnv_s (h, v); p_free (v);
		h = fnv_l (fnv_l (h, p_socket_address_get_family (p)), p_socket_address_get_port (p));
		h = fnv_l (fnv_l (h, (long long) p_socket_address_get_native_size (p)), p_socket_address_is_any (p));
		return fnv_l (fnv_l (h, p_socket_address_get_flow_info (p)), p_socket_address_get_scope_id (p)); }
	case T_SOCK: h = fnv_l (fnv_l (h, p_socket_get_fd (p)), p_socket_is_closed (p));
		h = fnv_l (fnv_l (fnv_l (h, p_socket_get_family (p)), p_socket_get_type (p)), p_socket_get_protocol (p));
		return fnv_l (fnv_l (h, p_socket_get_listen_backlog (p)), p_socket_get_blocking (p));
	case T_SHM: h = fnv_l (h, (long long) p_shm_get_size (p));
		return p_shm_get_address (p) ? fnv (h, p_shm_get_address (p), p_shm_get_size (p)) : h;
	case T_SHMBUF: return fnv_l (fnv_l (h, (long long) p_shm_buffer_get_used_space (p, NULL)), (long long) p_shm_buffer_get_free_space (p, NULL));
	case T_MMAP: return fnv (h, p, (size_t) S[i].a);
	default: return h;      /* opaque objects (locks, semaphores, threads, loaders; hashes: see hash_check; TLS keys: reading one creates the native key) */
	}
}

/* the IPC names an object lives under (files of /dev/shm): they may disappear only when a handle of that name is freed, or when a
 * semaphore of that name is re-created (access mode CREATE) */
static int name_there (int n, int j) { char p[128]; snprintf (p, sizeof p, "/dev/shm/%s", nm_file[n][j]); return access (p, F_OK) == 0; }
static unsigned long long names_of (int i) {
	int n = (int) S[i].c;
	if (n < 0 || n >= NNAMES) return 0;
	switch (S[i].t) {
	case T_SEM: return (unsigned long long) name_there (n, 0);
	case T_SHM: case T_SHMBUF: return (unsigned long long) (name_there (n, 1) * 2 + name_there (n, 2));
	default: return 0;
	}
}
static struct { int t; unsigned long long h, nh; } seen[NSLOT];
static char chg[512];               /* what changed against the rules: call#:slot:type,... */
static long ncall;

static void probe_reset (void) { memset (seen, 0, sizeof seen); chg[0] = 0; ncall = 0; }

/* `may`: space separated items  <arg index><outcome classes>  ("1SD": the slot named by argument 1 may change when the call
 * reports S or D), "!shm": shared memory is written, every shm / shm buffer object may change.  Returns 1 when an object
 * changed although the call was not allowed to change it. */
static int probe_after (char **av, const char *may, char outcome) {
	int bad = 0, on = a_on;
	int allowed[NSLOT] = { 0 }, shm_all = 0, names_any = 0;
	ncall++;
	if (!lib_inited) return 0;      /* between p_libsys_shutdown and the next p_libsys_init the getters that allocate cannot be used:
	                                 * the objects are read back (and compared with their state before the shutdown) after the next init */
	a_on = 0;
	for (const char *q = may ? may : ""; *q; ) {
		while (*q == ' ') q++;
		if (!strncmp (q, "!shm", 4)) { shm_all = 1; q += 4; continue; }
		if (!strncmp (q, "!names", 6)) { names_any = 1; q += 6; continue; }
		if (*q >= '1' && *q <= '6') { int ix = *q - '0'; q++; int ok = 0;
			while (*q && *q != ' ') { if (*q == outcome) ok = 1; q++; }
			int sl = av[ix] ? ai (av, ix) : -1;
			if (ok && OKS (sl)) allowed[sl] = 1; }
		else if (*q) q++;
	}
	for (int i = 0; i < NSLOT; i++) {
		incons = 0;
		unsigned long long h = S[i].t == T_NONE ? 0 : content (i);
		int changed = seen[i].t != T_NONE && seen[i].t == S[i].t && seen[i].h != h && !allowed[i]
		    && !(shm_all && (S[i].t == T_SHM || S[i].t == T_SHMBUF));
		unsigned long long nh = S[i].t == T_NONE ? 0 : names_of (i);
		int gone = seen[i].t != T_NONE && seen[i].t == S[i].t && (seen[i].nh & ~nh) != 0 && !names_any;    /* a name that was there is not there any more */
		seen[i].nh = nh;
		if (gone) {
			size_t L = strlen (chg);
			if (L + 40 < sizeof chg) snprintf (chg + L, sizeof chg - L, "%s%ld:%d:%s-name", L ? "," : "", ncall, i, TYNAME[S[i].t]);
			bad = 1;
		}
		if (changed || incons) {
			size_t L = strlen (chg);
			if (L + 40 < sizeof chg) snprintf (chg + L, sizeof chg - L, "%s%ld:%d:%s%s", L ? "," : "", ncall, i, TYNAME[S[i].t], changed ? "" : "!");
			bad = 1;
		}
		seen[i].t = S[i].t; seen[i].h = h;
	}
	a_on = on;
	return bad;
}

static const struct { const char *name; char (*fn) (char **); const char *may; } CALLS[] = {
	{ "lib_init", c_lib_init }, { "lib_init_full", c_lib_init_full }, { "lib_shutdown", c_lib_shutdown }, { "cur_thread", c_cur_thread }, { "sysfail", c_sysfail },
	{ "strdup", c_strdup }, { "strchomp", c_strchomp }, { "strtok", c_strtok, "1S" }, { "strtod", c_strtod }, { "str_realloc", c_str_realloc, "1S" }, { "str_free", c_str_free },
	{ "list_new", c_list_new }, { "list_append", c_list_append, "1S" }, { "list_prepend", c_list_prepend, "1S" }, { "list_remove", c_list_remove, "1S" },
	{ "list_free", c_list_free }, { "strlist_free", c_strlist_free },
	{ "tree_new", c_tree_new }, { "tree_insert", c_tree_insert, "1S" }, { "tree_remove", c_tree_remove, "1S" }, { "tree_clear", c_tree_clear, "1S" }, { "tree_free", c_tree_free },
	{ "ht_new", c_ht_new }, { "ht_insert", c_ht_insert, "1S" }, { "ht_remove", c_ht_remove, "1S" }, { "ht_keys", c_ht_keys }, { "ht_values", c_ht_values },
	{ "ht_lbv", c_ht_lbv }, { "ht_free", c_ht_free },
	{ "err_new", c_err_new }, { "err_new_literal", c_err_new_literal }, { "err_copy", c_err_copy }, { "err_set_error", c_err_set_error, "1SD" },
	{ "err_set_message", c_err_set_message, "1SD" }, { "err_clear", c_err_clear, "1S" }, { "err_free", c_err_free }, { "err_set_p", c_err_set_p },
	{ "ini_new", c_ini_new }, { "ini_parse", c_ini_parse, "1SD" }, { "ini_sections", c_ini_sections }, { "ini_keys", c_ini_keys }, { "ini_string", c_ini_string },
	{ "ini_int", c_ini_int }, { "ini_double", c_ini_double }, { "ini_bool", c_ini_bool }, { "ini_list", c_ini_list }, { "ini_free", c_ini_free },
	{ "hash_new", c_hash_new }, { "hash_update", c_hash_update }, { "hash_string", c_hash_string }, { "hash_reset", c_hash_reset }, { "hash_check", c_hash_check }, { "hash_free", c_hash_free },
	{ "ipc_key", c_ipc_key }, { "ipc_tmpdir", c_ipc_tmpdir },
	{ "dir_new", c_dir_new }, { "dir_next", c_dir_next }, { "dir_path", c_dir_path }, { "dir_rewind", c_dir_rewind }, { "dirent_free", c_dirent_free },
	{ "dir_free", c_dir_free }, { "file_remove_missing", c_file_remove_missing }, { "inval", c_inval }, { "dir_create_missing", c_dir_create_missing }, { "dir_remove_missing", c_dir_remove_missing },
	{ "sa_new", c_sa_new }, { "sa_any", c_sa_any }, { "sa_loop", c_sa_loop }, { "sa_native", c_sa_native }, { "sa_addr", c_sa_addr }, { "sa_free", c_sa_free },
	{ "sock_new", c_sock_new }, { "sock_bad", c_sock_bad }, { "sock_listen", c_sock_listen, "1SF" }, { "sock_connect", c_sock_connect },
	{ "sock_connect_refused", c_sock_connect_refused }, { "sock_connect_timeout", c_sock_connect_timeout }, { "sock_accept", c_sock_accept }, { "sock_local", c_sock_local }, { "sock_remote", c_sock_remote },
	{ "sock_udp_echo", c_sock_udp_echo }, { "sock_close", c_sock_close, "1SF" }, { "sock_free", c_sock_free }, { "sock_io_closed", c_sock_io_closed }, { "sock_shutdown", c_sock_shutdown, "1S" }, { "sock_from_fd", c_sock_from_fd },
	{ "sem_new", c_sem_new, "!names" }, { "sem_cycle", c_sem_cycle }, { "sem_own", c_sem_own }, { "sem_free", c_sem_free, "!names" },
	{ "shm_new", c_shm_new }, { "shm_own", c_shm_own }, { "shm_cycle", c_shm_cycle, "!shm" }, { "shm_free", c_shm_free, "!names" },
	{ "shmbuf_new", c_shmbuf_new }, { "shmbuf_rw", c_shmbuf_rw, "!shm" }, { "shmbuf_fill", c_shmbuf_fill, "!shm" }, { "shmbuf_own", c_shmbuf_own }, { "shmbuf_free", c_shmbuf_free, "!names" },
	{ "mutex_new", c_mutex_new }, { "mutex_free", c_mutex_free }, { "cond_new", c_cond_new }, { "cond_free", c_cond_free },
	{ "rwlock_new", c_rwlock_new }, { "rwlock_free", c_rwlock_free }, { "rwlockg_new", c_rwlockg_new }, { "rwlockg_free", c_rwlockg_free },
	{ "spin_new", c_spin_new }, { "spin_free", c_spin_free }, { "prof_new", c_prof_new }, { "prof_free", c_prof_free }, { "lock_cycle", c_lock_cycle },
	{ "thread_run", c_thread_run }, { "thread_run_long", c_thread_run_long }, { "thread_unref", c_thread_unref }, { "tls_new", c_tls_new }, { "tls_set", c_tls_set }, { "tls_replace", c_tls_replace },
	{ "tls_get", c_tls_get }, { "tls_free", c_tls_free },
	{ "loader_new", c_loader_new }, { "loader_sym", c_loader_sym }, { "loader_err", c_loader_err }, { "loader_free", c_loader_free },
	{ "mmap_new", c_mmap_new }, { "mmap_free", c_mmap_free }, { "mmap_unmap", c_mmap_unmap },
	{ NULL, NULL }
};

static int progress_fd = -1;          /* scenario child: call lines are announced here before they run */
static int dump_mode;                 /* `dump NAME`: only collect the call lines */
static char outcomes[4096];
static size_t noutcomes;

/* one call line; returns the outcome class, '?' for an unknown call */
static char do_call (const char *line) {
	char buf[256], *av[8] = { 0 };
	int ac = 0;
	snprintf (buf, sizeof buf, "%s", line);
	for (char *t = strtok (buf, " \t\r\n"); t && ac < 7; t = strtok (NULL, " \t\r\n")) av[ac++] = t;
	if (ac == 0) return '?';
	for (int i = 0; CALLS[i].name; i++)
		if (!strcmp (CALLS[i].name, av[0])) {
			if (a_on) {
				char mk[256];
				snprintf (mk, sizeof mk, "%s", line);
				for (char *q = mk; *q; q++) if (*q == ' ' || *q == '\t') *q = ',';
				pthread_mutex_lock (&amx); tr_add ("[%s]", mk); pthread_mutex_unlock (&amx);
			}
			char r = CALLS[i].fn (av);
			/* value-level probe of every slot object; a forbidden change turns the outcome class into 'X' */
			if (probe_after (av, CALLS[i].may, r)) r = 'X';
			return r;
		}
	return '?';
}

static void c (const char *line) {
	if (dump_mode) { fprintf (out, "%s%s", noutcomes++ ? ";" : "", line); return; }
	if (progress_fd >= 0) { char b[300]; int n = snprintf (b, sizeof b, "@%s\n", line); if (write (progress_fd, b, (size_t) n) < 0) {} }
	char r = do_call (line);
	if (noutcomes + 1 < sizeof outcomes) { outcomes[noutcomes++] = r; outcomes[noutcomes] = 0; }
}

/* ------------------------------------------------------------------------------------------
 * scenarios: one C function each; the same call lines are kept in PV.Model.Res.scenarios
 * (the check compares `dump NAME` of both sides literally)
 */
static void run_lines (const char *const *l) { for (; *l; l++) c (*l); }
#define SCEN(n, ...) static void scen_##n (void) { static const char *const L[] = { __VA_ARGS__, NULL }; run_lines (L); }
#define STD(n, ...) SCEN (n, "lib_init", __VA_ARGS__, "lib_shutdown")
#define HASH(n, t) STD (n, "hash_new 0 " #t, "hash_update 0", "hash_string 0 1", "hash_check 0", "hash_reset 0", "hash_update 0", "hash_update 0", "hash_string 0 2", "hash_string 0 3", "hash_check 0", "str_free 1", "str_free 2", "str_free 3", "hash_free 0")

SCEN (init_only, "lib_init", "lib_shutdown", "lib_init", "lib_shutdown")
STD (str_dup, "strdup 0", "strtok 0", "str_free 0")
STD (str_chomp, "strchomp 0 0", "strchomp 1 1", "strchomp 2 2", "str_free 0", "str_free 1", "str_free 2")
STD (str_tod, "strtod", "strtod")
STD (list_append3, "list_new 0", "list_append 0 1", "list_append 0 2", "list_append 0 3", "list_free 0")
STD (list_prepend3, "list_new 0", "list_prepend 0 1", "list_prepend 0 2", "list_prepend 0 3", "list_free 0")
STD (list_mixed, "list_new 0", "list_append 0 1", "list_prepend 0 2", "list_remove 0 1", "list_append 0 3", "list_remove 0 9", "list_free 0")
STD (tree_bst, "tree_new 0 0", "tree_insert 0 5", "tree_insert 0 3", "tree_insert 0 8", "tree_free 0")
STD (tree_rb, "tree_new 0 1", "tree_insert 0 1", "tree_insert 0 2", "tree_insert 0 3", "tree_insert 0 4", "tree_remove 0 2", "tree_free 0")
STD (tree_avl, "tree_new 0 2", "tree_insert 0 1", "tree_insert 0 2", "tree_insert 0 3", "tree_insert 0 4", "tree_clear 0", "tree_insert 0 7", "tree_free 0")
STD (tree_replace, "tree_new 0 1", "tree_insert 0 5", "tree_insert 0 5", "tree_remove 0 5", "tree_remove 0 5", "tree_free 0")
STD (ht_basic, "ht_new 0", "ht_free 0")
STD (ht_insert3, "ht_new 0", "ht_insert 0 1 10", "ht_insert 0 102 20", "ht_insert 0 1 30", "ht_remove 0 102", "ht_remove 0 55", "ht_free 0")
STD (ht_keys_values, "ht_new 0", "ht_insert 0 1 10", "ht_insert 0 2 20", "ht_insert 0 3 30", "ht_keys 0 1", "ht_values 0 2", "list_free 1", "list_free 2", "ht_free 0")
STD (ht_lbv, "ht_new 0", "ht_insert 0 1 10", "ht_insert 0 2 10", "ht_insert 0 3 20", "ht_lbv 0 1 10", "ht_lbv 0 2 99", "list_free 1", "list_free 2", "ht_free 0")
STD (ht_bucket0, "ht_new 0", "ht_insert 0 64 10", "ht_insert 0 165 20", "ht_insert 0 1 30", "ht_keys 0 1", "list_free 1", "ht_remove 0 1", "ht_free 0")
STD (err_basic, "err_new 0", "err_set_error 0", "err_set_message 0", "err_clear 0", "err_set_message 0", "err_free 0")
STD (err_literal_copy, "err_new_literal 0", "err_copy 0 1", "err_free 0", "err_free 1")
STD (err_set_p, "err_set_p 0", "err_set_p 0", "err_set_p x", "err_free 0")
STD (ini_new, "ini_new 0 1", "ini_free 0")
STD (ini_parse_small, "ini_new 0 1", "ini_parse 0 1", "ini_parse 0 1", "ini_free 0", "err_free 1")
STD (ini_parse_multi, "ini_new 0 2", "ini_parse 0 x", "ini_free 0")
STD (ini_prelude, "ini_new 0 3", "ini_parse 0 1", "ini_sections 0 2", "strlist_free 2", "ini_keys 0 0 3", "strlist_free 3", "ini_free 0", "err_free 1")
STD (ini_missing, "ini_new 0 0", "ini_parse 0 1", "err_free 1", "ini_free 0")
STD (ini_sections_keys, "ini_new 0 2", "ini_parse 0 x", "ini_sections 0 1", "ini_keys 0 2 2", "ini_keys 0 7 3", "strlist_free 1", "strlist_free 2", "strlist_free 3", "ini_free 0")
STD (ini_getters, "ini_new 0 2", "ini_parse 0 x", "ini_string 0 0 0 1", "ini_string 0 0 9 2", "ini_int 0 2 3", "ini_double 0 2 3", "ini_bool 0 2 2", "ini_int 0 2 9", "str_free 1", "str_free 2", "ini_free 0")
STD (ini_list, "ini_new 0 2", "ini_parse 0 x", "ini_list 0 0 1 1", "ini_list 0 0 0 2", "ini_list 0 2 5 3", "strlist_free 1", "strlist_free 2", "strlist_free 3", "ini_free 0")
STD (ini_unparsed, "ini_new 0 1", "ini_sections 0 1", "ini_string 0 0 0 2", "strlist_free 1", "str_free 2", "ini_free 0")
HASH (hash_md5, 0)
HASH (hash_sha1, 1)
HASH (hash_sha2_224, 2)
HASH (hash_sha2_256, 3)
HASH (hash_sha2_384, 4)
HASH (hash_sha2_512, 5)
HASH (hash_sha3_224, 6)
HASH (hash_sha3_256, 7)
HASH (hash_sha3_384, 8)
HASH (hash_sha3_512, 9)
HASH (hash_gost, 10)
STD (ipc_key_posix, "ipc_key 0 1", "str_free 0")
STD (ipc_key_sysv, "ipc_key 0 0", "str_free 0")
STD (ipc_tmpdir, "ipc_tmpdir 0", "str_free 0")
STD (dir_basic, "dir_new 0 0 1", "dir_path 0 2", "str_free 2", "dir_free 0", "err_free 1")
STD (dir_entries, "dir_new 0 0 x", "dir_next 0 1 2", "dirent_free 1", "dir_next 0 1 2", "dirent_free 1", "dir_next 0 1 2", "dirent_free 1",
     "dir_next 0 1 2", "dirent_free 1", "dir_next 0 1 2", "dirent_free 1", "dir_next 0 1 2", "dirent_free 1", "dir_rewind 0", "dir_next 0 1 2", "dirent_free 1", "dir_free 0", "err_free 2")
STD (dir_missing, "dir_new 0 1 1", "dir_free 0", "err_free 1", "dir_new 0 1 x", "dir_free 0")
STD (file_missing, "file_remove_missing 0", "file_remove_missing 0", "err_free 0", "file_remove_missing x")
STD (sa_v4, "sa_new 0 0", "sa_addr 0 1", "str_free 1", "sa_free 0")
STD (sa_v6, "sa_new 0 1", "sa_addr 0 1", "str_free 1", "sa_free 0")
STD (sa_bad, "sa_new 0 2", "sa_free 0")
STD (sa_misc, "sa_any 0 0", "sa_any 1 1", "sa_loop 2 0", "sa_loop 3 1", "sa_native 4", "sa_free 0", "sa_free 1", "sa_free 2", "sa_free 3", "sa_free 4")
STD (sock_basic, "sock_new 0 0 1", "sock_close 0 1", "sock_close 0 1", "sock_free 0", "err_free 1")
STD (sock_tcp_pair, "sock_new 0 0 9", "sock_listen 0 9", "sock_new 1 0 9", "sock_connect 1 0 9", "sock_accept 0 2 9", "sock_local 1 3 9", "sock_remote 2 4 9",
     "sa_free 3", "sa_free 4", "sock_free 2", "sock_free 1", "sock_free 0", "err_free 9")
STD (sock_refused, "sock_new 0 0 9", "sock_connect_refused 0 9", "sock_free 0", "err_free 9")
STD (sock_connect_timeout, "sock_new 0 0 9", "sock_connect_timeout 0 9", "sock_listen 0 9", "sock_free 0", "err_free 9")
STD (sock_accept_timeout, "sock_new 0 0 9", "sock_listen 0 9", "sock_accept 0 1 9", "sock_free 1", "sock_free 0", "err_free 9")
STD (sock_udp, "sock_new 0 1 9", "sock_listen 0 9", "sock_udp_echo 0 1 9", "sa_free 1", "sock_free 0", "err_free 9")
STD (sock_from_fd, "sock_from_fd 0 9", "sock_remote 0 1 9", "sa_free 1", "sock_free 0", "err_free 9")
STD (sock_bad, "sock_bad 9", "err_free 9", "sock_bad x")
STD (sock_io_closed, "sock_new 0 0 9", "sock_io_closed 0 0 9", "sock_close 0 9", "sock_io_closed 0 0 9", "sock_io_closed 0 1 9", "err_free 9", "sock_io_closed 0 2 9", "err_free 9",
     "sock_io_closed 0 3 9", "err_free 9", "sock_io_closed 0 4 9", "err_free 9", "sock_io_closed 0 5 9", "err_free 9", "sock_io_closed 0 6 9", "err_free 9", "sock_io_closed 0 1 x", "sock_free 0")
STD (dir_errors, "dir_create_missing 0", "dir_remove_missing 0", "err_free 0", "dir_remove_missing 0", "err_free 0", "dir_create_missing x")
STD (sock_syscall_fail, "sysfail socket", "sock_new 0 0 9", "sock_free 0", "err_free 9")
STD (sock_fcntl_fail, "sysfail fcntl", "sock_new 0 0 9", "sock_free 0", "sock_new 0 1 9", "sock_free 0", "err_free 9")
STD (sock_fcntl_fail_fromfd, "sysfail fcntl", "sock_from_fd 0 9", "sock_free 0", "sock_from_fd 0 9", "sock_free 0", "err_free 9")
STD (sock_fcntl_fail_accept, "sock_new 0 0 9", "sock_listen 0 9", "sock_new 1 0 9", "sock_connect 1 0 9", "sysfail fcntl", "sock_accept 0 2 9", "sock_free 2",
     "sock_new 3 0 9", "sock_connect 3 0 9", "sock_accept 0 2 9", "sock_free 3", "sock_free 2", "sock_free 1", "sock_free 0", "err_free 9")
STD (sem_open_fail, "sysfail sem_open", "sem_new 0 0 1 9", "sem_free 0", "sem_new 0 0 0 9", "sysfail sem_open", "sem_new 1 0 0 9", "sem_free 1", "sem_free 0", "err_free 9")
STD (sem_recreate, "sem_new 0 0 0 9", "sem_new 1 0 1 9", "sem_cycle 1 9", "sem_cycle 0 9", "sem_free 1", "sem_new 2 0 1 9", "sem_free 0", "sem_free 2", "err_free 9")
STD (shm_lock_sem_open_fail, "sysfail sem_open", "shm_new 0 0 0 9", "shm_free 0", "shm_new 0 0 0 9", "shm_cycle 0 9", "sysfail sem_open", "shm_new 1 0 0 9", "shm_free 1",
     "shm_cycle 0 9", "shm_free 0", "sysfail sem_open", "shmbuf_new 2 1 0 9", "shmbuf_free 2", "err_free 9")
STD (sem_basic, "sem_new 0 0 1 9", "sem_cycle 0 9", "sem_free 0", "err_free 9")
STD (sem_two, "sem_new 0 0 0 9", "sem_new 1 0 0 9", "sem_free 1", "sem_free 0", "err_free 9")
STD (sem_own, "sem_new 0 0 0 9", "sem_new 1 0 0 9", "sem_free 0", "sem_own 1", "sem_free 1", "err_free 9")
STD (shm_basic, "shm_new 0 0 0 9", "shm_cycle 0 9", "shm_free 0", "err_free 9")
STD (shm_two_equal, "shm_new 0 0 0 9", "shm_cycle 0 9", "shm_new 1 0 0 9", "shm_free 1", "shm_free 0", "err_free 9")
STD (shm_two_smaller, "shm_new 0 0 1 9", "shm_new 1 0 0 9", "shm_free 1", "shm_free 0", "err_free 9")
STD (shm_two_larger, "shm_new 0 0 0 9", "shm_new 1 0 1 9", "shm_cycle 1 9", "shm_free 0", "shm_own 1", "shm_free 1", "err_free 9")
STD (shm_mmap_fail, "sysfail mmap", "shm_new 0 0 0 9", "shm_free 0", "err_free 9")
STD (shm_ftruncate_fail, "sysfail ftruncate", "shm_new 0 0 0 9", "shm_free 0", "err_free 9")
STD (shm_open_fail, "sysfail shm_open", "shm_new 0 0 0 9", "shm_free 0", "err_free 9")
STD (shm_zero_size, "shm_new 0 0 4 9", "shm_free 0", "err_free 9")
STD (shmbuf_basic, "shmbuf_new 0 1 0 9", "shmbuf_rw 0 9", "shmbuf_free 0", "err_free 9")
STD (shmbuf_two, "shmbuf_new 0 1 0 9", "shmbuf_fill 0 9", "shmbuf_new 1 1 0 9", "shmbuf_rw 1 9", "shmbuf_free 1", "shmbuf_free 0", "err_free 9")
STD (shmbuf_two_diff, "shmbuf_new 0 1 1 9", "shmbuf_new 1 1 0 9", "shmbuf_free 1", "shmbuf_free 0", "err_free 9")
STD (shmbuf_small, "shm_new 0 1 3 9", "shmbuf_new 1 1 0 9", "shmbuf_free 1", "shm_free 0", "err_free 9")
STD (locks_all, "mutex_new 0", "cond_new 1", "rwlock_new 2", "spin_new 3", "prof_new 4", "lock_cycle 0", "lock_cycle 1", "lock_cycle 2", "lock_cycle 3",
     "mutex_free 0", "cond_free 1", "rwlock_free 2", "spin_free 3", "prof_free 4")
STD (rwlock_general, "rwlockg_new 0", "lock_cycle 0", "rwlockg_free 0")
STD (mutex_init_fail, "sysfail pthread_mutex_init", "mutex_new 0", "mutex_free 0", "sysfail pthread_mutex_init", "rwlockg_new 1", "rwlockg_free 1")
STD (cond_init_fail, "sysfail pthread_cond_init", "cond_new 0", "cond_free 0", "sysfail pthread_cond_init", "rwlockg_new 1", "rwlockg_free 1")
STD (thread_join, "thread_run 0 1 0 x", "thread_unref 0")
STD (thread_detached, "thread_run 0 0 0 x", "thread_unref 0")
STD (thread_tls_body, "tls_new 1", "thread_run 0 1 1 1", "thread_unref 0", "tls_free 1")
STD (thread_two, "cur_thread", "thread_run 0 1 1 x", "thread_run 1 0 1 x", "thread_unref 1", "thread_unref 0")
STD (thread_extra_ref, "thread_run 1 1 0 x", "thread_unref 1", "thread_run 3 0 0 x", "thread_unref 3")
STD (thread_create_fail, "sysfail pthread_create", "thread_run 0 1 0 x", "thread_unref 0")
STD (tls_main, "tls_new 0", "tls_set 0", "tls_get 0", "tls_set 0", "tls_replace 0", "tls_free 0")
STD (tls_key_fail, "tls_new 0", "sysfail pthread_key_create", "tls_set 0", "tls_set 0", "tls_free 0")
STD (cur_thread, "cur_thread", "cur_thread")
STD (loader_basic, "loader_new 0 0", "loader_sym 0", "loader_free 0")
STD (loader_missing, "loader_new 0 1", "loader_free 0", "loader_new 0 2", "loader_free 0", "loader_err 1", "str_free 1", "loader_err 1", "str_free 1")
STD (loader_dlopen_fail, "sysfail dlopen", "loader_new 0 0", "loader_free 0")
STD (mmap_basic, "mmap_new 0 1 9", "mmap_free 0", "err_free 9")
STD (mmap_fail, "sysfail mmap", "mmap_new 0 0 9", "mmap_free 0", "err_free 9")
STD (cross_ini_containers, "ini_new 0 2", "ini_parse 0 9", "ini_keys 0 0 1", "tree_new 2 1", "tree_insert 2 1", "tree_insert 2 2", "ht_new 3", "ht_insert 3 1 1",
     "hash_new 4 3", "hash_update 4", "hash_string 4 5", "list_new 6", "list_append 6 1", "ht_keys 3 7",
     "list_free 7", "list_free 6", "str_free 5", "hash_free 4", "ht_free 3", "tree_free 2", "strlist_free 1", "ini_free 0", "err_free 9")
STD (cross_dir_hash, "dir_new 0 0 9", "dir_next 0 1 9", "hash_new 2 1", "hash_update 2", "hash_string 2 3", "list_new 4", "list_append 4 7", "err_new_literal 5", "err_copy 5 6",
     "err_free 6", "err_free 5", "list_free 4", "str_free 3", "hash_free 2", "dirent_free 1", "dir_free 0", "err_free 9")
STD (cross_ipc_socket, "sem_new 0 2 0 9", "shm_new 1 3 0 9", "shmbuf_new 2 4 0 9", "sock_new 3 0 9", "sock_listen 3 9", "mutex_new 4", "thread_run 5 1 0 x",
     "thread_unref 5", "mutex_free 4", "sock_free 3", "shmbuf_free 2", "shm_free 1", "sem_free 0", "err_free 9")
STD (cross_error_chain, "dir_new 0 1 9", "file_remove_missing 9", "sock_bad 9", "err_free 9", "sock_bad 9", "ini_new 1 0", "ini_parse 1 9", "ini_free 1", "dir_free 0", "err_free 9")
STD (cross_everything, "strdup 0", "list_new 1", "list_append 1 4", "tree_new 2 2", "tree_insert 2 9", "ht_new 3", "ht_insert 3 7 7", "err_new_literal 4",
     "ini_new 5 1", "ini_parse 5 9", "hash_new 6 0", "hash_string 6 7", "dir_new 8 0 9", "sa_new 10 0", "sock_new 11 1 9", "sem_new 12 5 0 9",
     "mutex_new 13", "tls_new 14", "tls_set 14", "loader_new 15 0", "thread_run 16 1 1 14", "rwlockg_new 17", "shmbuf_new 18 4 0 9",
     "shmbuf_free 18", "rwlockg_free 17", "thread_unref 16", "loader_free 15", "tls_free 14", "mutex_free 13", "sem_free 12", "sock_free 11", "sa_free 10",
     "dir_free 8", "str_free 7", "hash_free 6", "ini_free 5", "err_free 4", "ht_free 3", "tree_free 2", "list_free 1", "str_free 0", "err_free 9")

/* gap closing (coverage audit): entry points, release calls and error exits no earlier scenario reached */
STD (tree_bst_remove, "tree_new 0 0", "tree_insert 0 5", "tree_insert 0 3", "tree_insert 0 8", "tree_insert 0 4", "tree_insert 0 5", "tree_remove 0 5", "tree_remove 0 3",
     "tree_remove 0 9", "tree_insert 0 9", "tree_remove 0 4", "tree_free 0")
STD (tree_avl_remove, "tree_new 0 2", "tree_insert 0 5", "tree_insert 0 3", "tree_insert 0 8", "tree_insert 0 2", "tree_insert 0 1", "tree_insert 0 4", "tree_insert 0 5",
     "tree_remove 0 8", "tree_remove 0 3", "tree_remove 0 9", "tree_insert 0 9", "tree_insert 0 7", "tree_remove 0 1", "tree_free 0")
STD (tree_rb_remove, "tree_new 0 1", "tree_insert 0 5", "tree_insert 0 4", "tree_insert 0 3", "tree_insert 0 1", "tree_insert 0 2", "tree_insert 0 5", "tree_remove 0 4",
     "tree_remove 0 5", "tree_remove 0 1", "tree_insert 0 0", "tree_free 0")
STD (err_set_twice, "err_new 0", "err_set_error 0", "err_set_error 0", "err_set_message 0", "err_copy 0 1", "err_set_error 1", "err_free 1", "err_free 0")
STD (str_realloc, "strdup 0", "str_realloc 0", "str_realloc 0", "strtok 0", "str_free 0")
SCEN (init_full, "lib_init_full", "strdup 0", "str_free 0", "lib_shutdown", "lib_init_full", "lib_init_full", "lib_shutdown")
STD (inval_dir_sock, "inval 0 9", "err_free 9", "inval 1 9", "err_free 9", "inval 2 9", "err_free 9", "inval 3 9", "err_free 9", "inval 4 9", "err_free 9", "inval 5 9", "err_free 9", "inval 6 9", "err_free 9", "inval 7 9", "err_free 9", "inval 8 9", "err_free 9", "inval 9 9", "err_free 9", "inval 10 9", "err_free 9", "inval 11 9", "err_free 9", "inval 12 9", "err_free 9", "inval 0 x", "inval 12 9", "inval 0 9", "err_free 9")
STD (inval_sock_ipc, "inval 13 9", "err_free 9", "inval 14 9", "err_free 9", "inval 15 9", "err_free 9", "inval 16 9", "err_free 9", "inval 17 9", "err_free 9", "inval 18 9", "err_free 9", "inval 19 9", "err_free 9", "inval 20 9", "err_free 9", "inval 21 9", "err_free 9", "inval 22 9", "err_free 9", "inval 23 9", "err_free 9", "inval 24 9", "err_free 9", "inval 13 x", "inval 24 9", "inval 13 9", "err_free 9")
STD (inval_ipc_mem, "inval 25 9", "err_free 9", "inval 26 9", "err_free 9", "inval 27 9", "err_free 9", "inval 28 9", "err_free 9", "inval 29 9", "err_free 9", "inval 30 9", "err_free 9", "inval 31 9", "err_free 9", "inval 32 9", "err_free 9", "inval 33 9", "err_free 9", "inval 34 9", "err_free 9", "inval 35 9", "err_free 9", "inval 36 9", "err_free 9", "inval 25 x", "inval 36 9", "inval 25 9", "err_free 9")
STD (sa_refused, "sa_any 0 2", "sa_loop 1 2", "sa_native 2 1", "sa_native 3 3", "sa_native 4 4", "sa_native 5 2", "sa_native 6 0", "sa_addr 5 7", "str_free 7", "sa_free 5", "sa_free 6",
     "sa_free 0", "sa_free 1", "sa_free 2", "sa_free 3", "sa_free 4")
STD (sock_getsockopt_fail, "sysfail getsockopt", "sock_from_fd 0 9", "sock_free 0", "sock_from_fd 0 9", "sock_free 0", "err_free 9")
STD (sock_getsockopt_fail_accept, "sock_new 0 0 9", "sock_listen 0 9", "sock_new 1 0 9", "sock_connect 1 0 9", "sysfail getsockopt", "sock_accept 0 2 9", "sock_free 2",
     "sock_new 3 0 9", "sock_connect 3 0 9", "sock_accept 0 2 9", "sock_free 3", "sock_free 2", "sock_free 1", "sock_free 0", "err_free 9")
STD (shm_fstat_fail, "shm_new 0 0 0 9", "shm_cycle 0 9", "sysfail fstat", "shm_new 1 0 0 9", "shm_free 1", "shm_cycle 0 9", "shm_new 1 0 2 9", "shm_free 1", "shm_free 0",
     "sysfail fstat", "shmbuf_new 2 1 0 9", "shmbuf_new 3 1 0 9", "shmbuf_rw 2 9", "shmbuf_free 3", "shmbuf_free 2", "err_free 9")
STD (shm_mmap_fail_existing, "shm_new 0 0 0 9", "shm_cycle 0 9", "sysfail mmap", "shm_new 1 0 0 9", "shm_free 1", "shm_cycle 0 9", "shm_free 0", "err_free 9")
/* ownership taken by a handle that did not create the object, while a third handle is still alive: the free of the new owner is
 * the one that removes the names (seen by the resource counts after that call when the scenario runs as a C20 sequence) */
STD (shmbuf_own, "shmbuf_new 0 1 0 9", "shmbuf_new 1 1 0 9", "shmbuf_fill 0 9", "shmbuf_free 0", "shmbuf_new 2 1 0 9", "shmbuf_own 1", "shmbuf_rw 1 9", "shmbuf_free 1",
     "shmbuf_rw 2 9", "shmbuf_free 2", "err_free 9")
STD (own_last, "sem_new 0 0 0 9", "sem_new 1 0 0 9", "sem_free 0", "sem_new 2 0 0 9", "sem_own 1", "sem_free 1", "sem_cycle 2 9", "sem_free 2",
     "shm_new 0 1 0 9", "shm_new 1 1 0 9", "shm_free 0", "shm_new 2 1 0 9", "shm_own 1", "shm_free 1", "shm_cycle 2 9", "shm_free 2", "err_free 9")
STD (thread_attr_fail, "sysfail pthread_attr_init", "thread_run 0 1 0 x", "thread_unref 0", "sysfail pthread_attr_setdetachstate", "thread_run 0 0 0 x", "thread_unref 0",
     "thread_run 0 1 0 x", "thread_unref 0")
STD (thread_long_name, "thread_run_long 0 1 0 x", "thread_unref 0", "tls_new 1", "thread_run_long 0 0 1 1", "thread_unref 0", "tls_free 1")
STD (mmap_unmap, "mmap_new 0 1 9", "sysfail munmap", "mmap_free 0", "mmap_new 0 1 9", "mmap_unmap 0 9", "mmap_unmap 0 9", "mmap_new 1 0 x", "mmap_unmap 1 x", "mmap_free 0", "mmap_free 1", "err_free 9")

/* thorough tier: several scenarios in one process, one after the other */
STD (long_containers,
     "strdup 0", "strtok 0", "str_free 0", "strchomp 0 0", "strchomp 1 1", "strchomp 2 2",
     "str_free 0", "str_free 1", "str_free 2", "list_new 0", "list_append 0 1", "list_prepend 0 2",
     "list_remove 0 1", "list_append 0 3", "list_remove 0 9", "list_free 0", "tree_new 0 1", "tree_insert 0 1",
     "tree_insert 0 2", "tree_insert 0 3", "tree_insert 0 4", "tree_remove 0 2", "tree_free 0", "tree_new 0 2",
     "tree_insert 0 1", "tree_insert 0 2", "tree_insert 0 3", "tree_insert 0 4", "tree_clear 0", "tree_insert 0 7",
     "tree_free 0", "ht_new 0", "ht_insert 0 1 10", "ht_insert 0 102 20", "ht_insert 0 1 30", "ht_remove 0 102",
     "ht_remove 0 55", "ht_free 0", "ht_new 0", "ht_insert 0 1 10", "ht_insert 0 2 20", "ht_insert 0 3 30",
     "ht_keys 0 1", "ht_values 0 2", "list_free 1", "list_free 2", "ht_free 0", "ht_new 0",
     "ht_insert 0 1 10", "ht_insert 0 2 10", "ht_insert 0 3 20", "ht_lbv 0 1 10", "ht_lbv 0 2 99", "list_free 1",
     "list_free 2", "ht_free 0", "err_new 0", "err_set_error 0", "err_set_message 0", "err_clear 0",
     "err_set_message 0", "err_free 0", "err_new_literal 0", "err_copy 0 1", "err_free 0", "err_free 1",
     "err_set_p 0", "err_set_p 0", "err_set_p x", "err_free 0", "ini_new 0 1", "ini_parse 0 1",
     "ini_parse 0 1", "ini_free 0", "err_free 1", "ini_new 0 2", "ini_parse 0 x", "ini_sections 0 1",
     "ini_keys 0 2 2", "ini_keys 0 7 3", "strlist_free 1", "strlist_free 2", "strlist_free 3", "ini_free 0",
     "ini_new 0 2", "ini_parse 0 x", "ini_string 0 0 0 1", "ini_string 0 0 9 2", "ini_int 0 2 3", "ini_double 0 2 3",
     "ini_bool 0 2 2", "ini_int 0 2 9", "str_free 1", "str_free 2", "ini_free 0", "ini_new 0 2",
     "ini_parse 0 x", "ini_list 0 0 1 1", "ini_list 0 0 0 2", "ini_list 0 2 5 3", "strlist_free 1", "strlist_free 2",
     "strlist_free 3", "ini_free 0")
/* thorough tier: several scenarios in one process, one after the other */
STD (long_system,
     "hash_new 0 0", "hash_update 0", "hash_string 0 1", "hash_reset 0", "hash_update 0", "hash_string 0 2",
     "str_free 1", "str_free 2", "hash_free 0", "hash_new 0 5", "hash_update 0", "hash_string 0 1",
     "hash_reset 0", "hash_update 0", "hash_string 0 2", "str_free 1", "str_free 2", "hash_free 0",
     "hash_new 0 7", "hash_update 0", "hash_string 0 1", "hash_reset 0", "hash_update 0", "hash_string 0 2",
     "str_free 1", "str_free 2", "hash_free 0", "hash_new 0 10", "hash_update 0", "hash_string 0 1",
     "hash_reset 0", "hash_update 0", "hash_string 0 2", "str_free 1", "str_free 2", "hash_free 0",
     "ipc_key 0 1", "str_free 0", "ipc_key 0 0", "str_free 0", "dir_new 0 0 1", "dir_path 0 2",
     "str_free 2", "dir_free 0", "err_free 1", "dir_new 0 0 x", "dir_next 0 1 2", "dirent_free 1",
     "dir_next 0 1 2", "dirent_free 1", "dir_next 0 1 2", "dirent_free 1", "dir_next 0 1 2", "dirent_free 1",
     "dir_next 0 1 2", "dirent_free 1", "dir_next 0 1 2", "dirent_free 1", "dir_rewind 0", "dir_next 0 1 2",
     "dirent_free 1", "dir_free 0", "err_free 2", "dir_new 0 1 1", "dir_free 0", "err_free 1",
     "dir_new 0 1 x", "dir_free 0", "sa_any 0 0", "sa_any 1 1", "sa_loop 2 0", "sa_loop 3 1",
     "sa_native 4", "sa_free 0", "sa_free 1", "sa_free 2", "sa_free 3", "sa_free 4",
     "sa_new 0 1", "sa_addr 0 1", "str_free 1", "sa_free 0", "sock_new 0 0 9", "sock_listen 0 9",
     "sock_new 1 0 9", "sock_connect 1 0 9", "sock_accept 0 2 9", "sock_local 1 3 9", "sock_remote 2 4 9", "sa_free 3",
     "sa_free 4", "sock_free 2", "sock_free 1", "sock_free 0", "err_free 9", "sock_new 0 0 9",
     "sock_connect_refused 0 9", "sock_free 0", "err_free 9", "sock_new 0 0 9", "sock_listen 0 9", "sock_accept 0 1 9",
     "sock_free 1", "sock_free 0", "err_free 9", "sock_new 0 1 9", "sock_listen 0 9", "sock_udp_echo 0 1 9",
     "sa_free 1", "sock_free 0", "err_free 9", "sock_from_fd 0 9", "sock_remote 0 1 9", "sa_free 1",
     "sock_free 0", "err_free 9", "file_remove_missing 0", "file_remove_missing 0", "err_free 0", "file_remove_missing x")
/* thorough tier: several scenarios in one process, one after the other */
STD (long_ipc_threads,
     "sem_new 0 0 0 9", "sem_new 1 0 0 9", "sem_free 1", "sem_free 0", "err_free 9", "sem_new 0 0 0 9",
     "sem_new 1 0 0 9", "sem_free 0", "sem_own 1", "sem_free 1", "err_free 9", "shm_new 0 0 0 9",
     "shm_new 1 0 0 9", "shm_free 1", "shm_free 0", "err_free 9", "shm_new 0 0 0 9", "shm_new 1 0 1 9",
     "shm_cycle 1 9", "shm_free 0", "shm_own 1", "shm_free 1", "err_free 9", "sysfail mmap",
     "shm_new 0 0 0 9", "shm_free 0", "err_free 9", "shmbuf_new 0 1 0 9", "shmbuf_new 1 1 0 9", "shmbuf_rw 1 9",
     "shmbuf_free 1", "shmbuf_free 0", "err_free 9", "shm_new 0 1 3 9", "shmbuf_new 1 1 0 9", "shmbuf_free 1",
     "shm_free 0", "err_free 9", "mutex_new 0", "cond_new 1", "rwlock_new 2", "spin_new 3",
     "prof_new 4", "lock_cycle 0", "lock_cycle 1", "lock_cycle 2", "lock_cycle 3", "mutex_free 0",
     "cond_free 1", "rwlock_free 2", "spin_free 3", "prof_free 4", "rwlockg_new 0", "lock_cycle 0",
     "rwlockg_free 0", "sysfail pthread_cond_init", "cond_new 0", "cond_free 0", "sysfail pthread_cond_init", "rwlockg_new 1",
     "rwlockg_free 1", "thread_run 0 1 0 x", "thread_unref 0", "thread_run 0 0 0 x", "thread_unref 0", "tls_new 1",
     "thread_run 0 1 1 1", "thread_unref 0", "tls_free 1", "tls_new 0", "tls_set 0", "tls_get 0",
     "tls_set 0", "tls_replace 0", "tls_free 0", "tls_new 0", "sysfail pthread_key_create", "tls_set 0",
     "tls_set 0", "tls_free 0", "cur_thread", "cur_thread", "loader_new 0 0", "loader_sym 0",
     "loader_free 0", "loader_new 0 1", "loader_free 0", "loader_new 0 2", "loader_free 0", "loader_err 1",
     "str_free 1", "loader_err 1", "str_free 1", "mmap_new 0 1 9", "mmap_free 0", "err_free 9")

#define E(n) { #n, scen_##n }
static const struct { const char *name; void (*fn) (void); } SCENARIOS[] = {
	E (init_only), E (str_dup), E (str_chomp), E (str_tod), E (list_append3), E (list_prepend3), E (list_mixed),
	E (tree_bst), E (tree_rb), E (tree_avl), E (tree_replace), E (ht_basic), E (ht_insert3), E (ht_keys_values), E (ht_lbv), E (ht_bucket0),
	E (err_basic), E (err_literal_copy), E (err_set_p),
	E (ini_new), E (ini_parse_small), E (ini_parse_multi), E (ini_prelude), E (ini_missing), E (ini_sections_keys), E (ini_getters), E (ini_list), E (ini_unparsed),
	E (hash_md5), E (hash_sha1), E (hash_sha2_224), E (hash_sha2_256), E (hash_sha2_384), E (hash_sha2_512),
	E (hash_sha3_224), E (hash_sha3_256), E (hash_sha3_384), E (hash_sha3_512), E (hash_gost),
	E (ipc_key_posix), E (ipc_key_sysv), E (ipc_tmpdir),
	E (dir_basic), E (dir_entries), E (dir_missing), E (file_missing),
	E (sa_v4), E (sa_v6), E (sa_bad), E (sa_misc),
	E (sock_basic), E (sock_tcp_pair), E (sock_refused), E (sock_connect_timeout), E (sock_accept_timeout), E (sock_udp), E (sock_from_fd), E (sock_bad), E (sock_io_closed), E (dir_errors), E (sock_syscall_fail),
	E (sock_fcntl_fail), E (sock_fcntl_fail_fromfd), E (sock_fcntl_fail_accept), E (sem_open_fail), E (sem_recreate), E (shm_lock_sem_open_fail),
	E (sem_basic), E (sem_two), E (sem_own),
	E (shm_basic), E (shm_two_equal), E (shm_two_smaller), E (shm_two_larger), E (shm_mmap_fail), E (shm_ftruncate_fail), E (shm_open_fail), E (shm_zero_size),
	E (shmbuf_basic), E (shmbuf_two), E (shmbuf_two_diff), E (shmbuf_small),
	E (locks_all), E (rwlock_general), E (mutex_init_fail), E (cond_init_fail),
	E (thread_join), E (thread_detached), E (thread_tls_body), E (thread_two), E (thread_extra_ref), E (thread_create_fail), E (tls_main), E (tls_key_fail), E (cur_thread),
	E (loader_basic), E (loader_missing), E (loader_dlopen_fail), E (mmap_basic), E (mmap_fail),
	E (cross_ini_containers), E (cross_dir_hash), E (cross_ipc_socket), E (cross_error_chain), E (cross_everything),
	E (tree_bst_remove), E (tree_avl_remove), E (tree_rb_remove), E (err_set_twice), E (str_realloc), E (init_full), E (inval_dir_sock), E (inval_sock_ipc), E (inval_ipc_mem),
	E (sa_refused), E (sock_getsockopt_fail), E (sock_getsockopt_fail_accept), E (shm_fstat_fail), E (shm_mmap_fail_existing), E (shmbuf_own), E (own_last), E (thread_attr_fail),
	E (thread_long_name), E (mmap_unmap),
	E (long_containers), E (long_system), E (long_ipc_threads),
	{ NULL, NULL }
};

/* ------------------------------------------------------------------------------------------
 * sequences (in-process) and scenarios (forked)
 */
static struct snap base_snap;
static long seq_ctr;

static void seq_begin (long pid) {
	/* a sequence that did not end with lib_shutdown (a shrunk or cut-off case): the next one starts from a library that
	 * is not initialised, as the model does */
	if (lib_inited) { a_on = 0; p_libsys_shutdown (); lib_inited = 0; }
	(void) dlerror ();                      /* a pending dlopen error message is per-process state of libc, not of the sequence */
	names_setup (pid, seq_ctr++);
	names_remove ();
	for (int i = 0; i < NSLOT; i++) clr (i);
	memset (w_fail, 0, sizeof w_fail);
	w_closes = w_badclose = w_keys = 0; w_nmaps = 0; w_sems = 0;
	a_idx = a_calls = a_badfree = 0; a_nlive = 0; f_mode = 0; trn = 0; if (tr) tr[0] = 0;
	noutcomes = 0; outcomes[0] = 0; dl_pending = 0;
	probe_reset ();
	take_snap (&base_snap);
	a_on = 1;
}

/* resource counts relative to `begin` */
static void counts (char *dst, size_t n, int with_text) {
	struct snap s;
	int was = a_on;
	a_on = 0;
	take_snap (&s);
	a_on = was;
	int k = snprintf (dst, n, "live=%d fds=%d maps=%d names=%d keys=%ld", a_nlive, s.fds - base_snap.fds, s.maps - base_snap.maps, s.names - base_snap.names, w_keys);
	if (!with_text) k += snprintf (dst + k, n - (size_t) k, " n=%ld", a_idx);       /* allocation attempts so far */
	if (with_text) {
		char lost[512] = ""; size_t L = 0;
		for (int i = 0; i < a_nlive && L + 16 < sizeof lost; i++) L += (size_t) snprintf (lost + L, sizeof lost - L, "%s%ld", i ? "," : "", a_live[i].id);
		snprintf (dst + k, n - (size_t) k, " badclose=%ld badfree=%ld lost=[%s] fdt=[%s] base_fdt=[%s] mapt=[%s] namet=[%s]",
			  w_badclose, a_badfree, lost, s.fds != base_snap.fds ? s.fdt : "", s.fds != base_snap.fds ? base_snap.fdt : "", s.mapt, s.namet);
	}
}

static void set_fail (const char *mode, long k, const char *mask, long base) {
	f_mode = 0;
	if (!strcmp (mode, "once")) { f_mode = 1; f_k = base + k; }
	else if (!strcmp (mode, "from")) { f_mode = 2; f_k = base + k; }
	else if (!strcmp (mode, "mask")) { f_mode = 3; memset (f_mask, '0', sizeof f_mask); f_mask[sizeof f_mask - 1] = 0;
		size_t L = strlen (mask); if ((size_t) base + L >= sizeof f_mask) L = sizeof f_mask - 1 - (size_t) base;
		memcpy (f_mask + base, mask, L); f_mask[(size_t) base + L] = 0; }
}

static int find_scen (const char *name) { for (int i = 0; SCENARIOS[i].name; i++) if (!strcmp (SCENARIOS[i].name, name)) return i; return -1; }

static void run_scen_child (int si, const char *mode, long k, const char *mask, int wfd) {
	char line[8192 + 4096], cnt[4096];
	progress_fd = wfd;
	alarm (30);
	seq_begin ((long) getpid ());
	set_fail (mode, k, mask, 0);
	SCENARIOS[si].fn ();
	a_on = 0;
	counts (cnt, sizeof cnt, 1);
	int n = snprintf (line, sizeof line, "=out=%s n=%ld calls=%ld closes=%ld %s chg=[%s] trace=", outcomes, a_idx, a_calls, w_closes, cnt, chg);
	if (write (wfd, line, (size_t) n) < 0 || write (wfd, tr ? tr : "", trn) < 0 || write (wfd, "\n", 1) < 0) {}
	names_remove ();
	_exit (0);
}

static void cmd_scen (char *name, char *mode, long k, char *mask) {
	int si = find_scen (name);
	if (si < 0) { fprintf (out, "%s %s %ld bad-scenario\n", name, mode, k); return; }
	int pfd[2];
	char errpath[64];
	snprintf (errpath, sizeof errpath, "/tmp/pvres-err-%ld", (long) getpid ());
	if (pipe (pfd) != 0) { fprintf (out, "%s %s %ld pipe-failed\n", name, mode, k); return; }
	fflush (out);
	pid_t pid = fork ();
	if (pid == 0) {
		__real_close (pfd[0]);
		int efd = open (errpath, O_WRONLY | O_CREAT | O_TRUNC, 0600);
		if (efd >= 0) { dup2 (efd, 2); __real_close (efd); }
		run_scen_child (si, mode, k, mask, pfd[1]);
		_exit (0);
	}
	__real_close (pfd[1]);
	/* read everything the child says */
	size_t cap = 1 << 16, len = 0;
	char *buf = malloc (cap);
	for (;;) {
		if (len + 4096 > cap) { cap *= 2; buf = realloc (buf, cap); }
		ssize_t r = read (pfd[0], buf + len, cap - len - 1);
		if (r < 0 && errno == EINTR) continue;
		if (r <= 0) break;
		len += (size_t) r;
	}
	buf[len] = 0;
	__real_close (pfd[0]);
	int st = 0;
	while (waitpid (pid, &st, 0) < 0 && errno == EINTR) ;
	/* the child's names (in case it died before removing them) */
	names_setup ((long) pid, 0);
	names_remove ();
	char *summary = NULL, *last_call = NULL;
	for (char *l = buf; l && *l; ) {
		char *nl = strchr (l, '\n');
		if (nl) *nl = 0;
		if (*l == '=') summary = l + 1; else if (*l == '@') last_call = l + 1;
		l = nl ? nl + 1 : NULL;
	}
	if (WIFEXITED (st) && WEXITSTATUS (st) == 0 && summary)
		fprintf (out, "%s %s %ld %s\n", name, mode, k, summary);
	else {
		/* sanitizer headline */
		char head[300] = "";
		FILE *ef = fopen (errpath, "r");
		if (ef) { char l[400];
			while (fgets (l, sizeof l, ef)) if (strstr (l, "ERROR: AddressSanitizer") || strstr (l, "runtime error")) {
				l[strcspn (l, "\n")] = 0; char *q = strstr (l, "ERROR: AddressSanitizer"); snprintf (head, sizeof head, "%s", q ? q + 7 : l); 
				for (char *z = head; *z; z++) if (*z == ' ') *z = '_';
				break; }
			__real_fclose (ef); }
		for (char *z = last_call; z && *z; z++) if (*z == ' ') *z = ',';
		fprintf (out, "%s %s %ld CRASH status=%s%d at=[%s] report=%s\n", name, mode, k, WIFSIGNALED (st) ? "sig" : "exit",
			 WIFSIGNALED (st) ? WTERMSIG (st) : WEXITSTATUS (st), last_call ? last_call : "", head[0] ? head : "-");
	}
	unlink (errpath);
	free (buf);
}

int main (void) {
	char line[8192];
	signal (SIGPIPE, SIG_IGN);
	scratch = getenv ("PVRES_DIR");
	if (!scratch) scratch = "/nonexistent-pvres";
	/* keep the protocol channel, silence the library's printf diagnostics */
	out = fdopen (dup (1), "w");
	int nul = open ("/dev/null", O_WRONLY);
	if (nul >= 0) { dup2 (nul, 1); __real_close (nul); }
	install_tracker ();
	int in_seq = 0;
	while (fgets (line, sizeof line, stdin)) {
		char *tok[8] = { 0 };
		int nt = 0;
		char copy[8192];
		snprintf (copy, sizeof copy, "%s", line);
		copy[strcspn (copy, "\r\n")] = 0;
		char work[8192];
		snprintf (work, sizeof work, "%s", copy);
		for (char *t = strtok (work, " \t"); t && nt < 7; t = strtok (NULL, " \t")) tok[nt++] = t;
		if (nt == 0) continue;
		if (!strcmp (tok[0], "scen") && nt >= 4) cmd_scen (tok[1], tok[2], atol (tok[3]), nt >= 5 ? tok[4] : "");
		else if (!strcmp (tok[0], "list")) { for (int i = 0; SCENARIOS[i].name; i++) fprintf (out, "%s%s", i ? " " : "", SCENARIOS[i].name); fprintf (out, "\n"); }
		else if (!strcmp (tok[0], "dump") && nt == 2) {
			int si = find_scen (tok[1]);
			if (si < 0) fprintf (out, "bad-scenario\n");
			else { dump_mode = 1; noutcomes = 0; SCENARIOS[si].fn (); dump_mode = 0; noutcomes = 0; fprintf (out, "\n"); }
		}
		else if (!strcmp (tok[0], "begin")) { seq_begin ((long) getpid ()); in_seq = 1; fprintf (out, "ok\n"); }
		else if (!strcmp (tok[0], "fail") && nt >= 2 && in_seq) { set_fail (tok[1], nt >= 3 ? atol (tok[2]) : 0, nt >= 3 ? tok[2] : "", a_idx); fprintf (out, "ok\n"); }
		else if (!strcmp (tok[0], "call") && nt >= 2 && in_seq) {
			char cnt[512];
			char r = do_call (copy + 5);
			counts (cnt, sizeof cnt, 0);
			if (r == '?') fprintf (out, "bad-op\n"); else if (r == 'X') fprintf (out, "X %s chg=[%s]\n", cnt, chg); else fprintf (out, "%c %s\n", r, cnt);
		}
		else if (!strcmp (tok[0], "end") && in_seq) {
			char cnt[4096];
			a_on = 0;
			counts (cnt, sizeof cnt, 1);
			/* the same line as the model's; the details of what is left over go to stderr */
			{ char *extra = strstr (cnt, " lost=");
			  if (extra) { if (!strstr (cnt, "live=0 fds=0 maps=0 names=0 keys=0 badclose=0 badfree=0")) fprintf (stderr, "res harness: at end:%s\n", extra); *extra = 0; } }
			fprintf (out, "end n=%ld closes=%ld %s\n", a_idx, w_closes, cnt);
			names_remove ();
			in_seq = 0;
		}
		else fprintf (out, "bad-op\n");
		fflush (out);
	}
	return 0;
}

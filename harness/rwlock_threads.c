/* C02 supporting run: real threads on the real primitives, built with clang -fsanitize=thread.
 * Links either prwlock-general.c (+ the real pmutex-posix.c / pcondvariable-posix.c) or
 * prwlock-posix.c.  Writers modify two plain ints, readers read them and check them equal:
 * any overlap of a writer with anybody is a data race (TSan report) or an invariant break.
 * argv: nthreads rounds seed.  Prints one line `ok readers=<n> writers=<n> maxr=<n>` or `FAIL ...`.
 * A watchdog (alarm) turns a hang into `FAIL hang`. */
#define _GNU_SOURCE
#include "pmem.h"
#include "prwlock.h"
#include <stdio.h>
#include <stdlib.h>
#include <string.h>
#include <signal.h>
#include <unistd.h>
#include <pthread.h>

/* allocation (pmem.c and its error machinery are not linked) */
P_LIB_API ppointer p_malloc0 (psize n) { return calloc (1, n); }
P_LIB_API ppointer p_malloc (psize n) { return malloc (n); }
P_LIB_API void p_free (ppointer p) { free (p); }

static PRWLock *lk;
static volatile int stop_flag;
static int data_a, data_b;                 /* protected by lk */
static int cur_readers, max_readers;       /* atomics */
static long n_r, n_w, n_tryfail;
static int rounds, failed;

static void on_alarm (int s) { (void) s; static const char m[] = "FAIL hang (watchdog)\n"; if (write (1, m, sizeof m - 1)) {} _exit (3); }

static void *worker (void *arg) {
	unsigned seed = (unsigned) (size_t) arg;
	int i;
	for (i = 0; i < rounds; i++) {
		unsigned k = rand_r (&seed) % 8;
		if (k < 4) {            /* reader, blocking or try */
			pboolean ok = (k < 3) ? p_rwlock_reader_lock (lk) : p_rwlock_reader_trylock (lk);
			if (ok) {
				int a, b, c;
				c = __atomic_add_fetch (&cur_readers, 1, __ATOMIC_RELAXED);
				{ int m = __atomic_load_n (&max_readers, __ATOMIC_RELAXED); while (c > m && !__atomic_compare_exchange_n (&max_readers, &m, c, 0, __ATOMIC_RELAXED, __ATOMIC_RELAXED)) {} }
				a = data_a; if ((rand_r (&seed) & 3) == 0) sched_yield (); b = data_b;
				if (a != b) { __atomic_store_n (&failed, 1, __ATOMIC_RELAXED); }
				__atomic_sub_fetch (&cur_readers, 1, __ATOMIC_RELAXED);
				__atomic_add_fetch (&n_r, 1, __ATOMIC_RELAXED);
				if (!p_rwlock_reader_unlock (lk)) __atomic_store_n (&failed, 2, __ATOMIC_RELAXED);
			} else if (k < 3) __atomic_store_n (&failed, 3, __ATOMIC_RELAXED);
			else __atomic_add_fetch (&n_tryfail, 1, __ATOMIC_RELAXED);
		} else {
			pboolean ok = (k < 7) ? p_rwlock_writer_lock (lk) : p_rwlock_writer_trylock (lk);
			if (ok) {
				if (__atomic_load_n (&cur_readers, __ATOMIC_RELAXED) != 0) __atomic_store_n (&failed, 4, __ATOMIC_RELAXED);
				data_a++; if ((rand_r (&seed) & 3) == 0) sched_yield (); data_b++;
				__atomic_add_fetch (&n_w, 1, __ATOMIC_RELAXED);
				if (!p_rwlock_writer_unlock (lk)) __atomic_store_n (&failed, 5, __ATOMIC_RELAXED);
			} else if (k < 7) __atomic_store_n (&failed, 6, __ATOMIC_RELAXED);
			else __atomic_add_fetch (&n_tryfail, 1, __ATOMIC_RELAXED);
		}
	}
	return NULL;
}

/* scenario `rr`: a finite set of rounds with a recursive read lock and a writer queued in between
 *   A: rlock; (W starts: wlock blocks); rlock; runlock; runlock      W: wlock; wunlock
 * and `share`: reader B asks while reader A holds and a writer is queued; A releases only after B got in.
 * Both complete when readers are admitted while the lock is in read mode (both implementations as shipped);
 * they hang when a queued writer blocks further readers. */
static volatile int w_started, b_in;
static void *scen_writer (void *a) { (void) a; __atomic_store_n (&w_started, 1, __ATOMIC_SEQ_CST); p_rwlock_writer_lock (lk); p_rwlock_writer_unlock (lk); return NULL; }
static void *scen_reader_b (void *a) { (void) a; p_rwlock_reader_lock (lk); __atomic_store_n (&b_in, 1, __ATOMIC_SEQ_CST); p_rwlock_reader_unlock (lk); return NULL; }
static int scenario (const char *name) {
	pthread_t w, b;
	signal (SIGALRM, on_alarm);
	alarm (10);
	lk = p_rwlock_new ();
	if (!lk) { puts ("FAIL new"); return 2; }
	p_rwlock_reader_lock (lk);
	pthread_create (&w, NULL, scen_writer, NULL);
	while (!__atomic_load_n (&w_started, __ATOMIC_SEQ_CST)) ;
	usleep (150000);                               /* let the writer block inside wlock */
	if (!strcmp (name, "rr")) {
		p_rwlock_reader_lock (lk);
		p_rwlock_reader_unlock (lk);
	} else {
		pthread_create (&b, NULL, scen_reader_b, NULL);
		while (!__atomic_load_n (&b_in, __ATOMIC_SEQ_CST)) ;   /* A keeps its read lock until B got in */
		pthread_join (b, NULL);
	}
	p_rwlock_reader_unlock (lk);
	pthread_join (w, NULL);
	p_rwlock_free (lk);
	printf ("ok scenario %s\n", name);
	return 0;
}

/* ---- more finite scenarios (watchdog = hang = FAIL) ----
 * two       two lock objects are independent: holding A for writing, B can be taken for writing and released;
 *           a trylock on B from another thread fails only while B itself is held
 * tryhold   trylock semantics against a real holder in another thread: fails (promptly, never blocks) exactly
 *           when the mode is not grantable, succeeds otherwise
 * readers K K threads hold the lock for reading at the same instant; a writer trylock fails; after all released
 *           it succeeds */
static int expect_fail;
#define EXPECT(c, what) do { if (!(c)) { printf ("FAIL %s\n", what); fflush (stdout); _exit (1); } } while (0)

static PRWLock *la, *lb;
static int res_r, res_w;
static void *try_both (void *arg) {
	PRWLock *l = arg;
	res_r = p_rwlock_reader_trylock (l) ? 1 : 0; if (res_r) p_rwlock_reader_unlock (l);
	res_w = p_rwlock_writer_trylock (l) ? 1 : 0; if (res_w) p_rwlock_writer_unlock (l);
	return NULL;
}
static void *try_r_hold (void *arg) {   /* reader trylock, keep it until told */
	PRWLock *l = arg;
	res_r = p_rwlock_reader_trylock (l) ? 1 : 0;
	__atomic_store_n (&b_in, 1, __ATOMIC_SEQ_CST);
	while (!__atomic_load_n (&w_started, __ATOMIC_SEQ_CST)) usleep (1000);
	if (res_r) p_rwlock_reader_unlock (l);
	return NULL;
}
static void in_thread (void *(*fn) (void *), void *arg) { pthread_t t; pthread_create (&t, NULL, fn, arg); pthread_join (t, NULL); }

static int scen_two (void) {
	signal (SIGALRM, on_alarm); alarm (10);
	la = p_rwlock_new (); lb = p_rwlock_new ();
	EXPECT (la && lb, "new");
	EXPECT (la != lb, "two p_rwlock_new calls returned the same object");
	EXPECT (p_rwlock_writer_lock (la), "wlock(A)");
	in_thread (try_both, lb);
	EXPECT (res_r == 1 && res_w == 1, "trylock on lock B failed although only lock A is held (the two objects are not independent)");
	EXPECT (p_rwlock_writer_lock (lb), "wlock(B) returned FALSE while only lock A is held");
	in_thread (try_both, la);
	EXPECT (res_r == 0 && res_w == 0, "trylock on A granted while A is write-held");
	EXPECT (p_rwlock_writer_unlock (lb), "wunlock(B)");
	in_thread (try_both, la);
	EXPECT (res_r == 0 && res_w == 0, "releasing lock B released lock A (trylock on A granted while A is write-held)");
	in_thread (try_both, lb);
	EXPECT (res_r == 1 && res_w == 1, "trylock on B failed after B was released");
	EXPECT (p_rwlock_writer_unlock (la), "wunlock(A)");
	EXPECT (p_rwlock_reader_lock (la), "rlock(A)");
	EXPECT (p_rwlock_writer_lock (lb), "wlock(B) while A is read-held");
	in_thread (try_both, la);
	EXPECT (res_r == 1 && res_w == 0, "A read-held: reader trylock must succeed, writer trylock must fail");
	EXPECT (p_rwlock_writer_unlock (lb) && p_rwlock_reader_unlock (la), "unlock");
	p_rwlock_free (la);
	EXPECT (p_rwlock_writer_trylock (lb) && p_rwlock_writer_unlock (lb), "lock B unusable after lock A was freed");
	p_rwlock_free (lb);
	puts ("ok scenario two");
	return 0;
}

static int scen_tryhold (void) {
	pthread_t t;
	signal (SIGALRM, on_alarm); alarm (10);
	lk = p_rwlock_new ();
	EXPECT (lk, "new");
	EXPECT (p_rwlock_writer_lock (lk), "wlock");
	in_thread (try_both, lk);
	EXPECT (res_r == 0, "reader trylock granted while a writer holds");
	EXPECT (res_w == 0, "writer trylock granted while a writer holds");
	EXPECT (p_rwlock_writer_unlock (lk), "wunlock");
	EXPECT (p_rwlock_reader_lock (lk), "rlock");
	in_thread (try_both, lk);
	EXPECT (res_r == 1, "reader trylock failed while only a reader holds (readers share)");
	EXPECT (res_w == 0, "writer trylock granted while a reader holds");
	/* a second reader (by trylock, another thread) holds together with us */
	b_in = 0; w_started = 0;
	pthread_create (&t, NULL, try_r_hold, lk);
	while (!__atomic_load_n (&b_in, __ATOMIC_SEQ_CST)) usleep (1000);
	EXPECT (res_r == 1, "second reader trylock failed");
	EXPECT (p_rwlock_reader_unlock (lk), "runlock");
	EXPECT (!p_rwlock_writer_trylock (lk), "writer trylock granted while the second reader still holds");
	__atomic_store_n (&w_started, 1, __ATOMIC_SEQ_CST);
	pthread_join (t, NULL);
	EXPECT (p_rwlock_writer_trylock (lk), "writer trylock failed on a free lock");
	EXPECT (p_rwlock_writer_unlock (lk), "wunlock");
	in_thread (try_both, lk);
	EXPECT (res_r == 1 && res_w == 1, "trylock failed on a free lock");
	p_rwlock_free (lk);
	puts ("ok scenario tryhold");
	return 0;
}

static int rd_in, rd_go, rd_fail;
static void *rd_worker (void *arg) {
	long i = (long) arg;
	pboolean ok = (i & 1) ? p_rwlock_reader_trylock (lk) : p_rwlock_reader_lock (lk);
	if (!ok) __atomic_store_n (&rd_fail, 1, __ATOMIC_SEQ_CST);
	__atomic_add_fetch (&rd_in, 1, __ATOMIC_SEQ_CST);
	while (!__atomic_load_n (&rd_go, __ATOMIC_SEQ_CST)) usleep (1000);
	if (ok && !p_rwlock_reader_unlock (lk)) __atomic_store_n (&rd_fail, 2, __ATOMIC_SEQ_CST);
	return NULL;
}
static int scen_readers (int k) {
	pthread_t *t = calloc ((size_t) k, sizeof *t);
	long i;
	signal (SIGALRM, on_alarm); alarm (30);
	lk = p_rwlock_new ();
	EXPECT (lk && t, "new");
	for (i = 0; i < k; i++) pthread_create (&t[i], NULL, rd_worker, (void *) i);
	while (__atomic_load_n (&rd_in, __ATOMIC_SEQ_CST) < k) usleep (1000);
	EXPECT (!rd_fail, "a reader lock / trylock failed while only readers hold");
	in_thread (try_both, lk);
	EXPECT (res_w == 0, "writer trylock granted while K readers hold");
	EXPECT (res_r == 1, "reader trylock failed while K readers hold");
	__atomic_store_n (&rd_go, 1, __ATOMIC_SEQ_CST);
	for (i = 0; i < k; i++) pthread_join (t[i], NULL);
	EXPECT (!rd_fail, "reader unlock failed");
	EXPECT (p_rwlock_writer_trylock (lk), "writer trylock failed after all K readers released");
	EXPECT (p_rwlock_writer_unlock (lk), "wunlock");
	p_rwlock_free (lk);
	printf ("ok scenario readers %d\n", k);
	return 0;
}

int main (int argc, char **argv) {
	int nt = argc > 1 ? atoi (argv[1]) : 8, i;
	(void) expect_fail;
	if (argc > 1 && (!strcmp (argv[1], "rr") || !strcmp (argv[1], "share"))) return scenario (argv[1]);
	if (argc > 1 && !strcmp (argv[1], "two")) return scen_two ();
	if (argc > 1 && !strcmp (argv[1], "tryhold")) return scen_tryhold ();
	if (argc > 1 && !strcmp (argv[1], "readers")) return scen_readers (argc > 2 ? atoi (argv[2]) : 200);
	unsigned seed = argc > 3 ? (unsigned) atoi (argv[3]) : 1;
	pthread_t th[64];
	rounds = argc > 2 ? atoi (argv[2]) : 1000;
	if (nt > 64) nt = 64;
	signal (SIGALRM, on_alarm);
	alarm (argc > 4 ? atoi (argv[4]) : 120);
	lk = p_rwlock_new ();
	if (!lk) { puts ("FAIL new"); return 2; }
	for (i = 0; i < nt; i++) pthread_create (&th[i], NULL, worker, (void *) (size_t) (seed * 1000 + i + 1));
	for (i = 0; i < nt; i++) pthread_join (th[i], NULL);
	p_rwlock_free (lk);
	if (failed) { printf ("FAIL invariant code=%d\n", failed); return 1; }
	if (data_a != data_b || data_a != n_w) { printf ("FAIL lost update a=%d b=%d writers=%ld\n", data_a, data_b, n_w); return 1; }
	printf ("ok readers=%ld writers=%ld tryfail=%ld maxr=%d\n", n_r, n_w, n_tryfail, max_readers);
	return 0;
}

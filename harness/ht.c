/* C15 harness: drives the real PHashTable / PList from an op file (stdin), one answer per op.
 * Built from /repo/src of the working tree with ASan+UBSan (abort on first report). */
#include <plibsys.h>
#include <stdio.h>
#include <stdlib.h>
#include <string.h>
#include <inttypes.h>

static void print_list (PList *l) {
	int first = 1;
	printf ("[");
	for (PList *c = l; c != NULL; c = c->next) {
		printf ("%s%" PRIu64, first ? "" : " ", (uint64_t) (uintptr_t) c->data);
		first = 0;
	}
	printf ("]\n");
}

/* one-shot allocation failure (ops insf / lappf / lpref): the next p_malloc of the library returns NULL */
static int fail_next;
static long live_blocks;   /* blocks the library holds (op `newf` prints what a creation call left allocated) */
static int fail_at;    /* op `newf K`: the K-th allocation from now on fails */
static ppointer f_malloc (psize n) { if (fail_next) { fail_next = 0; return NULL; } if (fail_at && --fail_at == 0) return NULL; ++live_blocks; return malloc (n); }
static ppointer f_realloc (ppointer p, psize n) { return realloc (p, n); }
static void f_free (ppointer p) { if (p) --live_blocks; free (p); }
/* the library reports the failed allocation with a P_ERROR line on stdout: not part of the protocol */
#include <unistd.h>
#include <fcntl.h>
static int saved_out = -1;
static void mute (void) { fflush (stdout); saved_out = dup (1); int nul = open ("/dev/null", O_WRONLY); dup2 (nul, 1); close (nul); fail_next = 1; }
static void unmute (void) { fail_next = 0; fflush (stdout); dup2 (saved_out, 1); close (saved_out); saved_out = -1; }

/* compare function for lookup_by_value (op lbvf): deliberately not symmetric — the stored value (first argument) is
 * "equal" to the asked one (second argument) when its bits above the low 8 are the asked word; any non-zero result of
 * either sign means "different" */
static pint value_cmp (pconstpointer stored, pconstpointer asked) {
	uint64_t s = (uint64_t) (uintptr_t) stored >> 8, a = (uint64_t) (uintptr_t) asked;
	return s == a ? 0 : s < a ? -5 : 7;
}

/* p_list_foreach callback: records the data in call order */
static uint64_t seen[4096]; static int nseen; static int cookie;
static void each_cb (ppointer data, ppointer user) {
	if (user != &cookie) { puts ("DATA-MISMATCH"); exit (4); }
	if (nseen < 4096) seen[nseen++] = (uint64_t) (uintptr_t) data;
}

int main (void) {
	char line[256], op[32];
	unsigned long long a, b;
	PMemVTable vt = { f_malloc, f_realloc, f_free };
	p_libsys_init_full (&vt);
	PHashTable *t = p_hash_table_new ();
	PHashTable *t2 = p_hash_table_new ();      /* a second table (ops ins2 / rem2 / get2 / keys2 / vals2): tables do not share state */
	PList *l = NULL;
	while (fgets (line, sizeof line, stdin)) {
		a = b = 0;
		int n = sscanf (line, "%31s %llu %llu", op, &a, &b);
		if (n < 1) continue;
		if (!strcmp (op, "ins") && n == 3) { p_hash_table_insert (t, (ppointer) (uintptr_t) a, (ppointer) (uintptr_t) b); puts ("ok"); }
		else if (!strcmp (op, "rem") && n == 2) { p_hash_table_remove (t, (pconstpointer) (uintptr_t) a); puts ("ok"); }
		else if (!strcmp (op, "get") && n == 2) {
			ppointer r = p_hash_table_lookup (t, (pconstpointer) (uintptr_t) a);
			/* the documented not-found marker; a stored all-ones value is indistinguishable by this call
			 * (the model driver prints it as `nf` too); keys / vals / lbv tell the two apart */
			if (r == (ppointer) (-1)) puts ("nf"); else printf ("%" PRIu64 "\n", (uint64_t) (uintptr_t) r);
		}
		else if (!strcmp (op, "keys") && n == 1) { PList *k = p_hash_table_keys (t); print_list (k); p_list_free (k); }
		else if (!strcmp (op, "vals") && n == 1) { PList *k = p_hash_table_values (t); print_list (k); p_list_free (k); }
		else if (!strcmp (op, "lbv") && n == 2) { PList *k = p_hash_table_lookup_by_value (t, (pconstpointer) (uintptr_t) a, NULL); print_list (k); p_list_free (k); }
		else if (!strcmp (op, "lapp") && n == 2) { l = p_list_append (l, (ppointer) (uintptr_t) a); print_list (l); }
		else if (!strcmp (op, "lpre") && n == 2) { l = p_list_prepend (l, (ppointer) (uintptr_t) a); print_list (l); }
		else if (!strcmp (op, "lrem") && n == 2) { l = p_list_remove (l, (pconstpointer) (uintptr_t) a); print_list (l); }
		else if (!strcmp (op, "lrev") && n == 1) { l = p_list_reverse (l); print_list (l); }
		else if (!strcmp (op, "llast") && n == 1) { PList *x = p_list_last (l); if (x) printf ("%" PRIu64 "\n", (uint64_t) (uintptr_t) x->data); else puts ("nf"); }
		else if (!strcmp (op, "llen") && n == 1) { printf ("%zu\n", (size_t) p_list_length (l)); }
		else if (!strcmp (op, "insf") && n == 3) { mute (); p_hash_table_insert (t, (ppointer) (uintptr_t) a, (ppointer) (uintptr_t) b); unmute (); puts ("ok"); }
		else if (!strcmp (op, "lappf") && n == 2) { mute (); l = p_list_append (l, (ppointer) (uintptr_t) a); unmute (); print_list (l); }
		else if (!strcmp (op, "lpref") && n == 2) { mute (); l = p_list_prepend (l, (ppointer) (uintptr_t) a); unmute (); print_list (l); }
		else if (!strcmp (op, "newf") && n == 2) {
			/* p_hash_table_new whose K-th allocation fails (handle, bucket array): NULL, nothing kept; K = 0 or > 2: a third
			 * table that lives for this op only */
			mute (); fail_next = 0; fail_at = (int) a;
			long before = live_blocks;
			PHashTable *t3 = p_hash_table_new ();
			long held = live_blocks - before;
			fail_at = 0; unmute ();
			if (t3) { p_hash_table_insert (t3, (ppointer) (uintptr_t) 5, (ppointer) (uintptr_t) 6); p_hash_table_free (t3); }
			printf ("%s held=%ld after-free=%ld\n", t3 ? "ok" : "null", held, live_blocks - before);
		}
		else if (!strcmp (op, "lbvf") && n == 2) { PList *k = p_hash_table_lookup_by_value (t, (pconstpointer) (uintptr_t) a, value_cmp); print_list (k); p_list_free (k); }
		else if (!strcmp (op, "leach") && n == 1) {
			nseen = 0;
			p_list_foreach (l, each_cb, &cookie);
			p_list_foreach (l, NULL, &cookie);
			printf ("[");
			for (int i = 0; i < nseen; ++i) printf ("%s%" PRIu64, i ? " " : "", seen[i]);
			printf ("]\n");
		}
		else if (!strcmp (op, "lfree") && n == 1) { p_list_free (l); l = NULL; print_list (l); }
		else if (!strcmp (op, "ins2") && n == 3) { p_hash_table_insert (t2, (ppointer) (uintptr_t) a, (ppointer) (uintptr_t) b); puts ("ok"); }
		else if (!strcmp (op, "rem2") && n == 2) { p_hash_table_remove (t2, (pconstpointer) (uintptr_t) a); puts ("ok"); }
		else if (!strcmp (op, "get2") && n == 2) {
			ppointer r = p_hash_table_lookup (t2, (pconstpointer) (uintptr_t) a);
			if (r == (ppointer) (-1)) puts ("nf"); else printf ("%" PRIu64 "\n", (uint64_t) (uintptr_t) r);
		}
		else if (!strcmp (op, "keys2") && n == 1) { PList *k = p_hash_table_keys (t2); print_list (k); p_list_free (k); }
		else if (!strcmp (op, "vals2") && n == 1) { PList *k = p_hash_table_values (t2); print_list (k); p_list_free (k); }
		else if (!strcmp (op, "api") && n == 1) {
			/* every entry point with a NULL table / NULL list / NULL callback: defined, and a no-op */
			char bad[256]; bad[0] = 0;
			p_hash_table_insert (NULL, (ppointer) 1, (ppointer) 2);
			if (p_hash_table_lookup (NULL, (pconstpointer) 1) != NULL) strcat (bad, " lookup(NULL)");
			if (p_hash_table_keys (NULL) != NULL) strcat (bad, " keys(NULL)");
			if (p_hash_table_values (NULL) != NULL) strcat (bad, " values(NULL)");
			if (p_hash_table_lookup_by_value (NULL, (pconstpointer) 1, NULL) != NULL) strcat (bad, " lookup_by_value(NULL)");
			if (p_hash_table_lookup_by_value (NULL, (pconstpointer) 1, value_cmp) != NULL) strcat (bad, " lookup_by_value(NULL,func)");
			p_hash_table_remove (NULL, (pconstpointer) 1);
			p_hash_table_free (NULL);
			if (p_list_remove (NULL, (pconstpointer) 1) != NULL) strcat (bad, " list_remove(NULL)");
			nseen = 0;
			p_list_foreach (NULL, each_cb, &cookie);
			if (nseen != 0) strcat (bad, " list_foreach(NULL)");
			p_list_free (NULL);
			if (p_list_last (NULL) != NULL) strcat (bad, " list_last(NULL)");
			if (p_list_length (NULL) != 0) strcat (bad, " list_length(NULL)");
			if (p_list_reverse (NULL) != NULL) strcat (bad, " list_reverse(NULL)");
			printf ("null-api=%s\n", bad[0] ? bad : "ok");
		}
		else if (!strcmp (op, "reset") && n == 1) { p_hash_table_free (t); t = p_hash_table_new (); p_hash_table_free (t2); t2 = p_hash_table_new (); p_list_free (l); l = NULL; puts ("ok"); }
		else puts ("bad-op");
		fflush (stdout);
	}
	p_hash_table_free (t);
	p_hash_table_free (t2);
	p_list_free (l);
	p_libsys_shutdown ();
	return 0;
}

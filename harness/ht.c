/* C15 harness: drives the real PHashTable / PList from an op file (stdin), one answer per op.
 * Built from /repo/src of the working tree with ASan+UBSan (abort on first report). */
#include <plibsys.h>
#include <stdio.h>
#include <stdlib.h>
#include <string.h>
#include <inttypes.h>

static void print_list (PList *l) {
	int first = 1;
	printf ("[");
	for (PList *c = l; c != NULL; c = c->next) {
		printf ("%s%" PRIu64, first ? "" : " ", (uint64_t) (uintptr_t) c->data);
		first = 0;
	}
	printf ("]\n");
}

int main (void) {
	char line[256], op[32];
	unsigned long long a, b;
	p_libsys_init ();
	PHashTable *t = p_hash_table_new ();
	PList *l = NULL;
	while (fgets (line, sizeof line, stdin)) {
		a = b = 0;
		int n = sscanf (line, "%31s %llu %llu", op, &a, &b);
		if (n < 1) continue;
		if (!strcmp (op, "ins") && n == 3) { p_hash_table_insert (t, (ppointer) (uintptr_t) a, (ppointer) (uintptr_t) b); puts ("ok"); }
		else if (!strcmp (op, "rem") && n == 2) { p_hash_table_remove (t, (pconstpointer) (uintptr_t) a); puts ("ok"); }
		else if (!strcmp (op, "get") && n == 2) {
			ppointer r = p_hash_table_lookup (t, (pconstpointer) (uintptr_t) a);
			/* the documented not-found marker; a stored all-ones value is indistinguishable by this call
			 * (the model driver prints it as `nf` too); keys / vals / lbv tell the two apart */
			if (r == (ppointer) (-1)) puts ("nf"); else printf ("%" PRIu64 "\n", (uint64_t) (uintptr_t) r);
		}
		else if (!strcmp (op, "keys") && n == 1) { PList *k = p_hash_table_keys (t); print_list (k); p_list_free (k); }
		else if (!strcmp (op, "vals") && n == 1) { PList *k = p_hash_table_values (t); print_list (k); p_list_free (k); }
		else if (!strcmp (op, "lbv") && n == 2) { PList *k = p_hash_table_lookup_by_value (t, (pconstpointer) (uintptr_t) a, NULL); print_list (k); p_list_free (k); }
		else if (!strcmp (op, "lapp") && n == 2) { l = p_list_append (l, (ppointer) (uintptr_t) a); print_list (l); }
		else if (!strcmp (op, "lpre") && n == 2) { l = p_list_prepend (l, (ppointer) (uintptr_t) a); print_list (l); }
		else if (!strcmp (op, "lrem") && n == 2) { l = p_list_remove (l, (pconstpointer) (uintptr_t) a); print_list (l); }
		else if (!strcmp (op, "lrev") && n == 1) { l = p_list_reverse (l); print_list (l); }
		else if (!strcmp (op, "llast") && n == 1) { PList *x = p_list_last (l); if (x) printf ("%" PRIu64 "\n", (uint64_t) (uintptr_t) x->data); else puts ("nf"); }
		else if (!strcmp (op, "llen") && n == 1) { printf ("%zu\n", (size_t) p_list_length (l)); }
		else if (!strcmp (op, "reset") && n == 1) { p_hash_table_free (t); t = p_hash_table_new (); p_list_free (l); l = NULL; puts ("ok"); }
		else puts ("bad-op");
		fflush (stdout);
	}
	p_hash_table_free (t);
	p_list_free (l);
	p_libsys_shutdown ();
	return 0;
}

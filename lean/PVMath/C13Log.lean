import PV.Props.C13
import Mathlib.Analysis.SpecialFunctions.Log.Base
import Mathlib.NumberTheory.Real.GoldenRatio
import Mathlib.Data.Nat.Fib.Basic
import Mathlib.Tactic.Linarith
import Mathlib.Tactic.NormNum
import Mathlib.Tactic.Positivity
/-!
# C13 — real-valued logarithmic forms of the AVL / red-black height bounds

This library may import Mathlib; it is never imported by `PV` or the driver executable.
-/
namespace PV.Tree
open Real

variable {κ ν : Type} {cmp : κ → κ → Ordering}

/-- the project's own `fib` is Mathlib's -/
theorem fib_eq_nat_fib : ∀ n : Nat, PV.Tree.fib n = Nat.fib n
  | 0 => rfl
  | 1 => rfl
  | n + 2 => by rw [PV.Tree.fib, Nat.fib_add_two, fib_eq_nat_fib n, fib_eq_nat_fib (n + 1)]

/-- `φ^n ≤ fib (n+2)` -/
theorem goldenRatio_pow_le_fib : ∀ n : Nat, goldenRatio ^ n ≤ (Nat.fib (n + 2) : ℝ)
  | 0 => by simp
  | 1 => by
    have := goldenRatio_lt_two
    norm_num [Nat.fib_add_two]
    linarith
  | n + 2 => by
    have h0 := goldenRatio_pow_le_fib n
    have h1 := goldenRatio_pow_le_fib (n + 1)
    have e : goldenRatio ^ (n + 2) = goldenRatio ^ n + goldenRatio ^ (n + 1) := by
      rw [pow_add, goldenRatio_sq]; ring
    rw [e, Nat.fib_add_two (n := n + 2)]
    push_cast
    linarith

theorem logb_two_goldenRatio_pos : 0 < logb 2 goldenRatio :=
  logb_pos (by norm_num) one_lt_goldenRatio

/-- `987/610 < φ` (consecutive Fibonacci numbers) -/
theorem goldenRatio_gt : (987 / 610 : ℝ) < goldenRatio := by
  have h : (682 / 305 : ℝ) < √5 := by
    rw [lt_sqrt (by norm_num)]; norm_num
  unfold goldenRatio
  linarith

/-- `2^84 < φ^121` -/
theorem two_pow_lt_goldenRatio_pow : (2 : ℝ) ^ 84 < goldenRatio ^ 121 :=
  calc (2 : ℝ) ^ 84 < (987 / 610 : ℝ) ^ 121 := by norm_num
    _ < goldenRatio ^ 121 := pow_lt_pow_left₀ goldenRatio_gt (by norm_num) (by norm_num)

/-- `84/121 < log2 φ` (`log2 φ = 0.694241…`, `84/121 = 0.694214…`) -/
theorem logb_two_goldenRatio_gt : (84 / 121 : ℝ) < logb 2 goldenRatio := by
  have h := logb_lt_logb (b := 2) (by norm_num) (by positivity) two_pow_lt_goldenRatio_pow
  rw [logb_pow, logb_pow, logb_self_eq_one (by norm_num)] at h
  norm_num at h
  linarith

/-- the AVL constant: `1 / log2 φ < 121/84 < 1.4405` (`1 / log2 φ = 1.440420…`) -/
theorem avl_const_lt : 1 / logb 2 goldenRatio < 1.4405 := by
  rw [div_lt_iff₀ logb_two_goldenRatio_pos]
  have := logb_two_goldenRatio_gt
  norm_num
  linarith

/-- `h · log2 φ ≤ log2 (n+2)` -/
theorem avl_height_mul_log (t : AT κ ν) (hi : t.Inv) :
    (t.height : ℝ) * logb 2 goldenRatio ≤ logb 2 ((t.size : ℝ) + 2) := by
  have hb : (Nat.fib (t.height + 2) : ℝ) ≤ (t.size : ℝ) + 1 := by
    have := avl_height_bound t hi
    rw [fib_eq_nat_fib] at this
    exact_mod_cast this
  have h1 : goldenRatio ^ t.height ≤ (t.size : ℝ) + 2 := by
    have := goldenRatio_pow_le_fib t.height
    linarith
  have h2 := logb_le_logb_of_le (b := 2) (by norm_num) (pow_pos goldenRatio_pos _) h1
  rwa [logb_pow] at h2

/-- symbolic form: `h ≤ (1 / log2 φ) · log2 (n+2)` -/
theorem avl_height_log_sym (t : AT κ ν) (hi : t.Inv) :
    (t.height : ℝ) ≤ (1 / logb 2 goldenRatio) * logb 2 ((t.size : ℝ) + 2) := by
  rw [one_div, inv_mul_eq_div, le_div_iff₀ logb_two_goldenRatio_pos]
  exact avl_height_mul_log t hi

/-- numeric form: `h ≤ 1.4405 · log2 (n+2)` -/
theorem avl_height_log (t : AT κ ν) (hi : t.Inv) :
    (t.height : ℝ) ≤ 1.4405 * logb 2 ((t.size : ℝ) + 2) := by
  have hn : (0 : ℝ) ≤ logb 2 ((t.size : ℝ) + 2) :=
    logb_nonneg (by norm_num) (by have : (0 : ℝ) ≤ t.size := Nat.cast_nonneg _; linarith)
  exact (avl_height_log_sym t hi).trans (mul_le_mul_of_nonneg_right avl_const_lt.le hn)

/-- textbook form: `h < log_φ (√5 · (n+2)) − 2` -/
theorem avl_height_log_phi (t : AT κ ν) (hi : t.Inv) :
    (t.height : ℝ) < logb goldenRatio (√5 * ((t.size : ℝ) + 2)) - 2 := by
  have hb : (Nat.fib (t.height + 2) : ℝ) ≤ (t.size : ℝ) + 1 := by
    have := avl_height_bound t hi
    rw [fib_eq_nat_fib] at this
    exact_mod_cast this
  have h5 : (1 : ℝ) < √5 := by rw [lt_sqrt (by norm_num)]; norm_num
  have h5' : (0 : ℝ) < √5 := by positivity
  have hpsi : goldenConj ^ (t.height + 2) < 1 := by
    have habs : |goldenConj| < 1 := by
      rw [abs_lt]; exact ⟨neg_one_lt_goldenConj, by linarith [goldenConj_neg]⟩
    calc goldenConj ^ (t.height + 2) ≤ |goldenConj ^ (t.height + 2)| := le_abs_self _
      _ = |goldenConj| ^ (t.height + 2) := abs_pow _ _
      _ < 1 := pow_lt_one₀ (abs_nonneg _) habs (by omega)
  have hbinet : goldenRatio ^ (t.height + 2)
      = √5 * (Nat.fib (t.height + 2) : ℝ) + goldenConj ^ (t.height + 2) := by
    rw [coe_fib_eq]; field_simp; ring
  have hn : (0 : ℝ) ≤ t.size := Nat.cast_nonneg _
  have hlt : goldenRatio ^ ((t.height + 2 : ℕ) : ℝ) < √5 * ((t.size : ℝ) + 2) := by
    rw [rpow_natCast, hbinet]
    nlinarith [mul_le_mul_of_nonneg_left hb h5'.le]
  have := (lt_logb_iff_rpow_lt one_lt_goldenRatio (by positivity)).2 hlt
  push_cast at this
  linarith

/-- red-black: `h ≤ 2 · log2 (n+1)` -/
theorem rb_height_log2 (t : RT κ ν) (hi : t.Inv) :
    (t.height : ℝ) ≤ 2 * logb 2 ((t.size : ℝ) + 1) := by
  obtain ⟨h1, h2⟩ := rb_height_bound t hi
  have h1' : (2 : ℝ) ^ t.bh ≤ (t.size : ℝ) + 1 := by exact_mod_cast h1
  have h2' : (t.height : ℝ) ≤ 2 * (t.bh : ℝ) := by exact_mod_cast h2
  have h3 := logb_le_logb_of_le (b := 2) (by norm_num) (by positivity) h1'
  rw [logb_pow, logb_self_eq_one (by norm_num)] at h3
  linarith

/-- comparisons made by a lookup in a balanced AVL tree -/
theorem avl_lookup_cost_log (t : AT κ ν) (hi : t.Inv) (k : κ) :
    ((t.toBT.lookupPath cmp k).length : ℝ) ≤ 1.4405 * logb 2 ((t.size : ℝ) + 2) :=
  le_trans (by exact_mod_cast lookup_cost (cmp := cmp) t.toBT k) (avl_height_log t hi)

theorem avl_lookup_cost_log_sym (t : AT κ ν) (hi : t.Inv) (k : κ) :
    ((t.toBT.lookupPath cmp k).length : ℝ)
      ≤ (1 / logb 2 goldenRatio) * logb 2 ((t.size : ℝ) + 2) :=
  le_trans (by exact_mod_cast lookup_cost (cmp := cmp) t.toBT k) (avl_height_log_sym t hi)

/-- comparisons made by a lookup in a balanced red-black tree -/
theorem rb_lookup_cost_log (t : RT κ ν) (hi : t.Inv) (k : κ) :
    ((t.toBT.lookupPath cmp k).length : ℝ) ≤ 2 * logb 2 ((t.size : ℝ) + 1) :=
  le_trans (by exact_mod_cast lookup_cost (cmp := cmp) t.toBT k) (rb_height_log2 t hi)

/-- reachable versions: any tree produced from the empty one by a sequence of calls -/
theorem avl_reachable_lookup_cost_log [Std.TransCmp cmp] (ops : List (Op κ ν)) (s : AT κ ν × Int)
    (outs : List (Out κ ν)) (h : avlRun cmp (.nil, 0) ops = some (s, outs)) (k : κ) :
    ((s.1.toBT.lookupPath cmp k).length : ℝ) ≤ 1.4405 * logb 2 ((s.1.size : ℝ) + 2) :=
  avl_lookup_cost_log s.1 (avl_reachable_balanced ops s outs h) k

theorem rb_reachable_lookup_cost_log [Std.TransCmp cmp] (ops : List (Op κ ν)) (s : RT κ ν × Int)
    (outs : List (Out κ ν)) (h : rbRun cmp (.nil, 0) ops = some (s, outs)) (k : κ) :
    ((s.1.toBT.lookupPath cmp k).length : ℝ) ≤ 2 * logb 2 ((s.1.size : ℝ) + 1) :=
  rb_lookup_cost_log s.1 (rb_reachable_balanced ops s outs h) k

end PV.Tree

open PV.Tree in
#print axioms fib_eq_nat_fib
#print axioms PV.Tree.avl_const_lt
#print axioms PV.Tree.avl_height_log_sym
#print axioms PV.Tree.avl_height_log
#print axioms PV.Tree.avl_height_log_phi
#print axioms PV.Tree.rb_height_log2
#print axioms PV.Tree.avl_lookup_cost_log
#print axioms PV.Tree.avl_lookup_cost_log_sym
#print axioms PV.Tree.rb_lookup_cost_log
#print axioms PV.Tree.avl_reachable_lookup_cost_log
#print axioms PV.Tree.rb_reachable_lookup_cost_log

import PVMath.C13Log

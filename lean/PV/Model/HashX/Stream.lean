/-!
# The buffered `update` skeleton shared by `pcryptohash-sha3.c` and `pcryptohash-gost3411.c`

Both `p_crypto_hash_sha3_update` and `p_crypto_hash_gost3411_update` have the same three phases
around a fixed-size byte buffer `buf` and a block function `process` that reads the first `B`
bytes of that buffer:

```c
if (left && len >= to_fill) {            /* 1: top the buffered bytes up to one block  */
    memcpy (buf + left, data, to_fill);  process (ctx, buf);
    data += to_fill; len -= to_fill; left = 0;
}
while (len >= B) {                       /* 2: whole blocks (copied through the buffer) */
    memcpy (buf, data, B);               process (ctx, buf);
    data += B; len -= B;
}
if (len > 0) memcpy (buf + left, data, len);   /* 3: stash the tail */
```

`feed` is that code.  How `left` and the phase-1 test are computed (C integer widths) is the
business of the two algorithm models; they pass the results in.
The buffer is a fixed-size byte list: bytes beyond the valid prefix keep their stale content, as in C.
-/
namespace PV.HashX

abbrev Bytes := List UInt8

/-- `memcpy (buf + off, src, src.length)` inside a fixed-size buffer (`off + src.length ≤ buf.length`
    in every use; the models' invariants guarantee it) -/
def memcpyAt (buf : Bytes) (off : Nat) (src : Bytes) : Bytes :=
  buf.take off ++ src ++ buf.drop (off + src.length)

/-- algorithm state `st` plus the byte buffer -/
structure Ctx (σ : Type) where
  st : σ
  buf : Bytes

/-- phase 2: `while (len >= B) { memcpy (buf, data, B); process (buf); data += B; len -= B; }`.
    `len` is the C variable (`= data.length`, kept separately so the test is O(1)). -/
def blockLoop {σ : Type} (B : Nat) (process : σ → Bytes → σ) (c : Ctx σ) (data : Bytes) (len : Nat) :
    Ctx σ × Bytes × Nat :=
  if _h : 0 < B ∧ B ≤ len then
    let buf := memcpyAt c.buf 0 (data.take B)
    blockLoop B process ⟨process c.st (buf.take B), buf⟩ (data.drop B) (len - B)
  else (c, data, len)
termination_by len
decreasing_by omega

/-- phase 3 on the outcome `(ctx, data, len)` of phase 2: `if (len > 0) memcpy (buf + left, data, len);` -/
def stash {σ : Type} (r : Ctx σ × Bytes × Nat) (left : Nat) : Ctx σ :=
  if 0 < r.2.2 then { r.1 with buf := memcpyAt r.1.buf left r.2.1 } else r.1

/-- the three phases.  `left` = number of buffered bytes, `topup` = outcome of the phase-1 test. -/
def feed {σ : Type} (B : Nat) (process : σ → Bytes → σ) (left : Nat) (topup : Bool) (c : Ctx σ)
    (data : Bytes) : Ctx σ :=
  let toFill := B - left
  if topup then
    let buf := memcpyAt c.buf left (data.take toFill)
    let data := data.drop toFill
    stash (blockLoop B process ⟨process c.st (buf.take B), buf⟩ data data.length) 0
  else
    stash (blockLoop B process c data data.length) left

/-! ### the same code for a chunk of `len` zero bytes that is never materialised
(`updz N` of the driver; `Lemmas/HashX/Stream.lean` proves `feedZ … n = feed … (replicate n 0)`) -/

def blockLoopZ {σ : Type} (B : Nat) (process : σ → Bytes → σ) (c : Ctx σ) (len : Nat) : Ctx σ × Nat :=
  if _h : 0 < B ∧ B ≤ len then
    let buf := memcpyAt c.buf 0 (List.replicate B 0)
    blockLoopZ B process ⟨process c.st (buf.take B), buf⟩ (len - B)
  else (c, len)
termination_by len
decreasing_by omega

def stashZ {σ : Type} (r : Ctx σ × Nat) (left : Nat) : Ctx σ :=
  if 0 < r.2 then { r.1 with buf := memcpyAt r.1.buf left (List.replicate r.2 0) } else r.1

def feedZ {σ : Type} (B : Nat) (process : σ → Bytes → σ) (left : Nat) (topup : Bool) (c : Ctx σ)
    (len : Nat) : Ctx σ :=
  let toFill := B - left
  if topup then
    let buf := memcpyAt c.buf left (List.replicate (min toFill len) 0)
    stashZ (blockLoopZ B process ⟨process c.st (buf.take B), buf⟩ (len - toFill)) 0
  else
    stashZ (blockLoopZ B process c len) left

end PV.HashX

import PV.Model.HashX.Stream
import PV.Generated.HashX
/-!
# `pcryptohash-gost3411.c`: GOST R 34.11-94 (CryptoPro S-box) streaming context

```c
struct PHashGOST3411_ { puint32 buf[8]; puint32 hash[8]; puint32 len[8]; puint32 sum[8]; };
```
`len` (bit count) and `sum` (checksum) are 256-bit numbers kept as 8 little-endian 32-bit words and
added with the ripple-carry loop `pp_crypto_hash_gost3411_sum_256`.  `buf` is handled as 32 bytes
(`swap_bytes` is the identity on this little-endian platform, so `buf[i]` is the little-endian word
of bytes `4 i … 4 i + 3`).  The step function is the C code line by line (same temporaries, same
unrolled XOR formulas); the S-box and the `C3` constants come from `PV.Generated.HashX`.
-/
namespace PV.HashX.Gost
open PV.HashX PV.Generated.HashX

/-- `puint32 x[8]` -/
structure W8 where
  w0 : UInt32
  w1 : UInt32
  w2 : UInt32
  w3 : UInt32
  w4 : UInt32
  w5 : UInt32
  w6 : UInt32
  w7 : UInt32
deriving DecidableEq, Inhabited, Repr

def W8.zero : W8 := ⟨0, 0, 0, 0, 0, 0, 0, 0⟩
def W8.ofList (l : List UInt32) : W8 :=
  ⟨l.getD 0 0, l.getD 1 0, l.getD 2 0, l.getD 3 0, l.getD 4 0, l.getD 5 0, l.getD 6 0, l.getD 7 0⟩
def W8.toList (a : W8) : List UInt32 := [a.w0, a.w1, a.w2, a.w3, a.w4, a.w5, a.w6, a.w7]
/-- the 256-bit number held in the eight words (word 0 least significant) -/
def W8.toNat (a : W8) : Nat :=
  a.w0.toNat + 2 ^ 32 * (a.w1.toNat + 2 ^ 32 * (a.w2.toNat + 2 ^ 32 * (a.w3.toNat + 2 ^ 32 * (a.w4.toNat
    + 2 ^ 32 * (a.w5.toNat + 2 ^ 32 * (a.w6.toNat + 2 ^ 32 * a.w7.toNat))))))

/-! ## S-box (`pp_crypto_hash_gost3411_K_block[8][16]`) -/
def kBlock : Array UInt32 := (gostKBlock.flatten.map UInt32.ofNat).toArray
/-- `(puint32) K_block[i][x & 0xF]` (callers pass `x` already shifted) -/
@[inline] def sb (i : Nat) (x : UInt32) : UInt32 := kBlock[16 * i + (x &&& (0xF : UInt32)).toNat]!

/-- `P_GOST_28147_ROUND (N, key)`: returns the new `(N[0], N[1])` -/
@[inline] def round (n0 n1 key : UInt32) : UInt32 × UInt32 :=
  let cm1 := n0 + key
  let cm1 := sb 0 cm1 ||| (sb 1 (cm1 >>> 4) <<< 4) ||| (sb 2 (cm1 >>> 8) <<< 8) ||| (sb 3 (cm1 >>> 12) <<< 12)
    ||| (sb 4 (cm1 >>> 16) <<< 16) ||| (sb 5 (cm1 >>> 20) <<< 20) ||| (sb 6 (cm1 >>> 24) <<< 24) ||| (sb 7 (cm1 >>> 28) <<< 28)
  let cm1 := ((cm1 <<< 11) ||| (cm1 >>> 21)) ^^^ n1
  (cm1, n0)

/-- `P_GOST_28147_E (data, key, out)`: 32 rounds, keys 0..7 three times then 7..0; `out = (N[1], N[0])` -/
def encrypt (d0 d1 : UInt32) (k : W8) : UInt32 × UInt32 :=
  let n0 := d0
  let n1 := d1
  let (n0, n1) := round n0 n1 k.w0
  let (n0, n1) := round n0 n1 k.w1
  let (n0, n1) := round n0 n1 k.w2
  let (n0, n1) := round n0 n1 k.w3
  let (n0, n1) := round n0 n1 k.w4
  let (n0, n1) := round n0 n1 k.w5
  let (n0, n1) := round n0 n1 k.w6
  let (n0, n1) := round n0 n1 k.w7
  let (n0, n1) := round n0 n1 k.w0
  let (n0, n1) := round n0 n1 k.w1
  let (n0, n1) := round n0 n1 k.w2
  let (n0, n1) := round n0 n1 k.w3
  let (n0, n1) := round n0 n1 k.w4
  let (n0, n1) := round n0 n1 k.w5
  let (n0, n1) := round n0 n1 k.w6
  let (n0, n1) := round n0 n1 k.w7
  let (n0, n1) := round n0 n1 k.w0
  let (n0, n1) := round n0 n1 k.w1
  let (n0, n1) := round n0 n1 k.w2
  let (n0, n1) := round n0 n1 k.w3
  let (n0, n1) := round n0 n1 k.w4
  let (n0, n1) := round n0 n1 k.w5
  let (n0, n1) := round n0 n1 k.w6
  let (n0, n1) := round n0 n1 k.w7
  let (n0, n1) := round n0 n1 k.w7
  let (n0, n1) := round n0 n1 k.w6
  let (n0, n1) := round n0 n1 k.w5
  let (n0, n1) := round n0 n1 k.w4
  let (n0, n1) := round n0 n1 k.w3
  let (n0, n1) := round n0 n1 k.w2
  let (n0, n1) := round n0 n1 k.w1
  let (n0, n1) := round n0 n1 k.w0
  (n1, n0)

/-- `P_GOST_3411_P (data, out)` -/
def transP (d : W8) : W8 :=
  { 
    w0 := (d.w0 &&& (0x000000FF : UInt32)) ||| ((d.w2 <<< 8) &&& (0x0000FF00 : UInt32)) ||| ((d.w4 <<< 16) &&& (0x00FF0000 : UInt32)) ||| ((d.w6 <<< 24) &&& (0xFF000000 : UInt32)),
    w1 := ((d.w0 >>> 8) &&& (0x000000FF : UInt32)) ||| (d.w2 &&& (0x0000FF00 : UInt32)) ||| ((d.w4 <<< 8) &&& (0x00FF0000 : UInt32)) ||| ((d.w6 <<< 16) &&& (0xFF000000 : UInt32)),
    w2 := ((d.w0 >>> 16) &&& (0x000000FF : UInt32)) ||| ((d.w2 >>> 8) &&& (0x0000FF00 : UInt32)) ||| (d.w4 &&& (0x00FF0000 : UInt32)) ||| ((d.w6 <<< 8) &&& (0xFF000000 : UInt32)),
    w3 := ((d.w0 >>> 24) &&& (0x000000FF : UInt32)) ||| ((d.w2 >>> 16) &&& (0x0000FF00 : UInt32)) ||| ((d.w4 >>> 8) &&& (0x00FF0000 : UInt32)) ||| (d.w6 &&& (0xFF000000 : UInt32)),
    w4 := (d.w1 &&& (0x000000FF : UInt32)) ||| ((d.w3 <<< 8) &&& (0x0000FF00 : UInt32)) ||| ((d.w5 <<< 16) &&& (0x00FF0000 : UInt32)) ||| ((d.w7 <<< 24) &&& (0xFF000000 : UInt32)),
    w5 := ((d.w1 >>> 8) &&& (0x000000FF : UInt32)) ||| (d.w3 &&& (0x0000FF00 : UInt32)) ||| ((d.w5 <<< 8) &&& (0x00FF0000 : UInt32)) ||| ((d.w7 <<< 16) &&& (0xFF000000 : UInt32)),
    w6 := ((d.w1 >>> 16) &&& (0x000000FF : UInt32)) ||| ((d.w3 >>> 8) &&& (0x0000FF00 : UInt32)) ||| (d.w5 &&& (0x00FF0000 : UInt32)) ||| ((d.w7 <<< 8) &&& (0xFF000000 : UInt32)),
    w7 := ((d.w1 >>> 24) &&& (0x000000FF : UInt32)) ||| ((d.w3 >>> 16) &&& (0x0000FF00 : UInt32)) ||| ((d.w5 >>> 8) &&& (0x00FF0000 : UInt32)) ||| (d.w7 &&& (0xFF000000 : UInt32))
  }

def c3 (i : Nat) : UInt32 := gostC3.toArray[i]!

/-- `pp_crypto_hash_gost3411_process (ctx, data)`: the new `ctx->hash` -/
def step (hash data : W8) : W8 :=
  let H0 := hash.w0; let H1 := hash.w1; let H2 := hash.w2; let H3 := hash.w3
  let H4 := hash.w4; let H5 := hash.w5; let H6 := hash.w6; let H7 := hash.w7
  let M0 := data.w0; let M1 := data.w1; let M2 := data.w2; let M3 := data.w3
  let M4 := data.w4; let M5 := data.w5; let M6 := data.w6; let M7 := data.w7
  -- memcpy (U, ctx->hash, 32); memcpy (V, data, 32);
  let U0 := H0; let U1 := H1; let U2 := H2; let U3 := H3; let U4 := H4; let U5 := H5; let U6 := H6; let U7 := H7
  let V0 := M0; let V1 := M1; let V2 := M2; let V3 := M3; let V4 := M4; let V5 := M5; let V6 := M6; let V7 := M7
  -- first key: P (U xor V)
  let K0 := transP ⟨U0 ^^^ V0, U1 ^^^ V1, U2 ^^^ V2, U3 ^^^ V3, U4 ^^^ V4, U5 ^^^ V5, U6 ^^^ V6, U7 ^^^ V7⟩
  -- second key: P (A (U) xor A^2 (V))
  let W0 := U2 ^^^ V4
  let W1 := U3 ^^^ V5
  let W2 := U4 ^^^ V6
  let W3 := U5 ^^^ V7
  let V0 := V0 ^^^ V2; let W4 := U6 ^^^ V0
  let V1 := V1 ^^^ V3; let W5 := U7 ^^^ V1
  let U0 := U0 ^^^ U2; let V2 := V2 ^^^ V4; let W6 := U0 ^^^ V2
  let U1 := U1 ^^^ U3; let V3 := V3 ^^^ V5; let W7 := U1 ^^^ V3
  let K1 := transP ⟨W0, W1, W2, W3, W4, W5, W6, W7⟩
  -- third key: P ((A^2 (U) + C3) xor A^4 (V))
  let U2 := U2 ^^^ (U4 ^^^ c3 0)
  let U3 := U3 ^^^ (U5 ^^^ c3 1)
  let U4 := U4 ^^^ c3 2
  let U5 := U5 ^^^ c3 3
  let U6 := U6 ^^^ c3 4
  let U7 := U7 ^^^ c3 5
  let U0 := U0 ^^^ c3 6
  let U1 := U1 ^^^ c3 7
  let W0 := U4 ^^^ V0
  let W2 := U6 ^^^ V2
  let V4 := V4 ^^^ V6; let W4 := U0 ^^^ V4
  let V6 := V6 ^^^ V0; let W6 := U2 ^^^ V6
  let W1 := U5 ^^^ V1
  let W3 := U7 ^^^ V3
  let V5 := V5 ^^^ V7; let W5 := U1 ^^^ V5
  let V7 := V7 ^^^ V1; let W7 := U3 ^^^ V7
  let K2 := transP ⟨W0, W1, W2, W3, W4, W5, W6, W7⟩
  -- fourth key: P (A (A^2 (U) xor C3) xor A^6 (V))
  let W0 := U6 ^^^ V4
  let W1 := U7 ^^^ V5
  let W2 := U0 ^^^ V6
  let W3 := U1 ^^^ V7
  let V0 := V0 ^^^ V2; let W4 := U2 ^^^ V0
  let V1 := V1 ^^^ V3; let W5 := U3 ^^^ V1
  let U4 := U4 ^^^ U6; let V2 := V2 ^^^ V4; let W6 := U4 ^^^ V2
  let U5 := U5 ^^^ U7; let V3 := V3 ^^^ V5; let W7 := U5 ^^^ V3
  let K3 := transP ⟨W0, W1, W2, W3, W4, W5, W6, W7⟩
  -- GOST 28147-89 encryption of the four 64-bit parts of ctx->hash
  let (S0, S1) := encrypt H0 H1 K0
  let (S2, S3) := encrypt H2 H3 K1
  let (S4, S5) := encrypt H4 H5 K2
  let (S6, S7) := encrypt H6 H7 K3
  -- (12 rounds of LFSR) xor M;  (1 round of LFSR) xor Hprev;  final 61 rounds of LFSR
  let U0 : UInt32 := M0 ^^^ S6
  let U1 : UInt32 := M1 ^^^ S7
  let U2 : UInt32 := M2 ^^^ (S0 &&& (0x0000FFFF : UInt32)) ^^^ (S0 >>> 16) ^^^ (S0 <<< 16) ^^^ (S1 &&& (0x0000FFFF : UInt32)) ^^^ (S1 >>> 16) ^^^ (S2 <<< 16) ^^^ (S7 &&& (0xFFFF0000 : UInt32)) ^^^ (S6 <<< 16) ^^^ (S7 >>> 16) ^^^ S6
  let U3 : UInt32 := M3 ^^^ (S0 &&& (0x0000FFFF : UInt32)) ^^^ (S0 <<< 16) ^^^ (S2 <<< 16) ^^^ (S1 &&& (0x0000FFFF : UInt32)) ^^^ (S1 <<< 16) ^^^ (S1 >>> 16) ^^^ (S7 &&& (0x0000FFFF : UInt32)) ^^^ (S2 >>> 16) ^^^ (S3 <<< 16) ^^^ (S6 <<< 16) ^^^ (S6 >>> 16) ^^^ (S7 <<< 16) ^^^ (S7 >>> 16) ^^^ S6
  let U4 : UInt32 := M4 ^^^ (S0 &&& (0xFFFF0000 : UInt32)) ^^^ (S0 <<< 16) ^^^ (S0 >>> 16) ^^^ (S1 &&& (0xFFFF0000 : UInt32)) ^^^ (S1 >>> 16) ^^^ (S2 <<< 16) ^^^ (S7 &&& (0x0000FFFF : UInt32)) ^^^ (S3 <<< 16) ^^^ (S3 >>> 16) ^^^ (S4 <<< 16) ^^^ (S6 <<< 16) ^^^ (S6 >>> 16) ^^^ (S2 >>> 16) ^^^ (S7 <<< 16) ^^^ (S7 >>> 16)
  let U5 : UInt32 := M5 ^^^ (S0 &&& (0xFFFF0000 : UInt32)) ^^^ (S0 >>> 16) ^^^ (S0 <<< 16) ^^^ (S1 &&& (0x0000FFFF : UInt32)) ^^^ (S7 >>> 16) ^^^ (S2 >>> 16) ^^^ (S7 &&& (0xFFFF0000 : UInt32)) ^^^ (S3 >>> 16) ^^^ (S4 <<< 16) ^^^ (S4 >>> 16) ^^^ (S5 <<< 16) ^^^ (S6 <<< 16) ^^^ (S6 >>> 16) ^^^ (S3 <<< 16) ^^^ (S7 <<< 16) ^^^ S2
  let U6 : UInt32 := M6 ^^^ (S4 >>> 16) ^^^ (S1 >>> 16) ^^^ (S2 <<< 16) ^^^ (S7 <<< 16) ^^^ (S3 >>> 16) ^^^ (S4 <<< 16) ^^^ (S5 <<< 16) ^^^ (S5 >>> 16) ^^^ (S6 <<< 16) ^^^ (S6 >>> 16) ^^^ S6 ^^^ S0 ^^^ S3
  let U7 : UInt32 := M7 ^^^ (S0 &&& (0xFFFF0000 : UInt32)) ^^^ (S0 <<< 16) ^^^ (S1 <<< 16) ^^^ (S1 &&& (0x0000FFFF : UInt32)) ^^^ (S2 >>> 16) ^^^ (S3 <<< 16) ^^^ (S7 &&& (0x0000FFFF : UInt32)) ^^^ (S4 >>> 16) ^^^ (S5 <<< 16) ^^^ (S5 >>> 16) ^^^ (S6 >>> 16) ^^^ (S7 <<< 16) ^^^ (S7 >>> 16) ^^^ S4
  let V0 : UInt32 := H0 ^^^ (U1 <<< 16) ^^^ (U0 >>> 16)
  let V1 : UInt32 := H1 ^^^ (U2 <<< 16) ^^^ (U1 >>> 16)
  let V2 : UInt32 := H2 ^^^ (U3 <<< 16) ^^^ (U2 >>> 16)
  let V3 : UInt32 := H3 ^^^ (U4 <<< 16) ^^^ (U3 >>> 16)
  let V4 : UInt32 := H4 ^^^ (U5 <<< 16) ^^^ (U4 >>> 16)
  let V5 : UInt32 := H5 ^^^ (U6 <<< 16) ^^^ (U5 >>> 16)
  let V6 : UInt32 := H6 ^^^ (U7 <<< 16) ^^^ (U6 >>> 16)
  let V7 : UInt32 := H7 ^^^ (U7 >>> 16) ^^^ (U0 <<< 16) ^^^ (U1 &&& (0xFFFF0000 : UInt32)) ^^^ (U1 <<< 16) ^^^ (U7 &&& (0xFFFF0000 : UInt32)) ^^^ (U6 <<< 16) ^^^ (U0 &&& (0xFFFF0000 : UInt32))
  let R0 : UInt32 := (V0 &&& (0xFFFF0000 : UInt32)) ^^^ (V0 <<< 16) ^^^ (V0 >>> 16) ^^^ (V1 &&& (0xFFFF0000 : UInt32)) ^^^ (V1 >>> 16) ^^^ (V2 <<< 16) ^^^ (V7 &&& (0x0000FFFF : UInt32)) ^^^ (V3 >>> 16) ^^^ (V4 <<< 16) ^^^ (V5 >>> 16) ^^^ (V6 >>> 16) ^^^ (V7 <<< 16) ^^^ (V7 >>> 16) ^^^ V5
  let R1 : UInt32 := (V0 &&& (0xFFFF0000 : UInt32)) ^^^ (V0 <<< 16) ^^^ (V0 >>> 16) ^^^ (V1 &&& (0x0000FFFF : UInt32)) ^^^ (V2 >>> 16) ^^^ (V3 <<< 16) ^^^ (V7 &&& (0xFFFF0000 : UInt32)) ^^^ (V4 >>> 16) ^^^ (V5 <<< 16) ^^^ (V6 <<< 16) ^^^ (V7 >>> 16) ^^^ V6 ^^^ V2
  let R2 : UInt32 := (V0 &&& (0x0000FFFF : UInt32)) ^^^ (V0 <<< 16) ^^^ (V1 <<< 16) ^^^ (V7 &&& (0x0000FFFF : UInt32)) ^^^ (V1 >>> 16) ^^^ (V2 <<< 16) ^^^ (V1 &&& (0xFFFF0000 : UInt32)) ^^^ (V3 >>> 16) ^^^ (V4 <<< 16) ^^^ (V5 >>> 16) ^^^ (V6 >>> 16) ^^^ (V7 <<< 16) ^^^ (V7 >>> 16) ^^^ V3 ^^^ V6
  let R3 : UInt32 := (V0 &&& (0xFFFF0000 : UInt32)) ^^^ (V0 <<< 16) ^^^ (V0 >>> 16) ^^^ (V1 &&& (0xFFFF0000 : UInt32)) ^^^ (V1 >>> 16) ^^^ (V2 <<< 16) ^^^ (V7 &&& (0x0000FFFF : UInt32)) ^^^ (V2 >>> 16) ^^^ (V3 <<< 16) ^^^ (V4 >>> 16) ^^^ (V5 <<< 16) ^^^ (V6 <<< 16) ^^^ (V7 >>> 16) ^^^ V2 ^^^ V4
  let R4 : UInt32 := (V0 >>> 16) ^^^ (V1 <<< 16) ^^^ (V2 >>> 16) ^^^ (V3 <<< 16) ^^^ (V3 >>> 16) ^^^ (V4 <<< 16) ^^^ (V5 >>> 16) ^^^ (V6 <<< 16) ^^^ (V6 >>> 16) ^^^ (V7 <<< 16) ^^^ V1 ^^^ V2 ^^^ V3 ^^^ V5
  let R5 : UInt32 := (V0 &&& (0xFFFF0000 : UInt32)) ^^^ (V0 <<< 16) ^^^ (V1 <<< 16) ^^^ (V1 &&& (0xFFFF0000 : UInt32)) ^^^ (V1 >>> 16) ^^^ (V2 <<< 16) ^^^ (V7 &&& (0xFFFF0000 : UInt32)) ^^^ (V3 >>> 16) ^^^ (V4 <<< 16) ^^^ (V4 >>> 16) ^^^ (V5 <<< 16) ^^^ (V6 <<< 16) ^^^ (V6 >>> 16) ^^^ (V7 <<< 16) ^^^ (V7 >>> 16) ^^^ V2 ^^^ V3 ^^^ V4 ^^^ V6
  let R6 : UInt32 := (V2 >>> 16) ^^^ (V3 <<< 16) ^^^ (V4 >>> 16) ^^^ (V5 <<< 16) ^^^ (V5 >>> 16) ^^^ (V6 <<< 16) ^^^ (V6 >>> 16) ^^^ (V7 <<< 16) ^^^ V7 ^^^ V0 ^^^ V2 ^^^ V3 ^^^ V4 ^^^ V5 ^^^ V6
  let R7 : UInt32 := (V0 >>> 16) ^^^ (V1 <<< 16) ^^^ (V1 >>> 16) ^^^ (V2 <<< 16) ^^^ (V3 >>> 16) ^^^ (V4 <<< 16) ^^^ (V5 >>> 16) ^^^ (V6 <<< 16) ^^^ (V6 >>> 16) ^^^ (V7 <<< 16) ^^^ V7 ^^^ V0 ^^^ V3 ^^^ V4 ^^^ V5
  ⟨R0, R1, R2, R3, R4, R5, R6, R7⟩

/-! ## 256-bit addition -/

/-- one iteration of `pp_crypto_hash_gost3411_sum_256`:
    `old = a[i]; a[i] = a[i] + b[i] + (carry ? 1 : 0); carry = (a[i] < old || (carry && a[i] == old));` -/
@[inline] def addc (a b : UInt32) (carry : Bool) : UInt32 × Bool :=
  let r := a + b + (if carry then 1 else 0)
  (r, r < a || (carry && r == a))

/-- `pp_crypto_hash_gost3411_sum_256 (a, b)`: the new `a` -/
def sum256 (a b : W8) : W8 :=
  let s0 := addc a.w0 b.w0 false
  let s1 := addc a.w1 b.w1 s0.2
  let s2 := addc a.w2 b.w2 s1.2
  let s3 := addc a.w3 b.w3 s2.2
  let s4 := addc a.w4 b.w4 s3.2
  let s5 := addc a.w5 b.w5 s4.2
  let s6 := addc a.w6 b.w6 s5.2
  let s7 := addc a.w7 b.w7 s6.2
  ⟨s0.1, s1.1, s2.1, s3.1, s4.1, s5.1, s6.1, s7.1⟩

/-! ## bytes ↔ words (little-endian) -/

@[inline] def le32 (a : Array UInt8) (i : Nat) : UInt32 :=
  let b (k : Nat) : UInt32 := (a[4 * i + k]?.getD 0).toUInt32
  b 0 ||| (b 1 <<< 8) ||| (b 2 <<< 16) ||| (b 3 <<< 24)

/-- the `puint32 [8]` view of 32 bytes -/
def w8OfBytes (b : Bytes) : W8 :=
  let a := b.toArray
  ⟨le32 a 0, le32 a 1, le32 a 2, le32 a 3, le32 a 4, le32 a 5, le32 a 6, le32 a 7⟩

def bytesOfWord (w : UInt32) : Bytes := [w.toUInt8, (w >>> 8).toUInt8, (w >>> 16).toUInt8, (w >>> 24).toUInt8]
/-- the `puchar [32]` view of eight words -/
def bytesOfW8 (a : W8) : Bytes := a.toList.flatMap bytesOfWord

/-! ## the context -/

structure Ctx where
  buf : Bytes     -- 32 bytes
  hash : W8
  len : W8
  sum : W8
deriving Inhabited

/-- `p_crypto_hash_gost3411_new` / `_reset`: everything zero (the standard's all-zero start vector) -/
def init : Ctx := { buf := List.replicate gostBlock 0, hash := W8.ofList gostIV, len := W8.zero, sum := W8.zero }
def reset (_ : Ctx) : Ctx := init

/-- what one block does to `(hash, sum)`: `process (ctx, buf); sum_256 (ctx->sum, buf);` -/
def processBlock (st : W8 × W8) (data : Bytes) : W8 × W8 :=
  let m := w8OfBytes data
  (step st.1 m, sum256 st.2 m)

/-- C-width bookkeeping of `p_crypto_hash_gost3411_update` for a chunk of `n` bytes:
    `(left, topup, new ctx->len)` -/
@[inline] def updateHead (ctx : Ctx) (n : Nat) : Nat × Bool × W8 :=
  let len : UInt64 := n.toUInt64                              -- psize len
  let left : UInt32 := (ctx.len.w0 &&& (0xFF : UInt32)) >>> (3 : UInt32)
  let toFill : UInt32 := (32 : UInt32) - left
  -- len256[0] = (puint32) (len << 3); len256[1] = (puint32) (len >> 29);
  let len256 : W8 := ⟨(len <<< 3).toUInt32, (len >>> 29).toUInt32, 0, 0, 0, 0, 0, 0⟩
  -- if (left && (puint64) len >= to_fill)
  (left.toNat, left != 0 && len >= toFill.toUInt64, sum256 ctx.len len256)

/-- `p_crypto_hash_gost3411_update (ctx, data, len)` -/
def update (ctx : Ctx) (data : Bytes) : Ctx :=
  let (left, topup, newLen) := updateHead ctx data.length
  let c := feed gostBlock processBlock left topup ⟨(ctx.hash, ctx.sum), ctx.buf⟩ data
  { buf := c.buf, hash := c.st.1, len := newLen, sum := c.st.2 }

/-- the same for a chunk of `n` zero bytes (not materialised) -/
def updateZeros (ctx : Ctx) (n : Nat) : Ctx :=
  let (left, topup, newLen) := updateHead ctx n
  let c := feedZ gostBlock processBlock left topup ⟨(ctx.hash, ctx.sum), ctx.buf⟩ n
  { buf := c.buf, hash := c.st.1, len := newLen, sum := c.st.2 }

/-- `p_crypto_hash_gost3411_finish`:
```c
left = ctx->len[0] & 0xFF;  last = 32 - (left >> 3);
if (last % 32 != 0) { memset (buf + (left >> 3), 0, last); process (ctx, buf); sum_256 (ctx->sum, buf); }
process (ctx, ctx->len);  process (ctx, ctx->sum);
``` -/
def finish (ctx : Ctx) : Ctx :=
  let left : UInt32 := ctx.len.w0 &&& (0xFF : UInt32)
  let last : UInt32 := (32 : UInt32) - (left >>> (3 : UInt32))
  let ctx :=
    if last % (32 : UInt32) != 0 then
      let buf := memcpyAt ctx.buf (left >>> (3 : UInt32)).toNat (List.replicate last.toNat 0)
      let st := processBlock (ctx.hash, ctx.sum) (buf.take gostBlock)
      { ctx with buf := buf, hash := st.1, sum := st.2 }
    else ctx
  let h := step ctx.hash ctx.len
  let h := step h ctx.sum
  { ctx with hash := h }

/-- `p_crypto_hash_gost3411_digest`: `(const puchar *) ctx->hash` -/
def digest (ctx : Ctx) : Bytes := bytesOfW8 ctx.hash

end PV.HashX.Gost

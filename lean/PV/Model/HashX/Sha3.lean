import PV.Model.HashX.Stream
import PV.Model.HashX.Keccak
/-!
# `pcryptohash-sha3.c`: streaming SHA-3 context

```c
struct PHashSHA3_ { union { puchar buf[200]; puint64 buf_w[25]; } buf; puint64 hash[25];
                    puint32 len; puint32 block_size; };
```
`len` is the number of buffered bytes (`< block_size`), a 32-bit word; the chunk length `len` of
`update` is a 64-bit `psize`.  `swap_bytes` is the identity (little-endian platform, checked by the
translator), so `buf_w` is the little-endian lane view of `buf`.
-/
namespace PV.HashX.Sha3
open PV.HashX PV.HashX.Keccak PV.Generated.HashX

structure Ctx where
  buf : Bytes          -- 200 bytes
  hash : Lanes         -- 25 lanes
  len : UInt32
  blockSize : UInt32
deriving Inhabited

/-- `pp_crypto_hash_sha3_process (ctx, ctx->buf.buf_w)`:
    `for (i = 0; i < block_size / 8; ++i) hash[i] ^= data[i];` then the permutation.
    `data` is the buffer (only its first `block_size` bytes are read). -/
def process (blockSize : UInt32) (hash : Lanes) (data : Bytes) : Lanes :=
  let qwords := (blockSize / 8).toNat
  let w := data.toArray
  keccakF ((List.range qwords).foldl (fun h i => h.set! i (h[i]! ^^^ lane w i)) hash)

/-- `pp_crypto_hash_sha3_new_internal (bits)`: zeroed context, `block_size = (1600 - bits * 2) / 8`
    (the translator checks that formula and emits the four rates) -/
def new (rate : Nat) : Ctx :=
  { buf := List.replicate sha3BufSize 0, hash := zeroState, len := 0, blockSize := rate.toUInt32 }

/-- `p_crypto_hash_sha3_reset` -/
def reset (ctx : Ctx) : Ctx :=
  { ctx with buf := List.replicate sha3BufSize 0, hash := zeroState, len := 0 }

/-- the C-width bookkeeping of `p_crypto_hash_sha3_update` for a chunk of `n` bytes:
    `(left, topup, new ctx->len)` -/
@[inline] def updateHead (ctx : Ctx) (n : Nat) : Nat × Bool × UInt32 :=
  let len : UInt64 := n.toUInt64                                   -- psize len
  let left : UInt32 := ctx.len
  let toFill : UInt32 := ctx.blockSize - left
  -- ctx->len = (puint32) (((psize) ctx->len + len) % (psize) ctx->block_size);
  let newLen : UInt32 := ((ctx.len.toUInt64 + len) % ctx.blockSize.toUInt64).toUInt32
  -- if (left && (puint64) len >= to_fill)
  (left.toNat, left != 0 && len >= toFill.toUInt64, newLen)

/-- `p_crypto_hash_sha3_update (ctx, data, len)` -/
def update (ctx : Ctx) (data : Bytes) : Ctx :=
  let (left, topup, newLen) := updateHead ctx data.length
  let c := feed ctx.blockSize.toNat (process ctx.blockSize) left topup ⟨ctx.hash, ctx.buf⟩ data
  { ctx with buf := c.buf, hash := c.st, len := newLen }

/-- the same for a chunk of `n` zero bytes (not materialised) -/
def updateZeros (ctx : Ctx) (n : Nat) : Ctx :=
  let (left, topup, newLen) := updateHead ctx n
  let c := feedZ ctx.blockSize.toNat (process ctx.blockSize) left topup ⟨ctx.hash, ctx.buf⟩ n
  { ctx with buf := c.buf, hash := c.st, len := newLen }

/-- `buf[i] |= v` -/
def orAt : Bytes → Nat → UInt8 → Bytes
  | [], _, _ => []
  | x :: r, 0, v => (x ||| v) :: r
  | x :: r, i + 1, v => x :: orAt r i v

/-- `p_crypto_hash_sha3_finish`:
```c
memset (buf + len, 0, block_size - len);  buf[len] |= 0x06;  buf[block_size - 1] |= 0x80;
process (ctx, buf_w);
``` -/
def finish (ctx : Ctx) : Ctx :=
  let len := ctx.len.toNat
  let bs := ctx.blockSize.toNat
  let buf := memcpyAt ctx.buf len (List.replicate (bs - len) 0)
  let buf := orAt buf len sha3PadFirst
  let buf := orAt buf (bs - 1) sha3PadLast
  { ctx with buf := buf, hash := process ctx.blockSize ctx.hash (buf.take bs) }

/-- `p_crypto_hash_sha3_digest`: `(const puchar *) ctx->hash`; the dispatcher reads `hash_len` bytes of it -/
def digest (ctx : Ctx) (n : Nat) : Bytes := stateBytes ctx.hash n

end PV.HashX.Sha3

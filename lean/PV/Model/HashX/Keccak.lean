import PV.Generated.HashX
/-!
# Keccak-f[1600] as in `pcryptohash-sha3.c`

`ctx->hash[25]` is an `Array UInt64`; every step is the C function of the same name, statement by
statement, with the tables taken from `PV.Generated.HashX` (extracted from the current source):
the round constants, the `D[]` formulas of theta, the unrolled rho/pi assignment chain.
Out-of-range indices cannot occur (all are literals < 25); `set!`/`[i]!` are used so that no size
invariant has to be threaded through.
-/
namespace PV.HashX.Keccak
open PV.Generated.HashX

abbrev Lanes := Array UInt64

/-- `P_SHA3_ROTL (val, shift)` = `(val << shift) | (val >> (64 - shift))`, used with `0 < shift < 64` -/
@[inline] def rotl (v : UInt64) (s : Nat) : UInt64 :=
  (v <<< s.toUInt64) ||| (v >>> (64 - s).toUInt64)

/-- `pp_crypto_hash_sha3_keccak_theta` -/
def theta (h : Lanes) : Lanes :=
  let C : Array UInt64 := (Array.range 5).map fun i =>
    h[i]! ^^^ h[i + 5]! ^^^ h[i + 10]! ^^^ h[i + 15]! ^^^ h[i + 20]!
  let D : Array UInt64 := (keccakThetaD.map fun (a, b) => rotl C[a]! 1 ^^^ C[b]!).toArray
  (List.range 5).foldl (fun h i =>
    let d := D[i]!
    let h := h.set! i (h[i]! ^^^ d)
    let h := h.set! (i + 5) (h[i + 5]! ^^^ d)
    let h := h.set! (i + 10) (h[i + 10]! ^^^ d)
    let h := h.set! (i + 15) (h[i + 15]! ^^^ d)
    h.set! (i + 20) (h[i + 20]! ^^^ d)) h

/-- `pp_crypto_hash_sha3_keccak_rho_pi`: the in-place assignment chain, in source order -/
def rhoPi (h : Lanes) : Lanes :=
  let tmpA := h[keccakTmpSrc]!
  keccakRhoPi.foldl (fun h (d, s, r) => h.set! d (rotl (if s = 25 then tmpA else h[s]!) r)) h

/-- `pp_crypto_hash_sha3_keccak_chi` -/
def chi (h : Lanes) : Lanes :=
  [0, 5, 10, 15, 20].foldl (fun h i =>
    let tmpA1 := h[i + 0]!
    let tmpA2 := h[i + 1]!
    let h := h.set! (i + 0) (h[i + 0]! ^^^ (~~~ tmpA2 &&& h[i + 2]!))
    let h := h.set! (i + 1) (h[i + 1]! ^^^ (~~~ h[i + 2]! &&& h[i + 3]!))
    let h := h.set! (i + 2) (h[i + 2]! ^^^ (~~~ h[i + 3]! &&& h[i + 4]!))
    let h := h.set! (i + 3) (h[i + 3]! ^^^ (~~~ h[i + 4]! &&& tmpA1))
    h.set! (i + 4) (h[i + 4]! ^^^ (~~~ tmpA1 &&& tmpA2))) h

def roundConstants : Array UInt64 := keccakK.toArray

/-- `pp_crypto_hash_sha3_keccak_permutate`: 24 × (theta, rho/pi, chi, iota) -/
def keccakF (h : Lanes) : Lanes :=
  (List.range keccakRounds).foldl (fun h i =>
    let h := chi (rhoPi (theta h))
    h.set! 0 (h[0]! ^^^ roundConstants[i]!)) h

/-- byte `i` of the lane array seen as memory (`(const puchar *) ctx->hash` on a little-endian machine) -/
@[inline] def stateByte (h : Lanes) (i : Nat) : UInt8 :=
  (h[i / 8]! >>> (8 * (i % 8)).toUInt64).toUInt8

/-- the first `n` bytes of the state -/
def stateBytes (h : Lanes) (n : Nat) : List UInt8 := (List.range n).map (stateByte h)

/-- the all-zero state (`p_malloc0` / `memset (ctx->hash, 0, …)`) -/
def zeroState : Lanes := Array.replicate 25 0

/-- lane `i` (little-endian 64-bit word at byte offset `8 i`) of a byte array; bytes beyond the end read as 0 -/
@[inline] def lane (a : Array UInt8) (i : Nat) : UInt64 :=
  let b (k : Nat) : UInt64 := (a[8 * i + k]?.getD 0).toUInt64
  b 0 ||| (b 1 <<< 8) ||| (b 2 <<< 16) ||| (b 3 <<< 24) ||| (b 4 <<< 32) ||| (b 5 <<< 40) ||| (b 6 <<< 48) ||| (b 7 <<< 56)

end PV.HashX.Keccak

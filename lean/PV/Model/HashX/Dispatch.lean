import PV.Model.HashX.Sha3
import PV.Model.HashX.Gost
/-!
# `pcryptohash.c`: the dispatcher, for the SHA-3 variants and GOST

```c
struct PCryptoHash_ { PCryptoHashType type; ppointer context; puint hash_len; pboolean closed;
                      /* create, update, finish, digest, reset, free */ };
```
`Impl` is the function-pointer table set by `P_HASH_FUNCS` plus `hash_len` of the `switch`.
-/
namespace PV.HashX
open PV.Generated.HashX

/-- one row of the `switch` in `p_crypto_hash_new` -/
structure Impl where
  σ : Type
  create : σ
  update : σ → Bytes → σ
  updateZeros : σ → Nat → σ      -- `update` with a chunk of `n` zero bytes (driver only; proved equal)
  finish : σ → σ
  digest : σ → Nat → Bytes        -- the first `n` bytes at the pointer returned by `digest`
  reset : σ → σ
  hashLen : Nat

def sha3Impl (rate hashLen : Nat) : Impl :=
  { σ := Sha3.Ctx, create := Sha3.new rate, update := Sha3.update, updateZeros := Sha3.updateZeros,
    finish := Sha3.finish, digest := Sha3.digest, reset := Sha3.reset, hashLen := hashLen }

def sha3_224 : Impl := sha3Impl sha3Rate224 hashLen_sha3_224
def sha3_256 : Impl := sha3Impl sha3Rate256 hashLen_sha3_256
def sha3_384 : Impl := sha3Impl sha3Rate384 hashLen_sha3_384
def sha3_512 : Impl := sha3Impl sha3Rate512 hashLen_sha3_512
def gost : Impl :=
  { σ := Gost.Ctx, create := Gost.init, update := Gost.update, updateZeros := Gost.updateZeros,
    finish := Gost.finish, digest := fun c n => (Gost.digest c).take n, reset := Gost.reset,
    hashLen := hashLen_gost }

/-- enumerator values (pcryptohash.h; generated) of the five types of this family, with their table rows -/
def codeTable : List (Int × Impl) :=
  [(typeCode_sha3_224, sha3_224), (typeCode_sha3_256, sha3_256), (typeCode_sha3_384, sha3_384),
   (typeCode_sha3_512, sha3_512), (typeCode_gost, gost)]

/-- the range test at the top of `p_crypto_hash_new ((PCryptoHashType) c)`: any other integer gives NULL -/
def typeAccepted (c : Int) : Bool := decide (typeCodeMin ≤ c) && decide (c ≤ typeCodeMax)

/-- the `switch` of `p_crypto_hash_new`, restricted to this family -/
def implOfCode (c : Int) : Option Impl := (codeTable.find? fun p => p.1 == c).map (·.2)

/-- the answers of the entry points for `hash == NULL`: `get_string`, `*len` of `get_digest`, `get_length`, `get_type` -/
def nullAnswers : Option String × Nat × Nat × Int := (none, 0, nullLength, nullType)

/-- `PCryptoHash` (non-NULL) -/
structure Hash (A : Impl) where
  ctx : A.σ
  closed : Bool

namespace Hash
variable {A : Impl}

/-- `p_crypto_hash_new`: `closed = FALSE`, `context = create ()` -/
def new (A : Impl) : Hash A := { ctx := A.create, closed := false }

/-- `p_crypto_hash_update`: ignored when `len == 0` or `closed` -/
def update (h : Hash A) (data : Bytes) : Hash A :=
  if data.length = 0 then h
  else if h.closed then h
  else { h with ctx := A.update h.ctx data }

/-- `p_crypto_hash_update` with `n` zero bytes -/
def updateZeros (h : Hash A) (n : Nat) : Hash A :=
  if n = 0 then h
  else if h.closed then h
  else { h with ctx := A.updateZeros h.ctx n }

/-- `p_crypto_hash_reset` -/
def reset (h : Hash A) : Hash A := { ctx := A.reset h.ctx, closed := false }

/-- `if (!hash->closed) { hash->finish (hash->context); hash->closed = TRUE; }` -/
def close (h : Hash A) : Hash A :=
  if !h.closed then { ctx := A.finish h.ctx, closed := true } else h

def hexDigit (n : Nat) : Char := hexDigits.toList.getD n '?'
/-- `pp_crypto_hash_digest_to_hex` -/
def toHex (d : Bytes) : String :=
  String.ofList (d.flatMap fun (b : UInt8) =>
    [hexDigit ((b >>> (4 : UInt8)) &&& (0x0F : UInt8)).toNat, hexDigit (b &&& (0x0F : UInt8)).toNat])

/-- `p_crypto_hash_get_string` (allocation succeeds) -/
def getString (h : Hash A) : Hash A × String :=
  let h := h.close
  (h, toHex (A.digest h.ctx A.hashLen))

/-- `p_crypto_hash_get_digest (hash, buf, &len)` with `*len = cap` on entry:
    returns the new `*len` and the bytes written.  A too small buffer is refused *before* the hash is
    finished, so the hash stays open. -/
def getDigest (h : Hash A) (cap : Nat) : Hash A × Nat × Bytes :=
  if A.hashLen > cap then (h, 0, [])
  else
    let h := h.close
    (h, A.hashLen, A.digest h.ctx A.hashLen)

/-- `p_crypto_hash_get_length` -/
def getLength (_ : Hash A) : Nat := A.hashLen

/-- `p_crypto_hash_update (hash, NULL, len)`: returns before looking at the hash -/
def updateNull (h : Hash A) (_len : Nat) : Hash A := h

/-- `p_crypto_hash_get_digest (hash, NULL, &len)`: `*len = 0`; not a read, whatever `*len` was -/
def getDigestNullBuf (h : Hash A) (_cap : Nat) : Hash A × Nat := (h, 0)

/-- `p_crypto_hash_get_digest (hash, buf, NULL)`: returns at once -/
def getDigestNullLen (h : Hash A) : Hash A := h

end Hash
end PV.HashX

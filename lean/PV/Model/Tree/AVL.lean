import PV.Model.Tree.BST
/-!
Model of `/repo/src/ptree-avl.c`.

Recursive transliteration of the parent-pointer loops: `ins` returns "the subtree grew",
`del` returns "the subtree shrank"; the retracing cases, the four rotations and the
balance-factor restoration are those of `pp_tree_avl_balance_insert`, `…_balance_remove`,
`…_rotate_*`.  `bf` is the *stored* balance factor (`height left − height right` when the
invariant holds; the model never recomputes it).
-/
namespace PV.Tree

inductive AT (κ ν : Type) where
  | nil
  | node (l : AT κ ν) (k : κ) (v : ν) (bf : Int) (r : AT κ ν)
deriving Repr, DecidableEq

variable {κ ν : Type}

namespace AT

def toBT : AT κ ν → BT κ ν
  | nil => .nil
  | node l k v _ r => .node (toBT l) k v (toBT r)

def toList (t : AT κ ν) : List (κ × ν) := t.toBT.toList
def height (t : AT κ ν) : Nat := t.toBT.height
def size (t : AT κ ν) : Nat := t.toBT.size

def bfOf : AT κ ν → Int
  | nil => 0
  | node _ _ _ b _ => b

/-- `pp_tree_avl_rotate_right (c)` where `c` is the left child of `p = node c pk pv _ pr` -/
def rotR (cl : AT κ ν) (ck : κ) (cv : ν) (cb : Int) (cr : AT κ ν) (pk : κ) (pv : ν) (pr : AT κ ν) : AT κ ν :=
  let cb' := cb - 1
  node cl ck cv cb' (node cr pk pv (-cb') pr)

/-- `pp_tree_avl_rotate_left (c)` where `c` is the right child of `p = node pl pk pv _ c` -/
def rotL (pl : AT κ ν) (pk : κ) (pv : ν) (cl : AT κ ν) (ck : κ) (cv : ν) (cb : Int) (cr : AT κ ν) : AT κ ν :=
  let cb' := cb + 1
  node (node pl pk pv (-cb') cl) ck cv cb' cr

/-- balance factors given to the (left, right) children of the new subtree root `m`
    by both double rotations -/
def dblBf (mb : Int) : Int × Int :=
  if mb = 1 then (0, -1) else if mb = -1 then (1, 0) else (0, 0)

/-- `pp_tree_avl_rotate_left_right (c)`: `c` left child of `p`, `m = c.right` becomes the root -/
def rotLR (cl : AT κ ν) (ck : κ) (cv : ν) (ml : AT κ ν) (mk : κ) (mv : ν) (mb : Int) (mr : AT κ ν)
    (pk : κ) (pv : ν) (pr : AT κ ν) : AT κ ν :=
  let (lb, rb) := dblBf mb
  node (node cl ck cv lb ml) mk mv 0 (node mr pk pv rb pr)

/-- `pp_tree_avl_rotate_right_left (c)`: `c` right child of `p`, `m = c.left` becomes the root -/
def rotRL (pl : AT κ ν) (pk : κ) (pv : ν) (ml : AT κ ν) (mk : κ) (mv : ν) (mb : Int) (mr : AT κ ν)
    (ck : κ) (cv : ν) (cr : AT κ ν) : AT κ ν :=
  let (lb, rb) := dblBf mb
  node (node pl pk pv lb ml) mk mv 0 (node mr ck cv rb cr)

/-- left subtree `c` of `node _ k v b r` grew (`pp_tree_avl_balance_insert`, node is a left child).
    Returns the subtree and whether it grew in turn.  `none`: the C code would dereference NULL. -/
def grewLeft (c : AT κ ν) (k : κ) (v : ν) (b : Int) (r : AT κ ν) : Option (AT κ ν × Bool) :=
  if b = 1 then
    match c with
    | node cl ck cv cb cr =>
      if cb = -1 then
        match cr with
        | node ml mk mv mb mr => some (rotLR cl ck cv ml mk mv mb mr k v r, false)   -- Case 1
        | nil => none
      else some (rotR cl ck cv cb cr k v r, false)                                   -- Case 2
    | nil => none
  else if b = -1 then some (node c k v 0 r, false)                                   -- Case 3
  else some (node c k v 1 r, true)                                                   -- Case 4

def grewRight (l : AT κ ν) (k : κ) (v : ν) (b : Int) (c : AT κ ν) : Option (AT κ ν × Bool) :=
  if b = -1 then
    match c with
    | node cl ck cv cb cr =>
      if cb = 1 then
        match cl with
        | node ml mk mv mb mr => some (rotRL l k v ml mk mv mb mr ck cv cr, false)
        | nil => none
      else some (rotL l k v cl ck cv cb cr, false)
    | nil => none
  else if b = 1 then some (node l k v 0 c, false)
  else some (node l k v (-1) c, true)

/-- `p_tree_avl_insert`: (tree, subtree grew, node added, destroyed pair) -/
def ins (cmp : κ → κ → Ordering) : AT κ ν → κ → ν → Option (AT κ ν × Bool × Bool × List (κ × ν))
  | nil, x, y => some (node nil x y 0 nil, true, true, [])
  | node l k v b r, x, y =>
    match cmp x k with
    | .lt =>
      match ins cmp l x y with
      | none => none
      | some (l', g, a, d) =>
        if g then (grewLeft l' k v b r).map fun (t, g') => (t, g', a, d)
        else some (node l' k v b r, false, a, d)
    | .gt =>
      match ins cmp r x y with
      | none => none
      | some (r', g, a, d) =>
        if g then (grewRight l k v b r').map fun (t, g') => (t, g', a, d)
        else some (node l k v b r', false, a, d)
    | .eq => some (node l x y b r, false, false, [(k, v)])

/-- left subtree (already replaced by `l`) of `node _ k v b r` shrank
    (`pp_tree_avl_balance_remove`, node is a left child): (subtree, shrank in turn) -/
def shrunkLeft (l : AT κ ν) (k : κ) (v : ν) (b : Int) (r : AT κ ν) : Option (AT κ ν × Bool) :=
  if b = -1 then
    match r with
    | node sl sk sv sb sr =>
      if sb = 1 then
        match sl with
        | node ml mk mv mb mr => some (rotRL l k v ml mk mv mb mr sk sv sr, true)     -- Case 1
        | nil => none
      else some (rotL l k v sl sk sv sb sr, sb ≠ 0)                                   -- Case 2
    | nil => none
  else if b = 0 then some (node l k v (-1) r, false)                                  -- Case 3
  else some (node l k v 0 r, true)                                                    -- Case 4

def shrunkRight (l : AT κ ν) (k : κ) (v : ν) (b : Int) (r : AT κ ν) : Option (AT κ ν × Bool) :=
  if b = 1 then
    match l with
    | node sl sk sv sb sr =>
      if sb = -1 then
        match sr with
        | node ml mk mv mb mr => some (rotLR sl sk sv ml mk mv mb mr k v r, true)
        | nil => none
      else some (rotR sl sk sv sb sr k v r, sb ≠ 0)
    | nil => none
  else if b = 0 then some (node l k v 1 r, false)
  else some (node l k v 0 r, true)

/-- unlink the right-most node of `node l k v b r`: (rest, shrank, its pair) -/
def delMax : AT κ ν → κ → ν → Int → AT κ ν → Option (AT κ ν × Bool × (κ × ν))
  | l, k, v, _, nil => some (l, true, (k, v))
  | l, k, v, b, node rl rk rv rb rr =>
    match delMax rl rk rv rb rr with
    | none => none
    | some (r', s, p) =>
      if s then (shrunkRight l k v b r').map fun (t, s') => (t, s', p)
      else some (node l k v b r', false, p)

/-- `p_tree_avl_remove`: (tree, subtree shrank, found, destroyed pair) -/
def del (cmp : κ → κ → Ordering) : AT κ ν → κ → Option (AT κ ν × Bool × Bool × List (κ × ν))
  | nil, _ => some (nil, false, false, [])
  | node l k v b r, x =>
    match cmp x k with
    | .lt =>
      match del cmp l x with
      | none => none
      | some (l', s, f, d) =>
        if s then (shrunkLeft l' k v b r).map fun (t, s') => (t, s', f, d)
        else some (node l' k v b r, false, f, d)
    | .gt =>
      match del cmp r x with
      | none => none
      | some (r', s, f, d) =>
        if s then (shrunkRight l k v b r').map fun (t, s') => (t, s', f, d)
        else some (node l k v b r', false, f, d)
    | .eq =>
      match l, r with
      | nil, _ => some (r, true, true, [(k, v)])
      | _, nil => some (l, true, true, [(k, v)])
      | node ll lk lv lb lr, node _ _ _ _ _ =>
        match delMax ll lk lv lb lr with
        | none => none
        | some (l', s, p) =>
          if s then (shrunkLeft l' p.1 p.2 b r).map fun (t, s') => (t, s', true, [(k, v)])
          else some (node l' p.1 p.2 b r, false, true, [(k, v)])

end AT
end PV.Tree

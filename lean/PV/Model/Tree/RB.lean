import PV.Model.Tree.BST
/-!
Model of `/repo/src/ptree-rb.c`.

Recursive transliteration: `ins` reports upward where the freshly red node ("`node`" of
`pp_tree_rb_balance_insert`) sits relative to the subtree just rebuilt; `del` reports a
black-height *deficit* (the `node` of `pp_tree_rb_balance_remove`).  Cases 1–5 of both loops are
kept as in the C code, including the re-reading of the sibling after Case 2 / Case 4.
`none` = the C code would dereference a NULL pointer (never happens on red-black trees; proved).
-/
namespace PV.Tree

inductive Color where
  | red | black
deriving Repr, DecidableEq

inductive RT (κ ν : Type) where
  | nil
  | node (l : RT κ ν) (k : κ) (v : ν) (c : Color) (r : RT κ ν)
deriving Repr, DecidableEq

variable {κ ν : Type}

namespace RT

def toBT : RT κ ν → BT κ ν
  | nil => .nil
  | node l k v _ r => .node (toBT l) k v (toBT r)

def toList (t : RT κ ν) : List (κ × ν) := t.toBT.toList
def height (t : RT κ ν) : Nat := t.toBT.height
def size (t : RT κ ν) : Nat := t.toBT.size

/-- `pp_tree_rb_is_black` (NULL counts as black) -/
def isBlack : RT κ ν → Bool
  | nil => true
  | node _ _ _ c _ => c == .black

/-- `pp_tree_rb_is_red` on a non-NULL node; on NULL the C code crashes, the callers below never
    ask (they test for `nil` first, as the C code does for the uncle) -/
def isRedNode : RT κ ν → Bool
  | nil => false
  | node _ _ _ c _ => c == .red

def paint (c : Color) : RT κ ν → RT κ ν
  | nil => nil
  | node l k v _ r => node l k v c r

inductive Dir where
  | left | right
deriving Repr, DecidableEq

/-- what `ins` tells the level above -/
inductive InsSt where
  | done                 -- loop has terminated (`break`)
  | node                 -- the subtree root is the loop's `node` (red): check its parent
  | child (d : Dir)      -- the subtree root is `node->parent`, red; `node` is its `d` child: needs the grandparent
deriving Repr, DecidableEq

/-- at the parent `x` of `node`: Case 2 (black parent) or ask the grandparent -/
def atParent (d : Dir) (t : RT κ ν) : InsSt :=
  if t.isBlack then .done else .child d

/-- at the grandparent: `g = node (p …) gk gv gc u` with the red parent on the **left**;
    `d'` = side of `node` under `p`.  Cases 3, 4a, 5a. -/
def atGparentL (p : RT κ ν) (gk : κ) (gv : ν) (u : RT κ ν) (d' : Dir) : Option (RT κ ν × InsSt) :=
  match p with
  | nil => none
  | node pl pk pv pc pr =>
    if u.isRedNode then
      -- Case 3: recolour, continue from the grandparent
      some (node (node pl pk pv .black pr) gk gv .red (paint .black u), .node)
    else
      match d' with
      | .left =>
        -- Case 5a: g red, p black, rotate right at g
        some (node pl pk pv .black (node pr gk gv .red u), .done)
      | .right =>
        -- Case 4a: rotate left at p (n = p.right comes up), then Case 5a with n in p's place
        match pr with
        | nil => none
        | node nl nk nv _ nr =>
          some (node (node pl pk pv pc nl) nk nv .black (node nr gk gv .red u), .done)

/-- mirror image: red parent on the **right** of the grandparent.  Cases 3, 4b, 5b. -/
def atGparentR (u : RT κ ν) (gk : κ) (gv : ν) (p : RT κ ν) (d' : Dir) : Option (RT κ ν × InsSt) :=
  match p with
  | nil => none
  | node pl pk pv pc pr =>
    if u.isRedNode then
      some (node (paint .black u) gk gv .red (node pl pk pv .black pr), .node)
    else
      match d' with
      | .right =>
        some (node (node u gk gv .red pl) pk pv .black pr, .done)
      | .left =>
        match pl with
        | nil => none
        | node nl nk nv _ nr =>
          some (node (node u gk gv .red nl) nk nv .black (node nr pk pv pc pr), .done)

/-- the search + `pp_tree_rb_balance_insert`, below the root:
    (subtree, state, node added, destroyed pair) -/
def insAux (cmp : κ → κ → Ordering) : RT κ ν → κ → ν → Option (RT κ ν × InsSt × Bool × List (κ × ν))
  | nil, x, y => some (node nil x y .red nil, .node, true, [])
  | node l k v c r, x, y =>
    match cmp x k with
    | .lt =>
      match insAux cmp l x y with
      | none => none
      | some (l', st, a, d) =>
        match st with
        | .done => some (node l' k v c r, .done, a, d)
        | .node => some (node l' k v c r, atParent .left (node l' k v c r), a, d)
        | .child d' => (atGparentL l' k v r d').map fun (t, st') => (t, st', a, d)
    | .gt =>
      match insAux cmp r x y with
      | none => none
      | some (r', st, a, d) =>
        match st with
        | .done => some (node l k v c r', .done, a, d)
        | .node => some (node l k v c r', atParent .right (node l k v c r'), a, d)
        | .child d' => (atGparentR l k v r' d').map fun (t, st') => (t, st', a, d)
    | .eq => some (node l x y c r, .done, false, [(k, v)])

/-- `p_tree_rb_insert`: Case 1 (paint the root black) when the loop arrives at the root.
    A red root with a red child would make the C code read the parent of NULL: `none`. -/
def ins (cmp : κ → κ → Ordering) (t : RT κ ν) (x : κ) (y : ν) : Option (RT κ ν × Bool × List (κ × ν)) :=
  match insAux cmp t x y with
  | none => none
  | some (t', st, a, d) =>
    match st with
    | .done => some (t', a, d)
    | .node => some (paint .black t', a, d)
    | .child _ => none

/-! ### removal -/

/-- Cases 3–5 of `pp_tree_rb_balance_remove` when `node` is the **left** child `n` of
    `p = node n pk pv pc s`; Case 2 is handled by the caller.  Returns (subtree, deficit remains). -/
def fixLeft345 (n : RT κ ν) (pk : κ) (pv : ν) (pc : Color) (s : RT κ ν) : Option (RT κ ν × Bool) :=
  match s with
  | nil => none
  | node sl sk sv _ sr =>
    if sl.isBlack && sr.isBlack then
      -- Case 3
      if pc == .black then some (node n pk pv .black (node sl sk sv .red sr), true)
      else some (node n pk pv .black (node sl sk sv .red sr), false)
    else if sr.isBlack then
      -- Case 4 (right rotate at sibling: `sl` comes up) followed by Case 5
      match sl with
      | nil => none
      | node a ak av _ b =>
        -- after Case 4: sibling = node a ak av black (node b sk sv red sr)
        -- Case 5: sibling takes p's colour, p black, sibling.right black, rotate left at p
        some (node (node n pk pv .black a) ak av pc (node b sk sv .black sr), false)
    else
      -- Case 5
      some (node (node n pk pv .black sl) sk sv pc (paint .black sr), false)

def fixRight345 (s : RT κ ν) (pk : κ) (pv : ν) (pc : Color) (n : RT κ ν) : Option (RT κ ν × Bool) :=
  match s with
  | nil => none
  | node sl sk sv _ sr =>
    if sl.isBlack && sr.isBlack then
      if pc == .black then some (node (node sl sk sv .red sr) pk pv .black n, true)
      else some (node (node sl sk sv .red sr) pk pv .black n, false)
    else if sl.isBlack then
      match sr with
      | nil => none
      | node a ak av _ b =>
        some (node (node sl sk sv .black a) ak av pc (node b pk pv .black n), false)
    else
      some (node (paint .black sl) sk sv pc (node sr pk pv .black n), false)

/-- the left child `n` of `node _ pk pv pc s` has a deficit -/
def deficitLeft (n : RT κ ν) (pk : κ) (pv : ν) (pc : Color) (s : RT κ ν) : Option (RT κ ν × Bool) :=
  match s with
  | nil => none
  | node sl sk sv sc sr =>
    if sc == .red then
      -- Case 2: p red, s black, rotate left at p; then Cases 3–5 at p with its new sibling `sl`
      match fixLeft345 n pk pv .red sl with
      | none => none
      | some (p', dfc) =>
        -- with a red p, Case 3 ends the loop; a remaining deficit would continue from p (not on RB trees)
        some (node p' sk sv .black sr, dfc)
    else fixLeft345 n pk pv pc s

def deficitRight (s : RT κ ν) (pk : κ) (pv : ν) (pc : Color) (n : RT κ ν) : Option (RT κ ν × Bool) :=
  match s with
  | nil => none
  | node sl sk sv sc sr =>
    if sc == .red then
      match fixRight345 sr pk pv .red n with
      | none => none
      | some (p', dfc) => some (node sl sk sv .black p', dfc)
    else fixRight345 s pk pv pc n

/-- replace a node that has at most one child by that child (`child_node`), as
    `p_tree_rb_remove` does: (replacement, deficit) -/
def unlink (l : RT κ ν) (c : Color) (r : RT κ ν) : RT κ ν × Bool :=
  let child := match l with | nil => r | _ => l
  match child with
  | nil => (nil, c == .black)
  | _ => (if c == .black then paint .black child else child, false)

/-- unlink the right-most node of `node l k v c r`: (rest, deficit, its pair) -/
def delMax : RT κ ν → κ → ν → Color → RT κ ν → Option (RT κ ν × Bool × (κ × ν))
  | l, k, v, c, nil => let (t, dfc) := unlink l c nil; some (t, dfc, (k, v))
  | l, k, v, c, node rl rk rv rc rr =>
    match delMax rl rk rv rc rr with
    | none => none
    | some (r', dfc, p) =>
      if dfc then (deficitRight l k v c r').map fun (t, d') => (t, d', p)
      else some (node l k v c r', false, p)

/-- `p_tree_rb_remove` below the root: (subtree, deficit, found, destroyed pair) -/
def delAux (cmp : κ → κ → Ordering) : RT κ ν → κ → Option (RT κ ν × Bool × Bool × List (κ × ν))
  | nil, _ => some (nil, false, false, [])
  | node l k v c r, x =>
    match cmp x k with
    | .lt =>
      match delAux cmp l x with
      | none => none
      | some (l', dfc, f, d) =>
        if dfc then (deficitLeft l' k v c r).map fun (t, d') => (t, d', f, d)
        else some (node l' k v c r, false, f, d)
    | .gt =>
      match delAux cmp r x with
      | none => none
      | some (r', dfc, f, d) =>
        if dfc then (deficitRight l k v c r').map fun (t, d') => (t, d', f, d)
        else some (node l k v c r', false, f, d)
    | .eq =>
      match l, r with
      | node ll lk lv lc lr, node _ _ _ _ _ =>
        match delMax ll lk lv lc lr with
        | none => none
        | some (l', dfc, p) =>
          if dfc then (deficitLeft l' p.1 p.2 c r).map fun (t, d') => (t, d', true, [(k, v)])
          else some (node l' p.1 p.2 c r, false, true, [(k, v)])
      | _, _ => let (t, dfc) := unlink l c r; some (t, dfc, true, [(k, v)])

/-- `p_tree_rb_remove`: a deficit arriving at the root is Case 1 (nothing to do) -/
def del (cmp : κ → κ → Ordering) (t : RT κ ν) (x : κ) : Option (RT κ ν × Bool × List (κ × ν)) :=
  (delAux cmp t x).map fun (t', _, f, d) => (t', f, d)

end RT
end PV.Tree

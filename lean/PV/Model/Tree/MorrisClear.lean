import PV.Model.Tree.Morris
/-!
Heap-level model of the loop of `p_tree_clear` (`/repo/src/ptree.c`, lines 251–291).

The loop is a destructive relative of the threaded traversal: a node with a left child is moved
below the right-most node of its left subtree (`prev_node->right = cur_node; cur_node->left = NULL`)
and the walk continues at the former left child; a node without left child is handed to the destroy
notifiers, freed, and the walk continues at its right child.

`Heap.free a` empties cell `a`, and reading an empty cell is `Res.fault`: a use after free (and a
second free of the same node, which would first have to read it) is a fault of the model.
-/
namespace PV.Tree.Morris
open PV.Tree

variable {κ ν : Type}

/-- the heap, `cur_node`, and what the environment has seen -/
structure CSt (κ ν : Type) where
  heap : Heap κ ν
  cur : Option Nat
  destroyed : List (κ × ν)     -- key_destroy_func (key); value_destroy_func (value), in call order
  freed : List Nat             -- free_node_func (node), in call order
  nnodes : Int                 -- tree->nnodes
deriving DecidableEq, _root_.Repr

/-- `while (prev_node->right != NULL) prev_node = prev_node->right;` -/
def walkR (h : Heap κ ν) : Nat → Nat → Res Nat
  | 0, _ => .timeout
  | f + 1, p =>
    match h.get p with
    | none => .fault
    | some pn =>
      match pn.right with
      | none => .done p
      | some r => walkR h f r

/-- one evaluation of `while (cur_node != NULL)` and one execution of the body -/
def clearBody (wf : Nat) (s : CSt κ ν) : Res (Ctl (CSt κ ν)) :=
  match s.cur with
  | none => .done (.ret s)
  | some c =>
    match s.heap.get c with
    | none => .fault                                            -- cur_node->left
    | some cn =>
      match cn.left with
      | none =>                                                 -- if (cur_node->left == NULL)
        .done (.next
          { heap := s.heap.free c                               --   free_node_func (cur_node)
            cur := cn.right                                     --   next_node = cur_node->right; … cur_node = next_node
            destroyed := s.destroyed ++ [(cn.key, cn.val)]      --   key_destroy_func, value_destroy_func
            freed := s.freed ++ [c]
            nnodes := s.nnodes - 1 })                           --   --tree->nnodes
      | some l =>                                               -- else: prev_node = cur_node->left
        match walkR s.heap wf l with                            --   inner while
        | .fault => .fault
        | .timeout => .timeout
        | .done p =>
          match s.heap.get p with
          | none => .fault
          | some pn =>
            let h1 := s.heap.set p { pn with right := some c }  --   prev_node->right = cur_node
            match h1.get c with                                 --   next_node = cur_node->left
            | none => .fault
            | some cn' =>
              .done (.next { s with
                heap := h1.set c { cn' with left := none }      --   cur_node->left = NULL
                cur := cn'.left })                              --   cur_node = next_node

def clearLoop (wf : Nat) : Nat → CSt κ ν → Res (CSt κ ν)
  | 0, _ => .timeout
  | f + 1, s =>
    match clearBody wf s with
    | .done (.next s') => clearLoop wf f s'
    | .done (.ret s') => .done s'
    | .fault => .fault
    | .timeout => .timeout

/-- `p_tree_clear (tree)` with `tree->root = root`, `tree->nnodes = nn`; afterwards `tree->root` is
    `NULL` (it already was in the early-return case), which is the `cur` field of the result. -/
def clearRun (h : Heap κ ν) (root : Option Nat) (nn : Int) (fuel : Nat) : Res (CSt κ ν) :=
  match root with
  | none => .done ⟨h, none, [], [], nn⟩                      -- if (tree->root == NULL) return
  | some r => clearLoop fuel fuel ⟨h, some r, [], [], nn⟩

/-- hang `x` below the right end of `t` -/
def PT.graft : PT κ ν → PT κ ν → PT κ ν
  | .nil, x => x
  | .node a l k v r, x => .node a l k v (graft r x)

end PV.Tree.Morris

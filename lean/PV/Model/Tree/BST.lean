/-!
Model of `/repo/src/ptree-bst.c` and of the type-independent part of `/repo/src/ptree.c`
(lookup, in-order traversal with early stop, clear).

A tree is an inductive value; keys `κ` and values `ν` are opaque objects compared only through the
user comparator `cmp : κ → κ → Ordering` (so "which object is stored" is observable).
Every mutating operation also returns the *destroy log*: the objects handed to the key / value
destroy notifiers, in call order.
-/
namespace PV.Tree

inductive BT (κ ν : Type) where
  | nil
  | node (l : BT κ ν) (k : κ) (v : ν) (r : BT κ ν)
deriving Repr, DecidableEq

variable {κ ν : Type}

namespace BT

/-- in-order listing -/
def toList : BT κ ν → List (κ × ν)
  | nil => []
  | node l k v r => toList l ++ (k, v) :: toList r

def size : BT κ ν → Nat
  | nil => 0
  | node l _ _ r => size l + 1 + size r

def height : BT κ ν → Nat
  | nil => 0
  | node l _ _ r => max (height l) (height r) + 1

/-- `p_tree_lookup` (shared by the three variants; RB/AVL project to this shape) -/
def lookup (cmp : κ → κ → Ordering) : BT κ ν → κ → Option ν
  | nil, _ => none
  | node l k v r, x =>
    match cmp x k with
    | .lt => lookup cmp l x
    | .gt => lookup cmp r x
    | .eq => some v

/-- the keys the comparator is called with during `p_tree_lookup` -/
def lookupPath (cmp : κ → κ → Ordering) : BT κ ν → κ → List κ
  | nil, _ => []
  | node l k _ r, x =>
    match cmp x k with
    | .lt => k :: lookupPath cmp l x
    | .gt => k :: lookupPath cmp r x
    | .eq => [k]

/-- `p_tree_bst_insert`: returns the tree, whether a node was added, and the destroyed pair -/
def ins (cmp : κ → κ → Ordering) : BT κ ν → κ → ν → BT κ ν × Bool × List (κ × ν)
  | nil, x, y => (node nil x y nil, true, [])
  | node l k v r, x, y =>
    match cmp x k with
    | .lt => let (l', g, d) := ins cmp l x y; (node l' k v r, g, d)
    | .gt => let (r', g, d) := ins cmp r x y; (node l k v r', g, d)
    | .eq => (node l x y r, false, [(k, v)])

/-- unlink the right-most node of a non-empty tree: (rest, its pair) -/
def delMax : BT κ ν → κ → ν → BT κ ν → BT κ ν × (κ × ν)
  | l, k, v, nil => (l, (k, v))
  | l, k, v, node rl rk rv rr => let (r', p) := delMax rl rk rv rr; (node l k v r', p)

/-- `p_tree_bst_remove`: a node with two children takes the pair of its in-order predecessor, the
    predecessor's node is unlinked, and the *removed* pair goes to the notifiers. -/
def del (cmp : κ → κ → Ordering) : BT κ ν → κ → BT κ ν × Bool × List (κ × ν)
  | nil, _ => (nil, false, [])
  | node l k v r, x =>
    match cmp x k with
    | .lt => let (l', f, d) := del cmp l x; (node l' k v r, f, d)
    | .gt => let (r', f, d) := del cmp r x; (node l k v r', f, d)
    | .eq =>
      match l, r with
      | nil, _ => (r, true, [(k, v)])
      | _, nil => (l, true, [(k, v)])
      | node ll lk lv lr, node _ _ _ _ =>
        let (l', p) := delMax ll lk lv lr
        (node l' p.1 p.2 r, true, [(k, v)])

/-- `p_tree_foreach` with a callback that asks to stop at its `j`-th call (`j = 0`: never):
    the visited pairs. -/
def foreachStop (t : BT κ ν) (j : Nat) : List (κ × ν) :=
  if j = 0 then t.toList else t.toList.take j

end BT
end PV.Tree

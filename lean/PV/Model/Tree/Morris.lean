import PV.Model.Tree.BST
/-!
Heap-level model of the loop of `p_tree_foreach` (`/repo/src/ptree.c`, lines 194–249).

The functional model (`BT.foreachStop`) says *what* is visited.  The C function does not recurse: it
is a threaded (Morris) in-order traversal which temporarily stores, in the `right` field of the
in-order predecessor of a node, a pointer back to that node, and removes it again later.  Here the
nodes live in a heap addressed by `Nat`, the loop is transliterated statement by statement, and
following a pointer to a cell that holds no node is an explicit `Res.fault`.

Fuel: `loop` counts evaluations of the outer `while` condition, `walk` counts evaluations of the
inner `while` condition.  Running out of fuel is `Res.timeout` (distinct from `fault`).
-/
namespace PV.Tree.Morris
open PV.Tree

/-- `PTreeBaseNode`: `left`, `right`, `key`, `value` (`none` = `NULL`) -/
structure Node (κ ν : Type) where
  left : Option Nat
  right : Option Nat
  key : κ
  val : ν
deriving DecidableEq, Repr

/-- the heap: cell `a` holds a node or nothing (never allocated / freed) -/
structure Heap (κ ν : Type) where
  cells : List (Option (Node κ ν))
deriving DecidableEq, Repr

variable {κ ν : Type}

/-- read the node at address `a`; `none` = there is no node there (dereferencing it is a fault) -/
def Heap.get (h : Heap κ ν) (a : Nat) : Option (Node κ ν) := h.cells[a]?.join

/-- overwrite the node at address `a` (only ever used on an address that was just read) -/
def Heap.set (h : Heap κ ν) (a : Nat) (n : Node κ ν) : Heap κ ν := ⟨h.cells.set a (some n)⟩

/-- `free (a)` -/
def Heap.free (h : Heap κ ν) (a : Nat) : Heap κ ν := ⟨h.cells.set a none⟩

/-- result of running C code with fuel -/
inductive Res (α : Type) where
  | done (a : α)
  | fault          -- dereferenced an address that holds no node
  | timeout        -- fuel exhausted
deriving DecidableEq, Repr

def Res.map {α β : Type} (f : α → β) : Res α → Res β
  | .done a => .done (f a)
  | .fault => .fault
  | .timeout => .timeout

/-- what the callback has seen: `need_stop`, the pairs it was called with, how often it was called -/
structure Log (κ ν : Type) where
  needStop : Bool
  visited : List (κ × ν)
  calls : Nat
deriving DecidableEq, Repr

/-- `if (need_stop == FALSE) need_stop = traverse_func (key, value, user_data);`
    with a callback that returns `TRUE` at its `j`-th call (`j = 0`: never) -/
def callback (j : Nat) (lg : Log κ ν) (k : κ) (v : ν) : Log κ ν :=
  if lg.needStop then lg
  else { needStop := lg.calls + 1 == j, visited := lg.visited ++ [(k, v)], calls := lg.calls + 1 }

/-- the local variables of `p_tree_foreach` plus the heap and the callback log -/
structure St (κ ν : Type) where
  heap : Heap κ ν
  cur : Option Nat          -- cur_node
  modCounter : Int          -- mod_counter (pint)
  log : Log κ ν             -- need_stop / visited / calls
deriving DecidableEq, Repr

/-- `while (prev_node->right != NULL && prev_node->right != cur_node) prev_node = prev_node->right;`
    started with `prev_node = p`; the result is the final `prev_node`. -/
def walk (h : Heap κ ν) (c : Nat) : Nat → Nat → Res Nat
  | 0, _ => .timeout
  | f + 1, p =>
    match h.get p with
    | none => .fault                                    -- prev_node->right on a missing node
    | some pn =>
      match pn.right with
      | none => .done p                                 -- prev_node->right == NULL
      | some r => if r = c then .done p                 -- prev_node->right == cur_node
                  else walk h c f r                     -- prev_node = prev_node->right

/-- how one pass through `while (cur_node != NULL) { … }` ends -/
inductive Ctl (σ : Type) where
  | next (s : σ)     -- reached the end of the body: evaluate the condition again
  | ret (s : σ)      -- the function returned (condition false, or the `return` in the body)
deriving DecidableEq, Repr

/-- one evaluation of the outer loop condition followed by one execution of the body;
    `wf` is the fuel for the inner loop -/
def body (j wf : Nat) (s : St κ ν) : Res (Ctl (St κ ν)) :=
  match s.cur with
  | none => .done (.ret s)                                          -- while (cur_node != NULL)
  | some c =>
    match s.heap.get c with
    | none => .fault                                                -- cur_node->left
    | some cn =>
      match cn.left with
      | none =>                                                     -- if (cur_node->left == NULL)
        .done (.next { s with
          log := callback j s.log cn.key cn.val                     --   visit unless need_stop
          cur := cn.right })                                        --   cur_node = cur_node->right
      | some l =>                                                   -- else: prev_node = cur_node->left
        match walk s.heap c wf l with                               --   inner while
        | .fault => .fault
        | .timeout => .timeout
        | .done p =>
          match s.heap.get p with
          | none => .fault
          | some pn =>
            match pn.right with
            | none =>                                               --   if (prev_node->right == NULL)
              .done (.next { s with
                heap := s.heap.set p { pn with right := some c }    --     prev_node->right = cur_node
                cur := some l                                       --     cur_node = cur_node->left
                modCounter := s.modCounter + 1 })                   --     ++mod_counter
            | some _ =>                                             --   else
              let log' := callback j s.log cn.key cn.val            --     visit unless need_stop
              let s' : St κ ν :=
                { heap := s.heap.set p { pn with right := none }    --     prev_node->right = NULL
                  cur := cn.right                                   --     cur_node = cur_node->right
                  modCounter := s.modCounter - 1                    --     --mod_counter
                  log := log' }
              if log'.needStop && s'.modCounter == 0 then
                .done (.ret s')                                     --     return
              else .done (.next s')

/-- the outer `while` loop -/
def loop (j wf : Nat) : Nat → St κ ν → Res (St κ ν)
  | 0, _ => .timeout
  | f + 1, s =>
    match body j wf s with
    | .done (.next s') => loop j wf f s'
    | .done (.ret s') => .done s'
    | .fault => .fault
    | .timeout => .timeout

/-- `p_tree_foreach (tree, cb_j, …)` with `tree->root = root`: the final local state.
    `fuel` bounds both the outer and each inner loop. -/
def morrisRun (h : Heap κ ν) (root : Option Nat) (j fuel : Nat) : Res (St κ ν) :=
  match root with
  | none => .done ⟨h, none, 0, ⟨false, [], 0⟩⟩               -- if (tree->root == NULL) return
  | some r => loop j fuel fuel ⟨h, some r, 0, ⟨false, [], 0⟩⟩

/-- … projected to what can be observed: the heap afterwards and the pairs the callback saw -/
def morrisForeach (h : Heap κ ν) (root : Option Nat) (j fuel : Nat) :
    Res (Heap κ ν × List (κ × ν)) :=
  (morrisRun h root j fuel).map fun s => (s.heap, s.log.visited)

/-! ### representation predicate -/

/-- a tree shape together with the address of every node -/
inductive PT (κ ν : Type) where
  | nil
  | node (a : Nat) (l : PT κ ν) (k : κ) (v : ν) (r : PT κ ν)
deriving DecidableEq, Repr

namespace PT

/-- forget the addresses -/
def erase : PT κ ν → BT κ ν
  | nil => .nil
  | node _ l k v r => .node (erase l) k v (erase r)

/-- the node addresses, in in-order -/
def addrs : PT κ ν → List Nat
  | nil => []
  | node a l _ _ r => addrs l ++ a :: addrs r

def size : PT κ ν → Nat
  | nil => 0
  | node _ l _ _ r => size l + 1 + size r

/-- address of the right-most node of `node a _ _ _ r` -/
def rmost (a : Nat) : PT κ ν → Nat
  | nil => a
  | node b _ _ _ r => rmost b r

/-- outer-loop iterations `p_tree_foreach` spends in a subtree (when it does not `return` early):
    one per node without left child, two per node with one -/
def iters : PT κ ν → Nat
  | nil => 0
  | node _ nil _ _ r => iters r + 1
  | node _ (node b ll lk lv lr) _ _ r => iters (node b ll lk lv lr) + (iters r + 1) + 1

end PT

/-- `ReprP h p t ret`: following `left`/`right` from pointer `p` in `h` one finds exactly the nodes of
    `t` (addresses, keys, values, `NULL` at every missing left child), and the one right link that
    leaves `t` at its right end — `p` itself if `t` is empty — holds `ret`. -/
def ReprP (h : Heap κ ν) : Option Nat → PT κ ν → Option Nat → Prop
  | p, .nil, ret => p = ret
  | p, .node a l k v r, ret =>
    p = some a ∧ ∃ n, h.get a = some n ∧ n.key = k ∧ n.val = v ∧
      ReprP h n.left l none ∧ ReprP h n.right r ret

/-- `Repr h root t`: the region of `h` reachable from `root` is a tree of pairwise distinct nodes
    with the shape and contents of `t`, every leaf link being `NULL`. -/
def Repr (h : Heap κ ν) (root : Option Nat) (t : BT κ ν) : Prop :=
  ∃ pt : PT κ ν, pt.erase = t ∧ ReprP h root pt none ∧ pt.addrs.Nodup

end PV.Tree.Morris

import PV.Model.Tree.BST
import PV.Model.Tree.AVL
import PV.Model.Tree.RB
import PV.Spec.SortedMap
/-!
`PTree` level (`/repo/src/ptree.c`): dispatch to the variant, `nnodes` bookkeeping, lookup,
traversal, clear — as one `step` per public call, for each variant, and the same for the spec.
-/
namespace PV.Tree

variable {κ ν : Type}

inductive Op (κ ν : Type) where
  | ins (k : κ) (v : ν)      -- p_tree_insert
  | insf (k : κ) (v : ν)     -- p_tree_insert while the allocator is out of memory (the node allocation, if one is needed, fails)
  | rem (k : κ)              -- p_tree_remove
  | get (k : κ)              -- p_tree_lookup
  | each (j : Nat)           -- p_tree_foreach, callback asks to stop at its j-th call (0 = never)
  | clear                    -- p_tree_clear
  | count                    -- p_tree_get_nnodes

/-- what a call lets the user observe; `d` = objects handed to the destroy notifiers, in order -/
inductive Out (κ ν : Type) where
  | ins (n : Int) (d : List (κ × ν))
  | rem (found : Bool) (n : Int) (d : List (κ × ν))
  | got (v : Option ν)
  | visited (ps : List (κ × ν))
  | cleared (n : Int) (d : List (κ × ν))
  | num (n : Int)

/-- `p_tree_new_full` gives a tree exactly when the type is one of the three (`P_TREE_TYPE_BINARY = 0 … P_TREE_TYPE_AVL = 2`),
    a comparator is given and the allocation of the handle succeeds; otherwise NULL (and nothing was allocated) -/
def newFull (ty : Int) (funcGiven allocOk : Bool) : Bool :=
  (decide (0 ≤ ty) && decide (ty ≤ 2)) && funcGiven && allocOk

/-! ### spec -/
def specStep (cmp : κ → κ → Ordering) (l : List (κ × ν)) : Op κ ν → List (κ × ν) × Out κ ν
  | .ins k v => let l' := SM.insert cmp l k v; (l', .ins l'.length (SM.find cmp l k).toList)
  | .insf k v =>             -- replacing needs no memory; a new key cannot be added: nothing changes, nothing is destroyed
    if (SM.find cmp l k).isSome then
      let l' := SM.insert cmp l k v; (l', .ins l'.length (SM.find cmp l k).toList)
    else (l, .ins l.length [])
  | .rem k => let l' := SM.erase cmp l k; (l', .rem (SM.find cmp l k).isSome l'.length (SM.find cmp l k).toList)
  | .get k => (l, .got (SM.lookup cmp l k))
  | .each j => (l, .visited (if j = 0 then l else l.take j))
  | .clear => ([], .cleared 0 l)
  | .count => (l, .num l.length)

def specRun (cmp : κ → κ → Ordering) (l : List (κ × ν)) : List (Op κ ν) → List (κ × ν) × List (Out κ ν)
  | [] => (l, [])
  | op :: ops =>
    let (l', o) := specStep cmp l op
    let (l'', os) := specRun cmp l' ops
    (l'', o :: os)

/-! ### plain BST -/
def bstStep (cmp : κ → κ → Ordering) (s : BT κ ν × Int) : Op κ ν → (BT κ ν × Int) × Out κ ν
  | .ins k v =>
    let (t', a, d) := s.1.ins cmp k v
    let n' := if a then s.2 + 1 else s.2
    ((t', n'), .ins n' d)
  | .insf k v =>
    -- the search loop of p_tree_bst_insert ends on a node with an equal key (replace path: no allocation) or on a NULL
    -- link, where `p_malloc0` fails: `*cur_node` stays NULL, FALSE is returned, `nnodes` is not touched
    if (s.1.lookup cmp k).isSome then
      let (t', a, d) := s.1.ins cmp k v
      let n' := if a then s.2 + 1 else s.2
      ((t', n'), .ins n' d)
    else (s, .ins s.2 [])
  | .rem k =>
    let (t', f, d) := s.1.del cmp k
    let n' := if f then s.2 - 1 else s.2
    ((t', n'), .rem f n' d)
  | .get k => (s, .got (s.1.lookup cmp k))
  | .each j => (s, .visited (s.1.foreachStop j))
  | .clear => ((.nil, s.2 - s.1.toList.length), .cleared (s.2 - s.1.toList.length) s.1.toList)
  | .count => (s, .num s.2)

def bstRun (cmp : κ → κ → Ordering) (s : BT κ ν × Int) : List (Op κ ν) → (BT κ ν × Int) × List (Out κ ν)
  | [] => (s, [])
  | op :: ops =>
    let (s', o) := bstStep cmp s op
    let (s'', os) := bstRun cmp s' ops
    (s'', o :: os)

/-! ### AVL (`none` = the C code would dereference NULL) -/
def avlStep (cmp : κ → κ → Ordering) (s : AT κ ν × Int) : Op κ ν → Option ((AT κ ν × Int) × Out κ ν)
  | .ins k v =>
    (s.1.ins cmp k v).map fun (t', _, a, d) =>
      let n' := if a then s.2 + 1 else s.2
      ((t', n'), .ins n' d)
  | .insf k v =>             -- as for the plain BST: p_tree_avl_insert returns FALSE before any balance factor is touched
    if (s.1.toBT.lookup cmp k).isSome then
      (s.1.ins cmp k v).map fun (t', _, a, d) =>
        let n' := if a then s.2 + 1 else s.2
        ((t', n'), .ins n' d)
    else some (s, .ins s.2 [])
  | .rem k =>
    (s.1.del cmp k).map fun (t', _, f, d) =>
      let n' := if f then s.2 - 1 else s.2
      ((t', n'), .rem f n' d)
  | .get k => some (s, .got (s.1.toBT.lookup cmp k))
  | .each j => some (s, .visited (s.1.toBT.foreachStop j))
  | .clear => some ((.nil, s.2 - s.1.toList.length), .cleared (s.2 - s.1.toList.length) s.1.toList)
  | .count => some (s, .num s.2)

def avlRun (cmp : κ → κ → Ordering) (s : AT κ ν × Int) : List (Op κ ν) → Option ((AT κ ν × Int) × List (Out κ ν))
  | [] => some (s, [])
  | op :: ops =>
    match avlStep cmp s op with
    | none => none
    | some (s', o) =>
      match avlRun cmp s' ops with
      | none => none
      | some (s'', os) => some (s'', o :: os)

/-! ### red-black -/
def rbStep (cmp : κ → κ → Ordering) (s : RT κ ν × Int) : Op κ ν → Option ((RT κ ν × Int) × Out κ ν)
  | .ins k v =>
    (s.1.ins cmp k v).map fun (t', a, d) =>
      let n' := if a then s.2 + 1 else s.2
      ((t', n'), .ins n' d)
  | .insf k v =>             -- p_tree_rb_insert returns FALSE before any colour is touched
    if (s.1.toBT.lookup cmp k).isSome then
      (s.1.ins cmp k v).map fun (t', a, d) =>
        let n' := if a then s.2 + 1 else s.2
        ((t', n'), .ins n' d)
    else some (s, .ins s.2 [])
  | .rem k =>
    (s.1.del cmp k).map fun (t', f, d) =>
      let n' := if f then s.2 - 1 else s.2
      ((t', n'), .rem f n' d)
  | .get k => some (s, .got (s.1.toBT.lookup cmp k))
  | .each j => some (s, .visited (s.1.toBT.foreachStop j))
  | .clear => some ((.nil, s.2 - s.1.toList.length), .cleared (s.2 - s.1.toList.length) s.1.toList)
  | .count => some (s, .num s.2)

def rbRun (cmp : κ → κ → Ordering) (s : RT κ ν × Int) : List (Op κ ν) → Option ((RT κ ν × Int) × List (Out κ ν))
  | [] => some (s, [])
  | op :: ops =>
    match rbStep cmp s op with
    | none => none
    | some (s', o) =>
      match rbRun cmp s' ops with
      | none => none
      | some (s'', os) => some (s'', o :: os)

end PV.Tree

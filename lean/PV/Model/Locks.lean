import PV.Model.Atomics
/-!
# N-thread transition systems of the lock implementations (C01) and of the bracketed atomics (C04)

Thread identifiers are natural numbers: *any* number of threads; a state maps every identifier to a
program counter.  Every relation below is an interleaving semantics: one step = one call of an atomic
builtin (lock-free models), one native pthread call (posix / sim), or one single load / store of the
shared word (bracketed bodies of `patomic-sim.c`).

(a) `SStep`   — CAS spinlock of `pspinlock-c11.c` / `pspinlock-sync.c`.  The steps are *defined through*
               `PV.Atomics.interp` of the generated records (`SpinImpl`): expected / desired values, the
               loop condition and the value stored by unlock are whatever the translator read off the
               source, not constants of this file.
(b) `MStep`   — abstract pthread mutex (`owner : Option Tid`; the POSIX contract, trusted) composed with
               the return-code mapping of the `pmutex-posix.c` wrappers (`MutexFn.ret`, generated).
               `pspinlock-sim.c` is the same machine through its delegation record.
(c) `BStep`   — threads executing `lock; <body as separate loads and stores>; unlock` over one global
               mutex (`patomic-sim.c`); generic in the body (`Res`), reused wherever a lock brackets a
               read-modify-write.
(d) a small happens-before model for the visibility clause.
-/
namespace PV.Locks
open PV.Atomics

abbrev Tid := Nat

def upd {α : Type} (f : Tid → α) (t : Tid) (v : α) : Tid → α := fun u => if u = t then v else f u

@[simp] theorem upd_same {α : Type} (f : Tid → α) (t : Tid) (v : α) : upd f t v t = v := by simp [upd]
@[simp] theorem upd_other {α : Type} (f : Tid → α) (t u : Tid) (v : α) (h : u ≠ t) : upd f t v u = f u := by
  simp [upd, h]

/-! ## (a) CAS spinlock -/

abbrev W32 := BitVec 32

inductive PC | idle | spin | held
  deriving DecidableEq, Repr

structure SState where
  word : W32
  pc : Tid → PC

inductive Lbl
  | callLock (t : Tid)
  | cas (t : Tid) (ok : Bool)          -- one iteration of the spin loop
  | try_ (t : Tid) (ok : Bool)         -- a complete p_spinlock_trylock call
  | unlock (t : Tid)
  | rogueUnlock (t : Tid)
  deriving DecidableEq, Repr

/-- where a thread is after a CAS of the spin loop returned `b`: the loop repeats while the result
    equals the generated `loopWhile`; otherwise the function returns `lockRet` -/
def afterCas (p : SpinImpl) (b : Bool) : PC :=
  if b = p.loopWhile then .spin else if p.lockRet then .held else .idle

/-- `rogue = false`: the usage discipline (only a holder calls unlock); `rogue = true` additionally
    lets any non-holder call unlock. -/
inductive SStep (p : SpinImpl) (rogue : Bool) : SState → Lbl → SState → Prop
  | callLock (s : SState) (t : Tid) : s.pc t = .idle →
      SStep p rogue s (.callLock t) ⟨s.word, upd s.pc t .spin⟩
  | cas (s : SState) (t : Tid) (w' : W32) (b : Bool) : s.pc t = .spin →
      interp p.lockCas s.word 0 0 = some (w', .bool b) →
      SStep p rogue s (.cas t b) ⟨w', upd s.pc t (afterCas p b)⟩
  | casSpurious (s : SState) (t : Tid) : s.pc t = .spin → p.lockCas.weak = some true →
      SStep p rogue s (.cas t false) ⟨s.word, upd s.pc t (afterCas p false)⟩
  | try_ (s : SState) (t : Tid) (w' : W32) (b : Bool) : s.pc t = .idle →
      interp p.tryCas s.word 0 0 = some (w', .bool b) →
      SStep p rogue s (.try_ t b) ⟨w', upd s.pc t (if b then .held else .idle)⟩
  | trySpurious (s : SState) (t : Tid) : s.pc t = .idle → p.tryCas.weak = some true →
      SStep p rogue s (.try_ t false) ⟨s.word, upd s.pc t .idle⟩
  | unlock (s : SState) (t : Tid) (w' : W32) : s.pc t = .held →
      interp p.unlock s.word 0 0 = some (w', .void) →
      SStep p rogue s (.unlock t) ⟨w', upd s.pc t .idle⟩
  | rogueUnlock (s : SState) (t : Tid) (w' : W32) : rogue = true → s.pc t ≠ .held →
      interp p.unlock s.word 0 0 = some (w', .void) →
      SStep p rogue s (.rogueUnlock t) ⟨w', s.pc⟩

/-- `p_spinlock_new`: the word comes from `p_malloc0` (checked by the translator: `zeroInit`) -/
def sInit : SState := ⟨0, fun _ => .idle⟩

inductive SReach (p : SpinImpl) (rogue : Bool) : SState → Prop
  | init : SReach p rogue sInit
  | step {s s' : SState} {l : Lbl} : SReach p rogue s → SStep p rogue s l s' → SReach p rogue s'

/-- which store does a successful acquisition read?  Reachability with a ghost: the label of the last
    step that *wrote* the lock word -/
inductive SReachG (p : SpinImpl) : SState → Option Lbl → Prop
  | init : SReachG p sInit none
  | step {s s' : SState} {l : Lbl} {lw : Option Lbl} : SReachG p s lw → SStep p false s l s' →
      SReachG p s' (match l with
        | .cas _ true => some l
        | .try_ _ true => some l
        | .unlock _ => some l
        | _ => lw)

/-- lock returned / trylock returned TRUE, and unlock not yet called -/
def SState.holds (s : SState) (t : Tid) : Prop := s.pc t = .held

/-- What the exclusion proof needs from the generated records.  Each field is discharged on the
    concrete records in `PV.Props.C01`; if the source changes so that one of them is false, that
    instance no longer compiles. -/
structure SpinGood (p : SpinImpl) : Prop where
  lockCas0 : interp p.lockCas 0#32 0 0 = some (1#32, Ret.bool true)
  lockCasN : ∀ w : BitVec 32, w ≠ 0#32 → interp p.lockCas w 0 0 = some (w, Ret.bool false)
  tryCas0 : interp p.tryCas 0#32 0 0 = some (1#32, Ret.bool true)
  tryCasN : ∀ w : BitVec 32, w ≠ 0#32 → interp p.tryCas w 0 0 = some (w, Ret.bool false)
  unlock : ∀ w : BitVec 32, interp p.unlock w 0 0 = some (0#32, Ret.void)
  loop : p.loopWhile = false
  lockRet : p.lockRet = true
  tryStrong : p.tryCas.weak ≠ some true
  fresh : p.expectedFresh = true
  sameWord : p.sameWord = true
  zeroInit : p.zeroInit = true

/-! ### executable single-step functions (used by the driver; same `interp` as the relation) -/

/-- one complete `p_spinlock_lock` call by a thread running alone: `none` = it spins for ever -/
def lockAlone (p : SpinImpl) : Nat → W32 → Option (W32 × Bool)
  | 0, _ => none
  | fuel + 1, w =>
    match interp p.lockCas w 0 0 with
    | some (w', .bool b) => if b = p.loopWhile then lockAlone p fuel w' else some (w', p.lockRet)
    | _ => none

def tryAlone (p : SpinImpl) (w : W32) : Option (W32 × Bool) :=
  match interp p.tryCas w 0 0 with
  | some (w', .bool b) => some (w', b)
  | _ => none

def unlockAlone (p : SpinImpl) (w : W32) : Option (W32 × Bool) :=
  match interp p.unlock w 0 0 with
  | some (w', .void) => some (w', p.unlockRet)
  | _ => none

/-! ## (b) pthread mutex (trusted POSIX contract) + wrapper mapping -/

inductive MPC | idle | held
  deriving DecidableEq, Repr

structure MState where
  owner : Option Tid
  pc : Tid → MPC

inductive NativeFn | lock | trylock | unlock
  deriving DecidableEq, Repr

def nativeOf (name : String) : Option NativeFn :=
  if name = "pthread_mutex_lock" then some .lock
  else if name = "pthread_mutex_trylock" then some .trylock
  else if name = "pthread_mutex_unlock" then some .unlock
  else none

/-- POSIX `pthread_mutex_{lock,trylock,unlock}` on one valid mutex: `Native fn owner caller code owner'`.
    lock blocks (no step) while another thread owns the mutex; trylock answers EBUSY instead (and only then);
    an unsuccessful call (any non-zero code) leaves the mutex unchanged; unlock by the owner releases.
    (Relocking by the owner and unlocking by a non-owner are undefined for the default mutex type
    and have no rule.) -/
inductive Native (ebusy : Int) : NativeFn → Option Tid → Tid → Int → Option Tid → Prop
  | lockAcquire (t : Tid) : Native ebusy .lock none t 0 (some t)
  | lockFail (o : Option Tid) (t : Tid) (c : Int) : c ≠ 0 → Native ebusy .lock o t c o
  | tryAcquire (t : Tid) : Native ebusy .trylock none t 0 (some t)
  | tryBusy (u t : Tid) : Native ebusy .trylock (some u) t ebusy (some u)
  | tryFail (o : Option Tid) (t : Tid) (c : Int) : c ≠ 0 → c ≠ ebusy → Native ebusy .trylock o t c o
  | unlockRelease (t : Tid) : Native ebusy .unlock (some t) t 0 none
  | unlockFail (o : Option Tid) (t : Tid) (c : Int) : c ≠ 0 → Native ebusy .unlock o t c o

inductive MLbl
  | lock (t : Tid) (code : Int) (ret : Bool)
  | try_ (t : Tid) (code : Int) (ret : Bool)
  | unlock (t : Tid) (code : Int) (ret : Bool)
  deriving DecidableEq, Repr

inductive MStep (ebusy : Int) (m : MutexImpl) : MState → MLbl → MState → Prop
  | lock (s : MState) (t : Tid) (c : Int) (o' : Option Tid) (k : NativeFn) : s.pc t = .idle →
      nativeOf m.lock.native = some k → Native ebusy k s.owner t c o' →
      MStep ebusy m s (.lock t c (m.lock.ret c)) ⟨o', upd s.pc t (if m.lock.ret c then .held else .idle)⟩
  | try_ (s : MState) (t : Tid) (c : Int) (o' : Option Tid) (k : NativeFn) : s.pc t = .idle →
      nativeOf m.trylock.native = some k → Native ebusy k s.owner t c o' →
      MStep ebusy m s (.try_ t c (m.trylock.ret c)) ⟨o', upd s.pc t (if m.trylock.ret c then .held else .idle)⟩
  | unlock (s : MState) (t : Tid) (c : Int) (o' : Option Tid) (k : NativeFn) : s.pc t = .held →
      nativeOf m.unlock.native = some k → Native ebusy k s.owner t c o' →
      MStep ebusy m s (.unlock t c (m.unlock.ret c)) ⟨o', upd s.pc t .idle⟩

def mInit : MState := ⟨none, fun _ => .idle⟩

inductive MReach (ebusy : Int) (m : MutexImpl) : MState → Prop
  | init : MReach ebusy m mInit
  | step {s s' : MState} {l : MLbl} : MReach ebusy m s → MStep ebusy m s l s' → MReach ebusy m s'

def MState.holds (s : MState) (t : Tid) : Prop := s.pc t = .held

structure MutexGood (m : MutexImpl) : Prop where
  lockNative : nativeOf m.lock.native = some .lock
  tryNative : nativeOf m.trylock.native = some .trylock
  unlockNative : nativeOf m.unlock.native = some .unlock
  lockRet : ∀ c, m.lock.ret c = true ↔ c = 0
  tryRet : ∀ c, m.trylock.ret c = true ↔ c = 0
  unlockRet : ∀ c, m.unlock.ret c = true ↔ c = 0

/-- the wrappers reached through `pspinlock-sim.c` (each function returns the delegate's result) -/
def simSpinMutex (i : SimSpinImpl) (m : MutexImpl) : MutexImpl :=
  let pick (n : String) : MutexFn :=
    if n = "p_mutex_lock" then m.lock
    else if n = "p_mutex_trylock" then m.trylock
    else if n = "p_mutex_unlock" then m.unlock
    else { cname := n, native := "?", cmp := .ne, const := 0 }
  { lock := pick i.lockDelegate, trylock := pick i.tryDelegate, unlock := pick i.unlockDelegate }

/-! ### executable single-call functions (used by the driver) -/

/-- result code of a native call made by thread `t` on a mutex owned by `owner`, for a *valid* mutex
    (no spurious errors): `none` = the call does not return (lock on a held mutex) or is undefined
    (unlock by a non-owner, relock by the owner) -/
def nativeAlone (ebusy : Int) (fn : NativeFn) (owner : Option Tid) (t : Tid) : Option (Int × Option Tid) :=
  match fn, owner with
  | .lock, none => some (0, some t)
  | .lock, some _ => none
  | .trylock, none => some (0, some t)
  | .trylock, some u => some (ebusy, some u)
  | .unlock, some u => if u = t then some (0, none) else none
  | .unlock, none => none

/-- one wrapper call: (wrapper's return value, native code, new owner) -/
def wrapperAlone (ebusy : Int) (f : MutexFn) (owner : Option Tid) (t : Tid) : Option (Bool × Int × Option Tid) :=
  match nativeOf f.native with
  | none => none
  | some fn =>
    match nativeAlone ebusy fn owner t with
    | none => none
    | some (c, o') => some (f.ret c, c, o')

/-- `p_mutex_new` (hand transliteration): NULL when `pthread_mutex_init` reports an error -/
def mutexNewOk (initCode : Int) : Bool := initCode == 0

/-! ## (b') several lock objects

`p_spinlock_new` / `p_mutex_new` hand out objects with a lock word / native mutex of their own (c11 / sync: the
word is a member of the object; posix: `hdl` is a member; sim: `SimSpinImpl.freshMutex`, generated).  A program
using objects `0, 1, 2, …` is the product machine: every step is a step of exactly one object and leaves all the
others as they are.  Threads are shared: the same thread may hold several objects. -/

def updObj {σ : Type} (f : Nat → σ) (i : Nat) (v : σ) : Nat → σ := fun j => if j = i then v else f j

inductive PSStep (p : SpinImpl) : (Nat → SState) → (Nat → SState) → Prop
  | on (f : Nat → SState) (i : Nat) (l : Lbl) (s' : SState) : SStep p false (f i) l s' → PSStep p f (updObj f i s')

inductive PSReach (p : SpinImpl) : (Nat → SState) → Prop
  | init : PSReach p (fun _ => sInit)
  | step {f g : Nat → SState} : PSReach p f → PSStep p f g → PSReach p g

inductive PMStep (ebusy : Int) (m : MutexImpl) : (Nat → MState) → (Nat → MState) → Prop
  | on (f : Nat → MState) (i : Nat) (l : MLbl) (s' : MState) : MStep ebusy m (f i) l s' → PMStep ebusy m f (updObj f i s')

inductive PMReach (ebusy : Int) (m : MutexImpl) : (Nat → MState) → Prop
  | init : PMReach ebusy m (fun _ => mInit)
  | step {f g : Nat → MState} : PMReach ebusy m f → PMStep ebusy m f g → PMReach ebusy m g

/-! ## (c) bracketed bodies over one global mutex -/

inductive BPC (n : Nat) (ρ : Type)
  | idle
  | waiting (prog : Res n ρ)      -- inside `p_mutex_lock`, not yet acquired
  | inBody (r : Res n ρ)          -- holder; `r` is what remains of the body
  | unlocking (ret : ρ)           -- body finished, `p_mutex_unlock` not yet executed

structure BState (n : Nat) (ρ : Type) where
  word : BitVec n
  owner : Option Tid
  pc : Tid → BPC n ρ
  /-- ghost: operations in the order of their lock acquisitions -/
  acq : List (Tid × Res n ρ)
  /-- ghost: return values of the completed bodies, in completion order -/
  done : List (Tid × ρ)

/-- `Ops` restricts which programs a thread may start (e.g. "any `p_atomic_*` of the table") -/
inductive BStep {n : Nat} {ρ : Type} (Ops : Res n ρ → Prop) : BState n ρ → BState n ρ → Prop
  | call (s : BState n ρ) (t : Tid) (prog : Res n ρ) : s.pc t = .idle → Ops prog →
      BStep Ops s { s with pc := upd s.pc t (.waiting prog) }
  | lock (s : BState n ρ) (t : Tid) (prog : Res n ρ) : s.pc t = .waiting prog → s.owner = none →
      BStep Ops s { s with owner := some t, pc := upd s.pc t (.inBody prog), acq := s.acq ++ [(t, prog)] }
  | load (s : BState n ρ) (t : Tid) (k : BitVec n → Res n ρ) : s.pc t = .inBody (.load k) →
      BStep Ops s { s with pc := upd s.pc t (.inBody (k s.word)) }
  | store (s : BState n ρ) (t : Tid) (v : BitVec n) (k : Res n ρ) : s.pc t = .inBody (.store v k) →
      BStep Ops s { s with word := v, pc := upd s.pc t (.inBody k) }
  | fin (s : BState n ρ) (t : Tid) (r : ρ) : s.pc t = .inBody (.done r) →
      BStep Ops s { s with pc := upd s.pc t (.unlocking r), done := s.done ++ [(t, r)] }
  | unlock (s : BState n ρ) (t : Tid) (r : ρ) : s.pc t = .unlocking r →
      BStep Ops s { s with owner := none, pc := upd s.pc t .idle }

def bInit {n : Nat} {ρ : Type} (w0 : BitVec n) : BState n ρ := ⟨w0, none, fun _ => .idle, [], []⟩

inductive BReach {n : Nat} {ρ : Type} (Ops : Res n ρ → Prop) (w0 : BitVec n) : BState n ρ → Prop
  | init : BReach Ops w0 (bInit w0)
  | step {s s' : BState n ρ} : BReach Ops w0 s → BStep Ops s s' → BReach Ops w0 s'

/-- executing the operations one after the other, each indivisibly, from word `w`:
    final word and the list of return values -/
def seqRun {n : Nat} {ρ : Type} (w : BitVec n) : List (Tid × Res n ρ) → Option (BitVec n × List (Tid × ρ))
  | [] => some (w, [])
  | (t, prog) :: rest =>
    match runRes prog w with
    | none => none
    | some (w', r) =>
      match seqRun w' rest with
      | none => none
      | some (wf, rs) => some (wf, (t, r) :: rs)

/-! ## (e) lock-free back-ends: one builtin call = one step -/

/-- a logged operation of the lock-free models -/
structure LOp (n : Nat) where
  impl : AtomicImpl
  a : BitVec n
  b : BitVec n

structure LState (n : Nat) where
  word : BitVec n
  ops : List (LOp n)
  rets : List (Ret n)

/-- interleaving model of the lock-free back-ends: a step is one complete operation (= one builtin call)
    of some thread, with any arguments -/
inductive LStep (tbl : List AtomicImpl) {n : Nat} : LState n → LState n → Prop
  | op (s : LState n) (i : AtomicImpl) (a b w' : BitVec n) (r : Ret n) : i ∈ tbl →
      interp i s.word a b = some (w', r) → LStep tbl s ⟨w', s.ops ++ [⟨i, a, b⟩], s.rets ++ [r]⟩

inductive LReach (tbl : List AtomicImpl) {n : Nat} (w0 : BitVec n) : LState n → Prop
  | init : LReach tbl w0 ⟨w0, [], []⟩
  | step {s s' : LState n} : LReach tbl w0 s → LStep tbl s s' → LReach tbl w0 s'

/-- executing spec operations one after the other -/
def specRun {n : Nat} (w : BitVec n) : List (LOp n) → BitVec n × List (Ret n)
  | [] => (w, [])
  | o :: rest =>
    let x := spec o.impl.op w o.a o.b
    let y := specRun x.1 rest
    (y.1, x.2 :: y.2)

/-! ## (d) happens-before for one lock word

Events of an execution in which the lock is taken `k = 0, 1, 2, …` times (numbered in the order of the
successful acquisitions, which is the modification order of the lock word): the acquiring
read-modify-write `acq k`, the accesses `body k i` of the critical section, the releasing store `rel k`.
Program order relates the events of one critical section (they are executed by one thread in this
order).  `rel k` is read by `acq (k+1)` (`PV.Props.C01.next_acquire_reads_last_release` shows this for
the spinlock machine).  That pair *synchronises* iff the store is release-or-stronger and the RMW is
acquire-or-stronger.  This is a simplification of C11 adequate for one lock word (DESIGN C01). -/

inductive Ev
  | acq (k : Nat)
  | body (k i : Nat)
  | rel (k : Nat)
  deriving DecidableEq, Repr

inductive HB (relOK acqOK : Bool) : Ev → Ev → Prop
  | po_acq_body (k i : Nat) : HB relOK acqOK (.acq k) (.body k i)
  | po_body_body (k i j : Nat) : i < j → HB relOK acqOK (.body k i) (.body k j)
  | po_body_rel (k i : Nat) : HB relOK acqOK (.body k i) (.rel k)
  | po_acq_rel (k : Nat) : HB relOK acqOK (.acq k) (.rel k)
  | sw (k : Nat) : relOK = true → acqOK = true → HB relOK acqOK (.rel k) (.acq (k + 1))
  | trans {a b c : Ev} : HB relOK acqOK a b → HB relOK acqOK b c → HB relOK acqOK a c

/-- the critical section an event belongs to -/
def evCs : Ev → Nat
  | .acq k => k
  | .body k _ => k
  | .rel k => k

/-- memory model under which a record is judged -/
inductive MemModel
  | c11      -- portable C11 / GCC builtin contract
  | tso      -- x86-TSO hardware + volatile accesses not reordered by the compiler: every store is a
             -- release, every load an acquire; only store→load order needs a fence
  deriving DecidableEq, Repr

/-- is the unlock access of this record a release (or stronger)? -/
def relOK (mm : MemModel) (i : AtomicImpl) : Bool :=
  match i.builtin with
  | .atomicStore => match i.order with
    | some o => o.isRelease
    | none => false
  | .plainStore => i.fenceBefore || (mm == .tso && i.fenceAfter)
  | _ => false

/-- is the successful CAS of this record an acquire (or stronger)? -/
def acqOK (i : AtomicImpl) : Bool :=
  match i.builtin with
  | .atomicCas => match i.order with
    | some o => o.isAcquire
    | none => false
  | .syncBoolCas => true            -- `__sync_*` builtins are full barriers (GCC manual)
  | _ => false

end PV.Locks

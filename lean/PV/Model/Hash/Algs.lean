import PV.Model.Hash.MD
import PV.Model.Hash.Compress
/-!
# The six Merkle–Damgård instances (C11)

Every parameter comes from `PV.Generated.HashMD` (the current C source): block size, counter
width, order of the length words, whether `swap_bytes` reverses on this platform, pad array,
initial values, number of hash words converted at the end.
-/
namespace PV.Hash
open PV.Generated.HashMD

/-- the part shared by the three files with `puint32` words -/
def alg32 (B : Nat) (swapOnLE lowFirst : Bool) (pad : ByteArray) (iv : Array UInt32) (outWords : Nat)
    (block : Array UInt32 → Array UInt32 → Array UInt32) : Alg where
  σ := Array UInt32
  κ := UInt32 × UInt32
  B := B
  iv := iv
  k0 := (0, 0)
  kLeft := fun k => (k.2 &&& UInt32.ofNat (B - 1)).toNat
  kAdd := kAdd32
  swap := swapBytes32 swapOnLE
  proc := fun h buf => block h (nativeWords32 buf)
  putLen := putLen32 lowFirst
  pad := pad
  outSwap := fun h => swapHash32 swapOnLE h outWords
  hashBytes := bytesOfWords32

def alg64 (B : Nat) (swapOnLE lowFirst : Bool) (pad : ByteArray) (iv : Array UInt64) (outWords : Nat)
    (block : Array UInt64 → Array UInt64 → Array UInt64) : Alg where
  σ := Array UInt64
  κ := UInt64 × UInt64
  B := B
  iv := iv
  k0 := (0, 0)
  kLeft := fun k => (k.2 &&& UInt64.ofNat (B - 1)).toNat
  kAdd := kAdd64
  swap := swapBytes64 swapOnLE
  proc := fun h buf => block h (nativeWords64 buf)
  putLen := putLen64 lowFirst
  pad := pad
  outSwap := fun h => swapHash64 swapOnLE h outWords
  hashBytes := bytesOfWords64

def md5 : Alg := alg32 md5BlockSize md5SwapOnLE md5LenLowFirst md5Pad md5IV md5OutWords md5Block
def sha1 : Alg := alg32 sha1BlockSize sha1SwapOnLE sha1LenLowFirst sha1Pad sha1IV sha1OutWords sha1Block
def sha224 : Alg := alg32 sha256BlockSize sha256SwapOnLE sha256LenLowFirst sha256Pad sha224IV sha224OutWords sha256Block
def sha256 : Alg := alg32 sha256BlockSize sha256SwapOnLE sha256LenLowFirst sha256Pad sha256IV sha256OutWords sha256Block
def sha384 : Alg := alg64 sha512BlockSize sha512SwapOnLE sha512LenLowFirst sha512Pad sha384IV sha384OutWords sha512Block
def sha512 : Alg := alg64 sha512BlockSize sha512SwapOnLE sha512LenLowFirst sha512Pad sha512IV sha512OutWords sha512Block

end PV.Hash

import PV.Generated.HashMD
/-!
# Compression functions of the Merkle–Damgård group (C11)

`md5Block`, `sha1Block`, `sha256Block`, `sha512Block`: `pp_crypto_hash_*_process` of
`pcryptohash-{md5,sha1,sha2-256,sha2-512}.c`, on the hash words `h` and the sixteen words `x` of
one block (`data[0..15]` as the C function reads them).  Written from the C source: the macro
bodies are transliterated here, every constant (initial values are elsewhere; additive constants,
rotation amounts, message-word order, schedule taps) is taken from `PV.Generated.HashMD`, i.e.
from the current C source.

The unrolled C steps permute the *names* of the working variables from line to line
(`A,B,C,D / D,A,B,C / …`); the translator checks that permutation, the functions below rotate the
*values* instead.  Shared by the model and the one-shot specification; conformance of these
functions to RFC 1321 / FIPS 180-4 is established by test (published vectors, `hashlib`), not by
proof.
-/
namespace PV.Hash
open PV.Generated.HashMD

@[inline] def rotl32 (v s : UInt32) : UInt32 := (v <<< s) ||| (v >>> (32 - s))
@[inline] def rotr32 (v s : UInt32) : UInt32 := (v >>> s) ||| (v <<< (32 - s))
@[inline] def rotr64 (v s : UInt64) : UInt64 := (v >>> s) ||| (v <<< (64 - s))

/-! ## MD5 -/

/-- `n` further steps starting at step `i`; `(a, b, c, d)` are the variables in the role order of
    step `i` (`a` is the one the step assigns) -/
def md5Steps (x : Array UInt32) : Nat → Nat → UInt32 → UInt32 → UInt32 → UInt32 → Array UInt32
  | 0, _, a, b, c, d => #[a, b, c, d]
  | n + 1, i, a, b, c, d =>
    let f := match i / 16 with
      | 0 => d ^^^ (b &&& (c ^^^ d))          -- P_MD5_F (b, c, d) = (z ^ (x & (y ^ z)))
      | 1 => c ^^^ (d &&& (b ^^^ c))          -- P_MD5_G (b, c, d) = P_MD5_F (d, b, c)
      | 2 => b ^^^ c ^^^ d                    -- P_MD5_H
      | _ => c ^^^ (b ||| ~~~d)               -- P_MD5_I (b, c, d) = (y ^ (x | (~z)))
    -- a += f + data[k] + i, a = P_MD5_ROTL (a, s) + b
    let a := rotl32 (a + f + x[md5X[i]!]! + md5K[i]!) md5S[i]! + b
    md5Steps x n (i + 1) d a b c

def md5Block (h x : Array UInt32) : Array UInt32 :=
  let r := md5Steps x 64 0 h[0]! h[1]! h[2]! h[3]!
  #[h[0]! + r[0]!, h[1]! + r[1]!, h[2]! + r[2]!, h[3]! + r[3]!]

/-! ## SHA-1 -/

/-- `w`: the 16-word circular schedule `W[16]` -/
def sha1Steps : Nat → Nat → Array UInt32 → UInt32 → UInt32 → UInt32 → UInt32 → UInt32 → Array UInt32
  | 0, _, _, a, b, c, d, e => #[a, b, c, d, e]
  | n + 1, i, w, a, b, c, d, e =>
    -- W[i] for i < 16, P_SHA1_W (W, i) otherwise
    let v := if i < 16 then w[i]! else
      rotl32 (w[(i - sha1Taps[0]!) % 16]! ^^^ w[(i - sha1Taps[1]!) % 16]! ^^^ w[(i - sha1Taps[2]!) % 16]!
              ^^^ w[(i - sha1Taps[3]!) % 16]!) sha1RotW
    let w := if i < 16 then w else w.set! (i % 16) v
    let r := i / 20
    let f := match sha1F[r]! with
      | 1 => (b &&& c) ||| (~~~b &&& d)                     -- P_SHA1_F1
      | 2 => b ^^^ c ^^^ d                                  -- P_SHA1_F2
      | _ => (b &&& c) ||| (b &&& d) ||| (c &&& d)          -- P_SHA1_F3
    -- e += P_SHA1_ROTL (a, 5) + F (b, c, d) + K + w;  b = P_SHA1_ROTL (b, 30)
    let e := e + (rotl32 a sha1RotA + f + sha1K[r]! + v)
    let b := rotl32 b sha1RotB
    sha1Steps n (i + 1) w e a b c d

def sha1Block (h x : Array UInt32) : Array UInt32 :=
  let r := sha1Steps 80 0 x h[0]! h[1]! h[2]! h[3]! h[4]!
  #[h[0]! + r[0]!, h[1]! + r[1]!, h[2]! + r[2]!, h[3]! + r[3]!, h[4]! + r[4]!]

/-! ## SHA-2 224/256 -/

@[inline] def sha256S0 (x : UInt32) := rotr32 x sha256Rot[0]! ^^^ rotr32 x sha256Rot[1]! ^^^ (x >>> sha256Rot[2]!)
@[inline] def sha256S1 (x : UInt32) := rotr32 x sha256Rot[3]! ^^^ rotr32 x sha256Rot[4]! ^^^ (x >>> sha256Rot[5]!)
@[inline] def sha256S2 (x : UInt32) := rotr32 x sha256Rot[6]! ^^^ rotr32 x sha256Rot[7]! ^^^ rotr32 x sha256Rot[8]!
@[inline] def sha256S3 (x : UInt32) := rotr32 x sha256Rot[9]! ^^^ rotr32 x sha256Rot[10]! ^^^ rotr32 x sha256Rot[11]!

/-- `w`: `W[0 .. i-1]` (at least the sixteen block words); `P_SHA2_256_R (i)` appends `W[i]` -/
def sha256Steps : Nat → Nat → Array UInt32 → UInt32 → UInt32 → UInt32 → UInt32 → UInt32 → UInt32 → UInt32 → UInt32 →
    Array UInt32
  | 0, _, _, a, b, c, d, e, f, g, h => #[a, b, c, d, e, f, g, h]
  | n + 1, i, w, a, b, c, d, e, f, g, h =>
    let x := if i < 16 then w[i]! else sha256S1 w[i - 2]! + w[i - 7]! + sha256S0 w[i - 15]! + w[i - 16]!
    let w := if i < 16 then w else w.push x
    -- P_SHA2_256_P
    let t1 := h + sha256S3 e + (g ^^^ (e &&& (f ^^^ g))) + sha256K[i]! + x
    let t2 := sha256S2 a + ((a &&& b) ||| (c &&& (a ||| b)))
    sha256Steps n (i + 1) w (t1 + t2) a b c (d + t1) e f g

def sha256Block (h x : Array UInt32) : Array UInt32 :=
  let r := sha256Steps 64 0 x h[0]! h[1]! h[2]! h[3]! h[4]! h[5]! h[6]! h[7]!
  #[h[0]! + r[0]!, h[1]! + r[1]!, h[2]! + r[2]!, h[3]! + r[3]!, h[4]! + r[4]!, h[5]! + r[5]!, h[6]! + r[6]!, h[7]! + r[7]!]

/-! ## SHA-2 384/512 -/

@[inline] def sha512S0 (x : UInt64) := rotr64 x sha512Rot[0]! ^^^ rotr64 x sha512Rot[1]! ^^^ (x >>> sha512Rot[2]!)
@[inline] def sha512S1 (x : UInt64) := rotr64 x sha512Rot[3]! ^^^ rotr64 x sha512Rot[4]! ^^^ (x >>> sha512Rot[5]!)
@[inline] def sha512S2 (x : UInt64) := rotr64 x sha512Rot[6]! ^^^ rotr64 x sha512Rot[7]! ^^^ rotr64 x sha512Rot[8]!
@[inline] def sha512S3 (x : UInt64) := rotr64 x sha512Rot[9]! ^^^ rotr64 x sha512Rot[10]! ^^^ rotr64 x sha512Rot[11]!

/-- `for (i = 16; i < 80; ++i) W[i] = …` -/
def sha512Schedule : Nat → Array UInt64 → Array UInt64
  | 0, w => w
  | n + 1, w =>
    let i := w.size
    sha512Schedule n (w.push (sha512S1 w[i - 2]! + w[i - 7]! + sha512S0 w[i - 15]! + w[i - 16]!))

def sha512Steps (w : Array UInt64) : Nat → Nat → UInt64 → UInt64 → UInt64 → UInt64 → UInt64 → UInt64 → UInt64 → UInt64 →
    Array UInt64
  | 0, _, a, b, c, d, e, f, g, h => #[a, b, c, d, e, f, g, h]
  | n + 1, i, a, b, c, d, e, f, g, h =>
    let t1 := h + sha512S3 e + (g ^^^ (e &&& (f ^^^ g))) + sha512K[i]! + w[i]!
    let t2 := sha512S2 a + ((a &&& b) ||| (c &&& (a ||| b)))
    sha512Steps w n (i + 1) (t1 + t2) a b c (d + t1) e f g

def sha512Block (h x : Array UInt64) : Array UInt64 :=
  let w := sha512Schedule 64 x
  let r := sha512Steps w 80 0 h[0]! h[1]! h[2]! h[3]! h[4]! h[5]! h[6]! h[7]!
  #[h[0]! + r[0]!, h[1]! + r[1]!, h[2]! + r[2]!, h[3]! + r[3]!, h[4]! + r[4]!, h[5]! + r[5]!, h[6]! + r[6]!, h[7]! + r[7]!]

end PV.Hash

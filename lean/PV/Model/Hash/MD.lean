import PV.Model.Hash.Bytes
/-!
# The streaming layer shared by MD5, SHA-1, SHA-2 (C11)

`p_crypto_hash_{md5,sha1,sha2_256,sha2_512}_{reset,update,finish,digest}` are the same code up to
the block size, the counter width, the order of the two length words and the compression function
(the translator checks that, token for token, for the four update and finish functions).  `Alg`
collects those parameters, `Alg.update` / `Alg.finish` are the transliteration:

```c
left = ctx->len_low & 0x3F;  to_fill = 64 - left;
ctx->len_low += (puint32) len;
if (ctx->len_low < (puint32) len) ++ctx->len_high;
ctx->len_high += (puint32) ((puint64) len >> 32);          /* repaired code, finding F9 */
if (left && len >= to_fill) {                              /* full psize, idem          */
    memcpy (ctx->buf.buf + left, data, to_fill); swap_bytes (ctx->buf.buf_w, 16); process (ctx, ctx->buf.buf_w);
    data += to_fill; len -= to_fill; left = 0; }
while (len >= 64) { memcpy (ctx->buf.buf, data, 64); swap_bytes (…, 16); process (…); data += 64; len -= 64; }
if (len > 0) memcpy (ctx->buf.buf + left, data, len);
```

The buffer is the whole 64/128-byte array including whatever stale bytes it holds (`swap_bytes`
works in place, so after a block was processed the buffer holds the *swapped* block).
-/
namespace PV.Hash

structure Alg where
  /-- `ctx->hash` -/
  σ : Type
  /-- `(ctx->len_high, ctx->len_low)` -/
  κ : Type
  /-- `sizeof ctx->buf.buf` -/
  B : Nat
  iv : σ
  k0 : κ
  /-- `ctx->len_low & (B - 1)` -/
  kLeft : κ → Nat
  /-- the counter statements of `update (ctx, data, len)` -/
  kAdd : κ → Nat → κ
  /-- `pp_crypto_hash_*_swap_bytes (ctx->buf.buf_w, n)` -/
  swap : ByteArray → Nat → ByteArray
  /-- `pp_crypto_hash_*_process (ctx, ctx->buf.buf_w)` -/
  proc : σ → ByteArray → σ
  /-- `low = …; high = …; ctx->buf.buf_w[14] = …; ctx->buf.buf_w[15] = …` of `finish` -/
  putLen : κ → ByteArray → ByteArray
  /-- `pp_crypto_hash_*_pad` -/
  pad : ByteArray
  /-- `pp_crypto_hash_*_swap_bytes (ctx->hash, n)` at the end of `finish` -/
  outSwap : σ → σ
  /-- `(const puchar *) ctx->hash` -/
  hashBytes : σ → List UInt8

/-- bytes of the length field: `buf_w[14]`, `buf_w[15]` of sixteen words -/
def Alg.L (A : Alg) : Nat := A.B / 8

structure Ctx (A : Alg) where
  buf : ByteArray
  hash : A.σ
  k : A.κ

namespace Alg
variable (A : Alg)

/-- `p_crypto_hash_*_reset` (and `_new`, which is `p_malloc0` + reset) -/
def init : Ctx A := { buf := zeroBytes A.B, hash := A.iv, k := A.k0 }

/-- `while (len >= B) { memcpy (buf, data, B); swap_bytes; process; data += B; len -= B; }`,
    `n = len / B` iterations starting at `data + off` -/
def wholeBlocks (data : Src) : Nat → Nat → ByteArray → A.σ → ByteArray × A.σ
  | 0, _, buf, h => (buf, h)
  | n + 1, off, buf, h =>
    let buf := A.swap (memcpy buf 0 (data.read off A.B)) 16
    wholeBlocks data n (off + A.B) buf (A.proc h buf)

/-- `p_crypto_hash_*_update (ctx, data, len)` with `len = data.size` (a `psize`, so `< 2^64`) -/
def update (c : Ctx A) (data : Src) : Ctx A :=
  let len := data.size
  let left := A.kLeft c.k
  let toFill := A.B - left
  let k := A.kAdd c.k len
  -- if (left && len >= to_fill) { … }
  let top : Bool := left != 0 && decide (toFill ≤ len)
  let buf₁ := if top then A.swap (memcpy c.buf left (data.read 0 toFill)) 16 else c.buf
  let hash₁ := if top then A.proc c.hash buf₁ else c.hash
  let off := if top then toFill else 0
  let len₁ := if top then len - toFill else len
  let left₁ := if top then 0 else left
  -- while (len >= B) …
  let r := wholeBlocks A data (len₁ / A.B) off buf₁ hash₁
  let off₂ := off + len₁ / A.B * A.B
  let len₂ := len₁ % A.B
  -- if (len > 0) memcpy (ctx->buf.buf + left, data, len);
  let buf₃ := if len₂ > 0 then memcpy r.1 left₁ (data.read off₂ len₂) else r.1
  { buf := buf₃, hash := r.2, k := k }

/-- `last = (left < B - L) ? (B - L - left) : (2 * B - L - left)` -/
def padLen (left : Nat) : Nat := if left < A.B - A.L then A.B - A.L - left else 2 * A.B - A.L - left

/-- `p_crypto_hash_*_finish` -/
def finish (c : Ctx A) : Ctx A :=
  let last := A.padLen (A.kLeft c.k)
  let k := c.k            -- `low` and `high` are computed before the padding is added
  let c := if last > 0 then A.update c { bytes := A.pad.extract 0 last } else c
  let buf := A.swap (A.putLen k c.buf) 14
  { buf := buf, hash := A.outSwap (A.proc c.hash buf), k := c.k }

/-- `p_crypto_hash_*_digest`: the memory of `ctx->hash` -/
def digest (c : Ctx A) : List UInt8 := A.hashBytes c.hash

end Alg

/-! ## the two counter implementations -/

/-- `puint32 len_high, len_low` with the repaired update: the low word takes `(puint32) len` and
    carries into the high word, the high word also takes the upper half of the `psize` -/
def kAdd32 (k : UInt32 × UInt32) (len : Nat) : UInt32 × UInt32 :=
  let l : UInt32 := UInt32.ofNat len                        -- (puint32) len
  let lo := k.2 + l
  let hi := if lo < l then k.1 + 1 else k.1
  (hi + UInt32.ofNat (len % 2 ^ 64 / 2 ^ 32), lo)           -- (puint32) ((puint64) len >> 32)

/-- `puint64 len_high, len_low`: a `psize` fits the low word -/
def kAdd64 (k : UInt64 × UInt64) (len : Nat) : UInt64 × UInt64 :=
  let l : UInt64 := UInt64.ofNat len                        -- (puint64) len
  let lo := k.2 + l
  (if lo < l then k.1 + 1 else k.1, lo)

/-- `low = len_low << 3; high = len_high << 3 | len_low >> 29;` then the two stores, in the
    order of the algorithm (`lowFirst`: `buf_w[14] = low; buf_w[15] = high`) -/
def putLen32 (lowFirst : Bool) (k : UInt32 × UInt32) (buf : ByteArray) : ByteArray :=
  let low := k.2 <<< 3
  let high := (k.1 <<< 3) ||| (k.2 >>> 29)
  if lowFirst then setW32 (setW32 buf 14 low) 15 high else setW32 (setW32 buf 14 high) 15 low

def putLen64 (lowFirst : Bool) (k : UInt64 × UInt64) (buf : ByteArray) : ByteArray :=
  let low := k.2 <<< 3
  let high := (k.1 <<< 3) ||| (k.2 >>> 61)
  if lowFirst then setW64 (setW64 buf 14 low) 15 high else setW64 (setW64 buf 14 high) 15 low

end PV.Hash

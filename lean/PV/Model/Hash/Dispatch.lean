import PV.Model.Hash.Algs
/-!
# `PCryptoHash` (pcryptohash.c): the dispatcher over the algorithm contexts (C11)

`closed` flag, `update` ignored when closed or `len == 0`, `reset` reopens, `get_string` is the
hex encoding of `hash_len` digest bytes, `get_digest` checks the caller's capacity first (and does
not close the hash when it is too small).  The translator checks the five functions token for
token; `hash_len` and the hex alphabet are generated.
-/
namespace PV.Hash
open PV.Generated.HashMD

namespace HashType
/-- `P_HASH_FUNCS (ret, …)` of the switch in `p_crypto_hash_new` -/
def alg : HashType → Alg
  | .md5 => Hash.md5 | .sha1 => Hash.sha1 | .sha224 => Hash.sha224
  | .sha256 => Hash.sha256 | .sha384 => Hash.sha384 | .sha512 => Hash.sha512
/-- `ret->hash_len = …` -/
def hashLen : HashType → Nat
  | .md5 => hashLen_md5 | .sha1 => hashLen_sha1 | .sha224 => hashLen_sha2_224
  | .sha256 => hashLen_sha2_256 | .sha384 => hashLen_sha2_384 | .sha512 => hashLen_sha2_512
/-- enumerator value of the type in `PCryptoHashType` (pcryptohash.h; generated) -/
def code : HashType → Int
  | .md5 => typeCode_md5 | .sha1 => typeCode_sha1 | .sha224 => typeCode_sha2_224
  | .sha256 => typeCode_sha2_256 | .sha384 => typeCode_sha2_384 | .sha512 => typeCode_sha2_512
def all : List HashType := [.md5, .sha1, .sha224, .sha256, .sha384, .sha512]
/-- the `switch` of `p_crypto_hash_new`, restricted to this family: the type an integer selects -/
def ofCode (c : Int) : Option HashType := all.find? fun t => t.code == c
end HashType

/-- the range test at the top of `p_crypto_hash_new ((PCryptoHashType) c)`: any other integer gives NULL -/
def typeAccepted (c : Int) : Bool := decide (typeCodeMin ≤ c) && decide (c ≤ typeCodeMax)

/-- `struct PCryptoHash_`: `type` never changes after `p_crypto_hash_new`, so it is an index here;
    `context` is the algorithm context, `hash_len` and the function pointers are `t.hashLen`, `t.alg` -/
structure PHash (t : HashType) where
  ctx : Ctx t.alg
  closed : Bool

/-- `pp_crypto_hash_digest_to_hex` -/
def hexOf (digest : List UInt8) : String :=
  let hx := hexDigits.toList.toArray
  String.ofList (digest.flatMap fun (b : UInt8) => [hx[((b >>> 4) &&& 0x0F).toNat]!, hx[(b &&& 0x0F).toNat]!])

namespace PHash
variable {t : HashType}

/-- `p_crypto_hash_new` (allocation failure is C18's subject) -/
def new (t : HashType) : PHash t := { ctx := t.alg.init, closed := false }

/-- `p_crypto_hash_update (hash, data, len)`, `data != NULL` -/
def update (h : PHash t) (data : Src) : PHash t :=
  if data.size = 0 then h
  else if h.closed then h
  else { h with ctx := t.alg.update h.ctx data }

/-- `p_crypto_hash_reset` -/
def reset (_h : PHash t) : PHash t := { ctx := t.alg.init, closed := false }

/-- `if (!hash->closed) { hash->finish (hash->context); hash->closed = TRUE; }` -/
def close (h : PHash t) : PHash t :=
  if h.closed then h else { ctx := t.alg.finish h.ctx, closed := true }

/-- the `hash_len` bytes both getters copy out of `hash->digest (hash->context)` -/
def digestBytes (h : PHash t) : List UInt8 := (t.alg.digest h.ctx).take t.hashLen

/-- `p_crypto_hash_get_string`: new state and the returned string -/
def getString (h : PHash t) : PHash t × String :=
  let h := h.close
  (h, hexOf h.digestBytes)

/-- `p_crypto_hash_get_digest (hash, buf, &len)` with `*len = cap` on entry: new state and
    `some bytes` (`*len = hash_len`) or `none` (`*len = 0`, nothing written, hash left open) -/
def getDigest (h : PHash t) (cap : Nat) : PHash t × Option (List UInt8) :=
  if t.hashLen > cap then (h, none)
  else
    let h := h.close
    (h, some h.digestBytes)

/-- `p_crypto_hash_get_length` -/
def getLength (_h : PHash t) : Nat := t.hashLen

/-- `p_crypto_hash_get_type` -/
def getType (_h : PHash t) : Int := t.code

/-- `p_crypto_hash_update (hash, NULL, len)`: returns before looking at the hash -/
def updateNull (h : PHash t) (_len : Nat) : PHash t := h

/-- `p_crypto_hash_get_digest (hash, NULL, &len)`: `*len = 0`, returns before the capacity test and before
    finishing — not a read, whatever `*len` was -/
def getDigestNullBuf (h : PHash t) (_cap : Nat) : PHash t × Nat := (h, 0)

/-- `p_crypto_hash_get_digest (hash, buf, NULL)`: returns at once -/
def getDigestNullLen (h : PHash t) : PHash t := h
end PHash

/-- the answers of the entry points for `hash == NULL`: `get_string`, `*len` of `get_digest`, `get_length`, `get_type` -/
def nullAnswers : Option String × Nat × Nat × Int := (none, 0, nullLength, nullType)

end PV.Hash

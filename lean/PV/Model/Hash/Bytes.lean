import PV.Generated.HashMD
/-!
# Byte-level vocabulary of the crypto-hash models (C11)

* `Src` — what a `(const puchar *data, psize len)` argument points at,
* `memcpy`, native word access to the `buf` / `buf_w` union, `swapBytes` (the
  `pp_crypto_hash_*_swap_bytes` helpers),
* `wordsLE32 / wordsBE32 / wordsBE64` — a 16-word block read from 64 / 128 bytes.

Platform: the generated `plibsysconfig.h` leaves `PLIBSYS_IS_BIGENDIAN` undefined
(`Generated.HashMD.isBigEndian = false`, re-extracted on every run); native word access below is
therefore little-endian.  The functions consult the flag, so a big-endian configuration changes
the model (and the lemmas about it stop checking) instead of being silently ignored.
-/
namespace PV.Hash
open PV.Generated

/-- the `PCryptoHashType` values of the Merkle–Damgård group -/
inductive HashType where
  | md5 | sha1 | sha224 | sha256 | sha384 | sha512
deriving DecidableEq, Repr

/-! ## input of one `update` call -/

/-- The memory behind `data`: `bytes` followed by `zeros` zero bytes (the harness's `updz N` maps
    `N` zero bytes; `upd HEX` has `zeros = 0`).  `len` of the call is `size`. -/
structure Src where
  bytes : ByteArray
  zeros : Nat := 0

def zeroBytes (n : Nat) : ByteArray := ByteArray.mk (Array.replicate n 0)

/-- one block of zero bytes (no block is larger than 128 bytes) -/
def zeros128 : ByteArray := zeroBytes 128

namespace Src
def size (s : Src) : Nat := s.bytes.size + s.zeros
/-- all bytes of the argument (specification view only: never evaluated for large `zeros`) -/
def toBytes (s : Src) : ByteArray := s.bytes ++ zeroBytes s.zeros
/-- the `n ≤ 128` bytes at `data + off` -/
def read (s : Src) (off n : Nat) : ByteArray :=
  if off + n ≤ s.bytes.size then s.bytes.extract off (off + n)
  else s.bytes.extract off (off + n) ++ zeros128.extract 0 (off + n - max off s.bytes.size)
/-- all bytes of a sequence of `update` arguments, in order (specification view) -/
def concat (chunks : List Src) : ByteArray := chunks.foldl (fun acc c => acc ++ c.toBytes) ByteArray.empty
end Src

instance : Coe ByteArray Src := ⟨fun b => { bytes := b }⟩

/-- `memcpy (dst + pos, blk, blk.size)` -/
def memcpy (dst : ByteArray) (pos : Nat) (blk : ByteArray) : ByteArray :=
  blk.copySlice 0 dst pos blk.size

/-! ## words -/

def le32 (b0 b1 b2 b3 : UInt8) : UInt32 :=
  b0.toUInt32 + b1.toUInt32 * 0x100 + b2.toUInt32 * 0x10000 + b3.toUInt32 * 0x1000000

def le64 (b0 b1 b2 b3 b4 b5 b6 b7 : UInt8) : UInt64 :=
  b0.toUInt64 + b1.toUInt64 * 0x100 + b2.toUInt64 * 0x10000 + b3.toUInt64 * 0x1000000
  + b4.toUInt64 * 0x100000000 + b5.toUInt64 * 0x10000000000 + b6.toUInt64 * 0x1000000000000
  + b7.toUInt64 * 0x100000000000000

/-- 32-bit word `i` of a byte string, least significant byte first -/
def getLE32 (b : ByteArray) (i : Nat) : UInt32 :=
  le32 b[4 * i]! b[4 * i + 1]! b[4 * i + 2]! b[4 * i + 3]!
/-- 32-bit word `i` of a byte string, most significant byte first -/
def getBE32 (b : ByteArray) (i : Nat) : UInt32 :=
  le32 b[4 * i + 3]! b[4 * i + 2]! b[4 * i + 1]! b[4 * i]!
def getLE64 (b : ByteArray) (i : Nat) : UInt64 :=
  le64 b[8 * i]! b[8 * i + 1]! b[8 * i + 2]! b[8 * i + 3]! b[8 * i + 4]! b[8 * i + 5]! b[8 * i + 6]! b[8 * i + 7]!
def getBE64 (b : ByteArray) (i : Nat) : UInt64 :=
  le64 b[8 * i + 7]! b[8 * i + 6]! b[8 * i + 5]! b[8 * i + 4]! b[8 * i + 3]! b[8 * i + 2]! b[8 * i + 1]! b[8 * i]!

def setLE32 (b : ByteArray) (i : Nat) (v : UInt32) : ByteArray :=
  (((b.set! (4 * i) v.toUInt8).set! (4 * i + 1) (v / 0x100).toUInt8).set! (4 * i + 2) (v / 0x10000).toUInt8).set!
    (4 * i + 3) (v / 0x1000000).toUInt8
def setBE32 (b : ByteArray) (i : Nat) (v : UInt32) : ByteArray :=
  (((b.set! (4 * i + 3) v.toUInt8).set! (4 * i + 2) (v / 0x100).toUInt8).set! (4 * i + 1) (v / 0x10000).toUInt8).set!
    (4 * i) (v / 0x1000000).toUInt8
def setLE64 (b : ByteArray) (i : Nat) (v : UInt64) : ByteArray :=
  (((((((b.set! (8 * i) v.toUInt8).set! (8 * i + 1) (v / 0x100).toUInt8).set! (8 * i + 2) (v / 0x10000).toUInt8).set!
    (8 * i + 3) (v / 0x1000000).toUInt8).set! (8 * i + 4) (v / 0x100000000).toUInt8).set!
    (8 * i + 5) (v / 0x10000000000).toUInt8).set! (8 * i + 6) (v / 0x1000000000000).toUInt8).set!
    (8 * i + 7) (v / 0x100000000000000).toUInt8
def setBE64 (b : ByteArray) (i : Nat) (v : UInt64) : ByteArray :=
  (((((((b.set! (8 * i + 7) v.toUInt8).set! (8 * i + 6) (v / 0x100).toUInt8).set! (8 * i + 5) (v / 0x10000).toUInt8).set!
    (8 * i + 4) (v / 0x1000000).toUInt8).set! (8 * i + 3) (v / 0x100000000).toUInt8).set!
    (8 * i + 2) (v / 0x10000000000).toUInt8).set! (8 * i + 1) (v / 0x1000000000000).toUInt8).set!
    (8 * i) (v / 0x100000000000000).toUInt8

/-- `buf_w[i]` of a `union { puchar buf[..]; puint32 buf_w[16]; }` on this platform -/
def getW32 (b : ByteArray) (i : Nat) : UInt32 := if HashMD.isBigEndian then getBE32 b i else getLE32 b i
/-- `buf_w[i] = v` -/
def setW32 (b : ByteArray) (i : Nat) (v : UInt32) : ByteArray :=
  if HashMD.isBigEndian then setBE32 b i v else setLE32 b i v
def getW64 (b : ByteArray) (i : Nat) : UInt64 := if HashMD.isBigEndian then getBE64 b i else getLE64 b i
def setW64 (b : ByteArray) (i : Nat) (v : UInt64) : ByteArray :=
  if HashMD.isBigEndian then setBE64 b i v else setLE64 b i v

/-- the 16 words a block of 64 bytes stands for, least significant byte first (RFC 1321) -/
def wordsLE32 (b : ByteArray) : Array UInt32 := Array.ofFn (n := 16) fun i => getLE32 b i.val
/-- … most significant byte first (FIPS 180-4) -/
def wordsBE32 (b : ByteArray) : Array UInt32 := Array.ofFn (n := 16) fun i => getBE32 b i.val
def wordsBE64 (b : ByteArray) : Array UInt64 := Array.ofFn (n := 16) fun i => getBE64 b i.val
/-- `buf_w[0..15]` as `process (ctx, ctx->buf.buf_w)` reads them -/
def nativeWords32 (b : ByteArray) : Array UInt32 := Array.ofFn (n := 16) fun i => getW32 b i.val
def nativeWords64 (b : ByteArray) : Array UInt64 := Array.ofFn (n := 16) fun i => getW64 b i.val

/-! ## `swap_bytes (words, n)`

`*data = PUINT32_TO_BE (*data)` with `PUINT32_TO_BE = PUINT32_SWAP_BYTES` (little-endian build)
reverses the four bytes of the word in memory; when the conversion macro is the identity the helper
compiles to nothing (`P_UNUSED`). -/

def rev32At (b : ByteArray) (o : Nat) : ByteArray :=
  let b0 := b[o]!; let b1 := b[o + 1]!; let b2 := b[o + 2]!; let b3 := b[o + 3]!
  (((b.set! o b3).set! (o + 1) b2).set! (o + 2) b1).set! (o + 3) b0

def rev64At (b : ByteArray) (o : Nat) : ByteArray :=
  let b0 := b[o]!; let b1 := b[o + 1]!; let b2 := b[o + 2]!; let b3 := b[o + 3]!
  let b4 := b[o + 4]!; let b5 := b[o + 5]!; let b6 := b[o + 6]!; let b7 := b[o + 7]!
  (((((((b.set! o b7).set! (o + 1) b6).set! (o + 2) b5).set! (o + 3) b4).set! (o + 4) b3).set! (o + 5) b2).set!
    (o + 6) b1).set! (o + 7) b0

/-- reverse the bytes of each of the first `n` 32-bit words -/
def revWords32 (b : ByteArray) : Nat → ByteArray
  | 0 => b
  | n + 1 => rev32At (revWords32 b n) (4 * n)

def revWords64 (b : ByteArray) : Nat → ByteArray
  | 0 => b
  | n + 1 => rev64At (revWords64 b n) (8 * n)

/-- `swapOnLE`: the helper converts with `PUINTnn_TO_BE` inside `#ifndef PLIBSYS_IS_BIGENDIAN`
    (SHA family); otherwise with `PUINT32_TO_LE` inside `#ifdef PLIBSYS_IS_BIGENDIAN` (MD5).
    Either way it reverses bytes exactly when the platform's order differs from the algorithm's. -/
def swapBytes32 (swapOnLE : Bool) (b : ByteArray) (n : Nat) : ByteArray :=
  if swapOnLE != HashMD.isBigEndian then revWords32 b n else b

def swapBytes64 (swapOnLE : Bool) (b : ByteArray) (n : Nat) : ByteArray :=
  if swapOnLE != HashMD.isBigEndian then revWords64 b n else b

/-! ## the hash words as memory -/

def leBytes32 (v : UInt32) : List UInt8 :=
  [v.toUInt8, (v / 0x100).toUInt8, (v / 0x10000).toUInt8, (v / 0x1000000).toUInt8]
def beBytes32 (v : UInt32) : List UInt8 :=
  [(v / 0x1000000).toUInt8, (v / 0x10000).toUInt8, (v / 0x100).toUInt8, v.toUInt8]
def leBytes64 (v : UInt64) : List UInt8 :=
  [v.toUInt8, (v / 0x100).toUInt8, (v / 0x10000).toUInt8, (v / 0x1000000).toUInt8,
   (v / 0x100000000).toUInt8, (v / 0x10000000000).toUInt8, (v / 0x1000000000000).toUInt8,
   (v / 0x100000000000000).toUInt8]
def beBytes64 (v : UInt64) : List UInt8 := (leBytes64 v).reverse

/-- value-level `PUINT32_SWAP_BYTES` -/
def bswap32 (v : UInt32) : UInt32 :=
  le32 (v / 0x1000000).toUInt8 (v / 0x10000).toUInt8 (v / 0x100).toUInt8 v.toUInt8
def bswap64 (v : UInt64) : UInt64 :=
  le64 (v / 0x100000000000000).toUInt8 (v / 0x1000000000000).toUInt8 (v / 0x10000000000).toUInt8
    (v / 0x100000000).toUInt8 (v / 0x1000000).toUInt8 (v / 0x10000).toUInt8 (v / 0x100).toUInt8 v.toUInt8

/-- `swap_bytes (ctx->hash, n)`: the first `n` hash words are converted in place -/
def swapHash32 (swapOnLE : Bool) (h : Array UInt32) (n : Nat) : Array UInt32 :=
  if swapOnLE != HashMD.isBigEndian then ((h.toList.take n).map bswap32 ++ h.toList.drop n).toArray else h
def swapHash64 (swapOnLE : Bool) (h : Array UInt64) (n : Nat) : Array UInt64 :=
  if swapOnLE != HashMD.isBigEndian then ((h.toList.take n).map bswap64 ++ h.toList.drop n).toArray else h

/-- `(const puchar *) ctx->hash`: the memory of an array of native words -/
def bytesOfWords32 (h : Array UInt32) : List UInt8 :=
  h.toList.flatMap fun v => if HashMD.isBigEndian then beBytes32 v else leBytes32 v
def bytesOfWords64 (h : Array UInt64) : List UInt8 :=
  h.toList.flatMap fun v => if HashMD.isBigEndian then beBytes64 v else leBytes64 v

end PV.Hash

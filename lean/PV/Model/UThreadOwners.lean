import PV.Model.UThread
/-!
# Per-thread attribution of user references (ghost layer over `PV.Model.UThread`)

`GState` pairs a state of the history machine with a ghost map `owns t h` = how many references to
handle `h` thread `t` holds: the creator gets one when `p_uthread_create*` returns, `p_uthread_ref` by
`t` adds one for `t`, `p_uthread_unref` by `t` takes one of `t`'s.  The reference a thread holds on its
own handle through the library TLS key is not in the map (it is `Handle.threadRef`).  The ghost layer
changes nothing in the machine: `gstep` runs `step` and updates the map.

`PermittedT`: the per-thread reference discipline — *every thread uses only its own references*:
`ref`/`join` of `h` by `a` need `owns a h > 0` (or `a` is the thread `h` describes and still holds its
own reference); `unref` of `h` by `a` needs `owns a h > 0`.  Handing a reference from one thread to
another is not an event of this layer (the pooled discipline `Permitted` covers it).
-/
namespace PV.UThread

structure GState where
  s : State
  owns : Nat → Nat → Nat := fun _ _ => 0

def ginit : GState := { s := init }

def bump (f : Nat → Nat → Nat) (t h : Nat) (g : Nat → Nat) : Nat → Nat → Nat :=
  fun t' h' => if t' = t ∧ h' = h then g (f t h) else f t' h'

/-- the ghost update of one event, computed in the state *before* the event -/
def ownsAfter (g : GState) : Ev → Nat → Nat → Nat
  | .createEnd a =>
    match g.s.spin with
    | some c => bump g.owns a c.h (· + 1)
    | none => g.owns
  | .ref a h => bump g.owns a h (· + 1)
  | .unref a h => bump g.owns a h (· - 1)
  | _ => g.owns

def gstep (g : GState) (e : Ev) : Except Err GState :=
  match step g.s e with
  | .ok s' => .ok { s := s', owns := ownsAfter g e }
  | .error x => .error x

/-- per-thread discipline: the acting thread holds a reference of its own to the handle it names -/
def PermittedT (g : GState) : Ev → Prop
  | .ref a h => 0 < g.owns a h ∨ ((g.s.hdl h).thread = a ∧ (g.s.hdl h).threadRef = true)
  | .join a h => (0 < g.owns a h ∨ ((g.s.hdl h).thread = a ∧ (g.s.hdl h).threadRef = true)) ∧ (g.s.hdl h).joined = false
  | .unref a h => 0 < g.owns a h
  | .joinFail a h => (0 < g.owns a h ∨ ((g.s.hdl h).thread = a ∧ (g.s.hdl h).threadRef = true)) ∧ (g.s.hdl h).joined = false
  | _ => True

instance (g : GState) (e : Ev) : Decidable (PermittedT g e) := by
  cases e <;> simp only [PermittedT] <;> exact inferInstance

/-- states reached by histories in which every thread uses only its own references -/
inductive TReach : GState → Prop
  | init : TReach ginit
  | step {g g' : GState} (e : Ev) : TReach g → PermittedT g e → gstep g e = .ok g' → TReach g'

/-- Σ_{t < n} f t -/
def sumTo (f : Nat → Nat) : Nat → Nat
  | 0 => 0
  | n + 1 => sumTo f n + f n

/-- number of user references to `h` held by all threads together -/
def heldBy (g : GState) (h : Nat) : Nat := sumTo (fun t => g.owns t h) g.s.nT

end PV.UThread

import PV.Model.Res.Monad
import PV.Model.Res.Funcs
import PV.Model.Res.Calls
import PV.Model.Res.Scenarios
import PV.Model.Res.Sites
/-! C18 / C20 resource model: `ResM` (Monad), the allocating functions (Funcs), the call language (Calls),
    the scenario programs (Scenarios). -/

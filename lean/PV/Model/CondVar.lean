import PV.Generated.CondVar
/-!
# C03 — condition variable: Mesa monitor, wrapper mapping, client programs

Three layers, all executable (core Lean only):

* **(a) `Mon`** — the abstract Mesa monitor = the *trusted* POSIX contract of
  `pthread_mutex_*` / `pthread_cond_*`: one mutex (`owner`), per condition variable a wait-set
  and the set of threads that were removed from the wait-set and still have to re-acquire the
  mutex before `pthread_cond_wait` returns (`woken`).  `wait` releases the mutex and joins the
  wait-set in ONE step; `signal` moves one arbitrary waiter (POSIX: "at least one" — any
  additional ones are `spurious` steps); `broadcast` moves all; `spurious` moves any waiter at
  any time; `reacquire` is the only way out of `wait`.
* **(b) wrapper mapping** — `pcondvariable-posix.c` / `pmutex-posix.c` transliterated over the
  facts the translator extracts from the working tree (`PV.Generated.CondVar`): NULL checks,
  native function, argument expressions (evaluated over the generated struct layouts), result
  mapping, what `new` does when the native init fails, what `free` does.
* **(c) clients** — N producers / M consumers over a bounded FIFO buffer (two condition
  variables, `while`-loop re-check, `signal` or `broadcast`), and the event-counter client;
  transition systems with per-thread program counters over the monitor, for any thread list.
-/
namespace PV.CondVar
open PV.Generated.CondVar (NFn Arg Layout Field BoolWrap NewWrap FreeWrap)

abbrev Tid := Nat
abbrev CvId := Nat

/-! ## (a) the abstract Mesa monitor (trusted contract) -/

def upd (f : CvId → List Tid) (c : CvId) (v : List Tid) : CvId → List Tid :=
  fun x => if x = c then v else f x

structure Mon where
  /-- the thread that holds the mutex -/
  owner : Option Tid
  /-- wait-set of each condition variable: threads blocked in `pthread_cond_wait` -/
  wset : CvId → List Tid
  /-- threads removed from the wait-set of `cv` (signal / broadcast / spurious) that have not yet
      re-acquired the mutex: still inside `pthread_cond_wait` -/
  woken : CvId → List Tid

def Mon.init : Mon := { owner := none, wset := fun _ => [], woken := fun _ => [] }

/-- native return codes (scripted on the wrapper side) -/
inductive Rc where
  | ok | einval | eperm | ebusy | etimedout | eagain | enomem | other (n : Int)
  deriving DecidableEq, Repr

def Rc.toInt : Rc → Int
  | .ok => 0 | .eperm => 1 | .eagain => 11 | .enomem => 12 | .ebusy => 16 | .einval => 22
  | .etimedout => 110 | .other n => n

namespace Mon

/-- `pthread_mutex_lock`: enabled (returns) only when the mutex is free -/
def lock (m : Mon) (t : Tid) : Option Mon :=
  if m.owner = none then some { m with owner := some t } else none

/-- `pthread_mutex_unlock` by the owner (by anybody else: contract violation, `none`) -/
def unlock (m : Mon) (t : Tid) : Option Mon :=
  if m.owner = some t then some { m with owner := none } else none

/-- `pthread_cond_wait`, first half: ATOMICALLY release the mutex and join the wait-set -/
def wait (m : Mon) (t : Tid) (cv : CvId) : Option Mon :=
  if m.owner = some t then
    some { owner := none, wset := upd m.wset cv (m.wset cv ++ [t]), woken := m.woken }
  else none

/-- move waiter `w` of `cv` from the wait-set to "woken, must re-acquire" -/
def wake (m : Mon) (cv : CvId) (w : Tid) : Mon :=
  { m with wset := upd m.wset cv ((m.wset cv).erase w), woken := upd m.woken cv (m.woken cv ++ [w]) }

/-- `pthread_cond_signal`: `w = some x` — the waiter chosen by the implementation (any member of
    the wait-set); `w = none` is possible only when nobody waits (the signal is lost, as POSIX says) -/
def signal (m : Mon) (cv : CvId) (w : Option Tid) : Option Mon :=
  match w with
  | none => if m.wset cv = [] then some m else none
  | some x => if x ∈ m.wset cv then some (m.wake cv x) else none

/-- `pthread_cond_broadcast`: every waiter is woken -/
def broadcast (m : Mon) (cv : CvId) : Mon :=
  { m with wset := upd m.wset cv [], woken := upd m.woken cv (m.woken cv ++ m.wset cv) }

/-- a spurious wake-up of waiter `w` (allowed at any time) -/
def spurious (m : Mon) (cv : CvId) (w : Tid) : Option Mon :=
  if w ∈ m.wset cv then some (m.wake cv w) else none

/-- `pthread_cond_wait`, second half: a woken thread re-acquires the mutex; only now does the
    native call return 0 -/
def reacquired (m : Mon) (cv : CvId) (t : Tid) : Mon :=
  { m with owner := some t, woken := upd m.woken cv ((m.woken cv).erase t) }

def reacquire (m : Mon) (cv : CvId) (t : Tid) : Option Mon :=
  if t ∈ m.woken cv ∧ m.owner = none then some (m.reacquired cv t) else none

end Mon

/-- labelled steps of the bare monitor -/
inductive MLabel where
  | lock (t : Tid)
  | unlock (t : Tid)
  | wait (t : Tid) (cv : CvId)
  | signal (t : Tid) (cv : CvId) (w : Option Tid)
  | broadcast (t : Tid) (cv : CvId)
  | spurious (cv : CvId) (w : Tid)
  | reacquire (cv : CvId) (t : Tid)
  deriving DecidableEq, Repr

def Mon.step (m : Mon) : MLabel → Option Mon
  | .lock t => m.lock t
  | .unlock t => m.unlock t
  | .wait t cv => m.wait t cv
  | .signal _ cv w => m.signal cv w
  | .broadcast _ cv => some (m.broadcast cv)
  | .spurious cv w => m.spurious cv w
  | .reacquire cv t => m.reacquire cv t

def Mon.run (m : Mon) : List MLabel → Option Mon
  | [] => some m
  | l :: ls => match m.step l with
    | none => none
    | some m' => m'.run ls

/-- does this step take `t` out of the wait-set of `cv`? -/
def MLabel.wakes (t : Tid) (cv : CvId) : MLabel → Bool
  | .signal _ c (some w) => c = cv && w = t
  | .broadcast _ c => c = cv
  | .spurious c w => c = cv && w = t
  | _ => false

/-! ## (b) wrapper mapping of `pcondvariable-posix.c` / `pmutex-posix.c` -/

/-- symbolic pointers, as they appear in the native call log -/
inductive Ptr where
  | null
  | cond (off : Nat)    -- address of the `PCondVariable` object + off
  | mutex (off : Nat)   -- address of the `PMutex` object + off
  | unknown
  deriving DecidableEq, Repr

/-- what the caller passed for a parameter -/
inductive Obj where
  | nullp | condObj | mutexObj
  deriving DecidableEq, Repr

structure NCall where
  fn : NFn
  args : List Ptr
  deriving DecidableEq, Repr

def fieldOffset (l : Layout) (f : String) : Option Nat :=
  (l.fields.find? (fun x => x.name = f)).map (·.offset)

/-- evaluate an argument expression of a call site over the generated layouts -/
def evalArg (mx cv : Layout) (env : String → Option Obj) : Arg → Ptr
  | .null => .null
  | .cast p =>
    match env p with
    | some .condObj => .cond 0
    | some .mutexObj => .mutex 0
    | some .nullp => .null
    | none => .unknown
  | .field p f =>
    match env p with
    | some .condObj => match fieldOffset cv f with | some o => .cond o | none => .unknown
    | some .mutexObj => match fieldOffset mx f with | some o => .mutex o | none => .unknown
    | _ => .unknown
  | .other _ => .unknown

/-- the facts about the source the wrapper model runs on -/
structure Facts where
  pmutex : Layout
  pcond : Layout
  wait : BoolWrap
  signal : BoolWrap
  broadcast : BoolWrap
  mutexLock : BoolWrap
  mutexTrylock : BoolWrap
  mutexUnlock : BoolWrap
  condNew : NewWrap
  mutexNew : NewWrap
  condFree : FreeWrap
  mutexFree : FreeWrap

/-- the facts of the current working tree -/
def generated : Facts :=
  { pmutex := Generated.CondVar.pmutex, pcond := Generated.CondVar.pcond,
    wait := Generated.CondVar.wait, signal := Generated.CondVar.signal,
    broadcast := Generated.CondVar.broadcast, mutexLock := Generated.CondVar.mutexLock,
    mutexTrylock := Generated.CondVar.mutexTrylock, mutexUnlock := Generated.CondVar.mutexUnlock,
    condNew := Generated.CondVar.condNew, mutexNew := Generated.CondVar.mutexNew,
    condFree := Generated.CondVar.condFree, mutexFree := Generated.CondVar.mutexFree }

/-- what the property requires of the mapping (the SPEC column of the driver): the three
    condition-variable calls reach `pthread_cond_wait / signal / broadcast` with the handle of the
    cond object, `wait` passes the very pointer `p_mutex_lock` hands to `pthread_mutex_lock`,
    results are TRUE exactly for native 0; constructors return NULL and release the block when the
    native init fails; destructors always release the block.  Layouts and the lock/unlock side are
    taken as they are. -/
def specOf (f : Facts) : Facts :=
  { f with
    wait := { cfun := "p_cond_variable_wait", nullChecks := ["cond", "mutex"], native := .cond_wait,
              args := [.field "cond" "hdl"] ++ f.mutexLock.args.take 1, trueIffZero := true },
    -- "wakes at least one": a signal implemented with pthread_cond_broadcast also satisfies it
    signal := { cfun := "p_cond_variable_signal", nullChecks := ["cond"],
                native := if f.signal.native = .cond_broadcast then .cond_broadcast else .cond_signal,
                args := [.field "cond" "hdl"], trueIffZero := true },
    broadcast := { cfun := "p_cond_variable_broadcast", nullChecks := ["cond"], native := .cond_broadcast,
                   args := [.field "cond" "hdl"], trueIffZero := true },
    -- constructors / destructors: NULL on any failure, nothing leaked, the block always released
    condNew := { f.condNew with native := .cond_init, allocSizeOfOwnType := true, nullOnAllocFail := true,
                                freesOnInitFail := true, nullOnInitFail := true },
    mutexNew := { f.mutexNew with native := .mutex_init, allocSizeOfOwnType := true, nullOnAllocFail := true,
                                  freesOnInitFail := true, nullOnInitFail := true },
    condFree := { f.condFree with native := .cond_destroy, nullChecks := ["cond"], freesAlways := true },
    mutexFree := { f.mutexFree with native := .mutex_destroy, nullChecks := ["mutex"], freesAlways := true } }

/-- result of a `pboolean` wrapper: `none` = the translator did not understand the mapping -/
structure BoolRes where
  ret : Option Bool
  calls : List NCall
  deriving DecidableEq, Repr

/-- transliteration of the `pboolean` wrappers: NULL checks first (→ FALSE, no native call), then
    ONE native call with the evaluated arguments; TRUE iff it returned 0 -/
def runBool (f : Facts) (w : BoolWrap) (env : String → Option Obj) (rc : Int) : BoolRes :=
  if w.nullChecks.any (fun p => env p == some .nullp) then { ret := some false, calls := [] }
  else
    { ret := if w.trueIffZero then some (rc == 0) else none,
      calls := [{ fn := w.native, args := w.args.map (evalArg f.pmutex f.pcond env) }] }

def envCM (c m : Obj) : String → Option Obj
  | "cond" => some c
  | "mutex" => some m
  | _ => none

def envRet (o : Obj) : String → Option Obj
  | "ret" => some o
  | _ => none

def pCondWait (f : Facts) (c m : Obj) (rc : Int) : BoolRes := runBool f f.wait (envCM c m) rc
def pCondSignal (f : Facts) (c : Obj) (rc : Int) : BoolRes := runBool f f.signal (envCM c .nullp) rc
def pCondBroadcast (f : Facts) (c : Obj) (rc : Int) : BoolRes := runBool f f.broadcast (envCM c .nullp) rc
def pMutexLock (f : Facts) (m : Obj) (rc : Int) : BoolRes := runBool f f.mutexLock (envCM .nullp m) rc
def pMutexTrylock (f : Facts) (m : Obj) (rc : Int) : BoolRes := runBool f f.mutexTrylock (envCM .nullp m) rc
def pMutexUnlock (f : Facts) (m : Obj) (rc : Int) : BoolRes := runBool f f.mutexUnlock (envCM .nullp m) rc

/-- result of a constructor: is an object returned, native calls, is the block released again -/
structure NewRes where
  obj : Bool
  calls : List NCall
  freed : Bool
  deriving DecidableEq, Repr

/-- `p_cond_variable_new` / `p_mutex_new`: allocation failure → NULL, no native call;
    native init failure → (as the source says) free the block, return NULL -/
def runNew (f : Facts) (w : NewWrap) (o : Obj) (allocFails : Bool) (rc : Int) : NewRes :=
  if allocFails then { obj := !w.nullOnAllocFail, calls := [], freed := false }
  else
    let c : NCall := { fn := w.native, args := w.args.map (evalArg f.pmutex f.pcond (envRet o)) }
    if rc == 0 then { obj := true, calls := [c], freed := false }
    else { obj := !w.nullOnInitFail, calls := [c], freed := w.freesOnInitFail }

structure FreeRes where
  calls : List NCall
  freed : Bool
  deriving DecidableEq, Repr

/-- `p_cond_variable_free` / `p_mutex_free`: NULL → nothing; else destroy the handle and release
    the block (whatever destroy returned) -/
def runFree (f : Facts) (w : FreeWrap) (env : String → Option Obj) : FreeRes :=
  if w.nullChecks.any (fun p => env p == some .nullp) then { calls := [], freed := false }
  else { calls := [{ fn := w.native, args := w.args.map (evalArg f.pmutex f.pcond env) }], freed := w.freesAlways }

/-- offset of the native handle inside the object: the field whose type is the native type -/
def handleOffset (l : Layout) : Option Nat := (l.fields.find? (·.isNative)).map (·.offset)

/-- Meaning of a logged native call of thread `t` in the monitor, for the cond object that stands
    for condition variable `cv` and the `PMutex` that stands for the monitor's mutex.  A call that
    does not address the native handle of the object (wrong offset) has no meaning (`none`):
    pthread would operate on something that is not the mutex the thread locked. -/
def interp (f : Facts) (t : Tid) (cv : CvId) (choice : Option Tid) (m : Mon) (c : NCall) : Option Mon :=
  let ch := handleOffset f.pcond
  let mh := handleOffset f.pmutex
  match c.fn, c.args with
  | .cond_wait, [.cond o, .mutex k] => if some o = ch ∧ some k = mh then m.wait t cv else none
  | .cond_signal, [.cond o] => if some o = ch then m.signal cv choice else none
  | .cond_broadcast, [.cond o] => if some o = ch then some (m.broadcast cv) else none
  | .mutex_lock, [.mutex k] => if some k = mh then m.lock t else none
  | .mutex_unlock, [.mutex k] => if some k = mh then m.unlock t else none
  | _, _ => none

/-! ## (c) client 1: N producers / M consumers over a bounded FIFO buffer

```
consumer:  lock (mx);                        producer:  lock (mx);
           while (empty) wait (notEmpty, mx);            while (full) wait (notFull, mx);
           take;                                         put;
           signal|broadcast (notFull);                   signal|broadcast (notEmpty);
           unlock (mx);                                  unlock (mx);
```
Thread ids are positions in the thread list; any list of producers and consumers with any item
counts is an initial state. -/

inductive Role where
  | producer | consumer
  deriving DecidableEq, Repr

/-- program counters.  `start`: outside the critical section (finished when `rem = 0`);
    `check`: holds the mutex, about to evaluate the loop predicate;  `inwait`: inside
    `p_cond_variable_wait` (in the wait-set or woken — the monitor knows which);
    `sig`: holds the mutex, has put/taken, about to signal;  `unl`: about to unlock -/
inductive PC where
  | start | check | inwait | sig | unl
  deriving DecidableEq, Repr

structure Thr where
  role : Role
  pc : PC
  /-- items still to produce / consume -/
  rem : Nat
  deriving DecidableEq, Repr

/-- items carry the producer's id and a sequence number -/
abbrev Item := Nat × Nat

structure Cfg where
  /-- buffer capacity -/
  cap : Nat
  /-- notify with `broadcast` instead of `signal` -/
  bcast : Bool
  /-- `true`: `while (pred) wait` (the correct client);  `false`: `if (pred) wait` — the broken
      client that acts right after `wait` returns, without re-checking -/
  recheck : Bool
  deriving DecidableEq, Repr

structure PCState where
  mon : Mon
  thr : List Thr
  /-- the queue -/
  buf : List Item
  /-- ghost: everything ever put, in order -/
  produced : List Item
  /-- ghost: everything ever taken, in order -/
  consumed : List Item
  /-- a take on an empty buffer or a put on a full one was executed -/
  bad : Bool

/-- notEmpty = 0, notFull = 1 -/
def Role.waitCv : Role → CvId
  | .consumer => 0
  | .producer => 1

def Role.sigCv : Role → CvId
  | .consumer => 1
  | .producer => 0

/-- the loop predicate `while (blocked) wait` -/
def blocked (cfg : Cfg) (r : Role) (buf : List Item) : Bool :=
  match r with
  | .consumer => buf.isEmpty
  | .producer => decide (cfg.cap ≤ buf.length)

inductive Label where
  | lock (i : Tid)
  /-- evaluate the predicate under the mutex: wait, or put/take -/
  | check (i : Tid)
  /-- signal (with the waiter the implementation picks) or broadcast -/
  | signal (i : Tid) (w : Option Tid)
  | unlock (i : Tid)
  | reacquire (i : Tid)
  | spurious (i : Tid)
  deriving DecidableEq, Repr

def Label.isSpurious : Label → Bool
  | .spurious _ => true
  | _ => false

/-- the put / take of thread `i` (unconditional: the caller has evaluated the predicate) -/
def act (cfg : Cfg) (s : PCState) (i : Tid) (th : Thr) : PCState :=
  let thr' := s.thr.set i { th with pc := .sig, rem := th.rem - 1 }
  match th.role with
  | .producer =>
    { s with thr := thr', buf := s.buf ++ [(i, th.rem)], produced := s.produced ++ [(i, th.rem)],
             bad := s.bad || decide (cfg.cap ≤ s.buf.length) }
  | .consumer =>
    match s.buf with
    | [] => { s with thr := thr', bad := true }
    | it :: rest => { s with thr := thr', buf := rest, consumed := s.consumed ++ [it] }

def execLock (s : PCState) (i : Tid) : Option PCState :=
  match s.thr[i]? with
  | none => none
  | some th =>
    if th.pc = .start ∧ 0 < th.rem then
      match s.mon.lock i with
      | none => none
      | some m => some { s with mon := m, thr := s.thr.set i { th with pc := .check } }
    else none

def execCheck (cfg : Cfg) (s : PCState) (i : Tid) : Option PCState :=
  match s.thr[i]? with
  | none => none
  | some th =>
    if th.pc = .check then
      if blocked cfg th.role s.buf then
        match s.mon.wait i th.role.waitCv with
        | none => none
        | some m => some { s with mon := m, thr := s.thr.set i { th with pc := .inwait } }
      else some (act cfg s i th)
    else none

def execSignal (cfg : Cfg) (s : PCState) (i : Tid) (w : Option Tid) : Option PCState :=
  match s.thr[i]? with
  | none => none
  | some th =>
    if th.pc = .sig then
      if cfg.bcast then
        if w = none then
          some { s with mon := s.mon.broadcast th.role.sigCv, thr := s.thr.set i { th with pc := .unl } }
        else none
      else
        match s.mon.signal th.role.sigCv w with
        | none => none
        | some m => some { s with mon := m, thr := s.thr.set i { th with pc := .unl } }
    else none

def execUnlock (s : PCState) (i : Tid) : Option PCState :=
  match s.thr[i]? with
  | none => none
  | some th =>
    if th.pc = .unl then
      match s.mon.unlock i with
      | none => none
      | some m => some { s with mon := m, thr := s.thr.set i { th with pc := .start } }
    else none

def execReacquire (cfg : Cfg) (s : PCState) (i : Tid) : Option PCState :=
  match s.thr[i]? with
  | none => none
  | some th =>
    if th.pc = .inwait then
      match s.mon.reacquire th.role.waitCv i with
      | none => none
      | some m =>
        if cfg.recheck then some { s with mon := m, thr := s.thr.set i { th with pc := .check } }
        else some (act cfg { s with mon := m } i th)
    else none

def execSpurious (s : PCState) (i : Tid) : Option PCState :=
  match s.thr[i]? with
  | none => none
  | some th =>
    if th.pc = .inwait then
      match s.mon.spurious th.role.waitCv i with
      | none => none
      | some m => some { s with mon := m }
    else none

/-- the transition function of the client system (`none` = step not enabled) -/
def exec (cfg : Cfg) (s : PCState) : Label → Option PCState
  | .lock i => execLock s i
  | .check i => execCheck cfg s i
  | .signal i w => execSignal cfg s i w
  | .unlock i => execUnlock s i
  | .reacquire i => execReacquire cfg s i
  | .spurious i => execSpurious s i

def runLabels (cfg : Cfg) (s : PCState) : List Label → Option PCState
  | [] => some s
  | l :: ls => match exec cfg s l with
    | none => none
    | some s' => runLabels cfg s' ls

def mkThreads (ps cs : List Nat) : List Thr :=
  ps.map (fun n => { role := .producer, pc := .start, rem := n }) ++
  cs.map (fun n => { role := .consumer, pc := .start, rem := n })

def initState (thr : List Thr) : PCState :=
  { mon := Mon.init, thr := thr, buf := [], produced := [], consumed := [], bad := false }

def Thr.finished (t : Thr) : Bool := t.pc = .start && t.rem = 0

def isFinal (s : PCState) : Bool := s.thr.all Thr.finished

/-- candidate labels of thread `i` (every label that could be enabled for it) -/
def candidates (s : PCState) (i : Tid) : List Label :=
  match s.thr[i]? with
  | none => []
  | some th =>
    [.lock i, .check i, .unlock i, .reacquire i, .spurious i, .signal i none] ++
    (s.mon.wset th.role.sigCv).map (fun w => Label.signal i (some w))

/-- all enabled labels of a state -/
def enabled (cfg : Cfg) (s : PCState) : List Label :=
  ((List.range s.thr.length).flatMap (candidates s)).filter (fun l => (exec cfg s l).isSome)

/-- the safety observations of one state (used by the scheduler-driven runs) -/
def safeNow (cfg : Cfg) (s : PCState) : Bool :=
  !s.bad && decide (s.buf.length ≤ cfg.cap) && decide (s.produced = s.consumed ++ s.buf)

/-- scheduler-driven run: at every step the `pick`-th enabled label (mod their number) is taken;
    spurious steps only while `spur` budget remains.  Returns the final state, the number of steps
    and whether every visited state was safe; stops when nothing (non-spurious) is enabled. -/
def schedRun (cfg : Cfg) (pick : Nat → Nat) : Nat → Nat → Nat → PCState → Bool → (PCState × Nat × Bool)
  | 0, n, _, s, ok => (s, n, ok)
  | fuel + 1, n, spur, s, ok =>
    let en := (enabled cfg s).filter (fun l => !l.isSpurious || decide (0 < spur))
    if en.all Label.isSpurious then (s, n, ok)      -- only spurious wake-ups (or nothing) left
    else
      match en[pick n % en.length]? with
      | none => (s, n, ok)
      | some l =>
        match exec cfg s l with
        | none => (s, n, false)
        | some s' => schedRun cfg pick fuel (n + 1) (if l.isSpurious then spur - 1 else spur) s' (ok && safeNow cfg s')

/-! ## (c) client 2: the event counter

```
signaller:  lock; events++; signal (cv); unlock            (rem times)
waiter:     lock; while (events == consumed) wait (cv); consumed++; unlock   (rem times)
```
-/

inductive ERole where
  | signaller | waiter
  deriving DecidableEq, Repr

inductive EPC where
  | start | inc | sig | check | inwait | unl
  deriving DecidableEq, Repr

structure EThr where
  role : ERole
  pc : EPC
  rem : Nat
  deriving DecidableEq, Repr

/-- first pc inside the critical section -/
def ERole.entry : ERole → EPC
  | .signaller => .inc
  | .waiter => .check

structure EState where
  mon : Mon
  thr : List EThr
  events : Nat
  consumed : Nat

inductive ELabel where
  | lock (i : Tid)
  /-- the step under the mutex: `events++` (signaller), predicate + wait/consume (waiter) -/
  | step (i : Tid)
  | signal (i : Tid) (w : Option Tid)
  | unlock (i : Tid)
  | reacquire (i : Tid)
  | spurious (i : Tid)
  deriving DecidableEq, Repr

def eexec (s : EState) : ELabel → Option EState
  | .lock i =>
    match s.thr[i]? with
    | none => none
    | some th =>
      if th.pc = .start ∧ 0 < th.rem then
        match s.mon.lock i with
        | none => none
        | some m =>
          some { s with mon := m, thr := s.thr.set i { th with pc := th.role.entry } }
      else none
  | .step i =>
    match s.thr[i]? with
    | none => none
    | some th =>
      if th.pc = .inc then
        some { s with events := s.events + 1, thr := s.thr.set i { th with pc := .sig, rem := th.rem - 1 } }
      else if th.pc = .check then
        if s.events ≤ s.consumed then
          match s.mon.wait i 0 with
          | none => none
          | some m => some { s with mon := m, thr := s.thr.set i { th with pc := .inwait } }
        else some { s with consumed := s.consumed + 1, thr := s.thr.set i { th with pc := .unl, rem := th.rem - 1 } }
      else none
  | .signal i w =>
    match s.thr[i]? with
    | none => none
    | some th =>
      if th.pc = .sig then
        match s.mon.signal 0 w with
        | none => none
        | some m => some { s with mon := m, thr := s.thr.set i { th with pc := .unl } }
      else none
  | .unlock i =>
    match s.thr[i]? with
    | none => none
    | some th =>
      if th.pc = .unl then
        match s.mon.unlock i with
        | none => none
        | some m => some { s with mon := m, thr := s.thr.set i { th with pc := .start } }
      else none
  | .reacquire i =>
    match s.thr[i]? with
    | none => none
    | some th =>
      if th.pc = .inwait then
        match s.mon.reacquire 0 i with
        | none => none
        | some m => some { s with mon := m, thr := s.thr.set i { th with pc := .check } }
      else none
  | .spurious i =>
    match s.thr[i]? with
    | none => none
    | some th =>
      if th.pc = .inwait then
        match s.mon.spurious 0 i with
        | none => none
        | some m => some { s with mon := m }
      else none

def einit (thr : List EThr) : EState := { mon := Mon.init, thr := thr, events := 0, consumed := 0 }

end PV.CondVar

import PV.Generated.IPCSysV
/-!
Model of `/repo/src/psemaphore-sysv.c`, `/repo/src/pshm-sysv.c` and the key-file functions of
`/repo/src/pipc.c` over an abstract System V machine (the trusted contract, DESIGN "### System V model"):

* key files: `files : KeyFile → Option Ino`; `open (O_CREAT|O_EXCL)` makes a file with an inode number,
  `unlink` frees the number; whether the next creation REUSES the most recently freed number is the
  oracle `OS.reuse` (tmpfs: never, ext4/xfs: yes — finding F15); `ftok` is a function of the inode.
* semaphore sets: `semKeys : Key → Option SemId`, `sems : SemId → SemSet` (value, per-process SEM_UNDO
  adjustments, alive).  `IPC_RMID` removes a set at once: its key is free again and every later call on
  the id fails with EINVAL.  `semop` may be interrupted (EINTR: scripted) or block.
* shared segments: `shmKeys`, `segs` (bytes, attach count, marked-for-removal, alive).  `IPC_RMID` frees
  the key at once, the segment lives until the last detach.
* library calls are machines `next : σ → Sys`, `after : σ → Res → Out …` issuing the system calls in the
  order and with the flags of the C code (flags, commands, errno tests and sembuf objects are the facts of
  `PV.Generated.IPCSysV`).  Crash points are step indices; `G.kill` is SIGKILL (SEM_UNDO adjustments are
  applied, attachments vanish, nothing else is cleaned up).
* handles hold the fields of the C structs (`PSem`, `PShm`); an acquire / release that runs into
  EIDRM / EINVAL rewrites the struct in place ("trying to recreate").
-/
namespace PV.SysV
open PV.Generated.IPCSysV

inductive KeyFile where
  | sem (n : Nat)        -- key file of p_semaphore_new (name_n)
  | shm (n : Nat)        -- key file of p_shm_new (name_n)
  | lock (n : Nat)       -- key file of the lock semaphore of segment name n
deriving DecidableEq, Repr

abbrev Ino := Nat
abbrev Key := Nat
abbrev SemId := Nat
abbrev SegId := Nat
abbrev Pid := Nat
abbrev Tid := Nat
abbrev Hid := Nat

inductive Errno where
  | EINTR | EEXIST | ENOENT | EINVAL | EIDRM | ERANGE | EACCES
deriving DecidableEq, Repr

def Errno.num : Errno → Nat
  | .EINTR => PV.Generated.IPCSysV.EINTR
  | .EEXIST => PV.Generated.IPCSysV.EEXIST
  | .ENOENT => PV.Generated.IPCSysV.ENOENT
  | .EINVAL => PV.Generated.IPCSysV.EINVAL
  | .EIDRM => PV.Generated.IPCSysV.EIDRM
  | .ERANGE => PV.Generated.IPCSysV.ERANGE
  | .EACCES => PV.Generated.IPCSysV.EACCES

/-- result of one system call -/
inductive Res where
  | ok (v : Nat)                  -- 0, a descriptor, a key, an id, an address
  | stat (size nattch : Nat)      -- shmctl IPC_STAT
  | err (e : Errno)
  | block                         -- semop has to wait: the caller stays inside the call
deriving DecidableEq, Repr

structure SemSet where
  value : Nat := 0
  adj : Pid → Int := fun _ => 0   -- SEM_UNDO adjustment per process
  alive : Bool := false

structure Seg where
  bytes : List UInt8 := []
  nattch : Nat := 0
  rmid : Bool := false            -- marked by IPC_RMID, waiting for the last detach
  alive : Bool := false
  name : Nat := 0                 -- ghost: the key-file name it was created under

structure Att where
  addr : Nat
  seg : SegId
  ro : Bool
deriving DecidableEq, Repr

structure Proc where
  alive : Bool := true
  atts : List Att := []
  nextAddr : Nat := 1
deriving Repr

structure OS where
  files : KeyFile → Option Ino
  nextIno : Nat
  freed : List Ino                -- unlinked inode numbers, most recent first
  reuse : Bool                    -- oracle: a creation takes the most recently freed inode number
  semKeys : Key → Option SemId
  sems : SemId → SemSet
  nextSem : Nat
  shmKeys : Key → Option SegId
  segs : SegId → Seg
  nextSeg : Nat
  procs : Pid → Proc

def OS.init (reuse : Bool := false) : OS :=
  { files := fun _ => none, nextIno := 1, freed := [], reuse := reuse,
    semKeys := fun _ => none, sems := fun _ => {}, nextSem := 0,
    shmKeys := fun _ => none, segs := fun _ => {}, nextSeg := 0, procs := fun _ => {} }

/-! ## system calls -/

inductive Sys where
  | open (f : KeyFile) (flags mode : Nat)
  | close (fd : Nat)
  | stat (f : KeyFile)
  | ftok (f : KeyFile) (proj : Nat)
  | unlink (f : KeyFile)
  | semget (key : Key) (nsems flags : Nat)
  | semctl (id : Option SemId) (cmd v : Nat)
  | semop (id : Option SemId) (num : Nat) (op : Int) (flg : Nat)
  | shmget (key : Key) (size flags : Nat)
  | shmctl (id : Option SegId) (cmd : Nat)
  | shmat (id : Option SegId) (flags : Nat)
  | shmdt (addr : Option Nat)
deriving DecidableEq, Repr

/-- where the contract allows EINTR (the only call the code retries) -/
def Sys.interruptible : Sys → Bool
  | .semop .. => true
  | _ => false

def hasFlag (flags f : Nat) : Bool := flags &&& f == f

/-- `ftok (file, proj)`: a function of the inode number (device and `proj` are the same for all key files) -/
def ftokOf (i : Ino) : Key := i

def OS.setProc (os : OS) (p : Pid) (pr : Proc) : OS :=
  { os with procs := fun q => if q = p then pr else os.procs q }

def OS.setSem (os : OS) (i : SemId) (s : SemSet) : OS :=
  { os with sems := fun j => if j = i then s else os.sems j }

def OS.setSeg (os : OS) (i : SegId) (s : Seg) : OS :=
  { os with segs := fun j => if j = i then s else os.segs j }

/-- `open (file, O_CREAT|O_EXCL|…)` of a key file -/
def openF (os : OS) (f : KeyFile) (flags : Nat) : OS × Res :=
  match os.files f with
  | some _ => if hasFlag flags O_CREAT && hasFlag flags O_EXCL then (os, .err .EEXIST) else (os, .ok 3)
  | none =>
    if hasFlag flags O_CREAT then
      match os.reuse, os.freed with
      | true, i :: rest => ({ os with files := fun g => if g = f then some i else os.files g, freed := rest }, .ok 3)
      | _, _ => ({ os with files := fun g => if g = f then some os.nextIno else os.files g, nextIno := os.nextIno + 1 }, .ok 3)
    else (os, .err .ENOENT)

def unlinkF (os : OS) (f : KeyFile) : OS × Res :=
  match os.files f with
  | some i => ({ os with files := fun g => if g = f then none else os.files g, freed := i :: os.freed }, .ok 0)
  | none => (os, .err .ENOENT)

def semgetF (os : OS) (k : Key) (flags : Nat) : OS × Res :=
  match os.semKeys k with
  | some i => if hasFlag flags IPC_CREAT && hasFlag flags IPC_EXCL then (os, .err .EEXIST) else (os, .ok i)
  | none =>
    if hasFlag flags IPC_CREAT then
      let i := os.nextSem
      ({ os with semKeys := fun k' => if k' = k then some i else os.semKeys k',
                 sems := fun j => if j = i then { value := 0, alive := true } else os.sems j,
                 nextSem := i + 1 }, .ok i)
    else (os, .err .ENOENT)

def semAlive (os : OS) (id : Option SemId) : Option SemId :=
  match id with
  | some i => if (os.sems i).alive then some i else none
  | none => none

/-- `semctl (id, 0, SETVAL, v)` (clears every undo adjustment) / `semctl (id, 0, IPC_RMID)` -/
def semctlF (os : OS) (id : Option SemId) (cmd v : Nat) : OS × Res :=
  match semAlive os id with
  | none => (os, .err .EINVAL)
  | some i =>
    if cmd = SETVAL then
      if v > SEMVMX then (os, .err .ERANGE)
      else (os.setSem i { (os.sems i) with value := v, adj := fun _ => 0 }, .ok 0)
    else if cmd = IPC_RMID then
      ({ os.setSem i { (os.sems i) with alive := false } with
           semKeys := fun k => if os.semKeys k = some i then none else os.semKeys k }, .ok 0)
    else (os, .err .EINVAL)

/-- `semop (id, {num, op, flg}, 1)` of process `p` -/
def semopF (os : OS) (p : Pid) (id : Option SemId) (op : Int) (flg : Nat) : OS × Res :=
  match semAlive os id with
  | none => (os, .err .EINVAL)
  | some i =>
    let s := os.sems i
    let undo (d : Int) : Pid → Int := if hasFlag flg SEM_UNDO then (fun q => if q = p then s.adj p - d else s.adj q) else s.adj
    if op < 0 then
      if s.value < op.natAbs then (os, .block)
      else (os.setSem i { s with value := s.value - op.natAbs, adj := undo op }, .ok 0)
    else if op = 0 then
      if s.value = 0 then (os, .ok 0) else (os, .block)
    else
      if s.value + op.natAbs > SEMVMX then (os, .err .ERANGE)
      else (os.setSem i { s with value := s.value + op.natAbs, adj := undo op }, .ok 0)

def shmgetF (os : OS) (k : Key) (size flags : Nat) (name : Nat) : OS × Res :=
  match os.shmKeys k with
  | some i => if hasFlag flags IPC_CREAT && hasFlag flags IPC_EXCL then (os, .err .EEXIST) else (os, .ok i)
  | none =>
    if hasFlag flags IPC_CREAT then
      if size = 0 then (os, .err .EINVAL) else
      let i := os.nextSeg
      ({ os with shmKeys := fun k' => if k' = k then some i else os.shmKeys k',
                 segs := fun j => if j = i then { bytes := List.replicate size 0, alive := true, name := name } else os.segs j,
                 nextSeg := i + 1 }, .ok i)
    else (os, .err .ENOENT)

def segAlive (os : OS) (id : Option SegId) : Option SegId :=
  match id with
  | some i => if (os.segs i).alive then some i else none
  | none => none

def shmctlF (os : OS) (id : Option SegId) (cmd : Nat) : OS × Res :=
  match segAlive os id with
  | none => (os, .err .EINVAL)
  | some i =>
    let s := os.segs i
    if cmd = IPC_STAT then (os, .stat s.bytes.length s.nattch)
    else if cmd = IPC_RMID then
      ({ os.setSeg i (if s.nattch = 0 then { s with alive := false, rmid := true } else { s with rmid := true }) with
           shmKeys := fun k => if os.shmKeys k = some i then none else os.shmKeys k }, .ok 0)
    else (os, .err .EINVAL)

def shmatF (os : OS) (p : Pid) (id : Option SegId) (flags : Nat) : OS × Res :=
  match segAlive os id with
  | none => (os, .err .EINVAL)
  | some i =>
    let pr := os.procs p
    let a : Att := { addr := pr.nextAddr, seg := i, ro := hasFlag flags SHM_RDONLY && flags != 0 }
    ((os.setSeg i { (os.segs i) with nattch := (os.segs i).nattch + 1 }).setProc p
        { pr with atts := a :: pr.atts, nextAddr := pr.nextAddr + 1 }, .ok a.addr)

/-- one detach of segment `i` -/
def Seg.detach (s : Seg) : Seg :=
  if s.rmid && s.nattch - 1 = 0 then { s with nattch := 0, alive := false } else { s with nattch := s.nattch - 1 }

def shmdtF (os : OS) (p : Pid) (addr : Option Nat) : OS × Res :=
  let pr := os.procs p
  match addr.bind fun a => pr.atts.find? (·.addr = a) with
  | none => (os, .err .EINVAL)
  | some a =>
    ((os.setSeg a.seg (os.segs a.seg).detach).setProc p { pr with atts := pr.atts.filter (·.addr ≠ a.addr) }, .ok 0)

/-- one system call of process `p`; `intr`: the environment interrupts it (only where allowed).
    `name`: ghost argument of shmget (the key-file name, for the observer's view) -/
def sysStep (p : Pid) (intr : Bool) (c : Sys) (os : OS) (name : Nat := 0) : OS × Res :=
  if intr && c.interruptible then (os, .err .EINTR) else
  match c with
  | .open f flags _ => openF os f flags
  | .close _ => (os, .ok 0)
  | .stat f => (match os.files f with | some _ => (os, .ok 0) | none => (os, .err .ENOENT))
  | .ftok f _ => (match os.files f with | some i => (os, .ok (ftokOf i)) | none => (os, .err .ENOENT))
  | .unlink f => unlinkF os f
  | .semget k _ flags => semgetF os k flags
  | .semctl id cmd v => semctlF os id cmd v
  | .semop id _ op flg => semopF os p id op flg
  | .shmget k size flags => shmgetF os k size flags name
  | .shmctl id cmd => shmctlF os id cmd
  | .shmat id flags => shmatF os p id flags
  | .shmdt addr => shmdtF os p addr

def clampVal (v : Int) : Nat := if v < 0 then 0 else if v.toNat > SEMVMX then SEMVMX else v.toNat

/-- SIGKILL / exit of process `p`: its SEM_UNDO adjustments are applied to every live set, its attachments vanish -/
def OS.kill (os : OS) (p : Pid) : OS :=
  let cnt (i : SegId) : Nat := ((os.procs p).atts.filter (·.seg = i)).length
  { os with
    sems := fun i =>
      let s := os.sems i
      if s.alive then { s with value := clampVal ((s.value : Int) + s.adj p), adj := fun q => if q = p then 0 else s.adj q } else s,
    segs := fun i =>
      let s := os.segs i
      if cnt i = 0 then s
      else if s.rmid && s.nattch - cnt i = 0 then { s with nattch := 0, alive := false } else { s with nattch := s.nattch - cnt i },
    procs := fun q => if q = p then { (os.procs p) with alive := false, atts := [] } else os.procs q }

/-! ## memory access through an attachment -/

inductive Access where
  | val (b : UInt8)
  | fault
deriving DecidableEq, Repr

def findAtt (pr : Proc) (addr : Nat) : Option Att := pr.atts.find? (·.addr = addr)

def OS.load (os : OS) (p : Pid) (addr off : Nat) : Access :=
  match findAtt (os.procs p) addr with
  | some a => (match (os.segs a.seg).bytes[off]? with | some b => .val b | none => .fault)
  | none => .fault

def OS.store (os : OS) (p : Pid) (addr off : Nat) (b : UInt8) : Option OS :=
  match findAtt (os.procs p) addr with
  | some a =>
    if off < (os.segs a.seg).bytes.length ∧ a.ro = false then
      some (os.setSeg a.seg { (os.segs a.seg) with bytes := (os.segs a.seg).bytes.set off b })
    else none
  | none => none

/-! ## library calls as machines -/

inductive Out (σ ρ : Type) where
  | cont (s : σ)
  | done (r : ρ)

inductive Mode where
  | open | create
deriving DecidableEq, Repr

/-- `struct PSemaphore_` (`unix_key`, `sem_hdl`: `none` = -1) -/
structure PSem where
  fileCreated : Bool := false
  semCreated : Bool := false
  unixKey : Option Key := none
  file : KeyFile
  hdl : Option SemId := none
  mode : Mode
  init : Nat
deriving DecidableEq, Repr

/-- the fields after `pp_semaphore_clean_handle` -/
def PSem.cleaned (h : PSem) : PSem := { h with fileCreated := false, semCreated := false, unixKey := none, hdl := none }

inductive SemApi where
  | new | free | acquire | release
deriving DecidableEq, Repr

inductive SemPC where
  | cOpen | cClose (fd : Nat) | cStat | cFtok | cGetExcl | cGetPlain | cSetval   -- pp_semaphore_create_handle
  | kRmid | kUnlink                                                              -- pp_semaphore_clean_handle
  | op                                                                           -- the semop loop
deriving DecidableEq, Repr

structure SemSt where
  api : SemApi
  h : PSem
  pc : SemPC
  built : Nat := 0                 -- result of p_ipc_unix_create_key_file (0 created, 1 existed)
  failing : Option Errno := none   -- pp_semaphore_create_handle is on a failure path (clean, then return FALSE)
  recreated : Bool := false        -- acquire: the second semop loop
deriving DecidableEq, Repr

/-- (num, op, flg) of the sembuf the call hands to semop -/
def SemSt.buf (s : SemSt) : Nat × Int × Nat := if s.api = .release then releaseBuf else acquireBuf

def SemSt.next (s : SemSt) : Sys :=
  match s.pc with
  | .cOpen => .open s.h.file keyFileOpenFlags keyFileOpenMode
  | .cClose fd => .close fd
  | .cStat => .stat s.h.file
  | .cFtok => .ftok s.h.file ftokProj
  | .cGetExcl => .semget (s.h.unixKey.getD 0) semgetExclNsems semgetExclFlags
  | .cGetPlain => .semget (s.h.unixKey.getD 0) semgetPlainNsems semgetPlainFlags
  | .cSetval => .semctl s.h.hdl semSetvalCmd s.h.init
  | .kRmid => .semctl s.h.hdl semRmidCmd 0
  | .kUnlink => .unlink s.h.file
  | .op => .semop s.h.hdl s.buf.1 s.buf.2.1 s.buf.2.2

abbrev SemOut := Out SemSt (PSem × Except Errno Unit)

/-- `pp_semaphore_create_handle` from its first system call -/
def SemSt.startCreate (s : SemSt) : SemOut := .cont { s with pc := .cOpen, built := 0, failing := none }

/-- what follows `pp_semaphore_clean_handle` (fields already reset) -/
def SemSt.afterClean (s : SemSt) : SemOut :=
  let s := { s with h := s.h.cleaned }
  match s.failing with
  | some e => .done (s.h, .error e)
  | none =>
    match s.api with
    | .free | .new => .done (s.h, .ok ())
    | .acquire | .release => s.startCreate

/-- `pp_semaphore_clean_handle`: IPC_RMID iff `sem_hdl` valid and `sem_created`, unlink iff `file_created` -/
def SemSt.startClean (s : SemSt) : SemOut :=
  if s.h.hdl.isSome && s.h.semCreated then .cont { s with pc := .kRmid }
  else if s.h.fileCreated then .cont { s with pc := .kUnlink }
  else s.afterClean

def SemSt.fail (s : SemSt) (e : Errno) : SemOut := { s with failing := some e }.startClean

/-- `pp_semaphore_create_handle` returned TRUE -/
def SemSt.created (s : SemSt) : SemOut :=
  match s.api with
  | .acquire => .cont { s with pc := .op, recreated := true }
  | _ => .done (s.h, .ok ())        -- new: the handle; release: `return TRUE` without a semop

def SemSt.afterGet (s : SemSt) : SemOut :=
  if s.h.semCreated || s.h.mode = .create then .cont { s with pc := .cSetval } else s.created

def errOf (r : Res) : Errno :=
  match r with
  | .err e => e
  | _ => .EINVAL

def SemSt.after (s : SemSt) (r : Res) : SemOut :=
  match s.pc, r with
  | .cOpen, .ok fd => .cont { s with pc := .cClose fd }
  | .cOpen, .err e =>
    if e.num = keyFileExistsErrno then .cont { s with built := 1, pc := .cStat } else s.fail e
  | .cClose _, _ => .cont { s with built := 0, h := { s.h with fileCreated := true }, pc := .cStat }
  | .cStat, .ok _ => .cont { s with pc := .cFtok }
  | .cStat, r => s.fail (errOf r)
  | .cFtok, .ok k => .cont { s with h := { s.h with unixKey := some k }, pc := .cGetExcl }
  | .cFtok, r => s.fail (errOf r)
  | .cGetExcl, .ok i =>
    { s with h := { s.h with hdl := some i, semCreated := true, fileCreated := (s.built == 1) } }.afterGet
  | .cGetExcl, .err e =>
    if e.num = semgetExistsErrno then .cont { s with h := { s.h with hdl := none }, pc := .cGetPlain }
    else { s with h := { s.h with hdl := none } }.fail e
  | .cGetPlain, .ok i => { s with h := { s.h with hdl := some i } }.afterGet
  | .cGetPlain, r => { s with h := { s.h with hdl := none } }.fail (errOf r)
  | .cSetval, .ok _ => s.created
  | .cSetval, r => s.fail (errOf r)
  | .kRmid, _ => if s.h.fileCreated then .cont { s with pc := .kUnlink } else s.afterClean
  | .kUnlink, _ => s.afterClean
  | .op, .ok _ => .done (s.h, .ok ())
  | .op, .block => .cont s
  | .op, .err e =>
    if e.num = (if s.api = .release then releaseRetryErrno else acquireRetryErrno) then .cont s
    else if !s.recreated && (if s.api = .release then releaseRecreateErrnos else acquireRecreateErrnos).contains e.num then
      s.startClean          -- "trying to recreate": clean, create, (acquire: semop again)
    else .done (s.h, .error e)
  | _, _ => .done (s.h, .error .EINVAL)

/-! ### PShm -/

inductive Addr where
  | null | bad | at (a : Nat)
deriving DecidableEq, Repr

/-- `struct PShm_` -/
structure PShm where
  fileCreated : Bool := false
  unixKey : Option Key := none
  name : Nat
  hdl : Option SegId := some 0     -- p_malloc0: 0, not P_SHM_INVALID_HDL
  addr : Addr := .null
  size : Nat
  sem : Option PSem := none
  ro : Bool
deriving DecidableEq, Repr

def PShm.cleaned (h : PShm) : PShm :=
  { h with fileCreated := false, unixKey := none, hdl := none, addr := .null, size := 0, sem := none }

inductive ShmPC where
  | cOpen | cClose (fd : Nat) | cStat | cFtok | cGetExcl | cGetPlain | cStatSeg | cAt | cSem (s : SemSt)   -- pp_shm_create_handle
  | kDt | kStat | kRmid | kUnlink | kSem (s : SemSt)                                                       -- pp_shm_clean_handle
deriving DecidableEq, Repr

structure ShmSt where
  isNew : Bool                     -- p_shm_new (else p_shm_free)
  h : PShm
  req : Nat := 0                   -- the size argument
  pc : ShmPC
  built : Nat := 0
  isExists : Bool := false
  failing : Option Errno := none
deriving DecidableEq, Repr

def ShmSt.perm (s : ShmSt) : Nat := if s.h.ro then shmPermRO else shmPermRW

def addrOpt : Addr → Option Nat
  | .at a => some a
  | _ => none

def ShmSt.next (s : ShmSt) : Sys :=
  match s.pc with
  | .cOpen => .open (.shm s.h.name) keyFileOpenFlags keyFileOpenMode
  | .cClose fd => .close fd
  | .cStat => .stat (.shm s.h.name)
  | .cFtok => .ftok (.shm s.h.name) ftokProj
  | .cGetExcl => .shmget (s.h.unixKey.getD 0) s.h.size (shmgetExclFlags ||| s.perm)
  | .cGetPlain => .shmget (s.h.unixKey.getD 0) shmgetPlainSize (shmgetPlainFlags ||| s.perm)
  | .cStatSeg => .shmctl s.h.hdl shmStatCmd
  | .cAt => .shmat s.h.hdl (if s.h.ro then shmatFlagsRO else shmatFlagsRW)
  | .cSem st => st.next
  | .kDt => .shmdt (addrOpt s.h.addr)
  | .kStat => .shmctl s.h.hdl shmCleanStatCmd
  | .kRmid => .shmctl s.h.hdl shmRmidCmd
  | .kUnlink => .unlink (.shm s.h.name)
  | .kSem st => st.next

abbrev ShmOut := Out ShmSt (PShm × Except Errno Unit)

def ShmSt.afterClean (s : ShmSt) : ShmOut :=
  let s := { s with h := s.h.cleaned }
  match s.failing with
  | some e => .done (s.h, .error e)
  | none => .done (s.h, .ok ())

/-- `p_semaphore_free (shm->sem)` inside the clean-up -/
def ShmSt.cleanSem (s : ShmSt) : ShmOut :=
  match s.h.sem with
  | none => s.afterClean
  | some ps =>
    match ({ api := .free, h := ps, pc := .kRmid } : SemSt).startClean with
    | .cont st => .cont { s with pc := .kSem st }
    | .done _ => s.afterClean

def ShmSt.cleanFile (s : ShmSt) : ShmOut :=
  if s.h.fileCreated then .cont { s with pc := .kUnlink } else s.cleanSem

def ShmSt.startClean (s : ShmSt) : ShmOut :=
  if s.h.addr != .null then .cont { s with pc := .kDt } else s.cleanFile

def ShmSt.fail (s : ShmSt) (e : Errno) : ShmOut := { s with failing := some e }.startClean

/-- the lock semaphore: `p_semaphore_new (platform_key, shmLockInit, is_exists ? OPEN : CREATE)` -/
def ShmSt.lockSt (s : ShmSt) : SemSt :=
  { api := .new, h := { file := .lock s.h.name, hdl := some 0, mode := if s.isExists then .open else .create, init := shmLockInit }, pc := .cOpen }

/-- the clamp of `p_shm_new` -/
def clampSize (req size : Nat) : Nat := if size > req && req != 0 then req else size

def ShmSt.after (s : ShmSt) (r : Res) : ShmOut :=
  match s.pc, r with
  | .cOpen, .ok fd => .cont { s with pc := .cClose fd }
  | .cOpen, .err e =>
    if e.num = keyFileExistsErrno then .cont { s with built := 1, pc := .cStat } else s.fail e
  | .cClose _, _ => .cont { s with built := 0, h := { s.h with fileCreated := true }, pc := .cStat }
  | .cStat, .ok _ => .cont { s with pc := .cFtok }
  | .cStat, r => s.fail (errOf r)
  | .cFtok, .ok k => .cont { s with h := { s.h with unixKey := some k }, pc := .cGetExcl }
  | .cFtok, r => s.fail (errOf r)
  | .cGetExcl, .ok i => .cont { s with h := { s.h with hdl := some i, fileCreated := (s.built == 1) }, pc := .cStatSeg }
  | .cGetExcl, .err e =>
    if e.num = shmgetExistsErrno then .cont { s with isExists := true, h := { s.h with hdl := none }, pc := .cGetPlain }
    else { s with h := { s.h with hdl := none } }.fail e
  | .cGetPlain, .ok i => .cont { s with h := { s.h with hdl := some i }, pc := .cStatSeg }
  | .cGetPlain, r => { s with h := { s.h with hdl := none } }.fail (errOf r)
  | .cStatSeg, .stat sz _ => .cont { s with h := { s.h with size := sz }, pc := .cAt }
  | .cStatSeg, r => s.fail (errOf r)
  | .cAt, .ok a => .cont { s with h := { s.h with addr := .at a }, pc := .cSem s.lockSt }
  | .cAt, r => { s with h := { s.h with addr := .bad } }.fail (errOf r)
  | .cSem st, r =>
    match st.after r with
    | .cont st' => .cont { s with pc := .cSem st' }
    | .done (ps, .ok ()) => .done ({ s.h with sem := some ps, size := clampSize s.req s.h.size }, .ok ())
    | .done (_, .error e) => s.fail e
  | .kDt, _ => .cont { s with pc := .kStat }
  | .kStat, .stat _ n => if n = 0 then .cont { s with pc := .kRmid } else s.cleanFile
  | .kStat, _ => s.cleanFile      -- shm_stat is not written: the model takes the branch without IPC_RMID
  | .kRmid, _ => s.cleanFile
  | .kUnlink, _ => s.cleanSem
  | .kSem st, r =>
    match st.after r with
    | .cont st' => .cont { s with pc := .kSem st' }
    | .done _ => s.afterClean
  | _, _ => .done (s.h, .error .EINVAL)

/-! ## the whole system -/

inductive Handle where
  | sem (h : PSem)
  | shm (h : PShm)
deriving DecidableEq, Repr

inductive Ret where
  | sem (h : PSem)
  | shm (h : PShm)
  | unit
  | fail (e : Errno)
  | byte (b : UInt8)
  | size (n : Nat)
  | fault
  | bad
deriving DecidableEq, Repr

/-- a library call in flight (between two of its system calls) -/
inductive Call where
  | semNew (hid : Hid) (s : SemSt)
  | semFree (s : SemSt)
  | semOp (hid : Hid) (s : SemSt)                     -- acquire / release through a PSemaphore
  | shmNew (hid : Hid) (s : ShmSt)
  | shmFree (s : ShmSt)
  | lockOp (hid : Hid) (m : PShm) (s : SemSt)         -- p_shm_lock / p_shm_unlock: acquire / release of `m.sem`
deriving DecidableEq, Repr

def Call.next : Call → Sys
  | .semNew _ s => s.next
  | .semFree s => s.next
  | .semOp _ s => s.next
  | .shmNew _ s => s.next
  | .shmFree s => s.next
  | .lockOp _ _ s => s.next

def ShmSt.file (s : ShmSt) : KeyFile :=
  match s.pc with
  | .cSem st => st.h.file
  | .kSem st => st.h.file
  | _ => .shm s.h.name

/-- ghost: the key file the machine is working on (what the harness prints for semget / shmget) -/
def Call.file : Call → KeyFile
  | .semNew _ s => s.h.file
  | .semFree s => s.h.file
  | .semOp _ s => s.h.file
  | .shmNew _ s => s.file
  | .shmFree s => s.file
  | .lockOp _ _ s => s.h.file

/-- ghost: the key-file name a shmget of this call creates a segment under -/
def Call.name : Call → Nat
  | .shmNew _ s => s.h.name
  | _ => 0

def retOf (r : Except Errno Unit) : Ret :=
  match r with
  | .ok () => .unit
  | .error e => .fail e

/-- `cont`: the call goes on; `done (ret, handle slot update)`: `some (hid, some x)` stores the struct, `some (hid, none)` frees the slot -/
def Call.after : Call → Res → Out Call (Ret × Option (Hid × Option Handle))
  | .semNew hid s, r =>
    match s.after r with
    | .cont s' => .cont (.semNew hid s')
    | .done (h, .ok ()) => .done (.sem h, some (hid, some (.sem h)))
    | .done (_, .error e) => .done (.fail e, none)
  | .semFree s, r =>
    match s.after r with
    | .cont s' => .cont (.semFree s')
    | .done _ => .done (.unit, none)
  | .semOp hid s, r =>
    match s.after r with
    | .cont s' => .cont (.semOp hid s')
    | .done (h, x) => .done (retOf x, some (hid, some (.sem h)))
  | .shmNew hid s, r =>
    match s.after r with
    | .cont s' => .cont (.shmNew hid s')
    | .done (h, .ok ()) => .done (.shm h, some (hid, some (.shm h)))
    | .done (_, .error e) => .done (.fail e, none)
  | .shmFree s, r =>
    match s.after r with
    | .cont s' => .cont (.shmFree s')
    | .done _ => .done (.unit, none)
  | .lockOp hid m s, r =>
    match s.after r with
    | .cont s' => .cont (.lockOp hid m s')
    | .done (h, x) => .done (retOf x, some (hid, some (.shm { m with sem := some h })))

/-- ghost: one executed system call -/
structure Ev where
  tid : Tid
  pid : Pid
  sys : Sys
  res : Res
  file : KeyFile := .sem 0
deriving DecidableEq, Repr

structure G where
  os : OS
  pidOf : Tid → Pid
  hs : Hid → Option (Pid × Handle)
  calls : Tid → Option Call
  ret : Tid → Option Ret
  log : List Ev                         -- newest first

def G.init (pidOf : Tid → Pid) (reuse : Bool := false) : G :=
  { os := OS.init reuse, pidOf := pidOf, hs := fun _ => none, calls := fun _ => none, ret := fun _ => none, log := [] }

inductive Op where
  | newSem (h : Hid) (n : Nat) (init : Nat) (m : Mode)
  | acq (h : Hid)
  | rel (h : Hid)
  | own (h : Hid)
  | free (h : Hid)
  | newShm (h : Hid) (n : Nat) (size : Nat) (ro : Bool)
  | lock (h : Hid)
  | unlock (h : Hid)
  | wr (h : Hid) (off : Nat) (b : UInt8)
  | rd (h : Hid) (off : Nat)
  | size (h : Hid)
deriving DecidableEq, Repr

inductive Action where
  | start (t : Tid) (op : Op)
  | step (t : Tid) (intr : Bool)
  | kill (p : Pid)
deriving DecidableEq, Repr

def G.setCall (g : G) (t : Tid) (c : Option Call) : G :=
  { g with calls := fun t' => if t' = t then c else g.calls t' }

def G.setRet (g : G) (t : Tid) (r : Ret) : G :=
  { g with ret := fun t' => if t' = t then some r else g.ret t' }

def G.setHandle (g : G) (h : Hid) (v : Option (Pid × Handle)) : G :=
  { g with hs := fun h' => if h' = h then v else g.hs h' }

def G.handleOf (g : G) (t : Tid) (h : Hid) : Option Handle :=
  match g.hs h with
  | some (p, x) => if p = g.pidOf t then some x else none
  | none => none

/-- a call whose first machine step is decided without a system call -/
def startOut (g : G) (t : Tid) (o : Out Call (Ret × Option (Hid × Option Handle))) : G :=
  match o with
  | .cont c => g.setCall t (some c)
  | .done (ret, nh) =>
    let g' := g.setRet t ret
    match nh with
    | some (hid, some x) => g'.setHandle hid (some (g.pidOf t, x))
    | some (hid, none) => g'.setHandle hid none
    | none => g'

def semFreeStart (s : PSem) : Out Call (Ret × Option (Hid × Option Handle)) :=
  match ({ api := .free, h := s, pc := .kRmid } : SemSt).startClean with
  | .cont st => .cont (.semFree st)
  | .done _ => .done (.unit, none)

def shmFreeStart (m : PShm) : Out Call (Ret × Option (Hid × Option Handle)) :=
  match ({ isNew := false, h := m, pc := .kDt } : ShmSt).startClean with
  | .cont st => .cont (.shmFree st)
  | .done _ => .done (.unit, none)

/-- begin a library call: calls without system calls finish at once -/
def G.start (g : G) (t : Tid) (op : Op) : G :=
  if !(g.os.procs (g.pidOf t)).alive || (g.calls t).isSome then g.setRet t .bad else
  match op with
  | .newSem h n init m =>
    if (g.hs h).isSome then g.setRet t .bad
    else g.setCall t (some (.semNew h { api := .new, h := { file := .sem n, hdl := some 0, mode := m, init := init }, pc := .cOpen }))
  | .newShm h n size ro =>
    if (g.hs h).isSome then g.setRet t .bad
    else g.setCall t (some (.shmNew h { isNew := true, h := { name := n, size := size, ro := ro }, req := size, pc := .cOpen }))
  | .acq h =>
    match g.handleOf t h with
    | some (.sem s) => g.setCall t (some (.semOp h { api := .acquire, h := s, pc := .op }))
    | _ => g.setRet t .bad
  | .rel h =>
    match g.handleOf t h with
    | some (.sem s) => g.setCall t (some (.semOp h { api := .release, h := s, pc := .op }))
    | _ => g.setRet t .bad
  | .lock h =>
    match g.handleOf t h with
    | some (.shm m) =>
      (match m.sem with
       | some s => g.setCall t (some (.lockOp h m { api := .acquire, h := s, pc := .op }))
       | none => g.setRet t .fault)
    | _ => g.setRet t .bad
  | .unlock h =>
    match g.handleOf t h with
    | some (.shm m) =>
      (match m.sem with
       | some s => g.setCall t (some (.lockOp h m { api := .release, h := s, pc := .op }))
       | none => g.setRet t .fault)
    | _ => g.setRet t .bad
  | .own h =>
    match g.handleOf t h with
    | some (.sem s) => (g.setHandle h (some (g.pidOf t, .sem { s with semCreated := true }))).setRet t .unit
    | some (.shm m) =>
      (g.setHandle h (some (g.pidOf t, .shm { m with fileCreated := true, sem := m.sem.map fun s => { s with semCreated := true } }))).setRet t .unit
    | none => g.setRet t .bad
  | .free h =>
    match g.handleOf t h with
    | some (.sem s) => startOut (g.setHandle h none) t (semFreeStart s)
    | some (.shm m) => startOut (g.setHandle h none) t (shmFreeStart m)
    | none => g.setRet t .bad
  | .size h =>
    match g.handleOf t h with
    | some (.shm m) => g.setRet t (.size m.size)
    | _ => g.setRet t .bad
  | .rd h off =>
    match g.handleOf t h with
    | some (.shm m) =>
      (match addrOpt m.addr with
       | some a => (match g.os.load (g.pidOf t) a off with
                    | .val b => g.setRet t (.byte b)
                    | .fault => g.setRet t .fault)
       | none => g.setRet t .fault)
    | _ => g.setRet t .bad
  | .wr h off b =>
    match g.handleOf t h with
    | some (.shm m) =>
      (match (addrOpt m.addr).bind fun a => g.os.store (g.pidOf t) a off b with
       | some os' => { g with os := os' }.setRet t .unit
       | none => g.setRet t .fault)
    | _ => g.setRet t .bad

/-- one system call of the call in flight on thread `t` -/
def G.step (g : G) (t : Tid) (intr : Bool) : G :=
  match g.calls t with
  | none => g
  | some c =>
    let p := g.pidOf t
    let (os', r) := sysStep p intr c.next g.os c.name
    let g' := { g with os := os', log := ⟨t, p, c.next, r, c.file⟩ :: g.log }
    match c.after r with
    | .cont c' => g'.setCall t (some c')
    | .done (ret, nh) =>
      let g'' := (g'.setCall t none).setRet t ret
      match nh with
      | some (hid, some x) => g''.setHandle hid (some (p, x))
      | some (hid, none) => g''.setHandle hid none
      | none => g''

/-- SIGKILL of process `p` -/
def G.kill (g : G) (p : Pid) : G :=
  { g with os := g.os.kill p,
           hs := fun h => match g.hs h with
                          | some (q, x) => if q = p then none else some (q, x)
                          | none => none,
           calls := fun t => if g.pidOf t = p then none else g.calls t }

def exec (g : G) : Action → G
  | .start t op => g.start t op
  | .step t intr => g.step t intr
  | .kill p => g.kill p

def execAll (g : G) (as : List Action) : G := as.foldl exec g

/-! ## sequential runs -/

/-- run the call in flight on `t`: before its i-th system call `script[i]` EINTR results are injected when
    that call is interruptible.  Stops when the call is done, when a step would block, or out of fuel. -/
def runCall (g : G) (t : Tid) (script : List Nat) : Nat → G
  | 0 => g
  | fuel + 1 =>
    match g.calls t with
    | none => g
    | some c =>
      let n := if c.next.interruptible then script.headD 0 else 0
      let g1 := (List.replicate n (Action.step t true)).foldl exec g
      let g2 := g1.step t false
      match g2.log with
      | ⟨_, _, _, .block, _⟩ :: _ => g2
      | _ => runCall g2 t script.tail fuel

def seqFuel : Nat := 32

/-- `op` on thread `t`, sequentially -/
def G.call (g : G) (t : Tid) (op : Op) (script : List Nat := []) : G :=
  runCall (g.start t op) t script seqFuel

end PV.SysV

import PV.Generated.IPC
/-!
Model of `/repo/src/psemaphore-posix.c` and `/repo/src/pshm-posix.c` over an abstract POSIX
name space (the trusted contract, DESIGN §4):

* `OS` — `semNames : SemKey → Option ObjId`, `sems : ObjId → SemObj`, `shmNames : ShmKey → Option SegId`,
  `segs : SegId → Seg`, per-process descriptors and mappings.  Objects are never collected: an
  unlinked object lives on (it may still be referenced by handles / mappings).
* `Sys` / `sysStep` — one system call = one atomic step with an errno result.  `sem_open`,
  `sem_wait`, `shm_open` may return EINTR instead (the `intr` argument: scripted).
* library calls are *machines* `next : σ → Sys`, `after : σ → Res → Out σ ρ` that issue the
  system calls in exactly the order of the C code; crash points are step indices, interleavings
  are schedules of `Action.step`.  The flags / retry loops / clamp expressions are the facts
  extracted from the C source (`PV.Generated.IPC`).
* `G` — the whole system: OS, live handles (the C structs' fields) per process, calls in flight
  per thread, a ghost event log.  `exec : G → Action → G` is total and executable.

Keys are abstract: `SemKey.user n` / `SemKey.lock k` / shm key `k` stand for the 52-bit truncated
SHA-1 platform keys (injectivity is an assumption).  The System V variants have their own model: PV.Model.IPCSysV.
-/
namespace PV.IPC
open PV.Generated.IPC

inductive SemKey where
  | user (n : Nat)        -- key of p_semaphore_new (name_n)
  | lock (shm : Nat)      -- key of the lock semaphore of shm key `shm`
deriving DecidableEq, Repr

abbrev ShmKey := Nat
abbrev ObjId := Nat
abbrev SegId := Nat
abbrev Pid := Nat
abbrev Tid := Nat
abbrev Hid := Nat

inductive Errno where
  | EINTR | EEXIST | ENOENT | EINVAL | EBADF
  | ENOMEM | EACCES | EMFILE      -- only ever produced by a scripted failure (`Action.fail`)
deriving DecidableEq, Repr

def Errno.num : Errno → Nat
  | .EINTR => PV.Generated.IPC.EINTR
  | .EEXIST => PV.Generated.IPC.EEXIST
  | .ENOENT => PV.Generated.IPC.ENOENT
  | .EINVAL => PV.Generated.IPC.EINVAL
  | .EBADF => PV.Generated.IPC.EBADF
  | .ENOMEM => PV.Generated.IPC.ENOMEM
  | .EACCES => PV.Generated.IPC.EACCES
  | .EMFILE => PV.Generated.IPC.EMFILE

/-- result of one system call: a value (0, descriptor, object, size, address), an errno, or
    "would block" (`sem_wait` at 0: the caller stays inside the call) -/
inductive Res where
  | ok (v : Nat)
  | err (e : Errno)
  | block
deriving DecidableEq, Repr

structure SemObj where
  value : Nat
deriving DecidableEq, Repr

structure Seg where
  bytes : List UInt8
  key : Nat := 0          -- the name it was created under (what /proc/<pid>/maps shows)
deriving DecidableEq, Repr

/-- one mapping of a process: `len` is the length given to `mmap`, the kernel maps whole pages -/
structure Mapping where
  addr : Nat
  seg : SegId
  off : Nat
  len : Nat
  writable : Bool
  shared : Bool
deriving DecidableEq, Repr

structure Proc where
  alive : Bool := true
  fds : List (Nat × SegId) := []
  maps : List Mapping := []
  nextFd : Nat := 3
  nextAddr : Nat := 1
deriving Repr

structure OS where
  semNames : SemKey → Option ObjId
  sems : ObjId → SemObj
  nextObj : Nat
  shmNames : ShmKey → Option SegId
  segs : SegId → Seg
  nextSeg : Nat
  procs : Pid → Proc

def OS.init : OS :=
  { semNames := fun _ => none, sems := fun _ => ⟨0⟩, nextObj := 0,
    shmNames := fun _ => none, segs := fun _ => ⟨[], 0⟩, nextSeg := 0, procs := fun _ => {} }

/-! ## system calls -/

inductive Sys where
  | semOpen (k : SemKey) (flags mode v : Nat)
  | semUnlink (k : SemKey)
  | semClose (o : ObjId)
  | semWait (o : ObjId)
  | semPost (o : ObjId)
  | shmOpen (k : ShmKey) (flags mode : Nat)
  | shmUnlink (k : ShmKey)
  | fstat (fd : Nat)
  | ftruncate (fd : Nat) (len : Nat)
  | mmap (fd : Nat) (len prot flags : Nat)
  | munmap (addr len : Nat)
  | close (fd : Nat)
deriving DecidableEq, Repr

/-- where POSIX allows EINTR -/
def Sys.interruptible : Sys → Bool
  | .semOpen .. => true
  | .semWait _ => true
  | .shmOpen .. => true
  | _ => false

def hasFlag (flags f : Nat) : Bool := flags &&& f == f

def pages (len : Nat) : Nat := (len + pageSize - 1) / pageSize

def resize (l : List UInt8) (n : Nat) : List UInt8 := l.take n ++ List.replicate (n - l.length) 0

def OS.setProc (os : OS) (p : Pid) (pr : Proc) : OS :=
  { os with procs := fun q => if q = p then pr else os.procs q }

def lookupFd (pr : Proc) (fd : Nat) : Option SegId := (pr.fds.find? (·.1 = fd)).map (·.2)

/-- `sem_open (key, flags, mode, v)` -/
def semOpenF (os : OS) (k : SemKey) (flags v : Nat) : OS × Res :=
  match os.semNames k with
  | some o =>
    if hasFlag flags O_CREAT && hasFlag flags O_EXCL then (os, .err .EEXIST) else (os, .ok o)
  | none =>
    if hasFlag flags O_CREAT then
      let o := os.nextObj
      ({ os with semNames := fun k' => if k' = k then some o else os.semNames k',
                 sems := fun o' => if o' = o then ⟨v⟩ else os.sems o',
                 nextObj := o + 1 }, .ok o)
    else (os, .err .ENOENT)

/-- `shm_open (key, flags, mode)`: a new object has size 0 -/
def shmOpenF (os : OS) (p : Pid) (k : ShmKey) (flags : Nat) : OS × Res :=
  let pr := os.procs p
  let openFd (os : OS) (s : SegId) : OS × Res :=
    (os.setProc p { pr with fds := (pr.nextFd, s) :: pr.fds, nextFd := pr.nextFd + 1 }, .ok pr.nextFd)
  match os.shmNames k with
  | some s =>
    if hasFlag flags O_CREAT && hasFlag flags O_EXCL then (os, .err .EEXIST) else openFd os s
  | none =>
    if hasFlag flags O_CREAT then
      let s := os.nextSeg
      openFd { os with shmNames := fun k' => if k' = k then some s else os.shmNames k',
                       segs := fun s' => if s' = s then ⟨[], k⟩ else os.segs s',
                       nextSeg := s + 1 } s
    else (os, .err .ENOENT)

/-- `munmap (addr, len)` removes the pages `[addr, addr + pages len)` of the mapping that starts at
    `addr`; what is left of a longer mapping stays mapped -/
def munmapF (pr : Proc) (addr len : Nat) : Proc :=
  { pr with maps := pr.maps.flatMap fun m =>
      if m.addr = addr then
        if pages len ≥ pages m.len then []
        else [{ m with addr := m.addr + pages len, off := m.off + pages len * pageSize,
                       len := m.len - pages len * pageSize }]
      else [m] }

/-- one system call of process `p`.  `intr`: the environment interrupts it (only where allowed). -/
def sysStep (p : Pid) (intr : Bool) (c : Sys) (os : OS) : OS × Res :=
  if intr && c.interruptible then (os, .err .EINTR) else
  let pr := os.procs p
  match c with
  | .semOpen k flags _ v => semOpenF os k flags v
  | .semUnlink k =>
    match os.semNames k with
    | some _ => ({ os with semNames := fun k' => if k' = k then none else os.semNames k' }, .ok 0)
    | none => (os, .err .ENOENT)
  | .semClose _ => (os, .ok 0)
  | .semWait o =>
    if (os.sems o).value = 0 then (os, .block)
    else ({ os with sems := fun o' => if o' = o then ⟨(os.sems o).value - 1⟩ else os.sems o' }, .ok 0)
  | .semPost o =>
    ({ os with sems := fun o' => if o' = o then ⟨(os.sems o).value + 1⟩ else os.sems o' }, .ok 0)
  | .shmOpen k flags _ => shmOpenF os p k flags
  | .shmUnlink k =>
    match os.shmNames k with
    | some _ => ({ os with shmNames := fun k' => if k' = k then none else os.shmNames k' }, .ok 0)
    | none => (os, .err .ENOENT)
  | .fstat fd =>
    match lookupFd pr fd with
    | some s => (os, .ok (os.segs s).bytes.length)
    | none => (os, .err .EBADF)
  | .ftruncate fd len =>
    match lookupFd pr fd with
    | some s => ({ os with segs := fun s' => if s' = s then { os.segs s with bytes := resize (os.segs s).bytes len } else os.segs s' }, .ok 0)
    | none => (os, .err .EBADF)
  | .mmap fd len prot flags =>
    match lookupFd pr fd with
    | some s =>
      if len = 0 then (os, .err .EINVAL)
      else
        let m : Mapping := { addr := pr.nextAddr, seg := s, off := 0, len := len,
                             writable := hasFlag prot PROT_WRITE, shared := hasFlag flags MAP_SHARED }
        (os.setProc p { pr with maps := m :: pr.maps, nextAddr := pr.nextAddr + pages len + 1 }, .ok m.addr)
    | none => (os, .err .EBADF)
  | .munmap addr len =>
    if len = 0 then (os, .err .EINVAL) else (os.setProc p (munmapF pr addr len), .ok 0)
  | .close fd =>
    match lookupFd pr fd with
    | some _ => (os.setProc p { pr with fds := pr.fds.filter (·.1 ≠ fd) }, .ok 0)
    | none => (os, .err .EBADF)

/-- SIGKILL: descriptors and mappings vanish, names and objects stay -/
def OS.kill (os : OS) (p : Pid) : OS :=
  os.setProc p { (os.procs p) with alive := false, fds := [], maps := [] }

/-! ## memory access through a mapping -/

inductive Access where
  | val (b : UInt8)
  | fault
deriving DecidableEq, Repr

def findMap (pr : Proc) (addr : Nat) : Option Mapping := pr.maps.find? (·.addr = addr)

/-- load of the byte at `addr + off`: outside the mapped length, or behind the end of the object, it faults -/
def OS.load (os : OS) (p : Pid) (addr off : Nat) : Access :=
  match findMap (os.procs p) addr with
  | some m =>
    if off < m.len then
      match (os.segs m.seg).bytes[m.off + off]? with
      | some b => .val b
      | none => .fault
    else .fault
  | none => .fault

/-- store; `none` = fault -/
def OS.store (os : OS) (p : Pid) (addr off : Nat) (b : UInt8) : Option OS :=
  match findMap (os.procs p) addr with
  | some m =>
    if off < m.len ∧ m.writable ∧ m.off + off < (os.segs m.seg).bytes.length then
      if m.shared then
        some { os with segs := fun s' => if s' = m.seg then { os.segs m.seg with bytes := (os.segs m.seg).bytes.set (m.off + off) b } else os.segs s' }
      else some os
    else none
  | none => none

/-! ## library calls as machines -/

inductive Out (σ ρ : Type) where
  | cont (s : σ)
  | done (r : ρ)

inductive Mode where
  | open | create
deriving DecidableEq, Repr

/-- `struct PSemaphore_` of a successfully created handle -/
structure PSem where
  created : Bool
  key : SemKey
  obj : ObjId
  mode : Mode
  init : Nat
deriving DecidableEq, Repr

/-! ### pp_semaphore_create_handle (called by p_semaphore_new) -/

inductive SemNewPC where
  | excl        -- first sem_open (O_CREAT | O_EXCL)
  | unlink      -- CREATE mode, EEXIST: sem_unlink
  | recreate    -- CREATE mode: second sem_open
  | reopen      -- OPEN mode, EEXIST: second sem_open
deriving DecidableEq, Repr

structure SemNewSt where
  key : SemKey
  mode : Mode
  init : Nat
  pc : SemNewPC
deriving DecidableEq, Repr

def SemNewSt.next (s : SemNewSt) : Sys :=
  match s.pc with
  | .excl => .semOpen s.key semOpen1Flags semOpen1Mode s.init
  | .unlink => .semUnlink s.key
  | .recreate => .semOpen s.key semCreateReopenFlags semCreateReopenMode s.init
  | .reopen => .semOpen s.key semOpenReopenFlags semOpenReopenMode (if semOpenReopenInitZero then 0 else s.init)

def SemNewSt.handle (s : SemNewSt) (created : Bool) (o : ObjId) : PSem :=
  { created := created, key := s.key, obj := o, mode := s.mode, init := s.init }

/-- on failure `pp_semaphore_clean_handle` runs with an invalid handle: no system call -/
def SemNewSt.after (s : SemNewSt) (r : Res) : Out SemNewSt (Except Errno PSem) :=
  match s.pc, r with
  | .excl, .ok o => .done (.ok (s.handle true o))
  | .excl, .err .EINTR => if semOpen1Retry then .cont s else .done (.error .EINTR)
  | .excl, .err .EEXIST =>
    match s.mode with
    | .create => if semCreateUnlinks then .cont { s with pc := .unlink } else .cont { s with pc := .recreate }
    | .open => .cont { s with pc := .reopen }
  | .excl, .err e => .done (.error e)
  | .unlink, _ => .cont { s with pc := .recreate }
  | .recreate, .ok o => .done (.ok (s.handle semCreateMarksCreated o))
  | .recreate, .err .EINTR => if semCreateReopenRetry then .cont s else .done (.error .EINTR)
  | .recreate, .err .EEXIST => if semCreateLoopOnExist then .cont { s with pc := .unlink } else .done (.error .EEXIST)
  | .recreate, .err e => .done (.error e)
  | .reopen, .ok o => .done (.ok (s.handle false o))
  | .reopen, .err .EINTR => if semOpenReopenRetry then .cont s else .done (.error .EINTR)
  | .reopen, .err e => .done (.error e)
  | _, .block => .done (.error .EINVAL)

/-! ### pp_semaphore_clean_handle (called by p_semaphore_free) -/

inductive SemFreePC where
  | close | unlink
deriving DecidableEq, Repr

structure SemFreeSt where
  h : PSem
  pc : SemFreePC
deriving DecidableEq, Repr

def SemFreeSt.next (s : SemFreeSt) : Sys :=
  match s.pc with
  | .close => .semClose s.h.obj
  | .unlink => .semUnlink s.h.key

def SemFreeSt.after (s : SemFreeSt) (_ : Res) : Out SemFreeSt Unit :=
  match s.pc with
  | .close => if s.h.created then .cont { s with pc := .unlink } else .done ()
  | .unlink => .done ()

/-! ### p_semaphore_acquire / p_semaphore_release -/

def acquireNext (h : PSem) : Sys := .semWait h.obj

/-- `while ((res = sem_wait (hdl)) == -1 && errno == EINTR);`  `block`: still inside `sem_wait` -/
def acquireAfter (h : PSem) (r : Res) : Out PSem (Except Errno Unit) :=
  match r with
  | .ok _ => .done (.ok ())
  | .err .EINTR => if semWaitRetry then .cont h else .done (.error .EINTR)
  | .err e => .done (.error e)
  | .block => .cont h

def releaseNext (h : PSem) : Sys := .semPost h.obj

def releaseAfter (_ : PSem) (r : Res) : Out PSem (Except Errno Unit) :=
  match r with
  | .ok _ => .done (.ok ())
  | .err e => .done (.error e)
  | .block => .done (.error .EINVAL)

/-! ### pp_shm_create_handle + the clamp of p_shm_new -/

/-- `struct PShm_` of a successfully created handle (`addr`: the mapping, `size`: what
    `p_shm_get_size` reports and what `munmap` is given) -/
structure PShm where
  created : Bool
  key : ShmKey
  addr : Nat
  size : Nat
  sem : PSem
  ro : Bool
deriving DecidableEq, Repr

inductive ShmNewPC where
  | excl                          -- shm_open (O_CREAT | O_EXCL | O_RDWR)
  | open                          -- EEXIST: shm_open (O_RDWR)
  | fstat (fd : Nat)
  | ftrunc (fd : Nat)
  | mmap (fd : Nat)
  | close (fd : Nat)
  | sem (s : SemNewSt)            -- p_semaphore_new (platform_key, 1, is_exists ? OPEN : CREATE)
  | fClose (fd : Nat) (e : Errno) -- failure paths: p_sys_close, then pp_shm_clean_handle
  | fMunmap (e : Errno)
  | fUnlink (e : Errno)
deriving DecidableEq, Repr

structure ShmNewSt where
  key : ShmKey
  req : Nat                 -- the size argument
  ro : Bool
  created : Bool := false   -- shm->shm_created
  isExists : Bool := false
  size : Nat                -- shm->size
  addr : Option Nat := none -- shm->addr
  pc : ShmNewPC := .excl
deriving DecidableEq, Repr

def lockMode (isExists : Bool) : Mode :=
  if shmLockModeByExists then (if isExists then .open else .create) else .open

def ShmNewSt.next (s : ShmNewSt) : Sys :=
  match s.pc with
  | .excl => .shmOpen s.key shmOpen1Flags shmOpen1Mode
  | .open => .shmOpen s.key shmOpen2Flags shmOpen2Mode
  | .fstat fd => .fstat fd
  | .ftrunc fd => .ftruncate fd s.size
  | .mmap fd => .mmap fd s.size (if s.ro then shmMmapProtRO else shmMmapProtRW) shmMmapFlags
  | .close fd => .close fd
  | .sem st => st.next
  | .fClose fd _ => .close fd
  | .fMunmap _ => .munmap (s.addr.getD 0) s.size
  | .fUnlink _ => .shmUnlink s.key

/-- `pp_shm_clean_handle` on a failure path, from the point where `munmap` has been dealt with -/
def ShmNewSt.cleanFrom (s : ShmNewSt) (e : Errno) (afterMunmap : Bool) : Out ShmNewSt (Except Errno PShm) :=
  if !afterMunmap && s.addr.isSome then .cont { s with pc := .fMunmap e }
  else if s.created then .cont { s with pc := .fUnlink e }
  else .done (.error e)

/-- the size recorded after `fstat` on an existing segment -/
def existingSize (req st : Nat) : Nat :=
  if shmKeepSmallerRequest then (if req = 0 ∨ st < req then st else req) else st

/-- the reported size after the clamp of `p_shm_new` -/
def clampSize (req size : Nat) : Nat :=
  if shmNewClamp && (size > req && req != 0) then req else size

def ShmNewSt.after (s : ShmNewSt) (r : Res) : Out ShmNewSt (Except Errno PShm) :=
  match s.pc, r with
  | .excl, .ok fd =>
    .cont { s with created := true, pc := .ftrunc fd }
  | .excl, .err .EINTR => if shmOpen1Retry then .cont s else .done (.error .EINTR)
  | .excl, .err .EEXIST => .cont { s with isExists := true, pc := .open }
  | .excl, .err e => .done (.error e)
  | .open, .ok fd => .cont { s with pc := .fstat fd }
  | .open, .err .EINTR => if shmOpen2Retry then .cont s else .done (.error .EINTR)
  | .open, .err e => .done (.error e)
  | .fstat fd, .ok st =>
    .cont { s with size := existingSize s.size st, pc := if shmFtruncateCreatorOnly then .mmap fd else .ftrunc fd }
  | .fstat fd, .err e => .cont { s with pc := .fClose fd e }
  | .ftrunc fd, .ok _ => .cont { s with pc := .mmap fd }
  | .ftrunc fd, .err e => .cont { s with pc := .fClose fd e }
  | .mmap fd, .ok a => .cont { s with addr := some a, pc := .close fd }
  | .mmap fd, .err e => .cont { s with pc := .fClose fd e }
  | .close _, _ =>
    .cont { s with pc := .sem { key := .lock s.key, mode := lockMode s.isExists, init := shmLockInit, pc := .excl } }
  | .sem st, r =>
    match st.after r with
    | .cont st' => .cont { s with pc := .sem st' }
    | .done (.ok ps) =>
      .done (.ok { created := s.created, key := s.key, addr := s.addr.getD 0, size := clampSize s.req s.size,
                   sem := ps, ro := s.ro })
    | .done (.error e) => s.cleanFrom e false
  | .fClose _ e, _ => s.cleanFrom e false
  | .fMunmap e, _ => s.cleanFrom e true
  | .fUnlink e, _ => .done (.error e)
  | _, .block => .done (.error .EINVAL)

/-! ### pp_shm_clean_handle (called by p_shm_free) -/

inductive ShmFreePC where
  | munmap | unlink | sem (s : SemFreeSt)
deriving DecidableEq, Repr

structure ShmFreeSt where
  h : PShm
  pc : ShmFreePC
deriving DecidableEq, Repr

def ShmFreeSt.next (s : ShmFreeSt) : Sys :=
  match s.pc with
  | .munmap => .munmap s.h.addr s.h.size
  | .unlink => .shmUnlink s.h.key
  | .sem st => st.next

def ShmFreeSt.after (s : ShmFreeSt) (r : Res) : Out ShmFreeSt Unit :=
  match s.pc with
  | .munmap =>
    if s.h.created then .cont { s with pc := .unlink } else .cont { s with pc := .sem ⟨s.h.sem, .close⟩ }
  | .unlink => .cont { s with pc := .sem ⟨s.h.sem, .close⟩ }
  | .sem st =>
    match st.after r with
    | .cont st' => .cont { s with pc := .sem st' }
    | .done () => .done ()

/-! ## the whole system -/

inductive Handle where
  | sem (h : PSem)
  | shm (h : PShm)
deriving DecidableEq, Repr

/-- what a finished call returned -/
inductive Ret where
  | sem (h : PSem)
  | shm (h : PShm)
  | unit
  | fail (e : Errno)
  | byte (b : UInt8)
  | size (n : Nat)
  | fault                 -- the access would be a memory fault (SIGSEGV / SIGBUS)
  | bad                   -- the call is not allowed here (no such handle, thread busy, dead process)
deriving DecidableEq, Repr

/-- a library call in flight (between two of its system calls) -/
inductive Call where
  | semNew (hid : Hid) (s : SemNewSt)
  | semFree (s : SemFreeSt)
  | acquire (h : PSem)
  | release (h : PSem)
  | shmNew (hid : Hid) (s : ShmNewSt)
  | shmFree (s : ShmFreeSt)
deriving DecidableEq, Repr

def Call.next : Call → Sys
  | .semNew _ s => s.next
  | .semFree s => s.next
  | .acquire h => acquireNext h
  | .release h => releaseNext h
  | .shmNew _ s => s.next
  | .shmFree s => s.next

/-- `cont`: the call goes on; `done (ret, new handle)` -/
def Call.after : Call → Res → Out Call (Ret × Option (Hid × Handle))
  | .semNew hid s, r =>
    match s.after r with
    | .cont s' => .cont (.semNew hid s')
    | .done (.ok h) => .done (.sem h, some (hid, .sem h))
    | .done (.error e) => .done (.fail e, none)
  | .semFree s, r =>
    match s.after r with
    | .cont s' => .cont (.semFree s')
    | .done () => .done (.unit, none)
  | .acquire h, r =>
    match acquireAfter h r with
    | .cont h' => .cont (.acquire h')
    | .done (.ok ()) => .done (.unit, none)
    | .done (.error e) => .done (.fail e, none)
  | .release h, r =>
    match releaseAfter h r with
    | .cont h' => .cont (.release h')
    | .done (.ok ()) => .done (.unit, none)
    | .done (.error e) => .done (.fail e, none)
  | .shmNew hid s, r =>
    match s.after r with
    | .cont s' => .cont (.shmNew hid s')
    | .done (.ok h) => .done (.shm h, some (hid, .shm h))
    | .done (.error e) => .done (.fail e, none)
  | .shmFree s, r =>
    match s.after r with
    | .cont s' => .cont (.shmFree s')
    | .done () => .done (.unit, none)

/-- ghost: one executed system call -/
structure Ev where
  tid : Tid
  pid : Pid
  sys : Sys
  res : Res
deriving DecidableEq, Repr

structure G where
  os : OS
  pidOf : Tid → Pid
  hs : Hid → Option (Pid × Handle)      -- live handles (C structs in the memory of a process)
  calls : Tid → Option Call             -- call in flight per thread
  ret : Tid → Option Ret                -- result of the thread's last finished call
  log : List Ev                         -- newest first

def G.init (pidOf : Tid → Pid) : G :=
  { os := OS.init, pidOf := pidOf, hs := fun _ => none, calls := fun _ => none, ret := fun _ => none, log := [] }

/-- the API calls -/
inductive Op where
  | newSem (h : Hid) (k : SemKey) (init : Nat) (m : Mode)
  | acq (h : Hid)
  | rel (h : Hid)
  | own (h : Hid)
  | free (h : Hid)
  | newShm (h : Hid) (k : ShmKey) (size : Nat) (ro : Bool)
  | lock (h : Hid)
  | unlock (h : Hid)
  | wr (h : Hid) (off : Nat) (b : UInt8)
  | rd (h : Hid) (off : Nat)
  | size (h : Hid)
deriving DecidableEq, Repr

inductive Action where
  | start (t : Tid) (op : Op)
  | step (t : Tid) (intr : Bool)
  | kill (p : Pid)
  | fail (t : Tid) (e : Errno)      -- the next system call of `t` fails with `e` (scripted environment failure)
deriving DecidableEq, Repr

def G.setCall (g : G) (t : Tid) (c : Option Call) : G :=
  { g with calls := fun t' => if t' = t then c else g.calls t' }

def G.setRet (g : G) (t : Tid) (r : Ret) : G :=
  { g with ret := fun t' => if t' = t then some r else g.ret t' }

def G.setHandle (g : G) (h : Hid) (v : Option (Pid × Handle)) : G :=
  { g with hs := fun h' => if h' = h then v else g.hs h' }

/-- the handle `h` as seen by thread `t` (handles live in the memory of one process) -/
def G.handleOf (g : G) (t : Tid) (h : Hid) : Option Handle :=
  match g.hs h with
  | some (p, x) => if p = g.pidOf t then some x else none
  | none => none

/-- begin a library call: calls without system calls finish at once -/
def G.start (g : G) (t : Tid) (op : Op) : G :=
  if !(g.os.procs (g.pidOf t)).alive || (g.calls t).isSome then g.setRet t .bad else
  match op with
  | .newSem h k init m =>
    if (g.hs h).isSome then g.setRet t .bad
    else g.setCall t (some (.semNew h { key := k, mode := m, init := init, pc := .excl }))
  | .newShm h k size ro =>
    if (g.hs h).isSome then g.setRet t .bad
    else g.setCall t (some (.shmNew h { key := k, req := size, ro := ro, size := size }))
  | .acq h =>
    match g.handleOf t h with
    | some (.sem s) => g.setCall t (some (.acquire s))
    | _ => g.setRet t .bad
  | .rel h =>
    match g.handleOf t h with
    | some (.sem s) => g.setCall t (some (.release s))
    | _ => g.setRet t .bad
  | .lock h =>
    match g.handleOf t h with
    | some (.shm s) => g.setCall t (some (.acquire s.sem))
    | _ => g.setRet t .bad
  | .unlock h =>
    match g.handleOf t h with
    | some (.shm s) => g.setCall t (some (.release s.sem))
    | _ => g.setRet t .bad
  | .own h =>
    match g.handleOf t h with
    | some (.sem s) => (g.setHandle h (some (g.pidOf t, .sem { s with created := true }))).setRet t .unit
    | some (.shm s) =>
      (g.setHandle h (some (g.pidOf t, .shm { s with created := true, sem := { s.sem with created := true } }))).setRet t .unit
    | none => g.setRet t .bad
  | .free h =>
    match g.handleOf t h with
    | some (.sem s) => (g.setHandle h none).setCall t (some (.semFree ⟨s, .close⟩))
    | some (.shm s) => (g.setHandle h none).setCall t (some (.shmFree ⟨s, .munmap⟩))
    | none => g.setRet t .bad
  | .size h =>
    match g.handleOf t h with
    | some (.shm s) => g.setRet t (.size s.size)
    | _ => g.setRet t .bad
  | .rd h off =>
    match g.handleOf t h with
    | some (.shm s) =>
      match g.os.load (g.pidOf t) s.addr off with
      | .val b => g.setRet t (.byte b)
      | .fault => g.setRet t .fault
    | _ => g.setRet t .bad
  | .wr h off b =>
    match g.handleOf t h with
    | some (.shm s) =>
      match g.os.store (g.pidOf t) s.addr off b with
      | some os' => { g with os := os' }.setRet t .unit
      | none => g.setRet t .fault
    | _ => g.setRet t .bad

/-- one system call of the call in flight on thread `t` -/
def G.step (g : G) (t : Tid) (intr : Bool) : G :=
  match g.calls t with
  | none => g
  | some c =>
    let p := g.pidOf t
    let (os', r) := sysStep p intr c.next g.os
    let g' := { g with os := os', log := ⟨t, p, c.next, r⟩ :: g.log }
    match c.after r with
    | .cont c' => g'.setCall t (some c')
    | .done (ret, nh) =>
      let g'' := (g'.setCall t none).setRet t ret
      match nh with
      | some (hid, x) => g''.setHandle hid (some (p, x))
      | none => g''

/-- SIGKILL of process `p`: its handles, calls in flight, descriptors and mappings vanish -/
def G.kill (g : G) (p : Pid) : G :=
  { g with os := g.os.kill p,
           hs := fun h => match g.hs h with
                          | some (q, x) => if q = p then none else some (q, x)
                          | none => none,
           calls := fun t => if g.pidOf t = p then none else g.calls t }

/-- The system call the call in flight on `t` is about to make FAILS with `e`: a scripted failure of the
    environment (EMFILE, ENOMEM, EACCES, a failing `close` / `munmap` / `sem_post`, …) that the name space
    machine `sysStep` never produces by itself.  Nothing happens in the OS (the call is not performed), the
    library sees `-1` / `errno = e` and goes on exactly as the C code does after that result. -/
def G.fail (g : G) (t : Tid) (e : Errno) : G :=
  match g.calls t with
  | none => g
  | some c =>
    let p := g.pidOf t
    let g' := { g with log := ⟨t, p, c.next, .err e⟩ :: g.log }
    match c.after (.err e) with
    | .cont c' => g'.setCall t (some c')
    | .done (ret, nh) =>
      let g'' := (g'.setCall t none).setRet t ret
      match nh with
      | some (hid, x) => g''.setHandle hid (some (p, x))
      | none => g''

def exec (g : G) : Action → G
  | .start t op => g.start t op
  | .step t intr => g.step t intr
  | .kill p => g.kill p
  | .fail t e => g.fail t e

def execAll (g : G) (as : List Action) : G := as.foldl exec g

/-! ## sequential runs (one thread runs its call to the end, everybody else is quiet) -/

/-- run the call in flight on `t`: before its i-th system call, `script[i]` EINTR results are
    injected when that call is interruptible.  Stops when the call is done, when a step would
    block, or when `fuel` system calls have been made. -/
def runCall (g : G) (t : Tid) (script : List Nat) : Nat → G
  | 0 => g
  | fuel + 1 =>
    match g.calls t with
    | none => g
    | some c =>
      let n := if c.next.interruptible then script.headD 0 else 0
      let g1 := (List.replicate n (Action.step t true)).foldl exec g
      let g2 := g1.step t false
      match g2.log with
      | ⟨_, _, _, .block⟩ :: _ => g2
      | _ => runCall g2 t script.tail fuel

def seqFuel : Nat := 16

/-- `op` on thread `t`, sequentially -/
def G.call (g : G) (t : Tid) (op : Op) (script : List Nat := []) : G :=
  runCall (g.start t op) t script seqFuel

/-! ## sequential runs with scripted failures -/

/-- run the call in flight on `t` to its end; its `i`-th system call (counted from `i`, failed ones included)
    fails with `e` when `(i, e) ∈ faults`, every other one is performed -/
def runCallF (g : G) (t : Tid) (faults : List (Nat × Errno)) (i : Nat) : Nat → G
  | 0 => g
  | fuel + 1 =>
    match g.calls t with
    | none => g
    | some _ =>
      match faults.find? (·.1 = i) with
      | some (_, e) => runCallF (g.fail t e) t faults (i + 1) fuel
      | none =>
        let g2 := g.step t false
        match g2.log with
        | ⟨_, _, _, .block⟩ :: _ => g2
        | _ => runCallF g2 t faults (i + 1) fuel

def seqFuelF : Nat := 24

/-- `op` on thread `t`, sequentially, with scripted failures -/
def G.callF (g : G) (t : Tid) (op : Op) (faults : List (Nat × Errno)) : G :=
  runCallF (g.start t op) t faults 0 seqFuelF

/-! ## NULL / invalid-argument guards of the public calls (no system call is made, nothing changes) -/

inductive GuardCall where
  | semNewNull | semNewNegative | semOwn | semAcq | semRel | semFree
  | shmNewNull | shmOwn | shmFree | shmLock | shmUnlock | shmAddr | shmSize
deriving DecidableEq, Repr

inductive GuardRes where
  | invalidArgument      -- NULL / FALSE and a PError (P_ERROR_IPC_INVALID_ARGUMENT, native code 0)
  | nothing              -- a void call that returns at once
  | null                 -- p_shm_get_address
  | zero                 -- p_shm_get_size
deriving DecidableEq, Repr

/-- what each public call does with a NULL handle / name (or `init_val < 0`) -/
def guardRes : GuardCall → GuardRes
  | .semNewNull | .semNewNegative | .semAcq | .semRel => .invalidArgument
  | .shmNewNull | .shmLock | .shmUnlock => .invalidArgument
  | .semOwn | .semFree | .shmOwn | .shmFree => .nothing
  | .shmAddr => .null
  | .shmSize => .zero

end PV.IPC

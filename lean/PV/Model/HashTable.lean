import PV.Generated.Consts
/-!
Model of `/repo/src/phashtable.c` and `/repo/src/plist.c`.

Pointers are 64-bit patterns (`UInt64`).  A table is the array of bucket chains; a chain is
the list of `(key, value)` nodes from the head.  `none` results denote C undefined behaviour
(signed overflow in the hash computation); nothing is defaulted.
-/
namespace PV.HT

abbrev Ptr := UInt64
abbrev Chain := List (Ptr × Ptr)
abbrev Table := List Chain

/-- `P_POINTER_TO_INT`: the low 32 bits read as a signed `int`. -/
def lowInt (k : Ptr) : Int := (BitVec.ofNat 32 k.toNat).toInt

/-- `P_POINTER_TO_INT (pointer) + 37` with C semantics.  Signed: `none` on overflow (UB).
    Unsigned: wraps modulo 2^32 and is converted back to `int`. -/
def hashSum (signedAdd : Bool) (addend : Nat) (k : Ptr) : Option Int :=
  if signedAdd then
    let s := lowInt k + addend
    if s ≤ 2147483647 then some s else none
  else
    some (BitVec.ofNat 32 (k.toNat + addend)).toInt

/-- `(puint) (((psize) sum) % modulo)`: sign-extending conversion to a 64-bit unsigned word. -/
def bucketOfSum (s : Int) (modulo : Nat) : Nat := (BitVec.ofInt 64 s).toNat % modulo

def calcHash (signedAdd : Bool) (addend modulo : Nat) (k : Ptr) : Option Nat :=
  (hashSum signedAdd addend k).map (bucketOfSum · modulo)

/-- the hash function of the current source tree -/
def hash (k : Ptr) : Option Nat :=
  calcHash Generated.hashAddSigned Generated.hashAddend Generated.hashTableSize k

def empty : Table := List.replicate Generated.hashTableSize []

/-- `p_hash_table_new` with scripted allocation results (handle, bucket array): the empty table when both succeed,
    otherwise NULL (`none`); the second component is the number of blocks still allocated afterwards (the handle is
    given back when the bucket array cannot be had) -/
def newTable (handleOk arrayOk : Bool) : Option Table × Nat :=
  if !handleOk then (none, 0)
  else if !arrayOk then (none, 0)      -- `p_free (ret)`
  else (some empty, 2)

/-- `pp_hash_table_find_node` -/
def findNode (c : Chain) (k : Ptr) : Option Ptr :=
  match c with
  | [] => none
  | (k', v) :: rest => if k' = k then some v else findNode rest k

/-- overwrite the value of the first node with key `k` -/
def setNode (c : Chain) (k v : Ptr) : Chain :=
  match c with
  | [] => []
  | (k', v') :: rest => if k' = k then (k', v) :: rest else (k', v') :: setNode rest k v

/-- unlink the first node with key `k` (the `while` loop of `p_hash_table_remove`) -/
def unlink (c : Chain) (k : Ptr) : Chain :=
  match c with
  | [] => []
  | (k', v') :: rest => if k' = k then rest else (k', v') :: unlink rest k

/-- `table->table[h]` -/
def chainAt (t : Table) (h : Nat) : Chain := (t[h]?).getD []

def insertAt (t : Table) (h : Nat) (k v : Ptr) : Table :=
  if (findNode (chainAt t h) k).isSome then t.set h (setNode (chainAt t h) k v)
  else t.set h ((k, v) :: chainAt t h)

def removeAt (t : Table) (h : Nat) (k : Ptr) : Table :=
  if (findNode (chainAt t h) k).isSome then t.set h (unlink (chainAt t h) k) else t

def insert (t : Table) (k v : Ptr) : Option Table := (hash k).map fun h => insertAt t h k v
def remove (t : Table) (k : Ptr) : Option Table := (hash k).map fun h => removeAt t h k
/-- `some none` = the documented not-found marker `(ppointer) -1`. -/
def lookup (t : Table) (k : Ptr) : Option (Option Ptr) := (hash k).map fun h => findNode (chainAt t h) k

def nodes (t : Table) : List (Ptr × Ptr) := t.flatten
def keys (t : Table) : List Ptr := (nodes t).map (·.1)
def values (t : Table) : List Ptr := (nodes t).map (·.2)
def lookupByValue (t : Table) (v : Ptr) : List Ptr := ((nodes t).filter (·.2 = v)).map (·.1)
/-- `p_hash_table_lookup_by_value` with a compare function: `p x` stands for `func (x, val) == 0`, asked of the stored
    value (first argument) — the keys of the nodes whose value the function calls equal, in table order -/
def lookupByValueF (t : Table) (p : Ptr → Bool) : List Ptr := ((nodes t).filter (fun n => p n.2)).map (·.1)

/-- `p_hash_table_insert` when `p_malloc0` fails: an existing node is overwritten as usual (no allocation on that path),
    a new key is not added and the table is left exactly as it was -/
def insertAtOOM (t : Table) (h : Nat) (k v : Ptr) : Table :=
  if (findNode (chainAt t h) k).isSome then t.set h (setNode (chainAt t h) k v) else t
def insertOOM (t : Table) (k v : Ptr) : Option Table := (hash k).map fun h => insertAtOOM t h k v

/-! ### PList -/
abbrev PList := List Ptr
def lAppend (l : PList) (d : Ptr) : PList := l ++ [d]
def lPrepend (l : PList) (d : Ptr) : PList := d :: l
/-- `p_list_remove`: unlink the first node whose data equals `d` -/
def lRemove (l : PList) (d : Ptr) : PList :=
  match l with
  | [] => []
  | x :: xs => if x = d then xs else x :: lRemove xs d
/-- `p_list_reverse`: the in-place loop, as an accumulator -/
def lRevLoop (prev cur : PList) : PList :=
  match cur with
  | [] => prev
  | x :: xs => lRevLoop (x :: prev) xs
def lReverse (l : PList) : PList :=
  match l with
  | [] => []
  | x :: xs => lRevLoop [x] xs
def lLast (l : PList) : Option Ptr :=
  match l with
  | [] => none
  | [x] => some x
  | _ :: y :: ys => lLast (y :: ys)
/-- `p_list_foreach`: the data handed to the callback, call by call -/
def lForeach (l : PList) : List Ptr :=
  match l with
  | [] => []
  | x :: xs => x :: lForeach xs
/-- `p_list_append` / `p_list_prepend` when the node cannot be allocated: the list comes back as it was -/
def lAppendOOM (l : PList) (_d : Ptr) : PList := l
def lPrependOOM (l : PList) (_d : Ptr) : PList := l
def lLength (l : PList) : Nat :=
  match l with
  | [] => 0
  | [_] => 1
  | _ :: y :: ys => lLength (y :: ys) + 1

end PV.HT

import PV.Model.Res.Funcs
/-! # C18 / C20 — objects in slots and the call language

The C harness (`harness/res.c`) and this model interpret the same text lines, one library call per
line, objects living in numbered slots.  A call whose arguments do not fit the present slot contents
is skipped by both sides (outcome `'-'`), so every line sequence is meaningful — that is what makes
random cross-module sequences (C20) and shrinking possible.

Calls come in a few *shapes* (constructor into an empty slot, mutator of one object, derivation of a
new object from an existing one, …); the per-shape invariant lemmas of `PV.Lemmas.Res` are proved once
and instantiated with the specification of each function. -/
namespace PV.Res

inductive OneK | mutex | cond | rwlock | spin | prof
  deriving DecidableEq, Repr

inductive Obj
  | str (b : Blk)
  | list (l : ListO)
  | slist (l : SListO)
  | tree (t : TreeO)
  | ht (t : HtO)
  | err (e : ErrO)
  | ini (o : IniO)
  | hash (h : HashO)
  | dir (d : DirO)
  | dirent (d : DirentO)
  | saddr (b : Blk)
  | sock (s : SockO)
  | sem (s : SemO)
  | shm (s : ShmO)
  | shmbuf (b : ShmBufO)
  | one (k : OneK) (b : Blk)
  | rwg (l : RwgO)
  | thread (t : ThreadO)
  | tls (t : TlsO)
  | loader (l : LoaderO)
  | mmap (id len : Nat)
  deriving Repr

/-- the *footprint* of a live object: everything it holds -/
def Obj.foot : Obj → List R
  | .str b => [.blk b]
  | .list l => l.foot
  | .slist l => l.foot
  | .tree t => t.foot
  | .ht t => t.foot
  | .err e => e.foot
  | .ini o => o.foot
  | .hash h => h.foot
  | .dir d => d.foot
  | .dirent d => d.foot
  | .saddr b => [.blk b]
  | .sock s => s.foot
  | .sem s => s.foot
  | .shm s => s.foot
  | .shmbuf b => b.foot
  | .one _ b => [.blk b]
  | .rwg l => l.foot
  | .thread t => t.foot
  | .tls t => t.foot
  | .loader l => l.foot
  | .mmap i len => [.map i len]

/-- the IPC names the object will remove when it is freed (it is an *owner* of them) -/
def Obj.owned : Obj → List Name
  | .sem s => s.owned
  | .shm s => s.owned
  | .shmbuf b => b.shm.owned
  | _ => []

def optFoot : Option Obj → List R
  | none => []
  | some o => o.foot

def optOwned : Option Obj → List Name
  | none => []
  | some o => o.owned

def NSLOT : Nat := 24

structure Env where
  lib : LibO := {}
  slots : List (Option Obj) := List.replicate NSLOT none

def Env.foot (e : Env) : List R := e.lib.foot ++ e.slots.flatMap optFoot
def Env.owned (e : Env) : List Name := e.slots.flatMap optOwned

def Env.get (e : Env) (i : Nat) : Option Obj := (e.slots[i]?).join
def Env.set (e : Env) (i : Nat) (o : Option Obj) : Env := { e with slots := e.slots.set i o }
def Env.isEmpty (e : Env) (i : Nat) : Bool := i < e.slots.length && (e.get i).isNone

/-- the `PError **` argument: `some none` — NULL; otherwise a slot that is empty or holds an error and is
    none of the other slot arguments.  `none`: the call is skipped. -/
def Env.ep (env : Env) (e : Option Nat) (excl : List Nat) : Option EP :=
  match e with
  | none => some none
  | some i =>
    if i ≥ env.slots.length ∨ i ∈ excl then none
    else match env.get i with
      | none => some (some none)
      | some (.err eo) => some (some (some eo))
      | some _ => none

def Env.putEP (env : Env) (e : Option Nat) (ep : EP) : Env :=
  match e, ep with
  | some i, some (some eo) => env.set i (some (.err eo))
  | _, _ => env

/-! ## call kinds -/
inductive CtorK
  | strdup | listNew | treeNew | htNew | errNew | errNewLiteral
  | iniNew (file : Nat) | hashNew | ipcKey (posix : Bool) | ipcTmpdir
  | dirNew (missing : Bool) | saNew (bad : Bool)
  | sockNew (kind : Nat) | sockFromFd
  | semNew (n : Nat) (create : Bool) | shmNew (n size : Nat) | shmbufNew (n size : Nat)
  | oneNew (k : OneK) | rwgNew | tlsNew | loaderNew (which : Nat) | loaderErr | mmapNew (len : Nat)
  deriving Repr

inductive MutK
  | nop                                  -- strtok, hash update / reset, lock cycles, …: no acquisition
  | listAdd (x : Nat) (pre : Bool) | listRemove (x : Nat)
  | treeInsert (k : Nat) | treeRemove (k : Nat) | treeClear
  | htInsert (k v : Nat) | htRemove (k : Nat)
  | errSetMsg | errClear
  | iniParse | iniScalar (sec key : Nat) | iniDouble (sec key : Nat)
  | dirRewind | sockListen | sockConnectRefused | sockClose | sockIoClosed
  | semOwn | shmOwn | shmbufOwn
  | tlsSet | tlsReplace | tlsGet
  | mmapFree | loaderSym | strRealloc
  deriving Repr

inductive DeriveK
  | htKeys | htValues | htLbv (v : Nat) | errCopy
  | iniSections | iniKeys (sec : Nat) | iniString (sec key : Nat) | iniList (sec key : Nat)
  | hashString | dirNext | dirPath | saAddr
  | sockAccept | sockLocal | sockRemote | sockUdpEcho
  deriving Repr

/-- type tags, for the checks `NEED (slot, T)` of the harness -/
inductive Ty
  | str | list | slist | tree | ht | err | ini | hash | dir | dirent | saddr | sock | sem | shm | shmbuf
  | one (k : OneK) | rwg | thread | tls | loader | mmap
  deriving DecidableEq, Repr

def Obj.ty : Obj → Ty
  | .str _ => .str | .list _ => .list | .slist _ => .slist | .tree _ => .tree | .ht _ => .ht | .err _ => .err
  | .ini _ => .ini | .hash _ => .hash | .dir _ => .dir | .dirent _ => .dirent | .saddr _ => .saddr
  | .sock _ => .sock | .sem _ => .sem | .shm _ => .shm | .shmbuf _ => .shmbuf | .one k _ => .one k
  | .rwg _ => .rwg | .thread _ => .thread | .tls _ => .tls | .loader _ => .loader | .mmap _ _ => .mmap

inductive GlobK
  | libInit | libShutdown | curThread | strtod | sysfail (name : String)
  | fileRemoveMissing | sockBad | errSetP
  deriving Repr

inductive Call
  | ctor (k : CtorK) (d : Nat) (e : Option Nat)
  | mut (k : MutK) (ty : Ty) (d : Nat) (e : Option Nat)
  | derive (k : DeriveK) (s d : Nat) (e : Option Nat)
  | connect (d srv : Nat) (e : Option Nat)
  | dtor (ty : Ty) (d : Nat)
  | glob (k : GlobK) (e : Option Nat)
  | threadRun (d : Nat) (o : ThrOpt) (key : Option Nat)
  | lockCycle (d : Nat)
  deriving Repr

def shmSize : Nat → Nat
  | 0 => 1024
  | 1 => 12288
  | 2 => 512
  | 3 => 8
  | _ => 0

/-! ## running the kinds.  Every result is (outcome class, …, error pointer afterwards). -/
def ret1 (o : Option α) (f : α → Obj) : Char × Option Obj := (if o.isSome then 'S' else 'F', o.map f)

def ctorRun (k : CtorK) (e : EP) : ResM (Char × Option Obj × EP) :=
  match k with
  | .strdup => do let r ← strdup; let (c, o) := ret1 r .str; return (c, o, e)
  | .listNew => return ('S', some (.list ⟨[]⟩), e)
  | .treeNew => do let r ← treeNew; let (c, o) := ret1 r .tree; return (c, o, e)
  | .htNew => do let r ← htNew; let (c, o) := ret1 r .ht; return (c, o, e)
  | .errNew => do let r ← errNew; let (c, o) := ret1 r .err; return (c, o, e)
  | .errNewLiteral => do let r ← errNewLiteral; return (errCls r true, r.map .err, e)
  | .iniNew f => do let r ← iniNew f; let (c, o) := ret1 r .ini; return (c, o, e)
  | .hashNew => do let r ← hashNew; let (c, o) := ret1 r .hash; return (c, o, e)
  | .ipcKey p => do let r ← ipcKey p; let (c, o) := ret1 r .str; return (c, o, e)
  | .ipcTmpdir => do let r ← ipcTmpDir; let (c, o) := ret1 r .str; return (c, o, e)
  | .dirNew m => do let (r, e') ← dirNew m e; let (c, o) := ret1 r .dir; return (c, o, e')
  | .saNew bad => do let r ← (if bad then saNewBad else malloc); let (c, o) := ret1 r .saddr; return (c, o, e)
  | .sockNew kind => do let (r, e') ← sockNew kind e; let (c, o) := ret1 r .sock; return (c, o, e')
  | .sockFromFd => do let (r, e') ← sockFromFd e; let (c, o) := ret1 r .sock; return (c, o, e')
  | .semNew n cr => do let (r, e') ← semNew (.sem n) cr e; let (c, o) := ret1 r .sem; return (c, o, e')
  | .shmNew n sz => do let (r, e') ← shmNew n (shmSize sz) e; let (c, o) := ret1 r .shm; return (c, o, e')
  | .shmbufNew n sz => do let (r, e') ← shmbufNew n (shmSize sz) e; let (c, o) := ret1 r .shmbuf; return (c, o, e')
  | .oneNew k => do
    let r ← (match k with
      | .mutex => newInit "pthread_mutex_init"
      | .cond => newInit "pthread_cond_init"
      | _ => malloc)
    let (c, o) := ret1 r (.one k); return (c, o, e)
  | .rwgNew => do let r ← rwgNew; let (c, o) := ret1 r .rwg; return (c, o, e)
  | .tlsNew => do let r ← tlsNew; let (c, o) := ret1 r .tls; return (c, o, e)
  | .loaderNew w => do let r ← loaderNew w; let (c, o) := ret1 r .loader; return (c, o, e)
  | .loaderErr => do let (c, r) ← loaderErr; return (c, r.map .str, e)
  | .mmapNew len => do let (r, e') ← mmapNew len e; return (if r.isSome then 'S' else 'F', r.map fun x => .mmap x.1 x.2, e')

/-- `none`: the object in the slot does not fit the call (wrong type or state) → skipped -/
def mutRun (k : MutK) (o : Obj) (e : EP) : Option (ResM (Char × Option Obj × EP)) :=
  match k, o with
  | .nop, o => some (return ('S', some o, e))
  | .listAdd x pre, .list l => some do let (c, l') ← listAdd l x pre; return (c, some (.list l'), e)
  | .listRemove x, .list l => some do let l' ← listRemove l x; return ('S', some (.list l'), e)
  | .treeInsert k, .tree t => some do let (c, t') ← treeInsert t k; return (c, some (.tree t'), e)
  | .treeRemove k, .tree t => some do let t' ← treeRemove t k; return ('S', some (.tree t'), e)
  | .treeClear, .tree t => some do let t' ← treeClear t; return ('S', some (.tree t'), e)
  | .htInsert k v, .ht t => some do let (c, t') ← htInsert t k v; return (c, some (.ht t'), e)
  | .htRemove k, .ht t => some do let t' ← htRemove t k; return ('S', some (.ht t'), e)
  | .errSetMsg, .err x => some do let x' ← errSetMsg x; return (errCls (some x') true, some (.err x'), e)
  | .errClear, .err x => some do let x' ← errClear x; return ('S', some (.err x'), e)
  | .iniParse, .ini i => some do let (c, i', e') ← iniParse i e; return (c, some (.ini i'), e')
  | .iniScalar s k, .ini i => some do let c ← iniScalar i s k; return (c, some (.ini i), e)
  | .iniDouble s k, .ini i => some do let c ← iniDouble i s k; return (c, some (.ini i), e)
  | .dirRewind, .dir d => some (return ('S', some (.dir { d with pos := 0 }), e))
  | .sockListen, .sock s => if s.state = 0 then some do let (c, s', e') ← sockListen s e; return (c, some (.sock s'), e') else none
  | .sockConnectRefused, .sock s =>
    if s.state = 0 ∧ s.kind = 0 then some do let (c, s', e') ← sockConnectRefused s e; return (c, some (.sock s'), e') else none
  | .sockClose, .sock s => some do let s' ← sockClose s; return ('S', some (.sock s'), e)
  | .sockIoClosed, .sock s =>
    if s.state = 3 then some do let (c, s', e') ← sockIoClosed s e; return (c, some (.sock s'), e') else none
  | .semOwn, .sem s => some (return ('S', some (.sem { s with created := true }), e))
  | .shmOwn, .shm s => some (return ('S', some (.shm { s with created := true, lock := { s.lock with created := true } }), e))
  | .shmbufOwn, .shmbuf b =>
    some (return ('S', some (.shmbuf { b with shm := { b.shm with created := true, lock := { b.shm.lock with created := true } } }), e))
  | .tlsSet, .tls t => some do let (c, t') ← tlsSet t; return (c, some (.tls t'), e)
  | .tlsReplace, .tls t => some do let (c, t') ← tlsReplace t; return (c, some (.tls t'), e)
  | .tlsGet, .tls t => some do let t' ← tlsGet t; return ('S', some (.tls t'), e)
  | .mmapFree, .mmap i len => some do
    let (ok, e') ← mmapUnmap i len e
    return (if ok then 'S' else 'F', if ok then none else some (.mmap i len), e')
  | .strRealloc, .str b => some do let (c, b') ← strRealloc b; return (c, some (.str b'), e)
  | .loaderSym, .loader l => some do loaderSym; return ('S', some (.loader l), e)
  | _, _ => none

/-- derivations: (class, the source object afterwards, the new object, error pointer) -/
def deriveRun (k : DeriveK) (o : Obj) (e : EP) : Option (ResM (Char × Obj × Option Obj × EP)) :=
  match k, o with
  | .htKeys, .ht t => some do let (c, l) ← htList t ((htTraverse t.nodes).map (·.1)); return (c, o, some (.list l), e)
  | .htValues, .ht t => some do let (c, l) ← htList t ((htTraverse t.nodes).map (·.2.1)); return (c, o, some (.list l), e)
  | .htLbv v, .ht t => some do
    let (c, l) ← htList t (((htTraverse t.nodes).filter (·.2.1 = v)).map (·.1)); return (c, o, some (.list l), e)
  | .errCopy, .err x => some do let r ← errCopy x; return (errCls r x.msg.isSome, o, r.map .err, e)
  | .iniSections, .ini i => some do let (c, l) ← iniSections i; return (c, o, some (.slist l), e)
  | .iniKeys s, .ini i => some do let (c, l) ← iniKeys i s; return (c, o, some (.slist l), e)
  | .iniString s k, .ini i => some do let (c, r) ← iniString i s k; return (c, o, r.map .str, e)
  | .iniList s k, .ini i => some do let (c, l) ← iniList i s k; return (c, o, some (.slist l), e)
  | .hashString, .hash h => some do let r ← hashString h; return (if r.isSome then 'S' else 'F', o, r.map .str, e)
  | .dirNext, .dir d => some do let (c, d', r, e') ← dirNext d e; return (c, .dir d', r.map .dirent, e')
  | .dirPath, .dir d => some do let r ← dirPath d; return (if r.isSome then 'S' else 'F', o, r.map .str, e)
  | .saAddr, .saddr b => some do deref (some b); let r ← malloc; return (if r.isSome then 'S' else 'F', o, r.map .str, e)
  | .sockAccept, .sock s =>
    if s.state = 1 ∧ s.kind = 0 then some do let (c, s', r, e') ← sockAccept s e; return (c, .sock s', r.map .sock, e') else none
  | .sockLocal, .sock s => some do let (r, e') ← sockAddr s false e; return (if r.isSome then 'S' else 'F', o, r.map .saddr, e')
  | .sockRemote, .sock s => some do let (r, e') ← sockAddr s true e; return (if r.isSome then 'S' else 'F', o, r.map .saddr, e')
  | .sockUdpEcho, .sock s =>
    if s.state = 1 ∧ s.kind = 1 then some do let (c, r, e') ← sockUdpEcho s e; return (c, o, r.map .saddr, e') else none
  | _, _ => none

def dtorRun (o : Obj) : ResM Unit :=
  match o with
  | .str b => freeB b
  | .list l => listFree l
  | .slist l => slistFree l
  | .tree t => treeFree t
  | .ht t => htFree t
  | .err e => errFree e
  | .ini i => iniFree i
  | .hash h => hashFree h
  | .dir d => dirFree d
  | .dirent d => direntFree d
  | .saddr b => freeB b
  | .sock s => sockFree s
  | .sem s => semFree s
  | .shm s => shmFree s
  | .shmbuf b => shmbufFree b
  | .one _ b => freeB b
  | .rwg l => rwgFree l
  | .thread t => threadUnref t
  | .tls t => tlsFree t
  | .loader l => loaderFree l
  | .mmap i len => munmap i len len

/-! ## one call -/
def skip (env : Env) : ResM (Char × Env) := return ('-', env)

def hasLoader (env : Env) : Bool := env.slots.any fun o => match o with | some (.loader _) => true | _ => false

/-- the harness holds at most one library loader at a time (a second `dlopen` of the same file would share
    the mapping) -/
def loaderBusy (env : Env) (k : CtorK) : Bool :=
  match k with
  | .loaderNew _ => hasLoader env
  | _ => false

/-- `lock_cycle d` works on several types; it acquires nothing -/
def lockCycleTypes : List Ty := [.one .mutex, .one .rwlock, .rwg, .one .spin, .one .cond]

def stepLockCycle (env : Env) (d : Nat) : ResM (Char × Env) :=
  match env.get d with
  | some o => return (if o.ty ∈ lockCycleTypes then 'S' else '-', env)
  | none => skip env

def stepCtor (env : Env) (k : CtorK) (d : Nat) (e : Option Nat) : ResM (Char × Env) :=
  if !env.isEmpty d then skip env else
  if loaderBusy env k then skip env else
  match env.ep e [d] with
  | none => skip env
  | some ep => do
    let (cls, o, ep') ← ctorRun k ep
    return (cls, (env.set d o).putEP e ep')

def stepMut (env : Env) (k : MutK) (ty : Ty) (d : Nat) (e : Option Nat) : ResM (Char × Env) :=
  match env.get d, env.ep e [d] with
  | some o, some ep =>
    if o.ty ≠ ty then skip env else
    match mutRun k o ep with
    | none => skip env
    | some m => do
      let (cls, o', ep') ← m
      return (cls, (env.set d o').putEP e ep')
  | _, _ => skip env

def stepDerive (env : Env) (k : DeriveK) (s d : Nat) (e : Option Nat) : ResM (Char × Env) :=
  match env.get s, env.ep e [d, s] with
  | some o, some ep =>
    if !env.isEmpty d then skip env else
    match deriveRun k o ep with
    | none => skip env
    | some m => do
      let (cls, o', n, ep') ← m
      return (cls, ((env.set s (some o')).set d n).putEP e ep')
  | _, _ => skip env

def stepConnect (env : Env) (d srv : Nat) (e : Option Nat) : ResM (Char × Env) :=
  match env.get d, env.get srv, env.ep e [d, srv] with
  | some (.sock s), some (.sock sv), some ep =>
    if d = srv ∨ s.state ≠ 0 ∨ s.kind ≠ 0 ∨ sv.state ≠ 1 ∨ sv.kind ≠ 0 ∨ sv.pending ≥ 3 then skip env else do
      let (cls, s', sv', ep') ← sockConnect s sv ep
      return (cls, ((env.set d (some (.sock s'))).set srv (some (.sock sv'))).putEP e ep')
  | _, _, _ => skip env

def stepDtor (env : Env) (ty : Ty) (d : Nat) : ResM (Char × Env) :=
  match env.get d with
  | some o => if o.ty ≠ ty then skip env else do dtorRun o; return ('S', env.set d none)
  | none => skip env

/-- calls that only set an error (a missing file, invalid arguments) -/
def stepSetErr (env : Env) (e : Option Nat) (viaPointer : Bool) : ResM (Char × Env) :=
  match env.ep e [] with
  | none => skip env
  | some ep => do
    let ep' ← setErr ep
    let cls := if viaPointer then (match ep, ep' with | some none, some r => errCls r true | _, _ => 'S') else 'F'
    return (cls, env.putEP e ep')

def stepThread (env : Env) (d : Nat) (body : ThrOpt) (key : Option Nat) : ResM (Char × Env) :=
  if !env.isEmpty d then skip env else
  match key with
  | none => do
    let (t, l, _) ← threadRun env.lib none body
    return (if t.isSome then 'S' else 'F', { env with lib := l }.set d (t.map Obj.thread))
  | some k =>
    match env.get k with
    | some (.tls tl) => do
      let (t, l, tl') ← threadRun env.lib (some tl) body
      let env' := { env with lib := l }.set k (some (.tls (tl'.getD tl)))
      return (if t.isSome then 'S' else 'F', env'.set d (t.map Obj.thread))
    | _ => skip env

def step (c : Call) (env : Env) : ResM (Char × Env) :=
  match c with
  | .glob .libInit _ => do let l ← libInit env.lib; return ('S', { env with lib := l })
  | .glob .libShutdown _ => do let l ← libShutdown env.lib; return ('S', { env with lib := l })
  | .glob (.sysfail nm) _ => do arm nm; return ('S', env)
  | c =>
    if !env.lib.inited then skip env else
    match c with
    | .ctor k d e => stepCtor env k d e
    | .mut k ty d e => stepMut env k ty d e
    | .derive k s d e => stepDerive env k s d e
    | .connect d srv e => stepConnect env d srv e
    | .dtor ty d => stepDtor env ty d
    | .glob .curThread _ => do let (cls, l) ← curThread env.lib; return (cls, { env with lib := l })
    | .glob .strtod _ => do let cls ← strtod; return (cls, env)
    | .glob .fileRemoveMissing e | .glob .sockBad e => stepSetErr env e false
    | .glob .errSetP e => stepSetErr env e true
    | .threadRun d body key => stepThread env d body key
    | .lockCycle d => stepLockCycle env d
    | _ => skip env

/-! ## parsing call lines -/
def argNat (s : String) : Option Nat := s.toNat?
/-- a slot argument that may be `x` (absent) -/
def argOpt (s : String) : Option (Option Nat) := if s = "x" then some none else s.toNat?.map some

def oneKind : String → Option OneK
  | "mutex" => some .mutex | "cond" => some .cond | "rwlock" => some .rwlock | "spin" => some .spin | "prof" => some .prof
  | _ => none

def parseCall (toks : List String) : Option Call :=
  let n := argNat
  match toks with
  | ["lib_init"] => some (.glob .libInit none)
  | ["lib_init_full"] => some (.glob .libInit none)     -- p_libsys_init_full with the allocator table: the same acquisitions
  | ["lib_shutdown"] => some (.glob .libShutdown none)
  | ["cur_thread"] => some (.glob .curThread none)
  | ["sysfail", nm] => some (.glob (.sysfail nm) none)
  | ["strtod"] => some (.glob .strtod none)
  | ["file_remove_missing", e] => do some (.glob .fileRemoveMissing (← argOpt e))
  | ["sock_bad", e] => do some (.glob .sockBad (← argOpt e))
  | ["err_set_p", e] => do some (.glob .errSetP (← argOpt e))
  | ["strdup", d] => do some (.ctor .strdup (← n d) none)
  | ["strchomp", d, _] => do some (.ctor .strdup (← n d) none)
  | ["strtok", d] => do some (.mut .nop .str (← n d) none)
  | ["str_realloc", d] => do some (.mut .strRealloc .str (← n d) none)
  | ["str_free", d] => do some (.dtor .str (← n d))
  | ["list_new", d] => do some (.ctor .listNew (← n d) none)
  | ["list_append", d, x] => do some (.mut (.listAdd (← n x) false) .list (← n d) none)
  | ["list_prepend", d, x] => do some (.mut (.listAdd (← n x) true) .list (← n d) none)
  | ["list_remove", d, x] => do some (.mut (.listRemove (← n x)) .list (← n d) none)
  | ["list_free", d] => do some (.dtor .list (← n d))
  | ["strlist_free", d] => do some (.dtor .slist (← n d))
  | ["tree_new", d, _] => do some (.ctor .treeNew (← n d) none)
  | ["tree_insert", d, k] => do some (.mut (.treeInsert (← n k)) .tree (← n d) none)
  | ["tree_remove", d, k] => do some (.mut (.treeRemove (← n k)) .tree (← n d) none)
  | ["tree_clear", d] => do some (.mut .treeClear .tree (← n d) none)
  | ["tree_free", d] => do some (.dtor .tree (← n d))
  | ["ht_new", d] => do some (.ctor .htNew (← n d) none)
  | ["ht_insert", d, k, v] => do some (.mut (.htInsert (← n k) (← n v)) .ht (← n d) none)
  | ["ht_remove", d, k] => do some (.mut (.htRemove (← n k)) .ht (← n d) none)
  | ["ht_keys", s, d] => do some (.derive .htKeys (← n s) (← n d) none)
  | ["ht_values", s, d] => do some (.derive .htValues (← n s) (← n d) none)
  | ["ht_lbv", s, d, v] => do some (.derive (.htLbv (← n v)) (← n s) (← n d) none)
  | ["ht_free", d] => do some (.dtor .ht (← n d))
  | ["err_new", d] => do some (.ctor .errNew (← n d) none)
  | ["err_new_literal", d] => do some (.ctor .errNewLiteral (← n d) none)
  | ["err_copy", s, d] => do some (.derive .errCopy (← n s) (← n d) none)
  | ["err_set_error", d] => do some (.mut .errSetMsg .err (← n d) none)
  | ["err_set_message", d] => do some (.mut .errSetMsg .err (← n d) none)
  | ["err_clear", d] => do some (.mut .errClear .err (← n d) none)
  | ["err_free", d] => do some (.dtor .err (← n d))
  | ["ini_new", d, f] => do let f ← n f; if f > 3 then none else some (.ctor (.iniNew f) (← n d) none)
  | ["ini_parse", d, e] => do some (.mut .iniParse .ini (← n d) (← argOpt e))
  | ["ini_sections", s, d] => do some (.derive .iniSections (← n s) (← n d) none)
  | ["ini_keys", s, sec, d] => do some (.derive (.iniKeys (← n sec)) (← n s) (← n d) none)
  | ["ini_string", s, sec, k, d] => do some (.derive (.iniString (← n sec) (← n k)) (← n s) (← n d) none)
  | ["ini_int", s, sec, k] => do some (.mut (.iniScalar (← n sec) (← n k)) .ini (← n s) none)
  | ["ini_bool", s, sec, k] => do some (.mut (.iniScalar (← n sec) (← n k)) .ini (← n s) none)
  | ["ini_double", s, sec, k] => do some (.mut (.iniDouble (← n sec) (← n k)) .ini (← n s) none)
  | ["ini_list", s, sec, k, d] => do some (.derive (.iniList (← n sec) (← n k)) (← n s) (← n d) none)
  | ["ini_free", d] => do some (.dtor .ini (← n d))
  | ["hash_new", d, t] => do let t ← n t; if t > 10 then none else some (.ctor .hashNew (← n d) none)
  | ["hash_update", d] => do some (.mut .nop .hash (← n d) none)
  | ["hash_reset", d] => do some (.mut .nop .hash (← n d) none)
  | ["hash_check", d] => do some (.mut .nop .hash (← n d) none)   -- harness-side probe: the object still yields the digest of what it absorbed
  | ["hash_string", s, d] => do some (.derive .hashString (← n s) (← n d) none)
  | ["hash_free", d] => do some (.dtor .hash (← n d))
  | ["ipc_key", d, p] => do some (.ctor (.ipcKey ((← n p) ≠ 0)) (← n d) none)
  | ["ipc_tmpdir", d] => do some (.ctor .ipcTmpdir (← n d) none)
  | ["dir_new", d, w, e] => do some (.ctor (.dirNew ((← n w) ≠ 0)) (← n d) (← argOpt e))
  | ["dir_next", s, d, e] => do some (.derive .dirNext (← n s) (← n d) (← argOpt e))
  | ["dir_path", s, d] => do some (.derive .dirPath (← n s) (← n d) none)
  | ["dir_rewind", d] => do some (.mut .dirRewind .dir (← n d) none)
  | ["dirent_free", d] => do some (.dtor .dirent (← n d))
  | ["dir_free", d] => do some (.dtor .dir (← n d))
  | ["sa_new", d, k] => do some (.ctor (.saNew ((← n k) ≥ 2)) (← n d) none)
  | ["sa_any", d, f] => do some (.ctor (.saNew ((← n f) ≥ 2)) (← n d) none)     -- family 2: not supported, the block is released again
  | ["sa_loop", d, f] => do some (.ctor (.saNew ((← n f) ≥ 2)) (← n d) none)
  | ["sa_native", d] => do some (.ctor (.saNew false) (← n d) none)
  -- 0 IPv4, 1 IPv4 with a short length, 2 IPv6, 3 IPv6 with a short length, 4 an unsupported family
  | ["sa_native", d, k] => do let k ← n k; if k > 4 then none else some (.ctor (.saNew (k = 1 ∨ k = 3 ∨ k = 4)) (← n d) none)
  | ["sa_addr", s, d] => do some (.derive .saAddr (← n s) (← n d) none)
  | ["sa_free", d] => do some (.dtor .saddr (← n d))
  | ["sock_new", d, k, e] => do some (.ctor (.sockNew (if (← n k) = 0 then 0 else 1)) (← n d) (← argOpt e))
  | ["sock_listen", d, e] => do some (.mut .sockListen .sock (← n d) (← argOpt e))
  | ["sock_connect", d, srv, e] => do some (.connect (← n d) (← n srv) (← argOpt e))
  | ["sock_connect_refused", d, e] => do some (.mut .sockConnectRefused .sock (← n d) (← argOpt e))
  | ["sock_connect_timeout", d, e] => do some (.mut .sockConnectRefused .sock (← n d) (← argOpt e))
  | ["sock_accept", s, d, e] => do some (.derive .sockAccept (← n s) (← n d) (← argOpt e))
  | ["sock_local", s, d, e] => do some (.derive .sockLocal (← n s) (← n d) (← argOpt e))
  | ["sock_remote", s, d, e] => do some (.derive .sockRemote (← n s) (← n d) (← argOpt e))
  | ["sock_udp_echo", s, d, e] => do some (.derive .sockUdpEcho (← n s) (← n d) (← argOpt e))
  | ["sock_io_closed", d, w, e] => do if (← n w) > 6 then none else some (.mut .sockIoClosed .sock (← n d) (← argOpt e))
  -- a public entry point called with invalid arguments (NULL object, bad descriptor, zero length …): only an error is reported
  | ["inval", w, e] => do if (← n w) > 36 then none else some (.glob .fileRemoveMissing (← argOpt e))
  | ["dir_create_missing", e] => do some (.glob .fileRemoveMissing (← argOpt e))
  | ["dir_remove_missing", e] => do some (.glob .fileRemoveMissing (← argOpt e))
  | ["sock_shutdown", d] => do some (.mut .nop .sock (← n d) none)   -- p_socket_shutdown (both directions): no resource changes hands
  | ["sock_close", d, e] => do some (.mut .sockClose .sock (← n d) (← argOpt e))
  | ["sock_free", d] => do some (.dtor .sock (← n d))
  | ["sock_from_fd", d, e] => do some (.ctor .sockFromFd (← n d) (← argOpt e))
  | ["sem_new", d, nm, mode, e] => do
    let nm ← n nm; if nm ≥ 6 then none else some (.ctor (.semNew nm ((← n mode) ≠ 0)) (← n d) (← argOpt e))
  | ["sem_cycle", d, e] => do some (.mut .nop .sem (← n d) (← argOpt e))
  | ["sem_own", d] => do some (.mut .semOwn .sem (← n d) none)
  | ["sem_free", d] => do some (.dtor .sem (← n d))
  | ["shm_new", d, nm, sz, e] => do
    let nm ← n nm; if nm ≥ 6 then none else some (.ctor (.shmNew nm (← n sz)) (← n d) (← argOpt e))
  | ["shm_own", d] => do some (.mut .shmOwn .shm (← n d) none)
  | ["shm_cycle", d, e] => do some (.mut .nop .shm (← n d) (← argOpt e))
  | ["shm_free", d] => do some (.dtor .shm (← n d))
  | ["shmbuf_new", d, nm, sz, e] => do
    let nm ← n nm; if nm ≥ 6 then none else some (.ctor (.shmbufNew nm (← n sz)) (← n d) (← argOpt e))
  | ["shmbuf_rw", d, e] => do some (.mut .nop .shmbuf (← n d) (← argOpt e))
  | ["shmbuf_fill", d, e] => do some (.mut .nop .shmbuf (← n d) (← argOpt e))
  | ["shmbuf_own", d] => do some (.mut .shmbufOwn .shmbuf (← n d) none)
  | ["shmbuf_free", d] => do some (.dtor .shmbuf (← n d))
  | ["mutex_new", d] => do some (.ctor (.oneNew .mutex) (← n d) none)
  | ["mutex_free", d] => do some (.dtor (.one .mutex) (← n d))
  | ["cond_new", d] => do some (.ctor (.oneNew .cond) (← n d) none)
  | ["cond_free", d] => do some (.dtor (.one .cond) (← n d))
  | ["rwlock_new", d] => do some (.ctor (.oneNew .rwlock) (← n d) none)
  | ["rwlock_free", d] => do some (.dtor (.one .rwlock) (← n d))
  | ["spin_new", d] => do some (.ctor (.oneNew .spin) (← n d) none)
  | ["spin_free", d] => do some (.dtor (.one .spin) (← n d))
  | ["prof_new", d] => do some (.ctor (.oneNew .prof) (← n d) none)
  | ["prof_free", d] => do some (.dtor (.one .prof) (← n d))
  | ["rwlockg_new", d] => do some (.ctor .rwgNew (← n d) none)
  | ["rwlockg_free", d] => do some (.dtor .rwg (← n d))
  | ["thread_run", d, _, body, k] => do some (.threadRun (← n d) ⟨(← n body) ≥ 1, false⟩ (← argOpt k))   -- body 2: the thread leaves through p_uthread_exit
  | ["thread_run_long", d, _, body, k] => do some (.threadRun (← n d) ⟨(← n body) ≥ 1, true⟩ (← argOpt k))
  | ["thread_unref", d] => do some (.dtor .thread (← n d))
  | ["tls_new", d] => do some (.ctor .tlsNew (← n d) none)
  | ["tls_set", d] => do some (.mut .tlsSet .tls (← n d) none)
  | ["tls_replace", d] => do some (.mut .tlsReplace .tls (← n d) none)
  | ["tls_get", d] => do some (.mut .tlsGet .tls (← n d) none)
  | ["tls_free", d] => do some (.dtor .tls (← n d))
  | ["loader_new", d, w] => do some (.ctor (.loaderNew (← n w)) (← n d) none)
  | ["loader_sym", d] => do some (.mut .loaderSym .loader (← n d) none)
  | ["loader_err", d] => do some (.ctor .loaderErr (← n d) none)
  | ["loader_free", d] => do some (.dtor .loader (← n d))
  | ["mmap_new", d, sz, e] => do some (.ctor (.mmapNew (((← n sz) + 1) * 4096)) (← n d) (← argOpt e))
  | ["mmap_free", d] => do some (.dtor .mmap (← n d))
  | ["mmap_unmap", d, e] => do some (.mut .mmapFree .mmap (← n d) (← argOpt e))    -- p_mem_munmap with an error argument (it can fail)
  | ["lock_cycle", d] => do some (.lockCycle (← n d))
  | _ => none

def splitToks (line : String) : List String := (line.splitOn " ").filter (· ≠ "")

/-- run one call line: outcome class (`'?'` for an unknown line) and the new environment -/
def runLine (line : String) (env : Env) : ResM (Char × Env) := do
  emit (.call line)
  match parseCall (splitToks line) with
  | none => return ('?', env)
  | some c => step c env

/-- a sequence of (parsed) calls -/
def runCalls : List Call → Env → ResM (List Char × Env)
  | [], env => pure ([], env)
  | c :: cs, env => do
    let (r, env') ← step c env
    let (rs, env'') ← runCalls cs env'
    pure (r :: rs, env'')

def runLines : List String → Env → ResM (List Char × Env)
  | [], env => pure ([], env)
  | l :: ls, env => do
    let (c, env') ← runLine l env
    let (cs, env'') ← runLines ls env'
    pure (c :: cs, env'')

end PV.Res

/-! # C18 / C20 — the resource monad `ResM`

`ResM α` is a *program* (a tree of primitive resource operations with continuations), interpreted by
`ResM.run` over a state that records what the process holds:

* `held`   : the multiset of held resources — live heap blocks (`R.blk`), open descriptors (`R.fd`),
             memory mappings (`R.map id len`), native TLS keys (`R.key`);
* `next`   : the running allocation index; allocation number `next + 1` is refused exactly when the
             failure predicate `failAt (next + 1)` says so (single failure, failure from `k` on, any
             other pattern: the theorems quantify over every `failAt`);
* `names`  : the IPC names existing in the system (with the size of the object, for segments);
* `closed` : every descriptor closed so far, in order (for `fd_closed_once`);
* `log`    : allocator calls and call markers, for the correspondence diff with the C harness.

Memory errors of the C code are *faults* of the interpreter, never defaults: `free` of a block that is
not live (double free / invalid free), `deref` of `none` (NULL) or of a freed block, `closeFd` of a
descriptor that is not open, `munmap` / `keyDelete` of something not held.

Programs being data, facts that hold for *every* program (`ResM.run` never re-issues a descriptor or
block id, closes each descriptor at most once, …) are proved once by induction (`PV.Lemmas.Res`). -/
namespace PV.Res

abbrev Blk := Nat

/-- IPC names: a named semaphore, a shared-memory segment, the lock semaphore of a segment -/
inductive Name
  | sem (i : Nat)
  | shm (i : Nat)
  | shmLock (i : Nat)
  deriving DecidableEq, Repr

/-- a held resource -/
inductive R
  | blk (b : Nat)
  | fd (n : Nat)
  | map (id len : Nat)
  | key (k : Nat)
  deriving DecidableEq, Repr

inductive Ev
  | m (i : Nat) (ok : Bool)      -- allocation attempt number i (block id = i when it succeeds)
  | f (b : Nat)                  -- free of block b
  | call (s : String)            -- a call line starts
  deriving Repr

structure St where
  held : List R := []
  next : Nat := 0
  nextFd : Nat := 0
  nextMap : Nat := 0
  nextKey : Nat := 0
  names : List (Name × Nat) := []
  closed : List Nat := []
  sysfail : List String := []     -- armed one-shot scripted failures of system calls
  dlPending : Bool := false       -- dlerror() has something to report
  log : List Ev := []             -- most recent first

inductive Res (α : Type) : Type
  | fault (msg : String)
  | ok (a : α) (s : St)

inductive ResM (α : Type) : Type
  | ret (a : α)
  | malloc (k : Option Blk → ResM α)
  | free (b : Blk) (k : ResM α)
  | deref (p : Option Blk) (k : ResM α)
  | openFd (k : Nat → ResM α)
  | closeFd (n : Nat) (k : ResM α)
  | mmap (len : Nat) (k : Nat → ResM α)
  | munmap (id mapped len : Nat) (k : ResM α)
  | nameTest (n : Name) (k : Option Nat → ResM α)
  | nameCreate (n : Name) (size : Nat) (k : ResM α)
  | nameUnlink (n : Name) (k : ResM α)
  | keyCreate (k : Nat → ResM α)
  | keyDelete (id : Nat) (k : ResM α)
  | sys (name : String) (k : Bool → ResM α)
  | arm (name : String) (k : ResM α)
  | dlGet (k : Bool → ResM α)
  | dlSet (b : Bool) (k : ResM α)
  | emit (e : Ev) (k : ResM α)

namespace ResM

def bind : ResM α → (α → ResM β) → ResM β
  | .ret a, g => g a
  | .malloc k, g => .malloc (fun r => (k r).bind g)
  | .free b k, g => .free b (k.bind g)
  | .deref p k, g => .deref p (k.bind g)
  | .openFd k, g => .openFd (fun r => (k r).bind g)
  | .closeFd n k, g => .closeFd n (k.bind g)
  | .mmap len k, g => .mmap len (fun r => (k r).bind g)
  | .munmap i m l k, g => .munmap i m l (k.bind g)
  | .nameTest n k, g => .nameTest n (fun r => (k r).bind g)
  | .nameCreate n sz k, g => .nameCreate n sz (k.bind g)
  | .nameUnlink n k, g => .nameUnlink n (k.bind g)
  | .keyCreate k, g => .keyCreate (fun r => (k r).bind g)
  | .keyDelete i k, g => .keyDelete i (k.bind g)
  | .sys nm k, g => .sys nm (fun r => (k r).bind g)
  | .arm nm k, g => .arm nm (k.bind g)
  | .dlGet k, g => .dlGet (fun r => (k r).bind g)
  | .dlSet b k, g => .dlSet b (k.bind g)
  | .emit e k, g => .emit e (k.bind g)

instance : Monad ResM where
  pure := .ret
  bind := bind

/-- page count of a length (4096-byte pages) -/
def pages (n : Nat) : Nat := (n + 4095) / 4096

def nameSize (names : List (Name × Nat)) (n : Name) : Option Nat :=
  (names.find? (·.1 = n)).map (·.2)

/-- the interpreter.  `failAt` is consulted with the running allocation index. -/
def run : ResM α → (Nat → Bool) → St → Res α
  | .ret a, _, s => .ok a s
  | .malloc k, f, s =>
    if f (s.next + 1) then
      (k none).run f { s with next := s.next + 1, log := .m (s.next + 1) false :: s.log }
    else
      (k (some (s.next + 1))).run f
        { s with next := s.next + 1, held := .blk (s.next + 1) :: s.held, log := .m (s.next + 1) true :: s.log }
  | .free b k, f, s =>
    if .blk b ∈ s.held then k.run f { s with held := s.held.erase (.blk b), log := .f b :: s.log }
    else .fault s!"free of block {b} which is not live (double free or invalid pointer)"
  | .deref p k, f, s =>
    match p with
    | none => .fault "NULL pointer dereference"
    | some b => if .blk b ∈ s.held then k.run f s else .fault s!"use of block {b} after it was freed"
  | .openFd k, f, s =>
    (k (s.nextFd + 1)).run f { s with nextFd := s.nextFd + 1, held := .fd (s.nextFd + 1) :: s.held }
  | .closeFd n k, f, s =>
    if .fd n ∈ s.held then k.run f { s with held := s.held.erase (.fd n), closed := n :: s.closed }
    else .fault s!"close of descriptor {n} which is not open (closed twice)"
  | .mmap len k, f, s =>
    (k (s.nextMap + 1)).run f { s with nextMap := s.nextMap + 1, held := .map (s.nextMap + 1) len :: s.held }
  | .munmap i mapped len k, f, s =>
    if .map i mapped ∈ s.held then
      if pages mapped ≤ pages len then k.run f { s with held := s.held.erase (.map i mapped) }
      else k.run f { s with held := .map i (mapped - 4096 * pages len) :: s.held.erase (.map i mapped) }   -- a tail stays mapped
    else .fault s!"munmap of mapping {i} which is not mapped"
  | .nameTest n k, f, s => (k (nameSize s.names n)).run f s
  | .nameCreate n sz k, f, s =>
    if (nameSize s.names n).isSome then .fault "exclusive creation of an existing IPC name"
    else k.run f { s with names := (n, sz) :: s.names }
  | .nameUnlink n k, f, s => k.run f { s with names := s.names.filter (·.1 ≠ n) }
  | .keyCreate k, f, s =>
    (k (s.nextKey + 1)).run f { s with nextKey := s.nextKey + 1, held := .key (s.nextKey + 1) :: s.held }
  | .keyDelete i k, f, s =>
    if .key i ∈ s.held then k.run f { s with held := s.held.erase (.key i) }
    else .fault s!"deletion of TLS key {i} which does not exist"
  | .sys nm k, f, s =>
    if nm ∈ s.sysfail then (k false).run f { s with sysfail := s.sysfail.erase nm } else (k true).run f s
  | .arm nm k, f, s => k.run f { s with sysfail := nm :: s.sysfail }
  | .dlGet k, f, s => (k s.dlPending).run f s
  | .dlSet b k, f, s => k.run f { s with dlPending := b }
  | .emit e k, f, s => k.run f { s with log := e :: s.log }

end ResM

open ResM

/-! primitive operations as programs -/
def malloc : ResM (Option Blk) := .malloc .ret
/-- `p_free`: a NULL pointer is ignored -/
def free (p : Option Blk) : ResM Unit := match p with | none => .ret () | some b => .free b (.ret ())
def freeB (b : Blk) : ResM Unit := .free b (.ret ())
def deref (p : Option Blk) : ResM Unit := .deref p (.ret ())
def openFd : ResM Nat := .openFd .ret
def closeFd (n : Nat) : ResM Unit := .closeFd n (.ret ())
def mmap (len : Nat) : ResM Nat := .mmap len .ret
def munmap (id mapped len : Nat) : ResM Unit := .munmap id mapped len (.ret ())
def nameTest (n : Name) : ResM (Option Nat) := .nameTest n .ret
def nameCreate (n : Name) (size : Nat) : ResM Unit := .nameCreate n size (.ret ())
def nameUnlink (n : Name) : ResM Unit := .nameUnlink n (.ret ())
def keyCreate : ResM Nat := .keyCreate .ret
def keyDelete (id : Nat) : ResM Unit := .keyDelete id (.ret ())
/-- a system call that can be scripted to fail: `true` = it succeeds -/
def sysOk (name : String) : ResM Bool := .sys name .ret
def arm (name : String) : ResM Unit := .arm name (.ret ())
def dlGet : ResM Bool := .dlGet .ret
def dlSet (b : Bool) : ResM Unit := .dlSet b (.ret ())
def emit (e : Ev) : ResM Unit := .emit e (.ret ())

/-- free a list of blocks in the given order -/
def freeAll : List Blk → ResM Unit
  | [] => pure ()
  | b :: bs => do freeB b; freeAll bs

/-! projections of the held multiset (the `live`, `fds`, `maps`, `tlsKeys` components of the design) -/
def St.live (s : St) : List Nat := s.held.filterMap fun | .blk b => some b | _ => none
def St.fds (s : St) : List Nat := s.held.filterMap fun | .fd n => some n | _ => none
def St.maps (s : St) : List (Nat × Nat) := s.held.filterMap fun | .map i l => some (i, l) | _ => none
def St.tlsKeys (s : St) : List Nat := s.held.filterMap fun | .key k => some k | _ => none

end PV.Res

import PV.Model.Res.Monad
/-! # C18 / C20 — the allocating functions of the library as `ResM` programs

Every public function that allocates (or acquires a descriptor, mapping, IPC name, TLS key) is
transliterated **with respect to its acquisitions and their unwinding only**: same order of
allocator calls, same checks, same clean-up on every error path; data flow is abstracted
(loops over n items are recursion on lists).  The code modelled is the library *with the repairs of
findings F10 / F12 applied* (see `PV.Props.C18` for the witnesses of the old behaviour).

Results carry an *outcome class* as the C harness computes it from the API-visible result:
`'S'` success, `'F'` the documented failure value, `'D'` a documented degraded result
(a list shorter by one, an error without message, a directory entry of type OTHER …),
`'E'` end of iteration.  Objects record the resources they hold (`foot`). -/
namespace PV.Res

/-- blocks of an optional pointer -/
def ob : Option Blk → List R
  | none => []
  | some b => [.blk b]

/-! ## errors -/
structure ErrO where
  self : Blk
  msg : Option Blk
  deriving Repr

def ErrO.foot (e : ErrO) : List R := .blk e.self :: ob e.msg

/-- the `PError **error` argument: `none` = NULL was passed, `some none` = `*error == NULL`,
    `some (some e)` = an error is already stored there (it is never overwritten) -/
abbrev EP := Option (Option ErrO)

def EP.foot : EP → List R
  | some (some e) => e.foot
  | _ => []

/-- `p_error_new_literal`: the structure, then a copy of the message (which may be missing) -/
def errNewLiteral : ResM (Option ErrO) := do
  let some a ← malloc | return none
  let m ← malloc
  return some ⟨a, m⟩

/-- `p_error_set_error_p` -/
def setErr (e : EP) : ResM EP :=
  match e with
  | some none => do let r ← errNewLiteral; return some r
  | e => return e

def errCls (e : Option ErrO) (wantMsg : Bool) : Char :=
  match e with
  | none => 'F'
  | some e => if wantMsg && e.msg.isNone then 'D' else 'S'

def errNew : ResM (Option ErrO) := do
  let some a ← malloc | return none
  return some ⟨a, none⟩

/-- `p_error_copy` = `p_error_new_literal` with the source's message (`p_strdup (NULL)` allocates nothing) -/
def errCopy (src : ErrO) : ResM (Option ErrO) := do
  deref (some src.self)
  let some a ← malloc | return none
  match src.msg with
  | none => return some ⟨a, none⟩
  | some _ => do let m ← malloc; return some ⟨a, m⟩

/-- `p_error_set_error` / `p_error_set_message`: the old message is released first -/
def errSetMsg (e : ErrO) : ResM ErrO := do
  deref (some e.self)
  free e.msg
  let m ← malloc
  return { e with msg := m }

def errClear (e : ErrO) : ResM ErrO := do
  deref (some e.self)
  free e.msg
  return { e with msg := none }

def errFree (e : ErrO) : ResM Unit := do
  free e.msg
  freeB e.self

/-! ## strings -/
def strdup : ResM (Option Blk) := malloc

/-- `p_realloc` of a block of the caller: when the allocator refuses, NULL is returned and the old block stays valid;
    otherwise the old block has become the new one -/
def strRealloc (b : Blk) : ResM (Char × Blk) := do
  let some n ← malloc | return ('F', b)
  freeB b
  return ('S', n)

/-- `p_strtod`: the chomped copy is the only allocation; `0.0` when it fails -/
def strtod : ResM Char := do
  let some t ← malloc | return 'F'
  freeB t
  return 'S'

/-! ## lists -/
structure ListO where
  items : List (Nat × Blk)        -- (data, node)
  deriving Repr

def ListO.blocks (l : ListO) : List Blk := l.items.map (·.2)
def ListO.foot (l : ListO) : List R := l.blocks.map .blk

/-- `p_list_append` / `p_list_prepend`: the old list is returned when the node cannot be allocated -/
def listAdd (l : ListO) (x : Nat) (pre : Bool) : ResM (Char × ListO) := do
  let some b ← malloc | return ('D', l)
  return ('S', ⟨if pre then (x, b) :: l.items else l.items ++ [(x, b)]⟩)

def listRemove (l : ListO) (x : Nat) : ResM ListO :=
  match l.items.find? (·.1 = x) with
  | none => pure l
  | some it => do freeB it.2; pure ⟨l.items.erase it⟩

def listFree (l : ListO) : ResM Unit := freeAll l.blocks

/-- a list of string copies (`p_ini_file_sections`, `_keys`, `_parameter_list`): (copy, node) -/
structure SListO where
  items : List (Option Blk × Blk)
  deriving Repr

/-- in the order of release: `p_list_foreach (l, p_free)`, then `p_list_free (l)` -/
def SListO.blocks (l : SListO) : List Blk := l.items.filterMap (·.1) ++ l.items.map (·.2)
def SListO.foot (l : SListO) : List R := l.blocks.map .blk

/-- the repaired `pp_ini_file_list_add_copy`: copy, then the list node; the copy is released when the
    node cannot be allocated -/
def listAddCopy (items : List (Option Blk × Blk)) (append : Bool) : ResM (List (Option Blk × Blk)) := do
  let copy ← malloc
  let some nd ← malloc | do free copy; pure items
  pure (if append then items ++ [(copy, nd)] else (copy, nd) :: items)

def addCopies : Nat → Bool → List (Option Blk × Blk) → ResM (List (Option Blk × Blk))
  | 0, _, items => pure items
  | n + 1, app, items => do
    let items' ← listAddCopy items app
    addCopies n app items'

def strlistCls (items : List (Option Blk × Blk)) (want : Nat) : Char :=
  if want = 0 then 'S'
  else if items.length = 0 then 'F'
  else if items.length = want ∧ items.all (·.1.isSome) then 'S' else 'D'

/-- `p_list_foreach (l, p_free)` then `p_list_free (l)` -/
def slistFree (l : SListO) : ResM Unit := freeAll l.blocks

/-! ## trees -/
structure TreeO where
  self : Blk
  nodes : List (Nat × Blk)        -- (key, node)
  deriving Repr

def TreeO.blocks (t : TreeO) : List Blk := t.nodes.map (·.2) ++ [t.self]
def TreeO.foot (t : TreeO) : List R := t.blocks.map .blk

def treeNew : ResM (Option TreeO) := do
  let some a ← malloc | return none
  return some ⟨a, []⟩

/-- `p_tree_insert`: an existing key is replaced in place, a new key needs a node -/
def treeInsert (t : TreeO) (k : Nat) : ResM (Char × TreeO) := do
  deref (some t.self)
  if (t.nodes.find? (·.1 = k)).isSome then return ('S', t)
  let some b ← malloc | return ('F', t)
  return ('S', { t with nodes := (k, b) :: t.nodes })

def treeRemove (t : TreeO) (k : Nat) : ResM TreeO := do
  deref (some t.self)
  match t.nodes.find? (·.1 = k) with
  | none => pure t
  | some it => do freeB it.2; pure { t with nodes := t.nodes.erase it }

def treeClear (t : TreeO) : ResM TreeO := do
  deref (some t.self)
  freeAll (t.nodes.map (·.2))
  pure { t with nodes := [] }

def treeFree (t : TreeO) : ResM Unit := freeAll t.blocks

/-! ## hash table -/
structure HtO where
  self : Blk
  tbl : Blk
  nodes : List (Nat × Nat × Blk)  -- (key, value, node), most recent first
  deriving Repr

def HtO.blocks (t : HtO) : List Blk := t.nodes.map (·.2.2) ++ [t.tbl, t.self]
def HtO.foot (t : HtO) : List R := t.blocks.map .blk

def htNew : ResM (Option HtO) := do
  let some a ← malloc | return none
  let some b ← malloc | do freeB a; return none
  return some ⟨a, b, []⟩

def htInsert (t : HtO) (k v : Nat) : ResM (Char × HtO) := do
  deref (some t.self)
  deref (some t.tbl)
  if (t.nodes.find? (·.1 = k)).isSome then
    return ('S', { t with nodes := t.nodes.map fun x => if x.1 = k then (x.1, v, x.2.2) else x })
  let some b ← malloc | return ('F', t)
  return ('S', { t with nodes := (k, v, b) :: t.nodes })

def htRemove (t : HtO) (k : Nat) : ResM HtO := do
  deref (some t.self)
  match t.nodes.find? (·.1 = k) with
  | none => pure t
  | some it => do freeB it.2.2; pure { t with nodes := t.nodes.erase it }

def htBucket (k : Nat) : Nat := (k + 37) % 101

/-- traversal order of the table: buckets ascending, within a bucket the most recent first -/
def htTraverse (nodes : List (Nat × Nat × Blk)) : List (Nat × Nat × Blk) :=
  (List.range 101).flatMap fun b => nodes.filter fun x => htBucket x.1 = b

/-- building the key / value lists: one `p_list_append` per selected node -/
def appendAll : List Nat → ListO → ResM ListO
  | [], l => pure l
  | x :: xs, l => do
    let (_, l') ← listAdd l x false
    appendAll xs l'

def htList (t : HtO) (sel : List Nat) : ResM (Char × ListO) := do
  deref (some t.self)
  deref (some t.tbl)
  let l ← appendAll sel ⟨[]⟩
  return (if l.items.length = sel.length then 'S' else 'D', l)

def htFree (t : HtO) : ResM Unit := freeAll t.blocks

/-! ## INI files -/
inductive Line
  | hdr (sec : Nat)
  | kv (key : Nat)
  | other
  deriving Repr, DecidableEq

/-- the files of the harness, as line kinds (`none`: the file does not exist).  Section `i` is named
    `s<i>`, key `j` is `k<j>` with a value fixed by `j % 4` (plain, `{1 2 3}`, `true`, `1.5`). -/
def iniFiles : Nat → Option (List Line)
  | 1 => some [.hdr 0, .kv 0, .kv 1]
  | 2 => some [.other, .hdr 0, .kv 0, .kv 1, .other, .hdr 1, .hdr 2, .kv 2, .kv 3, .other, .kv 5]
  | 3 => some [.kv 6, .other, .kv 7, .kv 4, .hdr 0, .kv 0, .kv 1]      -- keys before the first section: read, then ignored
  | _ => none

def iniValText (j : Nat) : String :=
  match j % 4 with
  | 0 => s!"v{j}"
  | 1 => "{1 2 3}"
  | 2 => "true"
  | _ => "1.5"

def iniLineText : Line → String
  | .hdr i => s!"[s{i}]"
  | .kv j => s!"k{j} = {iniValText j}"
  | .other => "# no assignment here"

structure IniParam where
  key : Nat
  self : Blk
  name : Blk
  val : Blk
  node : Blk
  deriving Repr

structure IniSec where
  id : Nat
  self : Blk
  name : Blk
  node : Option Blk       -- its item in `file->sections` (none while it is the section being read)
  params : List IniParam
  deriving Repr

/-- what `pp_ini_file_section_free` releases, in its order: every parameter (name, value, structure), the
    items of the key list, the section name, the section -/
def IniSec.blocks (s : IniSec) : List Blk :=
  (s.params.flatMap fun p => [p.name, p.val, p.self]) ++ s.params.map (·.node) ++ [s.name, s.self]
def IniSec.foot (s : IniSec) : List R := (s.blocks ++ s.node.toList).map .blk

structure IniO where
  self : Blk
  path : Blk
  file : Nat
  parsed : Bool
  secs : List IniSec
  deriving Repr

/-- what `p_ini_file_free` releases, in its order -/
def IniO.blocks (o : IniO) : List Blk := o.secs.flatMap IniSec.blocks ++ o.secs.filterMap (·.node) ++ [o.path, o.self]
def IniO.foot (o : IniO) : List R := o.blocks.map .blk

def iniNew (file : Nat) : ResM (Option IniO) := do
  let some a ← malloc | return none
  let some p ← malloc | do freeB a; return none
  return some ⟨a, p, file, false, []⟩

/-- `pp_ini_file_parameter_new` (the list node comes later) -/
def paramNew : ResM (Option (Blk × Blk × Blk)) := do
  let some a ← malloc | return none
  let some n ← malloc | do freeB a; return none
  let some v ← malloc | do freeB n; freeB a; return none
  return some (a, n, v)

def sectionNew (i : Nat) : ResM (Option IniSec) := do
  let some a ← malloc | return none
  let some n ← malloc | do freeB a; return none
  return some ⟨i, a, n, none, []⟩

/-- `pp_ini_file_section_free` (the section's own list item is not part of it) -/
def sectionFree (s : IniSec) : ResM Unit := freeAll s.blocks

/-- a finished section is linked into `file->sections` (dropped when it has no keys, and — repaired —
    when the list item cannot be allocated) -/
def flushSec (cur : Option IniSec) (secs : List IniSec) : ResM (List IniSec) :=
  match cur with
  | none => pure secs
  | some sec =>
    if sec.params.isEmpty then do sectionFree sec; pure secs
    else do
      let some nd ← malloc | do sectionFree sec; pure secs
      pure ({ sec with node := some nd } :: secs)

/-- a `key = value` line inside a section -/
def addParam (cur : Option IniSec) (j : Nat) : ResM (Option IniSec) :=
  match cur with
  | none => pure none
  | some sec => do
    let some (a, n, v) ← paramNew | pure (some sec)
    let some nd ← malloc | do freeB n; freeB v; freeB a; pure (some sec)
    pure (some { sec with params := ⟨j, a, n, v, nd⟩ :: sec.params })

def parseLines : List Line → Option IniSec → List IniSec → ResM (Option IniSec × List IniSec)
  | [], cur, secs => pure (cur, secs)
  | .other :: rest, cur, secs => do
    let some dst ← malloc | parseLines rest cur secs
    freeB dst
    parseLines rest cur secs
  | .hdr i :: rest, cur, secs => do
    let some dst ← malloc | parseLines rest cur secs
    let some tmp ← malloc | do freeB dst; parseLines rest cur secs
    freeB tmp
    let secs' ← flushSec cur secs
    let cur' ← sectionNew i
    freeB dst
    parseLines rest cur' secs'
  | .kv j :: rest, cur, secs => do
    let some dst ← malloc | parseLines rest cur secs
    let some t1 ← malloc | do freeB dst; parseLines rest cur secs
    freeB t1
    let some t2 ← malloc | do freeB dst; parseLines rest cur secs
    freeB t2
    let cur' ← addParam cur j
    freeB dst
    parseLines rest cur' secs

/-- the (section, key) pairs of a file, in file order -/
def iniLayoutOf : List Line → Option Nat → List (Nat × Nat)
  | [], _ => []
  | .hdr i :: rest, _ => iniLayoutOf rest (some i)
  | .kv j :: rest, some i => (i, j) :: iniLayoutOf rest (some i)
  | _ :: rest, cur => iniLayoutOf rest cur

def iniLayout (file : Nat) : List (Nat × Nat) :=
  match iniFiles file with
  | none => []
  | some ls => iniLayoutOf ls none

def secsFind (secs : List IniSec) (sec key : Nat) : Option IniParam :=
  (secs.find? (·.id = sec)).bind fun s => s.params.find? (·.key = key)

/-- every key of the file sits in its section (a lost header line moves keys to the previous section) -/
def iniComplete (file : Nat) (secs : List IniSec) : Bool :=
  (iniLayout file).all fun p => (secsFind secs p.1 p.2).isSome

def iniParse (o : IniO) (e : EP) : ResM (Char × IniO × EP) := do
  deref (some o.self)
  if o.parsed then return (if iniComplete o.file o.secs then 'S' else 'D', o, e)
  match iniFiles o.file with
  | none => do let e' ← setErr e; return ('F', o, e')
  | some ls => do
    let fd ← openFd
    let (cur, secs) ← parseLines ls none o.secs
    let secs' ← flushSec cur secs
    closeFd fd
    return (if iniComplete o.file secs' then 'S' else 'D', { o with parsed := true, secs := secs' }, e)

def IniO.findSec (o : IniO) (sec : Nat) : Option IniSec :=
  if o.parsed then o.secs.find? (·.id = sec) else none

def IniO.findParam (o : IniO) (sec key : Nat) : Option IniParam :=
  (o.findSec sec).bind fun s => s.params.find? (·.key = key)

def iniSections (o : IniO) : ResM (Char × SListO) := do
  deref (some o.self)
  let n := if o.parsed then o.secs.length else 0
  let items ← addCopies n false []
  return (strlistCls items n, ⟨items⟩)

def iniKeys (o : IniO) (sec : Nat) : ResM (Char × SListO) := do
  deref (some o.self)
  let n := match o.findSec sec with | none => 0 | some s => s.params.length
  let items ← addCopies n false []
  return (strlistCls items n, ⟨items⟩)

/-- `p_ini_file_parameter_string`: a copy of the value, else a copy of the default -/
def iniString (o : IniO) (sec key : Nat) : ResM (Char × Option Blk) := do
  deref (some o.self)
  match o.findParam sec key with
  | some _ => do
    let some v ← malloc | do
      let d ← malloc
      return (if d.isSome then 'D' else 'F', d)
    return ('S', some v)
  | none => do
    let d ← malloc
    return (if d.isSome then 'S' else 'F', d)

/-- `p_ini_file_parameter_int` / `_boolean`: a copy of the value is made and released -/
def iniScalar (o : IniO) (sec key : Nat) : ResM Char := do
  deref (some o.self)
  match o.findParam sec key with
  | some _ => do
    let some v ← malloc | return 'D'
    freeB v
    return 'S'
  | none => return 'S'

/-- `p_ini_file_parameter_double`: the copy goes through `p_strtod`, which chomps another copy -/
def iniDouble (o : IniO) (sec key : Nat) : ResM Char := do
  deref (some o.self)
  match o.findParam sec key with
  | some _ => do
    let some v ← malloc | return 'D'
    let some t ← malloc | do freeB v; return (if key % 4 = 3 then 'D' else 'S')
    freeB t
    freeB v
    return 'S'
  | none => return 'S'

def iniList (o : IniO) (sec key : Nat) : ResM (Char × SListO) := do
  deref (some o.self)
  match o.findParam sec key with
  | some _ =>
    let want := if key % 4 = 1 then 3 else 0
    let some v ← malloc | return (strlistCls [] want, ⟨[]⟩)
    let items ← addCopies want true []
    freeB v
    return (strlistCls items want, ⟨items⟩)
  | none => return ('S', ⟨[]⟩)

def iniFree (o : IniO) : ResM Unit := freeAll o.blocks

/-! ## crypto hash, IPC key -/
structure HashO where
  self : Blk
  ctx : Blk
  deriving Repr

def HashO.foot (h : HashO) : List R := [.blk h.self, .blk h.ctx]

/-- `p_crypto_hash_new`: the outer object, then the per-algorithm context -/
def hashNew : ResM (Option HashO) := do
  let some a ← malloc | return none
  let some c ← malloc | do freeB a; return none
  return some ⟨a, c⟩

def hashString (h : HashO) : ResM (Option Blk) := do
  deref (some h.self)
  deref (some h.ctx)
  malloc

def hashFree (h : HashO) : ResM Unit := do
  freeB h.ctx
  freeB h.self

/-- the repaired `p_ipc_unix_get_temp_dir` -/
def ipcTmpDir : ResM (Option Blk) := do
  let some str ← malloc | return none
  let some ret ← malloc | do freeB str; return none
  freeB str
  return some ret

/-- `p_ipc_get_platform_key` -/
def ipcKey (posix : Bool) : ResM (Option Blk) := do
  let some h ← hashNew | return none
  let hs ← hashString h
  hashFree h
  let some hs := hs | return none
  if posix then
    let some p ← malloc | do freeB hs; return none
    freeB hs
    return some p
  else
    let some tmp ← ipcTmpDir | do freeB hs; return none
    let some p ← malloc | do freeB tmp; freeB hs; return none
    freeB tmp
    freeB hs
    return some p

/-! ## directories -/
structure DirO where
  self : Blk
  path : Blk
  orig : Blk
  fd : Nat
  pos : Nat
  deriving Repr

def DirO.foot (d : DirO) : List R := [.blk d.self, .blk d.path, .blk d.orig, .fd d.fd]

structure DirentO where
  self : Blk
  name : Blk
  deriving Repr

def DirentO.foot (d : DirentO) : List R := [.blk d.self, .blk d.name]

/-- number of entries of the harness directory, `.` and `..` included -/
def dirEntries : Nat := 5

/-- the repaired `p_dir_new` -/
def dirNew (missing : Bool) (e : EP) : ResM (Option DirO × EP) := do
  if missing then
    let e' ← setErr e
    return (none, e')
  let fd ← openFd
  let some a ← malloc | do
    let e' ← setErr e
    closeFd fd
    return (none, e')
  let p ← malloc
  let o ← malloc
  match p, o with
  | some p, some o => return (some ⟨a, p, o, fd, 0⟩, e)
  | p, o => do
    let e' ← setErr e
    closeFd fd
    free p
    free o
    freeB a
    return (none, e')

/-- the repaired `p_dir_get_next_entry` -/
def dirNext (d : DirO) (e : EP) : ResM (Char × DirO × Option DirentO × EP) := do
  deref (some d.self)
  if d.pos ≥ dirEntries then return ('E', d, none, e)
  let d' := { d with pos := d.pos + 1 }
  let some a ← malloc | do
    let e' ← setErr e
    return ('F', d', none, e')
  let some n ← malloc | do
    let e' ← setErr e
    freeB a
    return ('F', d', none, e')
  deref (some d.path)
  let some p ← malloc | return ('D', d', some ⟨a, n⟩, e)
  freeB p
  return ('S', d', some ⟨a, n⟩, e)

def dirPath (d : DirO) : ResM (Option Blk) := do
  deref (some d.self)
  deref (some d.orig)
  malloc

def dirFree (d : DirO) : ResM Unit := do
  closeFd d.fd
  freeB d.path
  freeB d.orig
  freeB d.self

def direntFree (d : DirentO) : ResM Unit := do
  freeB d.name
  freeB d.self

/-! ## socket addresses and sockets -/
/-- `p_socket_address_new` on a string that is no address: the block is released again -/
def saNewBad : ResM (Option Blk) := do
  let some a ← malloc | return none
  freeB a
  return none

structure SockO where
  self : Blk
  fd : Option Nat
  kind : Nat          -- 0 tcp, 1 udp
  state : Nat         -- 0 fresh, 1 bound / listening, 2 connected, 3 closed, 4 after a refused connect
  pending : Nat       -- connections waiting in the accept queue
  deriving Repr

def SockO.foot (s : SockO) : List R := .blk s.self :: (match s.fd with | none => [] | some n => [.fd n])

def sockNew (kind : Nat) (e : EP) : ResM (Option SockO × EP) := do
  let some a ← malloc | do
    let e' ← setErr e
    return (none, e')
  let ok ← sysOk "socket"
  if !ok then
    let e' ← setErr e
    freeB a
    return (none, e')
  let fd ← openFd
  -- `pp_socket_set_fd_blocking`: a failing `fcntl (F_SETFL)` is reported, the half-made socket goes through `p_socket_free`
  if !(← sysOk "fcntl") then
    let e' ← setErr e
    closeFd fd
    freeB a
    return (none, e')
  return (some ⟨a, some fd, kind, 0, 0⟩, e)

/-- bind to a loopback port (through a temporary `PSocketAddress`) and listen -/
def sockListen (s : SockO) (e : EP) : ResM (Char × SockO × EP) := do
  deref (some s.self)
  let some a ← malloc | return ('F', s, e)
  freeB a
  return ('S', { s with state := 1 }, e)

/-- connect to a listening socket of this process -/
def sockConnect (s : SockO) (srv : SockO) (e : EP) : ResM (Char × SockO × SockO × EP) := do
  deref (some s.self)
  let some a ← malloc | return ('F', s, srv, e)
  freeB a
  return ('S', { s with state := 2 }, { srv with pending := srv.pending + 1 }, e)

/-- connect to a loopback port nobody listens on: refused -/
def sockConnectRefused (s : SockO) (e : EP) : ResM (Char × SockO × EP) := do
  deref (some s.self)
  let some a ← malloc | return ('F', s, e)
  let e' ← setErr e
  freeB a
  return ('F', { s with state := 4 }, e')

/-- `p_socket_accept` with a time-out: times out when nobody is waiting -/
def sockAccept (s : SockO) (e : EP) : ResM (Char × SockO × Option SockO × EP) := do
  deref (some s.self)
  if s.pending = 0 then
    let e' ← setErr e
    return ('F', s, none, e')
  let s' := { s with pending := s.pending - 1 }
  let fd ← openFd
  let some a ← malloc | do
    let e' ← setErr e
    closeFd fd
    return ('F', s', none, e')
  -- `p_socket_new_from_fd` on the accepted descriptor: `pp_socket_set_details_from_fd` (its first `getsockopt`) or
  -- `fcntl (F_SETFL)` fails → the structure is released, `p_socket_accept` closes the descriptor
  if !(← sysOk "getsockopt") then
    let e' ← setErr e
    freeB a
    closeFd fd
    return ('F', s', none, e')
  if !(← sysOk "fcntl") then
    let e' ← setErr e
    freeB a
    closeFd fd
    return ('F', s', none, e')
  return ('S', s', some ⟨a, some fd, 0, 2, 0⟩, e)

/-- `p_socket_get_local_address` / `_remote_address` -/
def sockAddr (s : SockO) (remote : Bool) (e : EP) : ResM (Option Blk × EP) := do
  deref (some s.self)
  if s.state = 3 ∨ (remote ∧ s.state ≠ 2) then
    let e' ← setErr e
    return (none, e')
  let some a ← malloc | do
    let e' ← setErr e
    return (none, e')
  return (some a, e)

/-- a datagram to itself, received with the sender's address -/
def sockUdpEcho (s : SockO) (e : EP) : ResM (Char × Option Blk × EP) := do
  deref (some s.self)
  let some a ← malloc | return ('F', none, e)
  freeB a
  let some from_ ← malloc | return ('D', none, e)
  return ('S', some from_, e)

/-- I/O on a socket that was closed (`p_socket_send`, `_receive`, `_shutdown`, `_set_buffer_size`, `_listen`, `_io_condition_wait`,
    `_accept`): `pp_socket_check` reports "already closed"; only the first call finds the error pointer empty -/
def sockIoClosed (s : SockO) (e : EP) : ResM (Char × SockO × EP) := do
  deref (some s.self)
  let e' ← setErr e
  return ('F', s, e')

def sockClose (s : SockO) : ResM SockO := do
  deref (some s.self)
  match s.fd with
  | none => pure s
  | some fd => do closeFd fd; pure { s with fd := none, state := 3 }

def sockFree (s : SockO) : ResM Unit := do
  match s.fd with
  | none => pure ()
  | some fd => closeFd fd
  freeB s.self

/-- `p_socket_new_from_fd` on a fresh descriptor of the caller, who closes it when the call fails -/
def sockFromFd (e : EP) : ResM (Option SockO × EP) := do
  let fd ← openFd
  let some a ← malloc | do
    let e' ← setErr e
    closeFd fd
    return (none, e')
  -- `pp_socket_set_details_from_fd`: the type of the descriptor cannot be read (`getsockopt (SO_TYPE)` fails)
  if !(← sysOk "getsockopt") then
    let e' ← setErr e
    freeB a
    closeFd fd
    return (none, e')
  if !(← sysOk "fcntl") then
    let e' ← setErr e
    freeB a
    closeFd fd
    return (none, e')
  return (some ⟨a, some fd, 0, 0, 0⟩, e)

/-! ## named semaphores, shared memory, shared buffers -/
structure SemO where
  self : Blk
  key : Blk
  name : Name
  map : Nat
  created : Bool
  deriving Repr

def semMapLen : Nat := 32
def SemO.foot (s : SemO) : List R := [.blk s.self, .blk s.key, .map s.map semMapLen]
def SemO.owned (s : SemO) : List Name := if s.created then [s.name] else []

/-- `p_semaphore_new` (`create`: access mode CREATE, else OPEN) -/
def semNew (name : Name) (create : Bool) (e : EP) : ResM (Option SemO × EP) := do
  let some a ← malloc | do
    let e' ← setErr e
    return (none, e')
  let some nn ← malloc | do
    let e' ← setErr e
    freeB a
    return (none, e')
  let key ← ipcKey true
  freeB nn
  let some key := key | do
    let e' ← setErr e
    freeB a
    return (none, e')
  -- `pp_semaphore_create_handle`: the first `sem_open` failing for another reason than "exists" is reported;
  -- `p_semaphore_free` then releases the key and the structure
  if !(← sysOk "sem_open") then
    let e' ← setErr e
    freeB key
    freeB a
    return (none, e')
  match ← nameTest name with
  | none => do
    nameCreate name 0
    let m ← mmap semMapLen
    return (some ⟨a, key, name, m, true⟩, e)
  | some _ =>
    if create then do
      -- access mode CREATE on an existing name (finding F2 repaired): the object is removed and created afresh; this
      -- handle owns the new one (handles opened before keep their mapping of the old object)
      nameUnlink name
      nameCreate name 0
      let m ← mmap semMapLen
      return (some ⟨a, key, name, m, true⟩, e)
    else do
      let m ← mmap semMapLen
      return (some ⟨a, key, name, m, false⟩, e)

def semFree (s : SemO) : ResM Unit := do
  munmap s.map semMapLen semMapLen
  if s.created then nameUnlink s.name
  freeB s.key
  freeB s.self

structure ShmO where
  self : Blk
  key : Blk
  id : Nat
  map : Nat
  mapLen : Nat        -- length that is mapped (the size of the segment)
  size : Nat          -- size reported to the user (clamped to the request)
  created : Bool
  lock : SemO
  deriving Repr

def ShmO.foot (s : ShmO) : List R := .blk s.self :: .blk s.key :: .map s.map s.mapLen :: s.lock.foot
def ShmO.owned (s : ShmO) : List Name := (if s.created then [Name.shm s.id] else []) ++ s.lock.owned

/-- `pp_shm_create_handle`, first part: `shm_open` (exclusive creation, else opening the existing object),
    then `ftruncate` for a new object / `fstat` for an existing one.  Result: descriptor, "created here",
    size of the segment. -/
def shmOpen (id size : Nat) (e : EP) : ResM (Option (Nat × Bool × Nat) × EP) := do
  if !(← sysOk "shm_open") then
    let e' ← setErr e
    return (none, e')
  let ex ← nameTest (.shm id)
  let created := ex.isNone
  let segSize := match ex with | some sz => sz | none => size
  if created then nameCreate (.shm id) size
  let fd ← openFd
  -- a new object is sized with `ftruncate`, the size of an existing one is read with `fstat`; when either fails the
  -- descriptor is closed and `pp_shm_clean_handle` removes the name only if this handle created it
  let sizeOk ← if created then sysOk "ftruncate" else sysOk "fstat"
  if !sizeOk then
    let e' ← setErr e
    closeFd fd
    if created then nameUnlink (.shm id)
    return (none, e')
  return (some (fd, created, segSize), e)

/-- second part: `mmap`, then the descriptor is closed -/
def shmMap (id fd : Nat) (created : Bool) (segSize : Nat) (e : EP) : ResM (Option Nat × EP) := do
  let mmapOk ← sysOk "mmap"
  if !mmapOk || segSize = 0 then
    let e' ← setErr e
    closeFd fd
    if created then nameUnlink (.shm id)
    return (none, e')
  let m ← mmap segSize
  closeFd fd
  return (some m, e)

/-- `pp_shm_create_handle` and the tail of `p_shm_new`, once the structure `a` and the key exist.
    After a failure everything acquired so far is released (`pp_shm_clean_handle`), then `p_shm_free`
    releases the key and the structure. -/
def shmAttach (a key : Blk) (id size : Nat) (e : EP) : ResM (Option ShmO × EP) := do
  let (o, e1) ← shmOpen id size e
  match o with
  | none => do freeB key; freeB a; return (none, e1)
  | some (fd, created, segSize) => do
    let (m, e2) ← shmMap id fd created segSize e1
    match m with
    | none => do freeB key; freeB a; return (none, e2)
    | some m => do
      let (lock, e3) ← semNew (.shmLock id) created e2
      match lock with
      | none => do
        munmap m segSize segSize
        if created then nameUnlink (.shm id)
        freeB key
        freeB a
        return (none, e3)
      | some lock =>
        return (some ⟨a, key, id, m, segSize, if segSize > size ∧ size ≠ 0 then size else segSize, created, lock⟩, e3)

/-- `p_shm_new` -/
def shmNew (id : Nat) (size : Nat) (e : EP) : ResM (Option ShmO × EP) := do
  let some a ← malloc | do
    let e' ← setErr e
    return (none, e')
  let some nn ← malloc | do
    let e' ← setErr e
    freeB a
    return (none, e')
  let key ← ipcKey true
  freeB nn
  let some key := key | do
    let e' ← setErr e
    freeB a
    return (none, e')
  shmAttach a key id size e

/-- `p_shm_free`: the whole mapping is removed (finding F5 repaired: the current code unmaps only `size`) -/
def shmFree (s : ShmO) : ResM Unit := do
  munmap s.map s.mapLen s.mapLen
  if s.created then nameUnlink (.shm s.id)
  semFree s.lock
  freeB s.key
  freeB s.self

structure ShmBufO where
  self : Blk
  shm : ShmO
  deriving Repr

def ShmBufO.foot (b : ShmBufO) : List R := .blk b.self :: b.shm.foot

def shmbufNew (id : Nat) (size : Nat) (e : EP) : ResM (Option ShmBufO × EP) := do
  let (shm, e1) ← shmNew id (if size ≠ 0 then size + 17 else 0) e
  let some shm := shm | return (none, e1)
  if shm.size ≤ 17 then
    let e2 ← setErr e1
    shmFree shm
    return (none, e2)
  let some a ← malloc | do
    let e2 ← setErr e1
    shmFree shm
    return (none, e2)
  return (some ⟨a, shm⟩, e1)

def shmbufFree (b : ShmBufO) : ResM Unit := do
  shmFree b.shm
  freeB b.self

/-! ## locks -/
/-- a one-block object whose native part is initialised by a system call (mutex, condition variable) -/
def newInit (sysName : String) : ResM (Option Blk) := do
  let some a ← malloc | return none
  if !(← sysOk sysName) then
    freeB a
    return none
  return some a

structure RwgO where
  self : Blk
  m : Blk
  r : Blk
  w : Blk
  deriving Repr

def RwgO.foot (l : RwgO) : List R := [.blk l.self, .blk l.m, .blk l.r, .blk l.w]

/-- the repaired `p_rwlock_new` of prwlock-general.c -/
def rwgNew : ResM (Option RwgO) := do
  let some a ← malloc | return none
  let some m ← newInit "pthread_mutex_init" | do freeB a; return none
  let some r ← newInit "pthread_cond_init" | do freeB m; freeB a; return none
  let some w ← newInit "pthread_cond_init" | do freeB r; freeB m; freeB a; return none
  return some ⟨a, m, r, w⟩

def rwgFree (l : RwgO) : ResM Unit := do
  freeB l.m
  freeB l.r
  freeB l.w
  freeB l.self

/-! ## threads and thread-local storage -/
/-- a native TLS slot: the block holding the `pthread_key_t`, the key, and the value the main thread
    stored under it (a block owned by the caller, or the main thread's `PUThreadBase`) -/
structure Slot where
  blk : Blk
  key : Nat
  value : Option Blk
  deriving Repr

def Slot.foot (s : Slot) : List R := .blk s.blk :: .key s.key :: ob s.value

def slotFoot : Option Slot → List R
  | none => []
  | some s => s.foot

/-- `pp_uthread_get_tls_key`: the native key is created lazily, in its own block -/
def getTlsKey (slot : Option Slot) : ResM (Option Slot) :=
  match slot with
  | some n => pure (some n)
  | none => do
    let some b ← malloc | return none
    if !(← sysOk "pthread_key_create") then
      freeB b
      return none
    let k ← keyCreate
    return some ⟨b, k, none⟩

structure TlsO where
  self : Blk
  slot : Option Slot
  deriving Repr

def TlsO.foot (t : TlsO) : List R := .blk t.self :: slotFoot t.slot

def tlsNew : ResM (Option TlsO) := do
  let some a ← malloc | return none
  return some ⟨a, none⟩

/-- the harness' `tls_set`: read the old value, allocate a new one, store it, check, release the old one -/
def tlsSet (t : TlsO) : ResM (Char × TlsO) := do
  deref (some t.self)
  let n1 ← getTlsKey t.slot
  let some v ← malloc | return ('F', { t with slot := n1 })
  let n2 ← getTlsKey n1
  match n2 with
  | none => do
    let n3 ← getTlsKey n2
    freeB v
    return ('F', { t with slot := n3 })
  | some sl => do
    free sl.value
    return ('S', { t with slot := some { sl with value := some v } })

/-- `p_uthread_replace_local`: the old value goes through the destroy notification (`p_free`) -/
def tlsReplace (t : TlsO) : ResM (Char × TlsO) := do
  deref (some t.self)
  let some v ← malloc | return ('F', t)
  let n1 ← getTlsKey t.slot
  match n1 with
  | none => do
    let n2 ← getTlsKey n1
    freeB v
    return ('F', { t with slot := n2 })
  | some sl => do
    free sl.value
    return ('S', { t with slot := some { sl with value := some v } })

def tlsGet (t : TlsO) : ResM TlsO := do
  deref (some t.self)
  let n1 ← getTlsKey t.slot
  return { t with slot := n1 }

/-- the repaired `p_uthread_local_free` (after the caller released its value) -/
def tlsFree (t : TlsO) : ResM Unit := do
  match t.slot with
  | none => pure ()
  | some sl => do
    free sl.value
    keyDelete sl.key
    freeB sl.blk
  freeB t.self

/-- the library's own state: the TLS reference of `puthread.c` (a `PUThreadKey` like any other; the value the
    main thread keeps in its slot is its `PUThreadBase`, made by `p_uthread_current`), and the
    thread-creation spinlock -/
structure LibO where
  inited : Bool := false
  tls : Option TlsO := none
  spin : Option Blk := none
  deriving Repr

def optTls : Option TlsO → List R
  | none => []
  | some t => t.foot

def LibO.foot (l : LibO) : List R := optTls l.tls ++ ob l.spin

/-- `p_libsys_init` → `p_uthread_init`: both objects are created when they do not exist; nothing is checked -/
def libInit (l : LibO) : ResM LibO := do
  if l.inited then return l
  let t ← match l.tls with
    | some t => pure (some t)
    | none => tlsNew
  let s ← match l.spin with
    | some s => pure (some s)
    | none => malloc
  return { inited := true, tls := t, spin := s }

/-- `p_libsys_shutdown` → `p_uthread_shutdown`: the main thread's object is dropped, then the (repaired)
    `p_uthread_local_free` releases the native slot and the reference -/
def libShutdown (l : LibO) : ResM LibO := do
  if !l.inited then return l
  match l.tls with
  | some t => do
    let t' ← tlsGet t
    tlsFree t'
  | none => pure ()
  free l.spin
  return {}

/-- the repaired `p_uthread_current` on the main thread -/
def curThread (l : LibO) : ResM (Char × LibO) := do
  match l.tls with
  | none => do
    let some b ← malloc | return ('F', l)
    freeB b
    return ('F', l)
  | some t => do
    let n1 ← getTlsKey t.slot
    if (n1.bind (·.value)).isSome then return ('S', { l with tls := some { t with slot := n1 } })
    let some b ← malloc | return ('F', { l with tls := some { t with slot := n1 } })
    let n2 ← getTlsKey n1
    match n2 with
    | none => do
      let n3 ← getTlsKey n2
      freeB b
      return ('F', { l with tls := some { t with slot := n3 } })
    | some sl => return ('S', { l with tls := some { t with slot := some { sl with value := some b } } })

structure ThreadO where
  self : Blk
  name : Option Blk
  deriving Repr

def ThreadO.foot (t : ThreadO) : List R := .blk t.self :: ob t.name

/-- `pp_uthread_proxy` in the new thread: its structure is stored in the library's TLS slot (the native key is
    created when this is the first user), then it is checked that it is there -/
def threadProxy (t : Option TlsO) : ResM (Option TlsO) :=
  match t with
  | none => pure none
  | some t => do
    let n1 ← getTlsKey t.slot
    let n2 ← getTlsKey n1
    pure (some { t with slot := n2 })

/-- the thread body of the harness: a value is stored under a user key and destroyed when the thread exits
    (or released by the body itself when it could not be stored) -/
def threadBody (tls : Option TlsO) (body : Bool) : ResM (Option TlsO) :=
  match tls, body with
  | some t, true => do
    let some v ← malloc | pure (some t)
    let k1 ← getTlsKey t.slot
    let k2 ← getTlsKey k1
    freeB v
    pure (some { t with slot := k2 })
  | t, _ => pure t

/-- what the harness asks of a thread: `body` — store a value under the user key; `long` — a name of more than 15
    characters (`p_uthread_set_name_internal` then works on a truncated copy) -/
structure ThrOpt where
  body : Bool
  long : Bool := false
  deriving Repr

/-- `p_uthread_create_internal` after the structure exists: attribute object, detach state, `pthread_create`; each
    can fail, the structure is then released by the caller of this helper -/
def threadStart : ResM Bool := do
  if !(← sysOk "pthread_attr_init") then return false
  if !(← sysOk "pthread_attr_setdetachstate") then return false
  sysOk "pthread_create"

/-- `p_uthread_set_name_internal` in the new thread (only when the name was copied): a long name is truncated in a
    temporary copy, which is released again; without the copy the system name is not set -/
def threadSetName (long : Bool) (nm : Option Blk) : ResM Unit := do
  if long && nm.isSome then
    let some t ← malloc | return ()
    freeB t

/-- `p_uthread_create` followed by the complete run of the thread (it is joined or waited for):
    the creator allocates the structure and the name, then the thread runs its proxy and its body. -/
def threadRun (l : LibO) (tls : Option TlsO) (o : ThrOpt) : ResM (Option ThreadO × LibO × Option TlsO) := do
  let some a ← malloc | return (none, l, tls)
  if !(← threadStart) then
    freeB a
    return (none, l, tls)
  let nm ← malloc
  let lt ← threadProxy l.tls
  threadSetName o.long nm
  let tls' ← threadBody tls o.body
  return (some ⟨a, nm⟩, { l with tls := lt }, tls')

def threadUnref (t : ThreadO) : ResM Unit := do
  free t.name
  freeB t.self

/-! ## library loader, anonymous mappings -/
structure LoaderO where
  self : Blk
  map : Nat
  deriving Repr

def soLen : Nat := 16384
def LoaderO.foot (l : LoaderO) : List R := [.blk l.self, .map l.map soLen]

/-- `p_library_loader_new`; `which`: 0 the tiny library, 1 a missing file, 2 a file that is no library -/
def loaderNew (which : Nat) : ResM (Option LoaderO) := do
  if which = 1 then return none
  let ok ← sysOk "dlopen"
  if which ≠ 0 then
    if ok then dlSet true
    return none
  if !ok then return none
  dlSet false             -- any successful dl* call clears what dlerror() would report
  let m ← mmap soLen
  let some a ← malloc | do
    munmap m soLen soLen
    return none
  return some ⟨a, m⟩

def loaderFree (l : LoaderO) : ResM Unit := do
  munmap l.map soLen soLen
  dlSet false
  freeB l.self

/-- `p_library_loader_get_symbol` of an existing symbol -/
def loaderSym : ResM Unit := dlSet false

/-- `p_library_loader_get_last_error` -/
def loaderErr : ResM (Char × Option Blk) := do
  let pend ← dlGet
  dlSet false
  if !pend then return ('E', none)
  let r ← malloc
  return (if r.isSome then 'S' else 'F', r)

def mmapNew (len : Nat) (e : EP) : ResM (Option (Nat × Nat) × EP) := do
  if !(← sysOk "mmap") then
    let e' ← setErr e
    return (none, e')
  let m ← mmap len
  return (some (m, len), e)

/-- `p_mem_munmap`: when `munmap` fails the error is reported and the mapping stays (the caller still owns it) -/
def mmapUnmap (i len : Nat) (e : EP) : ResM (Bool × EP) := do
  if !(← sysOk "munmap") then
    let e' ← setErr e
    return (false, e')
  munmap i len len
  return (true, e)

end PV.Res

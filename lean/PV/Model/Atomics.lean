/-!
# Model of the atomic-operation back-ends (`patomic-c11.c`, `patomic-sync.c`, `patomic-sim.c`)

Nothing in this file is a hand-copied table of what `p_atomic_*` does.  The translator
(`tools/extract_atomics.py`) writes, for the *current* source tree,

* one `AtomicImpl` record per function of the lock-free back-ends (which GCC builtin is called,
  with which operands / memory orders / fences, and how the C return value is formed), and
* one `SimFn` record per function of the mutex-simulated back-end (bracket structure and the body
  as a statement tree of the mini language below),

into `PV/Generated/Atomics.lean`.  This file gives those records a meaning:

* `interp` — semantics of a builtin record on a wrapping word `BitVec n` (n = 32 / 64);
  the contract "the builtin is one indivisible read-modify-write with this result" is the GCC /
  hardware contract (trusted, DESIGN §4);
* `evalE` / `execS` / `simProg` — interpreter of the statement language.  It produces a
  *resumption* (`Res`): a tree of individual loads and stores of the shared word, so that the
  bracketed machine of `PV.Model.Locks` can interleave other threads between any two accesses;
* `spec` — what the user relies on: the C expression on a wrapping 32-bit / pointer-width word.

Undefined behaviour of the modelled subset (reading a local that was never assigned, an operand
index the function does not have, a builtin called with the wrong number of value operands) is an
explicit `none` / `Res.fail`; nothing is defaulted.
-/
namespace PV.Atomics

/-! ## records written by the translator (T1) -/

/-- C11 / GCC memory orders (`__ATOMIC_RELAXED` = 0 … `__ATOMIC_SEQ_CST` = 5). -/
inductive Order | relaxed | consume | acquire | release | acqRel | seqCst
  deriving DecidableEq, Repr, Inhabited

def Order.isAcquire : Order → Bool
  | .acquire | .acqRel | .seqCst => true
  | _ => false

def Order.isRelease : Order → Bool
  | .release | .acqRel | .seqCst => true
  | _ => false

/-- the call (or plain access) that touches the shared word -/
inductive Builtin
  | atomicLoad | atomicStore
  | atomicFetchAdd | atomicFetchSub | atomicFetchAnd | atomicFetchOr | atomicFetchXor
  | atomicCas                       -- `__atomic_compare_exchange_n`
  | syncFetchAdd | syncFetchSub | syncFetchAnd | syncFetchOr | syncFetchXor
  | syncBoolCas                     -- `__sync_bool_compare_and_swap`
  | plainLoad | plainStore          -- `*atomic` / `*atomic = v` (volatile access, sync model)
  deriving DecidableEq, Repr, Inhabited

def Builtin.isSync : Builtin → Bool
  | .syncFetchAdd | .syncFetchSub | .syncFetchAnd | .syncFetchOr | .syncFetchXor | .syncBoolCas => true
  | _ => false

def Builtin.isCas : Builtin → Bool
  | .atomicCas | .syncBoolCas => true
  | _ => false

/-- role of a value operand: the i-th value parameter of the C function, or a literal -/
inductive Operand | arg (i : Nat) | const (v : Int)
  deriving DecidableEq, Repr, Inhabited

/-- how the C function forms its return value from the builtin's result -/
inductive RetForm
  | void                      -- result discarded / function returns void
  | old                       -- the value the builtin returned (old value / loaded value)
  | oldEqConst (c : Int)      -- `builtin (…) == c ? TRUE : FALSE`
  | casResult                 -- the boolean result of the compare-and-swap
  deriving DecidableEq, Repr, Inhabited

/-- which API operation a function implements (read off its name) -/
inductive Op | get | set | inc | decAndTest | cas | add | and | or | xor
  deriving DecidableEq, Repr, Inhabited

structure AtomicImpl where
  cname : String
  op : Op
  /-- `p_atomic_pointer_*` (the spec word is pointer-sized) vs `p_atomic_int_*` -/
  ptr : Bool
  builtin : Builtin
  /-- width in bits of the object the builtin operates on (from the pointer type / `_4` `_8` suffix) -/
  width : Nat
  operands : List Operand
  order : Option Order
  failOrder : Option Order
  weak : Option Bool
  ret : RetForm
  /-- `__sync_synchronize ()` immediately before / after the access -/
  fenceBefore : Bool
  fenceAfter : Bool
  deriving Repr, Inhabited

/-- the word width the API promises for this function -/
def AtomicImpl.specWidth (i : AtomicImpl) : Nat := if i.ptr then 64 else 32

/-! ## semantics of a record -/

inductive Ret (n : Nat) | void | val (v : BitVec n) | bool (b : Bool)
  deriving DecidableEq, Repr

/-- raw result of the builtin itself -/
inductive Raw (n : Nat) | none | val (v : BitVec n) | flag (b : Bool)

def operandVal {n : Nat} (a b : BitVec n) : Operand → Option (BitVec n)
  | .arg 0 => some a
  | .arg 1 => some b
  | .arg _ => none
  | .const v => some (BitVec.ofInt n v)

def operandVals {n : Nat} (a b : BitVec n) : List Operand → Option (List (BitVec n))
  | [] => some []
  | o :: r => match operandVal a b o, operandVals a b r with
    | some v, some vs => some (v :: vs)
    | _, _ => none

/-- The GCC contract of each builtin as one indivisible step on the word: `(word', raw result)`.
    (A *weak* compare-exchange may additionally fail spuriously; that extra behaviour is a separate
    step of the lock machines, and `PV.Props.C04.cas_all_strong` shows no record asks for it.) -/
def builtinSem {n : Nat} (b : Builtin) (w : BitVec n) : List (BitVec n) → Option (BitVec n × Raw n)
  | [] => match b with
    | .atomicLoad | .plainLoad => some (w, .val w)
    | _ => none
  | [v] => match b with
    | .atomicStore | .plainStore => some (v, .none)
    | .atomicFetchAdd | .syncFetchAdd => some (w + v, .val w)
    | .atomicFetchSub | .syncFetchSub => some (w - v, .val w)
    | .atomicFetchAnd | .syncFetchAnd => some (w &&& v, .val w)
    | .atomicFetchOr | .syncFetchOr => some (w ||| v, .val w)
    | .atomicFetchXor | .syncFetchXor => some (w ^^^ v, .val w)
    | _ => none
  | [e, d] => match b with
    | .atomicCas | .syncBoolCas => if w = e then some (d, .flag true) else some (w, .flag false)
    | _ => none
  | _ => none

def formRet {n : Nat} : RetForm → Raw n → Option (Ret n)
  | .void, _ => some .void
  | .old, .val v => some (.val v)
  | .oldEqConst c, .val v => some (.bool (v == BitVec.ofInt n c))
  | .casResult, .flag b => some (.bool b)
  | _, _ => none

/-- meaning of one generated record: old word and the (up to two) value arguments of the C
    function ↦ new word and C return value -/
def interp {n : Nat} (i : AtomicImpl) (w a b : BitVec n) : Option (BitVec n × Ret n) :=
  match operandVals a b i.operands with
  | none => none
  | some vs =>
    match builtinSem i.builtin w vs with
    | none => none
    | some (w', raw) =>
      match formRet i.ret raw with
      | none => none
      | some r => some (w', r)

/-! ## spec: the C expressions on a wrapping word -/

def spec {n : Nat} (op : Op) (w a b : BitVec n) : BitVec n × Ret n :=
  match op with
  | .get => (w, .val w)
  | .set => (a, .void)
  | .inc => (w + 1, .void)
  | .decAndTest => (w - 1, .bool (w - 1 == 0))
  | .cas => if w = a then (b, .bool true) else (w, .bool false)
  | .add => (w + a, .val w)
  | .and => (w &&& a, .val w)
  | .or => (w ||| a, .val w)
  | .xor => (w ^^^ a, .val w)

/-! ## the mutex-simulated back-end: statement language (T2) -/

/-- expressions of the bodies of `patomic-sim.c`; values are words of the operation's width,
    comparison results are 1 / 0 -/
inductive Expr
  | arg (i : Nat)              -- i-th value parameter
  | loc (i : Nat)              -- i-th local variable
  | const (v : Int)
  | load                       -- `*atomic`
  | add (x y : Expr) | sub (x y : Expr)
  | band (x y : Expr) | bor (x y : Expr) | bxor (x y : Expr)
  | eq (x y : Expr)
  | preDec | preInc            -- `--(*atomic)`, `++(*atomic)` : load, store, value = new
  | postDec | postInc          -- `(*atomic)--`, `(*atomic)++` : load, store, value = old
  | setLoc (i : Nat) (e : Expr) -- `local = e` (value = the assigned value)
  deriving Repr, Inhabited

inductive Stmt
  | skip
  | seq (s t : Stmt)
  | expr (e : Expr)            -- expression statement
  | store (e : Expr)           -- `*atomic = e;`
  | ite (c : Expr) (t e : Stmt)
  deriving Repr, Inhabited

structure SimFn where
  cname : String
  op : Op
  ptr : Bool
  width : Nat
  /-- the first call of the function is `p_mutex_lock (pp_atomic_mutex)` -/
  firstIsLock : Bool
  /-- the last call before the return is `p_mutex_unlock` … -/
  lastIsUnlock : Bool
  /-- … of the same (file-static) mutex -/
  sameMutex : Bool
  /-- mutex calls found strictly inside the bracket (must be 0) -/
  innerMutexCalls : Nat
  /-- any access to the word outside the bracket (must be false) -/
  accessOutside : Bool
  nLocals : Nat
  body : Stmt
  /-- `return local_i;` (none: the function returns void) -/
  ret : Option Nat
  /-- the C return type is `pboolean` -/
  retBool : Bool
  /-- the body does `+ ++ --` on a signed type (wraps in this build, UB in ISO C) -/
  signedArith : Bool
  deriving Repr, Inhabited

def SimFn.specWidth (f : SimFn) : Nat := if f.ptr then 64 else 32

/-- A computation as the tree of its accesses to the one shared word. -/
inductive Res (n : Nat) (α : Type)
  | done (a : α)
  | load (k : BitVec n → Res n α)
  | store (v : BitVec n) (k : Res n α)
  | fail

structure Env (n : Nat) where
  a : BitVec n
  b : BitVec n
  locs : List (Option (BitVec n))

def Env.get {n : Nat} (ρ : Env n) (i : Nat) : Option (BitVec n) :=
  match ρ.locs[i]? with
  | some (some v) => some v
  | _ => none

def Env.set {n : Nat} (ρ : Env n) (i : Nat) (v : BitVec n) : Env n :=
  { ρ with locs := ρ.locs.set i (some v) }

def b2w {n : Nat} (c : Bool) : BitVec n := if c then 1 else 0

def evalE {n : Nat} {α : Type} : Expr → Env n → (BitVec n → Env n → Res n α) → Res n α
  | .arg 0, ρ, k => k ρ.a ρ
  | .arg 1, ρ, k => k ρ.b ρ
  | .arg _, _, _ => .fail
  | .loc i, ρ, k => match ρ.get i with
    | some v => k v ρ
    | none => .fail
  | .const v, ρ, k => k (BitVec.ofInt n v) ρ
  | .load, ρ, k => .load fun w => k w ρ
  | .add x y, ρ, k => evalE x ρ fun vx ρ1 => evalE y ρ1 fun vy ρ2 => k (vx + vy) ρ2
  | .sub x y, ρ, k => evalE x ρ fun vx ρ1 => evalE y ρ1 fun vy ρ2 => k (vx - vy) ρ2
  | .band x y, ρ, k => evalE x ρ fun vx ρ1 => evalE y ρ1 fun vy ρ2 => k (vx &&& vy) ρ2
  | .bor x y, ρ, k => evalE x ρ fun vx ρ1 => evalE y ρ1 fun vy ρ2 => k (vx ||| vy) ρ2
  | .bxor x y, ρ, k => evalE x ρ fun vx ρ1 => evalE y ρ1 fun vy ρ2 => k (vx ^^^ vy) ρ2
  | .eq x y, ρ, k => evalE x ρ fun vx ρ1 => evalE y ρ1 fun vy ρ2 => k (b2w (vx == vy)) ρ2
  | .preDec, ρ, k => .load fun w => .store (w - 1) (k (w - 1) ρ)
  | .preInc, ρ, k => .load fun w => .store (w + 1) (k (w + 1) ρ)
  | .postDec, ρ, k => .load fun w => .store (w - 1) (k w ρ)
  | .postInc, ρ, k => .load fun w => .store (w + 1) (k w ρ)
  | .setLoc i e, ρ, k => evalE e ρ fun v ρ1 => if i < ρ1.locs.length then k v (ρ1.set i v) else .fail

def execS {n : Nat} {α : Type} : Stmt → Env n → (Env n → Res n α) → Res n α
  | .skip, ρ, k => k ρ
  | .seq s t, ρ, k => execS s ρ fun ρ1 => execS t ρ1 k
  | .expr e, ρ, k => evalE e ρ fun _ ρ1 => k ρ1
  | .store e, ρ, k => evalE e ρ fun v ρ1 => .store v (k ρ1)
  | .ite c t e, ρ, k => evalE c ρ fun v ρ1 => if v = 0 then execS e ρ1 k else execS t ρ1 k

/-- the body of a simulated function applied to its value arguments, as a resumption -/
def simProg {n : Nat} (f : SimFn) (a b : BitVec n) : Res n (Ret n) :=
  execS f.body { a := a, b := b, locs := List.replicate f.nLocals none } fun ρ =>
    match f.ret with
    | none => .done .void
    | some i => match ρ.get i with
      | some v => .done (if f.retBool then .bool (v != 0) else .val v)
      | none => .fail

/-- run a resumption to completion on a private word (what one thread alone would do) -/
def runRes {n : Nat} {α : Type} : Res n α → BitVec n → Option (BitVec n × α)
  | .done a, w => some (w, a)
  | .load k, w => runRes (k w) w
  | .store v k, _ => runRes k v
  | .fail, _ => none

/-- single-threaded meaning of a simulated function (lock; body; unlock with nobody else around) -/
def simInterp {n : Nat} (f : SimFn) (w a b : BitVec n) : Option (BitVec n × Ret n) :=
  runRes (simProg f a b) w

/-- bracket structure the translator must have found for the body to be a critical section -/
def SimFn.bracketed (f : SimFn) : Bool :=
  f.firstIsLock && f.lastIsUnlock && f.sameMutex && f.innerMutexCalls == 0 && !f.accessOutside

/-! ## spinlock and mutex-wrapper records (T1 / T2) -/

/-- `pspinlock-c11.c` / `pspinlock-sync.c` -/
structure SpinImpl where
  /-- the compare-and-swap of `p_spinlock_lock` -/
  lockCas : AtomicImpl
  /-- the loop is `do … while (cas == loopWhile)` / `while (cas == loopWhile) ;` : it *repeats*
      while the CAS result equals this boolean (`FALSE` in the source = `false`) -/
  loopWhile : Bool
  /-- the CAS's expected-value variable is re-initialised on every iteration (or is a literal) -/
  expectedFresh : Bool
  /-- value returned after the loop -/
  lockRet : Bool
  tryCas : AtomicImpl
  unlock : AtomicImpl
  unlockRet : Bool
  /-- all three functions operate on the same struct member -/
  sameWord : Bool
  /-- the lock word is allocated zeroed (`p_malloc0`) -/
  zeroInit : Bool
  deriving Repr, Inhabited

inductive Cmp | eq | ne deriving DecidableEq, Repr, Inhabited

/-- one wrapper of `pmutex-posix.c`: `native (&mutex->hdl) <cmp> <const>` decides TRUE / FALSE -/
structure MutexFn where
  cname : String
  native : String
  cmp : Cmp
  const : Int
  deriving Repr, Inhabited

def MutexFn.ret (f : MutexFn) (code : Int) : Bool :=
  match f.cmp with
  | .eq => code == f.const
  | .ne => code != f.const

structure MutexImpl where
  lock : MutexFn
  trylock : MutexFn
  unlock : MutexFn
  deriving Repr, Inhabited

/-- `pspinlock-sim.c`: each function is `return p_mutex_X (spinlock->mutex);` -/
structure SimSpinImpl where
  lockDelegate : String
  tryDelegate : String
  unlockDelegate : String
  sameMutex : Bool
  /-- `p_spinlock_new` stores a mutex of its own (`ret->mutex = p_mutex_new ()`) into every object:
      two spinlocks never share their native mutex -/
  freshMutex : Bool
  /-- `p_spinlock_free` is `p_mutex_free (spinlock->mutex); p_free (spinlock);` -/
  freeReleases : Bool
  deriving Repr, Inhabited

/-- `patomic-sim.c`: life cycle of the one mutex that brackets every operation -/
structure SimInitImpl where
  /-- declared `static PMutex *pp_atomic_mutex [= NULL];` at file scope: one per process, not per thread;
      assigned nowhere but in the two functions below -/
  mutexStatic : Bool
  /-- `p_atomic_thread_init` is `if (M == NULL) M = p_mutex_new ();` -/
  initCreatesWhenNull : Bool
  /-- `p_atomic_thread_shutdown` is `if (M != NULL) { p_mutex_free (M); M = NULL; }` -/
  shutdownFreesAndClears : Bool
  deriving Repr, Inhabited

inductive InitCall | init | shutdown
  deriving DecidableEq, Repr

/-- the pointer `pp_atomic_mutex` (`none` = NULL, `some k` = the k-th mutex ever created) after one call of
    `p_atomic_thread_init` / `_shutdown`; `fresh` is the identity `p_mutex_new` would hand out.
    A record whose shape was not recognised leaves the pointer alone (the translator has then reported it). -/
def simInitStep (i : SimInitImpl) (fresh : Nat) (m : Option Nat) : InitCall → Option Nat
  | .init => if i.initCreatesWhenNull then (match m with | none => some fresh | some k => some k) else m
  | .shutdown => if i.shutdownFreesAndClears then none else m

/-- native `pthread_mutex_lock` / `_unlock` calls one simulated operation makes: the bracket calls reach the
    native mutex only when the global mutex exists (`p_mutex_lock (NULL)` returns FALSE at its NULL guard) -/
def SimFn.nativeCalls (f : SimFn) (mutexLive : Bool) : Nat × Nat :=
  if mutexLive then ((if f.firstIsLock then 1 else 0) + f.innerMutexCalls, if f.lastIsUnlock then 1 else 0) else (0, 0)

end PV.Atomics

import PV.Generated.Ini
/-!
# Model of `pinifile.c` (C16) over `List UInt8`

Transliteration of `p_ini_file_parse` and of the getters as the code is (with the F3 repair: the
key/value cascade is guarded by the comment test, switched by `Generated.Ini.commentSkip`).

* every function below is defined by structural recursion (no fuel, no `partial`): Lean's termination
  check is the proof that parsing terminates on every byte string;
* libc is replaced by small executable definitions (`splitLines` = `fgets` loop, `scan` = the `sscanf`
  subset that is used, `isSpace` = `isspace` in the C locale, `atoi`); that these agree with glibc is
  *not* proved, only validated by the differential run (see the check's assumptions);
* C strings are byte lists without NUL; `cstr` cuts a buffer at its first NUL.
-/
namespace PV.Ini

abbrev Bytes := List UInt8

/-- `P_INI_FILE_MAX_LINE` -/
def maxLine : Nat := PV.Generated.Ini.maxLine

/-- `isspace` in the "C" locale: SP, HT, LF, VT, FF, CR -/
def isSpace (b : UInt8) : Bool := b == 32 || (9 ≤ b && b ≤ 13)
/-- `isdigit`; bytes ≥ 0x80 (negative `char`s) are no digits -/
def isDigit (b : UInt8) : Bool := 48 ≤ b && b ≤ 57

/-! ## `fgets (src_line, sizeof (src_line), in_file)` until it returns NULL -/

/-- `limit` = size − 1 = the most bytes one `fgets` call stores.  `cur` is the chunk read so far
(reversed), `n` its length.  A chunk ends after a newline or when it is full; end of input ends a
non-empty chunk (an empty one means `fgets` returned NULL). -/
def splitAux (limit : Nat) : Bytes → Bytes → Nat → List Bytes
  | [], cur, _ => if cur.isEmpty then [] else [cur.reverse]
  | b :: rest, cur, n =>
    if b == 10 || n + 1 ≥ limit then (b :: cur).reverse :: splitAux limit rest [] 0
    else splitAux limit rest (b :: cur) (n + 1)

def splitLines (input : Bytes) : List Bytes := splitAux (PV.Generated.Ini.lineBufSize - 1) input [] 0

/-! ## the line buffer: BOM test, `strlen`, `p_strchomp` -/

/-- byte `i` of the zeroed buffer after `fgets` stored `chunk` (and its terminating NUL) -/
def bufAt (chunk : Bytes) (i : Nat) : UInt8 := chunk.getD i 0

/-- the BOM cascade of the read loop, evaluated on *every* chunk.  The fourth test (UTF-32 LE) can
never fire: its bytes already satisfy the UTF-16 LE test. -/
def bomShift (c : Bytes) : Nat :=
  if bufAt c 0 == 0xEF && bufAt c 1 == 0xBB && bufAt c 2 == 0xBF then 3
  else if (bufAt c 0 == 0xFE && bufAt c 1 == 0xFF) || (bufAt c 0 == 0xFF && bufAt c 1 == 0xFE) then 2
  else if bufAt c 0 == 0x00 && bufAt c 1 == 0x00 && bufAt c 2 == 0xFE && bufAt c 3 == 0xFF then 4
  else if bufAt c 0 == 0xFF && bufAt c 1 == 0xFE && bufAt c 2 == 0x00 && bufAt c 3 == 0x00 then 4
  else 0

/-- what `strlen`/`sscanf`/`strcpy` see of a buffer -/
def cstr (s : Bytes) : Bytes := s.takeWhile (· != 0)

/-- first loop of `p_strchomp`: `while (pos_start < pos_end && isspace (*ptr++)) ++pos_start;`
`e` is `pos_end + 1` (so that the empty string, `pos_end = -1`, needs no negative number);
`pos_start < pos_end` is `p + 1 < e`. -/
def chompStart : Bytes → Nat → Nat → Nat
  | [], p, _ => p
  | c :: cs, p, e => if p + 1 < e && isSpace c then chompStart cs (p + 1) e else p

/-- second loop: `while (pos_end > 0 && isspace (*ptr--)) --pos_end;` walking the string backwards
from its last byte (the argument is the reversed string); `pos_end > 0` is `e > 1`.  Returns `pos_end + 1`. -/
def chompEnd : Bytes → Nat → Nat
  | [], e => e
  | c :: cs, e => if e > 1 && isSpace c then chompEnd cs (e - 1) else e

/-- `p_strchomp` (allocation failure is C18's business). -/
def chomp (s : Bytes) : Bytes :=
  let ps := chompStart s 0 s.length
  let pe := chompEnd s.reverse s.length           -- pos_end + 1
  if pe < ps + 1 then []                           -- pos_end < pos_start
  else if pe == ps + 1 && isSpace (s.getD ps 0) then []
  else (s.drop ps).take (pe - ps)                  -- memcpy (ret, str + pos_start, pos_end - pos_start + 1)

/-- `if (strlen (x) > P_INI_FILE_MAX_LINE) x[P_INI_FILE_MAX_LINE] = '\0';` ("This should not happen":
theorem `line_fits` shows it does not) -/
def clip (s : Bytes) : Bytes := if s.length > maxLine then s.take maxLine else s

/-- `dst_line` of one loop iteration -/
def lineOf (chunk : Bytes) : Bytes := clip (chomp (cstr (chunk.drop (bomShift chunk))))

/-! ## the `sscanf` subset -/

/-- directives that occur in the four format strings -/
inductive Dir where
  /-- an ordinary character: must match the next input byte exactly -/
  | lit (c : UInt8)
  /-- white space in the format: skips any amount of input white space, including none -/
  | ws
  /-- `%[^set]` with optional maximum field width: the longest non-empty run of bytes not in `set` -/
  | notIn (set : List UInt8) (width : Option Nat)
  deriving Repr, DecidableEq

/-- the run a `%[^set]` conversion stores -/
def scanRun (set : List UInt8) (width : Option Nat) (s : Bytes) : Bytes :=
  let r := s.takeWhile (fun b => !set.contains b)
  match width with
  | none => r
  | some w => r.take w

/-- `sscanf (s, fmt, …)`: the strings stored by the conversions that succeeded, in order.  The return
value of `sscanf` that the code tests (`== 1`, `== 2`) is the length of this list (EOF, which is
negative, is not distinguished from 0: neither equals 1 or 2).  Matching stops at the first directive
that fails; what was stored before stays stored. -/
def scan : List Dir → Bytes → List Bytes
  | [], _ => []
  | .lit c :: ds, s =>
    match s with
    | b :: s' => if b == c then scan ds s' else []
    | [] => []
  | .ws :: ds, s => scan ds (s.dropWhile isSpace)
  | .notIn set w :: ds, s =>
    let r := scanRun set w s
    if r.isEmpty then [] else r :: scan ds (s.drop r.length)

/-- the format string a directive list stands for (used to tie the patterns below to the source) -/
def Dir.fmt : Dir → List Char
  | .lit c => [Char.ofNat c.toNat]
  | .ws => [' ']
  | .notIn set w =>
    ['%'] ++ (match w with | none => [] | some n => (toString n).toList) ++ ['[', '^']
      ++ set.map (fun b => Char.ofNat b.toNat) ++ [']']

def fmtOf (p : List Dir) : String := String.ofList (p.flatMap Dir.fmt)

def patKey : Dir := .notIn [61] none                        -- %[^=]
/-- `"[%[^]]"` -/
def patSection : List Dir := [.lit 91, .notIn [93] none]
/-- `"%[^=] = \"%[^\"]\""` -/
def patDq : List Dir := [patKey, .ws, .lit 61, .ws, .lit 34, .notIn [34] none, .lit 34]
/-- `"%[^=] = '%[^\']'"` -/
def patSq : List Dir := [patKey, .ws, .lit 61, .ws, .lit 39, .notIn [39] none, .lit 39]
/-- `"%[^=] = %[^;#]"` -/
def patPlain : List Dir := [patKey, .ws, .lit 61, .ws, .notIn [59, 35] none]
def kvPatterns : List (List Dir) := [patDq, patSq, patPlain]

/-- `sscanf (dst_line, f1, key, value) == 2 || sscanf (dst_line, f2, key, value) == 2 || …`:
the first format under which two conversions succeed decides what `key` and `value` hold. -/
def kvCascade : List (List Dir) → Bytes → Option (Bytes × Bytes)
  | [], _ => none
  | p :: ps, s =>
    match scan p s with
    | [k, v] => some (k, v)
    | _ => kvCascade ps s

/-! ## containers and the parse loop -/

/-- `PIniSection`: `keys` is the `PList` of parameters, head first -/
structure Section where
  name : Bytes
  keys : List (Bytes × Bytes)
  deriving Repr, DecidableEq

/-- loop state: `file->sections` (head first) and the local `section` -/
structure PState where
  sections : List Section
  cur : Option Section
  deriving Repr

/-- `if (section != NULL) { if (section->keys == NULL) free; else file->sections = p_list_prepend (…); }` -/
def pushSection (st : PState) : List Section :=
  match st.cur with
  | none => st.sections
  | some sec => if sec.keys.isEmpty then st.sections else sec :: st.sections

/-- one iteration of the read loop, after `dst_line` (`l`) has been computed.
`skip` = the comment guard of the key/value cascade is present. -/
def stepLine (skip : Bool) (st : PState) (l : Bytes) : PState :=
  if bufAt l 0 == 91 && l.getLast? == some 93 && (scan patSection l).length == 1 then
    -- new section: key := chomp (key)
    let name := clip (chomp ((scan patSection l).getD 0 []))
    { sections := pushSection st, cur := some { name := name, keys := [] } }
  else if skip && (bufAt l 0 == 35 || bufAt l 0 == 59) then st
  else
    match kvCascade kvPatterns l with
    | none => st
    | some (k, v) =>
      let key := clip (chomp k)
      let v1 := clip (chomp v)
      let value := if v1 == [34, 34] || v1 == [39, 39] then [] else v1
      match st.cur with
      | none => st
      | some sec => { st with cur := some { sec with keys := (key, value) :: sec.keys } }

/-- one iteration of the read loop -/
def step (skip : Bool) (st : PState) (chunk : Bytes) : PState := stepLine skip st (lineOf chunk)

/-- after the loop: the last section is *appended* (or dropped when it has no keys) -/
def finish (st : PState) : List Section :=
  match st.cur with
  | none => st.sections
  | some sec => if sec.keys.isEmpty then st.sections else st.sections ++ [sec]

abbrev IniFile := List Section

def parseWith (skip : Bool) (input : Bytes) : IniFile :=
  finish ((splitLines input).foldl (step skip) { sections := [], cur := none })

/-- `p_ini_file_parse` of a file with the given content, as the current source does it -/
def parse (input : Bytes) : IniFile := parseWith PV.Generated.Ini.commentSkip input

/-! ## queries -/

/-- the `for (item = file->sections; …) if (strcmp (name, section) == 0) break;` loop -/
def findSection (f : IniFile) (name : Bytes) : Option Section := f.find? (·.name == name)

/-- `p_ini_file_sections`: prepends while walking, i.e. reverses -/
def sections (f : IniFile) : List Bytes := f.foldl (fun acc s => s.name :: acc) []

/-- `p_ini_file_keys` (NULL = `[]`) -/
def keys (f : IniFile) (sec : Bytes) : List Bytes :=
  match findSection f sec with
  | none => []
  | some s => s.keys.foldl (fun acc p => p.1 :: acc) []

def isKeyExists (f : IniFile) (sec key : Bytes) : Bool :=
  match findSection f sec with
  | none => false
  | some s => s.keys.any (·.1 == key)

/-- `pp_ini_file_find_parameter` -/
def findParameter (f : IniFile) (sec key : Bytes) : Option Bytes :=
  match findSection f sec with
  | none => none
  | some s => (s.keys.find? (·.1 == key)).map (·.2)

/-- `p_ini_file_parameter_string`; a NULL default stays NULL -/
def parameterString (f : IniFile) (sec key : Bytes) (dflt : Option Bytes) : Option Bytes :=
  match findParameter f sec key with
  | some v => some v
  | none => dflt

/-- result of a conversion through `atoi`: C leaves the result undefined when the value does not fit
an `int`; that is a distinct outcome here, never a number -/
inductive IntResult where
  | val (i : Int)
  | overflow
  deriving Repr, DecidableEq

def digitsValue (ds : Bytes) : Nat := ds.foldl (fun a d => 10 * a + (d.toNat - 48)) 0

/-- the digits part of `atoi`: the longest run of decimal digits, negated when a '-' came first -/
def atoiDigits (neg : Bool) (s : Bytes) : IntResult :=
  let n : Int := digitsValue (s.takeWhile isDigit)
  let v : Int := if neg then -n else n
  if -2147483648 ≤ v ∧ v ≤ 2147483647 then .val v else .overflow

/-- `atoi`: optional white space, optional sign, the longest run of decimal digits -/
def atoi (s : Bytes) : IntResult :=
  match s.dropWhile isSpace with
  | 45 :: r => atoiDigits true r
  | 43 :: r => atoiDigits false r
  | r => atoiDigits false r

def parameterInt (f : IniFile) (sec key : Bytes) (dflt : Int) : IntResult :=
  match findParameter f sec key with
  | none => .val dflt
  | some v => atoi v

inductive BoolResult where
  | val (b : Bool)
  | overflow
  deriving Repr, DecidableEq

def strTrue : Bytes := [116, 114, 117, 101]
def strTRUE : Bytes := [84, 82, 85, 69]
def strFalse : Bytes := [102, 97, 108, 115, 101]
def strFALSE : Bytes := [70, 65, 76, 83, 69]

def toBoolean (v : Bytes) : BoolResult :=
  if v == strTrue || v == strTRUE then .val true
  else if v == strFalse || v == strFALSE then .val false
  else match atoi v with
    | .val i => .val (decide (i > 0))
    | .overflow => .overflow

def parameterBoolean (f : IniFile) (sec key : Bytes) (dflt : Bool) : BoolResult :=
  match findParameter f sec key with
  | none => .val dflt
  | some v => toBoolean v

/-- the loop of `p_ini_file_parameter_list` after the opening brace: `buf` (reversed) collects the
current item, `acc` (reversed) the items appended so far -/
def listLoop : Bytes → Bytes → List Bytes → List Bytes
  | [], buf, acc => (if buf.isEmpty then acc else buf.reverse :: acc).reverse
  | c :: cs, buf, acc =>
    if c == 0 || c == 125 then (if buf.isEmpty then acc else buf.reverse :: acc).reverse
    else if !isSpace c then listLoop cs (c :: buf) acc
    else listLoop cs [] (if buf.isEmpty then acc else buf.reverse :: acc)

def toList (v : Bytes) : List Bytes :=
  if v.length < 3 || bufAt v 0 != 123 || v.getLast? != some 125 then [] else listLoop (v.drop 1) [] []

/-- `p_ini_file_parameter_list` (NULL = `[]`) -/
def parameterList (f : IniFile) (sec key : Bytes) : List Bytes :=
  match findParameter f sec key with
  | none => []
  | some v => toList v

/-! ## `p_strtod` on Lean's `Float` (IEEE double, the same operations in the same order).
No theorem is stated about it; the correspondence compares bit patterns. -/

def f1e50 : Float := Float.ofBits 0x4A511B0EC57E649A
def f1e8 : Float := Float.ofNat 100000000
def f10 : Float := Float.ofNat 10

/-- `for (value = 0.0; isdigit (*strp); strp += 1) value = value * 10.0 + (*strp - '0');` -/
def dInt : Bytes → Float → Float × Bytes
  | [], v => (v, [])
  | c :: cs, v => if isDigit c then dInt cs (v * f10 + Float.ofNat (c.toNat - 48)) else (v, c :: cs)

/-- `while (isdigit (*strp)) { value += (*strp - '0') / pow10; pow10 *= 10.0; strp += 1; }` -/
def dFrac : Bytes → Float → Float → Float × Bytes
  | [], v, _ => (v, [])
  | c :: cs, v, p => if isDigit c then dFrac cs (v + Float.ofNat (c.toNat - 48) / p) (p * f10) else (v, c :: cs)

/-- `for (expon = 0; isdigit (*strp); strp += 1) expon = expon * 10 + (puint) (*strp - '0');` (wraps mod 2³²) -/
def dExp : Bytes → UInt32 → UInt32
  | [], e => e
  | c :: cs, e => if isDigit c then dExp cs (e * 10 + UInt32.ofNat (c.toNat - 48)) else e

/-- `scale *= f` repeated `n` times -/
def mulN : Nat → Float → Float → Float
  | 0, s, _ => s
  | n + 1, s, f => mulN n (s * f) f

def strtod (str : Bytes) : Float :=
  let s := chomp str
  let (sign, s) : Float × Bytes := match s with
    | 45 :: r => (-1.0, r)
    | 43 :: r => (1.0, r)
    | _ => (1.0, s)
  let (value, s) := dInt s 0.0
  let (value, s) := match s with
    | 46 :: r => dFrac r value f10
    | _ => (value, s)
  let (frac, scale) : Bool × Float := match s with
    | c :: r =>
      if c == 101 || c == 69 then
        let (frac, r) := match r with
          | 45 :: r' => (true, r')
          | 43 :: r' => (false, r')
          | _ => (false, r)
        let expon := (dExp r 0).toNat
        let expon := if expon > PV.Generated.Ini.strMaxExpon then PV.Generated.Ini.strMaxExpon else expon
        -- while (expon >= 50) …; while (expon >= 8) …; while (expon > 0) …
        let s1 := mulN (expon / 50) 1.0 f1e50
        let s2 := mulN (expon % 50 / 8) s1 f1e8
        (frac, mulN (expon % 50 % 8) s2 f10)
      else (false, 1.0)
    | [] => (false, 1.0)
  sign * (if frac then value / scale else value * scale)

def parameterDouble (f : IniFile) (sec key : Bytes) (dflt : Float) : Float :=
  match findParameter f sec key with
  | none => dflt
  | some v => strtod v

/-! ## the object and its life cycle (`p_ini_file_new`, `p_ini_file_parse`, `p_ini_file_is_parsed`), NULL arguments

A pointer argument that may be NULL is an `Option`.  `PList *` results keep the convention used above:
NULL is the empty list. -/

/-- `struct PIniFile_`: `sections` is only ever filled by the one successful `p_ini_file_parse` -/
structure Handle where
  path : Bytes
  parsed : Bool
  file : IniFile
  deriving Repr

/-- the error codes `p_ini_file_parse` can report -/
inductive ParseError where
  /-- `P_ERROR_IO_INVALID_ARGUMENT` (NULL object) -/
  | invalidArgument
  /-- `p_error_get_last_io ()` after a failed `fopen`; the payload is what the platform reported
  (`true` = `P_ERROR_IO_NOT_EXISTS`) -/
  | openFailed (notExists : Bool)
  deriving Repr, DecidableEq

/-- `p_ini_file_new`: NULL path gives NULL (allocation failure is C18's business) -/
def fileNew (path : Option Bytes) : Option Handle :=
  path.map fun p => { path := cstr p, parsed := false, file := [] }

/-- `p_ini_file_parse`.  `fs` is the file system at the time of the call: the content `fopen (path, "r")`
would read, or `.error notExists` when the open fails (`notExists`: the platform said ENOENT).  Returns the
updated object, the boolean result and the error. -/
def fileParse (fs : Bytes → Except Bool Bytes) (h : Option Handle) : Option Handle × Bool × Option ParseError :=
  match h with
  | none => (none, false, some .invalidArgument)
  | some h =>
    if h.parsed then (some h, true, none)
    else match fs h.path with
      | .error ne => (some h, false, some (.openFailed ne))
      | .ok content => (some { h with parsed := true, file := parse content }, true, none)

/-- what `p_ini_file_parse` does besides its result: the number of `fclose` calls and of `P_WARNING` lines (stdout) -/
structure ParseEffects where
  fcloseCalls : Nat
  warnings : Nat
  deriving Repr, DecidableEq

/-- `p_ini_file_parse` with the result of its final `fclose (in_file)` scripted as well (`closeOk = false`: the call
returned EOF).  `if (fclose (in_file) != 0) P_WARNING (…);` only logs: `is_parsed` is set and TRUE is returned either way.
`fclose` is called once, and only when the file was opened. -/
def fileParseClose (fs : Bytes → Except Bool Bytes) (closeOk : Bool) (h : Option Handle) :
    (Option Handle × Bool × Option ParseError) × ParseEffects :=
  match h with
  | none => ((none, false, some .invalidArgument), ⟨0, 0⟩)
  | some h =>
    if h.parsed then ((some h, true, none), ⟨0, 0⟩)
    else match fs h.path with
      | .error ne => ((some h, false, some (.openFailed ne)), ⟨0, 0⟩)
      | .ok content =>
        let h1 : Handle := { h with file := parse content }
        let w : Nat := if closeOk then 0 else 1                -- the warning changes no state
        ((some { h1 with parsed := true }, true, none), ⟨1, w⟩)

/-- `p_ini_file_is_parsed` -/
def fileIsParsed (h : Option Handle) : Bool :=
  match h with
  | none => false
  | some h => h.parsed

/-- what the getters may look at: nothing unless the object exists and is parsed
(`file == NULL || file->is_parsed == FALSE` → NULL / FALSE / default) -/
def visible (h : Option Handle) : IniFile :=
  match h with
  | none => []
  | some h => if h.parsed then h.file else []

def apiSections (h : Option Handle) : List Bytes := sections (visible h)

def apiKeys (h : Option Handle) (sec : Option Bytes) : List Bytes :=
  match sec with
  | none => []
  | some s => keys (visible h) (cstr s)

def apiIsKeyExists (h : Option Handle) (sec key : Option Bytes) : Bool :=
  match sec, key with
  | some s, some k => isKeyExists (visible h) (cstr s) (cstr k)
  | _, _ => false

/-- `pp_ini_file_find_parameter` with its NULL tests -/
def apiFind (h : Option Handle) (sec key : Option Bytes) : Option Bytes :=
  match sec, key with
  | some s, some k => findParameter (visible h) (cstr s) (cstr k)
  | _, _ => none

def apiString (h : Option Handle) (sec key : Option Bytes) (dflt : Option Bytes) : Option Bytes :=
  match apiFind h sec key with
  | some v => some v
  | none => dflt.map cstr

def apiInt (h : Option Handle) (sec key : Option Bytes) (dflt : Int) : IntResult :=
  match apiFind h sec key with
  | some v => atoi v
  | none => .val dflt

def apiBoolean (h : Option Handle) (sec key : Option Bytes) (dflt : Bool) : BoolResult :=
  match apiFind h sec key with
  | some v => toBoolean v
  | none => .val dflt

def apiList (h : Option Handle) (sec key : Option Bytes) : List Bytes :=
  match apiFind h sec key with
  | some v => toList v
  | none => []

def apiDouble (h : Option Handle) (sec key : Option Bytes) (dflt : Float) : Float :=
  match apiFind h sec key with
  | some v => strtod v
  | none => dflt

/-! ## the other `pstring.c` entry points -/

/-- `p_strdup`: NULL for NULL, otherwise a copy of the bytes up to the first NUL -/
def strdup (s : Option Bytes) : Option Bytes := s.map cstr

/-- `p_strchomp` as an entry point: NULL for NULL -/
def strchomp (s : Option Bytes) : Option Bytes := s.map fun x => chomp (cstr x)

/-- `p_strtod` as an entry point: 0.0 for NULL (`p_strchomp` returned NULL) -/
def strtodApi (s : Option Bytes) : Float :=
  match s with
  | none => 0.0
  | some x => strtod (cstr x)

/-- one `strtok_r (s, delim, &save)` call on the remaining text `s` (what `save`, or the `str` argument,
points at): skip delimiters; at the end of the string there is no token; otherwise the token runs up to the
next delimiter, which is overwritten by NUL, and `save` points behind it (or at the end of the string). -/
def strtokR (delim s : Bytes) : Option (Bytes × Bytes) :=
  let s1 := s.dropWhile delim.contains
  if s1.isEmpty then none
  else
    let tok := s1.takeWhile fun b => !delim.contains b
    some (tok, (s1.drop tok.length).drop 1)

/-- the documented loop `tok = p_strtok (str, d, &buf); while (tok) { …; tok = p_strtok (NULL, d, &buf); }`
with one delimiter set; `fuel` bounds the number of calls (theorem `strtokLoop_fuel`: `s.length + 1` is
always enough, every call with a token consumes at least one byte) -/
def strtokLoop (delim : Bytes) : Nat → Bytes → List Bytes
  | 0, _ => []
  | fuel + 1, s =>
    match strtokR delim s with
    | none => []
    | some (tok, rest) => tok :: strtokLoop delim fuel rest

end PV.Ini

/-! Shape vocabulary of `prwlock-general.c` (C02).

`tools/extract.py` (`gen_rwlock`) parses the C file and writes the *values* of these types
into `PV/Generated/RWLock.lean`; the model (`PV/Model/RWLock.lean`) is parametrised by a `Cfg`
and follows whatever was extracted, the theorems of `PV/Props/C02.lean` are proved for
`Cfg.reference` and are tied to the generated value by `cfg_is_reference : Generated.cfg =
Cfg.reference := by decide` — a source whose shape differs breaks that obligation. -/
namespace PV.RWLock

/-- the two condition variables of `struct PRWLock_` -/
inductive Cv | read | write
  deriving DecidableEq, Repr, Inhabited

/-- how the `p_cond_variable_wait` call is guarded -/
inductive LoopKind
  | while_   -- `while (cond) { wait … }`
  | ifOnly   -- `if (cond) { wait … }`   (no re-check after a wake-up)
  deriving DecidableEq, Repr, Inhabited

/-- which part of `active_threads` a condition looks at -/
inductive Test
  | wholeWord     -- `lock->active_threads`
  | writerField   -- `P_RWLOCK_WRITER_COUNT (lock->active_threads)`
  | readerField   -- `P_RWLOCK_READER_COUNT (lock->active_threads)`
  deriving DecidableEq, Repr, Inhabited

/-- a wake-up call made by an unlock function -/
inductive Wake
  | none
  | signal (cv : Cv)
  | broadcast (cv : Cv)
  deriving DecidableEq, Repr, Inhabited

structure Cfg where
  /-- reader_lock: `if (rlockGuard) { waiting++ ; <rlockLoop> (rlockLoopTest) wait (rlockCv); waiting-- }` -/
  rlockGuard : Test
  rlockLoop : LoopKind
  rlockLoopTest : Test
  rlockCv : Cv
  /-- writer_lock: same structure -/
  wlockGuard : Test
  wlockLoop : LoopKind
  wlockLoopTest : Test
  wlockCv : Cv
  /-- reader_trylock / writer_trylock: `if (test) return FALSE` -/
  rtryTest : Test
  wtryTest : Test
  /-- reader_unlock: call made under `reader_count == 1 && P_RWLOCK_WRITER_COUNT (waiting_threads)` -/
  runlockWake : Wake
  /-- writer_unlock: call made under `if (P_RWLOCK_WRITER_COUNT (waiting_threads))` -/
  wunlockWakeW : Wake
  /-- writer_unlock: call made under `else if (P_RWLOCK_READER_COUNT (waiting_threads))` -/
  wunlockWakeR : Wake
  deriving DecidableEq, Repr, Inhabited

/-- the shape the theorems are proved for (the pinned source) -/
def Cfg.reference : Cfg where
  rlockGuard := .writerField
  rlockLoop := .while_
  rlockLoopTest := .writerField
  rlockCv := .read
  wlockGuard := .wholeWord
  wlockLoop := .while_
  wlockLoopTest := .wholeWord
  wlockCv := .write
  rtryTest := .writerField
  wtryTest := .wholeWord
  runlockWake := .signal .write
  wunlockWakeW := .signal .write
  wunlockWakeR := .broadcast .read

end PV.RWLock

import PV.Model.RWLockCfg
import PV.Generated.RWLock
/-!
# Model of `prwlock-general.c` (C02): mutex + two condition variables + two packed counters

Threads run *programs* (lists of `Op`).  One atomic step of a thread = the code of the C
function from one `p_mutex_*` / `p_cond_variable_*` call to the next one: the thread performs
the call it is suspended at and runs up to (not into) its next such call.  This granularity is
sound because the two counter words are only touched by a thread that holds the internal mutex
(`counters_only_under_mutex` below; on the C side: TSan supporting run).

Trusted contract of the primitives (POSIX, Mesa style):
* `p_mutex_lock` returns only when the caller owns the mutex (a step that needs the mutex is
  enabled only while the mutex is free); `p_mutex_unlock` frees it; both return TRUE;
* `p_cond_variable_wait` atomically releases the mutex and blocks; a woken thread must
  re-acquire the mutex before `wait` returns (TRUE);
* `signal` moves ONE arbitrary blocked waiter (if any) to "woken", `broadcast` all of them;
* a blocked waiter may also wake up without any signal (`spurious`).

Client convention for programs: a thread starts its next op as soon as the previous one
returned; when an acquire op (`rlock wlock rtry wtry`) returns FALSE and the next op of the
program is the matching unlock, that unlock is skipped
(`if (p_rwlock_reader_trylock (l)) { …; p_rwlock_reader_unlock (l); }`).
-/
namespace PV.RWLock
open PV.Generated.RWLock (setReadersMask readerCountMask setWritersMask setWritersShift writerCountMask writerCountShift)

abbrev Tid := Nat
abbrev Word := BitVec 32

/-! ## the four macros, with the generated masks / shifts, on `puint32` -/

/-- `P_RWLOCK_SET_READERS(lock, readers) (((lock) & (~0x00007FFF)) | (readers))` -/
def SET_READERS (lock readers : Word) : Word := (lock &&& ~~~(BitVec.ofNat 32 setReadersMask)) ||| readers
/-- `P_RWLOCK_READER_COUNT(lock) ((lock) & 0x00007FFF)` -/
def READER_COUNT (lock : Word) : Word := lock &&& BitVec.ofNat 32 readerCountMask
/-- `P_RWLOCK_SET_WRITERS(lock, writers) (((lock) & (~0x3FFF8000)) | ((writers) << 15))` -/
def SET_WRITERS (lock writers : Word) : Word := (lock &&& ~~~(BitVec.ofNat 32 setWritersMask)) ||| (writers <<< setWritersShift)
/-- `P_RWLOCK_WRITER_COUNT(lock) (((lock) & 0x3FFF8000) >> 15)` -/
def WRITER_COUNT (lock : Word) : Word := (lock &&& BitVec.ofNat 32 writerCountMask) >>> writerCountShift

/-- a C condition on a counter word -/
def Test.eval (k : Test) (w : Word) : Bool :=
  match k with
  | .wholeWord => w != 0
  | .writerField => WRITER_COUNT w != 0
  | .readerField => READER_COUNT w != 0

/-! ## programs, threads, state -/

inductive Op | rlock | wlock | rtry | wtry | runlock | wunlock
  deriving DecidableEq, Repr, Inhabited

def Op.isAcq : Op → Bool
  | .rlock | .wlock | .rtry | .wtry => true
  | _ => false

/-- the unlock that matches an acquire op -/
def Op.rel : Op → Op
  | .rlock | .rtry => .runlock
  | .wlock | .wtry => .wunlock
  | o => o

/-- ghost: which mode a thread holds (set where the C code bumps `active_threads`, cleared where
    it decrements it — a superset of the interval between the API returns) -/
inductive Held | none | r | w
  deriving DecidableEq, Repr, Inhabited

/-- where a thread is suspended: always at the entry of a `p_mutex_*` / `p_cond_variable_*` call
    (or inside `wait`) -/
inductive PC
  | lock (op : Op)                 -- at `p_mutex_lock` (first call of every function)
  | atWait (op : Op) (cv : Cv)     -- owns the mutex, at `p_cond_variable_wait (cv, mutex)` of rlock / wlock
  | blocked (op : Op) (cv : Cv)    -- inside wait: mutex released, not woken
  | woken (op : Op) (cv : Cv)      -- inside wait: woken, must re-acquire the mutex
  | atSignal (op : Op) (cv : Cv)   -- owns the mutex, at `p_cond_variable_signal (cv)`
  | atBcast (op : Op) (cv : Cv)    -- owns the mutex, at `p_cond_variable_broadcast (cv)`
  | atUnlock (op : Op) (ret : Bool) -- owns the mutex, at the final `p_mutex_unlock`; the function will return `ret`
  | done                           -- program finished
  deriving DecidableEq, Repr, Inhabited

structure Thread where
  pc : PC
  prog : List Op                   -- ops after the current one
  held : Held := .none
  last : Option (Op × Bool) := none   -- last API return (for the driver's status line)
  deriving DecidableEq, Repr, Inhabited

structure State where
  mutex : Option Tid := none       -- owner of the internal mutex
  active : Word := 0               -- `active_threads`
  waiting : Word := 0              -- `waiting_threads`
  threads : List Thread := []
  deriving DecidableEq, Repr, Inhabited

def Thread.start (p : List Op) : Thread :=
  match p with
  | [] => { pc := .done, prog := [] }
  | o :: rest => { pc := .lock o, prog := rest }

def init (progs : List (List Op)) : State := { threads := progs.map Thread.start }

def allDone (s : State) : Bool := s.threads.all (fun th => th.pc == .done)

/-- the wait-set of a condition variable is the set of threads blocked in `wait` on it -/
def waitSet (s : State) (cv : Cv) : List Tid :=
  (List.range s.threads.length).filter fun t =>
    match s.threads[t]? with
    | some th => (match th.pc with | .blocked _ c => c == cv | _ => false)
    | none => false

/-! ## return from an API function -/

/-- the function `op` returns `ret`; the thread starts its next op (skipping the matching unlock
    after a failed acquire) -/
def finish (th : Thread) (op : Op) (ret : Bool) : Thread :=
  let prog := if op.isAcq && !ret then
      (match th.prog with
       | o :: rest => if o = op.rel then rest else th.prog
       | [] => [])
    else th.prog
  match prog with
  | [] => { th with pc := .done, prog := [], last := some (op, ret) }
  | o :: rest => { th with pc := .lock o, prog := rest, last := some (op, ret) }

/-! ## one step of one thread (the part that only looks at the thread and the two words) -/

/-- result of the thread-local part of a step -/
structure Out where
  owns : Bool          -- does the thread own the internal mutex after the step
  active : Word
  waiting : Word
  th : Thread
  wake : Wake := .none -- condition-variable call performed by this step
  deriving Repr

/-- does the step from this pc begin by acquiring the internal mutex -/
def PC.needsMutex : PC → Bool
  | .lock _ | .woken _ _ => true
  | _ => false

/-- does a thread at this pc own the internal mutex -/
def PC.ownsMutex : PC → Bool
  | .atWait _ _ | .atSignal _ _ | .atBcast _ _ | .atUnlock _ _ => true
  | _ => false

def wakePc (op : Op) : Wake → PC
  | .none => .atUnlock op true
  | .signal cv => .atSignal op cv
  | .broadcast cv => .atBcast op cv

/-- tail of reader_lock after the wait block: `active.readers++`, go to the final unlock -/
def grantR (op : Op) (a w : Word) (th : Thread) : Out :=
  { owns := true, active := SET_READERS a (READER_COUNT a + 1), waiting := w,
    th := { th with pc := .atUnlock op true, held := .r } }

/-- tail of writer_lock: `active.writers = 1` -/
def grantW (op : Op) (a w : Word) (th : Thread) : Out :=
  { owns := true, active := SET_WRITERS a 1, waiting := w,
    th := { th with pc := .atUnlock op true, held := .w } }

def localStep (c : Cfg) (a w : Word) (th : Thread) : Option Out :=
  match th.pc with
  /- p_rwlock_reader_lock: mutex_lock; if (G) { waiting.r++; while (L) wait; waiting.r--; } active.r++; -/
  | .lock .rlock =>
    if c.rlockGuard.eval a then
      let w1 := SET_READERS w (READER_COUNT w + 1)
      if c.rlockLoopTest.eval a then
        some { owns := true, active := a, waiting := w1, th := { th with pc := .atWait .rlock c.rlockCv } }
      else
        some (grantR .rlock a (SET_READERS w1 (READER_COUNT w1 - 1)) th)
    else some (grantR .rlock a w th)
  /- p_rwlock_writer_lock -/
  | .lock .wlock =>
    if c.wlockGuard.eval a then
      let w1 := SET_WRITERS w (WRITER_COUNT w + 1)
      if c.wlockLoopTest.eval a then
        some { owns := true, active := a, waiting := w1, th := { th with pc := .atWait .wlock c.wlockCv } }
      else
        some (grantW .wlock a (SET_WRITERS w1 (WRITER_COUNT w1 - 1)) th)
    else some (grantW .wlock a w th)
  /- p_rwlock_reader_trylock -/
  | .lock .rtry =>
    if c.rtryTest.eval a then
      some { owns := true, active := a, waiting := w, th := { th with pc := .atUnlock .rtry false } }
    else some (grantR .rtry a w th)
  /- p_rwlock_writer_trylock -/
  | .lock .wtry =>
    if c.wtryTest.eval a then
      some { owns := true, active := a, waiting := w, th := { th with pc := .atUnlock .wtry false } }
    else some (grantW .wtry a w th)
  /- p_rwlock_reader_unlock -/
  | .lock .runlock =>
    let rc := READER_COUNT a
    if rc = 0 then
      some { owns := true, active := a, waiting := w, th := { th with pc := .atUnlock .runlock true } }
    else
      let a1 := SET_READERS a (rc - 1)
      let pc := if rc = 1 ∧ WRITER_COUNT w ≠ 0 then wakePc .runlock c.runlockWake else .atUnlock .runlock true
      some { owns := true, active := a1, waiting := w, th := { th with pc := pc, held := .none } }
  /- p_rwlock_writer_unlock -/
  | .lock .wunlock =>
    let a1 := SET_WRITERS a 0
    let pc := if WRITER_COUNT w ≠ 0 then wakePc .wunlock c.wunlockWakeW
              else if READER_COUNT w ≠ 0 then wakePc .wunlock c.wunlockWakeR
              else .atUnlock .wunlock true
    some { owns := true, active := a1, waiting := w, th := { th with pc := pc, held := .none } }
  /- `p_cond_variable_wait`: release the mutex and block -/
  | .atWait op cv =>
    some { owns := false, active := a, waiting := w, th := { th with pc := .blocked op cv } }
  | .blocked _ _ => none
  /- return from wait (mutex re-acquired), re-test the loop condition -/
  | .woken .rlock cv =>
    if c.rlockLoop = .while_ ∧ c.rlockLoopTest.eval a then
      some { owns := true, active := a, waiting := w, th := { th with pc := .atWait .rlock cv } }
    else some (grantR .rlock a (SET_READERS w (READER_COUNT w - 1)) th)
  | .woken .wlock cv =>
    if c.wlockLoop = .while_ ∧ c.wlockLoopTest.eval a then
      some { owns := true, active := a, waiting := w, th := { th with pc := .atWait .wlock cv } }
    else some (grantW .wlock a (SET_WRITERS w (WRITER_COUNT w - 1)) th)
  | .woken _ _ => none            -- only rlock / wlock wait
  /- the wake-up calls of the unlock functions -/
  | .atSignal op cv =>
    some { owns := true, active := a, waiting := w, th := { th with pc := .atUnlock op true }, wake := .signal cv }
  | .atBcast op cv =>
    some { owns := true, active := a, waiting := w, th := { th with pc := .atUnlock op true }, wake := .broadcast cv }
  /- final `p_mutex_unlock` and return -/
  | .atUnlock op ret =>
    some { owns := false, active := a, waiting := w, th := finish th op ret }
  | .done => none

/-! ## condition-variable effects on the other threads -/

def isBlockedOn (cv : Cv) (th : Thread) : Bool :=
  match th.pc with
  | .blocked _ c => c == cv
  | _ => false

def wakeThread (th : Thread) : Thread :=
  match th.pc with
  | .blocked op cv => { th with pc := .woken op cv }
  | _ => th

/-- `signal`: the waiter that is woken is `pick` when given (it must be blocked on `cv`),
    otherwise the blocked waiter with the lowest thread id; no waiter: no effect -/
def signalCv (ths : List Thread) (cv : Cv) (pick : Option Tid) : Option (List Thread) :=
  match pick with
  | some u =>
    match ths[u]? with
    | some th => if isBlockedOn cv th then some (ths.set u (wakeThread th)) else none
    | none => none
  | none =>
    match ths.findIdx? (isBlockedOn cv) with
    | some u =>
      match ths[u]? with
      | some th => some (ths.set u (wakeThread th))
      | none => some ths
    | none => some ths

def broadcastCv (ths : List Thread) (cv : Cv) : List Thread :=
  ths.map fun th => if isBlockedOn cv th then wakeThread th else th

def applyWake (ths : List Thread) (wk : Wake) (pick : Option Tid) : Option (List Thread) :=
  match wk with
  | .none => some ths
  | .signal cv => signalCv ths cv pick
  | .broadcast cv => some (broadcastCv ths cv)

/-! ## the scheduler-driven step function (used by the driver and by the theorems alike) -/

/-- thread `t` performs its next atomic step; `none` = not enabled (needs the mutex while it is
    owned, blocked in a wait, finished, no such thread) or an invalid `pick` -/
def stepThread (c : Cfg) (s : State) (t : Tid) (pick : Option Tid := none) : Option State :=
  match s.threads[t]? with
  | none => none
  | some th =>
    if th.pc.needsMutex && s.mutex.isSome then none
    else
      match localStep c s.active s.waiting th with
      | none => none
      | some o =>
        match applyWake (s.threads.set t o.th) o.wake pick with
        | none => none
        | some ths =>
          some { mutex := if o.owns then some t else none, active := o.active, waiting := o.waiting, threads := ths }

/-- spurious wake-up of a thread blocked in `p_cond_variable_wait` -/
def spurious (s : State) (t : Tid) : Option State :=
  match s.threads[t]? with
  | some th =>
    (match th.pc with
     | .blocked _ _ => some { s with threads := s.threads.set t (wakeThread th) }
     | _ => none)
  | none => none

/-- the configuration extracted from the current source -/
abbrev cfg : Cfg := PV.Generated.RWLock.cfg

/-! ## failing primitives (scripted results)

`p_mutex_lock`, `p_mutex_unlock`, `p_cond_variable_wait`, `p_cond_variable_signal` and
`p_cond_variable_broadcast` return a `pboolean`; every call site in `prwlock-general.c` has a
failure branch.  `failStep s t` = "thread `t` performs the primitive call it is suspended at and
that call returns FALSE".  Contract assumed for a FAILED primitive call: it has no effect
(a failed `p_mutex_lock` does not acquire, a failed `p_cond_variable_wait` returns at once and the
caller still owns the mutex, a failed signal / broadcast wakes nobody, a failed `p_mutex_unlock`
leaves the mutex owned by the caller — for ever: nobody else can release it).

What the C code does on these branches (transliterated):
* `p_mutex_lock` FALSE (first call of all six functions): `P_ERROR; return FALSE;` — nothing touched;
* `p_cond_variable_wait` FALSE (reader_lock / writer_lock): `break;` out of the loop, `waiting--`,
  `active` NOT bumped (`if (wait_ok == TRUE)`), final `p_mutex_unlock`, `return wait_ok` (FALSE);
* signal / broadcast FALSE (reader_unlock / writer_unlock): `active` is already decremented,
  `signal_ok = FALSE`, final `p_mutex_unlock`, `return signal_ok` (FALSE);
* final `p_mutex_unlock` FALSE: `return FALSE` WHATEVER was done before (in particular after
  `active` was bumped by a granted acquire) — except on the zero-reader-count path of
  `p_rwlock_reader_unlock` and the not-grantable paths of the two trylocks, which ignore the result
  of the unlock (`return TRUE` resp. `return FALSE`).

Client convention: a thread whose unlock CALL failed at its first `p_mutex_lock` (it still holds)
stops; a thread whose call met a failed `p_mutex_unlock` stops too (it owns the internal mutex for
ever: its next `p_rwlock_*` call would self-deadlock on it). -/

/-- the thread's current call returns `ret` and the thread makes no further call -/
def stopThread (th : Thread) (op : Op) (ret : Bool) : Thread :=
  { th with pc := .done, prog := [], last := some (op, ret) }

/-- thread `t` performs the primitive call it is suspended at and the call FAILS.
    `zero`: the thread is on the zero-reader-count path of `p_rwlock_reader_unlock` (the pc
    `.atUnlock .runlock true` does not tell; the driver tracks it, the theorems hold for both values) -/
def failStep (s : State) (t : Tid) (zero : Bool := false) : Option State :=
  match s.threads[t]? with
  | none => none
  | some th =>
    match th.pc with
    | .lock op =>
      some { s with threads := s.threads.set t (if op.isAcq then finish th op false else stopThread th op false) }
    | .atWait .rlock _ =>
      some { s with waiting := SET_READERS s.waiting (READER_COUNT s.waiting - 1),
                    threads := s.threads.set t { th with pc := .atUnlock .rlock false } }
    | .atWait .wlock _ =>
      some { s with waiting := SET_WRITERS s.waiting (WRITER_COUNT s.waiting - 1),
                    threads := s.threads.set t { th with pc := .atUnlock .wlock false } }
    | .atSignal op _ | .atBcast op _ =>
      some { s with threads := s.threads.set t { th with pc := .atUnlock op false } }
    | .atUnlock op _ =>
      some { s with threads := s.threads.set t (stopThread th op (zero && op == .runlock)) }
    | _ => none

/-! ## `p_rwlock_new` / `p_rwlock_free` of the general model: which parts are released

`p_rwlock_new` allocates the structure, the mutex, `read_cv`, `write_cv` in this order; when
allocation number `k` (0-based) fails it releases what it has (in reverse order) and returns NULL. -/

structure Released where
  structs : Nat := 0     -- `p_free (ret)`
  mutexes : Nat := 0     -- `p_mutex_free`
  condvars : Nat := 0    -- `p_cond_variable_free`
  deriving DecidableEq, Repr

/-- allocation `k` of `p_rwlock_new` fails (`k` = 0 struct, 1 mutex, 2 read_cv, 3 write_cv): the
    call returns NULL having released exactly what was allocated before -/
def newFail (k : Nat) : Released :=
  { structs := if k ≥ 1 then 1 else 0, mutexes := if k ≥ 2 then 1 else 0, condvars := if k ≥ 3 then 1 else 0 }

/-- `p_rwlock_free (lock)` on a live lock (whatever the counters say: it only warns) -/
def freeAll : Released := { structs := 1, mutexes := 1, condvars := 2 }

/-! ## `prwlock-posix.c`: thin mapping onto `pthread_rwlock_*`

The pthread rwlock is an abstract machine (trusted contract): its calls return an `int` code.
The wrapper functions map the code to a `pboolean`; transliterated here. -/
namespace Posix

inductive Call | rdlock | tryrdlock | wrlock | trywrlock | unlock | init | destroy
  deriving DecidableEq, Repr

/-- which pthread call a `p_rwlock_*` function makes (`pp_rwlock_unlock_any` for both unlocks) -/
def callOf : Op → Call
  | .rlock => .rdlock
  | .rtry => .tryrdlock
  | .wlock => .wrlock
  | .wtry => .trywrlock
  | .runlock | .wunlock => .unlock

/-- `p_rwlock_<op> (lock)` with a non-NULL lock: result for pthread return code `code`
    (`== 0 ? TRUE : FALSE` in all six functions) -/
def result (_op : Op) (code : Int) : Bool := code == 0

/-- `p_rwlock_<op> (NULL)`: FALSE without any pthread call -/
def resultNull (_op : Op) : Bool := false

/-- `p_rwlock_new`: NULL iff allocation failed or `pthread_rwlock_init` returned non-zero -/
def newOk (allocOk : Bool) (initCode : Int) : Bool := allocOk && initCode == 0

/-- `p_rwlock_free (lock)`, non-NULL: `pthread_rwlock_destroy` is called; a failure is only logged
    (`P_ERROR`), the object is released in both cases: (destroy called, object released) -/
def freeResult (_destroyCode : Int) : Bool × Bool := (true, true)

/-- abstract pthread rwlock: who holds it (trusted machine) -/
structure PState where
  readers : List Tid := []      -- read holders (a multiset: POSIX read locks may be recursive)
  writer : Option Tid := none
  deriving Repr, DecidableEq

/-- trusted contract of `pthread_rwlock_*` (POSIX): a call by thread `t` returns a code; code 0 is
    returned only when the mode is grantable (resp. the caller holds the lock) and then the holder
    set changes accordingly; any other code leaves the lock unchanged.  Blocking calls simply are
    not enabled until they can return. -/
inductive PStep : PState → Tid → Call → Int → PState → Prop
  | rd_ok (s : PState) (t : Tid) : s.writer = none → PStep s t .rdlock 0 { s with readers := t :: s.readers }
  | tryrd_ok (s : PState) (t : Tid) : s.writer = none → PStep s t .tryrdlock 0 { s with readers := t :: s.readers }
  | wr_ok (s : PState) (t : Tid) : s.writer = none → s.readers = [] → PStep s t .wrlock 0 { s with writer := some t }
  | trywr_ok (s : PState) (t : Tid) : s.writer = none → s.readers = [] → PStep s t .trywrlock 0 { s with writer := some t }
  | unlock_w (s : PState) (t : Tid) : s.writer = some t → PStep s t .unlock 0 { s with writer := none }
  | unlock_r (s : PState) (t : Tid) : t ∈ s.readers → PStep s t .unlock 0 { s with readers := s.readers.erase t }
  | fail (s : PState) (t : Tid) (c : Call) (code : Int) : code ≠ 0 → PStep s t c code s

/-- `p_rwlock_<op> (lock)` called by thread `t`: the pthread call is made, its code is mapped -/
def ApiStep (s : PState) (t : Tid) (op : Op) (ret : Bool) (s' : PState) : Prop :=
  ∃ code, PStep s t (callOf op) code s' ∧ ret = result op code

inductive PReach : PState → Prop
  | init : PReach {}
  | step {s s' : PState} {t : Tid} {op : Op} {ret : Bool} : PReach s → ApiStep s t op ret s' → PReach s'

end Posix

end PV.RWLock

import PV.Model.SockAddr
import PV.Spec.SockAddr
/-! # Executable model of glibc's IPv6 text functions (C17, platform side)

`psocketaddress.c` leaves the text form of an address to the platform: `inet_ntop`, `inet_pton`,
`getaddrinfo (AI_NUMERICHOST)`.  In `PV.Model.SockAddr` they are the fields of `Platform`.  This file
is a *model of what glibc (2.36: `resolv/inet_ntop.c`, `resolv/inet_pton.c`) does*, written loop by
loop after those sources; it is NOT library code and nothing here is generated from `/repo`.  It is tied
to the real functions by the differential only (`ntop6` / `pton` ops of the sockaddr line protocol: the
harness calls the real `inet_ntop` / `inet_pton` / `getaddrinfo`, the driver answers with these functions).

Strings are byte lists without NUL, as everywhere in the C17 model.  The IPv4 pair `ntop4` / `pton4`
(and `decByte`) is the one of `PV.Model.SockAddr`.

* `ntop6`  = `inet_ntop6`: eight 16-bit groups, `"%x"` each; the longest run of two or more zero groups
  (the first one on ties: `cur.len > best.len` is strict) becomes `::`; when that run starts at group 0 and
  has length 6, or length 5 with group 5 = `0xffff`, groups 6..7 are printed as a dotted quad
  (`::1.2.3.4`, `::ffff:1.2.3.4`; so `::` (run 8) and `::1` (run 7) are not).
* `pton6`  = `inet_pton6`: state (`tp`, `colonp`, `xdigits_seen`, `val`, `curtok`) = `P6`.
* `gaiNumeric` = `getaddrinfo (AI_NUMERICHOST, AF_UNSPEC)` **on strings that contain ':' and no '%'** (the only
  strings `p_socket_address_new` sends there that an `inet_ntop` text can be): `inet_aton` rejects every such
  string, there is no scope, and the answer is `inet_pton (AF_INET6)` wrapped in a `sockaddr_in6` with port,
  flow info and scope id 0.  Outside that domain the function answers `none` and claims nothing. -/
namespace PV.SockAddr

/-! ## printing -/

/-- one digit of `"%x"` -/
def hexDigit (d : Nat) : UInt8 := if d < 10 then UInt8.ofNat (48 + d) else UInt8.ofNat (87 + d)

/-- `sprintf ("%x", w)` for a 16-bit `w`: lower case, no leading zeros, `"0"` for 0 -/
def hexG (w : Nat) : List UInt8 :=
  if w < 16 then [hexDigit w]
  else if w < 256 then [hexDigit (w / 16), hexDigit (w % 16)]
  else if w < 4096 then [hexDigit (w / 256), hexDigit (w / 16 % 16), hexDigit (w % 16)]
  else [hexDigit (w / 4096 % 16), hexDigit (w / 256 % 16), hexDigit (w / 16 % 16), hexDigit (w % 16)]

/-- `words[i / 2] = (src[i] << 8) | src[i + 1]` -/
def words6 (a : Vector UInt8 16) : List Nat :=
  [a[0].toNat * 256 + a[1].toNat, a[2].toNat * 256 + a[3].toNat, a[4].toNat * 256 + a[5].toNat,
   a[6].toNat * 256 + a[7].toNat, a[8].toNat * 256 + a[9].toNat, a[10].toNat * 256 + a[11].toNat,
   a[12].toNat * 256 + a[13].toNat, a[14].toNat * 256 + a[15].toNat]

/-- `if (best.base == -1 || cur.len > best.len) best = cur;`  (runs are `(base, len)`, `none` = base -1) -/
def better (best : Option (Nat × Nat)) (cur : Nat × Nat) : Option (Nat × Nat) :=
  match best with
  | none => some cur
  | some b => if cur.2 > b.2 then some cur else some b

/-- the scan for the best run of zero words; the list holds `words[i] == 0` for `i`, `i+1`, … -/
def scanRuns : List Bool → Nat → Option (Nat × Nat) → Option (Nat × Nat) → Option (Nat × Nat)
  | [], _, best, cur =>
    match cur with
    | some c => better best c
    | none => best
  | z :: zs, i, best, cur =>
    if z then
      match cur with
      | none => scanRuns zs (i + 1) best (some (i, 1))
      | some c => scanRuns zs (i + 1) best (some (c.1, c.2 + 1))
    else
      match cur with
      | some c => scanRuns zs (i + 1) (better best c) none
      | none => scanRuns zs (i + 1) best none

/-- `if (best.base != -1 && best.len < 2) best.base = -1;` -/
def bestRun (zs : List Bool) : Option (Nat × Nat) :=
  match scanRuns zs 0 none none with
  | some b => if b.2 < 2 then none else some b
  | none => none

def inBest (best : Option (Nat × Nat)) (i : Nat) : Bool :=
  match best with
  | some (b, l) => b ≤ i && i < b + l
  | none => false

def isBase (best : Option (Nat × Nat)) (i : Nat) : Bool :=
  match best with
  | some (b, _) => i == b
  | none => false

/-- `best.base == 0 && (best.len == 6 || (best.len == 5 && words[5] == 0xffff))` -/
def v4Tail (best : Option (Nat × Nat)) (w5 : Nat) : Bool :=
  match best with
  | some (b, l) => b == 0 && (l == 6 || (l == 5 && w5 == 0xffff))
  | none => false

/-- the output loop over groups `i`, `i+1`, …; `t4` is `inet_ntop4 (src + 12)` -/
def render6 (best : Option (Nat × Nat)) (tail : Bool) (t4 : List UInt8) : Nat → List Nat → List UInt8
  | _, [] => []
  | i, w :: ws =>
    if inBest best i then
      (if isBase best i then [58] else []) ++ render6 best tail t4 (i + 1) ws
    else
      (if i ≠ 0 then [58] else []) ++
        (if i = 6 ∧ tail then t4                                 -- encapsulated IPv4, `break`
         else hexG w ++ render6 best tail t4 (i + 1) ws)

/-- `if (best.base != -1 && (best.base + best.len) == 8) *tp++ = ':';` -/
def trailingColon (best : Option (Nat × Nat)) : List UInt8 :=
  match best with
  | some (b, l) => if b + l = 8 then [58] else []
  | none => []

/-- the printing half with the words, the chosen run and the dotted tail made explicit -/
def ntop6With (ws : List Nat) (best : Option (Nat × Nat)) (t4 : List UInt8) : List UInt8 :=
  render6 best (v4Tail best (ws.getD 5 0)) t4 0 ws ++ trailingColon best

/-- glibc `inet_ntop (AF_INET6, …)` (the 46-byte buffer of the library always suffices: at most 45 characters) -/
def ntop6 (a : Vector UInt8 16) : List UInt8 :=
  ntop6With (words6 a) (bestRun ((words6 a).map (· == 0))) (ntop4 #v[a[12], a[13], a[14], a[15]])

/-! ## parsing -/

/-- `hex_digit_value` -/
def hexVal (c : UInt8) : Option Nat :=
  if 48 ≤ c ∧ c ≤ 57 then some (c.toNat - 48)
  else if 97 ≤ c ∧ c ≤ 102 then some (c.toNat - 87)
  else if 65 ≤ c ∧ c ≤ 70 then some (c.toNat - 55)
  else none

/-- the local variables of `inet_pton6`: `acc` = `tmp[0 .. tp)`, `colon` = `colonp - tmp`, `tok` = the string from
    `curtok` to its end -/
structure P6 where
  acc : List UInt8
  colon : Option Nat
  seen : Nat
  val : Nat
  tok : List UInt8

def vec16 (l : List UInt8) : Option (Vector UInt8 16) :=
  if h : l.length = 16 then some ⟨l.toArray, by simpa using h⟩ else none

/-- after the loop: the `::` expansion (`memmove` + `memset`; a `::` that would stand for no group at all is
    refused) and `if (tp != endp) return 0;` -/
def finish6 (acc : List UInt8) (colon : Option Nat) : Option (Vector UInt8 16) :=
  match colon with
  | none => vec16 acc
  | some c =>
    if 16 ≤ acc.length then none
    else vec16 (acc.take c ++ List.replicate (16 - acc.length) 0 ++ acc.drop c)

def valBytes (v : Nat) : List UInt8 := [UInt8.ofNat (v / 256), UInt8.ofNat (v % 256)]

/-- the `while (src < src_endp)` loop of `inet_pton6` and what follows it -/
def go6 : List UInt8 → P6 → Option (Vector UInt8 16)
  | [], st =>
    if st.seen > 0 then
      if st.acc.length + 2 > 16 then none
      else finish6 (st.acc ++ valBytes st.val) st.colon
    else finish6 st.acc st.colon
  | c :: r, st =>
    match hexVal c with
    | some d =>
      if st.seen = 4 then none
      else if st.val * 16 + d > 0xffff then none
      else go6 r { st with seen := st.seen + 1, val := st.val * 16 + d }
    | none =>
      if c = 58 then
        if st.seen = 0 then
          if st.colon.isSome then none
          else go6 r { st with colon := some st.acc.length, tok := r }
        else if r = [] then none
        else if st.acc.length + 2 > 16 then none
        else go6 r { acc := st.acc ++ valBytes st.val, colon := st.colon, seen := 0, val := 0, tok := r }
      else if c = 46 ∧ st.acc.length + 4 ≤ 16 then
        match pton4 st.tok with                     -- `inet_pton4 (curtok, src_endp, tp)`, which runs to the end
        | some x => finish6 (st.acc ++ x.toList) st.colon
        | none => none
      else none

/-- glibc `inet_pton (AF_INET6, …)` -/
def pton6 (s : List UInt8) : Option (Vector UInt8 16) :=
  match s with
  | [] => none
  | c :: r =>
    if c = 58 then                                   -- a leading ':' must be the first of "::"
      match r with
      | c' :: _ => if c' = 58 then go6 r ⟨[], none, 0, 0, r⟩ else none
      | [] => none
    else go6 s ⟨[], none, 0, 0, s⟩

/-- `getaddrinfo (s, NULL, {AF_UNSPEC, SOCK_STREAM, AI_NUMERICHOST}, …)` on strings with ':' and without '%'
    (see the head of the file).  `inet_pton6` accepts no '%', so on a string with '%' this function answers `none`
    where glibc goes on to look at the scope: outside the domain, nothing is claimed there (and the differential
    compares on the domain only). -/
def gaiNumeric (s : List UInt8) : Option (Nat × Buf) :=
  if s.contains 58 then
    match pton6 s with
    | some a => some (10, Spec.encode (.v6 a 0 0 0))
    | none => none
  else none

/-- the platform of the C17 model with glibc's functions as modelled here -/
def glibcModel : Platform where
  pton4 := pton4
  pton6 := pton6
  ntop4 := ntop4
  ntop6 := ntop6
  getaddrinfo := gaiNumeric

end PV.SockAddr

/-!
Model of `/repo/src/pshmbuffer.c`: a ring buffer inside a shared segment.

Shared state (in the segment): two `psize` header words `rd`, `wr` and the data area.
Per handle: the ring modulus `M` (`buf->size` = segment size as reported to *this* handle − 16).
The usable capacity is `M − 1`.

`psize` arithmetic is modelled with 64-bit wrap-around (`sub64`); memory accesses go through
bounds-checked `getRange`/`setRange`, which return `none` (a *fault*) outside the data area —
nothing is defaulted.
-/
namespace PV.SB

def W : Nat := 18446744073709551616   -- 2^64
def sub64 (a b : Nat) : Nat := (a + W - b) % W
/-- the `(pint)` cast of a `psize` -/
def toPint (n : Nat) : Int := (BitVec.ofNat 32 n).toInt

structure Shared where
  rd : Nat
  wr : Nat
  data : List UInt8          -- the data area of the real segment
deriving Repr, DecidableEq

/-- `pp_shm_buffer_get_free_space` -/
def freeSpace (M : Nat) (s : Shared) : Nat :=
  if s.wr < s.rd then sub64 (sub64 s.rd s.wr) 1
  else if s.wr > s.rd then sub64 (sub64 M (sub64 s.wr s.rd)) 1
  else sub64 M 1

/-- `pp_shm_buffer_get_used_space` -/
def usedSpace (M : Nat) (s : Shared) : Nat :=
  if s.wr > s.rd then sub64 s.wr s.rd
  else if s.wr < s.rd then sub64 M (sub64 s.rd s.wr)
  else 0

/-- checked `memcpy` out of the data area -/
def getRange (d : List UInt8) (start len : Nat) : Option (List UInt8) :=
  if start + len ≤ d.length then some ((d.drop start).take len) else none

/-- checked `memcpy` into the data area -/
def setRange (d : List UInt8) (start : Nat) (xs : List UInt8) : Option (List UInt8) :=
  if start + xs.length ≤ d.length then some (d.take start ++ xs ++ d.drop (start + xs.length)) else none

inductive Res (α : Type) where
  | ok (s : Shared) (r : α)
  | fault                      -- an access outside the data area
deriving Repr, DecidableEq

/-- `p_shm_buffer_write`; result `-1` invalid argument, `0` does not fit, else `len`. -/
def write (M : Nat) (s : Shared) (xs : List UInt8) : Res Int :=
  if xs.length = 0 then .ok s (-1)
  else if freeSpace M s < xs.length then .ok s 0
  else
    let start := s.wr % M
    let wr' := (s.wr + xs.length) % M
    if start + xs.length ≤ M then
      match setRange s.data start xs with
      | some d => .ok { s with data := d, wr := wr' } xs.length
      | none => .fault
    else
      let first := M - start
      match setRange s.data start (xs.take first) with
      | none => .fault
      | some d1 =>
        match setRange d1 0 (xs.drop first) with
        | none => .fault
        | some d2 => .ok { s with data := d2, wr := wr' } xs.length

/-- `p_shm_buffer_write` of `n` zero bytes.  Same function (theorem `writeZeros_eq_write`); written so that a
    length far beyond the capacity (2^32 + 1, …) is answered from the free-space test of the C code without
    building the byte list. -/
def writeZeros (M : Nat) (s : Shared) (n : Nat) : Res Int :=
  if n ≠ 0 ∧ freeSpace M s < n then .ok s 0
  else if s.data.length + M < n then .fault      -- passed the free-space test (corrupted positions) but cannot lie inside the data area
  else write M s (List.replicate n 0)

/-- `p_shm_buffer_read`; returns the copied bytes and the `pint` result. -/
def read (M : Nat) (s : Shared) (len : Nat) : Res (List UInt8 × Int) :=
  if len = 0 then .ok s ([], -1)
  else if s.rd = s.wr then .ok s ([], 0)
  else
    let avail := usedSpace M s
    let toCopy := if avail ≤ len then avail else len
    let start := s.rd % M
    let rd' := (s.rd + toCopy) % M
    if start + toCopy ≤ M then
      match getRange s.data start toCopy with
      | some out => .ok { s with rd := rd' } (out, toPint toCopy)
      | none => .fault
    else
      let first := M - start
      match getRange s.data start first, getRange s.data 0 (toCopy - first) with
      | some a, some b => .ok { s with rd := rd' } (a ++ b, toPint toCopy)
      | _, _ => .fault

/-- `p_shm_buffer_clear`: zero the header and `cnt` bytes of data (this handle's view of the segment) -/
def clear (M : Nat) (s : Shared) : Shared :=
  { rd := 0, wr := 0, data := List.replicate (min M s.data.length) 0 ++ s.data.drop M }

def init (M : Nat) : Shared := { rd := 0, wr := 0, data := List.replicate M 0 }


/-! ## the two lock calls of every operation (`p_shm_lock` … `p_shm_unlock`), with scripted failures -/

/-- scripted results of the `p_shm_lock` / `p_shm_unlock` of one operation -/
structure LockScript where
  lockFails : Bool := false
  unlockFails : Bool := false
deriving Repr, DecidableEq

/-- `p_shm_buffer_write`: invalid argument → −1 before the lock; a failing lock → −1, nothing read or written;
    a failing unlock → −1 AFTER the bytes (if they fit) have been stored and `write_pos` moved -/
def writeL (ls : LockScript) (M : Nat) (s : Shared) (xs : List UInt8) : Res Int :=
  if xs.length = 0 then .ok s (-1)
  else if ls.lockFails then .ok s (-1)
  else match write M s xs with
    | .ok s' r => .ok s' (if ls.unlockFails then -1 else r)
    | .fault => .fault

def writeZerosL (ls : LockScript) (M : Nat) (s : Shared) (n : Nat) : Res Int :=
  if n = 0 then .ok s (-1)
  else if ls.lockFails then .ok s (-1)
  else match writeZeros M s n with
    | .ok s' r => .ok s' (if ls.unlockFails then -1 else r)
    | .fault => .fault

/-- `p_shm_buffer_read`: as `writeL`; after a failing unlock the bytes are consumed although −1 is returned -/
def readL (ls : LockScript) (M : Nat) (s : Shared) (len : Nat) : Res (List UInt8 × Int) :=
  if len = 0 then .ok s ([], -1)
  else if ls.lockFails then .ok s ([], -1)
  else match read M s len with
    | .ok s' (o, r) => if ls.unlockFails then .ok s' ([], -1) else .ok s' (o, r)
    | .fault => .fault

/-- `p_shm_buffer_get_free_space` / `…_used_space`: −1 when the lock or the unlock fails -/
def freeSpaceL (ls : LockScript) (M : Nat) (s : Shared) : Int :=
  if ls.lockFails || ls.unlockFails then -1 else freeSpace M s

def usedSpaceL (ls : LockScript) (M : Nat) (s : Shared) : Int :=
  if ls.lockFails || ls.unlockFails then -1 else usedSpace M s

/-- `p_shm_buffer_clear`: nothing is cleared when the lock fails; a failing unlock is only logged -/
def clearL (ls : LockScript) (M : Nat) (s : Shared) : Shared :=
  if ls.lockFails then s else clear M s

end PV.SB

import PV.Generated.UThread
/-!
# Model of `/repo/src/puthread.c` + `/repo/src/puthread-posix.c` (property C05)

A *history machine*: the state is everything the library and the native thread layer remember
about `PUThread` handles, threads, `PUThreadKey`s and native (pthread) keys; an event (`Ev`) is one
library-level step of one thread.  Non-determinism = the choice of the next event, so an
interleaving of threads is simply a history (`List Ev`).

What each event transliterates is written next to its transition function.  Things outside the
library are the documented POSIX behaviour (trusted, DESIGN §4):

* `pthread_create` makes a thread that runs the proxy; `pthread_exit` / return from the proxy ends
  the function (`exit`/`ret`), after which the native layer runs the TLS destructors (`threadEnd`):
  for every live native key with a destructor whose value for that thread is non-NULL the value is
  set to NULL and the destructor is called with the old value.
* `pthread_join` returns only after the target thread has terminated (`join` is *enabled* only when
  the target's phase is `ended`); a second `pthread_join` of one thread is undefined (`Err.ub`).
* the atomics are atomic (C04): `ref`/`unref`/`keyCas` are single steps.
* the creation spinlock (C01): `createBegin … createEnd` is the critical section of
  `p_uthread_create_full`; the proxy passes `lock; unlock` (`start`) only when nobody holds it.

Modelling decisions
* `start t` merges the proxy's `p_uthread_set_local (library key, handle)` (which precedes the
  spinlock in the C text) with the passage through the spinlock: the store goes to the thread's own
  TLS slot which nobody else can read, so it commutes with every event of every other thread; the
  lazy creation of the library key's native key that this call may need is NOT merged: it is the
  two separate events `keyCreate t 0`, `keyCas t 0`, enabled for a thread in phase `created`.
* reference counts are mathematical integers (assumption: fewer than 2^31 references to one handle).
* ghost fields (never read by a transition's *behaviour*): `Handle.userRefs` (creator's + explicit
  references outstanding), `Handle.threadRef` (the reference held through the library TLS key by the
  thread the handle describes), `Thread.exitArg`, `Handle.written`.
* `localFree` (repaired code): `pthread_key_delete` of the published native key, `p_free` of its block, then
  `p_free` of the wrapper.  Values other threads still hold under that native key are dropped: the key is no
  longer live, so `threadEnd` runs no destructor for them (documented in `puthread.h`).  The wrapper record keeps
  its `published` field as a ghost of what it pointed to; every access through a freed wrapper is a fault.
  `p_uthread_shutdown` (not an event of this machine) frees the library's own key through the same function.
* the read-back of the TLS slot in `pp_uthread_proxy` / `p_uthread_current` (repair of F10) only matters when
  the store did not take, i.e. when an allocation inside the lazy key creation failed; allocation failure is
  outside C05 (property C18).  In this machine a store through a resolved key always takes, so the read-back
  shows up only in the native-call trace of the driver; the source facts (`proxyReadsBack`,
  `proxyUnrefsWhenNotStored`, `currentChecksStore`) are obligations checked in `Props/C05.lean`.
* values: `0` is `NULL`; the library key (key `0`) stores `h + 1` for handle `h`.
-/
namespace PV.UThread
open PV.Generated.UThread

/-! All identifiers are natural numbers (plain `Nat`, so that `omega` sees every comparison); the
variable names tell the sort:
* `t`, `a` — threads; 0 = the initial thread (not created by the library)
* `h` — PUThread blocks, in allocation order
* `k` — PUThreadKey wrappers; 0 = the library's own `pp_uthread_specific_data`
* `n` — native keys (`pthread_key_t` + its heap block), in creation order
* `v` — TLS values, 0 = NULL -/

inductive Phase
  | absent      -- no such thread (yet)
  | created     -- native thread exists, proxy has not passed the creation spinlock
  | running     -- inside the thread function (or: a thread the library did not create)
  | finished    -- called `p_uthread_exit` / returned; TLS destructors not yet run
  | ended       -- native thread terminated (destructors done)
  deriving DecidableEq, Repr

structure Thread where
  phase : Phase := .absent
  /-- `some h`: created by `p_uthread_create*` with handle `h`; `none`: foreign thread -/
  handle : Option Nat := none
  /-- inside `pp_uthread_get_tls_key` between `pthread_key_create` and the compare-and-exchange -/
  pend : Option (Nat × Nat) := none
  /-- ghost: the argument of the `p_uthread_exit` call that ended the function, `none` for a plain return -/
  exitArg : Option Int := none
  /-- `some h`: a library thread whose proxy could not store `h` in the library TLS slot (`is_stored == FALSE`): the proxy
      itself drops the thread's reference to `h` when the function returns; for the library the thread is an unknown one
      (`handle = none`: `p_uthread_current` finds an empty slot) -/
  proxy : Option Nat := none

structure Handle where
  refCount : Int := 0
  retCode : Int := 0
  ours : Bool := false
  joinable : Bool := false
  /-- a `p_strdup`ed name hangs off the handle (freed together with it) -/
  named : Bool := false
  freed : Bool := false
  /-- native thread (`hdl`) of an `ours` handle / the thread a lazily made handle belongs to -/
  thread : Nat := 0
  /-- `pthread_join` already performed on `hdl` -/
  joined : Bool := false
  /-- ghost: the creator's field writes are complete (the pointer has been returned to a caller) -/
  written : Bool := false
  /-- ghost: references held by users: the creator's + explicit `p_uthread_ref`s − `p_uthread_unref`s -/
  userRefs : Nat := 0
  /-- ghost: the running thread's own reference (dropped by the library key's destructor) -/
  threadRef : Bool := false
  /-- ghost: the thread this handle describes runs without the handle in its TLS slot (`Thread.proxy`) -/
  orphan : Bool := false

structure Key where
  notifier : Bool := false          -- `free_func != NULL`
  wrapperFreed : Bool := false
  published : Option Nat := none   -- `key->key`
  losers : List Nat := []          -- ghost: native keys that lost the publication race

structure NKey where
  owner : Nat := 0
  dtor : Bool := false              -- destructor registered at `pthread_key_create`
  live : Bool := false              -- not `pthread_key_delete`d
  blockFreed : Bool := false        -- the `p_malloc0 (sizeof (pthread_key_t))` block was `p_free`d

structure Creating where
  by_ : Nat
  h : Nat
  joinable : Bool
  named : Bool

structure State where
  nT : Nat := 1
  nH : Nat := 0
  nK : Nat := 1
  nN : Nat := 0
  thr : Nat → Thread := fun t => if t = 0 then { phase := .running } else {}
  hdl : Nat → Handle := fun _ => {}
  key : Nat → Key := fun k => if k = 0 then { notifier := true } else {}
  nkey : Nat → NKey := fun _ => {}
  tls : Nat → Nat → Nat := fun _ _ => 0
  /-- holder of `pp_uthread_new_spin` (only `p_uthread_create_full` holds it for longer than a step) -/
  spin : Option Creating := none
  /-- notifier calls `(thread, key, value)` in order (key 0 = `pp_uthread_cleanup`) -/
  dtorLog : List (Nat × Nat × Nat) := []
  /-- `p_free` of PUThread blocks, in order -/
  freeLog : List Nat := []
  joinLog : List (Nat × Nat × Int) := []
  getLog : List (Nat × Nat × Nat) := []
  curLog : List (Nat × Nat) := []
  /-- `pthread_key_delete` calls (native key ids) in order -/
  keyDelLog : List Nat := []
  /-- `p_free` of native-key blocks in order -/
  blockFreeLog : List Nat := []

/-- state after `p_libsys_init`: the initial thread runs, the library key wrapper exists (its native
    key does not: it is created lazily like every other) -/
def init : State := {}

inductive Err
  | notEnabled                    -- the event cannot happen here (blocked call, unknown id, thread not running)
  | useAfterFree (h : Nat)        -- the step reads or writes a freed PUThread block
  | keyUseAfterFree (k : Nat)     -- the step reads a freed PUThreadKey wrapper
  | ub (what : String)            -- undefined behaviour of the native layer
  deriving DecidableEq, Repr

inductive Ev
  | spawn                                           -- environment: a thread not created by the library appears
  | createBegin (a : Nat) (joinable named : Bool)
  | createEnd (a : Nat)
  | start (t : Nat)
  | exit (t : Nat) (code : Int)
  | ret (t : Nat)
  | threadEnd (t : Nat)
  | ref (a : Nat) (h : Nat)
  | unref (a : Nat) (h : Nat)
  | join (a : Nat) (h : Nat)
  | current (t : Nat)
  | localNew (a : Nat) (notifier : Bool)
  | localFree (a : Nat) (k : Nat)
  | keyCreate (t : Nat) (k : Nat)
  | keyCas (t : Nat) (k : Nat)
  | setLocal (t : Nat) (k : Nat) (v : Nat)
  | replaceLocal (t : Nat) (k : Nat) (v : Nat)
  | getLocal (t : Nat) (k : Nat)
  | createFail (a : Nat)                            -- `p_uthread_create*` whose native part fails: NULL
  | joinFail (a : Nat) (h : Nat)                    -- `p_uthread_join` whose `pthread_join` fails
  | tlsFail (t : Nat) (k : Nat) (get : Bool)        -- a TLS call whose lazy `pthread_key_create` fails
  | currentFail (t : Nat)                           -- `p_uthread_current` whose fresh handle cannot be stored: NULL
  | storeFail (t : Nat) (k : Nat) (replace : Bool)  -- `set_local` / `replace_local` whose `pthread_setspecific` fails
  | startUnstored (t : Nat)                         -- the proxy's own TLS store does not take (`is_stored == FALSE`)
  | retUnstored (t : Nat) (h : Nat)                 -- the function of such a thread returns: the proxy unrefs `h`
  deriving DecidableEq, Repr

def upd {α : Type} (f : Nat → α) (i : Nat) (x : α) : Nat → α := fun j => if j = i then x else f j
def upd2 (f : Nat → Nat → Nat) (t n : Nat) (v : Nat) : Nat → Nat → Nat :=
  fun t' n' => if t' = t ∧ n' = n then v else f t' n'

/-- the thread is inside its function and not in the middle of a library call -/
def canAct (s : State) (a : Nat) : Prop := (s.thr a).phase = .running ∧ (s.thr a).pend = none
instance (s : State) (a : Nat) : Decidable (canAct s a) := by unfold canAct; exact inferInstance

/-- outstanding references of a handle (ghost view) -/
def holders (x : Handle) : Nat := x.userRefs + (if x.threadRef then 1 else 0)

/-- the value thread `t` sees under key `k` (NULL while the key has no native key) -/
def valueOf (s : State) (t : Nat) (k : Nat) : Nat :=
  match (s.key k).published with
  | some n => s.tls t n
  | none => 0

/-- resolve a PUThreadKey on the fast path of `pp_uthread_get_tls_key` -/
def resolve (s : State) (k : Nat) : Except Err Nat :=
  if (s.key k).wrapperFreed then .error (.keyUseAfterFree k)
  else match (s.key k).published with
    | some n => .ok n
    | none => .error .notEnabled      -- slow path: `keyCreate`, `keyCas` first

/-! ## thread creation -/

/-- `p_uthread_create_full` up to and including `pthread_create` inside `p_uthread_create_internal`:
    `p_spinlock_lock`; `p_malloc0 (sizeof (PUThread))` (so `ref_count = 0`, `ours = FALSE`, `ret_code = 0`);
    `ret->base.joinable = joinable`; native thread created (it runs the proxy). -/
def createBegin (s : State) (a : Nat) (j n : Bool) : Except Err State :=
  if ¬ canAct s a then .error .notEnabled else
  match s.spin with
  | some _ => .error .notEnabled
  | none =>
    .ok { s with
      nH := s.nH + 1, nT := s.nT + 1
      hdl := upd s.hdl s.nH { joinable := j, thread := s.nT }
      thr := upd s.thr s.nT { phase := .created, handle := some s.nH }
      spin := some { by_ := a, h := s.nH, joinable := j, named := n } }

/-- the rest of the critical section: `ref_count = 2; ours = TRUE; joinable; func; data; name = p_strdup (name)`;
    `p_spinlock_unlock`; the pointer is returned. -/
def createEnd (s : State) (a : Nat) : Except Err State :=
  match s.spin with
  | none => .error .notEnabled
  | some c =>
    if c.by_ ≠ a then .error .notEnabled else
    .ok { s with
      hdl := upd s.hdl c.h { s.hdl c.h with
        refCount := createInitRefCount, ours := true, joinable := c.joinable, named := c.named,
        written := true, userRefs := 1, threadRef := true }
      spin := none }

/-- `p_uthread_create_full` when `p_uthread_create_internal` fails after its allocation: `p_spinlock_lock`;
    `ret = p_malloc0 (sizeof (PUThread))`; `ret->base.joinable = joinable`; one of `pthread_attr_init`,
    `pthread_attr_setdetachstate`, `pthread_create` (after the EPERM retry) returns non-zero; `pthread_attr_destroy` (on the
    last two paths); `p_free (ret)`; NULL comes back, so `p_uthread_create_full` writes no field; `p_spinlock_unlock`; NULL is
    returned.  No native thread exists.  The block takes the next handle id: it is allocated and released inside the call
    and its pointer is given to nobody (`written` = the creating call is over; what a freed block contains is immaterial). -/
def createFail (s : State) (a : Nat) : Except Err State :=
  if ¬ canAct s a then .error .notEnabled else
  match s.spin with
  | some _ => .error .notEnabled
  | none =>
    .ok { s with
      nH := s.nH + 1
      hdl := upd s.hdl s.nH { freed := true, written := true }
      freeLog := s.freeLog ++ [s.nH] }

/-- a thread the library did not create (the harness's raw `pthread_create`) -/
def spawn (s : State) : Except Err State :=
  .ok { s with nT := s.nT + 1, thr := upd s.thr s.nT { phase := .running } }

/-- `pp_uthread_proxy`: `p_uthread_set_local (pp_uthread_specific_data, data)`; `p_spinlock_lock`;
    `p_spinlock_unlock`; reads `name`, `func`, `data` of the handle; calls the thread function. -/
def start (s : State) (t : Nat) : Except Err State :=
  if (s.thr t).phase ≠ .created ∨ (s.thr t).pend ≠ none then .error .notEnabled else
  match (s.thr t).handle with
  | none => .error .notEnabled
  | some h =>
    match resolve s 0 with
    | .error e => .error e
    | .ok n =>
      match s.spin with
      | some _ => .error .notEnabled
      | none =>
        if (s.hdl h).freed then .error (.useAfterFree h) else
        .ok { s with
          tls := upd2 s.tls t n (h + 1)
          thr := upd s.thr t { s.thr t with phase := .running } }

/-- `pp_uthread_proxy` when `p_uthread_set_local (pp_uthread_specific_data, data)` stores nothing (the lazy
    `pthread_key_create` of the library key, or `pthread_setspecific`, fails): the read-back differs from `data`, so
    `is_stored = FALSE`; `p_spinlock_lock; p_spinlock_unlock`; the thread function is called.  No destructor will ever run
    for the handle: the proxy keeps the thread's reference itself (`retUnstored`).  The slot stays empty, so from now on the
    library takes the thread for one it did not create (`handle := none`). -/
def startUnstored (s : State) (t : Nat) : Except Err State :=
  if (s.thr t).phase ≠ .created ∨ (s.thr t).pend ≠ none then .error .notEnabled else
  match (s.thr t).handle with
  | none => .error .notEnabled
  | some h =>
    match s.spin with
    | some _ => .error .notEnabled
    | none =>
      if valueOf s t 0 ≠ 0 then .error .notEnabled else
      if (s.hdl h).freed then .error (.useAfterFree h) else
      .ok { s with
        hdl := upd s.hdl h { s.hdl h with orphan := true }
        thr := upd s.thr t { s.thr t with phase := .running, handle := none, proxy := some h } }

/-! ## current / exit / return -/

/-- `p_uthread_current` after the key has been resolved: the stored handle, or a fresh
    `p_malloc0 (sizeof (PUThreadBase))` with `ref_count = 1` stored in the slot -/
def currentCore (s : State) (t : Nat) (n : Nat) : State × Nat :=
  if s.tls t n ≠ 0 then (s, s.tls t n - 1) else
  ({ s with
      nH := s.nH + 1
      hdl := upd s.hdl s.nH { refCount := currentInitRefCount, thread := t, written := true, threadRef := true }
      tls := upd2 s.tls t n (s.nH + 1) }, s.nH)

def current (s : State) (t : Nat) : Except Err State :=
  if ¬ canAct s t then .error .notEnabled else
  match resolve s 0 with
  | .error e => .error e
  | .ok n =>
    let r := currentCore s t n
    .ok { r.1 with curLog := r.1.curLog ++ [(t, r.2)] }

/-- `p_uthread_exit (code)`: `p_uthread_current ()`; `ours == FALSE` → warning, returns;
    else `ret_code = code; pthread_exit` -/
def exit (s : State) (t : Nat) (code : Int) : Except Err State :=
  if ¬ canAct s t then .error .notEnabled else
  match resolve s 0 with
  | .error e => .error e
  | .ok n =>
    let r := currentCore s t n
    let s1 := r.1
    let h := r.2
    if (s1.hdl h).freed then .error (.useAfterFree h) else
    if (s1.hdl h).ours = false then .ok s1 else
    .ok { s1 with
      hdl := upd s1.hdl h { s1.hdl h with retCode := code }
      thr := upd s1.thr t { s1.thr t with phase := .finished, exitArg := some code } }

/-- the thread function returns (the proxy returns NULL); `ret_code` is not written.
    The initial thread returning from `main` is process exit, not a thread end. -/
def ret (s : State) (t : Nat) : Except Err State :=
  if ¬ canAct s t ∨ t = 0 ∨ (s.thr t).proxy ≠ none then .error .notEnabled else
  .ok { s with thr := upd s.thr t { s.thr t with phase := .finished } }

/-! ## reference counting -/

/-- `p_uthread_unref` on a known handle: `p_atomic_int_dec_and_test`; on TRUE `p_free (name)` and
    `p_uthread_free_internal` / `p_free` of the block.  `own`: the caller is the library key's
    destructor (ghost: which reference disappears). -/
def unrefCore (s : State) (h : Nat) (own : Bool) : Except Err State :=
  if (s.hdl h).freed then .error (.useAfterFree h) else
  let x := s.hdl h
  let x' : Handle := { x with
    refCount := x.refCount - unrefDecrement
    userRefs := if own then x.userRefs else x.userRefs - 1
    threadRef := if own then false else x.threadRef }
  if x.refCount = unrefFreesWhenOldIs then
    .ok { s with hdl := upd s.hdl h { x' with freed := true }, freeLog := s.freeLog ++ [h] }
  else
    .ok { s with hdl := upd s.hdl h x' }

/-- `p_uthread_ref`: `p_atomic_int_inc (&ref_count)` -/
def ref (s : State) (a : Nat) (h : Nat) : Except Err State :=
  if ¬ canAct s a ∨ ¬ h < s.nH ∨ (s.hdl h).written = false then .error .notEnabled else
  if (s.hdl h).freed then .error (.useAfterFree h) else
  .ok { s with hdl := upd s.hdl h { s.hdl h with
          refCount := (s.hdl h).refCount + refIncrement, userRefs := (s.hdl h).userRefs + 1 } }

def unref (s : State) (a : Nat) (h : Nat) : Except Err State :=
  if ¬ canAct s a ∨ ¬ h < s.nH ∨ (s.hdl h).written = false then .error .notEnabled else
  unrefCore s h false

/-- `p_uthread_join`: `joinable == FALSE` → −1; `pthread_join (hdl)`; `ret_code` -/
def join (s : State) (a : Nat) (h : Nat) : Except Err State :=
  if ¬ canAct s a ∨ ¬ h < s.nH ∨ (s.hdl h).written = false then .error .notEnabled else
  if (s.hdl h).freed then .error (.useAfterFree h) else
  if (s.hdl h).joinable = false then .ok { s with joinLog := s.joinLog ++ [(a, h, -1)] } else
  if (s.thr (s.hdl h).thread).phase ≠ .ended then .error .notEnabled else
  if (s.hdl h).joined then .error (.ub "second pthread_join of one thread") else
  .ok { s with
    hdl := upd s.hdl h { s.hdl h with joined := true }
    joinLog := s.joinLog ++ [(a, h, (s.hdl h).retCode)] }

/-- the thread function of a thread started by `startUnstored` returns: `if (is_stored == FALSE) p_uthread_unref (base_thread)`
    — the proxy gives up the thread's own reference to `h` (an explicit unref, not a TLS destructor) — and returns NULL -/
def retUnstored (s : State) (t : Nat) (h : Nat) : Except Err State :=
  if ¬ canAct s t ∨ (s.thr t).proxy ≠ some h then .error .notEnabled else
  match unrefCore s h true with
  | .error e => .error e
  | .ok s1 => .ok { s1 with thr := upd s1.thr t { s1.thr t with phase := .finished } }

/-- `p_uthread_join` on a joinable handle when `pthread_join` returns an error (`p_uthread_wait_internal` only logs it):
    the call does not wait — whatever `ret_code` holds at that moment is returned; the native thread stays unjoined.
    (On a handle that is not joinable the native call is not made: that is the `join` event.) -/
def joinFail (s : State) (a : Nat) (h : Nat) : Except Err State :=
  if ¬ canAct s a ∨ ¬ h < s.nH ∨ (s.hdl h).written = false then .error .notEnabled else
  if (s.hdl h).freed then .error (.useAfterFree h) else
  if (s.hdl h).joinable = false then .error .notEnabled else
  .ok { s with joinLog := s.joinLog ++ [(a, h, (s.hdl h).retCode)] }

/-! ## thread end -/

/-- one native key at thread termination (POSIX): live key, destructor registered, value non-NULL →
    the value is set to NULL and the destructor runs on the old value.  The library key's destructor
    is `pp_uthread_cleanup` = `p_uthread_unref (value)`; a user key's is the notifier. -/
def dtorOne (t : Nat) (s : State) (n : Nat) : Except Err State :=
  if (s.nkey n).live = true ∧ (s.nkey n).dtor = true ∧ s.tls t n ≠ 0 then
    let s1 := { s with
      tls := upd2 s.tls t n 0
      dtorLog := s.dtorLog ++ [(t, (s.nkey n).owner, s.tls t n)] }
    if (s.nkey n).owner = 0 then unrefCore s1 (s.tls t n - 1) true else .ok s1
  else .ok s

def runDtors (t : Nat) : State → List Nat → Except Err State
  | s, [] => .ok s
  | s, n :: r =>
    match dtorOne t s n with
    | .error e => .error e
    | .ok s' => runDtors t s' r

def threadEnd (s : State) (t : Nat) : Except Err State :=
  if (s.thr t).phase ≠ .finished then .error .notEnabled else
  match runDtors t s (List.range s.nN) with
  | .error e => .error e
  | .ok s' => .ok { s' with thr := upd s'.thr t { s'.thr t with phase := .ended } }

/-! ## TLS keys -/

/-- `p_uthread_local_new` -/
def localNew (s : State) (a : Nat) (notif : Bool) : Except Err State :=
  if ¬ canAct s a then .error .notEnabled else
  .ok { s with nK := s.nK + 1, key := upd s.key s.nK { notifier := notif } }

/-- `p_uthread_local_free`: `if (key->key != NULL) { pthread_key_delete (*key->key); p_free (key->key); }`
    then `p_free (key)` -/
def localFree (s : State) (a : Nat) (k : Nat) : Except Err State :=
  if ¬ canAct s a ∨ k = 0 ∨ ¬ k < s.nK then .error .notEnabled else
  if (s.key k).wrapperFreed then .error (.keyUseAfterFree k) else
  match (s.key k).published with
  | none => .ok { s with key := upd s.key k { s.key k with wrapperFreed := true } }
  | some n =>
    .ok { s with
      nkey := upd s.nkey n { s.nkey n with
        live := (s.nkey n).live && !localFreeDeletesKey, blockFreed := (s.nkey n).blockFreed || localFreeFreesBlock }
      keyDelLog := s.keyDelLog ++ (if localFreeDeletesKey then [n] else [])
      blockFreeLog := s.blockFreeLog ++ (if localFreeFreesBlock then [n] else [])
      key := upd s.key k { s.key k with wrapperFreed := true } }

/-- slow path of `pp_uthread_get_tls_key`, first atomic step: `p_atomic_pointer_get` saw NULL;
    `p_malloc0 (sizeof (pthread_key_t))`; `pthread_key_create (thread_key, key->free_func)`.
    A thread still in its proxy can only be inside `p_uthread_set_local (library key)`. -/
def keyCreate (s : State) (t : Nat) (k : Nat) : Except Err State :=
  if ¬ (((s.thr t).phase = .running ∨ ((s.thr t).phase = .created ∧ k = 0)) ∧ (s.thr t).pend = none ∧ k < s.nK)
  then .error .notEnabled else
  if (s.key k).wrapperFreed then .error (.keyUseAfterFree k) else
  match (s.key k).published with
  | some _ => .error .notEnabled
  | none =>
    .ok { s with
      nN := s.nN + 1
      nkey := upd s.nkey s.nN { owner := k, dtor := (s.key k).notifier, live := true }
      thr := upd s.thr t { s.thr t with pend := some (k, s.nN) } }

/-- second atomic step: `p_atomic_pointer_compare_and_exchange (&key->key, NULL, thread_key)`.
    Winner: published.  Loser: `pthread_key_delete (*thread_key)`; `p_free (thread_key)`;
    `thread_key = key->key`. -/
def keyCas (s : State) (t : Nat) (k : Nat) : Except Err State :=
  match (s.thr t).pend with
  | none => .error .notEnabled
  | some (k', n) =>
    if k' ≠ k then .error .notEnabled else
    if (s.key k).wrapperFreed then .error (.keyUseAfterFree k) else
    match (s.key k).published with
    | none =>
      .ok { s with
        key := upd s.key k { s.key k with published := some n }
        thr := upd s.thr t { s.thr t with pend := none } }
    | some _ =>
      .ok { s with
        nkey := upd s.nkey n { s.nkey n with
          live := !casLoserDeletesKey, blockFreed := casLoserFreesBlock }
        keyDelLog := s.keyDelLog ++ (if casLoserDeletesKey then [n] else [])
        blockFreeLog := s.blockFreeLog ++ (if casLoserFreesBlock then [n] else [])
        key := upd s.key k { s.key k with losers := (s.key k).losers ++ [n] }
        thr := upd s.thr t { s.thr t with pend := none } }

/-- the notifier call both `set_local`/`replace_local` shapes may contain:
    `if (old_value != NULL && key->free_func != NULL) key->free_func (old_value)` -/
def notifyOld (s : State) (t : Nat) (k : Nat) (n : Nat) (enabled : Bool) : List (Nat × Nat × Nat) :=
  if enabled = true ∧ s.tls t n ≠ 0 ∧ (s.key k).notifier = true then [(t, k, s.tls t n)] else []

/-- `p_uthread_set_local` (user keys): `pthread_setspecific` -/
def setLocal (s : State) (t : Nat) (k : Nat) (v : Nat) : Except Err State :=
  if ¬ canAct s t ∨ k = 0 ∨ ¬ k < s.nK then .error .notEnabled else
  match resolve s k with
  | .error e => .error e
  | .ok n =>
    .ok { s with
      dtorLog := s.dtorLog ++ notifyOld s t k n setCallsNotifier
      tls := upd2 s.tls t n v }

/-- `p_uthread_replace_local`: notifier on the old non-NULL value, then `pthread_setspecific` -/
def replaceLocal (s : State) (t : Nat) (k : Nat) (v : Nat) : Except Err State :=
  if ¬ canAct s t ∨ k = 0 ∨ ¬ k < s.nK then .error .notEnabled else
  match resolve s k with
  | .error e => .error e
  | .ok n =>
    .ok { s with
      dtorLog := s.dtorLog ++ notifyOld s t k n replaceCallsNotifier
      tls := upd2 s.tls t n v }

/-- `p_uthread_set_local` / `p_uthread_replace_local` (`replace`) on a resolved key when `pthread_setspecific` returns an error
    (only `P_ERROR`): nothing is stored.  `p_uthread_replace_local` has by then already passed the old non-NULL value to the
    notifier — `key->free_func (old_value)` precedes the store — so the destroyed value stays in the slot. -/
def storeFail (s : State) (t : Nat) (k : Nat) (rep : Bool) : Except Err State :=
  if ¬ canAct s t ∨ k = 0 ∨ ¬ k < s.nK then .error .notEnabled else
  match resolve s k with
  | .error e => .error e
  | .ok n =>
    .ok { s with dtorLog := s.dtorLog ++ notifyOld s t k n (if rep then replaceCallsNotifier else setCallsNotifier) }

/-- `p_uthread_get_local` -/
def getLocal (s : State) (t : Nat) (k : Nat) : Except Err State :=
  if ¬ canAct s t ∨ k = 0 ∨ ¬ k < s.nK then .error .notEnabled else
  match resolve s k with
  | .error e => .error e
  | .ok n => .ok { s with getLog := s.getLog ++ [(t, k, s.tls t n)] }

/-- `p_uthread_set_local` / `p_uthread_replace_local` / `p_uthread_get_local` (`get`) on a user key without a native key
    when the `pthread_key_create` inside `pp_uthread_get_tls_key` fails: `p_malloc0 (sizeof (pthread_key_t))`;
    `pthread_key_create` ≠ 0; `p_free (thread_key)`; NULL — `set` / `replace` return without storing anything and without
    calling the notifier, `get` returns NULL.  Nothing is published, no native key exists, the block is gone. -/
def tlsFail (s : State) (t : Nat) (k : Nat) (get : Bool) : Except Err State :=
  if ¬ canAct s t ∨ k = 0 ∨ ¬ k < s.nK then .error .notEnabled else
  if (s.key k).wrapperFreed then .error (.keyUseAfterFree k) else
  match (s.key k).published with
  | some _ => .error .notEnabled
  | none => .ok (if get then { s with getLog := s.getLog ++ [(t, k, 0)] } else s)

/-- `p_uthread_current` of a thread without a stored handle when the lazy creation of the library key's native key keeps
    failing: `p_uthread_get_local` → NULL; `p_malloc0 (sizeof (PUThreadBase))`, `ref_count = 1`; `p_uthread_set_local` stores
    nothing; the read-back differs from the fresh block → `p_free (base_thread)`; NULL.  The block takes the next handle id:
    allocated and released inside the call (as in `createFail`).  (Whether the read-back's own attempt to create the native
    key succeeds is the separate `keyCreate`/`keyCas` pair.) -/
def currentFail (s : State) (t : Nat) : Except Err State :=
  if ¬ canAct s t then .error .notEnabled else
  if (s.key 0).wrapperFreed then .error (.keyUseAfterFree 0) else
  if valueOf s t 0 ≠ 0 then .error .notEnabled else
  .ok { s with
    nH := s.nH + 1
    hdl := upd s.hdl s.nH { freed := true, written := true }
    freeLog := s.freeLog ++ [s.nH] }

/-! ## library shutdown (the end of a history, not an event of the machine)

`p_uthread_init` is the initial state `init`: the library key's wrapper exists (`p_uthread_local_new
(pp_uthread_cleanup)`), its native key does not yet.  `p_uthread_shutdown`, called by thread `a`:
`cur_thread = p_uthread_get_local (pp_uthread_specific_data)` (which creates the native key if nobody has used
the library key so far — no other thread is inside that race at shutdown); `if (cur_thread != NULL)
{ p_uthread_unref (cur_thread); p_uthread_set_local (key, NULL); }`; `p_uthread_local_free (key)` — since the
repair of F12 this deletes the native key and frees its block; the creation spinlock is freed.  Nothing of the
thread API may be used afterwards, so the machine does not continue from the resulting state. -/

/-- the library key resolved by the single thread that shuts the library down -/
def shutdownResolve (s : State) : State × Nat :=
  match (s.key 0).published with
  | some n => (s, n)
  | none =>
    ({ s with
        nN := s.nN + 1
        nkey := upd s.nkey s.nN { owner := 0, dtor := (s.key 0).notifier, live := true }
        key := upd s.key 0 { s.key 0 with published := some s.nN } }, s.nN)

def shutdown (s : State) (a : Nat) : Except Err State :=
  if ¬ canAct s a then .error .notEnabled else
  if (s.key 0).wrapperFreed then .error (.keyUseAfterFree 0) else
  let r := shutdownResolve s
  let s1 := r.1
  let n := r.2
  match (if s1.tls a n ≠ 0 then
          (match unrefCore s1 (s1.tls a n - 1) true with
           | .ok s2 => Except.ok { s2 with tls := upd2 s2.tls a n 0 }
           | .error e => .error e)
         else .ok s1) with
  | .error e => .error e
  | .ok s3 =>
    .ok { s3 with
      nkey := upd s3.nkey n { s3.nkey n with
        live := (s3.nkey n).live && !localFreeDeletesKey, blockFreed := (s3.nkey n).blockFreed || localFreeFreesBlock }
      keyDelLog := s3.keyDelLog ++ (if localFreeDeletesKey then [n] else [])
      blockFreeLog := s3.blockFreeLog ++ (if localFreeFreesBlock then [n] else [])
      key := upd s3.key 0 { s3.key 0 with wrapperFreed := true } }

/-! ## the machine -/

def step (s : State) : Ev → Except Err State
  | .spawn => spawn s
  | .createBegin a j n => createBegin s a j n
  | .createEnd a => createEnd s a
  | .start t => start s t
  | .exit t c => exit s t c
  | .ret t => ret s t
  | .threadEnd t => threadEnd s t
  | .ref a h => ref s a h
  | .unref a h => unref s a h
  | .join a h => join s a h
  | .current t => current s t
  | .localNew a n => localNew s a n
  | .localFree a k => localFree s a k
  | .keyCreate t k => keyCreate s t k
  | .keyCas t k => keyCas s t k
  | .setLocal t k v => setLocal s t k v
  | .replaceLocal t k v => replaceLocal s t k v
  | .getLocal t k => getLocal s t k
  | .createFail a => createFail s a
  | .joinFail a h => joinFail s a h
  | .tlsFail t k g => tlsFail s t k g
  | .currentFail t => currentFail s t
  | .startUnstored t => startUnstored s t
  | .storeFail t k r => storeFail s t k r
  | .retUnstored t h => retUnstored s t h

def run : State → List Ev → Except Err State
  | s, [] => .ok s
  | s, e :: r =>
    match step s e with
    | .error x => .error x
    | .ok s' => run s' r

/-- reachable states: every event of the history was enabled and faulted nowhere -/
inductive Reach : State → Prop
  | init : Reach init
  | step {s s' : State} (e : Ev) : Reach s → step s e = .ok s' → Reach s'

/-! ## the reference discipline (a predicate on histories)

"Every holder uses only its own reference": an event that names a handle is *permitted* in a
state when
* `ref`, `join`: some user reference is outstanding (the caller's own: the pool of user references
  is not attributed to individual threads), or the caller is the thread the handle describes and is
  still running (its own reference, obtained from `p_uthread_current`);
* `unref`: a user reference is outstanding (the one being given up) — a thread never gives up the
  reference the library holds for it;
* `join` additionally is not issued twice for one handle (POSIX: undefined).
Events that do not name a handle are always permitted. -/
def Permitted (s : State) : Ev → Prop
  | .ref a h => 0 < (s.hdl h).userRefs ∨ ((s.hdl h).thread = a ∧ (s.hdl h).threadRef = true)
  | .join a h => (0 < (s.hdl h).userRefs ∨ ((s.hdl h).thread = a ∧ (s.hdl h).threadRef = true)) ∧ (s.hdl h).joined = false
  | .unref _ h => 0 < (s.hdl h).userRefs
  | .joinFail a h => (0 < (s.hdl h).userRefs ∨ ((s.hdl h).thread = a ∧ (s.hdl h).threadRef = true)) ∧ (s.hdl h).joined = false
  | _ => True

instance (s : State) (e : Ev) : Decidable (Permitted s e) := by
  cases e <;> simp only [Permitted] <;> exact inferInstance

/-- `Disciplined s es`: started in `s`, every event of `es` is permitted in the state it occurs in -/
def Disciplined : State → List Ev → Prop
  | _, [] => True
  | s, e :: r => Permitted s e ∧ (∀ s', step s e = .ok s' → Disciplined s' r)

/-- states reached by disciplined histories -/
inductive DReach : State → Prop
  | init : DReach init
  | step {s s' : State} (e : Ev) : DReach s → Permitted s e → step s e = .ok s' → DReach s'

theorem DReach.reach {s : State} (h : DReach s) : Reach s := by
  induction h with
  | init => exact .init
  | step e _ _ hs ih => exact .step e ih hs

end PV.UThread

import PV.Generated.Socket
/-!
# Model of `psocket.c` (C09, C10, socket part of C19)

Executable transliteration of the POSIX/`poll` configuration of `src/psocket.c`.

* `Sock` has exactly the fields of `struct PSocket_`.
* Every native call is taken from a **script** (`List Res`): each call pops one entry; the entry is
  tagged with the call it answers; running out of script is the terminal result `Stop.exhausted`
  and a tag that does not match the call made is `Stop.mismatch` — never a default.
* `errno` is threaded explicitly: a failing native call sets it, a succeeding one leaves it alone.
  (`p_socket_io_condition_wait` reads it after a `poll` that returned 0, i.e. a *stale* value; the
  model reproduces that and marks the error `stale`.)
* Every native call made is appended, with its arguments and the result it got, to the trace
  (`List Ev`); `Issued` is the log of the calls alone.
* Flags, constants and the errno → PErrorIO table come from `PV.Generated.Socket` (T5, T6).
* `p_socket_address_to_native` / `new_from_native` are opaque (C17 models them): an address
  argument is given by its native form, `new_from_native` is a scripted call whose arguments are logged.
* allocation never fails here (C18 covers that).
-/
namespace PV.Socket
open PV.Generated.Socket

abbrev Bytes := List UInt8

/-! ## environment -/

inductive Sys
  | socket | fcntl | setsockopt | getsockopt | getsockname | getpeername | bind | connect | listen
  | accept | recv | recvfrom | send | sendto | poll | shutdown | close | signal | fromNative
  deriving DecidableEq, Repr, Inhabited

/-- what a native call returns: a non-negative value, or −1 with `errno := e` -/
inductive Ret
  | ok (v : Nat)
  | err (e : Int)
  deriving DecidableEq, Repr, Inhabited

/-- one script entry = the environment's answer to one native call -/
structure Res where
  sys  : Sys
  ret  : Ret
  data : Bytes := []   -- recv / recvfrom: the bytes the kernel has for the buffer
  sa   : Bytes := []   -- getsockname / getpeername / recvfrom: sockaddr written, `*addrlen := sa.length`
  val  : Int := 0      -- getsockopt: value written
  len  : Int := 4      -- getsockopt: `*optlen` written
  deriving DecidableEq, Repr, Inhabited

def Res.failed (r : Res) : Bool := match r.ret with | .err _ => true | .ok _ => false

/-- log entry: a native call with its arguments -/
inductive Issued
  | socket (domain type proto : Int)
  | fcntl (fd cmd arg : Int)
  | setsockopt (fd level opt val len : Int)
  | getsockopt (fd level opt len : Int)
  | getsockname (fd len : Int)
  | getpeername (fd len : Int)
  | bind (fd : Int) (sa : Bytes) (len : Int)
  | connect (fd : Int) (sa : Bytes) (len : Int)
  | listen (fd backlog : Int)
  | accept (fd : Int)                                   -- `accept (fd, NULL, 0)`
  | recv (fd off len flags : Int)                       -- `off` = buffer pointer − caller's buffer
  | recvfrom (fd off len flags salen : Int)
  | send (fd off len flags : Int) (data : Bytes)
  | sendto (fd off len flags : Int) (data : Bytes) (sa : Bytes) (salen : Int)
  | poll (fd events timeout nfds : Int)
  | shutdown (fd how : Int)
  | close (fd : Int)
  | signal (sig : Int) (ign : Bool)
  | fromNative (sa : Bytes) (len : Int)                 -- `p_socket_address_new_from_native (&sa, len)`
  deriving DecidableEq, Repr, Inhabited

def Issued.sys : Issued → Sys
  | .socket .. => .socket | .fcntl .. => .fcntl | .setsockopt .. => .setsockopt
  | .getsockopt .. => .getsockopt | .getsockname .. => .getsockname | .getpeername .. => .getpeername
  | .bind .. => .bind | .connect .. => .connect | .listen .. => .listen | .accept .. => .accept
  | .recv .. => .recv | .recvfrom .. => .recvfrom | .send .. => .send | .sendto .. => .sendto
  | .poll .. => .poll | .shutdown .. => .shutdown | .close .. => .close | .signal .. => .signal
  | .fromNative .. => .fromNative

/-- the descriptor a native call carries (none for `socket`, `signal`, `fromNative`) -/
def Issued.fd? : Issued → Option Int
  | .socket .. => none | .signal .. => none | .fromNative .. => none
  | .fcntl fd .. => some fd | .setsockopt fd .. => some fd | .getsockopt fd .. => some fd
  | .getsockname fd .. => some fd | .getpeername fd .. => some fd | .bind fd .. => some fd
  | .connect fd .. => some fd | .listen fd .. => some fd | .accept fd => some fd
  | .recv fd .. => some fd | .recvfrom fd .. => some fd | .send fd .. => some fd
  | .sendto fd .. => some fd | .poll fd .. => some fd | .shutdown fd .. => some fd | .close fd => some fd

/-- trace entry: call and the answer it got -/
structure Ev where
  call : Issued
  res  : Res
  deriving DecidableEq, Repr, Inhabited

inductive Stop
  | exhausted
  | mismatch (called got : Sys)
  | fault (what : String)
  deriving DecidableEq, Repr, Inhabited

/-- environment state: what is left of the script, and `errno` -/
structure St where
  script : List Res
  errno  : Int := 0
  deriving Repr, Inhabited

/-- outcome of a computation: value, new state and the native calls it made (in order) — or a `Stop` -/
inductive Step (α : Type)
  | ok (a : α) (st : St) (evs : List Ev)
  | stop (why : Stop)

/-- state (script, errno) + write-only trace -/
def M (α : Type) := St → Step α

@[inline] def M.pure {α} (a : α) : M α := fun st => .ok a st []
@[inline] def M.bind {α β} (m : M α) (f : α → M β) : M β := fun st =>
  match m st with
  | .ok a st' evs =>
    match f a st' with
    | .ok b st'' evs' => .ok b st'' (evs ++ evs')
    | .stop w => .stop w
  | .stop w => .stop w

instance : Monad M where
  pure := M.pure
  bind := M.bind

/-- one native call: pop the script, set `errno` on failure, log -/
def sys (c : Issued) : M Res := fun st =>
  match st.script with
  | [] => .stop .exhausted
  | r :: s =>
    if r.sys = c.sys then
      .ok r { script := s, errno := (match r.ret with | .err e => e | .ok _ => st.errno) } [⟨c, r⟩]
    else .stop (.mismatch c.sys r.sys)

def getErrno : M Int := fun st => .ok st.errno st []
def stopWith {α} (w : Stop) : M α := fun _ => .stop w

/-! ## errors -/

structure PErr where
  code   : Int
  native : Int
  msg    : String
  /-- ghost: `native` was read from `errno` although the preceding native call had not failed -/
  stale  : Bool := false
  deriving DecidableEq, Repr, Inhabited

def ioFromSystem (e : Int) : Int := (errnoTable.lookup e).getD errnoDefault

/-- `p_error_set_error_p (error, p_error_get_io_from_system (p_error_get_last_net ()), p_error_get_last_net (), msg)` -/
def errnoErr (msg : String) (stale : Bool := false) : M PErr := fun st =>
  .ok { code := ioFromSystem st.errno, native := st.errno, msg := msg, stale := stale } st []

def invalidArg (msg : String := "Invalid input argument") : PErr :=
  { code := P_ERROR_IO_INVALID_ARGUMENT, native := 0, msg := msg }

/-! ## the socket object -/

structure Sock where
  family         : Int := 0
  protocol       : Int := 0
  type           : Int := 0
  fd             : Int := 0
  listen_backlog : Int := 0
  timeout        : Int := 0
  blocking       : Bool := false
  keepalive      : Bool := false
  closed         : Bool := false
  connected      : Bool := false
  listening      : Bool := false
  deriving DecidableEq, Repr, Inhabited

def P_SOCKET_TYPE_STREAM : Int := 1
def P_SOCKET_TYPE_DATAGRAM : Int := 2
def P_SOCKET_TYPE_SEQPACKET : Int := 3
def P_SOCKET_PROTOCOL_UNKNOWN : Int := -1
def P_SOCKET_PROTOCOL_TCP : Int := 6
def P_SOCKET_PROTOCOL_UDP : Int := 17
def P_SOCKET_PROTOCOL_SCTP : Int := 132
def P_SOCKET_DIRECTION_RCV : Int := 1
def P_SOCKET_IO_CONDITION_POLLIN : Int := 1
def P_SOCKET_IO_CONDITION_POLLOUT : Int := 2

/-- address argument: NULL, an object `to_native` rejects, or its native form -/
inductive Addr
  | null
  | bad
  | native (sa : Bytes)
  deriving DecidableEq, Repr, Inhabited

/-- `pp_socket_check` -/
def check (s : Sock) : Option PErr :=
  if s.closed then some { code := P_ERROR_IO_NOT_AVAILABLE, native := 0, msg := "Socket is already closed" } else none

/-- `(socklen_t) buflen` -/
def toSocklen (n : Nat) : Int := Int.ofNat (n % 2 ^ 32)
/-- `(pint) size` -/
def toInt32 (n : Nat) : Int :=
  let m := n % 2 ^ 32
  if m < 2 ^ 31 then Int.ofNat m else Int.ofNat m - 2 ^ 32

def b2i (b : Bool) : Int := if b then 1 else 0

/-! ## `pp_socket_set_fd_blocking` -/

def setFdBlocking (fd : Int) (blocking : Bool) : M (Option PErr) := do
  let r ← sys (.fcntl fd F_GETFL 0)
  let arg : Nat := match r.ret with
    | .err _ => 0            -- P_WARNING, arg = 0
    | .ok v => v
  let arg := if !blocking then arg ||| O_NONBLOCK.toNat else arg ^^^ (arg &&& O_NONBLOCK.toNat)
  let r2 ← sys (.fcntl fd F_SETFL arg)
  if r2.failed then
    let e ← errnoErr "Failed to set socket blocking flags"
    return some e
  else return none

/-! ## `pp_socket_set_details_from_fd` -/

def typeOfNative (v : Int) : Int :=
  if v = SOCK_STREAM then P_SOCKET_TYPE_STREAM
  else if v = SOCK_DGRAM then P_SOCKET_TYPE_DATAGRAM
  else if v = SOCK_SEQPACKET then P_SOCKET_TYPE_SEQPACKET
  else 0

def ssFamily (sa : Bytes) : Option Int :=
  match sa with
  | a :: b :: _ => some (Int.ofNat (a.toNat + 256 * b.toNat))
  | _ => none

def protoOfType (t : Int) (old : Int) : Int :=
  if t = P_SOCKET_TYPE_STREAM then P_SOCKET_PROTOCOL_TCP
  else if t = P_SOCKET_TYPE_DATAGRAM then P_SOCKET_PROTOCOL_UDP
  else if t = P_SOCKET_TYPE_SEQPACKET then P_SOCKET_PROTOCOL_SCTP
  else old

def setDetailsFromFd (s : Sock) : M (Sock × Option PErr) := do
  let fd := s.fd
  let r ← sys (.getsockopt fd SOL_SOCKET SO_TYPE 4)
  if r.ret ≠ .ok 0 then
    let e ← errnoErr "Failed to call getsockopt() to get socket info for fd" (!r.failed)
    return (s, some e)
  if r.len ≠ 4 then
    return (s, some (invalidArg "Failed to get socket info for fd, bad option length"))
  let s := { s with type := typeOfNative r.val }
  let r2 ← sys (.getsockname fd sizeofSockaddrStorage)
  if r2.ret ≠ .ok 0 then
    let e ← errnoErr "Failed to call getsockname() to get socket address info" (!r2.failed)
    return (s, some e)
  let go (s : Sock) : M (Sock × Option PErr) := do
    match ssFamily r2.sa with
    | none => stopWith (.fault "address.ss_family is read but getsockname() wrote fewer than 2 bytes")
    | some f =>
      let fam := if f = AF_INET then AF_INET else if f = AF_INET6 then AF_INET6 else 0
      let s := { s with family := fam }
      let s := if fam = AF_INET6 ∨ fam = AF_INET then { s with protocol := protoOfType s.type s.protocol } else s
      let s ← (if fam ≠ 0 then do
                  let r4 ← sys (.getpeername fd sizeofSockaddrStorage)
                  pure (if r4.failed then s else { s with connected := true })
               else pure s)
      let r5 ← sys (.getsockopt fd SOL_SOCKET SO_KEEPALIVE 4)
      if r5.ret = .ok 0 then return ({ s with keepalive := r5.val ≠ 0 }, none)
      else return ({ s with keepalive := false }, none)
  if r2.sa.length = 0 then
    let r3 ← sys (.getsockopt fd SOL_SOCKET SO_DOMAIN 4)
    if r3.ret ≠ .ok 0 then
      let e ← errnoErr "Failed to call getsockopt() to get socket SO_DOMAIN option" (!r3.failed)
      return (s, some e)
    go s
  else go s

/-! ## close / free -/

/-- `p_socket_close` -/
def close (s : Sock) : M (Sock × Option PErr × Bool) := do
  if s.closed then return (s, none, true)
  let r ← sys (.close s.fd)
  if r.ret = .ok 0 then
    return ({ s with connected := false, closed := true, listening := false, fd := -1 }, none, true)
  else
    let e ← errnoErr "Failed to close socket" (!r.failed)
    return (s, some e, false)

/-- `p_socket_free`: `p_socket_close (socket, NULL)` then the memory is released -/
def free (s : Sock) : M Unit := do
  let _ ← close s
  return ()

/-! ## constructors -/

/-- the `F_GETFD` / `F_SETFD (flags | FD_CLOEXEC)` block of `p_socket_new` and `p_socket_accept` -/
def fdCloexecBlock (present : Bool) (fd getCmd mask or_ setCmd : Int) : M Unit := do
  if present then
    let r ← sys (.fcntl fd getCmd 0)
    match r.ret with
    | .err _ => return ()                 -- flags == −1
    | .ok v =>
      if v &&& mask.toNat = 0 then
        let _ ← sys (.fcntl fd setCmd (Int.ofNat (v ||| or_.toNat)))   -- failure: P_WARNING only
        return ()
      else return ()
  else return ()

/-- `p_socket_new_from_fd` -/
def newFromFd (fd : Int) : M (Option Sock × Option PErr) := do
  if fd < 0 then
    return (none, some (invalidArg "Unable to create socket from bad fd"))
  let s : Sock := { fd := fd }
  let (s, e) ← setDetailsFromFd s
  match e with
  | some e => return (none, some e)
  | none =>
    match (← setFdBlocking s.fd false) with
    | some e => return (none, some e)
    | none =>
      -- p_socket_set_listen_backlog (ret, P_SOCKET_DEFAULT_BACKLOG)
      let s := if s.listening then s else { s with listen_backlog := defaultBacklog }
      return (some { s with timeout := 0, blocking := true }, none)

/-- `p_socket_new` -/
def new (family type protocol : Int) : M (Option Sock × Option PErr) := do
  if family = 0 ∨ type = 0 ∨ protocol = P_SOCKET_PROTOCOL_UNKNOWN then
    return (none, some (invalidArg "Invalid input socket family, type or protocol"))
  let nt : Option Int :=
    if type = P_SOCKET_TYPE_STREAM then some SOCK_STREAM
    else if type = P_SOCKET_TYPE_DATAGRAM then some SOCK_DGRAM
    else if type = P_SOCKET_TYPE_SEQPACKET then some SOCK_SEQPACKET
    else none
  match nt with
  | none => return (none, some (invalidArg "Unable to create socket with unknown family"))
  | some nt =>
    let nt := Int.ofNat (nt.toNat ||| newSocketTypeOr.toNat)
    let r ← sys (.socket family nt protocol)
    match r.ret with
    | .err _ =>
      let e ← errnoErr "Failed to call socket() to create socket"
      return (none, some e)
    | .ok v =>
      let fd : Int := Int.ofNat v
      fdCloexecBlock newFdCloexecBlock fd newGetCmd newMask newOr newSetCmd
      let s : Sock := { fd := fd }
      match (← setFdBlocking fd false) with
      | some e =>
        free s
        return (none, some e)
      | none =>
        let s := { s with timeout := 0, blocking := true, family := family, protocol := protocol, type := type }
        let s := if s.listening then s else { s with listen_backlog := defaultBacklog }
        return (some s, none)

/-! ## `p_socket_io_condition_wait` and the retry loops -/

def pollTimeout (s : Sock) : Int := if s.timeout > 0 then s.timeout else -1
def pollEvents (cond : Int) : Int := if cond = P_SOCKET_IO_CONDITION_POLLIN then pollEventsIn else pollEventsOut

def msgTimedOut := "Timed out while waiting socket condition"
def msgPollFailed := "Failed to call poll() on socket"

inductive LoopEnd
  | done (r : Res)          -- the call being retried came back without error
  | fail (e : PErr)
  | stop (why : Stop)
  deriving DecidableEq, Repr, Inhabited

structure LoopR where
  fin   : LoopEnd
  evs   : List Ev
  rest  : List Res
  errno : Int
  deriving Repr, Inhabited

def LoopR.cons (ev : Ev) (r : LoopR) : LoopR := { r with evs := ev :: r.evs }

/-- what one `poll` answer means to the `while (TRUE)` loop of `p_socket_io_condition_wait` -/
inductive PollStep
  | again (errno : Int)       -- −1 / EINTR: `continue`
  | ready                     -- 1
  | fail (e : PErr) (errno : Int)
  deriving DecidableEq, Repr

def pollStep (r : Res) (errno : Int) : PollStep :=
  match r.ret with
  | .err e => if e = EINTR then .again e
              else .fail { code := ioFromSystem e, native := e, msg := msgPollFailed } e
  | .ok v => if v = 1 then .ready
             else if v = 0 then .fail { code := P_ERROR_IO_TIMED_OUT, native := errno, msg := msgTimedOut, stale := true } errno
             else .fail { code := ioFromSystem errno, native := errno, msg := msgPollFailed, stale := true } errno

/-- the `while (TRUE) { evret = poll (&pfd, 1, timeout); … }` loop; `done` = returned TRUE -/
def pollLoop (call : Issued) : List Res → Int → LoopR
  | [], e => ⟨.stop .exhausted, [], [], e⟩
  | r :: s, e =>
    if r.sys ≠ .poll then ⟨.stop (.mismatch .poll r.sys), [], r :: s, e⟩
    else match pollStep r e with
      | .again e' => (pollLoop call s e').cons ⟨call, r⟩
      | .ready => ⟨.done r, [⟨call, r⟩], s, e⟩
      | .fail pe e' => ⟨.fail pe, [⟨call, r⟩], s, e'⟩

def pollCall (s : Sock) (cond : Int) : Issued := .poll s.fd (pollEvents cond) (pollTimeout s) 1

def liftLoop (l : List Res → Int → LoopR) : M (Except PErr Res) := fun st =>
  let r := l st.script st.errno
  match r.fin with
  | .stop w => .stop w
  | .done x => .ok (.ok x) { script := r.rest, errno := r.errno } r.evs
  | .fail e => .ok (.error e) { script := r.rest, errno := r.errno } r.evs

/-- `p_socket_io_condition_wait` -/
def ioWait (s : Sock) (cond : Int) : M (Option PErr) := do
  match check s with
  | some e => return some e
  | none =>
    match (← liftLoop (pollLoop (pollCall s cond))) with
    | .ok _ => return none
    | .error e => return some e

/-- configuration of one `for (;;) { if (blocking && !wait) return; if (call () < 0) {…} break; }` loop -/
structure LoopCfg where
  blocking : Bool
  poll     : Issued     -- the `poll` issued by `p_socket_io_condition_wait`
  call     : Issued     -- the data call (same arguments on every iteration)
  failMsg  : String

inductive Phase | wait | data
  deriving DecidableEq, Repr

/-- what one answer of the data call means to the `for (;;)` loop -/
inductive DataStep
  | done
  | again (errno : Int)       -- EINTR, or would-block in blocking mode: `continue`
  | fail (e : PErr) (errno : Int)
  deriving DecidableEq, Repr

def dataStep (c : LoopCfg) (r : Res) : DataStep :=
  match r.ret with
  | .ok _ => .done
  | .err e =>
    if e = EINTR then .again e
    else if c.blocking ∧ ioFromSystem e = P_ERROR_IO_WOULD_BLOCK then .again e
    else .fail { code := ioFromSystem e, native := e, msg := c.failMsg } e

/-- the retry loop of receive / receive_from / send / send_to / accept, flattened into a state
    machine with one native call per step (phase `wait` = inside `p_socket_io_condition_wait`,
    phase `data` = at the data call).  Every step consumes exactly one script entry. -/
def ioLoop (c : LoopCfg) : Phase → List Res → Int → LoopR
  | _, [], e => ⟨.stop .exhausted, [], [], e⟩
  | .wait, r :: s, e =>
    if r.sys ≠ .poll then ⟨.stop (.mismatch .poll r.sys), [], r :: s, e⟩
    else match pollStep r e with
      | .again e' => (ioLoop c .wait s e').cons ⟨c.poll, r⟩
      | .ready => (ioLoop c .data s e).cons ⟨c.poll, r⟩
      | .fail pe e' => ⟨.fail pe, [⟨c.poll, r⟩], s, e'⟩
  | .data, r :: s, e =>
    if r.sys ≠ c.call.sys then ⟨.stop (.mismatch c.call.sys r.sys), [], r :: s, e⟩
    else match dataStep c r with
      | .done => ⟨.done r, [⟨c.call, r⟩], s, e⟩
      | .again e' => (ioLoop c (if c.blocking then .wait else .data) s e').cons ⟨c.call, r⟩
      | .fail pe e' => ⟨.fail pe, [⟨c.call, r⟩], s, e'⟩

def startPhase (c : LoopCfg) : Phase := if c.blocking then .wait else .data

def runLoop (c : LoopCfg) : M (Except PErr Res) := liftLoop (ioLoop c (startPhase c))

def loopCfg (s : Sock) (cond : Int) (call : Issued) (msg : String) : LoopCfg :=
  { blocking := s.blocking, poll := pollCall s cond, call := call, failMsg := msg }

/-! ## data calls -/

/-- result of an API call -/
structure Outcome where
  /-- return value: pboolean as 0/1, pssize, pointer as 0 (NULL) / 1 -/
  ret  : Int
  err  : Option PErr := none
  /-- bytes the call put into the caller's buffer -/
  data : Bytes := []
  /-- arguments of the `new_from_native` call whose result was handed to the caller -/
  addr : Option (Bytes × Int) := none
  /-- the socket object created -/
  sock : Option Sock := none
  deriving DecidableEq, Repr, Inhabited

def failOut (ret : Int) (e : PErr) : Outcome := { ret := ret, err := some e }

def recvCall (s : Sock) (buflen : Nat) : Issued := .recv s.fd 0 (toSocklen buflen) recvFlags
def recvfromCall (s : Sock) (buflen : Nat) : Issued := .recvfrom s.fd 0 (toSocklen buflen) recvfromFlags sizeofSockaddrStorage
def sendCall (s : Sock) (buf : Bytes) (buflen : Nat) : Issued :=
  .send s.fd 0 (toSocklen buflen) sendFlags (buf.take (toSocklen buflen).toNat)
def sendtoCall (s : Sock) (sa : Bytes) (buf : Bytes) (buflen : Nat) : Issued :=
  .sendto s.fd 0 (toSocklen buflen) sendtoFlags (buf.take (toSocklen buflen).toNat) sa (Int.ofNat sa.length)

/-- bytes that reach the caller's buffer for a native result `ok n` with kernel data `d` -/
def delivered (r : Res) (len : Int) : Bytes :=
  match r.ret with
  | .ok n => r.data.take (min n len.toNat)
  | .err _ => []

def retVal (r : Res) : Int := match r.ret with | .ok n => Int.ofNat n | .err _ => -1

/-- `p_socket_receive` -/
def receive (s : Sock) (bufNull : Bool) (buflen : Nat) : M Outcome := do
  if bufNull then return failOut (-1) invalidArg
  match check s with
  | some e => return failOut (-1) e
  | none =>
    match (← runLoop (loopCfg s P_SOCKET_IO_CONDITION_POLLIN (recvCall s buflen) "Failed to call recv() on socket")) with
    | .error e => return failOut (-1) e
    | .ok r => return { ret := retVal r, data := delivered r (toSocklen buflen) }

/-- `p_socket_receive_from` -/
def receiveFrom (s : Sock) (wantAddr bufNull : Bool) (buflen : Nat) : M Outcome := do
  if bufNull ∨ buflen = 0 then return failOut (-1) invalidArg
  match check s with
  | some e => return failOut (-1) e
  | none =>
    match (← runLoop (loopCfg s P_SOCKET_IO_CONDITION_POLLIN (recvfromCall s buflen) "Failed to call recvfrom() on socket")) with
    | .error e => return failOut (-1) e
    | .ok r =>
      let out : Outcome := { ret := retVal r, data := delivered r (toSocklen buflen) }
      if wantAddr then
        let sa := r.sa.take sizeofSockaddrStorage.toNat
        let a ← sys (.fromNative sa (Int.ofNat r.sa.length))
        -- `*address` is whatever new_from_native returned (possibly NULL); no error is set
        return { out with addr := if a.ret = .ok 0 then none else some (sa, Int.ofNat r.sa.length) }
      else return out

/-- `p_socket_send` -/
def send (s : Sock) (buf : Option Bytes) (buflen : Nat) : M Outcome := do
  match buf with
  | none => return failOut (-1) invalidArg
  | some b =>
    if buflen = 0 then return failOut (-1) invalidArg
    match check s with
    | some e => return failOut (-1) e
    | none =>
      match (← runLoop (loopCfg s P_SOCKET_IO_CONDITION_POLLOUT (sendCall s b buflen) "Failed to call send() on socket")) with
      | .error e => return failOut (-1) e
      | .ok r => return { ret := retVal r }

/-- `p_socket_send_to` -/
def sendTo (s : Sock) (addr : Addr) (buf : Option Bytes) (buflen : Nat) : M Outcome := do
  match addr, buf with
  | .null, _ => return failOut (-1) invalidArg
  | _, none => return failOut (-1) invalidArg
  | a, some b =>
    match check s with
    | some e => return failOut (-1) e
    | none =>
      match a with
      | .native sa =>
        match (← runLoop (loopCfg s P_SOCKET_IO_CONDITION_POLLOUT (sendtoCall s sa b buflen) "Failed to call sendto() on socket")) with
        | .error e => return failOut (-1) e
        | .ok r => return { ret := retVal r }
      | _ => return failOut (-1) { code := P_ERROR_IO_FAILED, native := 0, msg := "Failed to convert socket address to native structure" }

/-- `p_socket_accept` -/
def accept (s : Sock) : M Outcome := do
  match check s with
  | some e => return failOut 0 e
  | none =>
    match (← runLoop (loopCfg s P_SOCKET_IO_CONDITION_POLLIN (.accept s.fd) "Failed to call accept() on socket")) with
    | .error e => return failOut 0 e
    | .ok r =>
      let res := retVal r
      fdCloexecBlock acceptFdCloexecBlock res acceptGetCmd acceptMask acceptOr acceptSetCmd
      let (ns, e) ← newFromFd res
      match ns with
      | none =>
        let _ ← sys (.close res)          -- p_sys_close (res); failure: P_WARNING only
        return { ret := 0, err := e }
      | some ns => return { ret := 1, sock := some { ns with protocol := s.protocol } }

/-! ## connect -/

/-- the `for (;;) { conn_result = connect (…); if (conn_result == 0) break; … EINTR → continue }` loop.
    `done` = left the loop; the entry that ended it is returned. -/
def connLoop (call : Issued) : List Res → Int → LoopR
  | [], e => ⟨.stop .exhausted, [], [], e⟩
  | r :: s, e =>
    if r.sys ≠ .connect then ⟨.stop (.mismatch .connect r.sys), [], r :: s, e⟩
    else
      let e' := match r.ret with | .err x => x | .ok _ => e
      if r.ret = .ok 0 then ⟨.done r, [⟨call, r⟩], s, e'⟩
      else if e' = EINTR then (connLoop call s e').cons ⟨call, r⟩
      else ⟨.done r, [⟨call, r⟩], s, e'⟩

/-- `p_socket_check_connect_result` -/
def checkConnectResult (s : Sock) : M (Sock × Outcome) := do
  let r ← sys (.getsockopt s.fd SOL_SOCKET SO_ERROR 4)
  if r.failed then
    let e ← errnoErr "Failed to call getsockopt() to get connection status"
    return (s, failOut 0 e)
  let val := r.val
  let s' := { s with connected := val = 0 }
  if val ≠ 0 then
    return (s', failOut 0 { code := ioFromSystem val, native := val, msg := "Error in socket layer" })
  else return (s', { ret := 1 })

def msgConnNonBlock := "Couldn't block non-blocking socket"
def msgConnFailed := "Failed to call connect() on socket"

/-- `p_socket_connect` -/
def connect (s : Sock) (addr : Addr) : M (Sock × Outcome) := do
  match addr with
  | .null => return (s, failOut 0 invalidArg)
  | a =>
    match check s with
    | some e => return (s, failOut 0 e)
    | none =>
      match a with
      | .native sa =>
        match (← liftLoop (connLoop (.connect s.fd sa (Int.ofNat sa.length)))) with
        | .error e => return (s, failOut 0 e)    -- unreachable: connLoop never fails
        | .ok r =>
          if r.ret = .ok 0 then return ({ s with connected := true }, { ret := 1 })
          let errCode ← getErrno
          let sockErr := ioFromSystem errCode
          if sockErr = P_ERROR_IO_WOULD_BLOCK ∨ sockErr = P_ERROR_IO_IN_PROGRESS then
            if s.blocking then
              match (← ioWait s P_SOCKET_IO_CONDITION_POLLOUT) with
              | some e => return (s, failOut 0 e)
              | none =>
                let (s', o) ← checkConnectResult s
                if o.ret = 1 then return ({ s' with connected := true }, { ret := 1 })
                else return (s', o)
            else
              return (s, failOut 0 { code := sockErr, native := errCode, msg := msgConnNonBlock, stale := !r.failed })
          else
            return (s, failOut 0 { code := sockErr, native := errCode, msg := msgConnFailed, stale := !r.failed })
      | _ => return (s, failOut 0 { code := P_ERROR_IO_FAILED, native := 0, msg := "Failed to convert socket address to native structure" })

/-! ## the remaining calls -/

/-- `p_socket_bind` -/
def bind (s : Sock) (addr : Addr) (reuse : Bool) : M Outcome := do
  match addr with
  | .null => return failOut 0 invalidArg
  | a =>
    match check s with
    | some e => return failOut 0 e
    | none =>
      let _ ← sys (.setsockopt s.fd SOL_SOCKET SO_REUSEADDR (b2i reuse) 4)
      let _ ← sys (.setsockopt s.fd SOL_SOCKET SO_REUSEPORT (b2i (reuse && s.type = P_SOCKET_TYPE_DATAGRAM)) 4)
      match a with
      | .native sa =>
        let r ← sys (.bind s.fd sa (Int.ofNat sa.length))
        if r.failed then
          let e ← errnoErr "Failed to call bind() on socket"
          return failOut 0 e
        else return { ret := 1 }
      | _ => return failOut 0 { code := P_ERROR_IO_FAILED, native := 0, msg := "Failed to convert socket address to native structure" }

/-- `p_socket_listen` -/
def listen (s : Sock) : M (Sock × Outcome) := do
  match check s with
  | some e => return (s, failOut 0 e)
  | none =>
    let r ← sys (.listen s.fd s.listen_backlog)
    if r.failed then
      let e ← errnoErr "Failed to call listen() on socket"
      return (s, failOut 0 e)
    else return ({ s with listening := true }, { ret := 1 })

/-- `p_socket_shutdown` -/
def shutdown (s : Sock) (rd wr : Bool) : M (Sock × Outcome) := do
  match check s with
  | some e => return (s, failOut 0 e)
  | none =>
    if !rd && !wr then return (s, { ret := 1 })
    let how := if rd && wr then SHUT_RDWR else if rd then SHUT_RD else SHUT_WR
    let r ← sys (.shutdown s.fd how)
    if r.ret ≠ .ok 0 then
      let e ← errnoErr "Failed to call shutdown() on socket" (!r.failed)
      return (s, failOut 0 e)
    else return (if rd && wr then { s with connected := false } else s, { ret := 1 })

/-- the two `pboolean` (= `int`) arguments of `p_socket_shutdown` as the code reads them:
    `shutdown_read = !! shutdown_read; shutdown_write = !! shutdown_write;` right after `pp_socket_check` — every non-zero
    value is TRUE (pinned by `Generated.Socket.shutdownAsModelled`).  Result: the (read, write) pair `shutdown` above is run with.
    (Before the repair recorded in known_findings.json the arguments were compared with `== TRUE` as they came: a non-zero value
    other than 1 was neither FALSE nor TRUE — `shutdownArgsHistorical` in `PV.Props.C10` §7.) -/
def shutdownArgs (rd wr : Int) : Bool × Bool := (decide (rd ≠ 0), decide (wr ≠ 0))

/-- `p_socket_set_buffer_size` -/
def setBufferSize (s : Sock) (dir : Int) (size : Nat) : M Outcome := do
  match check s with
  | some e => return failOut 0 e
  | none =>
    let opt := if dir = P_SOCKET_DIRECTION_RCV then SO_RCVBUF else SO_SNDBUF
    let r ← sys (.setsockopt s.fd SOL_SOCKET opt (toInt32 size) 4)
    if r.ret ≠ .ok 0 then
      let e ← errnoErr "Failed to call setsockopt() on socket to set buffer size" (!r.failed)
      return failOut 0 e
    else return { ret := 1 }

/-- `p_socket_set_keepalive` -/
def setKeepalive (s : Sock) (k : Bool) : M Sock := do
  if s.keepalive = k then return s
  let r ← sys (.setsockopt s.fd SOL_SOCKET SO_KEEPALIVE (b2i k) 4)
  if r.failed then return s else return { s with keepalive := k }

def setBlocking (s : Sock) (b : Bool) : Sock := { s with blocking := b }
def setListenBacklog (s : Sock) (n : Int) : Sock := if s.listening then s else { s with listen_backlog := n }
def setTimeout (s : Sock) (t : Int) : Sock := { s with timeout := if t < 0 then 0 else t }

/-- `p_socket_get_local_address` / `p_socket_get_remote_address` -/
def getAddress (s : Sock) (remote : Bool) : M Outcome := do
  let r ← sys (if remote then .getpeername s.fd sizeofSockaddrStorage else .getsockname s.fd sizeofSockaddrStorage)
  if r.failed then
    let e ← errnoErr (if remote then "Failed to call getpeername() to get remote socket address"
                      else "Failed to call getsockname() to get local socket address")
    return failOut 0 e
  let sa := r.sa.take sizeofSockaddrStorage.toNat
  let a ← sys (.fromNative sa (Int.ofNat r.sa.length))
  if a.ret = .ok 0 then
    return failOut 0 { code := P_ERROR_IO_FAILED, native := 0, msg := "Failed to create socket address from native structure" }
  else return { ret := 1, addr := some (sa, Int.ofNat r.sa.length) }

/-- `p_socket_init_once` -/
def initOnce : M Unit := do
  if initOnceIgnores then
    let _ ← sys (.signal initOnceSignal true)
    return ()
  else return ()

/-! ## one entry point for every call on an existing socket -/

inductive Call
  | bind (addr : Addr) (reuse : Bool)
  | connect (addr : Addr)
  | listen
  | accept
  | receive (bufNull : Bool) (buflen : Nat)
  | receiveFrom (wantAddr bufNull : Bool) (buflen : Nat)
  | send (buf : Option Bytes) (buflen : Nat)
  | sendTo (addr : Addr) (buf : Option Bytes) (buflen : Nat)
  | close
  | shutdown (rd wr : Bool)
  | setBufferSize (dir : Int) (size : Nat)
  | ioWait (cond : Int)
  | checkConnectResult
  | setKeepalive (b : Bool)
  | setBlocking (b : Bool)
  | setBacklog (n : Int)
  | setTimeout (n : Int)
  | getLocal
  | getRemote
  deriving DecidableEq, Repr, Inhabited

/-- the calls that start with `pp_socket_check` -/
def Call.guarded : Call → Bool
  | .bind .. | .connect .. | .listen | .accept | .receive .. | .receiveFrom .. | .send .. | .sendTo ..
  | .shutdown .. | .setBufferSize .. | .ioWait .. => true
  | _ => false

def voidOut : Outcome := { ret := 1 }

def callM (s : Sock) : Call → M (Sock × Outcome)
  | .bind a r => do let o ← bind s a r; return (s, o)
  | .connect a => connect s a
  | .listen => listen s
  | .accept => do let o ← accept s; return (s, o)
  | .receive bn n => do let o ← receive s bn n; return (s, o)
  | .receiveFrom w bn n => do let o ← receiveFrom s w bn n; return (s, o)
  | .send b n => do let o ← send s b n; return (s, o)
  | .sendTo a b n => do let o ← sendTo s a b n; return (s, o)
  | .close => do
      let (s', e, ok) ← close s
      return (s', { ret := b2i ok, err := e })
  | .shutdown r w => shutdown s r w
  | .setBufferSize d n => do let o ← setBufferSize s d n; return (s, o)
  | .ioWait c => do
      match (← ioWait s c) with
      | some e => return (s, failOut 0 e)
      | none => return (s, { ret := 1 })
  | .checkConnectResult => checkConnectResult s
  | .setKeepalive b => do let s' ← setKeepalive s b; return (s', voidOut)
  | .setBlocking b => return (setBlocking s b, voidOut)
  | .setBacklog n => return (setListenBacklog s n, voidOut)
  | .setTimeout n => return (setTimeout s n, voidOut)
  | .getLocal => do let o ← getAddress s false; return (s, o)
  | .getRemote => do let o ← getAddress s true; return (s, o)

/-- a script with `errno` at entry -/
abbrev Script := List Res

structure CallResult where
  sock    : Sock
  out     : Outcome
  tr      : List Ev
  rest    : Script
  errno   : Int
  deriving Repr, Inhabited

def CallResult.issued (r : CallResult) : List Issued := r.tr.map (·.call)

/-- `call : Sock → Args → Script → Sock × Outcome × List Issued × Script` (or a `Stop`) -/
def call (s : Sock) (c : Call) (script : Script) (errno : Int := 0) : Except Stop CallResult :=
  match callM s c { script := script, errno := errno } with
  | .ok (s', o) st evs => .ok { sock := s', out := o, tr := evs, rest := st.script, errno := st.errno }
  | .stop w => .error w

/-- what each function returns for `socket == NULL` -/
def nullCall : Call → Outcome
  | .setKeepalive _ | .setBlocking _ | .setBacklog _ | .setTimeout _ => voidOut
  | .receive .. | .receiveFrom .. | .send .. | .sendTo .. => failOut (-1) invalidArg
  | _ => failOut 0 invalidArg

/-! ## getters -/

structure Getters where
  fd : Int
  family : Int
  type : Int
  protocol : Int
  keepalive : Bool
  blocking : Bool
  backlog : Int
  timeout : Int
  connected : Bool
  closed : Bool
  deriving DecidableEq, Repr, Inhabited

def getters (s : Sock) : Getters :=
  { fd := s.fd, family := s.family, type := s.type, protocol := s.protocol, keepalive := s.keepalive,
    blocking := s.blocking, backlog := s.listen_backlog, timeout := s.timeout, connected := s.connected,
    closed := s.closed }

/-- the getters on `NULL` -/
def nullGetters : Getters :=
  { fd := -1, family := 0, type := 0, protocol := -1, keepalive := false, blocking := false, backlog := -1,
    timeout := -1, connected := false, closed := true }

/-! ## several sockets: the world the driver and the life-cycle theorems run in -/

inductive WCall
  | new (slot : Nat) (family type proto : Int)
  | newFromFd (slot : Nat) (fd : Int)
  | on (slot : Nat) (c : Call) (newSlot : Nat := 0)    -- `newSlot`: where `accept` puts its result
  | free (slot : Nat)
  | initOnce
  deriving DecidableEq, Repr, Inhabited

abbrev World := List (Nat × Sock)

def World.get (w : World) (slot : Nat) : Option Sock := (w.find? (·.1 = slot)).map (·.2)
def World.del (w : World) (slot : Nat) : World := w.filter (·.1 ≠ slot)
def World.set (w : World) (slot : Nat) (s : Sock) : World := (slot, s) :: w.del slot

structure WResult where
  world : World
  out   : Outcome
  tr    : List Ev
  rest  : Script
  errno : Int
  deriving Repr, Inhabited

def runM {α} (m : M α) (script : Script) (errno : Int) : Except Stop (α × St × List Ev) :=
  match m { script := script, errno := errno } with
  | .ok a st evs => .ok (a, st, evs)
  | .stop w => .error w

/-- one API call in a world of sockets.  A slot that holds no socket stands for a NULL pointer. -/
def wstep (w : World) (c : WCall) (script : Script) (errno : Int := 0) : Except Stop WResult :=
  match c with
  | .new slot f t p =>
    match runM (new f t p) script errno with
    | .error e => .error e
    | .ok ((so, e), st, evs) =>
      let w' := match so with | some s => w.set slot s | none => w
      .ok { world := w', out := { ret := b2i so.isSome, err := e, sock := so }, tr := evs, rest := st.script, errno := st.errno }
  | .newFromFd slot fd =>
    match runM (newFromFd fd) script errno with
    | .error e => .error e
    | .ok ((so, e), st, evs) =>
      let w' := match so with | some s => w.set slot s | none => w
      .ok { world := w', out := { ret := b2i so.isSome, err := e, sock := so }, tr := evs, rest := st.script, errno := st.errno }
  | .on slot c newSlot =>
    match w.get slot with
    | none => .ok { world := w, out := nullCall c, tr := [], rest := script, errno := errno }
    | some s =>
      match runM (callM s c) script errno with
      | .error e => .error e
      | .ok ((s', o), st, evs) =>
        let w' := w.set slot s'
        let w' := match o.sock with | some ns => w'.set newSlot ns | none => w'
        .ok { world := w', out := o, tr := evs, rest := st.script, errno := st.errno }
  | .free slot =>
    match w.get slot with
    | none => .ok { world := w, out := voidOut, tr := [], rest := script, errno := errno }
    | some s =>
      match runM (free s) script errno with
      | .error e => .error e
      | .ok (_, st, evs) => .ok { world := w.del slot, out := voidOut, tr := evs, rest := st.script, errno := st.errno }
  | .initOnce =>
    match runM initOnce script errno with
    | .error e => .error e
    | .ok (_, st, evs) => .ok { world := w, out := voidOut, tr := evs, rest := st.script, errno := st.errno }

/-! ## kernel side (trusted contract, used only to state integrity / close-on-exec / descriptor balance) -/

/-- close-on-exec flag of descriptor `fd` after the native calls of a trace, starting from `init`
    (kernel contract: `socket` with SOCK_CLOEXEC sets it, `accept` yields a descriptor without it,
    a successful `fcntl (F_SETFD, v)` sets it to `v & FD_CLOEXEC`, `fcntl (F_GETFD)` reports it). -/
def cloexecAfter (fd : Int) : List Ev → Bool → Bool
  | [], b => b
  | ev :: rest, b =>
    let b' := match ev.call, ev.res.ret with
      | .socket _ t _, .ok v => if Int.ofNat v = fd then (t.toNat &&& SOCK_CLOEXEC.toNat ≠ 0) else b
      | .accept _, .ok v => if Int.ofNat v = fd then false else b
      | .fcntl f cmd arg, .ok v =>
        if f = fd ∧ cmd = F_SETFD then (arg.toNat &&& FD_CLOEXEC.toNat ≠ 0)
        else if f = fd ∧ cmd = F_GETFD then (v &&& FD_CLOEXEC.toNat ≠ 0)     -- the kernel's answer is the truth
        else b
      | _, _ => b
    cloexecAfter fd rest b'

/-- kernel contract assumed by `cloexec`: the `fcntl (F_GETFD / F_SETFD)` calls on descriptor `fd` do not fail -/
def fcntlFdOk (fd : Int) (tr : List Ev) : Bool :=
  tr.all fun ev => match ev.call with
    | .fcntl f cmd _ => !(f = fd ∧ (cmd = F_GETFD ∨ cmd = F_SETFD)) || !ev.res.failed
    | _ => true

/-- descriptor table: the numbers currently open, as the trace says.  `none` = the trace closes a
    number that is not open (stray / double close) or obtains a number that is still open. -/
def fdTable : List Ev → List Int → Option (List Int)
  | [], t => some t
  | ev :: rest, t =>
    match ev.call, ev.res.ret with
    | .socket .., .ok v => if Int.ofNat v ∈ t then none else fdTable rest (Int.ofNat v :: t)
    | .accept _, .ok v => if Int.ofNat v ∈ t then none else fdTable rest (Int.ofNat v :: t)
    | .close fd, _ => if fd ∈ t then fdTable rest (t.erase fd) else none
    | _, _ => fdTable rest t

/-- a TCP connection direction: reliable FIFO byte pipe -/
abbrev Pipe := Bytes

/-- kernel contract for one native `send` on a stream: some prefix `1 ≤ k ≤ len` is appended, or it fails -/
def pipeSendOk (p : Pipe) (data : Bytes) (r : Res) (p' : Pipe) : Prop :=
  match r.ret with
  | .ok k => 1 ≤ k ∧ k ≤ data.length ∧ p' = p ++ data.take k
  | .err _ => p' = p

/-- kernel contract for one native `recv` on a stream: `1 ≤ k ≤ min (avail, len)` bytes are popped
    (`k = 0` only for `len = 0`; end-of-stream is outside this model), or it fails -/
def pipeRecvOk (p : Pipe) (len : Nat) (r : Res) (p' : Pipe) : Prop :=
  match r.ret with
  | .ok k => k ≤ len ∧ k ≤ p.length ∧ r.data = p.take k ∧ p' = p.drop k
  | .err _ => p' = p

end PV.Socket

import PV.Generated.Sleep
/-!
Model of `p_uthread_sleep` (`/repo/src/puthread.c`, the `clock_nanosleep` / `nanosleep` path).

The native call is a parameter: a *script* of results.  POSIX: `clock_nanosleep` reports an error
as its RETURN VALUE and leaves `errno` alone; `nanosleep` returns −1 and sets `errno`.  On EINTR the
remaining time is written to `time_rem`.  Times are in nanoseconds.
-/
namespace PV.Sleep

def EINTR : Int := 4

/-- one result of the native sleep call -/
inductive Native where
  | ok                      -- slept the whole requested interval, returns 0
  | intr (rem : Nat)        -- interrupted by a handled signal, `rem` ns were left
  | err (code : Int)        -- any other error code (≠ 0, ≠ EINTR)
deriving Repr, DecidableEq

structure Out where
  ret : Int                 -- value returned by `p_uthread_sleep`
  calls : List Nat          -- the interval (ns) requested from each native call, in order
  exhausted : Bool := false -- the script ended while the loop still wanted to call
deriving Repr, DecidableEq

/-- which test decides "interrupted" on the path compiled here -/
structure Cfg where
  usesClockNanosleep : Bool   -- `PLIBSYS_HAS_CLOCKNANOSLEEP` path selected
  testsReturnValue : Bool     -- the EINTR test looks at the return value (else: at `errno`)

/-- what the EINTR test sees: with `clock_nanosleep` the error code is the return value and `errno`
    is whatever it was before (`ambientErrno`); with `nanosleep` the code is in `errno`. -/
def looksInterrupted (c : Cfg) (ambientErrno : Int) (code : Int) : Bool :=
  if c.usesClockNanosleep then
    (if c.testsReturnValue then code == EINTR else ambientErrno == EINTR)
  else
    -- nanosleep: return value is −1, errno = code
    (if c.testsReturnValue then (-1 : Int) == EINTR else code == EINTR)

/-- the `while (result != 0)` loop -/
def loop (c : Cfg) (ambientErrno : Int) (req : Nat) : List Native → List Nat → Out
  | [], acc => { ret := 0, calls := (req :: acc).reverse, exhausted := true }   -- script ended: the harness lets the call complete
  | .ok :: _, acc => { ret := 0, calls := (req :: acc).reverse }
  | .intr rem :: rest, acc =>
    if looksInterrupted c ambientErrno EINTR then loop c ambientErrno rem rest (req :: acc)
    else { ret := -1, calls := (req :: acc).reverse }
  | .err code :: rest, acc =>
    if looksInterrupted c ambientErrno code then
      -- would retry with whatever `time_rem` holds; a hard error does not write it: model as 0 left
      loop c ambientErrno 0 rest (req :: acc)
    else { ret := -1, calls := (req :: acc).reverse }

/-- `p_uthread_sleep (msec)` of the current source tree -/
def sleep (ambientErrno : Int) (msec : Nat) (script : List Native) : Out :=
  loop { usesClockNanosleep := Generated.sleepUsesClockNanosleep,
         testsReturnValue := Generated.sleepTestsReturnValue } ambientErrno
    ((msec % 1000) * 1000000 + (msec / 1000) * 1000000000) script []

/-- time actually slept according to the kernel contract: an interrupted call slept
    `requested − rem`, a completed call slept (at least) what was requested -/
def slept : List Nat → List Native → Nat
  | req :: reqs, .ok :: _ => req + slept reqs []
  | req :: reqs, .intr rem :: rest => (req - rem) + slept reqs rest
  | _, _ => 0

end PV.Sleep

import PV.Generated.SockAddr
/-! # Model of `psocketaddress.c` (C17)

Executable transliteration of the C functions, for the platform described by
`PV.Generated.SA` (struct sizes / field offsets from a compiled `offsetof` probe, config macros
from the library's define list, constants and the order of checks from the C source).

* A `PSocketAddress` that a constructor can return is `Addr`: the `family` field selects the
  union member; `flowinfo`/`scope_id` of an IPv4 object stay 0 (`p_malloc0`, the setters refuse
  other families), `P_SOCKET_FAMILY_UNKNOWN` objects are never returned.
* A native structure is a byte list of **exactly** the length the caller owns.  Every access goes
  through `rd`/`wr`, which answer `fault` for any byte beyond that length — never a default.
* `inet_pton`, `inet_ntop`, `getaddrinfo (AI_NUMERICHOST)` leave the library: they are the
  fields of `Platform`.  A concrete IPv4 pair `ntop4`/`pton4` (glibc's rule) is given as well.
* `NULL` pointer arguments: the `…P` functions at the end of the file (an `Option` argument = a pointer
  that may be `NULL`); allocation failure is not modelled here (C18 covers allocation).
-/
namespace PV.SockAddr
open PV.Generated

abbrev Buf := List UInt8

/-- outcome of code that touches a caller-supplied buffer; `fault` = access outside the buffer -/
inductive Res (α : Type) where
  | ok (a : α)
  | fault
  deriving DecidableEq, Repr

namespace Res
def bind {α β : Type} : Res α → (α → Res β) → Res β
  | ok a, f => f a
  | fault, _ => fault
instance : Monad Res where
  pure := ok
  bind := bind
@[simp] theorem pure_eq {α : Type} (a : α) : (pure a : Res α) = ok a := rfl
@[simp] theorem ok_bind {α β : Type} (a : α) (f : α → Res β) : (ok a >>= f) = f a := rfl
@[simp] theorem fault_bind {α β : Type} (f : α → Res β) : ((fault : Res α) >>= f) = fault := rfl
end Res

/-! ## bounds-checked access (the only way the model touches a native buffer) -/

/-- `memcpy (out, buf + off, n)` -/
def rd (b : Buf) (off n : Nat) : Res (Vector UInt8 n) :=
  if h : off + n ≤ b.length then
    .ok ⟨((b.drop off).take n).toArray, by simp; omega⟩
  else .fault

/-- `memcpy (buf + off, bs, |bs|)` -/
def wr (b : Buf) (off : Nat) (bs : List UInt8) : Res Buf :=
  if off + bs.length ≤ b.length then .ok (b.take off ++ bs ++ b.drop (off + bs.length)) else .fault

/-! ## integers in memory and the byte-order macros -/

/-- value of a 2-byte object holding bytes `b0 b1` (in memory order) on this machine -/
def hostU16 (b0 b1 : UInt8) : UInt16 :=
  if SA.littleEndian then UInt16.ofNat (b0.toNat + 256 * b1.toNat) else UInt16.ofNat (b1.toNat + 256 * b0.toNat)

/-- memory bytes of a 2-byte object with value `x` -/
def bytesU16 (x : UInt16) : List UInt8 :=
  if SA.littleEndian then [UInt8.ofNat (x.toNat % 256), UInt8.ofNat (x.toNat / 256)]
  else [UInt8.ofNat (x.toNat / 256), UInt8.ofNat (x.toNat % 256)]

def hostU32 (b0 b1 b2 b3 : UInt8) : UInt32 :=
  if SA.littleEndian then UInt32.ofNat (b0.toNat + 256 * b1.toNat + 65536 * b2.toNat + 16777216 * b3.toNat)
  else UInt32.ofNat (b3.toNat + 256 * b2.toNat + 65536 * b1.toNat + 16777216 * b0.toNat)

def bytesU32 (x : UInt32) : List UInt8 :=
  let l := [UInt8.ofNat (x.toNat % 256), UInt8.ofNat (x.toNat / 256 % 256), UInt8.ofNat (x.toNat / 65536 % 256),
            UInt8.ofNat (x.toNat / 16777216)]
  if SA.littleEndian then l else l.reverse

/-- `PUINT16_SWAP_BYTES` -/
def swap16 (x : UInt16) : UInt16 := UInt16.ofNat (x.toNat % 256 * 256 + x.toNat / 256)
/-- `PUINT32_SWAP_BYTES` -/
def swap32 (x : UInt32) : UInt32 :=
  UInt32.ofNat (x.toNat % 256 * 16777216 + x.toNat / 256 % 256 * 65536 + x.toNat / 65536 % 256 * 256 + x.toNat / 16777216)

/-- `p_ntohs` = `p_htons` = `PUINT16_TO_BE` -/
def ntohs (x : UInt16) : UInt16 := if SA.littleEndian then swap16 x else x
def htons (x : UInt16) : UInt16 := ntohs x
def ntohl (x : UInt32) : UInt32 := if SA.littleEndian then swap32 x else x
def htonl (x : UInt32) : UInt32 := ntohl x

def rdU16 (b : Buf) (off : Nat) : Res UInt16 := do
  let v ← rd b off 2
  return hostU16 v[0] v[1]

def rdU32 (b : Buf) (off : Nat) : Res UInt32 := do
  let v ← rd b off 4
  return hostU32 v[0] v[1] v[2] v[3]

def wrU16 (b : Buf) (off : Nat) (x : UInt16) : Res Buf := wr b off (bytesU16 x)
def wrU32 (b : Buf) (off : Nat) (x : UInt32) : Res Buf := wr b off (bytesU32 x)

/-! ## the address object -/

inductive Addr where
  | v4 (addr : Vector UInt8 4) (port : UInt16)
  | v6 (addr : Vector UInt8 16) (port : UInt16) (flow scope : UInt32)
  deriving DecidableEq, Repr

/-- `p_socket_address_new_from_native (native, len)`; `native` is the caller's buffer (its real extent),
    `len` the length the caller states.  `none` = `NULL`. -/
def newFromNative (native : Buf) (len : Nat) : Res (Option Addr) := do
  -- `if (native == NULL || len < …) return NULL;`   (before the F7 repair: `len == 0`, i.e. bound 1)
  if len < SA.fromNativeMinLen then return none
  -- `family = ((const struct sockaddr *) native)->sa_family;`  — read BEFORE the per-family length checks
  let family ← rdU16 native SA.saFamilyOff
  if family.toNat = SA.afInet then
    if len < SA.sizeofSockaddrIn then return none
    let a ← rd native SA.sinAddrOff 4
    let p ← rdU16 native SA.sinPortOff
    return some (.v4 a (ntohs p))
  else if family.toNat = SA.afInet6 then
    if len < SA.sizeofSockaddrIn6 then return none
    let a ← rd native SA.sin6AddrOff 16
    -- the C code reads the port through `struct sockaddr_in` here as well
    let p ← rdU16 native SA.sinPortOff
    let flow ← if SA.hasFlowinfo then rdU32 native SA.sin6FlowOff else pure 0
    let scope ← if SA.hasScopeId then rdU32 native SA.sin6ScopeOff else pure 0
    return some (.v6 a (ntohs p) flow scope)
  else return none

/-- `p_socket_address_to_native (addr, dest, destlen)`: the returned flag and the buffer afterwards.
    `dest` is the caller's buffer (its real extent), `destlen` the stated length. -/
def toNative (a : Addr) (dest : Buf) (destlen : Nat) : Res (Bool × Buf) := do
  if destlen = 0 then return (false, dest)
  match a with
  | .v4 addr port =>
    if destlen < SA.sizeofSockaddrIn then return (false, dest)
    let d ← wr dest SA.sinAddrOff addr.toList
    let d ← wrU16 d SA.sinFamilyOff (UInt16.ofNat SA.afInet)
    let d ← wrU16 d SA.sinPortOff (htons port)
    let d ← wr d SA.sinZeroOff (List.replicate SA.sinZeroLen 0)
    return (true, d)
  | .v6 addr port flow scope =>
    if destlen < SA.sizeofSockaddrIn6 then return (false, dest)
    let d ← wr dest SA.sin6AddrOff addr.toList
    let d ← wrU16 d SA.sin6FamilyOff (UInt16.ofNat SA.afInet6)
    let d ← wrU16 d SA.sin6PortOff (htons port)
    let d ← if SA.hasFlowinfo then wrU32 d SA.sin6FlowOff flow else pure d
    let d ← if SA.hasScopeId then wrU32 d SA.sin6ScopeOff scope else pure d
    return (true, d)

/-- `p_socket_address_get_native_size` -/
def nativeSize : Addr → Nat
  | .v4 .. => SA.sizeofSockaddrIn
  | .v6 .. => SA.sizeofSockaddrIn6

/-- `p_socket_address_get_family` (numeric value of the enum = AF_INET / AF_INET6) -/
def family : Addr → Nat
  | .v4 .. => SA.afInet
  | .v6 .. => SA.afInet6

def port : Addr → UInt16
  | .v4 _ p => p
  | .v6 _ p _ _ => p

/-- `p_socket_address_get_flow_info` -/
def flowInfo : Addr → UInt32
  | .v4 .. => 0
  | .v6 _ _ f _ => if SA.hasFlowinfo then f else 0

/-- `p_socket_address_get_scope_id` -/
def scopeId : Addr → UInt32
  | .v4 .. => 0
  | .v6 _ _ _ s => if SA.hasScopeId then s else 0

/-- `p_socket_address_set_flow_info` -/
def setFlowInfo : Addr → UInt32 → Addr
  | .v6 a p f s, x => if SA.hasFlowinfo then .v6 a p x s else .v6 a p f s
  | a, _ => a

/-- `p_socket_address_set_scope_id` -/
def setScopeId : Addr → UInt32 → Addr
  | .v6 a p f s, x => if SA.hasScopeId then .v6 a p f x else .v6 a p f s
  | a, _ => a

def isFlowInfoSupported : Bool := SA.hasFlowinfo
def isScopeIdSupported : Bool := SA.hasScopeId
def isIPv6Supported : Bool := true

/-- `p_socket_address_new_any (family, port)` -/
def newAny (fam : Nat) (port : UInt16) : Option Addr :=
  if fam = SA.afInet then some (.v4 SA.newAny4 port)
  else if fam = SA.afInet6 then some (.v6 SA.in6addrAny port 0 0)
  else none

/-- `p_socket_address_new_loopback (family, port)` -/
def newLoopback (fam : Nat) (port : UInt16) : Option Addr :=
  if fam = SA.afInet then some (.v4 SA.newLoopback4 port)
  else if fam = SA.afInet6 then some (.v6 SA.in6addrLoopback port 0 0)
  else none

/-- `p_ntohl (* ((puint32 *) &addr->addr.sin_addr))` -/
def addr4Host (a : Vector UInt8 4) : UInt32 := ntohl (hostU32 a[0] a[1] a[2] a[3])

/-- the `i`-th 32-bit word (`__u6_addr32[i]`) of an IPv6 address, as the machine reads it -/
def word6 (a : Vector UInt8 16) (i : Nat) (h : i < 4 := by decide) : UInt32 :=
  hostU32 a[4 * i] a[4 * i + 1] a[4 * i + 2] a[4 * i + 3]

/-- `p_socket_address_is_any`: `addr4 == INADDR_ANY` / glibc `IN6_IS_ADDR_UNSPECIFIED` (four words are 0) -/
def isAny : Addr → Bool
  | .v4 a _ => (addr4Host a).toNat == SA.inaddrAny
  | .v6 a .. => word6 a 0 == 0 && word6 a 1 == 0 && word6 a 2 == 0 && word6 a 3 == 0

/-- `p_socket_address_is_loopback`: `(addr4 & mask) == value` / glibc `IN6_IS_ADDR_LOOPBACK`
    (words 0..2 are 0, word 3 is `htonl (1)`) -/
def isLoopback : Addr → Bool
  | .v4 a _ => (addr4Host a).toNat &&& SA.loopMask == SA.loopValue
  | .v6 a .. => word6 a 0 == 0 && word6 a 1 == 0 && word6 a 2 == 0 && word6 a 3 == htonl 1

/-! ## text conversions: platform functions are parameters -/

/-- C strings are byte lists without NUL.  `getaddrinfo` (hints: AF_UNSPEC, SOCK_STREAM, AI_NUMERICHOST):
    `none` = non-zero return; otherwise `ai_family` and the `ai_addr` bytes (`ai_addrlen` = their number)
    of the first result. -/
structure Platform where
  pton4 : List UInt8 → Option (Vector UInt8 4)
  pton6 : List UInt8 → Option (Vector UInt8 16)
  ntop4 : Vector UInt8 4 → List UInt8
  ntop6 : Vector UInt8 16 → List UInt8
  getaddrinfo : List UInt8 → Option (Nat × Buf)

/-- `p_socket_address_new (address, port)` -/
def new (P : Platform) (address : List UInt8) (port : UInt16) : Res (Option Addr) := do
  if SA.hasGetaddrinfo && address.contains 58 then      -- `strchr (address, ':') != NULL`
    match P.getaddrinfo address with
    | none => return none
    | some (fam, ai_addr) =>
      if fam = SA.afInet6 ∧ ai_addr.length = SA.sizeofSockaddrIn6 then
        let sa ← wrU16 ai_addr SA.sin6PortOff (htons port)
        newFromNative sa sa.length
      else return none
  else
    match P.pton4 address with
    | some a => return some (.v4 a port)
    | none =>
      match P.pton6 address with
      | some a => return some (.v6 a port 0 0)
      | none => return none

/-- `p_socket_address_get_address` (`inet_ntop` into a 46-byte buffer, then `p_strdup`) -/
def getAddress (P : Platform) : Addr → List UInt8
  | .v4 a _ => P.ntop4 a
  | .v6 a .. => P.ntop6 a

/-! ## the entry points as the caller sees them: pointer arguments that may be `NULL` (= `none`)

`P_SOCKET_FAMILY_UNKNOWN = 0`.  Every function tests `addr == NULL` (and `dest == NULL`, `native == NULL`,
`address == NULL`) first and answers its failure value without touching anything. -/

/-- `p_socket_address_new_from_native (native, len)` -/
def newFromNativeP (native : Option Buf) (len : Nat) : Res (Option Addr) :=
  match native with
  | none => pure none                       -- `native == NULL || …` → NULL, whatever `len`
  | some b => newFromNative b len

/-- `p_socket_address_new (address, port)` -/
def newP (P : Platform) (address : Option (List UInt8)) (port : UInt16) : Res (Option Addr) :=
  match address with
  | none => pure none
  | some s => new P s port

/-- `p_socket_address_to_native (addr, dest, destlen)`: flag and the destination afterwards -/
def toNativeP (a : Option Addr) (dest : Option Buf) (destlen : Nat) : Res (Bool × Option Buf) :=
  match a, dest with
  | some a, some d => do
    let (ok, d') ← toNative a d destlen
    return (ok, some d')
  | _, d => pure (false, d)                 -- `addr == NULL || dest == NULL || destlen == 0` → FALSE

def nativeSizeP : Option Addr → Nat
  | none => 0
  | some a => nativeSize a

def familyP : Option Addr → Nat
  | none => 0
  | some a => family a

/-- `p_socket_address_get_address`: `none` = NULL -/
def getAddressP (P : Platform) : Option Addr → Option (List UInt8)
  | none => none
  | some a => some (getAddress P a)

def portP : Option Addr → UInt16
  | none => 0
  | some a => port a

def flowInfoP : Option Addr → UInt32
  | none => 0
  | some a => flowInfo a

def scopeIdP : Option Addr → UInt32
  | none => 0
  | some a => scopeId a

def setFlowInfoP (a : Option Addr) (x : UInt32) : Option Addr := a.map (setFlowInfo · x)
def setScopeIdP (a : Option Addr) (x : UInt32) : Option Addr := a.map (setScopeId · x)

def isAnyP : Option Addr → Bool
  | none => false
  | some a => isAny a

def isLoopbackP : Option Addr → Bool
  | none => false
  | some a => isLoopback a

/-! ## concrete IPv4 text functions (glibc) -/

/-- `'.'` -/
def dot : UInt8 := 46

/-- `sprintf ("%u")` of one octet -/
def decByte (b : UInt8) : List UInt8 :=
  let n := b.toNat
  if n ≥ 100 then [UInt8.ofNat (48 + n / 100), UInt8.ofNat (48 + n / 10 % 10), UInt8.ofNat (48 + n % 10)]
  else if n ≥ 10 then [UInt8.ofNat (48 + n / 10), UInt8.ofNat (48 + n % 10)]
  else [UInt8.ofNat (48 + n)]

/-- glibc `inet_ntop4`: `"%u.%u.%u.%u"` -/
def ntop4 (a : Vector UInt8 4) : List UInt8 :=
  decByte a[0] ++ dot :: (decByte a[1] ++ dot :: (decByte a[2] ++ dot :: decByte a[3]))

/-- first '.'-separated field and the remaining fields -/
def splitDot : List UInt8 → List UInt8 × List (List UInt8)
  | [] => ([], [])
  | c :: r =>
    let (f, fs) := splitDot r
    if c = dot then ([], f :: fs) else (c :: f, fs)

/-- the digit loop of glibc `inet_pton4` on one field: decimal digits only, at least one, no leading
    zero before another digit (`saw_digit && *tp == 0`), value never above 255 -/
def parseOctetGo : List UInt8 → Bool → Nat → Option UInt8
  | [], saw, cur => if saw then some (UInt8.ofNat cur) else none
  | c :: r, saw, cur =>
    if 48 ≤ c ∧ c ≤ 57 then
      let new := cur * 10 + (c.toNat - 48)
      if saw ∧ cur = 0 then none
      else if new > 255 then none
      else parseOctetGo r true new
    else none

def parseOctet (f : List UInt8) : Option UInt8 := parseOctetGo f false 0

/-- glibc `inet_pton (AF_INET, …)`: exactly four fields -/
def pton4 (s : List UInt8) : Option (Vector UInt8 4) :=
  match splitDot s with
  | (f0, [f1, f2, f3]) =>
    match parseOctet f0, parseOctet f1, parseOctet f2, parseOctet f3 with
    | some a, some b, some c, some d => some #v[a, b, c, d]
    | _, _, _, _ => none
  | _ => none

end PV.SockAddr

import PV.Model.Ini
import PV.Spec.Ini
import PV.Driver.Util
/-! driver for the INI family (C16).

A file is assembled from pieces, then parsed:

* `raw HEX`                      append arbitrary bytes (the file is then no grammar document)
* `bom KIND HEX`                 byte-order mark (must be the first piece)
* `blk WS EOL HEX`               blank line
* `cmt LEAD MARKER TEXT EOL HEX` comment line
* `hdr LEAD PRE NAME POST TRAIL EOL HEX`                          section header
* `ent LEAD KEY PRE POST Q VALUE TRAIL CMARKER CTEXT EOL HEX`     key/value line
  (fields hex or `-`; the last HEX is the rendered line and must equal the spec's `render`)
  every piece is answered by `.`
* `wfcheck`   `wf` when the pieces form a well-formed document (`IniSpec.WF`) whose rendering is the file
* `parse`     dump of the parsed file (model only)
* `gparse`    the same dump; when the document is well-formed and its `meaning` says something else
              about sections / keys / values / typed getters: ` SPECDIFF <spec dump>`
* `reset`     forget the pieces
-/
namespace PV.Driver.Ini
open PV.Ini
open PV.IniSpec (Doc Sec Line Body Entry Header Comment Quote Eol Bom Style)

structure St where
  pieces : List Bytes := []        -- reversed
  grammar : Bool := true
  bom : Bom := .none
  pre : List Line := []            -- reversed
  secs : List Sec := []            -- reversed, bodies reversed

def St.bytes (s : St) : Bytes := s.pieces.reverse.flatten

def St.doc (s : St) : Doc :=
  { preamble := s.pre.reverse, secs := s.secs.reverse.map fun x => { x with body := x.body.reverse } }

def hx (s : String) : Option Bytes := bytesOfHex s
def hexD (b : Bytes) : String := if b.isEmpty then "-" else hexOfBytes b

def eolOf : String → Option Eol
  | "lf" => some .lf
  | "crlf" => some .crlf
  | "eof" => some .eof
  | _ => none

def bomOf : String → Option Bom
  | "utf8" => some .utf8
  | "utf16be" => some .utf16be
  | "utf16le" => some .utf16le
  | "utf32be" => some .utf32be
  | _ => none

def quoteOf : String → Option Quote
  | "n" => some .none
  | "s" => some .single
  | "d" => some .double
  | _ => none

def hex16 (n : UInt64) : String :=
  String.ofList ((List.range 16).map fun i => hexDigit ((n.toNat >>> (4 * (15 - i))) % 16))

def dflt : Bytes := [100, 102, 108, 116]      -- "dflt"
def noKey : Bytes := [110, 111, 107, 101, 121] -- "nokey"
def noSec : Bytes := [110, 111, 115, 101, 99]  -- "nosec"

def fmtInt : IntResult → String
  | .val i => toString i
  | .overflow => "ovf"
def fmtBool : BoolResult → String
  | .val true => "1"
  | .val false => "0"
  | .overflow => "ovf"
def fmtList (l : List Bytes) : String := if l.isEmpty then "-" else ",".intercalate (l.map hexD)

/-- all getters for one (section, key), with fixed defaults -/
def getters (f : IniFile) (sec key : Bytes) : String :=
  " s=" ++ hexD ((parameterString f sec key (some dflt)).getD [])
  ++ " i=" ++ fmtInt (parameterInt f sec key (-7))
  ++ " b=" ++ fmtBool (parameterBoolean f sec key true)
  ++ " l=" ++ fmtList (parameterList f sec key)
  ++ " d=" ++ hex16 (parameterDouble f sec key 2.5).toBits
  ++ " e=" ++ (if isKeyExists f sec key then "1" else "0")

def dump (f : IniFile) : String :=
  let secs := sections f
  let body := String.join (secs.map fun s =>
    " S " ++ hexD s ++ String.join ((keys f s).map fun k => " K " ++ hexD k ++ getters f s k))
  let s0 := secs.headD noSec
  let k0 := (keys f s0).headD noKey
  "ok" ++ body ++ " P" ++ getters f s0 noKey ++ " P" ++ getters f noSec k0

/-- getters as the documentation describes them, on a value of the document -/
def specGetters (v : Option Bytes) : String :=
  match v with
  | some v => " s=" ++ hexD v ++ " i=" ++ fmtInt (atoi v) ++ " b=" ++ fmtBool (toBoolean v)
              ++ " l=" ++ fmtList (toList v) ++ " d=*" ++ " e=1"
  | none => " s=" ++ hexD dflt ++ " i=-7 b=1 l=- d=* e=0"

def specDump (m : List (Bytes × List (Bytes × Bytes))) : String :=
  "ok" ++ String.join (m.map fun (s, kvs) =>
    " S " ++ hexD s ++ String.join (kvs.map fun (k, v) => " K " ++ hexD k ++ specGetters (some v)))
  ++ " P" ++ specGetters none ++ " P" ++ specGetters none

/-- canonical form used to compare model and spec: sections sorted by name, keys once, no double -/
def canonModel (f : IniFile) : List String :=
  let l := (sections f).map fun s =>
    hexD s ++ String.join ((keys f s).eraseDups.map fun k =>
      " K " ++ hexD k ++ specGetters (findParameter f s k))
  (l.toArray.qsort (· < ·)).toList

def canonSpec (m : List (Bytes × List (Bytes × Bytes))) : List String :=
  let l := m.map fun (s, kvs) =>
    hexD s ++ String.join (kvs.map fun (k, v) => " K " ++ hexD k ++ specGetters (some v))
  (l.toArray.qsort (· < ·)).toList

def St.wf (s : St) : Bool :=
  s.grammar && IniSpec.WF ⟨s.bom⟩ s.doc && IniSpec.render ⟨s.bom⟩ s.doc == s.bytes

def addLine (s : St) (l : Line) (hex : Bytes) : St :=
  match s.secs with
  | [] => { s with pre := l :: s.pre, pieces := hex :: s.pieces }
  | x :: xs => { s with secs := { x with body := l :: x.body } :: xs, pieces := hex :: s.pieces }

def step (s : St) (toks : List String) : IO (St × Bool) := do
  let bad : IO (St × Bool) := do IO.println "bad-op"; return ({ s with grammar := false }, false)
  let dot (s' : St) : IO (St × Bool) := do IO.println "."; return (s', false)
  match toks with
  | ["reset"] => IO.println "ok"; return ({}, false)
  | ["raw", h] =>
    match hx h with
    | some b => dot { s with pieces := b :: s.pieces, grammar := false }
    | none => bad
  | ["bom", k, h] =>
    match bomOf k, hx h with
    | some b, some hb =>
      if s.pieces.isEmpty && hb == b.bytes then dot { s with bom := b, pieces := [hb] } else bad
    | _, _ => bad
  | ["blk", ws, e, h] =>
    match hx ws, eolOf e, hx h with
    | some ws, some e, some hb =>
      let l : Line := ⟨.blank ws, e⟩
      if l.render == hb then dot (addLine s l hb) else bad
    | _, _, _ => bad
  | ["cmt", lead, m, text, e, h] =>
    match hx lead, m.toNat?, hx text, eolOf e, hx h with
    | some lead, some m, some text, some e, some hb =>
      let l : Line := ⟨.comment lead ⟨UInt8.ofNat m, text⟩, e⟩
      if l.render == hb then dot (addLine s l hb) else bad
    | _, _, _, _, _ => bad
  | ["hdr", lead, pre, name, post, trail, e, h] =>
    match hx lead, hx pre, hx name, hx post, hx trail, eolOf e, hx h with
    | some lead, some pre, some name, some post, some trail, some e, some hb =>
      let hd : Header := ⟨lead, pre, name, post, trail, e⟩
      if hd.render == hb then dot { s with secs := ⟨hd, []⟩ :: s.secs, pieces := hb :: s.pieces } else bad
    | _, _, _, _, _, _, _ => bad
  | ["ent", lead, key, pre, post, q, value, trail, cm, ct, e, h] =>
    match hx lead, hx key, hx pre, hx post, quoteOf q, hx value, hx trail with
    | some lead, some key, some pre, some post, some q, some value, some trail =>
      match cm.toNat?, hx ct, eolOf e, hx h with
      | some cm, some ct, some e, some hb =>
        let c : Option Comment := if cm == 0 then none else some ⟨UInt8.ofNat cm, ct⟩
        let l : Line := ⟨.entry ⟨lead, key, pre, post, q, value, trail, c⟩, e⟩
        if l.render == hb then dot (addLine s l hb) else bad
      | _, _, _, _ => bad
    | _, _, _, _, _, _, _ => bad
  | ["wfcheck"] => IO.println (if s.wf then "wf" else "notwf"); return (s, false)
  | ["parse"] => IO.println (dump (parse s.bytes)); return (s, false)
  | ["gparse"] =>
    let f := parse s.bytes
    let d := dump f
    if s.wf then
      let m := IniSpec.meaning s.doc
      if canonModel f == canonSpec m then IO.println d
      else IO.println (d ++ " SPECDIFF " ++ specDump m)
    else IO.println d
    return (s, false)
  | _ => bad

def run : IO Unit := do
  let _ ← forEachLine (← IO.getStdin) St {} step
  return ()

end PV.Driver.Ini

import PV.Model.Ini
import PV.Spec.Ini
import PV.Driver.Util
/-! driver for the INI family (C16).

A file is assembled from pieces, then parsed:

* `raw HEX`                      append arbitrary bytes (the file is then no grammar document)
* `bom KIND HEX`                 byte-order mark: as the first piece the file's mark (`Style.bom`), later the mark
                                 at the start of the next line piece (`Line.mark` / `Header.mark`); the HEX of that
                                 line is the line without the mark
* `blk WS EOL HEX`               blank line
* `cmt LEAD MARKER TEXT EOL HEX` comment line
* `hdr LEAD PRE NAME POST TRAIL EOL HEX`                          section header
* `ent LEAD KEY PRE POST Q VALUE TRAIL CMARKER CTEXT EOL HEX`     key/value line
  (fields hex or `-`; the last HEX is the rendered line and must equal the spec's `render`)
  every piece is answered by `.`
* `wfcheck`   `wf` when the pieces form a well-formed document (`IniSpec.WF`) whose rendering is the file
* `parse`     dump of the parsed file (model only)
* `gparse`    the same dump; when the document is well-formed and its `meaning` says something else
              about sections / keys / values / typed getters: ` SPECDIFF <spec dump>`
* `reset`     forget the pieces
* `get SEC KEY SDEF IDEF BDEF DDEFBITS`   the current file parsed afresh, every getter with these arguments
              (SEC / KEY / SDEF: `NULL`, `-` or hex); answer `s= i= b= l= d= e= n=` (n = number of listed keys of SEC)
* `gget …`    the same; for a well-formed document the documented answer is compared (` SPECDIFF`)
* `life SEC KEY`  life cycle: unparsed object, NULL object, first parse, second parse after the file changed
              on disk, object for a path that does not exist
* `lifec SEC KEY` the current file parsed while the parser's `fclose` fails (scripted), parsed again after the file
              changed on disk, a path that does not exist with the failure armed; `fc=` / `w=` count the `fclose` calls / warning lines of each parse
* `chomp X`, `strdup X`, `strtod X`, `strtok STR D1 [D2 …]`, `strtokb STR DELIM`   the `pstring.c` entry points
              (`chomp`, `strtok`: ` SPECDIFF` when `IniSpec.trim` / `IniSpec.tokens` say something else)
-/
namespace PV.Driver.Ini
open PV.Ini
open PV.IniSpec (Doc Sec Line Body Entry Header Comment Quote Eol Bom Style)

structure St where
  pieces : List Bytes := []        -- reversed
  grammar : Bool := true
  bom : Bom := .none
  pend : Bom := .none              -- mark given for the next line
  pre : List Line := []            -- reversed
  secs : List Sec := []            -- reversed, bodies reversed

def St.bytes (s : St) : Bytes := s.pieces.reverse.flatten

def St.doc (s : St) : Doc :=
  { preamble := s.pre.reverse, secs := s.secs.reverse.map fun x => { x with body := x.body.reverse } }

def hx (s : String) : Option Bytes := bytesOfHex s
def hexD (b : Bytes) : String := if b.isEmpty then "-" else hexOfBytes b

def eolOf : String → Option Eol
  | "lf" => some .lf
  | "crlf" => some .crlf
  | "eof" => some .eof
  | _ => none

def bomOf : String → Option Bom
  | "utf8" => some .utf8
  | "utf16be" => some .utf16be
  | "utf16le" => some .utf16le
  | "utf32be" => some .utf32be
  | _ => none

def quoteOf : String → Option Quote
  | "n" => some .none
  | "s" => some .single
  | "d" => some .double
  | _ => none

def hex16 (n : UInt64) : String :=
  String.ofList ((List.range 16).map fun i => hexDigit ((n.toNat >>> (4 * (15 - i))) % 16))

def dflt : Bytes := [100, 102, 108, 116]      -- "dflt"
def noKey : Bytes := [110, 111, 107, 101, 121] -- "nokey"
def noSec : Bytes := [110, 111, 115, 101, 99]  -- "nosec"

def fmtInt : IntResult → String
  | .val i => toString i
  | .overflow => "ovf"
def fmtBool : BoolResult → String
  | .val true => "1"
  | .val false => "0"
  | .overflow => "ovf"
def fmtList (l : List Bytes) : String := if l.isEmpty then "-" else ",".intercalate (l.map hexD)

/-- all getters for one (section, key), with fixed defaults -/
def getters (f : IniFile) (sec key : Bytes) : String :=
  " s=" ++ hexD ((parameterString f sec key (some dflt)).getD [])
  ++ " i=" ++ fmtInt (parameterInt f sec key (-7))
  ++ " b=" ++ fmtBool (parameterBoolean f sec key true)
  ++ " l=" ++ fmtList (parameterList f sec key)
  ++ " d=" ++ hex16 (parameterDouble f sec key 2.5).toBits
  ++ " e=" ++ (if isKeyExists f sec key then "1" else "0")

def dump (f : IniFile) : String :=
  let secs := sections f
  let body := String.join (secs.map fun s =>
    " S " ++ hexD s ++ String.join ((keys f s).map fun k => " K " ++ hexD k ++ getters f s k))
  let s0 := secs.headD noSec
  let k0 := (keys f s0).headD noKey
  "ok" ++ body ++ " P" ++ getters f s0 noKey ++ " P" ++ getters f noSec k0

/-- getters as the documentation describes them, on a value of the document -/
def specGetters (v : Option Bytes) : String :=
  match v with
  | some v => " s=" ++ hexD v ++ " i=" ++ fmtInt (atoi v) ++ " b=" ++ fmtBool (toBoolean v)
              ++ " l=" ++ fmtList (toList v) ++ " d=*" ++ " e=1"
  | none => " s=" ++ hexD dflt ++ " i=-7 b=1 l=- d=" ++ hex16 (2.5 : Float).toBits ++ " e=0"

def specDump (m : List (Bytes × List (Bytes × Bytes))) : String :=
  "ok" ++ String.join (m.map fun (s, kvs) =>
    " S " ++ hexD s ++ String.join (kvs.map fun (k, v) => " K " ++ hexD k ++ specGetters (some v)))
  ++ " P" ++ specGetters none ++ " P" ++ specGetters none

/-- canonical form used to compare model and spec: sections sorted by name, keys once, no double -/
def canonModel (f : IniFile) : List String :=
  let l := (sections f).map fun s =>
    hexD s ++ String.join ((keys f s).eraseDups.map fun k =>
      " K " ++ hexD k ++ specGetters (findParameter f s k))
  (l.toArray.qsort (· < ·)).toList

def canonSpec (m : List (Bytes × List (Bytes × Bytes))) : List String :=
  let l := m.map fun (s, kvs) =>
    hexD s ++ String.join (kvs.map fun (k, v) => " K " ++ hexD k ++ specGetters (some v))
  (l.toArray.qsort (· < ·)).toList

def St.wf (s : St) : Bool :=
  s.grammar && s.pend == .none && IniSpec.WF ⟨s.bom⟩ s.doc && IniSpec.render ⟨s.bom⟩ s.doc == s.bytes

def addLine (s : St) (l : Line) (hex : Bytes) : St :=
  match s.secs with
  | [] => { s with pre := l :: s.pre, pieces := hex :: s.pieces, pend := .none }
  | x :: xs => { s with secs := { x with body := l :: x.body } :: xs, pieces := hex :: s.pieces, pend := .none }

/-! ### getters with chosen arguments, life cycle, `pstring.c` entry points -/

/-- `NULL`, `-` or hex -/
def argOf (t : String) : Option (Option Bytes) :=
  if t == "NULL" then some none else (hx t).map some

def optHex : Option Bytes → String
  | none => "NULL"
  | some b => hexD b

def u64OfHex (t : String) : Option UInt64 :=
  if t.length != 16 then none
  else t.toList.foldl (fun acc c => do
    let a ← acc
    let v ← hexVal c
    pure (a * 16 + UInt64.ofNat v)) (some 0)

def intOf (t : String) : Option Int :=
  match t.toList with
  | '-' :: r => (String.ofList r).toNat?.map fun n => -(n : Int)
  | _ => t.toNat?.map fun n => (n : Int)

/-- the bits of a returned double; `Float.toBits` canonicalises NaNs, so a default that comes back untouched
(theorem `unparsed_or_null_yields_defaults` / `getter_stored`: it is returned as it was passed) is printed from the bits it was given as -/
def doubleBits (h : Option Handle) (sec key : Option Bytes) (ddef : Float) : String :=
  let r := apiDouble h sec key ddef
  if (apiFind h sec key).isNone && ddef.isNaN then "nan" else hex16 r.toBits

def apiGetters (h : Option Handle) (sec key sdef : Option Bytes) (idef : Int) (bdef : Bool) (ddef : Float) : String :=
  "s=" ++ optHex (apiString h sec key sdef)
  ++ " i=" ++ fmtInt (apiInt h sec key idef)
  ++ " b=" ++ fmtBool (apiBoolean h sec key bdef)
  ++ " l=" ++ fmtList (apiList h sec key)
  ++ " d=" ++ doubleBits h sec key ddef
  ++ " e=" ++ (if apiIsKeyExists h sec key then "1" else "0")
  ++ " n=" ++ toString (apiKeys h sec).length ++ "/" ++ toString (apiKeys h sec).eraseDups.length

/-- the documented answer for a well-formed document -/
def specApiGetters (d : Doc) (sec key sdef : Option Bytes) (idef : Int) (bdef : Bool) (ddef : Float) : String :=
  let v : Option Bytes := match sec, key with
    | some s, some k => IniSpec.docFind d s k
    | _, _ => none
  let n : Nat := match sec with
    | some s => IniSpec.docKeyCount d s
    | none => 0
  (match v with
   | some v => "s=" ++ hexD v ++ " i=" ++ fmtInt (atoi v) ++ " b=" ++ fmtBool (toBoolean v)
               ++ " l=" ++ fmtList (toList v) ++ " d=*" ++ " e=1"
   | none => "s=" ++ optHex sdef ++ " i=" ++ toString idef ++ " b=" ++ (if bdef then "1" else "0")
               ++ " l=- d=" ++ (if ddef.isNaN then "nan" else hex16 ddef.toBits) ++ " e=0")
  ++ " n=*/" ++ toString n

/-- replace the `d=` field by `d=*` (`dbl`) and the total of `n=total/distinct` by `*` -/
def starFields (dbl : Bool) (line : String) : String :=
  " ".intercalate ((line.splitOn " ").map fun t =>
    if dbl && t.startsWith "d=" then "d=*"
    else if t.startsWith "n=" then "n=*/" ++ ((t.splitOn "/").getD 1 "") else t)

def countsCore (h : Option Handle) : String :=
  let secs := apiSections h
  let nk := (secs.map fun s => (apiKeys h (some s)).length).foldl (· + ·) 0
  "S=" ++ toString secs.length ++ " K=" ++ toString nk

def countsOf (h : Option Handle) : String := " " ++ countsCore h ++ " "

def errName : Option ParseError → String
  | none => "none"
  | some .invalidArgument => "invalid"
  | some (.openFailed true) => "notexists"
  | some (.openFailed false) => "other"

def b01 (b : Bool) : String := if b then "1" else "0"

/-- `[zz]␊zk=zv␊[zy]␊zk=1␊`: what the harness writes over the file between the two parse calls -/
def otherContent : Bytes :=
  [91, 122, 122, 93, 10, 122, 107, 61, 122, 118, 10, 91, 122, 121, 93, 10, 122, 107, 61, 49, 10]

def lifeLine (content : Bytes) (sec key : Option Bytes) : String :=
  let path : Bytes := [102]
  let missing : Bytes := [109]
  let fs1 : Bytes → Except Bool Bytes := fun p => if p == path then .ok content else .error true
  let fs2 : Bytes → Except Bool Bytes := fun p => if p == path then .ok otherContent else .error true
  let negZero : Float := Float.ofBits 0x8000000000000000
  let h0 := fileNew (some path)
  let out := "new0=" ++ b01 (fileNew none).isNone
  let out := out ++ " U p=" ++ b01 (fileIsParsed h0) ++ countsOf h0
    ++ apiGetters h0 sec key (some [117]) 0 false negZero
  let out := out ++ " N p=" ++ b01 (fileIsParsed none) ++ countsOf none
    ++ apiGetters none sec key none (-2147483648) true (1.0 / 3.0)
  let (_, r, e) := fileParse fs1 none
  let out := out ++ " r=" ++ b01 r ++ " err=" ++ errName e
  let (h1, r, e) := fileParse fs1 h0
  let out := out ++ " P r=" ++ b01 r ++ " err=" ++ errName e ++ " p=" ++ b01 (fileIsParsed h1) ++ countsOf h1
    ++ apiGetters h1 sec key (some []) 2147483647 false negZero
  let (h2, r, e) := fileParse fs2 h1
  let out := out ++ " Q r=" ++ b01 r ++ " err=" ++ errName e ++ " p=" ++ b01 (fileIsParsed h2) ++ countsOf h2
    ++ apiGetters h2 sec key (some []) 2147483647 false negZero
  let m0 := fileNew (some missing)
  let (m1, r, e) := fileParse fs2 m0
  let out := out ++ " M r=" ++ b01 r ++ " err=" ++ errName e ++ " p=" ++ b01 (fileIsParsed m1)
  let (m2, r, e) := fileParse fs2 m1
  let out := out ++ " M r=" ++ b01 r ++ " err=" ++ errName e ++ " p=" ++ b01 (fileIsParsed m2)
  out ++ countsOf m2 ++ apiGetters m2 sec key (some [109]) (-1) true 2.5

/-- `lifec`: the parse whose `fclose` fails, the second parse after the file changed, then objects for the other outcomes of
`fopen` with the failure armed: `m` a missing file (ENOENT), `e` a path through a regular file (ENOTDIR), `l` a name that is too
long, `d` a directory (opens, `fgets` reads nothing: an empty file) -/
def lifecLine (content : Bytes) (sec key : Option Bytes) : String :=
  let path : Bytes := [102]
  let fsOf (c : Bytes) : Bytes → Except Bool Bytes := fun p =>
    if p == path then .ok c else if p == [100] then .ok [] else if p == [109] then .error true else .error false
  let fs1 := fsOf content
  let fs2 := fsOf otherContent
  let seg (tag : String) (res : (Option Handle × Bool × Option ParseError) × ParseEffects) : String :=
    let ((h, r, e), fx) := res
    tag ++ " r=" ++ b01 r ++ " err=" ++ errName e ++ " p=" ++ b01 (fileIsParsed h) ++ " fc=" ++ toString fx.fcloseCalls
      ++ " w=" ++ toString fx.warnings
  let r1 := fileParseClose fs1 false (fileNew (some path))
  let out := seg "C" r1 ++ countsOf r1.1.1 ++ apiGetters r1.1.1 sec key (some [99]) 7 true 0.5
  let r2 := fileParseClose fs2 false r1.1.1
  let out := out ++ " " ++ seg "Q" r2 ++ countsOf r2.1.1 ++ apiGetters r2.1.1 sec key (some [99]) 7 true 0.5
  [("X", [109]), ("E", [101]), ("L", [108]), ("D", [100])].foldl (fun (out : String) (tp : String × Bytes) =>
    let r := fileParseClose fs2 false (fileNew (some tp.2))
    out ++ " " ++ seg tp.1 r ++ " " ++ countsCore r.1.1) out

/-- the call sequence of the harness: call `i` uses delimiter set `min i (nd - 1)` -/
def strtokCalls (delims : Array (Option Bytes)) : Nat → Nat → Option Bytes → Bytes → String → String
  | 0, _, _, _, out => out
  | fuel + 1, call, cur, save, out =>
    match delims.getD (min call (delims.size - 1)) none with
    | none =>
      let out := out ++ " ret=" ++ (if cur.isSome then "str" else "NULL")
      if call + 1 ≥ delims.size then out else strtokCalls delims fuel (call + 1) cur save out
    | some d =>
      let text := match cur with
        | some s => s
        | none => save
      match strtokR (cstr d) text with
      | none => out
      | some (tok, rest) => strtokCalls delims fuel (call + 1) none rest (out ++ " " ++ hexD tok)

def step2 (s : St) (toks : List String) : Option (IO Unit) :=
  match toks with
  | [op, sec, key, sdef, idef, bdef, ddef] =>
    if op != "get" && op != "gget" then none else
    match argOf sec, argOf key, argOf sdef, intOf idef, bdef.toNat?, u64OfHex ddef with
    | some sec, some key, some sdef, some idef, some bdef, some dbits =>
      if bdef > 1 || idef > 2147483647 || idef < -2147483648 then some (IO.println "bad-op") else
      let dd := Float.ofBits dbits
      let (h, _, _) := fileParse (fun _ => .ok s.bytes) (fileNew (some [102]))
      let m := apiGetters h sec key sdef idef (bdef == 1) dd
      if op == "gget" && s.wf then
        let sp := specApiGetters s.doc (sec.map cstr) (key.map cstr) (sdef.map cstr) idef (bdef == 1) dd
        let mv := starFields (apiFind h sec key).isSome m
        some (IO.println (if mv == sp then m else m ++ " SPECDIFF " ++ sp))
      else some (IO.println m)
    | _, _, _, _, _, _ => some (IO.println "bad-op")
  | ["life", sec, key] =>
    match argOf sec, argOf key with
    | some sec, some key => some (IO.println (lifeLine s.bytes sec key))
    | _, _ => some (IO.println "bad-op")
  | ["lifec", sec, key] =>
    match argOf sec, argOf key with
    | some sec, some key => some (IO.println (lifecLine s.bytes sec key))
    | _, _ => some (IO.println "bad-op")
  | ["chomp", x] =>
    match argOf x with
    | some a =>
      let m := optHex (strchomp a)
      let sp := optHex (a.map fun b => IniSpec.trim (cstr b))
      some (IO.println (if m == sp then m else m ++ " SPECDIFF " ++ sp))
    | none => some (IO.println "bad-op")
  | ["strdup", x] =>
    match argOf x with
    | some a => some (IO.println (optHex (strdup a) ++ " distinct=1"))
    | none => some (IO.println "bad-op")
  | ["strtod", x] =>
    match argOf x with
    | some a => some (IO.println ("d=" ++ hex16 (strtodApi a).toBits))
    | none => some (IO.println "bad-op")
  | ["strtokb", x, d] =>
    match argOf x, argOf d with
    | some a, some _ => some (IO.println ("ret=" ++ (if a.isSome then "str" else "NULL")))
    | _, _ => some (IO.println "bad-op")
  | "strtok" :: x :: d1 :: ds =>
    match argOf x, (d1 :: ds).mapM argOf with
    | some (some str), some delims =>
      if delims.length > 16 then some (IO.println "bad-op") else
      let m := strtokCalls delims.toArray 4096 0 (some (cstr str)) [] "T"
      -- the documented reading applies to the documented loop: one delimiter set, never NULL
      match delims with
      | [some d] =>
        let sp := String.join ((IniSpec.tokens (cstr d) (cstr str)).map fun t => " " ++ hexD t)
        some (IO.println (if m == "T" ++ sp then m else m ++ " SPECDIFF T" ++ sp))
      | _ => some (IO.println m)
    | _, _ => some (IO.println "bad-op")
  | _ => none

def step (s : St) (toks : List String) : IO (St × Bool) := do
  let bad : IO (St × Bool) := do IO.println "bad-op"; return ({ s with grammar := false }, false)
  let dot (s' : St) : IO (St × Bool) := do IO.println "."; return (s', false)
  match toks with
  | ["reset"] => IO.println "ok"; return ({}, false)
  | ["raw", h] =>
    match hx h with
    | some b => dot { s with pieces := b :: s.pieces, grammar := false }
    | none => bad
  | ["bom", k, h] =>
    match bomOf k, hx h with
    | some b, some hb =>
      if s.pieces.isEmpty && hb == b.bytes then dot { s with bom := b, pieces := [hb] }
      else if s.pend == .none && hb == b.bytes then dot { s with pend := b, pieces := hb :: s.pieces }
      else if hb == b.bytes then dot { s with grammar := false, pieces := hb :: s.pieces }   -- two marks in a row: bytes only
      else bad
    | _, _ => bad
  | ["blk", ws, e, h] =>
    match hx ws, eolOf e, hx h with
    | some ws, some e, some hb =>
      let l : Line := ⟨.blank ws, e, s.pend⟩
      if l.core == hb then dot (addLine s l hb) else bad
    | _, _, _ => bad
  | ["cmt", lead, m, text, e, h] =>
    match hx lead, m.toNat?, hx text, eolOf e, hx h with
    | some lead, some m, some text, some e, some hb =>
      let l : Line := ⟨.comment lead ⟨UInt8.ofNat m, text⟩, e, s.pend⟩
      if l.core == hb then dot (addLine s l hb) else bad
    | _, _, _, _, _ => bad
  | ["hdr", lead, pre, name, post, trail, e, h] =>
    match hx lead, hx pre, hx name, hx post, hx trail, eolOf e, hx h with
    | some lead, some pre, some name, some post, some trail, some e, some hb =>
      let hd : Header := ⟨lead, pre, name, post, trail, e, s.pend⟩
      if hd.core == hb then dot { s with secs := ⟨hd, []⟩ :: s.secs, pieces := hb :: s.pieces, pend := .none } else bad
    | _, _, _, _, _, _, _ => bad
  | ["ent", lead, key, pre, post, q, value, trail, cm, ct, e, h] =>
    match hx lead, hx key, hx pre, hx post, quoteOf q, hx value, hx trail with
    | some lead, some key, some pre, some post, some q, some value, some trail =>
      match cm.toNat?, hx ct, eolOf e, hx h with
      | some cm, some ct, some e, some hb =>
        let c : Option Comment := if cm == 0 then none else some ⟨UInt8.ofNat cm, ct⟩
        let l : Line := ⟨.entry ⟨lead, key, pre, post, q, value, trail, c⟩, e, s.pend⟩
        if l.core == hb then dot (addLine s l hb) else bad
      | _, _, _, _ => bad
    | _, _, _, _, _, _, _ => bad
  | ["wfcheck"] => IO.println (if s.wf then "wf" else "notwf"); return (s, false)
  | ["fifo", _] => IO.println "ok"; return (s, false)   -- how the bytes reach the parser (regular file / named pipe) does not matter
  | ["parse"] => IO.println (dump (parse s.bytes)); return (s, false)
  | ["gparse"] =>
    let f := parse s.bytes
    let d := dump f
    if s.wf then
      let m := IniSpec.meaning s.doc
      if canonModel f == canonSpec m then IO.println d
      else IO.println (d ++ " SPECDIFF " ++ specDump m)
    else IO.println d
    return (s, false)
  | _ =>
    match step2 s toks with
    | some act => act; return (s, false)
    | none => bad

def run : IO Unit := do
  let _ ← forEachLine (← IO.getStdin) St {} step
  return ()

end PV.Driver.Ini

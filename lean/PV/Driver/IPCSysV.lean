import PV.Model.IPCSysV
import PV.Spec.IPC
import PV.Driver.Util
/-! driver for the System V variants of the IPC family (`pvdriver ipcsysv`, `pvdriver ipcsysv-reuse` = key files on a
file system that reuses inode numbers).  Same line protocol as harness/ipc_sysv.c:
  W new-sem H sN INIT OPEN|CREATE | W acq H | W rel H | W own H | W free H
  W new-shm H mN SIZE [ro] | W lock H | W unlock H | W wr H OFF BYTE | W rd H OFF | W size H
  W crash K <op…> | W crashA K <op…> | W eintr N1,N2,… <op…> | W kill | obs | reset
answer: `<system calls> => <result>` (+ ` SPECDIFF <spec result>`), obs: `<api view> || <internal view>`.
The model column is what PV.Model.IPCSysV predicts; the spec column is PV.Spec.IPC (as in the posix driver); after a
crash op the spec promises nothing about the names involved: no spec column until `reset`. -/
namespace PV.Driver.IPCSysV
open PV.SysV PV.Generated.IPCSysV

def NW : Nat := 3
def NN : Nat := 4
def NH : Nat := 16

structure St where
  g : G
  sp : IPCSpec.S := {}
  wpid : List Nat := [0, 1, 2]
  nextPid : Nat := 3
  specValid : Bool := true

def St.fresh (reuse : Bool) : St := { g := G.init id reuse }

def errName : Errno → String
  | .EINTR => "EINTR" | .EEXIST => "EEXIST" | .ENOENT => "ENOENT" | .EINVAL => "EINVAL"
  | .EIDRM => "EIDRM" | .ERANGE => "ERANGE" | .EACCES => "EACCES"

def fileName : KeyFile → String
  | .sem n => s!"s{n}"
  | .shm n => s!"m{n}"
  | .lock n => s!"m{n}.l"

def sysName (f : KeyFile) : Sys → String
  | .open g fl m => s!"open({fileName g})/{fl}/{m}"
  | .close _ => "close"
  | .stat g => s!"stat({fileName g})"
  | .ftok g pr => s!"ftok({fileName g})/{pr}"
  | .unlink g => s!"unlink({fileName g})"
  | .semget _ n fl => s!"semget({fileName f})/{n}/{fl}"
  | .semctl _ cmd v => s!"semctl/{cmd}/{v}"
  | .semop _ num op flg => s!"semop/{num}/{op}/{flg}"
  | .shmget _ sz fl => s!"shmget({fileName f})/{sz}/{fl}"
  | .shmctl _ cmd => s!"shmctl/{cmd}"
  | .shmat _ fl => s!"shmat/{fl}"
  | .shmdt _ => "shmdt"

def evStr (e : Ev) : String :=
  let r := match e.res with
    | .ok _ => "ok"
    | .stat sz n => s!"{sz}:{n}"
    | .err x => errName x
    | .block => "BLOCK"
  sysName e.file e.sys ++ "=" ++ r

def retStr : Option Ret → String
  | some (.sem _) => "ok"
  | some (.shm h) => s!"ok {h.size}"
  | some .unit => "ok"
  | some (.fail e) => s!"fail /{e.num}"
  | some (.byte b) => hexByte b
  | some (.size n) => toString n
  | some .fault => "fault"
  | some .bad => "bad-op"
  | none => "bad-op"

def specStr : IPCSpec.R → String
  | .ok => "ok" | .okSize n => s!"ok {n}" | .fail => "fail" | .byte b => hexByte b | .size n => toString n
  | .fault => "fault" | .wouldBlock => "would-block" | .bad => "bad-op"

def apiOf (s : String) : String := if s.startsWith "fail" then "fail" else s

def parseName (pfx : Char) (s : String) : Option Nat :=
  match s.toList with
  | c :: rest => if c = pfx then (String.ofList rest).toNat?.bind fun n => if n < NN then some n else none else none
  | [] => none

def parseOp (toks : List String) : Option Op :=
  match toks with
  | ["new-sem", h, n, i, m] => do
    let h ← h.toNat?; let n ← parseName 's' n; let i ← i.toNat?
    let m ← (if m = "OPEN" then some Mode.open else if m = "CREATE" then some Mode.create else none)
    if h < NH then some (.newSem h n i m) else none
  | ["new-shm", h, n, sz] => do
    let h ← h.toNat?; let n ← parseName 'm' n; let sz ← sz.toNat?
    if h < NH then some (.newShm h n sz false) else none
  | ["new-shm", h, n, sz, "ro"] => do
    let h ← h.toNat?; let n ← parseName 'm' n; let sz ← sz.toNat?
    if h < NH then some (.newShm h n sz true) else none
  | ["acq", h] => h.toNat?.map .acq
  | ["rel", h] => h.toNat?.map .rel
  | ["own", h] => h.toNat?.map .own
  | ["free", h] => h.toNat?.map .free
  | ["lock", h] => h.toNat?.map .lock
  | ["unlock", h] => h.toNat?.map .unlock
  | ["size", h] => h.toNat?.map .size
  | ["rd", h, off] => do let h ← h.toNat?; let off ← off.toNat?; some (.rd h off)
  | ["wr", h, off, b] => do
    let h ← h.toNat?; let off ← off.toNat?; let b ← b.toNat?
    if b < 256 then some (.wr h off (UInt8.ofNat b)) else none
  | _ => none

def specOp (sp : IPCSpec.S) (pid : Nat) : Op → IPCSpec.S × IPCSpec.R
  | .newSem h n i m => IPCSpec.newSem sp pid h n i (m == .create)
  | .acq h => IPCSpec.acquire sp pid h
  | .rel h => IPCSpec.release sp pid h
  | .own h => IPCSpec.own sp pid h
  | .free h => IPCSpec.free sp pid h
  | .newShm h k sz _ => IPCSpec.newShm sp pid h k sz
  | .lock h => IPCSpec.lock sp pid h
  | .unlock h => IPCSpec.unlock sp pid h
  | .wr h off b => IPCSpec.wr sp pid h off b
  | .rd h off => (sp, IPCSpec.rd sp pid h off)
  | .size h => (sp, IPCSpec.size sp pid h)

def traceSince (g0 g1 : G) : String :=
  let evs := (g1.log.take (g1.log.length - g0.log.length)).reverse
  " ".intercalate (evs.map evStr)

def blocked (g : G) (g0 : G) : Bool :=
  g.log.length > g0.log.length && (match g.log with | ⟨_, _, _, .block, _⟩ :: _ => true | _ => false)

def cksum (l : List UInt8) : Nat :=
  (l.foldl (fun (acc : Nat × Nat) b => (acc.1 + 1, (acc.2 + (acc.1 + 1) * b.toNat) % 65521)) (0, 0)).2

def widx (s : St) (pid : Nat) : String :=
  match s.wpid.findIdx? (· = pid) with
  | some i => toString i
  | none => "?"

/-- the set / segment a key file currently names (what `semget (ftok (file), 0, 0)` finds) -/
def semOfFile (os : OS) (f : KeyFile) : Option SemId := (os.files f).bind fun i => os.semKeys (ftokOf i)
def segOfFile (os : OS) (f : KeyFile) : Option SegId := (os.files f).bind fun i => os.shmKeys (ftokOf i)

def pm (b : Bool) : String := if b then "+" else "-"

def obsModel (s : St) : String × String :=
  let os := s.g.os
  let sems := (List.range NN).map fun n =>
    match semOfFile os (.sem n) with
    | some i => s!"s{n}={(os.sems i).value}"
    | none => s!"s{n}=-"
  let shms := (List.range NN).map fun k =>
    match segOfFile os (.shm k) with
    | some seg =>
      let lk := match semOfFile os (.lock k) with
        | some i => toString (os.sems i).value
        | none => "1"
      s!"m{k}={(os.segs seg).bytes.length}/{lk}"
    | none => s!"m{k}=-"
  let hs := (List.range NH).filterMap fun h =>
    match s.g.hs h with
    | some (pid, .shm x) =>
      let v := match (addrOpt x.addr).bind fun a => findAtt (os.procs pid) a with
        | some a =>
          let bs := (os.segs a.seg).bytes
          if x.size ≤ bs.length then s!"{x.size}:{hexOfBytes ((bs.take x.size).take 8)}:{cksum (bs.take x.size)}" else s!"{x.size}:FAULT"
        | none => s!"{x.size}:FAULT"
      some s!"H{h}@{widx s pid}={v}"
    | _ => none
  let counts := (List.range NW).flatMap fun w =>
    (List.range NN).filterMap fun k =>
      let pid := s.wpid.getD w 0
      let n := ((os.procs pid).atts.filter fun a => (os.segs a.seg).name = k).length
      if n = 0 then none else some s!"w{w}:m{k}#{n}"
  let isems := (List.range NN).map fun n => s!"s{n}.f={pm (os.files (.sem n)).isSome}"
  let ishms := (List.range NN).flatMap fun k =>
    let na := match segOfFile os (.shm k) with
      | some seg => [s!"m{k}.nattch={(os.segs seg).nattch}"]
      | none => []
    na ++ [s!"m{k}.f={pm (os.files (.shm k)).isSome}", s!"m{k}.l={pm (semOfFile os (.lock k)).isSome}/f{pm (os.files (.lock k)).isSome}"]
  (" ".intercalate (sems ++ shms ++ hs ++ counts), " ".intercalate (isems ++ ishms))

def obsSpec (s : St) : String :=
  let sp := s.sp
  let sems := (List.range NN).map fun n =>
    match sp.semOf n with
    | some i => s!"s{n}={sp.ctr i}"
    | none => s!"s{n}=-"
  let shms := (List.range NN).map fun k =>
    match sp.shmOf k with
    | some i =>
      let lk := match sp.lock i with
        | some v => toString v
        | none => "1"
      s!"m{k}={(sp.mem i).length}/{lk}"
    | none => s!"m{k}=-"
  let hs := (List.range NH).filterMap fun h =>
    match sp.hs h with
    | some x =>
      if x.kind = .shm then
        let bs := sp.mem x.inc
        some (if x.size ≤ bs.length then s!"H{h}@{widx s x.pid}={x.size}:{hexOfBytes ((bs.take x.size).take 8)}:{cksum (bs.take x.size)}"
              else s!"H{h}@{widx s x.pid}={x.size}:FAULT")
      else none
    | none => none
  let counts := (List.range NW).flatMap fun w =>
    (List.range NN).filterMap fun k =>
      let pid := s.wpid.getD w 0
      let n := ((List.range NH).filter fun h =>
        match sp.hs h with
        | some x => x.kind = .shm ∧ x.pid = pid ∧ x.name = k
        | none => false).length
      if n = 0 then none else some s!"w{w}:m{k}#{n}"
  " ".intercalate (sems ++ shms ++ hs ++ counts)

def withSpec (valid : Bool) (tr res sp : String) : String :=
  let m := tr ++ " => " ++ res
  if !valid || apiOf res = sp then m else m ++ " SPECDIFF " ++ sp

def parseScript (s : String) : Option (List Nat) := (s.splitOn ",").mapM (·.toNat?)

def respawn (s : St) (w : Nat) : St :=
  { s with wpid := s.wpid.set w s.nextPid, nextPid := s.nextPid + 1 }

/-- a sequential op of worker `w`; returns (state, answer, stop) -/
def seqOp (s : St) (w : Nat) (op : Op) (script : List Nat) : St × String × Bool :=
  let pid := s.wpid.getD w 0
  let g0 := s.g
  let g1 := g0.call pid op script
  let tr := traceSince g0 g1
  if blocked g1 g0 then ({ s with g := g1 }, tr ++ " => would-block", true)
  else if (g1.calls pid).isSome then ({ s with g := g1 }, tr ++ " => out-of-fuel", true)
  else
    let res := retStr (g1.ret pid)
    if res == "bad-op" then (s, "bad-op", false) else
    let (sp', r) := specOp s.sp pid op
    ({ s with g := g1, sp := sp' }, withSpec s.specValid tr res (specStr r), res == "fault")

def stepN (g : G) (t : Tid) : Nat → G
  | 0 => g
  | n + 1 => if (g.calls t).isSome then stepN (g.step t false) t n else g

def crashOp (s : St) (w k : Nat) (op : Op) : St × String × Bool :=
  let pid := s.wpid.getD w 0
  let g0 := s.g
  let g1 := stepN (g0.start pid op) pid k
  let started := (g0.start pid op).calls pid |>.isSome
  if !started ∨ ((g1.calls pid).isNone ∧ g1.log.length - g0.log.length < k) then
    seqOp s w op []        -- the call makes fewer than k system calls: it simply completes
  else if blocked g1 g0 then ({ s with g := g1 }, "would-block", true)
  else
    let tr := traceSince g0 g1
    let s1 := { s with g := g1.kill pid, sp := IPCSpec.kill s.sp pid, specValid := false }
    (respawn s1 w, tr ++ " => crashed", false)

def step (reuse : Bool) (s : St) (toks : List String) : IO (St × Bool) := do
  let out (r : St × String × Bool) : IO (St × Bool) := do
    IO.println r.2.1
    return (r.1, r.2.2)
  let bad : IO (St × Bool) := do IO.println "bad-op"; return (s, false)
  match toks with
  | ["obs"] =>
    let (api, internal) := obsModel s
    let spA := obsSpec s
    IO.println (if !s.specValid || api = spA then api ++ " || " ++ internal else api ++ " || " ++ internal ++ " SPECDIFF " ++ spA)
    return (s, false)
  | ["reset"] => IO.println "ok"; return (St.fresh reuse, false)
  | w :: rest =>
    match w.toNat? with
    | some w =>
      if w ≥ NW then bad else
      match rest with
      | ["kill"] =>
        let pid := s.wpid.getD w 0
        IO.println "ok"
        return (respawn { s with g := s.g.kill pid, sp := IPCSpec.kill s.sp pid } w, false)
      | "crash" :: k :: optoks | "crashA" :: k :: optoks =>
        match k.toNat?, parseOp optoks with
        | some k, some op => out (crashOp s w k op)
        | _, _ => bad
      | "eintr" :: sc :: optoks =>
        match parseScript sc, parseOp optoks with
        | some sc, some op => out (seqOp s w op sc)
        | _, _ => bad
      | optoks =>
        match parseOp optoks with
        | some op => out (seqOp s w op [])
        | none => bad
    | none => bad
  | [] => bad

def run (reuse : Bool := false) : IO Unit := do
  let _ ← forEachLine (← IO.getStdin) St (St.fresh reuse) (step reuse)
  return ()

end PV.Driver.IPCSysV

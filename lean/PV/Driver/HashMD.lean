import PV.Model.Hash.Dispatch
import PV.Spec.Hash
import PV.Driver.Util
/-! driver for the crypto-hash family `hashmd` (C11: MD5, SHA-1, SHA-2).  Protocol of
    `harness/hash.c`: `use K | new ALG | newt N | free | upd HEX | updoK HEX | updz N | updn N | str | dig [BUFLEN] | dign CAP |
    dignl | len | type | reset | nullh | par T:R:HEX` (four handle slots, each with its own object).
    The answer is the streaming model's; when the one-shot specification `H` of the bytes updated
    since creation / the last reset before the first read differs, ` SPECDIFF <spec answer>` is
    appended.  The specification column needs the whole message in memory: it is not evaluated
    once more than `specMax` bytes were passed (the `≥ 2^32` cases of the thorough tier; there the
    check's independent `hashlib` oracle is the specification). -/
namespace PV.Driver.HashMD
open PV.Hash

def specMax : Nat := 1 <<< 26

def algOfName : String → Option HashType
  | "md5" => some .md5 | "sha1" => some .sha1 | "sha224" => some .sha224
  | "sha256" => some .sha256 | "sha384" => some .sha384 | "sha512" => some .sha512
  | _ => none

structure St where
  h : Option ((t : HashType) × PHash t) := none
  /-- bytes updated since creation / last reset, before the first read (`none`: too many to keep) -/
  msg : Option ByteArray := some ByteArray.empty
  /-- a digest was read since the last reset -/
  read : Bool := false

def St.specAdd (s : St) (n : Nat) (bytes : Unit → ByteArray) : St :=
  if s.read then s else
  match s.msg with
  | none => s
  | some m => if m.size + n > specMax then { s with msg := none } else { s with msg := some (m ++ bytes ()) }

def specDigest (s : St) (t : HashType) : Option (List UInt8) := s.msg.map fun m => (Spec.ofType t).H m

/-- `T:R:HEX` of the `par` op -/
def parArgs (a : String) : Option (Nat × Nat × List UInt8) :=
  match a.splitOn ":" with
  | [t, r, hex] => do
    let t ← t.toNat?
    let r ← r.toNat?
    let b ← bytesOfHex hex
    if 1 ≤ t ∧ t ≤ 16 then some (t, r, b) else none
  | _ => none

def updoOps : List String := ["updo1", "updo2", "updo3", "updo4", "updo5", "updo6", "updo7"]

/-- one op on one handle slot -/
def slotStep (s : St) (toks : List String) : IO (St × Bool) := do
  -- the harness reads at most two tokens (`sscanf ("%15s %s")`); `updoK` is `upd` with unaligned input
  let toks := match toks.take 2 with
    | [op, a] => if updoOps.contains op then ["upd", a] else [op, a]
    | t => t
  match toks, s.h with
  | ["newt", c], _ =>
    match c.toInt? with
    | none => IO.println "bad-op"; return ({ }, false)
    | some c =>
      if !typeAccepted c then IO.println "fail"; return ({ }, false)
      else match HashType.ofCode c with
        | some t => IO.println "ok"; return ({ h := some ⟨t, PHash.new t⟩ }, false)
        | none => IO.println "bad-op"; return ({ }, false)    -- a type of the other family
  | ["new", a], _ =>
    match algOfName a with
    | some t => IO.println "ok"; return ({ h := some ⟨t, PHash.new t⟩ }, false)
    | none => IO.println "bad-op"; return ({ s with h := none }, false)
  | _, none => IO.println "bad-op"; return (s, false)
  | ["upd", hex], some ⟨t, h⟩ =>
    match bytesOfHex hex with
    | some l =>
      let b := l.toByteArray
      IO.println "ok"
      return ({ s.specAdd b.size (fun _ => b) with h := some ⟨t, h.update b⟩ }, false)
    | none => IO.println "bad-op"; return (s, false)
  | ["updz", n], some ⟨t, h⟩ =>
    match n.toNat? with
    | some n =>
      IO.println "ok"
      return ({ s.specAdd n (fun _ => zeroBytes n) with h := some ⟨t, h.update { bytes := ByteArray.empty, zeros := n }⟩ }, false)
    | none => IO.println "bad-op"; return (s, false)
  | ["strf"], some ⟨t, h⟩ =>
    -- p_crypto_hash_get_string whose result string cannot be allocated: the digest is finalised (and the object closed) as
    -- by a successful read, NULL is returned
    let (h', _) := h.getString
    IO.println "null"
    return ({ s with h := some ⟨t, h'⟩, read := true }, false)
  | ["str"], some ⟨t, h⟩ =>
    let (h', str) := h.getString
    let sp := (specDigest s t).map hexOf
    IO.println (str ++ (match sp with | some x => if x = str then "" else " SPECDIFF " ++ x | none => ""))
    return ({ s with h := some ⟨t, h'⟩, read := true }, false)
  | "dig" :: rest, some ⟨t, h⟩ =>
    let cap? : Option Nat := match rest with | [] => some 64 | [c] => c.toNat? | _ => none
    match cap? with
    | none => IO.println "bad-op"; return (s, false)
    | some cap =>
      let (h', r) := h.getDigest cap
      let fmt : Option (List UInt8) → String
        | none => "0 "
        | some d => toString d.length ++ " " ++ hexOfBytes d
      let ans := fmt r
      let sp := if t.hashLen > cap then some "0 " else (specDigest s t).map fun d => fmt (some d)
      IO.println (ans ++ (match sp with | some x => if x = ans then "" else " SPECDIFF " ++ x | none => ""))
      return ({ s with h := some ⟨t, h'⟩, read := s.read || r.isSome }, false)
  | ["len"], some ⟨_, h⟩ => IO.println (toString h.getLength); return (s, false)
  | ["type"], some ⟨_, h⟩ => IO.println (toString h.getType); return (s, false)
  | ["free"], some _ => IO.println "ok"; return ({ }, false)
  | ["updn", n], some ⟨t, h⟩ =>
    match n.toNat? with
    | some n => IO.println "ok"; return ({ s with h := some ⟨t, h.updateNull n⟩ }, false)
    | none => IO.println "bad-op"; return (s, false)
  | ["dign", c], some ⟨t, h⟩ =>
    match c.toNat? with
    | some cap =>
      let (h', n) := h.getDigestNullBuf cap
      IO.println (toString n ++ " ")
      return ({ s with h := some ⟨t, h'⟩ }, false)
    | none => IO.println "bad-op"; return (s, false)
  | ["dignl"], some ⟨t, h⟩ => IO.println "ok"; return ({ s with h := some ⟨t, h.getDigestNullLen⟩ }, false)
  | ["par", a], some ⟨t, _⟩ =>
    match parArgs a with
    | none => IO.println "bad-op"; return (s, false)
    | some (_, r, l) =>
      -- every thread owns its object: each one's answer is that of a fresh object updated `r` times
      let b := l.toByteArray
      let h := (List.range r).foldl (fun (h : PHash t) _ => h.update b) (PHash.new t)
      let str := h.getString.2
      let msg := (List.range r).foldl (fun (m : ByteArray) _ => m ++ b) ByteArray.empty
      let sp := if msg.size ≤ specMax then some (hexOf ((Spec.ofType t).H msg)) else none
      IO.println (str ++ (match sp with | some x => if x = str then "" else " SPECDIFF " ++ x | none => ""))
      return (s, false)
  | ["reset"], some ⟨t, h⟩ => IO.println "ok"; return ({ h := some ⟨t, h.reset⟩ }, false)
  | _, _ => IO.println "bad-op"; return (s, false)

/-- the four handle slots of the harness and the selected one -/
structure Slots where
  slots : Array St := #[{}, {}, {}, {}]
  cur : Nat := 0

def step (z : Slots) (toks : List String) : IO (Slots × Bool) := do
  match toks.take 2 with
  | ["use", k] =>
    match k.toNat? with
    | some k => if k < 4 ∧ toks.length = 2 then IO.println "ok"; return ({ z with cur := k }, false)
                else IO.println "bad-op"; return (z, false)
    | none => IO.println "bad-op"; return (z, false)
  | ["nullh"] =>
    let (s, n, l, t) := nullAnswers
    IO.println (s.getD "null" ++ " " ++ toString n ++ " " ++ toString l ++ " " ++ toString t)
    return (z, false)
  | _ =>
    let (s', stop) ← slotStep (z.slots.getD z.cur {}) toks
    return ({ z with slots := z.slots.setIfInBounds z.cur s' }, stop)

def run : IO Unit := do
  let _ ← forEachLine (← IO.getStdin) Slots {} step
  return ()

end PV.Driver.HashMD

import PV.Model.SockAddr
import PV.Model.Inet6Text
import PV.Spec.SockAddr
import PV.Driver.Util
/-! Driver for the socket-address family (C17).  Protocol: see `harness/sockaddr.c`.

One answer line per op; the answer is the *model's* (`PV.SockAddr`), with the platform functions
(`inet_pton`, `inet_ntop`, `getaddrinfo`) taken from the annotation after `|` on the op line (written by
`sockaddr platform`, the harness's annotate mode).  When the spec (`PV.SockAddr.Spec`: explicit
byte layout, byte-wise classification, the concrete glibc IPv4 text functions `ntop4`/`pton4`,
"creation succeeds exactly for what the platform accepts") answers differently, the line is
suffixed with ` SPECDIFF <spec answer>`.  A model-predicted out-of-bounds access prints `fault` and stops.

`tonativebig` / `fromnativebig` (stated lengths 64 … 2^33; the harness owns one mapping of that size): the answer is
computed from the first 64 bytes — `PV.Props.C17.to_native_length_monotone` / `from_native_length_monotone` say that
this is the model's answer for the stated length (result, first 64 bytes, everything behind them untouched).

The ops `ntop6` / `ntop4` / `pton` do not involve the library: the harness answers with the real `inet_ntop` /
`inet_pton` / `getaddrinfo`, this driver with their Lean model (`PV.Model.Inet6Text`, `ntop4`/`pton4`). -/
namespace PV.Driver.SockAddr
open PV.SockAddr PV.Driver PV.Generated

def vecOf (n : Nat) (l : List UInt8) : Option (Vector UInt8 n) :=
  if h : l.length = n then some ⟨l.toArray, by simpa using h⟩ else none

def natTok (s : String) (max : Nat) : Option Nat :=
  if s.isEmpty || !(s.toList.all Char.isDigit) then none
  else match s.toNat? with
    | some n => if n ≤ max then some n else none
    | none => none

/-- canonical address at the head of the tokens -/
def parseAddr : List String → Option (Addr × List String)
  | "v4" :: a :: p :: rest => do
    let a ← (bytesOfHex a).bind (vecOf 4)
    let p ← natTok p 65535
    some (.v4 a (UInt16.ofNat p), rest)
  | "v6" :: a :: p :: f :: s :: rest => do
    let a ← (bytesOfHex a).bind (vecOf 16)
    let p ← natTok p 65535
    let f ← natTok f 0xffffffff
    let s ← natTok s 0xffffffff
    some (.v6 a (UInt16.ofNat p) (UInt32.ofNat f) (UInt32.ofNat s), rest)
  | _ => none

def hexOr (l : List UInt8) : String := if l.isEmpty then "-" else hexOfBytes l
def b01 (b : Bool) : String := if b then "1" else "0"
def pattern (n : Nat) : Buf := List.replicate n 0xA5

/-- DUMP as the model sees the object (`spec := true`: classification and native image from the spec) -/
def dumpWith (spec : Bool) (a : Addr) : Res String := do
  let sz := nativeSize a
  let (ok, nat) ← if spec then pure (true, Spec.encode a) else toNative a (pattern sz) sz
  let any := if spec then Spec.isAny a else isAny a
  let loop := if spec then Spec.isLoopback a else isLoopback a
  return s!"fam={family a} port={(port a).toNat} flow={(flowInfo a).toNat} scope={(scopeId a).toNat} size={sz} any={b01 any} loop={b01 loop}" ++
    (if ok then s!" plat={b01 (Spec.isAny a)}{b01 (Spec.isLoopback a)} nat={hexOr nat}" else " plat=-- nat=fail")

def dumpOpt (spec : Bool) : Option Addr → Res String
  | none => pure "none"
  | some a => dumpWith spec a

/-- platform answers for one string, from the annotation -/
structure Ann where
  str : List UInt8
  p4 : Option (Vector UInt8 4)
  p6 : Option (Vector UInt8 16)
  gai : Option (Nat × Buf)
  text : String        -- the annotation as written (echoed in the answer)

def optHex (n : Nat) (s : String) : Option (Option (Vector UInt8 n)) :=
  if s = "-" then some none else ((bytesOfHex s).bind (vecOf n)).map some

def parseGai (s : String) : Option (Option (Nat × Buf)) :=
  if s = "-" then some none
  else match s.splitOn ":" with
    | [f, h] => do
      let f ← natTok f 65535
      let h ← bytesOfHex h
      some (some (f, h))
    | _ => none

def parseAnn (str : List UInt8) : List String → Option Ann
  | [a, b, c] =>
    if a.startsWith "p4=" && b.startsWith "p6=" && c.startsWith "gai=" then do
      let p4 ← optHex 4 (a.drop 3).toString
      let p6 ← optHex 16 (b.drop 3).toString
      let g ← parseGai (c.drop 4).toString
      some { str, p4, p6, gai := g, text := s!"{a} {b} {c}" }
    else none
  | _ => none

/-- the platform as far as the annotation tells; a query about any other string has no recorded answer -/
def platformOf (an : Ann) (ntop : List UInt8) : Platform where
  pton4 s := if s = an.str then an.p4 else none
  pton6 s := if s = an.str then an.p6 else none
  getaddrinfo s := if s = an.str then an.gai else none
  ntop4 _ := ntop
  ntop6 _ := ntop

/-- "creation succeeds exactly for the numeric address strings the platform accepts", with the concrete
    IPv4 rule: IPv4 by `pton4`; otherwise whatever the platform's IPv6 view (getaddrinfo, which also knows
    `%scope`, else inet_pton) says.  `none` in the outer option: the platform's two IPv6 parsers disagree. -/
def specNew (an : Ann) (port : UInt16) : Option (Option Addr) :=
  match pton4 an.str with
  | some a => some (some (.v4 a port))
  | none =>
    let viaGai : Option Addr := match an.gai with
      | some (10, sa) => match Spec.decode sa sa.length with
        | some (.v6 a _ f s) => some (.v6 a port f s)
        | _ => none
      | _ => none
    match an.p6, viaGai with
    | some a, some (.v6 a' _ _ s) => if a = a' ∧ s = 0 then some viaGai else none
    | some _, _ => none
    | none, v => some (if an.str.contains 58 then v else none)

def finish (model : Res String) (spec : Option (Res String)) (tail : String := "") : IO Bool := do
  match model with
  | .fault => IO.println "fault"; return true
  | .ok m =>
    let sd := match spec with
      | some (.ok s) => if s = m then "" else " SPECDIFF " ++ s ++ tail
      | some .fault => " SPECDIFF fault"
      | none => ""
    IO.println (m ++ tail ++ sd)
    return false

def toNativeOp (a : Addr) (destlen : Nat) : Res String := do
  let (ok, d) ← toNative a (pattern destlen) destlen
  if ok then return "ok " ++ hexOr d
  else if d = pattern destlen then return "fail"
  else return "PARTIAL-WRITE " ++ hexOr d

def specToNativeOp (a : Addr) (destlen : Nat) : String :=
  if destlen < (Spec.encode a).length then "fail" else "ok " ++ hexOr (Spec.encode a ++ pattern (destlen - (Spec.encode a).length))

def splitBar (toks : List String) : List String × List String :=
  (toks.takeWhile (· ≠ "|"), (toks.dropWhile (· ≠ "|")).drop 1)

def cstr (l : List UInt8) : List UInt8 := l.takeWhile (· ≠ 0)

def step (_ : Unit) (toks : List String) : IO (Unit × Bool) := do
  let (op, ann) := splitBar toks
  let bad : IO (Unit × Bool) := do IO.println "bad-op"; return ((), false)
  match op with
  -- NULL pointer arguments (protocol: head of harness/sockaddr.c)
  | ["fromnative", "null", n] =>
    match natTok n (2 ^ 20) with
    | some n => return ((), ← finish (newFromNativeP none n >>= dumpOpt false) (some (.ok "none")))
    | none => bad
  | ["new", "null", p] =>
    match natTok p 65535 with
    | some p => return ((), ← finish (newP (platformOf { str := [], p4 := none, p6 := none, gai := none, text := "" } []) none (UInt16.ofNat p) >>= dumpOpt false) (some (.ok "none")))
    | none => bad
  | ["tonative", "null", dl] =>
    match natTok dl (2 ^ 20) with
    | some dl =>
      let m : Res String := do
        let (ok, d) ← toNativeP none (some (pattern dl)) dl
        return if ok then "ok " ++ hexOr (d.getD []) else if d = some (pattern dl) then "fail" else "PARTIAL-WRITE " ++ hexOr (d.getD [])
      return ((), ← finish m (some (.ok "fail")))
    | none => bad
  | ["getnull"] =>
    let P := platformOf { str := [], p4 := none, p6 := none, gai := none, text := "" } []
    let txt := match getAddressP P none with | none => "NULL" | some t => hexOr t
    let setOk := setFlowInfoP none 7 == none && setScopeIdP none 9 == none
    IO.println s!"size={nativeSizeP none} fam={familyP none} text={txt} port={(portP none).toNat} flow={(flowInfoP none).toNat} scope={(scopeIdP none).toNat} any={b01 (isAnyP none)} loop={b01 (isLoopbackP none)} set={b01 setOk}"
    return ((), false)
  | "tonative" :: "nulldest" :: rest =>
    match parseAddr rest with
    | some (a, [dl]) =>
      match natTok dl (2 ^ 20) with
      | some dl =>
        let m : Res String := do
          let (ok, d) ← toNativeP (some a) none dl
          return if ok || d.isSome then "ok-or-write" else "fail"
        return ((), ← finish m (some (.ok "fail")))
      | none => bad
    | _ => bad
  | ["fromnative", h] =>
    match bytesOfHex h with
    | none => bad
    | some b =>
      let stop ← finish (newFromNative b b.length >>= dumpOpt false) (some (dumpOpt true (Spec.decode b b.length)))
      return ((), stop)
  | ["nrt", h, dl] =>
    match bytesOfHex h, natTok dl (2 ^ 20) with
    | some b, some dl =>
      let m : Res String := do
        match ← newFromNative b b.length with
        | none => return "none"
        | some a => toNativeOp a dl
      let s := match Spec.decode b b.length with
        | none => "none"
        | some a => specToNativeOp a dl
      return ((), ← finish m (some (.ok s)))
    | _, _ => bad
  | "tonative" :: rest =>
    match parseAddr rest with
    | some (a, [dl]) =>
      match natTok dl (2 ^ 20) with
      | some dl => return ((), ← finish (toNativeOp a dl) (some (.ok (specToNativeOp a dl))))
      | none => bad
    | _ => bad
  | "tonativebig" :: rest =>
    match parseAddr rest with
    | some (a, [dl]) =>
      match natTok dl (2 ^ 33) with
      | some dl =>
        if dl < 64 then bad else
        -- `to_native_length_monotone` (k = 64, n = dl): TRUE, the first 64 bytes are those of the conversion into 64
        -- bytes, everything from byte 64 on is as it was
        let m : Res String := do
          let r ← toNativeOp a 64
          return if r.startsWith "ok " then r ++ " rest=clean" else r
        return ((), ← finish m (some (.ok (specToNativeOp a 64 ++ " rest=clean"))))
      | none => bad
    | _ => bad
  | ["fromnativebig", h, dl] =>
    match bytesOfHex h, natTok dl (2 ^ 33) with
    | some b, some dl =>
      if dl < 64 || b.length > 64 then bad else
      -- `from_native_length_monotone` (k = 64, len = dl) on the buffer `b ++ zeros`
      let b64 := b ++ List.replicate (64 - b.length) 0
      return ((), ← finish (newFromNative b64 64 >>= dumpOpt false) (some (dumpOpt true (Spec.decode b64 64))))
    | _, _ => bad
  | "setfs" :: rest =>
    match parseAddr rest with
    | some (a, [f, s]) =>
      match natTok f 0xffffffff, natTok s 0xffffffff with
      | some f, some s =>
        let a' := setScopeId (setFlowInfo a (UInt32.ofNat f)) (UInt32.ofNat s)
        let sp : Addr := match a with
          | .v4 .. => a
          | .v6 x p _ _ => .v6 x p (UInt32.ofNat f) (UInt32.ofNat s)
        return ((), ← finish (dumpWith false a') (some (dumpWith true sp)))
      | _, _ => bad
    | _ => bad
  | ["new", sh, p] =>
    match bytesOfHex sh, natTok p 65535 with
    | some s, some p =>
      let s := cstr s
      match parseAnn s ann with
      | none => IO.println "no-platform-answer"; return ((), false)
      | some an =>
        let P := platformOf an []
        let port := UInt16.ofNat p
        let sp : Res String := match specNew an port with
          | some r => dumpOpt true r
          | none => .ok "platform-parsers-disagree"
        return ((), ← finish (new P s port >>= dumpOpt false) (some sp) (" | " ++ an.text))
    | _, _ => bad
  | "text" :: rest =>
    match parseAddr rest, ann with
    | some (a, []), nt :: annRest =>
      match (if nt.startsWith "ntop=" then bytesOfHex (nt.drop 5).toString else none) with
      | none => IO.println "no-platform-answer"; return ((), false)
      | some t =>
        match parseAnn t annRest with
        | none => IO.println "no-platform-answer"; return ((), false)
        | some an =>
          let P := platformOf an t
          let txt := getAddress P a
          let m : Res String := do
            let back ← new P txt (port a)
            return s!"t={hexOr txt} back={← dumpOpt false back}"
          -- spec: IPv4 text by the concrete `ntop4`; converting back gives the same address and port
          -- (an IPv6 text carries neither flow info nor scope id)
          let stxt := match a with
            | .v4 x _ => ntop4 x
            | .v6 .. => t
          let sback : Addr := match a with
            | .v4 .. => a
            | .v6 x p _ _ => .v6 x p 0 0
          let sp : Res String := do return s!"t={hexOr stxt} back={← dumpWith true sback}"
          return ((), ← finish m (some sp) (s!" | {nt} {an.text}"))
    | _, _ => bad
  | [o, f, p] =>
    if o = "any" ∨ o = "loop" then
      match natTok f 65536, natTok p 65535 with
      | some f, some p =>
        let r := if o = "any" then newAny f (UInt16.ofNat p) else newLoopback f (UInt16.ofNat p)
        return ((), ← finish (dumpOpt false r) (some (dumpOpt true r)))
      | _, _ => bad
    else bad
  | ["sup"] =>
    IO.println s!"flow={b01 isFlowInfoSupported} scope={b01 isScopeIdSupported} ipv6={b01 isIPv6Supported}"
    return ((), false)
  | ["ntop6", h] =>
    match (bytesOfHex h).bind (vecOf 16) with
    | some a =>
      let t := PV.SockAddr.ntop6 a
      let back := match PV.SockAddr.pton6 t with | some x => hexOr x.toList | none => "-"
      IO.println s!"t={hexOr t} back={back}"; return ((), false)
    | none => bad
  | ["ntop4", h] =>
    match (bytesOfHex h).bind (vecOf 4) with
    | some a =>
      let t := ntop4 a
      let back := match pton4 t with | some x => hexOr x.toList | none => "-"
      IO.println s!"t={hexOr t} back={back}"; return ((), false)
    | none => bad
  | ["pton", sh] =>
    match bytesOfHex sh with
    | some s =>
      let s := cstr s
      let p4 := match pton4 s with | some x => hexOr x.toList | none => "-"
      let p6 := match PV.SockAddr.pton6 s with | some x => hexOr x.toList | none => "-"
      let gai := if s.contains 58 && !s.contains 37 then
          (match gaiNumeric s with | some (f, b) => s!"{f}:{hexOr b}" | none => "-")
        else "n/a"
      IO.println s!"p4={p4} p6={p6} gai={gai}"; return ((), false)
    | none => bad
  | ["reset"] => IO.println "ok"; return ((), false)
  | _ => bad

def run : IO Unit := do
  let _ ← forEachLine (← IO.getStdin) Unit () step
  return ()

end PV.Driver.SockAddr

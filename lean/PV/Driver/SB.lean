import PV.Model.ShmBuffer
import PV.Spec.Queue
import PV.Driver.Util
/-! driver for the shared-memory buffer family (C08).
    ops:  new H SIZE | own H | close H | abandon H | w H HEX | wz H LEN | r H LEN | clr H | used H | free H | pos | reset
    `own H` = p_shm_buffer_take_ownership; the creating handle is an owner from the start.  `close H` of an owner
    removes the name, so the protocol allows it only when H is the last open handle (the next `new` then creates a
    fresh buffer of the newly requested capacity); `close` of a non-owner is a plain free.
    `abandon H`: the holder of H disappears without freeing it (what a killed process leaves): the documented
    clean-up is `own` + `close` through another handle.
    `wz H LEN` writes LEN zero bytes (LEN up to 2^64 − 1, never materialised when it cannot fit).
    `failsem A B`: the `p_shm_lock` (A = 1) / the `p_shm_unlock` (B = 1) of the NEXT op line fails (scripted failure of
    sem_wait / sem_post; outside the statement: the spec column follows the model, i.e. the effect without the result).
    `null`: every public call with a NULL buffer / name / storage. -/
namespace PV.Driver.SB
open PV.SB

structure St where
  seg : Option Shared := none          -- the segment, when it exists
  cap : Nat := 0                       -- capacity the creator asked for (spec)
  q : Queue.Q := []                    -- spec queue
  hs : List (Nat × Nat) := []          -- open handles: id ↦ modulus
  owners : List Nat := []              -- handles that unlink the name when freed (the creator, and after `own`)
  ls : LockScript := {}                -- scripted lock failures of the next op (`failsem`)

def modulusOf (s : St) (h : Nat) : Option Nat := (s.hs.find? (·.1 = h)).map (·.2)

def fmtI (i : Int) : String := toString i

def specSuffix (a b : String) : String := if a = b then a else a ++ " SPECDIFF " ++ b

def step (s0 : St) (toks : List String) : IO (St × Bool) := do
  let ls := s0.ls
  let s : St := { s0 with ls := {} }
  let failing := ls.lockFails || ls.unlockFails
  match toks with
  | ["failsem", a, b] =>
    -- `failsem 1 _`: the lock fails; `failsem N _` with N ≥ 2: the lock's sem_wait is interrupted N-1 times by a handled
    -- signal before it is performed — transparent (C19's statement; the buffer ops are stated here for the lock that works)
    IO.println "ok"; return ({ s with ls := { lockFails := a == "1", unlockFails := b != "0" } }, false)
  | ["null"] =>
    -- NULL buffer / name / storage: invalid argument (607, native code 0), −1 everywhere, no effect
    let tail := if (modulusOf s 0).isSome then "-1 -1" else "-1 -1"
    IO.println s!"null 607/0 -1 607/0 -1 -1 -1 {tail}"; return (s, false)
  | ["newoom", _size] =>
    -- opens of the existing buffer that fail for lack of memory (or succeed and are closed at once): nothing changes
    if s.seg.isNone then IO.println "bad-op"; return (s, false)
    IO.println "ok"; return (s, false)
  | ["new", h, size] =>
    match h.toNat?, size.toNat? with
    | some h, some size =>
      if (modulusOf s h).isSome then IO.println "bad-op"; return (s, false)
      match s.seg with
      | none =>
        -- creator: segment of size+17 bytes, zero filled.  size = 0 cannot be mapped.
        if size = 0 then IO.println "fail"; return (s, false)
        let M := size + 1
        IO.println "ok"
        return ({ s with seg := some (init M), cap := size, q := [], hs := (h, M) :: s.hs, owners := [h] }, false)
      | some sh =>
        -- follower: reported size = min(real, requested) unless requested = 0
        let real := sh.data.length + 16
        let req := if size = 0 then 0 else size + 17
        let reported := if req ≠ 0 ∧ real > req then req else real
        if reported ≤ 17 then IO.println "fail"; return (s, false)
        IO.println "ok"
        return ({ s with hs := (h, reported - 16) :: s.hs }, false)
    | _, _ => IO.println "bad-op"; return (s, false)
  | ["close", h] =>
    match h.toNat? with
    | some h =>
      if (modulusOf s h).isNone then IO.println "bad-op"; return (s, false)
      if s.owners.contains h then
        if s.hs.length ≠ 1 then IO.println "bad-op"; return (s, false)
        -- the last handle, an owner: segment, lock and name are gone
        IO.println "ok"; return ({}, false)
      IO.println "ok"; return ({ s with hs := s.hs.filter (·.1 ≠ h) }, false)
    | none => IO.println "bad-op"; return (s, false)
  | ["abandon", h] =>
    -- the holder is gone without freeing (a killed process): the handle no longer counts, nothing else changes
    match h.toNat? with
    | some h =>
      if (modulusOf s h).isNone then IO.println "bad-op"; return (s, false)
      IO.println "ok"; return ({ s with hs := s.hs.filter (·.1 ≠ h), owners := s.owners.filter (· ≠ h) }, false)
    | none => IO.println "bad-op"; return (s, false)
  | ["own", h] =>
    match h.toNat? with
    | some h =>
      if (modulusOf s h).isNone then IO.println "bad-op"; return (s, false)
      IO.println "ok"; return ({ s with owners := if s.owners.contains h then s.owners else h :: s.owners }, false)
    | none => IO.println "bad-op"; return (s, false)
  | ["wx", h, n] =>
    -- a length >= 2^32 (up to 2^64-1) offered from a one-byte source: same model function as `wz`
    if (n.toNat?.getD 0) < 4294967296 then IO.println "bad-op"; return (s, false) else
    match h.toNat?.bind (modulusOf s), n.toNat?, s.seg with
    | some M, some n, some sh =>
      match writeZerosL ls M sh n with
      | .fault => IO.println "fault"; return (s, true)
      | .ok sh' r =>
        let (q', sr) := Queue.writeZeros s.cap s.q n
        let (q', sr) := if n ≠ 0 ∧ ls.lockFails then (s.q, (-1 : Int)) else if n ≠ 0 ∧ failing then (q', (-1 : Int)) else (q', sr)
        IO.println (specSuffix (fmtI r) (fmtI sr))
        return ({ s with seg := some sh', q := q' }, false)
    | _, _, _ => IO.println "bad-op"; return (s, false)
  | ["wz", h, n] =>
    match h.toNat?.bind (modulusOf s), n.toNat?, s.seg with
    | some M, some n, some sh =>
      match writeZerosL ls M sh n with
      | .fault => IO.println "fault"; return (s, true)
      | .ok sh' r =>
        let (q', sr) := Queue.writeZeros s.cap s.q n
        let (q', sr) := if n ≠ 0 ∧ ls.lockFails then (s.q, (-1 : Int)) else if n ≠ 0 ∧ failing then (q', (-1 : Int)) else (q', sr)
        IO.println (specSuffix (fmtI r) (fmtI sr))
        return ({ s with seg := some sh', q := q' }, false)
    | _, _, _ => IO.println "bad-op"; return (s, false)
  | ["w", h, hex] =>
    match h.toNat?.bind (modulusOf s), bytesOfHex hex, s.seg with
    | some M, some xs, some sh =>
      match writeL ls M sh xs with
      | .fault => IO.println "fault"; return (s, true)
      | .ok sh' r =>
        let (q', sr) := Queue.write s.cap s.q xs
        let (q', sr) := if xs.length ≠ 0 ∧ ls.lockFails then (s.q, (-1 : Int)) else if xs.length ≠ 0 ∧ failing then (q', (-1 : Int)) else (q', sr)
        IO.println (specSuffix (fmtI r) (fmtI sr))
        return ({ s with seg := some sh', q := q' }, false)
    | _, _, _ => IO.println "bad-op"; return (s, false)
  | ["r", h, len] =>
    match h.toNat?.bind (modulusOf s), len.toNat?, s.seg with
    | some M, some len, some sh =>
      match readL ls M sh len with
      | .fault => IO.println "fault"; return (s, true)
      | .ok sh' (o, r) =>
        let (q', so, sr) := Queue.read s.q len
        let (q', so, sr) := if len ≠ 0 ∧ ls.lockFails then (s.q, ([] : List UInt8), (-1 : Int)) else if len ≠ 0 ∧ failing then (q', ([] : List UInt8), (-1 : Int)) else (q', so, sr)
        IO.println (specSuffix (fmtI r ++ " " ++ hexOfBytes o) (fmtI sr ++ " " ++ hexOfBytes so))
        return ({ s with seg := some sh', q := q' }, false)
    | _, _, _ => IO.println "bad-op"; return (s, false)
  | ["clr", h] =>
    match h.toNat?.bind (modulusOf s), s.seg with
    | some M, some sh => IO.println "ok"; return ({ s with seg := some (clearL ls M sh), q := if ls.lockFails then s.q else [] }, false)
    | _, _ => IO.println "bad-op"; return (s, false)
  | ["used", h] =>
    match h.toNat?.bind (modulusOf s), s.seg with
    | some M, some sh =>
      IO.println (specSuffix (toString (usedSpaceL ls M sh)) (if failing then "-1" else toString (Queue.used s.q))); return (s, false)
    | _, _ => IO.println "bad-op"; return (s, false)
  | ["free", h] =>
    match h.toNat?.bind (modulusOf s), s.seg with
    | some M, some sh =>
      IO.println (specSuffix (toString (freeSpaceL ls M sh)) (if failing then "-1" else toString (Queue.free s.cap s.q))); return (s, false)
    | _, _ => IO.println "bad-op"; return (s, false)
  | ["pos"] =>
    match s.seg with
    | some sh => IO.println s!"{sh.rd} {sh.wr}"; return (s, false)
    | none => IO.println "none"; return (s, false)
  | ["stress", _, _] => IO.println "stress ok"; return (s, false)   -- the property's expectation for the concurrent run
  | ["reset"] => IO.println "ok"; return ({}, false)
  | _ => IO.println "bad-op"; return (s, false)

def run : IO Unit := do
  let _ ← forEachLine (← IO.getStdin) St {} step
  return ()

end PV.Driver.SB

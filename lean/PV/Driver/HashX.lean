import PV.Model.HashX.Dispatch
import PV.Spec.HashXStd
import PV.Driver.Util
/-! driver for the crypto-hash family, SHA-3 and GOST part (C11x); line protocol of `harness/hash.c`.
    One answer line per op = the *model's* (streaming) answer; when the one-shot spec (`PV.Spec.HashXStd`: the sponge over Keccak-f[1600] written from FIPS 202, the GOST
    iteration over χ written from GOST R 34.11-94 — nothing shared with the model but byte views) of the bytes
    updated since creation / the last reset (before the first read) answers differently the line is
    suffixed with ` SPECDIFF <spec answer>`.
    `updz N` feeds `N` zero bytes as ONE update through `updateZeros` (proved equal to `update` on
    the materialised chunk) — nothing of size `N` is built.  The one-shot spec needs the message as
    a whole; it is evaluated when the message has at most `specLimit` bytes (above that only the model
    column is printed; the chunking theorem is what covers those). -/
namespace PV.Driver.HashX
open PV.HashX

def specLimit : Nat := 2 ^ 24
/-- the standard-structured GOST spec (ψ on 256-bit numbers, P on byte lists) runs at ≈ 0.1 MB/s; above this size
    the spec column uses `Spec.gost` (same iteration over the model's step function; `gost_step_is_standard`) -/
def gostStdLimit : Nat := 2 ^ 15

inductive Seg where
  | bytes (b : Bytes)
  | zeros (n : Nat)

def Seg.toBytes : Seg → Bytes
  | .bytes b => b
  | .zeros n => List.replicate n 0

/-- the spec's view of a live hash -/
structure SpecSide where
  segs : List Seg := []        -- newest first; frozen once `frozen`
  total : Nat := 0
  frozen : Bool := false       -- a read has happened since the last reset
  digest : Option Bytes := none   -- the spec's digest fixed at the first read (none: not evaluated)

/-- a live `PCryptoHash` with the spec's view of it -/
structure Live where
  code : Int
  A : Impl
  spec : Bytes → Bytes
  h : Hash A
  sp : SpecSide := {}

def codeOf : String → Option Int
  | "sha3-224" => some PV.Generated.HashX.typeCode_sha3_224
  | "sha3-256" => some PV.Generated.HashX.typeCode_sha3_256
  | "sha3-384" => some PV.Generated.HashX.typeCode_sha3_384
  | "sha3-512" => some PV.Generated.HashX.typeCode_sha3_512
  | "gost" => some PV.Generated.HashX.typeCode_gost
  | _ => none

/-- the one-shot spec of an enumerator value -/
def specOfCode (c : Int) : Option (Bytes → Bytes) :=
  if c = PV.Generated.HashX.typeCode_sha3_224 then some SpecStd.sha3_224
  else if c = PV.Generated.HashX.typeCode_sha3_256 then some SpecStd.sha3_256
  else if c = PV.Generated.HashX.typeCode_sha3_384 then some SpecStd.sha3_384
  else if c = PV.Generated.HashX.typeCode_sha3_512 then some SpecStd.sha3_512
  else if c = PV.Generated.HashX.typeCode_gost then some (fun m => if m.length ≤ gostStdLimit then SpecStd.gost m else Spec.gost m)
  else none

/-- `p_crypto_hash_new ((PCryptoHashType) c)` for a type of this family -/
def liveOfCode (c : Int) : Option Live :=
  match implOfCode c, specOfCode c with
  | some A, some spec => some { code := c, A := A, spec := spec, h := Hash.new A }
  | _, _ => none

/-- `T:R:HEX` of the `par` op -/
def parArgs (a : String) : Option (Nat × Nat × Bytes) :=
  match a.splitOn ":" with
  | [t, r, hex] => do
    let t ← t.toNat?
    let r ← r.toNat?
    let b ← bytesOfHex hex
    if 1 ≤ t ∧ t ≤ 16 then some (t, r, b) else none
  | _ => none

def updoOps : List String := ["updo1", "updo2", "updo3", "updo4", "updo5", "updo6", "updo7"]

/-- the four handle slots of the harness and the selected one -/
structure Slots where
  slots : Array (Option Live) := #[none, none, none, none]
  cur : Nat := 0

def SpecSide.note (l : SpecSide) (s : Seg) (n : Nat) : SpecSide :=
  if l.frozen || n = 0 then l else { l with segs := s :: l.segs, total := l.total + n }

/-- first read since the last reset: fix the spec's digest -/
def SpecSide.freeze (l : SpecSide) (spec : Bytes → Bytes) : SpecSide :=
  if l.frozen then l
  else
    let d := if l.total ≤ specLimit then some (spec (l.segs.reverse.flatMap Seg.toBytes)) else none
    { l with frozen := true, digest := d }

def withSpec (model : String) (spec : Option String) : String :=
  match spec with
  | some s => if s = model then model else model ++ " SPECDIFF " ++ s
  | none => model

partial def loopZ (stdin : IO.FS.Stream) (z : Slots) : IO Unit := do
  let line ← stdin.getLine
  if line.isEmpty then return
  let toks := (line.trimAscii.toString.splitOn " ").filter (· ≠ "")
  -- the harness reads at most two tokens (`sscanf ("%15s %s")`); `updoK` is `upd` with unaligned input
  let toks := match toks.take 2 with
    | [op, a] => if updoOps.contains op then ["upd", a] else [op, a]
    | t => t
  let cur : Option Live := (z.slots.getD z.cur none)
  let loop (stdin : IO.FS.Stream) (c : Option Live) : IO Unit := loopZ stdin { z with slots := z.slots.setIfInBounds z.cur c }
  match toks, cur with
  | [], _ => loop stdin cur
  | ["use", k], _ =>
    match k.toNat? with
    | some k => if k < 4 then IO.println "ok"; loopZ stdin { z with cur := k } else IO.println "bad-op"; loop stdin cur
    | none => IO.println "bad-op"; loop stdin cur
  | ["nullh"], _ =>
    let (s, n, l, t) := nullAnswers
    IO.println (s.getD "null" ++ " " ++ toString n ++ " " ++ toString l ++ " " ++ toString t)
    loop stdin cur
  | ["new", a], _ =>
    match (codeOf a).bind liveOfCode with
    | some l => IO.println "ok"; loop stdin (some l)
    | none => IO.println "bad-op"; loop stdin none
  | ["newt", c], _ =>
    match c.toInt? with
    | none => IO.println "bad-op"; loop stdin none
    | some c =>
      if !typeAccepted c then IO.println "fail"; loop stdin none
      else match liveOfCode c with
        | some l => IO.println "ok"; loop stdin (some l)
        | none => IO.println "bad-op"; loop stdin none      -- a type of the other family
  | _, none => IO.println "bad-op"; loop stdin none
  | ["free"], some _ => IO.println "ok"; loop stdin none
  | ["type"], some l => IO.println (toString l.code); loop stdin cur
  | ["updn", n], some l =>
    match n.toNat? with
    | some n => IO.println "ok"; loop stdin (some { l with h := l.h.updateNull n })
    | none => IO.println "bad-op"; loop stdin cur
  | ["dign", c], some l =>
    match c.toNat? with
    | some cap =>
      let (h, n) := l.h.getDigestNullBuf cap
      IO.println (toString n ++ " ")
      loop stdin (some { l with h := h })
    | none => IO.println "bad-op"; loop stdin cur
  | ["dignl"], some l => IO.println "ok"; loop stdin (some { l with h := l.h.getDigestNullLen })
  | ["par", a], some l =>
    match parArgs a with
    | none => IO.println "bad-op"; loop stdin cur
    | some (_, r, b) =>
      -- every thread owns its object: each one's answer is that of a fresh object updated `r` times
      let h := (List.range r).foldl (fun (h : Hash l.A) _ => h.update b) (Hash.new l.A)
      let msg := (List.range r).flatMap fun _ => b
      let sp := if msg.length ≤ specLimit then some (hexOfBytes (l.spec msg)) else none
      IO.println (withSpec h.getString.2 sp)
      loop stdin cur
  | ["upd", hex], some l =>
    match bytesOfHex hex with
    | some b =>
      IO.println "ok"
      loop stdin (some { l with h := l.h.update b, sp := l.sp.note (.bytes b) b.length })
    | none => IO.println "bad-op"; loop stdin cur
  | ["updz", n], some l =>
    match n.toNat? with
    | some n =>
      IO.println "ok"
      loop stdin (some { l with h := l.h.updateZeros n, sp := l.sp.note (.zeros n) n })
    | none => IO.println "bad-op"; loop stdin cur
  | ["str"], some l =>
    let sp := l.sp.freeze l.spec
    let (h, s) := l.h.getString
    IO.println (withSpec s (sp.digest.map hexOfBytes))
    loop stdin (some { l with h := h, sp := sp })
  | "dig" :: rest, some l =>
    match (match rest with | [] => some 64 | c :: _ => c.toNat?) with
    | none => IO.println "bad-op"; loop stdin cur
    | some cap =>
      let (h, n, bytes) := l.h.getDigest cap
      let model := toString n ++ " " ++ hexOfBytes bytes
      -- spec: a buffer that cannot hold the digest is refused and is not a read
      if l.A.hashLen > cap then
        IO.println (withSpec model (some "0 "))
        loop stdin (some { l with h := h })
      else
        let sp := l.sp.freeze l.spec
        IO.println (withSpec model (sp.digest.map fun d => toString d.length ++ " " ++ hexOfBytes d))
        loop stdin (some { l with h := h, sp := sp })
  | ["len"], some l =>
    IO.println (withSpec (toString l.h.getLength) (some (toString (l.spec []).length)))
    loop stdin cur
  | ["reset"], some l =>
    IO.println "ok"
    loop stdin (some { l with h := l.h.reset, sp := {} })
  | _, _ => IO.println "bad-op"; loop stdin cur

def run : IO Unit := do loopZ (← IO.getStdin) {}

end PV.Driver.HashX

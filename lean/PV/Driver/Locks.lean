import PV.Generated.Atomics
import PV.Model.Locks
import PV.Driver.Util
/-! driver for the lock family (C01).

    `variant c11|sync` : `lock`, `try`, `unlock` by the main thread on a `PSpinLock`; answer `<ret> <word>`.
    `variant sim|posix`: the same on the simulated spinlock / a `PMutex`; answer `<ret>`.
    `contend` (main thread holds): a second thread calls lock; answer `blocks` | `acquired`; afterwards the
                main thread unlocks, the second thread gets the lock and unlocks it: the lock is free again.
    `variant posix-script`: the native `pthread_mutex_*` calls are scripted: `new C`, `lock C`, `try C`,
                `unlock C`, `free C` where C is the code the native call returns; answer
                `<ret> <native function called | ->`.
    Model column: the machines of `PV.Model.Locks` stepped through `interp` / `MutexFn.ret` of the generated
    records.  Spec column (`SPECDIFF`): an abstract lock (free / held). -/
namespace PV.Driver.Locks
open PV.Atomics PV.Locks PV.Generated.Atomics

structure St where
  variant : String := ""
  word : W32 := 0                 -- c11 / sync: the lock word
  owner : Option Tid := none      -- sim / posix: owner of the native mutex
  specHeld : Bool := false        -- spec: is the lock held (by the main thread)
  isNull : Bool := true           -- posix-script: p_mutex_new failed / not yet called

def b01 (b : Bool) : String := if b then "1" else "0"

def withSpec (m sp : String) : String := if m = sp then m else m ++ " SPECDIFF " ++ sp

def spinOf (v : String) : Option SpinImpl :=
  if v = "c11" then some spinC11 else if v = "sync" then some spinSync else none

def mutexOf (v : String) : Option MutexImpl :=
  if v = "posix" then some mutexPosix else if v = "sim" then some (simSpinMutex spinSim mutexPosix) else none

def fmtSpin (r : Option (W32 × Bool)) : String :=
  match r with
  | some (w, b) => b01 b ++ " " ++ toString w.toNat
  | none => "blocks"

def step (s : St) (toks : List String) : IO (St × Bool) := do
  match toks with
  | ["variant", v] =>
    if v = "c11" ∨ v = "sync" ∨ v = "sim" ∨ v = "posix" ∨ v = "posix-script" then
      IO.println "ok"; return ({ variant := v }, false)
    else IO.println "bad-op"; return (s, false)
  | ["reset"] => IO.println "ok"; return ({ variant := s.variant }, false)
  | [op] =>
    match spinOf s.variant, mutexOf s.variant with
    | some p, _ =>
      match op with
      | "lock" =>
        let r := lockAlone p 4 s.word
        let sp := if s.specHeld then "blocks" else "1 1"
        IO.println (withSpec (fmtSpin r) sp)
        return ({ s with word := (r.map (·.1)).getD s.word, specHeld := true }, false)
      | "try" =>
        let r := tryAlone p s.word
        let sp := if s.specHeld then "0 1" else "1 1"
        IO.println (withSpec (fmtSpin r) sp)
        return ({ s with word := (r.map (·.1)).getD s.word, specHeld := true }, false)
      | "unlock" =>
        let r := unlockAlone p s.word
        IO.println (withSpec (fmtSpin r) "1 0")
        return ({ s with word := (r.map (·.1)).getD s.word, specHeld := false }, false)
      | "contend" =>
        -- the second thread's lock call while the main thread holds: does it return?
        let r := lockAlone p 4 s.word
        let m := match r with
          | some _ => "acquired"
          | none => "blocks"
        IO.println (withSpec m (if s.specHeld then "blocks" else "acquired"))
        -- afterwards: main unlocks, second thread locks and unlocks
        let w1 := ((unlockAlone p s.word).map (·.1)).getD s.word
        let w2 := ((lockAlone p 4 w1).map (·.1)).getD w1
        let w3 := ((unlockAlone p w2).map (·.1)).getD w2
        return ({ s with word := w3, specHeld := false }, false)
      | _ => IO.println "bad-op"; return (s, false)
    | none, some m =>
      let call (f : MutexFn) (t : Tid) (o : Option Tid) := wrapperAlone EBUSY f o t
      match op with
      | "lock" =>
        match call m.lock 0 s.owner with
        | some (r, _, o') => IO.println (withSpec (b01 r) "1"); return ({ s with owner := o', specHeld := true }, false)
        | none => IO.println (withSpec "blocks" (if s.specHeld then "blocks" else "1")); return (s, false)
      | "try" =>
        match call m.trylock 0 s.owner with
        | some (r, _, o') =>
          IO.println (withSpec (b01 r) (if s.specHeld then "0" else "1")); return ({ s with owner := o', specHeld := true }, false)
        | none => IO.println "no-model SPECDIFF ?"; return (s, false)
      | "unlock" =>
        match call m.unlock 0 s.owner with
        | some (r, _, o') => IO.println (withSpec (b01 r) "1"); return ({ s with owner := o', specHeld := false }, false)
        | none => IO.println "ub"; return (s, true)
      | "contend" =>
        let mline := match call m.lock 1 s.owner with
          | some _ => "acquired"
          | none => "blocks"
        IO.println (withSpec mline (if s.specHeld then "blocks" else "acquired"))
        return ({ s with owner := none, specHeld := false }, false)
      | _ => IO.println "bad-op"; return (s, false)
    | none, none => IO.println "bad-op"; return (s, false)
  | [op, c] =>
    match s.variant == "posix-script", c.toInt? with
    | true, some code =>
      let one (f : MutexFn) (nat : String) : IO (St × Bool) := do
        if s.isNull then IO.println "0 -"; return (s, false)
        else
          IO.println (withSpec (b01 (f.ret code) ++ " " ++ f.native) (b01 (code == 0) ++ " " ++ nat))
          return (s, false)
      match op with
      | "new" =>
        let ok := mutexNewOk code
        IO.println ((if ok then "ok" else "null") ++ " pthread_mutex_init")
        return ({ s with isNull := !ok }, false)
      | "lock" => one mutexPosix.lock "pthread_mutex_lock"
      | "try" => one mutexPosix.trylock "pthread_mutex_trylock"
      | "unlock" => one mutexPosix.unlock "pthread_mutex_unlock"
      | "free" =>
        IO.println (if s.isNull then "- -" else "- pthread_mutex_destroy")
        return ({ s with isNull := true }, false)
      | _ => IO.println "bad-op"; return (s, false)
    | _, _ => IO.println "bad-op"; return (s, false)
  | _ => IO.println "bad-op"; return (s, false)

def run : IO Unit := do
  let _ ← forEachLine (← IO.getStdin) St {} step
  return ()

end PV.Driver.Locks

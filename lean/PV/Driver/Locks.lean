import PV.Generated.Atomics
import PV.Model.Locks
import PV.Driver.Util
/-! driver for the lock family (C01).

    `variant c11|sync` : `lock`, `try`, `unlock` by the main thread on a `PSpinLock`; answer `<ret> <word>`.
    `variant sim|posix`: the same on the simulated spinlock / a `PMutex`; answer `<ret>`.
    `contend` (main thread holds): a second thread calls lock; answer `blocks` | `acquired`; afterwards the
                main thread unlocks, the second thread gets the lock and unlocks it: the lock is free again.
    `variant posix-script`: the native `pthread_mutex_*` calls are scripted: `new C`, `lock C`, `try C`,
                `unlock C`, `free C` where C is the code the native call returns; answer
                `<ret> <native function called | ->`.
    `lock K`, `try K`, `unlock K` (K = 0..3): the same on one of four independent objects (object 0 is the one
                the index-free ops use); K = -1 is the NULL argument: answer `0 null` (NULL guard of every function,
                required by the translator).
    `tother K`: a second thread calls trylock on object K once and unlocks again when it got the lock.
    `contend2 K` (main thread holds K): two more threads call lock; `blocks` | `acquired`.
    Model column: the machines of `PV.Model.Locks` stepped through `interp` / `MutexFn.ret` of the generated
    records.  Spec column (`SPECDIFF`): an abstract lock (free / held). -/
namespace PV.Driver.Locks
open PV.Atomics PV.Locks PV.Generated.Atomics

/-- one lock object -/
structure Obj where
  word : W32 := 0                 -- c11 / sync: the lock word
  owner : Option Tid := none      -- sim / posix: owner of the native mutex
  specHeld : Bool := false        -- spec: is the lock held (by the main thread)

structure St where
  variant : String := ""
  objs : Array Obj := #[{}, {}, {}, {}]   -- independent objects: an op on one never touches another
  isNull : Bool := true           -- posix-script: p_mutex_new failed / not yet called

def nObj : Nat := 4

def b01 (b : Bool) : String := if b then "1" else "0"

def withSpec (m sp : String) : String := if m = sp then m else m ++ " SPECDIFF " ++ sp

def spinOf (v : String) : Option SpinImpl :=
  if v = "c11" then some spinC11 else if v = "sync" then some spinSync else none

def mutexOf (v : String) : Option MutexImpl :=
  if v = "posix" then some mutexPosix else if v = "sim" then some (simSpinMutex spinSim mutexPosix) else none

def fmtSpin (r : Option (W32 × Bool)) : String :=
  match r with
  | some (w, b) => b01 b ++ " " ++ toString w.toNat
  | none => "blocks"

/-- one op on one object: (answer line, object afterwards, stop) -/
def stepObj (variant : String) (o : Obj) (op : String) : Option (String × Obj × Bool) :=
  match spinOf variant, mutexOf variant with
  | some p, _ =>
    match op with
    | "lock" =>
      let r := lockAlone p 4 o.word
      let sp := if o.specHeld then "blocks" else "1 1"
      some (withSpec (fmtSpin r) sp, { o with word := (r.map (·.1)).getD o.word, specHeld := true }, false)
    | "try" =>
      let r := tryAlone p o.word
      let sp := if o.specHeld then "0 1" else "1 1"
      some (withSpec (fmtSpin r) sp, { o with word := (r.map (·.1)).getD o.word, specHeld := true }, false)
    | "unlock" =>
      let r := unlockAlone p o.word
      some (withSpec (fmtSpin r) "1 0", { o with word := (r.map (·.1)).getD o.word, specHeld := false }, false)
    | "contend" | "contend2" =>
      -- the other threads' lock calls while the main thread holds: do they return?
      let r := lockAlone p 4 o.word
      let m := match r with
        | some _ => "acquired"
        | none => "blocks"
      -- afterwards: main unlocks, every other thread locks and unlocks in turn
      let w1 := ((unlockAlone p o.word).map (·.1)).getD o.word
      let w2 := ((lockAlone p 4 w1).map (·.1)).getD w1
      let w3 := ((unlockAlone p w2).map (·.1)).getD w2
      let w4 := if op = "contend2" then
          let w5 := ((lockAlone p 4 w3).map (·.1)).getD w3
          ((unlockAlone p w5).map (·.1)).getD w5
        else w3
      some (withSpec m (if o.specHeld then "blocks" else "acquired"), { o with word := w4, specHeld := false }, false)
    | "tother" =>
      -- a second thread: one trylock; on success it unlocks again
      let sp := if o.specHeld then "0 1" else "1 0"
      match tryAlone p o.word with
      | some (w1, b) =>
        let w2 := if b then ((unlockAlone p w1).map (·.1)).getD w1 else w1
        some (withSpec (b01 b ++ " " ++ toString w2.toNat) sp, { o with word := w2 }, false)
      | none => some (withSpec "blocks" sp, o, false)      -- record not evaluable (as `try`)
    | _ => none
  | none, some m =>
    let call (f : MutexFn) (t : Tid) (ow : Option Tid) := wrapperAlone EBUSY f ow t
    match op with
    | "lock" =>
      match call m.lock 0 o.owner with
      | some (r, _, o') => some (withSpec (b01 r) "1", { o with owner := o', specHeld := true }, false)
      | none => some (withSpec "blocks" (if o.specHeld then "blocks" else "1"), { o with specHeld := true }, false)   -- the spec's lock is taken whatever the model says
    | "try" =>
      match call m.trylock 0 o.owner with
      | some (r, _, o') => some (withSpec (b01 r) (if o.specHeld then "0" else "1"), { o with owner := o', specHeld := true }, false)
      | none => some ("no-model SPECDIFF " ++ (if o.specHeld then "0" else "1"), { o with specHeld := true }, false)   -- the spec does not depend on the model
    | "unlock" =>
      match call m.unlock 0 o.owner with
      | some (r, _, o') => some (withSpec (b01 r) "1", { o with owner := o', specHeld := false }, false)
      | none => some ("ub", o, true)
    | "contend" | "contend2" =>
      let mline := match call m.lock 1 o.owner with
        | some _ => "acquired"
        | none => "blocks"
      some (withSpec mline (if o.specHeld then "blocks" else "acquired"), { o with owner := none, specHeld := false }, false)
    | "tother" =>
      match call m.trylock 1 o.owner with
      | some (r, _, o') =>
        -- thread 1 unlocks again when its wrapper returned TRUE
        let o2 := if r then ((call m.unlock 1 o').map (·.2.2)).getD o' else o'
        some (withSpec (b01 r) (if o.specHeld then "0" else "1"), { o with owner := o2 }, false)
      | none => some ("no-model SPECDIFF " ++ (if o.specHeld then "0" else "1"), o, false)
    | _ => none
  | none, none => none

def onObj (s : St) (k : Nat) (op : String) : IO (St × Bool) := do
  match s.objs[k]? with
  | none => IO.println "bad-op"; return (s, false)
  | some o =>
    match stepObj s.variant o op with
    | none => IO.println "bad-op"; return (s, false)
    | some (line, o', stop) => IO.println line; return ({ s with objs := s.objs.set! k o' }, stop)

def step (s : St) (toks : List String) : IO (St × Bool) := do
  match toks with
  | ["variant", v] =>
    if v = "c11" ∨ v = "sync" ∨ v = "sim" ∨ v = "posix" ∨ v = "posix-script" then
      IO.println "ok"; return ({ variant := v }, false)
    else IO.println "bad-op"; return (s, false)
  | ["reset"] => IO.println "ok"; return ({ variant := s.variant }, false)
  | [op] =>
    if op = "lock" ∨ op = "try" ∨ op = "unlock" ∨ op = "contend" then onObj s 0 op
    else IO.println "bad-op"; return (s, false)
  | [op, c] =>
    match s.variant == "posix-script", c.toInt? with
    | true, some code =>
      let one (f : MutexFn) (nat : String) : IO (St × Bool) := do
        if s.isNull then IO.println "0 -"; return (s, false)
        else
          IO.println (withSpec (b01 (f.ret code) ++ " " ++ f.native) (b01 (code == 0) ++ " " ++ nat))
          return (s, false)
      match op with
      | "new" =>
        let ok := mutexNewOk code
        IO.println ((if ok then "ok" else "null") ++ " pthread_mutex_init")
        return ({ s with isNull := !ok }, false)
      | "lock" => one mutexPosix.lock "pthread_mutex_lock"
      | "try" => one mutexPosix.trylock "pthread_mutex_trylock"
      | "unlock" => one mutexPosix.unlock "pthread_mutex_unlock"
      | "free" =>
        IO.println (if s.isNull then "- -" else "- pthread_mutex_destroy")
        return ({ s with isNull := true }, false)
      | _ => IO.println "bad-op"; return (s, false)
    | false, some k =>
      if (spinOf s.variant).isNone ∧ (mutexOf s.variant).isNone then IO.println "bad-op"; return (s, false)
      else if k = -1 ∧ (op = "lock" ∨ op = "try" ∨ op = "unlock") then
        -- NULL argument: every function returns FALSE before touching anything
        IO.println "0 null"; return (s, false)
      else if 0 ≤ k ∧ k < nObj ∧ (op = "lock" ∨ op = "try" ∨ op = "unlock" ∨ op = "tother" ∨ op = "contend2") then
        onObj s k.toNat op
      else IO.println "bad-op"; return (s, false)
    | _, _ => IO.println "bad-op"; return (s, false)
  | _ => IO.println "bad-op"; return (s, false)

def run : IO Unit := do
  let _ ← forEachLine (← IO.getStdin) St {} step
  return ()

end PV.Driver.Locks

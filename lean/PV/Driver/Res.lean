import PV.Model.Res
import PV.Driver.Util
/-! driver for the resource family (C18 / C20): the same line protocol as `harness/res.c`.

    scen NAME MODE K [MASK]   run a scenario program under the failure predicate MODE ∈ none|once|from|mask
    begin / fail MODE K / call LINE / end   a sequence with the resource counts after every call
    dump NAME, list, inifile N   what the check needs to keep both sides' tables identical

    The answers are the *model's*: outcome classes, number of allocator calls, what is still held, the
    allocator trace.  A model fault (NULL dereference, double free, double close …) prints `FAULT`. -/
namespace PV.Driver.ResD
open PV.Res

def failOf (mode : String) (base k : Nat) (mask : String) : Nat → Bool :=
  match mode with
  | "once" => fun i => i == base + k
  | "from" => fun i => i ≥ base + k
  | "mask" =>
    let bits := mask.toList.toArray
    fun i => i > base ∧ i - base ≤ bits.size ∧ bits[i - base - 1]! == '1'
  | _ => fun _ => false

def marker (s : String) : String := "[" ++ s.map (fun c => if c == ' ' then ',' else c) ++ "]"

def traceOf (log : List Ev) : String :=
  " ".intercalate (log.reverse.map fun
    | .m i true => s!"m{i}"
    | .m i false => s!"m{i}x"
    | .f b => s!"f{b}"
    | .call s => marker s)

def allocCalls (log : List Ev) : Nat := (log.filter fun | .call _ => false | _ => true).length

def countsOf (s : St) : String :=
  s!"live={s.live.length} fds={s.fds.length} maps={s.maps.length} names={s.names.length} keys={s.tlsKeys.length}"

/-- run the lines one by one; on a model fault report the line -/
def runScen (lines : List String) (f : Nat → Bool) : String :=
  let rec go (ls : List String) (env : Env) (s : St) (outs : List Char) : String :=
    match ls with
    | [] =>
      s!"out={String.ofList outs.reverse} n={s.next} calls={allocCalls s.log} closes={s.closed.length} {countsOf s} trace={traceOf s.log}"
    | l :: rest =>
      match (runLine l env).run f s with
      | .fault msg => s!"FAULT at={marker l} {msg}"
      | .ok (c, env') s' => go rest env' s' (c :: outs)
  go lines {} {} []

structure Seq where
  env : Env := {}
  st : St := {}
  fail : Nat → Bool := fun _ => false
  active : Bool := false
  dead : Bool := false

def step (q : Seq) (toks : List String) : IO (Seq × Bool) := do
  match toks with
  | ["selfcheck"] => IO.println (if scenariosConsistent then "ok" else "scenario tables differ"); return (q, false)
  | ["list"] => IO.println (" ".intercalate (scenarios.map (·.1))); return (q, false)
  | ["dump", name] =>
    match findScenario name with
    | none => IO.println "bad-scenario"; return (q, false)
    | some ls => IO.println (";".intercalate ls); return (q, false)
  | ["inifile", n] =>
    match n.toNat?.bind iniFiles with
    | none => IO.println "missing"; return (q, false)
    | some ls => IO.println ("|".intercalate (ls.map iniLineText)); return (q, false)
  | "scen" :: name :: mode :: k :: rest =>
    match findScenario name, k.toNat? with
    | some ls, some k =>
      IO.println s!"{name} {mode} {k} {runScen ls (failOf mode 0 k (rest.headD ""))}"
      return (q, false)
    | _, _ => IO.println s!"{name} {mode} {k} bad-scenario"; return (q, false)
  | ["begin"] => IO.println "ok"; return ({ active := true }, false)
  | "fail" :: mode :: rest =>
    if !q.active then IO.println "bad-op"; return (q, false)
    let arg := rest.headD "0"
    IO.println "ok"
    return ({ q with fail := failOf mode q.st.next (arg.toNat?.getD 0) arg }, false)
  | "call" :: rest =>
    if !q.active then IO.println "bad-op"; return (q, false)
    let line := " ".intercalate rest
    match (runLine line q.env).run q.fail q.st with
    | .fault msg => IO.println s!"fault {msg}"; return ({ q with dead := true }, true)
    | .ok (c, env') s' =>
      if c == '?' then IO.println "bad-op" else IO.println s!"{c} {countsOf s'} n={s'.next}"
      return ({ q with env := env', st := s' }, false)
  | ["end"] =>
    if !q.active then IO.println "bad-op"; return (q, false)
    IO.println s!"end n={q.st.next} closes={q.st.closed.length} {countsOf q.st} badclose=0 badfree=0"
    return ({}, false)
  | _ => IO.println "bad-op"; return (q, false)

def run : IO Unit := do
  let _ ← forEachLine (← IO.getStdin) Seq {} step
  return ()

end PV.Driver.ResD

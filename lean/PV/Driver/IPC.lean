import PV.Model.IPC
import PV.Spec.IPC
import PV.Driver.Util
/-! driver for the IPC family (C06 named semaphore, C07 shared memory, IPC part of C19).

ops (W = worker = one process, H = handle id, sN = semaphore name, mN = segment name):
  W new-sem H sN INIT OPEN|CREATE | W acq H | W rel H | W own H | W free H
  W new-shm H mN SIZE [ro] | W lock H | W unlock H | W wr H OFF BYTE | W rd H OFF | W size H
  W crash K <op…>   the op's process is SIGKILLed when K of the op's system calls have completed
  W crashA K <op…>  same state (the harness kills inside the K-th call's wrapper, after the real call)
  W eintr N1,N2,… <op…>   Ni EINTR results before the i-th system call (where interruptible)
  W fail K:ERR,… <op…>    the K-th system call of the op (counted from 0, failed ones included) is not made and fails
                    with errno ERR (scripted failure of the environment; the statement does not judge such a call:
                    the spec column takes the call's result and the names it worked on from the model)
  W null            every public call with a NULL handle / name (and p_semaphore_new with a negative value) in worker W
  W kill            SIGKILL of the idle worker, a fresh process takes its place
  par SCHED W1 <op…> ; W2 <op…>   two calls in flight, SCHED ∈ {a,b}* gives the order of their system calls
  obs | reset
answer:  `<system calls> => <result>`  (+ ` SPECDIFF <spec result>`),  obs: `<api view> || <internal view>` -/
namespace PV.Driver.IPC
open PV.IPC PV.Generated.IPC

def NW : Nat := 3
def NN : Nat := 4
def NH : Nat := 16

structure St where
  g : G := G.init id
  sp : IPCSpec.S := {}
  wpid : List Nat := [0, 1, 2]
  nextPid : Nat := 3
  objInc : List (Nat × Nat) := []
  segInc : List (Nat × Nat) := []
  leak : List (Nat × Nat) := []      -- (pid, shm key): a mapping whose `munmap` failed (scripted): still there, no handle

def errName : Errno → String
  | .EINTR => "EINTR" | .EEXIST => "EEXIST" | .ENOENT => "ENOENT" | .EINVAL => "EINVAL" | .EBADF => "EBADF"
  | .ENOMEM => "ENOMEM" | .EACCES => "EACCES" | .EMFILE => "EMFILE"

def errOfName (s : String) : Option Errno :=
  [Errno.EINTR, .EEXIST, .ENOENT, .EINVAL, .EBADF, .ENOMEM, .EACCES, .EMFILE].find? fun e => errName e = s

def keyName : SemKey → String
  | .user n => s!"s{n}"
  | .lock k => s!"m{k}.l"

def sysName : Sys → String
  | .semOpen k f m v => s!"sem_open({keyName k})/{f}/{m}/{v}"
  | .semUnlink k => s!"sem_unlink({keyName k})"
  | .semClose _ => "sem_close"
  | .semWait _ => "sem_wait"
  | .semPost _ => "sem_post"
  | .shmOpen k f m => s!"shm_open(m{k})/{f}/{m}"
  | .shmUnlink k => s!"shm_unlink(m{k})"
  | .fstat _ => "fstat"
  | .ftruncate _ len => s!"ftruncate/{len}"
  | .mmap _ len prot fl => s!"mmap/{len}/{prot}/{fl}"
  | .munmap _ len => s!"munmap/{len}"
  | .close _ => "close"

def evStr (tag : String) (e : Ev) : String :=
  let r := match e.sys, e.res with
    | .fstat _, .ok v => toString v
    | _, .ok _ => "ok"
    | _, .err x => errName x
    | _, .block => "BLOCK"
  tag ++ sysName e.sys ++ "=" ++ r

def ipcCode (e : Errno) : Nat := ((ipcOfErrno.find? (·.1 = e.num)).map (·.2)).getD 610

def retStr : Option Ret → String
  | some (.sem _) => "ok"
  | some (.shm h) => s!"ok {h.size}"
  | some .unit => "ok"
  | some (.fail e) => s!"fail {ipcCode e}/{e.num}"
  | some (.byte b) => hexByte b
  | some (.size n) => toString n
  | some .fault => "fault"
  | some .bad => "bad-op"
  | none => "bad-op"

def specStr : IPCSpec.R → String
  | .ok => "ok" | .okSize n => s!"ok {n}" | .fail => "fail" | .byte b => hexByte b | .size n => toString n
  | .fault => "fault" | .wouldBlock => "would-block" | .bad => "bad-op"

def apiOf (s : String) : String := if s.startsWith "fail" then "fail" else s

def parseName (pfx : Char) (s : String) : Option Nat :=
  match s.toList with
  | c :: rest => if c = pfx then (String.ofList rest).toNat?.bind fun n => if n < NN then some n else none else none
  | [] => none

def parseOp (toks : List String) : Option Op :=
  match toks with
  | ["new-sem", h, n, i, m] => do
    let h ← h.toNat?; let n ← parseName 's' n; let i ← i.toNat?
    let m ← (if m = "OPEN" then some Mode.open else if m = "CREATE" then some Mode.create else none)
    if h < NH then some (.newSem h (.user n) i m) else none
  | ["new-shm", h, n, sz] => do
    let h ← h.toNat?; let n ← parseName 'm' n; let sz ← sz.toNat?
    if h < NH then some (.newShm h n sz false) else none
  | ["new-shm", h, n, sz, "ro"] => do
    let h ← h.toNat?; let n ← parseName 'm' n; let sz ← sz.toNat?
    if h < NH then some (.newShm h n sz true) else none
  | ["acq", h] => h.toNat?.map .acq
  | ["rel", h] => h.toNat?.map .rel
  | ["own", h] => h.toNat?.map .own
  | ["free", h] => h.toNat?.map .free
  | ["lock", h] => h.toNat?.map .lock
  | ["unlock", h] => h.toNat?.map .unlock
  | ["size", h] => h.toNat?.map .size
  | ["rd", h, off] => do let h ← h.toNat?; let off ← off.toNat?; some (.rd h off)
  | ["wr", h, off, b] => do
    let h ← h.toNat?; let off ← off.toNat?; let b ← b.toNat?
    if b < 256 then some (.wr h off (UInt8.ofNat b)) else none
  | _ => none

/-- the spec's answer to a (whole, atomic) call -/
def specOp (sp : IPCSpec.S) (pid : Nat) : Op → IPCSpec.S × IPCSpec.R
  | .newSem h (.user n) i m => IPCSpec.newSem sp pid h n i (m == .create)
  | .newSem _ _ _ _ => (sp, .bad)
  | .acq h => IPCSpec.acquire sp pid h
  | .rel h => IPCSpec.release sp pid h
  | .own h => IPCSpec.own sp pid h
  | .free h => IPCSpec.free sp pid h
  | .newShm h k sz _ => IPCSpec.newShm sp pid h k sz
  | .lock h => IPCSpec.lock sp pid h
  | .unlock h => IPCSpec.unlock sp pid h
  | .wr h off b => IPCSpec.wr sp pid h off b
  | .rd h off => (sp, IPCSpec.rd sp pid h off)
  | .size h => (sp, IPCSpec.size sp pid h)

def segOfHandle (g : G) (pid : Nat) (h : PShm) : Option Nat := (findMap (g.os.procs pid) h.addr).map (·.seg)

/-- remember which spec incarnation corresponds to which model object (needed to re-synchronise after a crash) -/
def record (s : St) (pid : Nat) (op : Op) : St :=
  match op with
  | .newSem h _ _ _ =>
    match s.g.hs h, s.sp.hs h with
    | some (_, .sem x), some y => if (s.objInc.find? (·.1 = x.obj)).isNone then { s with objInc := (x.obj, y.inc) :: s.objInc } else s
    | _, _ => s
  | .newShm h _ _ _ =>
    match s.g.hs h, s.sp.hs h with
    | some (_, .shm x), some y =>
      match segOfHandle s.g pid x with
      | some seg => if (s.segInc.find? (·.1 = seg)).isNone then { s with segInc := (seg, y.inc) :: s.segInc } else s
      | none => s
    | _, _ => s
  | _ => s

/-- after a crash the spec promises nothing about the names the killed call worked on: take them from the model -/
def resyncSem (s : St) (n : Nat) : St :=
  match s.g.os.semNames (.user n) with
  | none => { s with sp := { s.sp with semOf := fun x => if x = n then none else s.sp.semOf x } }
  | some o =>
    let v := (s.g.os.sems o).value
    match s.objInc.find? (·.1 = o) with
    | some (_, i) =>
      { s with sp := { s.sp with semOf := fun x => if x = n then some i else s.sp.semOf x,
                                 ctr := fun j => if j = i then v else s.sp.ctr j } }
    | none =>
      let i := s.sp.next
      { s with objInc := (o, i) :: s.objInc,
               sp := { s.sp with semOf := fun x => if x = n then some i else s.sp.semOf x,
                                 ctr := fun j => if j = i then v else s.sp.ctr j, next := i + 1 } }

def resyncShm (s : St) (k : Nat) : St :=
  match s.g.os.shmNames k with
  | none => { s with sp := { s.sp with shmOf := fun x => if x = k then none else s.sp.shmOf x } }
  | some seg =>
    let bytes := (s.g.os.segs seg).bytes
    let lk := (s.g.os.semNames (.lock k)).map fun o => (s.g.os.sems o).value
    let (i, s) := match s.segInc.find? (·.1 = seg) with
      | some (_, i) => (i, s)
      | none => (s.sp.next, { s with segInc := (seg, s.sp.next) :: s.segInc, sp := { s.sp with next := s.sp.next + 1 } })
    { s with sp := { s.sp with shmOf := fun x => if x = k then some i else s.sp.shmOf x,
                               mem := fun j => if j = i then bytes else s.sp.mem j,
                               lock := fun j => if j = i then lk else s.sp.lock j } }

/-- names the op works on -/
def resyncFor (s : St) (g0 : G) (pid : Nat) (op : Op) : St :=
  match op with
  | .newSem _ (.user n) _ _ => resyncSem s n
  | .newShm _ k _ _ => resyncShm s k
  | .free h =>
    match g0.hs h with
    | some (_, .sem x) => (match x.key with | .user n => resyncSem s n | .lock k => resyncShm s k)
    | some (_, .shm x) => resyncShm s x.key
    | none => s
  | .acq h | .rel h =>
    match g0.hs h with
    | some (_, .sem x) => (match x.key with | .user n => resyncSem s n | _ => s)
    | _ => s
  | .lock h | .unlock h =>
    match g0.hs h with
    | some (_, .shm x) => resyncShm s x.key
    | _ => s
  | _ => let _ := pid; s

def traceSince (g0 g1 : G) (tag : Tid → String) : String :=
  let evs := (g1.log.take (g1.log.length - g0.log.length)).reverse
  " ".intercalate (evs.map fun e => evStr (tag e.tid) e)

def blocked (g : G) (g0 : G) : Bool :=
  g.log.length > g0.log.length && (match g.log with | ⟨_, _, _, .block⟩ :: _ => true | _ => false)

def cksum (l : List UInt8) : Nat :=
  (l.foldl (fun (acc : Nat × Nat) b => (acc.1 + 1, (acc.2 + (acc.1 + 1) * b.toNat) % 65521)) (0, 0)).2

def viewStr (size : Nat) (bytes : Option (List UInt8)) : String :=
  match bytes with
  | some bs => s!"{size}:{hexOfBytes (bs.take 8)}:{cksum bs}"
  | none => s!"{size}:FAULT"

def widx (s : St) (pid : Nat) : String :=
  match s.wpid.findIdx? (· = pid) with
  | some i => toString i
  | none => "?"

def sortNat (l : List Nat) : List Nat := (l.toArray.qsort (· < ·)).toList

def obsModel (s : St) : String × String :=
  let os := s.g.os
  let sems := (List.range NN).map fun n =>
    match os.semNames (.user n) with
    | some o => s!"s{n}={(os.sems o).value}"
    | none => s!"s{n}=-"
  let shms := (List.range NN).map fun k =>
    match os.shmNames k with
    | some seg =>
      let lk := match os.semNames (.lock k) with
        | some o => toString (os.sems o).value
        | none => "1"     -- no lock object: the next opener makes one of value 1 (presence: internal view)
      s!"m{k}={(os.segs seg).bytes.length}/{lk}"
    | none => s!"m{k}=-"
  let hs := (List.range NH).filterMap fun h =>
    match s.g.hs h with
    | some (pid, .shm x) =>
      let bytes := match findMap (os.procs pid) x.addr with
        | some m =>
          let bs := (os.segs m.seg).bytes
          if x.size ≤ m.len ∧ m.off + x.size ≤ bs.length then some ((bs.drop m.off).take x.size) else none
        | none => none
      some s!"H{h}@{widx s pid}={viewStr x.size bytes}"
    | _ => none
  let perW (f : Nat → Nat → List Mapping → Option String) : List String :=
    (List.range NW).flatMap fun w =>
      (List.range NN).filterMap fun k =>
        let pid := s.wpid.getD w 0
        let ms := (os.procs pid).maps.filter fun m => (os.segs m.seg).key = k
        if ms.isEmpty then none else f w k ms
  let counts := perW fun w k ms => some s!"w{w}:m{k}#{ms.length}"
  let lens := perW fun w k ms => some s!"w{w}:m{k}[{",".intercalate ((sortNat (ms.map fun m => pages m.len * pageSize)).map toString)}]"
  let locks := (List.range NN).map fun k => s!"m{k}.l={if (os.semNames (.lock k)).isSome then "+" else "-"}"
  (" ".intercalate (sems ++ shms ++ hs ++ counts), " ".intercalate (locks ++ lens))

def obsSpec (s : St) : String :=
  let sp := s.sp
  let sems := (List.range NN).map fun n =>
    match sp.semOf n with
    | some i => s!"s{n}={sp.ctr i}"
    | none => s!"s{n}=-"
  let shms := (List.range NN).map fun k =>
    match sp.shmOf k with
    | some i =>
      let lk := match sp.lock i with
        | some v => toString v
        | none => "1"
      s!"m{k}={(sp.mem i).length}/{lk}"
    | none => s!"m{k}=-"
  let hs := (List.range NH).filterMap fun h =>
    match sp.hs h with
    | some x =>
      if x.kind = .shm then
        let bs := sp.mem x.inc
        some s!"H{h}@{widx s x.pid}={viewStr x.size (if x.size ≤ bs.length then some (bs.take x.size) else none)}"
      else none
    | none => none
  let counts := (List.range NW).flatMap fun w =>
    (List.range NN).filterMap fun k =>
      let pid := s.wpid.getD w 0
      let n := ((List.range NH).filter fun h =>
        match sp.hs h with
        | some x => x.kind = .shm ∧ x.pid = pid ∧ x.name = k
        | none => false).length + (s.leak.filter fun x => x.1 = pid ∧ x.2 = k).length
      if n = 0 then none else some s!"w{w}:m{k}#{n}"
  " ".intercalate (sems ++ shms ++ hs ++ counts)

def withSpec (tr res sp : String) : String :=
  let m := tr ++ " => " ++ res
  if apiOf res = sp then m else m ++ " SPECDIFF " ++ sp

def parseScript (s : String) : Option (List Nat) := (s.splitOn ",").mapM (·.toNat?)

def respawn (s : St) (w : Nat) : St :=
  { s with wpid := s.wpid.set w s.nextPid, nextPid := s.nextPid + 1 }

/-- a sequential op of worker `w`; returns (state, answer, stop) -/
def seqOp (s : St) (w : Nat) (op : Op) (script : List Nat) : St × String × Bool :=
  let pid := s.wpid.getD w 0
  let g0 := s.g
  let g1 := g0.call pid op script
  let tr := traceSince g0 g1 fun _ => ""
  if blocked g1 g0 then ({ s with g := g1 }, tr ++ " => would-block", true)
  else if (g1.calls pid).isSome then ({ s with g := g1 }, tr ++ " => out-of-fuel", true)
  else
    let res := retStr (g1.ret pid)
    if res == "bad-op" then (s, "bad-op", false) else
    let (sp', r) := specOp s.sp pid op
    let s' := record { s with g := g1, sp := sp' } pid op
    (s', withSpec tr res (specStr r), res == "fault")

def parseFaults (s : String) : Option (List (Nat × Errno)) :=
  (s.splitOn ",").mapM fun x =>
    match x.splitOn ":" with
    | [k, e] => do let k ← k.toNat?; let e ← errOfName e; some (k, e)
    | _ => none

/-- the shm key an op works on (for the bookkeeping of leaked mappings) -/
def shmKeyOf (g0 : G) : Op → Option Nat
  | .newShm _ k _ _ => some k
  | .free h => (match g0.hs h with | some (_, .shm x) => some x.key | _ => none)
  | _ => none

/-- a sequential op of worker `w` with scripted failures.  When a failure fired, the statement does not judge the
    call (the environment broke the contract): the spec column takes the result from the model, keeps its handle table
    in step (a failed `new` gives no handle, a `free` always removes it) and takes the names the call worked on from the
    model, as after a crash. -/
def failOp (s : St) (w : Nat) (op : Op) (faults : List (Nat × Errno)) : St × String × Bool :=
  let pid := s.wpid.getD w 0
  let g0 := s.g
  let g1 := g0.callF pid op faults
  let n := g1.log.length - g0.log.length
  let tr := traceSince g0 g1 fun _ => ""
  if !(faults.any fun f => f.1 < n) then seqOp s w op []
  else if blocked g1 g0 then ({ s with g := g1 }, tr ++ " => would-block", true)
  else if (g1.calls pid).isSome then ({ s with g := g1 }, tr ++ " => out-of-fuel", true)
  else
    let res := retStr (g1.ret pid)
    if res == "bad-op" then (s, "bad-op", false) else
    let failed := res.startsWith "fail"
    let isNew : Bool := match op with | .newSem .. | .newShm .. => true | _ => false
    let isLock : Bool := match op with | .acq _ | .rel _ | .lock _ | .unlock _ => true | _ => false
    let sp' := if failed && (isNew || isLock) then s.sp else (specOp s.sp pid op).1
    let s1 := record { s with g := g1, sp := sp' } pid op
    let s2 := if isLock && failed then s1 else resyncFor s1 g0 pid op
    let evs := g1.log.take n
    let leaks := (evs.filter fun e => match e.sys, e.res with | .munmap _ _, .err _ => true | _, _ => false).length
    let s3 := match shmKeyOf g0 op with
      | some k => { s2 with leak := List.replicate leaks (pid, k) ++ s2.leak }
      | none => s2
    (s3, tr ++ " => " ++ res, false)

def guardStr : GuardRes → String
  | .invalidArgument => s!"fail {ipcInvalidArgument}/0"
  | .nothing => "ok"
  | .null => "null"
  | .zero => "0"

def nullLine : String :=
  " => " ++ " ; ".intercalate ([GuardCall.semNewNull, .semNewNegative, .semOwn, .semAcq, .semRel, .semFree,
    .shmNewNull, .shmOwn, .shmFree, .shmLock, .shmUnlock, .shmAddr, .shmSize].map fun c => guardStr (guardRes c))

def stepN (g : G) (t : Tid) : Nat → G
  | 0 => g
  | n + 1 => if (g.calls t).isSome then stepN (g.step t false) t n else g

def crashOp (s : St) (w k : Nat) (op : Op) : St × String × Bool :=
  let pid := s.wpid.getD w 0
  let g0 := s.g
  let g1 := stepN (g0.start pid op) pid k
  let started := (g0.start pid op).calls pid |>.isSome
  if !started ∨ ((g1.calls pid).isNone ∧ g1.log.length - g0.log.length < k) then
    -- the call makes fewer than k system calls: it simply completes
    seqOp s w op []
  else if blocked g1 g0 then ({ s with g := g1 }, "would-block", true)
  else
    let tr := traceSince g0 g1 fun _ => ""
    let g2 := g1.kill pid
    let s1 := { s with g := g2, sp := IPCSpec.kill s.sp pid, leak := s.leak.filter (·.1 ≠ pid) }
    let s2 := resyncFor s1 g0 pid op
    (respawn s2 w, tr ++ " => crashed", false)

def splitAt (l : List String) (sep : String) : List String × List String :=
  (l.takeWhile (· ≠ sep), (l.dropWhile (· ≠ sep)).drop 1)

def parOp (s : St) (sched : String) (wa : Nat) (opa : Op) (wb : Nat) (opb : Op) : St × String × Bool :=
  let pa := s.wpid.getD wa 0
  let pb := s.wpid.getD wb 0
  let g0 := s.g
  let g1 := (g0.start pa opa).start pb opb
  let g2 := sched.toList.foldl (fun g c => if c = 'a' then g.step pa false else if c = 'b' then g.step pb false else g) g1
  let g3 := runCall g2 pa [] seqFuel
  let g4 := runCall g3 pb [] seqFuel
  let tr := traceSince g0 g4 fun t => if t = pa then "a:" else "b:"
  if blocked g4 g0 ∨ (g4.calls pa).isSome ∨ (g4.calls pb).isSome then ({ s with g := g4 }, tr ++ " => would-block", true)
  else
    let ra := retStr (g4.ret pa)
    let rb := retStr (g4.ret pb)
    -- the spec allows either serialisation of the two calls
    let (sp1, r1) := specOp s.sp pa opa
    let (sp2, r2) := specOp sp1 pb opb
    let (sq1, q2) := specOp s.sp pb opb
    let (sq2, q1) := specOp sq1 pa opa
    let got := apiOf ra ++ " ; " ++ apiOf rb
    let spAB := specStr r1 ++ " ; " ++ specStr r2
    let spBA := specStr q1 ++ " ; " ++ specStr q2
    let m := tr ++ " => " ++ ra ++ " ; " ++ rb
    if got = spAB then (record (record { s with g := g4, sp := sp2 } pa opa) pb opb, m, false)
    else if got = spBA then (record (record { s with g := g4, sp := sq2 } pb opb) pa opa, m, false)
    else (record (record { s with g := g4, sp := sp2 } pa opa) pb opb, m ++ " SPECDIFF " ++ spAB, false)

def step (s : St) (toks : List String) : IO (St × Bool) := do
  let out (r : St × String × Bool) : IO (St × Bool) := do
    IO.println r.2.1
    return (r.1, r.2.2)
  let bad : IO (St × Bool) := do IO.println "bad-op"; return (s, false)
  match toks with
  | ["obs"] =>
    let (api, internal) := obsModel s
    let spA := obsSpec s
    IO.println (if api = spA then api ++ " || " ++ internal else api ++ " || " ++ internal ++ " SPECDIFF " ++ spA)
    return (s, false)
  | ["reset"] => IO.println "ok"; return ({}, false)
  | "par" :: sched :: rest =>
    let (a, b) := splitAt rest ";"
    match a, b with
    | wa :: ta, wb :: tb =>
      match wa.toNat?, parseOp ta, wb.toNat?, parseOp tb with
      | some wa, some opa, some wb, some opb =>
        let newHid : Op → Option Nat
          | .newSem h _ _ _ => some h
          | .newShm h _ _ _ => some h
          | _ => none
        if wa < NW ∧ wb < NW ∧ wa ≠ wb ∧ ¬ (newHid opa ≠ none ∧ newHid opa = newHid opb) then out (parOp s sched wa opa wb opb) else bad
      | _, _, _, _ => bad
    | _, _ => bad
  | w :: rest =>
    match w.toNat? with
    | some w =>
      if w ≥ NW then bad else
      match rest with
      | ["kill"] =>
        let pid := s.wpid.getD w 0
        IO.println "ok"
        return (respawn { s with g := s.g.kill pid, sp := IPCSpec.kill s.sp pid, leak := s.leak.filter (·.1 ≠ pid) } w, false)
      | "crash" :: k :: optoks | "crashA" :: k :: optoks =>
        match k.toNat?, parseOp optoks with
        | some k, some op => out (crashOp s w k op)
        | _, _ => bad
      | ["null"] => IO.println nullLine; return (s, false)
      | ["close0"] => IO.println "ok"; return (s, false)   -- descriptor numbers are not part of the model: which number an open returns does not matter
      | "fail" :: fs :: optoks =>
        match parseFaults fs, parseOp optoks with
        | some fs, some op => out (failOp s w op fs)
        | _, _ => bad
      | "eintr" :: sc :: optoks =>
        match parseScript sc, parseOp optoks with
        | some sc, some op => out (seqOp s w op sc)
        | _, _ => bad
      | optoks =>
        match parseOp optoks with
        | some op => out (seqOp s w op [])
        | none => bad
    | none => bad
  | [] => bad

def run : IO Unit := do
  let _ ← forEachLine (← IO.getStdin) St {} step
  return ()

end PV.Driver.IPC

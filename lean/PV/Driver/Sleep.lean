import PV.Model.Sleep
import PV.Driver.Util
/-! driver for the sleep part of C19.  `sleep MSEC AMBIENT r1 r2 …` → `ret=… calls=[…]`.
    Spec: with a script of interruptions followed by OK the call returns 0 having requested exactly
    the remaining times; `real …` lines are answered with the property's expectation. -/
namespace PV.Driver.Sleep
open PV.Sleep

def parseR (s : String) : Option Native :=
  if s = "OK" then some .ok
  else if s.startsWith "EINTR:" then (s.drop 6).toString.toNat?.map .intr
  else if s.startsWith "ERR:" then (s.drop 4).toString.toInt?.map .err
  else none

def fmt (o : Out) : String := s!"ret={o.ret} calls=[{joinNat o.calls}]"

/-- the spec's answer for a kernel-contract script: transparent to interruptions -/
def specOut (msec : Nat) (script : List Native) : Option Out :=
  let req := msec * 1000000
  let rec go (cur : Nat) (acc : List Nat) : List Native → Option Out
    | [] => none
    | .ok :: _ => some { ret := 0, calls := (cur :: acc).reverse }
    | .intr rem :: rest => go rem (cur :: acc) rest
    | .err c :: _ => if c = EINTR then none else some { ret := -1, calls := (cur :: acc).reverse }
  go req [] script

def step (_ : Unit) (toks : List String) : IO (Unit × Bool) := do
  match toks with
  | "sleep" :: ms :: amb :: rs =>
    match ms.toNat?, amb.toInt?, rs.mapM parseR with
    | some ms, some amb, some script =>
      let o := sleep amb ms script
      let line := fmt o
      match specOut ms script with
      | some so => IO.println (if fmt so = line then line else line ++ " SPECDIFF " ++ fmt so)
      | none => IO.println line
      return ((), false)
    | _, _, _ => IO.println "bad-op"; return ((), false)
  | ["real", _, _] => IO.println "ret=0 elapsed_ok=1 signals>0=1"; return ((), false)
  | _ => IO.println "bad-op"; return ((), false)

def run : IO Unit := do
  let _ ← forEachLine (← IO.getStdin) Unit () step
  return ()

end PV.Driver.Sleep

/-! Line-protocol helpers for the model driver (`pvdriver`). -/
namespace PV.Driver

partial def forEachLine (h : IO.FS.Stream) (σ : Type) (init : σ)
    (f : σ → List String → IO (σ × Bool)) : IO σ := do
  let rec loop (s : σ) : IO σ := do
    let line ← h.getLine
    if line.isEmpty then return s
    let toks := (line.trimAscii.toString.splitOn " ").filter (· ≠ "")
    if toks.isEmpty then loop s
    else
      let (s', stop) ← f s toks
      if stop then return s' else loop s'
  loop init

def joinNat (l : List Nat) : String := " ".intercalate (l.map toString)
def joinU64 (l : List UInt64) : String := " ".intercalate (l.map fun x => toString x.toNat)

def hexDigit (n : Nat) : Char := if n < 10 then Char.ofNat (48 + n) else Char.ofNat (87 + n)
def hexByte (b : UInt8) : String := String.ofList [hexDigit (b.toNat / 16), hexDigit (b.toNat % 16)]
def hexOfBytes (l : List UInt8) : String := String.join (l.map hexByte)
def hexVal (c : Char) : Option Nat :=
  if '0' ≤ c ∧ c ≤ '9' then some (c.toNat - 48)
  else if 'a' ≤ c ∧ c ≤ 'f' then some (c.toNat - 87)
  else if 'A' ≤ c ∧ c ≤ 'F' then some (c.toNat - 55) else none
def bytesOfHex (s : String) : Option (List UInt8) :=
  let rec go : List Char → List UInt8 → Option (List UInt8)
    | [], acc => some acc.reverse
    | [_], _ => none
    | a :: b :: r, acc => do
        let x ← hexVal a
        let y ← hexVal b
        go r (UInt8.ofNat (x * 16 + y) :: acc)
  if s = "-" then some [] else go s.toList []

end PV.Driver

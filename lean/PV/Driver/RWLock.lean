import PV.Model.RWLock
import PV.Driver.Util
import Std.Data.HashMap
/-! driver for the read-write lock family (C02), general model.

ops
  prog T op…      program of thread T (T = 0,1,2… in order; ops rlock wlock rtry wtry runlock wunlock)
  start           all threads run to their first scheduling point; prints the status line
  run T [U]       thread T performs its next atomic step (U: the waiter a `signal` wakes)
  spur T          spurious wake-up of T (must be blocked in a wait)
  reset           forget everything
  nospec          (before start) the programs are not disciplined: the property does not apply, flags are
                  printed without a SPECDIFF part (pure model/implementation correspondence)
  twin            (after start) a second, independent lock object: `twin ok` (the model's state is the state
                  of ONE lock object; another object has its own state, nothing is shared)
  null OP         `p_rwlock_<OP> (NULL)`: FALSE, nothing touched: `null OP ret=0`
  fail T          thread T performs the primitive call it is suspended at (L: p_mutex_lock, W: p_cond_variable_wait,
                  S: signal, C: broadcast, U: p_mutex_unlock) and that call returns FALSE (`PV.RWLock.failStep`)
  free            (after start) `p_rwlock_free (lock)`: `free struct=1 mutex=1 cv=2`; only `reset` may follow
  newfail K       `p_rwlock_new ()` whose allocation number K fails (0 struct, 1 mutex, 2 read_cv, 3 write_cv):
                  `newfail K ret=NULL struct=.. mutex=.. cv=..` (what was released)
  explore N [F]   (not part of the diff protocol) dump the reachable state graph of the current
                  programs, at most N states, with at most F failing primitive calls on a path (default 0)

status line
  m=<owner|-> a=<active hex> w=<waiting hex> | <thread>… [!DEADLOCK] [!UNSAFE] [!TRYBLOCK] [!INCONSISTENT]
  !INCONSISTENT (sticky; disciplined programs only): at a moment when the internal mutex is free the counter fields
  of `active_threads` differ from the numbers of user-level holders ("a lock call that fails does not count as holding,
  a call that succeeds does").  After a `fail` op a deadlock is no property violation (the liveness half of the
  property assumes primitives that work): `!DEADLOCK` is then printed without a SPECDIFF part.
  thread = <pc>/<last return>+<ops left>,  pc = L.op (at mutex_lock)  W.op.cv (at wait)  B.op.cv (blocked)
           K.op.cv (woken)  S.op.cv (at signal)  C.op.cv (at broadcast)  U.op (at mutex_unlock)  D (done)
The part after the model's answer, `SPECDIFF <line without flags>`, is the spec's answer: the
property says that neither flag ever appears (for disciplined programs). -/
namespace PV.Driver.RWLock
open PV.RWLock

def opName : Op → String
  | .rlock => "rlock" | .wlock => "wlock" | .rtry => "rtry" | .wtry => "wtry"
  | .runlock => "runlock" | .wunlock => "wunlock"

def parseOp : String → Option Op
  | "rlock" => some .rlock | "wlock" => some .wlock | "rtry" => some .rtry | "wtry" => some .wtry
  | "runlock" => some .runlock | "wunlock" => some .wunlock
  | _ => none

def cvName : Cv → String
  | .read => "read" | .write => "write"

def pcName : PC → String
  | .lock op => "L." ++ opName op
  | .atWait op cv => "W." ++ opName op ++ "." ++ cvName cv
  | .blocked op cv => "B." ++ opName op ++ "." ++ cvName cv
  | .woken op cv => "K." ++ opName op ++ "." ++ cvName cv
  | .atSignal op cv => "S." ++ opName op ++ "." ++ cvName cv
  | .atBcast op cv => "C." ++ opName op ++ "." ++ cvName cv
  | .atUnlock op _ => "U." ++ opName op
  | .done => "D"

def hex8 (w : Word) : String :=
  let n := w.toNat
  String.ofList ((List.range 8).reverse.map fun i => hexDigit ((n >>> (4 * i)) % 16))

def thName (th : Thread) : String :=
  pcName th.pc ++ "/" ++
    (match th.last with
     | none => "-"
     | some (op, r) => opName op ++ "=" ++ (if r then "1" else "0")) ++
    "+" ++ toString th.prog.length

def statusCore (s : State) : String :=
  "m=" ++ (match s.mutex with | some t => toString t | none => "-") ++
  " a=" ++ hex8 s.active ++ " w=" ++ hex8 s.waiting ++ " | " ++ " ".intercalate (s.threads.map thName)

/-- is a non-spurious step of `t` enabled -/
def enabled (s : State) (t : Tid) : Bool :=
  match s.threads[t]? with
  | none => false
  | some th =>
    match th.pc with
    | .lock _ | .woken _ _ => s.mutex.isNone
    | .blocked _ _ | .done => false
    | _ => true

def deadlocked (s : State) : Bool :=
  !allDone s && !(List.range s.threads.length).any (enabled s)

/-- user-level holders, tracked exactly as the harness's oracle does: a thread holds from the TRUE
    return of an acquire call until it enters the mutex of its unlock call -/
structure Oracle where
  holders : List (Tid × Bool) := []     -- (thread, isWriter)
  unsafeSeen : Bool := false
  inconsistentSeen : Bool := false

def Oracle.before (o : Oracle) (s : State) (t : Tid) : Oracle :=
  match s.threads[t]? with
  | some th =>
    (match th.pc with
     | .lock .runlock => { o with holders := o.holders.erase (t, false) }
     | .lock .wunlock => { o with holders := o.holders.erase (t, true) }
     | _ => o)
  | none => o

def Oracle.after (o : Oracle) (s : State) (t : Tid) : Oracle :=
  match s.threads[t]? with
  | some th =>
    (match th.pc with
     | .atUnlock op true =>
       if op.isAcq then
         let w := (op == .wlock || op == .wtry)
         let bad := if w then !o.holders.isEmpty else o.holders.any (·.2)
         { o with holders := (t, w) :: o.holders, unsafeSeen := o.unsafeSeen || bad }
       else o
     | _ => o)
  | none => o

/-- a failed final `p_mutex_unlock` of a granted acquire: the call returns FALSE, the thread is no holder -/
def Oracle.failed (o : Oracle) (s : State) (t : Tid) : Oracle :=
  match s.threads[t]? with
  | some th =>
    (match th.pc with
     | .atUnlock op true => if op.isAcq then { o with holders := o.holders.erase (t, (op == .wlock || op == .wtry)) } else o
     | _ => o)
  | none => o

/-- the consistency oracle, evaluated on the state after an op -/
def Oracle.check (o : Oracle) (s : State) (nospec : Bool) : Oracle :=
  if nospec || s.mutex.isSome then o
  else
    let nr := (o.holders.filter (fun h => !h.2)).length
    let nw := (o.holders.filter (·.2)).length
    if (READER_COUNT s.active).toNat == nr && (WRITER_COUNT s.active).toNat == nw then o
    else { o with inconsistentSeen := true }

structure St where
  progs : List (List Op) := []
  s : Option State := none
  o : Oracle := {}
  nospec : Bool := false
  /-- threads on the zero-reader-count path of `p_rwlock_reader_unlock` (between its two own steps) -/
  zero : List Tid := []
  failSeen : Bool := false
  freed : Bool := false

/-- is some thread at / inside / returning from a condition-variable wait on behalf of a trylock call
    (never, by `PV.Props.C02.try_never_waits`; the harness's oracle flag of the same name is sticky) -/
def tryBlocked (s : State) : Bool :=
  s.threads.any fun th =>
    match th.pc with
    | .atWait op _ | .blocked op _ | .woken op _ => op == .rtry || op == .wtry
    | _ => false

def statusLine (s : State) (o : Oracle) (nospec : Bool := false) (failSeen : Bool := false) : String :=
  let core := statusCore s
  let dl := if deadlocked s then " !DEADLOCK" else ""
  let safety := (if o.unsafeSeen then " !UNSAFE" else "") ++
    (if tryBlocked s then " !TRYBLOCK" else "") ++ (if o.inconsistentSeen then " !INCONSISTENT" else "")
  let flags := dl ++ safety
  if flags.isEmpty then core else if nospec then core ++ flags
  else if failSeen then (if safety.isEmpty then core ++ flags else core ++ flags ++ " SPECDIFF " ++ core ++ dl)
  else core ++ flags ++ " SPECDIFF " ++ core

/-! ### state graph dump -/

def stateKey (s : State) : String :=
  statusCore s ++ " ; " ++ " ".intercalate (s.threads.map fun th =>
    (match th.held with | .none => "n" | .r => "r" | .w => "w") ++ ":" ++ ",".intercalate (th.prog.map opName) ++
    (match th.pc with | .atUnlock _ r => if r then "T" else "F" | _ => ""))

/-- exploration node: model state, threads on the zero path of reader_unlock, failures still allowed -/
structure Node where
  s : State
  zero : List Tid := []
  fails : Nat := 0
  deriving Inhabited

def nodeKey (n : Node) : String :=
  stateKey n.s ++ " z" ++ ",".intercalate (n.zero.map toString) ++ " f" ++ toString n.fails

/-- is `t` about to take the zero-reader-count path of reader_unlock with a normal step -/
def entersZero (s : State) (t : Tid) : Bool :=
  match s.threads[t]? with
  | some th => th.pc == .lock .runlock && READER_COUNT s.active == 0
  | none => false

def canFail (s : State) (t : Tid) : Bool :=
  match s.threads[t]? with
  | some th => (match th.pc with
    | .lock _ | .atWait _ _ | .atSignal _ _ | .atBcast _ _ | .atUnlock _ _ => true
    | _ => false)
  | none => false

/-- all labelled successors of a state: (`run T` | `run T U` | `spur T`, successor) -/
def successors (s : State) : List (String × State) := Id.run do
  let mut out : List (String × State) := []
  for t in List.range s.threads.length do
    match s.threads[t]? with
    | none => pure ()
    | some th =>
      match th.pc with
      | .blocked _ _ =>
        match spurious s t with
        | some s' => out := (s!"spur {t}", s') :: out
        | none => pure ()
      | .atSignal _ cv =>
        let ws := waitSet s cv
        if ws.length ≥ 2 then
          for u in ws do
            match stepThread cfg s t (some u) with
            | some s' => out := (s!"run {t} {u}", s') :: out
            | none => pure ()
        else
          match stepThread cfg s t with
          | some s' => out := (s!"run {t}", s') :: out
          | none => pure ()
      | _ =>
        match stepThread cfg s t with
        | some s' => out := (s!"run {t}", s') :: out
        | none => pure ()
  return out.reverse

def thread_of_label (lbl : String) : Nat :=
  match lbl.splitOn " " with
  | _ :: t :: _ => t.toNat?.getD 0
  | _ => 0

def nodeSuccessors (n : Node) : List (String × Node) :=
  let normal := (successors n.s).map fun (lbl, s') =>
    let t := thread_of_label lbl
    if lbl.startsWith "run" then
      (lbl, { n with s := s', zero := if entersZero n.s t then t :: n.zero.erase t else n.zero.erase t })
    else (lbl, { n with s := s' })
  let failing := if n.fails = 0 then [] else
    (List.range n.s.threads.length).filterMap fun t =>
      if canFail n.s t then
        (failStep n.s t (n.zero.contains t)).map fun s' => (s!"fail {t}", { s := s', zero := n.zero.erase t, fails := n.fails - 1 })
      else none
  normal ++ failing

partial def explore (init : State) (maxStates : Nat) (fails : Nat := 0) : IO Unit := do
  let init : Node := { s := init, fails := fails }
  let stateKey := nodeKey
  let successors := nodeSuccessors
  let allDone := fun (n : Node) => PV.RWLock.allDone n.s
  let deadlocked := fun (n : Node) => PV.Driver.RWLock.deadlocked n.s
  let statusCore := fun (n : Node) => PV.Driver.RWLock.statusCore n.s
  let mut ids : Std.HashMap String Nat := {}
  ids := ids.insert (stateKey init) 0
  let mut todo : Array Node := #[init]
  let mut next := 0
  let mut nTrans := 0
  let mut truncated := false
  let out ← IO.getStdout
  while next < todo.size do
    let s := todo[next]!
    let sid := next
    next := next + 1
    if allDone s then out.putStrLn s!"F {sid}"
    else if deadlocked s then out.putStrLn s!"X {sid} {statusCore s}"
    for (lbl, s') in successors s do
      let k := stateKey s'
      match ids[k]? with
      | some j => out.putStrLn s!"E {sid} {j} {lbl}"; nTrans := nTrans + 1
      | none =>
        if ids.size ≥ maxStates then truncated := true
        else
          let j := ids.size
          ids := ids.insert k j
          todo := todo.push s'
          out.putStrLn s!"E {sid} {j} {lbl}"
          nTrans := nTrans + 1
  out.putStrLn s!"end states={ids.size} transitions={nTrans} truncated={truncated}"

def step (st : St) (toks : List String) : IO (St × Bool) := do
  match toks with
  | "prog" :: t :: ops =>
    match t.toNat?, ops.mapM parseOp with
    | some t, some ops =>
      if t = st.progs.length && st.s.isNone then
        IO.println "ok"; return ({ st with progs := st.progs ++ [ops] }, false)
      else IO.println "bad-op"; return (st, false)
    | _, _ => IO.println "bad-op"; return (st, false)
  | ["start"] =>
    if st.s.isSome then IO.println "bad-op"; return (st, false)
    let s := init st.progs
    IO.println (statusLine s {} st.nospec); return ({ st with s := some s, o := {} }, false)
  | ["run", t] | ["run", t, _] =>
    let pick : Option (Option Nat) := match toks with
      | [_, _, u] => u.toNat?.map some
      | _ => some none
    match st.s, t.toNat?, pick with
    | some s, some t, some pick =>
      -- a pick is only meaningful (and only validated) when T is about to signal
      let pick := match s.threads[t]? with
        | some th => (match th.pc with | .atSignal _ _ => pick | _ => none)
        | none => none
      if st.freed then IO.println "bad-op"; return (st, false)
      match stepThread cfg s t pick with
      | none => IO.println "not-enabled"; return (st, false)
      | some s' =>
        let o := ((st.o.before s t).after s t).check s' st.nospec
        let zero := if entersZero s t then t :: st.zero.erase t else st.zero.erase t
        IO.println (statusLine s' o st.nospec st.failSeen); return ({ st with s := some s', o := o, zero := zero }, false)
    | _, _, _ => IO.println "bad-op"; return (st, false)
  | ["fail", t] =>
    match st.s, t.toNat? with
    | some s, some t =>
      if st.freed then IO.println "bad-op"; return (st, false)
      match failStep s t (st.zero.contains t) with
      | none => IO.println "not-enabled"; return (st, false)
      | some s' =>
        let o := (st.o.failed s t).check s' st.nospec
        IO.println (statusLine s' o st.nospec true)
        return ({ st with s := some s', o := o, zero := st.zero.erase t, failSeen := true }, false)
    | _, _ => IO.println "bad-op"; return (st, false)
  | ["free"] =>
    if st.s.isNone || st.freed then IO.println "bad-op"; return (st, false)
    let r := freeAll
    IO.println s!"free struct={r.structs} mutex={r.mutexes} cv={r.condvars}"; return ({ st with freed := true }, false)
  | ["newfail", k] =>
    match k.toNat? with
    | some k =>
      if k > 3 then IO.println "bad-op"; return (st, false)
      let r := newFail k
      IO.println s!"newfail {k} ret=NULL struct={r.structs} mutex={r.mutexes} cv={r.condvars}"; return (st, false)
    | none => IO.println "bad-op"; return (st, false)
  | ["spur", t] =>
    match st.s, t.toNat? with
    | some s, some t =>
      match spurious s t with
      | none => IO.println "not-enabled"; return (st, false)
      | some s' =>
        if st.freed then IO.println "bad-op"; return (st, false)
        let o := st.o.check s' st.nospec
        IO.println (statusLine s' o st.nospec st.failSeen); return ({ st with s := some s', o := o }, false)
    | _, _ => IO.println "bad-op"; return (st, false)
  | ["reset"] => IO.println "ok"; return ({}, false)
  | ["twin"] =>
    if st.s.isNone || st.freed then IO.println "bad-op"; return (st, false)
    IO.println "twin ok"; return (st, false)
  | ["null", op] =>
    match parseOp op with
    | some op => IO.println s!"null {opName op} ret=0"; return (st, false)
    | none => IO.println "bad-op"; return (st, false)
  | ["nospec"] =>
    if st.s.isSome then IO.println "bad-op"; return (st, false)
    IO.println "ok"; return ({ st with nospec := true }, false)
  | ["explore", n] =>
    match n.toNat? with
    | some n => explore (init st.progs) n; return (st, false)
    | none => IO.println "bad-op"; return (st, false)
  | ["explore", n, f] =>
    match n.toNat?, f.toNat? with
    | some n, some f => explore (init st.progs) n f; return (st, false)
    | _, _ => IO.println "bad-op"; return (st, false)
  | _ => IO.println "bad-op"; return (st, false)

def run : IO Unit := do
  let _ ← forEachLine (← IO.getStdin) St {} step
  return ()

/-! ### posix mapping driver: `call <op> <code>` → the wrapper's result for that pthread return code -/
def stepPosix (_ : Unit) (toks : List String) : IO (Unit × Bool) := do
  match toks with
  | ["call", op, code] =>
    match parseOp op, code.toInt? with
    | some op, some code =>
      IO.println s!"{opName op} pthread={(match Posix.callOf op with
        | .rdlock => "rdlock" | .tryrdlock => "tryrdlock" | .wrlock => "wrlock" | .trywrlock => "trywrlock"
        | .unlock => "unlock" | .init => "init" | .destroy => "destroy")} ret={if Posix.result op code then 1 else 0}"
      return ((), false)
    | _, _ => IO.println "bad-op"; return ((), false)
  | ["null", op] =>
    match parseOp op with
    | some op => IO.println s!"{opName op} pthread=none ret={if Posix.resultNull op then 1 else 0}"; return ((), false)
    | none => IO.println "bad-op"; return ((), false)
  | ["new", code] =>
    match code.toInt? with
    | some code => IO.println s!"new ret={if Posix.newOk true code then 1 else 0}"; return ((), false)
    | none => IO.println "bad-op"; return ((), false)
  -- `p_rwlock_free`: one `pthread_rwlock_destroy` on the object's own handle; the object is released whatever the code
  | ["free", code] =>
    match code.toInt? with
    | some code =>
      let (destroyCalled, released) := Posix.freeResult code
      IO.println s!"free pthread={if destroyCalled then "destroy" else "none"} handle=own released={if released then 1 else 0}"
      return ((), false)
    | none => IO.println "bad-op"; return ((), false)
  -- every call goes to the handle inside the lock object it is given (`&lock->hdl`, `&ret->hdl`)
  | ["ident"] => IO.println "ident ok"; return ((), false)
  | ["reset"] => IO.println "ok"; return ((), false)
  | _ => IO.println "bad-op"; return ((), false)

def runPosix : IO Unit := do
  let _ ← forEachLine (← IO.getStdin) Unit () stepPosix
  return ()

end PV.Driver.RWLock

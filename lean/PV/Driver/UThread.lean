import PV.Model.UThread
import PV.Spec.UThread
import PV.Driver.Util
/-! driver for the thread family (C05).  One answer line per op:

    `r=<result> L=<live handles> F=<handles freed by this op> D=<notifier calls of this op> ob=<other live blocks> N=<native TLS calls of this op>`

`r L F D` are API-visible and are also computed by the spec (`PV.Spec.UThread`); when the spec
answers differently the line carries ` SPECDIFF <spec's r L F D>`.  `ob` (name blocks + native-key
blocks alive) and `N` are internal observables of the model only.  A harness-level op is a short
sequence of model events (e.g. `create` = `createBegin; createEnd`; a TLS call on a key without a
native key = `keyCreate; keyCas; setLocal`).  Ops the model does not enable, and ops outside the
reference discipline (`Permitted`), are answered `bad-op` and change nothing. -/
namespace PV.Driver.UThread
open PV.UThread
open PV.Generated.UThread
namespace Sp
export PV.UThreadSpec (S Out create spawn ref drop current exit join threadEnd keyNew keyFree setLocal replaceLocal sortD)
end Sp

structure Pend where
  t : Nat
  what : String
  k : Nat
  v : Nat

structure St where
  m : State := init
  sp : PV.UThreadSpec.S := {}
  pend : List Pend := []
  /-- keys whose first use was a real (barrier) race: the number of native keys created is not determined -/
  raced : List Nat := []

inductive Res
  | ok (m : State) (native : List String)
  | bad
  | fault (e : Err)

/-- a native key is shown as `<PUThreadKey id>.<index among that key's native keys>` (`?` for a raced key) -/
def showN (raced : List Nat) (s : State) (n : Nat) : String :=
  let k := (s.nkey n).owner
  let idx := ((List.range n).filter fun m => (s.nkey m).owner = k).length
  toString k ++ "." ++ (if k ∈ raced then "?" else toString idx)

/-- run model events, collecting the native TLS calls they stand for -/
def nativeOf (raced : List Nat) (s : State) (e : Ev) (s' : State) : List String :=
  let sh := showN raced s'
  let lib (t : Nat) : List String :=     -- p_uthread_current: getspecific (+ setspecific of a fresh handle)
    match (s.key 0).published with
    | some n => ["gs" ++ sh n] ++
        (if s.tls t n = 0 then ["ss" ++ sh n ++ ":H"] ++ (if currentChecksStore then ["gs" ++ sh n] else []) else [])
    | none => []
  match e with
  | .keyCreate _ _ => ["kc" ++ sh s.nN]
  | .keyCas t _ =>
    match (s.thr t).pend with
    | some (_, n) => if (s'.nkey n).live then [] else ["kd" ++ sh n]
    | none => []
  | .setLocal _ k v =>
    match (s.key k).published with
    | some n => (if setCallsNotifier then ["gs" ++ sh n] else []) ++ ["ss" ++ sh n ++ ":" ++ toString v]
    | none => []
  | .replaceLocal _ k v =>
    match (s.key k).published with
    | some n => ["gs" ++ sh n, "ss" ++ sh n ++ ":" ++ toString v]
    | none => []
  | .getLocal _ k =>
    match (s.key k).published with
    | some n => ["gs" ++ sh n]
    | none => []
  | .start _ =>     -- proxy: setspecific, and (repaired code) the read-back `is_stored`
    match (s.key 0).published with
    | some n => ["ss" ++ sh n ++ ":H"] ++ (if proxyReadsBack then ["gs" ++ sh n] else [])
    | none => []
  | .localFree _ k =>
    match (s.key k).published with
    | some n => if localFreeDeletesKey then ["kd" ++ showN raced s n] else []
    | none => []
  | .current t => lib t
  | .exit t _ => lib t
  | _ => []

def runEvs (s : State) (es : List Ev) (raced : List Nat := []) : Res :=
  let rec go (s : State) (acc : List String) : List Ev → Res
    | [] => .ok s acc
    | e :: r =>
      if ¬ Permitted s e then .bad else
      match step s e with
      | .error .notEnabled => .bad
      | .error x => .fault x
      | .ok s' => go s' (acc ++ nativeOf raced s e s') r
  go s [] es

/-- the slow path of `pp_uthread_get_tls_key` when the key has no native key yet -/
def needKey (s : State) (t : Nat) (k : Nat) : List Ev :=
  match (s.key k).published with
  | some _ => []
  | none => [.keyCreate t k, .keyCas t k]

def fmtList (l : List Nat) : String := ",".intercalate (l.map toString)
def fmtD (l : List (Nat × Nat × Nat)) : String :=
  ";".intercalate (l.map fun x => toString x.1 ++ ":" ++ toString x.2.1 ++ ":" ++ toString x.2.2)

def liveOf (s : State) : List Nat := (List.range s.nH).filter fun h => ¬ (s.hdl h).freed
def otherBlocks (s : State) : Nat :=
  ((List.range s.nH).filter fun h => (s.hdl h).named ∧ ¬ (s.hdl h).freed).length +
  ((List.range s.nN).filter fun n => ¬ (s.nkey n).blockFreed).length

def apiPart (r : String) (live freed : List Nat) (d : List (Nat × Nat × Nat)) : String :=
  "r=" ++ r ++ " L=" ++ fmtList live ++ " F=" ++ fmtList freed ++ " D=" ++ fmtD (Sp.sortD d)

/-- print the answer for an op that took the model from `m` to `m'` and the spec to `sp'` with outputs `o` -/
def answer (m m' : State) (native : List String) (rM : String) (sp' : PV.UThreadSpec.S) (o : Sp.Out) (rS : String)
    (showNative : Bool := true) : String :=
  let freed := m'.freeLog.drop m.freeLog.length
  let d := (m'.dtorLog.drop m.dtorLog.length).filter (·.2.1 ≠ 0)
  let a := apiPart rM (liveOf m') freed d
  let b := apiPart rS sp'.live o.freed o.dtor
  a ++ " ob=" ++ toString (otherBlocks m') ++ " N=" ++ (if showNative then ",".intercalate native else "~")
    ++ (if a = b then "" else " SPECDIFF " ++ b)

def faultText : Err → String
  | .useAfterFree h => "fault uaf H" ++ toString h
  | .keyUseAfterFree k => "fault key-uaf K" ++ toString k
  | .ub w => "fault ub " ++ w
  | .notEnabled => "bad-op"

def lastJoin (m : State) : String := match m.joinLog.getLast? with | some x => toString x.2.2 | none => "?"
def lastGet (m : State) : String := match m.getLog.getLast? with | some x => toString x.2.2 | none => "?"
def lastCur (m : State) : String := match m.curLog.getLast? with | some x => "H" ++ toString x.2 | none => "?"

def isPending (s : St) (t : Nat) : Bool := s.pend.any (·.t = t)

/-- finish a TLS call on the model and the spec; returns (events, spec update) -/
def tlsOp (what : String) (t : Nat) (k : Nat) (v : Nat) : Option Ev :=
  match what with
  | "set" => some (.setLocal t k v)
  | "replace" => some (.replaceLocal t k v)
  | "get" => some (.getLocal t k)
  | "current" => some (.current t)
  | "start" => some (.start t)
  | _ => none

def specTls (sp : PV.UThreadSpec.S) (what : String) (t : Nat) (k : Nat) (v : Nat) : PV.UThreadSpec.S × Sp.Out × String :=
  match what with
  | "set" => (Sp.setLocal sp t k v, {}, "-")
  | "replace" => let r := Sp.replaceLocal sp t k v; (r.1, r.2, "-")
  | "get" => (sp, {}, toString (sp.cell t k))
  | "current" => let r := Sp.current sp t; (r.1, {}, "H" ++ toString r.2)
  | _ => (sp, {}, "-")

def keyOf (what : String) (k : Nat) : Nat := if what = "current" ∨ what = "start" then 0 else k

def step (s : St) (toks : List String) : IO (St × Bool) := do
  let bad : IO (St × Bool) := do IO.println "bad-op"; return (s, false)
  let fin (r : Res) (rM : St → State → String) (sp' : PV.UThreadSpec.S) (o : Sp.Out) (rS : String)
      (pend' : List Pend := s.pend) (showNative := true) (status : String := "") (raced' : List Nat := s.raced) : IO (St × Bool) := do
    match r with
    | .bad => bad
    | .fault e => IO.println (faultText e); return (s, true)
    | .ok m' nat =>
      IO.println (answer s.m m' (if status = "" then nat else status :: nat) (rM s m') sp' o rS showNative)
      return ({ s with m := m', sp := sp', pend := pend', raced := raced' }, false)
  let m := s.m
  match toks with
  | ["reset"] => IO.println "ok"; return ({}, false)
  | ["spawn"] =>
    let r := Sp.spawn s.sp
    fin (runEvs (raced := s.raced) m [.spawn]) (fun _ _ => "T" ++ toString m.nT) r.1 {} ("T" ++ toString r.2)
  | ["race", k, t1, v1, t2, v2] =>
    match k.toNat?, t1.toNat?, v1.toNat?, t2.toNat?, v2.toNat? with
    | some k, some t1, some v1, some t2, some v2 =>
      if t1 = t2 ∨ isPending s t1 ∨ isPending s t2 ∨ t1 = 0 ∨ t2 = 0 then bad else
      let pre : List Ev := match (m.key k).published with
        | some _ => []
        | none => [.keyCreate t1 k, .keyCreate t2 k, .keyCas t1 k, .keyCas t2 k]
      let rk := if pre.isEmpty then s.raced else k :: s.raced
      fin (runEvs (raced := rk) m (pre ++ [.setLocal t1 k v1, .setLocal t2 k v2])) (fun _ _ => "-")
        (Sp.setLocal (Sp.setLocal s.sp t1 k v1) t2 k v2) {} "-" s.pend false "" rk
    | _, _, _, _, _ => bad
  | a :: rest =>
    match a.toNat? with
    | none => bad
    | some a =>
      if isPending s a ∧ rest ≠ ["kcas"] then bad else
      match rest with
      | "create" :: jd :: nm =>
        if (jd ≠ "j" ∧ jd ≠ "d") ∨ (nm ≠ [] ∧ nm ≠ ["n"]) then bad else
        let r := Sp.create s.sp (jd = "j")
        fin (runEvs (raced := s.raced) m [.createBegin a (jd = "j") (nm = ["n"]), .createEnd a])
          (fun _ _ => "T" ++ toString m.nT ++ ",H" ++ toString m.nH) r.1 {} ("T" ++ toString r.2.1 ++ ",H" ++ toString r.2.2)
      | ["start"] =>
        fin (runEvs (raced := s.raced) m (needKey m a 0 ++ [.start a])) (fun _ _ => "-") s.sp {} "-"
      | ["set", k, v] =>
        match k.toNat?, v.toNat? with
        | some k, some v => fin (runEvs (raced := s.raced) m (needKey m a k ++ [.setLocal a k v])) (fun _ _ => "-") (Sp.setLocal s.sp a k v) {} "-"
        | _, _ => bad
      | ["replace", k, v] =>
        match k.toNat?, v.toNat? with
        | some k, some v =>
          let r := Sp.replaceLocal s.sp a k v
          fin (runEvs (raced := s.raced) m (needKey m a k ++ [.replaceLocal a k v])) (fun _ _ => "-") r.1 r.2 "-"
        | _, _ => bad
      | ["get", k] =>
        match k.toNat? with
        | some k => fin (runEvs (raced := s.raced) m (needKey m a k ++ [.getLocal a k])) (fun _ m' => lastGet m') s.sp {} (toString (s.sp.cell a k))
        | _ => bad
      | ["current"] =>
        let r := Sp.current s.sp a
        fin (runEvs (raced := s.raced) m (needKey m a 0 ++ [.current a])) (fun _ m' => lastCur m') r.1 {} ("H" ++ toString r.2)
      | ["exit", c] =>
        match c.toInt? with
        | some c =>
          match (m.thr a).handle with
          | some _ => fin (runEvs (raced := s.raced) m (needKey m a 0 ++ [.exit a c])) (fun _ _ => "-") (Sp.exit s.sp a c) {} "-"
          | none =>   -- a thread the library did not create: the harness calls `current` (to learn the block), then `exit`, which returns
            let r := Sp.current s.sp a
            fin (runEvs (raced := s.raced) m (needKey m a 0 ++ [.current a, .exit a c])) (fun _ _ => "noexit") (Sp.exit r.1 a c) {} "noexit"
        | none => bad
      | ["return"] => fin (runEvs (raced := s.raced) m [.ret a]) (fun _ _ => "-") s.sp {} "-"
      | ["end"] =>
        let r := Sp.threadEnd s.sp a
        fin (runEvs (raced := s.raced) m [.threadEnd a]) (fun _ _ => "-") r.1 r.2 "-"
      | ["ref", h] =>
        match h.toNat? with
        | some h => fin (runEvs (raced := s.raced) m [.ref a h]) (fun _ _ => "-") (Sp.ref s.sp h) {} "-"
        | none => bad
      | ["unref", h] =>
        match h.toNat? with
        | some h => let r := Sp.drop s.sp h; fin (runEvs (raced := s.raced) m [.unref a h]) (fun _ _ => "-") r.1 { freed := r.2 } "-"
        | none => bad
      | ["join", h] =>
        match h.toNat? with
        | some h => fin (runEvs (raced := s.raced) m [.join a h]) (fun _ m' => lastJoin m') s.sp {} (toString (Sp.join s.sp h))
        | none => bad
      | ["keynew", n] =>
        if n ≠ "n" ∧ n ≠ "x" then bad else
        let r := Sp.keyNew s.sp (n = "n")
        fin (runEvs (raced := s.raced) m [.localNew a (n = "n")]) (fun _ _ => "K" ++ toString m.nK) r.1 {} ("K" ++ toString r.2)
      | ["keyfree", k] =>
        match k.toNat? with
        | some k =>
          -- freeing a key while a thread is parked inside a call on it is a misuse of the TLS API (refused)
          if s.pend.any (·.k = k) then bad else
          fin (runEvs (raced := s.raced) m [.localFree a k]) (fun _ _ => "-") (Sp.keyFree s.sp k) {} "-"
        | none => bad
      | ["kbegin", what, k, v] =>
        match k.toNat?, v.toNat? with
        | some k, some v =>
          if a = 0 then bad else
          match tlsOp what a (keyOf what k) v with
          | none => bad
          | some e =>
            let k := keyOf what k
            -- the call must be possible at all (a fault of the wrapper counts), and the thread in the right phase
            if what = "start" ∧ (m.thr a).phase ≠ .created then bad
            else if what ≠ "start" ∧ ¬ canAct m a then bad
            else if ¬ k < m.nK ∨ (k = 0 ∧ what ≠ "current" ∧ what ≠ "start") then bad
            else match (m.key k).published with
            | some _ =>
              let r := specTls s.sp what a k v
              fin (runEvs (raced := s.raced) m [e]) (fun _ m' => if what = "get" then lastGet m' else if what = "current" then lastCur m' else "-")
                r.1 r.2.1 r.2.2 s.pend true "done"
            | none =>
              fin (runEvs (raced := s.raced) m [.keyCreate a k]) (fun _ _ => "-") s.sp {} "-" ({ t := a, what := what, k := k, v := v } :: s.pend) true "atcas"
        | _, _ => bad
      | ["kcas"] =>
        match s.pend.find? (·.t = a) with
        | none => bad
        | some p =>
          match tlsOp p.what a p.k p.v with
          | none => bad
          | some e =>
            let won := (m.key p.k).published.isNone
            let r := specTls s.sp p.what a p.k p.v
            fin (runEvs (raced := s.raced) m [.keyCas a p.k, e])
              (fun _ m' => if p.what = "get" then lastGet m' else if p.what = "current" then lastCur m' else "-")
              r.1 r.2.1 r.2.2 (s.pend.filter (·.t ≠ a)) true (if won then "won" else "lost")
      | _ => bad
  | _ => bad

def run : IO Unit := do
  let _ ← forEachLine (← IO.getStdin) St {} step
  return ()

end PV.Driver.UThread

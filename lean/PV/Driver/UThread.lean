import PV.Model.UThread
import PV.Spec.UThread
import PV.Spec.UThreadSteps
import PV.Driver.Util
/-! driver for the thread family (C05).  One answer line per op:

    `r=<result> L=<live handles> F=<handles freed by this op> D=<notifier calls of this op> ob=<other live blocks> N=<native TLS calls of this op>`

`r L F D` are API-visible: the model's come from `obsM` (two consecutive machine states), the spec's from
`specStep` over the SAME events (`PV.Spec.UThreadSteps`); when they differ the line carries
` SPECDIFF <spec's r L F D>` — which `PV.UThread.spec_refinement` (Props/C05) proves never happens.  `ob` (name blocks + native-key
blocks alive) and `N` are internal observables of the model only.  A harness-level op is a short
sequence of model events (e.g. `create` = `createBegin; createEnd`; a TLS call on a key without a
native key = `keyCreate; keyCas; setLocal`).  Ops the model does not enable, and ops outside the
reference discipline (`Permitted`), are answered `bad-op` and change nothing. -/
namespace PV.Driver.UThread
open PV.UThread
open PV.Generated.UThread
namespace Sp
export PV.UThreadSpec (S Out create spawn ref drop current exit join threadEnd keyNew keyFree setLocal replaceLocal sortD)
end Sp

structure Pend where
  t : Nat
  what : String
  k : Nat
  v : Nat

structure St where
  m : State := init
  sp : PV.UThreadSpec.S := {}
  pend : List Pend := []
  /-- keys whose first use was a real (barrier) race: the number of native keys created is not determined -/
  raced : List Nat := []
  /-- `p_uthread_shutdown` has been called: no further op is accepted -/
  shut : Bool := false
  /-- `(actor, handle)`: the actor is blocked inside the `p_uthread_join` it issued with `jbegin` (the target had
      not ended); the machine's `join` event happens at `jend`, which is enabled only once the target has ended -/
  joining : List (Nat × Nat) := []

/-- a native key is shown as `<PUThreadKey id>.<index among that key's native keys>` (`?` for a raced key) -/
def showN (raced : List Nat) (s : State) (n : Nat) : String :=
  let k := (s.nkey n).owner
  let idx := ((List.range n).filter fun m => (s.nkey m).owner = k).length
  toString k ++ "." ++ (if k ∈ raced then "?" else toString idx)

/-- run model events, collecting the native TLS calls they stand for -/
def nativeOf (raced : List Nat) (s : State) (e : Ev) (s' : State) : List String :=
  let sh := showN raced s'
  let lib (t : Nat) : List String :=     -- p_uthread_current: getspecific (+ setspecific of a fresh handle)
    match (s.key 0).published with
    | some n => ["gs" ++ sh n] ++
        (if s.tls t n = 0 then ["ss" ++ sh n ++ ":H"] ++ (if currentChecksStore then ["gs" ++ sh n] else []) else [])
    | none => []
  match e with
  | .keyCreate _ _ => ["kc" ++ sh s.nN]
  | .keyCas t _ =>
    match (s.thr t).pend with
    | some (_, n) => if (s'.nkey n).live then [] else ["kd" ++ sh n]
    | none => []
  | .setLocal _ k v =>
    match (s.key k).published with
    | some n => (if setCallsNotifier then ["gs" ++ sh n] else []) ++ ["ss" ++ sh n ++ ":" ++ toString v]
    | none => []
  | .replaceLocal _ k v =>
    match (s.key k).published with
    | some n => ["gs" ++ sh n, "ss" ++ sh n ++ ":" ++ toString v]
    | none => []
  | .getLocal _ k =>
    match (s.key k).published with
    | some n => ["gs" ++ sh n]
    | none => []
  | .start _ =>     -- proxy: setspecific, and (repaired code) the read-back `is_stored`
    match (s.key 0).published with
    | some n => ["ss" ++ sh n ++ ":H"] ++ (if proxyReadsBack then ["gs" ++ sh n] else [])
    | none => []
  | .localFree _ k =>
    match (s.key k).published with
    | some n => if localFreeDeletesKey then ["kd" ++ showN raced s n] else []
    | none => []
  | .current t => lib t
  | .exit t _ => lib t
  | .tlsFail _ _ _ => ["kcfail"]
  | .storeFail _ k r =>
    match (s.key k).published with
    | some n => (if r ∨ setCallsNotifier then ["gs" ++ sh n] else []) ++ ["ssfail" ++ sh n]
    | none => []
  | .currentFail _ =>     -- the read-back `p_uthread_get_local` reaches `pthread_getspecific` only if it could make the native key
    match (s.key 0).published with
    | some n => ["gs" ++ sh n]
    | none => []
  | _ => []

inductive Res
  | ok (m : State) (native : List String) (obs : List PV.UThreadSpec.Obs)
  | bad
  | fault (e : Err)

def runEvs (s : State) (es : List Ev) (raced : List Nat := []) : Res :=
  let rec go (s : State) (acc : List String) (obs : List PV.UThreadSpec.Obs) : List Ev → Res
    | [] => .ok s acc obs
    | e :: r =>
      if ¬ Permitted s e then .bad else
      match step s e with
      | .error .notEnabled => .bad
      | .error x => .fault x
      | .ok s' => go s' (acc ++ nativeOf raced s e s') (obs ++ [PV.UThreadSpec.obsM s e s']) r
  go s [] [] es

/-- the reference over the same events -/
def runSpec (sp : PV.UThreadSpec.S) : List Ev → PV.UThreadSpec.S × List PV.UThreadSpec.Obs
  | [] => (sp, [])
  | e :: r =>
    let x := PV.UThreadSpec.specStep sp e
    let y := runSpec x.1 r
    (y.1, x.2 :: y.2)

/-- the answer of a harness-level op = the answers of its events put together -/
def combine (l : List PV.UThreadSpec.Obs) : PV.UThreadSpec.Obs :=
  { ret := l.flatMap (·.ret), live := (l.getLast?.map (·.live)).getD [],
    freed := l.flatMap (·.freed), dtor := Sp.sortD (l.flatMap (·.dtor)) }

/-- the slow path of `pp_uthread_get_tls_key` when the key has no native key yet -/
def needKey (s : State) (t : Nat) (k : Nat) : List Ev :=
  match (s.key k).published with
  | some _ => []
  | none => [.keyCreate t k, .keyCas t k]

def fmtList (l : List Nat) : String := ",".intercalate (l.map toString)
def fmtD (l : List (Nat × Nat × Nat)) : String :=
  ";".intercalate (l.map fun x => toString x.1 ++ ":" ++ toString x.2.1 ++ ":" ++ toString x.2.2)

def otherBlocks (s : State) : Nat :=
  ((List.range s.nH).filter fun h => (s.hdl h).named ∧ ¬ (s.hdl h).freed).length +
  ((List.range s.nN).filter fun n => ¬ (s.nkey n).blockFreed).length

/-- how the returned ids / values of an op are shown -/
def fmtR (kind : String) (ret : List Int) : String :=
  match kind, ret with
  | "create", [t, h] => "T" ++ toString t ++ ",H" ++ toString h
  | "spawn", [t] => "T" ++ toString t
  | "keynew", [k] => "K" ++ toString k
  | "current", [h] => "H" ++ toString h
  | "value", [v] => toString v
  | "noexit", _ => "noexit"
  | "blocked", _ => "blocked"
  | "null", _ => "NULL"
  | "ok", _ => "ok"
  | "none", [] => "-"
  | _, _ => "?"

def apiPart (kind : String) (o : PV.UThreadSpec.Obs) : String :=
  "r=" ++ fmtR kind o.ret ++ " L=" ++ fmtList o.live ++ " F=" ++ fmtList o.freed ++ " D=" ++ fmtD o.dtor

def faultText : Err → String
  | .useAfterFree h => "fault uaf H" ++ toString h
  | .keyUseAfterFree k => "fault key-uaf K" ++ toString k
  | .ub w => "fault ub " ++ w
  | .notEnabled => "bad-op"

def isPending (s : St) (t : Nat) : Bool := s.pend.any (·.t = t)

def tlsOp (what : String) (t : Nat) (k : Nat) (v : Nat) : Option Ev :=
  match what with
  | "set" => some (.setLocal t k v)
  | "replace" => some (.replaceLocal t k v)
  | "get" => some (.getLocal t k)
  | "current" => some (.current t)
  | "start" => some (.start t)
  | _ => none

/-- options of `create`: `n` / `n<LEN>` (name), `x` (child runs into the proxy while the creator is inside
    `p_uthread_create_full`), `p<0-7>` / `s<KB>` (`p_uthread_create_full`), `eperm` (first native create fails, the library
    retries), `eagain` / `fail:attr` / `fail:detach` (`pthread_create` / `pthread_attr_init` / `pthread_attr_setdetachstate`
    fails: NULL).  `none` = malformed. -/
structure COpts where
  named : Bool := false
  early : Bool := false
  fail : Bool := false
  modes : Nat := 0

def digitsOk (x : String) (maxLen : Nat) : Bool :=
  let d := x.toList.drop 1
  decide (d.length ≥ 1) && decide (d.length ≤ maxLen) && d.all Char.isDigit

def numOf (x : String) : Nat := (x.toList.drop 1).foldl (fun n c => n * 10 + (c.toNat - 48)) 0

def parseCOpts : List String → COpts → Option COpts
  | [], o => if o.modes ≤ 1 then some o else none
  | x :: r, o =>
    if x = "n" then parseCOpts r { o with named := true }
    else if x = "x" then parseCOpts r { o with early := true, modes := o.modes + 1 }
    else if x = "eagain" ∨ x = "fail:attr" ∨ x = "fail:detach" then parseCOpts r { o with fail := true, modes := o.modes + 1 }
    else if x = "eperm" then parseCOpts r { o with modes := o.modes + 1 }
    else if x.startsWith "n" ∧ digitsOk x 4 ∧ numOf x ≤ 1000 then parseCOpts r { o with named := true }
    else if x.startsWith "p" ∧ digitsOk x 4 ∧ numOf x ≤ 7 then parseCOpts r o
    else if x.startsWith "s" ∧ digitsOk x 4 then parseCOpts r o
    else none

def kindOf (what : String) : String := if what = "get" then "value" else if what = "current" then "current" else "none"
def keyOf (what : String) (k : Nat) : Nat := if what = "current" ∨ what = "start" then 0 else k

def step (s : St) (toks : List String) : IO (St × Bool) := do
  let bad : IO (St × Bool) := do IO.println "bad-op"; return (s, false)
  -- run the events of one op on the model and on the spec, print the line
  let fin (es : List Ev) (kind : String) (pend' : List Pend := s.pend) (showNative := true) (status : String := "")
      (raced' : List Nat := s.raced) (joining' : List (Nat × Nat) := s.joining) : IO (St × Bool) := do
    match runEvs (raced := raced') s.m es with
    | .bad => bad
    | .fault e => IO.println (faultText e); return (s, true)
    | .ok m' nat obs =>
      let sp := runSpec s.sp es
      let a := apiPart kind (combine obs)
      let b := apiPart kind (combine sp.2)
      let nat := if status = "" then nat else status :: nat
      IO.println (a ++ " ob=" ++ toString (otherBlocks m') ++ " N=" ++ (if showNative then ",".intercalate nat else "~")
        ++ (if a = b then "" else " SPECDIFF " ++ b))
      return ({ s with m := m', sp := sp.1, pend := pend', raced := raced', joining := joining' }, false)
  let m := s.m
  -- an op that is no event of the machine (a call that blocks, fails before it does anything, or touches no handle state)
  let idle (kind : String) (joining' : List (Nat × Nat) := s.joining) : IO (St × Bool) := do
    let a := apiPart kind { live := PV.UThreadSpec.liveOf m }
    let b := apiPart kind { live := s.sp.live }
    IO.println (a ++ " ob=" ++ toString (otherBlocks m) ++ " N=" ++ (if a = b then "" else " SPECDIFF " ++ b))
    return ({ s with joining := joining' }, false)
  if s.shut ∧ toks ≠ ["reset"] then bad else
  match toks with
  | ["reset"] => IO.println "ok"; return ({}, false)
  | [a, "shutdown"] =>
    -- the end of a history (not an event of the machine): `PV.UThread.shutdown`, theorem `init_shutdown_neutral_threads`
    match a.toNat? with
    | none => bad
    | some a =>
      if ¬ s.pend.isEmpty ∨ ¬ s.joining.isEmpty then bad else
      match shutdown m a with
      | .error .notEnabled => bad
      | .error e => IO.println (faultText e); return (s, true)
      | .ok m' =>
        let r := shutdownResolve m
        let sh := showN s.raced r.1 r.2
        let nat := (if (m.key 0).published.isNone then ["kc" ++ sh] else []) ++ ["gs" ++ sh] ++
          (if r.1.tls a r.2 ≠ 0 then ["ss" ++ sh ++ ":0"] else []) ++ (if localFreeDeletesKey then ["kd" ++ sh] else [])
        let o : PV.UThreadSpec.Obs := { live := PV.UThreadSpec.liveOf m', freed := m'.freeLog.drop m.freeLog.length }
        let spr := PV.UThreadSpec.shutdown s.sp a
        let os : PV.UThreadSpec.Obs := { live := spr.1.live, freed := spr.2.freed }
        let x := apiPart "none" o
        let y := apiPart "none" os
        IO.println (x ++ " ob=" ++ toString (otherBlocks m') ++ " N=" ++ ",".intercalate nat ++ (if x = y then "" else " SPECDIFF " ++ y))
        return ({ s with m := m', sp := spr.1, shut := true }, false)
  | ["spawn"] => fin [.spawn] "spawn"
  | ["race", k, t1, v1, t2, v2] =>
    match k.toNat?, t1.toNat?, v1.toNat?, t2.toNat?, v2.toNat? with
    | some k, some t1, some v1, some t2, some v2 =>
      if t1 = t2 ∨ isPending s t1 ∨ isPending s t2 ∨ t1 = 0 ∨ t2 = 0 ∨ s.joining.any (fun p => p.1 = t1 ∨ p.1 = t2) then bad else
      let pre : List Ev := match (m.key k).published with
        | some _ => []
        | none => [.keyCreate t1 k, .keyCreate t2 k, .keyCas t1 k, .keyCas t2 k]
      let rk := if pre.isEmpty then s.raced else k :: s.raced
      fin (pre ++ [.setLocal t1 k v1, .setLocal t2 k v2]) "none" s.pend false "" rk
    | _, _, _, _, _ => bad
  | a :: rest =>
    match a.toNat? with
    | none => bad
    | some a =>
      if isPending s a ∧ rest ≠ ["kcas"] then bad else
      if s.joining.any (·.1 = a) ∧ rest ≠ ["jend"] then bad else
      match rest with
      | "create" :: jd :: opts =>
        if (jd ≠ "j" ∧ jd ≠ "d" ∧ jd ≠ "J") ∨ opts.length > 5 then bad else
        match parseCOpts opts {} with
        | none => bad
        | some o =>
          let j := jd ≠ "d"
          if o.fail then
            -- `pthread_attr_init` / `pthread_attr_setdetachstate` / `pthread_create` fails: the block is freed again, the
            -- spinlock released, NULL (`createFail`: the block takes a handle id and shows up in `F=`)
            fin [.createFail a] "null"
          else if o.early then
            -- the child passes `p_uthread_set_local (library key)` and reaches the spinlock inside the creator's critical section
            let t := m.nT
            fin ([.createBegin a j o.named] ++ needKey m t 0 ++ [.createEnd a, .start t]) "create"
          else fin [.createBegin a j o.named, .createEnd a] "create"
      | ["start"] => fin (needKey m a 0 ++ [.start a]) "none"
      | ["start", "fail2"] =>
        -- both lazy `pthread_key_create` calls of the proxy (store, read-back) fail: nothing is stored, `is_stored == FALSE`
        if (m.key 0).published.isSome ∨ (m.key 0).wrapperFreed ∨ s.pend.any (·.k = 0) then bad
        else fin [.startUnstored a] "none" (status := "kcfail,kcfail")
      | ["set", k, v] =>
        match k.toNat?, v.toNat? with
        | some k, some v => fin (needKey m a k ++ [.setLocal a k v]) "none"
        | _, _ => bad
      | ["replace", k, v] =>
        match k.toNat?, v.toNat? with
        | some k, some v => fin (needKey m a k ++ [.replaceLocal a k v]) "none"
        | _, _ => bad
      | ["get", k] =>
        match k.toNat? with
        | some k => fin (needKey m a k ++ [.getLocal a k]) "value"
        | _ => bad
      | ["set", k, v, "ssfail"] =>
        -- the native `pthread_setspecific` reports an error: nothing is stored
        match k.toNat?, v.toNat? with
        | some k, some _ => fin (needKey m a k ++ [.storeFail a k false]) "none"
        | _, _ => bad
      | ["replace", k, v, "ssfail"] =>
        -- … after `p_uthread_replace_local` has passed the old value to the notifier
        match k.toNat?, v.toNat? with
        | some k, some _ => fin (needKey m a k ++ [.storeFail a k true]) "none"
        | _, _ => bad
      | ["set", k, v, "fail"] =>
        -- the lazy `pthread_key_create` fails: nothing is stored, no notifier
        match k.toNat?, v.toNat? with
        | some k, some _ => if (m.key k).wrapperFreed then bad else fin [.tlsFail a k false] "none"
        | _, _ => bad
      | ["replace", k, v, "fail"] =>
        match k.toNat?, v.toNat? with
        | some k, some _ => if (m.key k).wrapperFreed then bad else fin [.tlsFail a k false] "none"
        | _, _ => bad
      | ["get", k, "fail"] =>
        match k.toNat? with
        | some k => if (m.key k).wrapperFreed then bad else fin [.tlsFail a k true] "value"
        | _ => bad
      | ["current"] => fin (needKey m a 0 ++ [.current a]) "current"
      | ["current", f] =>
        -- `p_uthread_current` with the next 2 / 3 `pthread_key_create` calls failing: the fresh handle cannot be stored (NULL);
        -- with 2 the read-back's own attempt makes the native key
        if (f ≠ "fail2" ∧ f ≠ "fail3") ∨ (m.key 0).published.isSome ∨ (m.key 0).wrapperFreed ∨ s.pend.any (·.k = 0) then bad
        else if f = "fail2" then fin [.keyCreate a 0, .keyCas a 0, .currentFail a] "null" (status := "kcfail,kcfail")
        else fin [.currentFail a] "null" (status := "kcfail,kcfail,kcfail")
      | ["exit", c] =>
        match c.toInt? with
        | some c =>
          match (m.thr a).handle with
          | some _ => fin (needKey m a 0 ++ [.exit a c]) "none"
          | none =>   -- a thread the library did not create: the harness calls `current` (to learn the block), then `exit`, which returns
            fin (needKey m a 0 ++ [.current a, .exit a c]) "noexit"
        | none => bad
      | ["return"] =>
        match (m.thr a).proxy with
        | some h => fin [.retUnstored a h] "none"      -- the proxy drops the thread's reference itself
        | none => fin [.ret a] "none"
      | ["end"] => fin [.threadEnd a] "none"
      | ["ref", h] =>
        match h.toNat? with
        | some h => fin [.ref a h] "none"
        | none => bad
      | ["unref", h] =>
        match h.toNat? with
        | some h =>
          -- the reference a blocked joiner relies on may not be given up under it
          if s.joining.any (·.2 = h) ∧ (m.hdl h).userRefs ≤ 1 then bad else fin [.unref a h] "none"
        | none => bad
      | ["join", h] =>
        match h.toNat? with
        | some h => if s.joining.any (·.2 = h) then bad else fin [.join a h] "value"
        | none => bad
      | ["join", h, "fail"] =>
        -- the native `pthread_join` reports an error: the call comes back at once with the code recorded so far
        match h.toNat? with
        | some h => if s.joining.any (·.2 = h) then bad else fin [.joinFail a h] "value"
        | none => bad
      | ["jbegin", h] =>
        -- `p_uthread_join` issued while the target has not ended: the call blocks (the machine's `join` is not enabled)
        match h.toNat? with
        | some h =>
          let x := m.hdl h
          if a = 0 ∨ ¬ canAct m a ∨ ¬ h < m.nH ∨ x.written = false ∨ ¬ Permitted m (.join a h) ∨ x.joinable = false
             ∨ x.thread = a ∨ (m.thr x.thread).phase = .ended ∨ s.joining.any (fun p => p.1 = x.thread ∨ p.2 = h) then bad
          else
            match PV.UThread.step m (.join a h) with
            | .error .notEnabled => idle "blocked" ((a, h) :: s.joining)
            | _ => bad
        | none => bad
      | ["jend"] =>
        match s.joining.find? (·.1 = a) with
        | none => bad
        | some p =>
          if (m.thr (m.hdl p.2).thread).phase ≠ .ended then bad
          else fin [.join a p.2] "value" (joining' := s.joining.filter (·.1 ≠ a))
      | ["prio", h, prs] =>
        -- `p_uthread_set_priority` on a library thread that has not ended: no handle, reference or TLS state changes
        match h.toNat?, prs.toNat? with
        | some h, some pr =>
          let x := m.hdl h
          if prs.length ≠ 1 ∨ pr > 7 ∨ ¬ canAct m a ∨ ¬ h < m.nH ∨ x.written = false ∨ ¬ Permitted m (.ref a h) ∨ x.ours = false
             ∨ (m.thr x.thread).phase = .ended then bad
          else idle "none"
        | _, _ => bad
      | ["misc"] =>
        -- `p_uthread_ideal_count` (≥ 1) / `p_uthread_yield` / `p_uthread_current_id`: no handle, reference or TLS state is involved
        if ¬ canAct m a then bad else idle "ok"
      | ["keynew", n] =>
        if n ≠ "n" ∧ n ≠ "x" then bad else fin [.localNew a (n = "n")] "keynew"
      | ["keyfree", k] =>
        match k.toNat? with
        | some k =>
          -- freeing a key while a thread is parked inside a call on it is a misuse of the TLS API (refused)
          if s.pend.any (·.k = k) then bad else fin [.localFree a k] "none"
        | none => bad
      | ["kbegin", what, k, v] =>
        match k.toNat?, v.toNat? with
        | some k, some v =>
          if a = 0 then bad else
          match tlsOp what a (keyOf what k) v with
          | none => bad
          | some e =>
            let k := keyOf what k
            -- the call must be possible at all (a fault of the wrapper counts), and the thread in the right phase
            if what = "start" ∧ (m.thr a).phase ≠ .created then bad
            else if what ≠ "start" ∧ ¬ canAct m a then bad
            else if ¬ k < m.nK ∨ (k = 0 ∧ what ≠ "current" ∧ what ≠ "start") then bad
            else match (m.key k).published with
            | some _ => fin [e] (kindOf what) s.pend true "done"
            | none => fin [.keyCreate a k] "none" ({ t := a, what := what, k := k, v := v } :: s.pend) true "atcas"
        | _, _ => bad
      | ["kcas"] =>
        match s.pend.find? (·.t = a) with
        | none => bad
        | some p =>
          match tlsOp p.what a p.k p.v with
          | none => bad
          | some e =>
            let won := (m.key p.k).published.isNone
            fin [.keyCas a p.k, e] (kindOf p.what) (s.pend.filter (·.t ≠ a)) true (if won then "won" else "lost")
      | _ => bad
  | _ => bad

def run : IO Unit := do
  let _ ← forEachLine (← IO.getStdin) St {} step
  return ()

end PV.Driver.UThread

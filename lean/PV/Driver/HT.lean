import PV.Model.HashTable
import PV.Driver.Util
/-! driver for the hash-table / list family (C15).  One answer line per op.
    The answer is the *model's*; when the reference map (spec) answers differently the line is
    suffixed with `SPECDIFF <spec answer>`. -/
namespace PV.Driver.HT
open PV.HT

structure St where
  t : Table := empty
  t2 : Table := empty             -- the second table (ops ins2 / rem2 / get2 / keys2 / vals2)
  m2 : List (Ptr × Ptr) := []
  m : List (Ptr × Ptr) := []      -- reference map as an association list (spec)
  l : PList := []
  dead : Bool := false

def specGet (m : List (Ptr × Ptr)) (k : Ptr) : Option Ptr := (m.find? (·.1 = k)).map (·.2)
def specIns (m : List (Ptr × Ptr)) (k v : Ptr) := (k, v) :: m.filter (·.1 ≠ k)
def specRem (m : List (Ptr × Ptr)) (k : Ptr) := m.filter (·.1 ≠ k)

def sortedU (l : List Ptr) : List Ptr := (l.toArray.qsort (· < ·)).toList

def fmtGet : Option Ptr → String
  | none => "nf"
  | some v => if v.toNat = 18446744073709551615 then "nf" else toString v.toNat   -- a stored all-ones value reads as the not-found marker

def fmtLast : Option Ptr → String
  | none => "nf"
  | some v => toString v.toNat

def listLine (ks sp : List Ptr) : String :=
  "[" ++ joinU64 ks ++ "]" ++ (if sortedU ks = sp then "" else " SPECDIFF [" ++ joinU64 sp ++ "]")

def step (s : St) (toks : List String) : IO (St × Bool) := do
  let u (x : String) : Option Ptr := x.toNat?.map UInt64.ofNat
  match toks with
  | ["insf", k, v] =>              -- insert while the allocator fails: overwrite if present, otherwise nothing changes
    match u k, u v with
    | some k, some v =>
      match insertOOM s.t k v with
      | none => IO.println "ub"; return ({ s with dead := true }, true)
      | some t' => IO.println "ok"; return ({ s with t := t', m := if (specGet s.m k).isSome then specIns s.m k v else s.m }, false)
    | _, _ => IO.println "bad-op"; return (s, false)
  | ["newf", k] =>                 -- p_hash_table_new whose k-th allocation fails (0 / beyond the second: none fails)
    match k.toNat? with
    | some k =>
      match newTable (k != 1) (k != 2) with
      | (none, held) => IO.println s!"null held={held} after-free={held}"; return (s, false)
      | (some _, held) => IO.println s!"ok held={held} after-free=0"; return (s, false)
    | none => IO.println "bad-op"; return (s, false)
  | ["ins2", k, v] =>
    match u k, u v with
    | some k, some v =>
      match insert s.t2 k v with
      | none => IO.println "ub"; return ({ s with dead := true }, true)
      | some t' => IO.println "ok"; return ({ s with t2 := t', m2 := specIns s.m2 k v }, false)
    | _, _ => IO.println "bad-op"; return (s, false)
  | ["rem2", k] =>
    match u k with
    | some k =>
      match remove s.t2 k with
      | none => IO.println "ub"; return ({ s with dead := true }, true)
      | some t' => IO.println "ok"; return ({ s with t2 := t', m2 := specRem s.m2 k }, false)
    | _ => IO.println "bad-op"; return (s, false)
  | ["get2", k] =>
    match u k with
    | some k =>
      match lookup s.t2 k with
      | none => IO.println "ub"; return ({ s with dead := true }, true)
      | some r =>
        let sp := specGet s.m2 k
        IO.println (fmtGet r ++ (if sp = r then "" else " SPECDIFF " ++ fmtGet sp))
        return (s, false)
    | _ => IO.println "bad-op"; return (s, false)
  | ["keys2"] => IO.println (listLine (keys s.t2) (sortedU (s.m2.map (·.1)))); return (s, false)
  | ["vals2"] => IO.println (listLine (values s.t2) (sortedU (s.m2.map (·.2)))); return (s, false)
  | ["lbvf", v] =>                 -- through the harness compare function: stored value >> 8 = asked word
    match u v with
    | some v =>
      let p : Ptr → Bool := fun x => x >>> 8 == v
      IO.println (listLine (lookupByValueF s.t p) (sortedU ((s.m.filter (fun e => p e.2)).map (·.1))))
      return (s, false)
    | _ => IO.println "bad-op"; return (s, false)
  | ["lappf", d] =>
    match u d with
    | some d => let l' := lAppendOOM s.l d
                IO.println ("[" ++ joinU64 l' ++ "]" ++ (if l' = s.l then "" else " SPECDIFF"))
                return ({ s with l := l' }, false)
    | _ => IO.println "bad-op"; return (s, false)
  | ["lpref", d] =>
    match u d with
    | some d => let l' := lPrependOOM s.l d
                IO.println ("[" ++ joinU64 l' ++ "]" ++ (if l' = s.l then "" else " SPECDIFF"))
                return ({ s with l := l' }, false)
    | _ => IO.println "bad-op"; return (s, false)
  | ["leach"] =>
    let r := lForeach s.l
    IO.println ("[" ++ joinU64 r ++ "]" ++ (if r = s.l then "" else " SPECDIFF [" ++ joinU64 s.l ++ "]"))
    return (s, false)
  | ["lfree"] => IO.println "[]"; return ({ s with l := [] }, false)
  | ["api"] => IO.println "null-api=ok"; return (s, false)
  | ["ins", k, v] =>
    match u k, u v with
    | some k, some v =>
      match insert s.t k v with
      | none => IO.println "ub"; return ({ s with dead := true }, true)
      | some t' => IO.println "ok"; return ({ s with t := t', m := specIns s.m k v }, false)
    | _, _ => IO.println "bad-op"; return (s, false)
  | ["rem", k] =>
    match u k with
    | some k =>
      match remove s.t k with
      | none => IO.println "ub"; return ({ s with dead := true }, true)
      | some t' => IO.println "ok"; return ({ s with t := t', m := specRem s.m k }, false)
    | _ => IO.println "bad-op"; return (s, false)
  | ["get", k] =>
    match u k with
    | some k =>
      match lookup s.t k with
      | none => IO.println "ub"; return ({ s with dead := true }, true)
      | some r =>
        let sp := specGet s.m k
        IO.println (fmtGet r ++ (if sp = r then "" else " SPECDIFF " ++ fmtGet sp))
        return (s, false)
    | _ => IO.println "bad-op"; return (s, false)
  | ["keys"] =>
    let ks := keys s.t
    let sp := sortedU (s.m.map (·.1))
    IO.println ("[" ++ joinU64 ks ++ "]" ++ (if sortedU ks = sp then "" else " SPECDIFF [" ++ joinU64 sp ++ "]"))
    return (s, false)
  | ["vals"] =>
    let vs := values s.t
    let sp := sortedU (s.m.map (·.2))
    IO.println ("[" ++ joinU64 vs ++ "]" ++ (if sortedU vs = sp then "" else " SPECDIFF [" ++ joinU64 sp ++ "]"))
    return (s, false)
  | ["lbv", v] =>
    match u v with
    | some v =>
      let ks := lookupByValue s.t v
      let sp := sortedU ((s.m.filter (·.2 = v)).map (·.1))
      IO.println ("[" ++ joinU64 ks ++ "]" ++ (if sortedU ks = sp then "" else " SPECDIFF [" ++ joinU64 sp ++ "]"))
      return (s, false)
    | _ => IO.println "bad-op"; return (s, false)
  | ["lapp", d] =>
    match u d with
    | some d => let l' := lAppend s.l d
                IO.println ("[" ++ joinU64 l' ++ "]" ++ (if l' = s.l ++ [d] then "" else " SPECDIFF"))
                return ({ s with l := l' }, false)
    | _ => IO.println "bad-op"; return (s, false)
  | ["lpre", d] =>
    match u d with
    | some d => let l' := lPrepend s.l d
                IO.println ("[" ++ joinU64 l' ++ "]" ++ (if l' = d :: s.l then "" else " SPECDIFF"))
                return ({ s with l := l' }, false)
    | _ => IO.println "bad-op"; return (s, false)
  | ["lrem", d] =>
    match u d with
    | some d => let l' := lRemove s.l d
                IO.println ("[" ++ joinU64 l' ++ "]" ++ (if l' = s.l.erase d then "" else " SPECDIFF"))
                return ({ s with l := l' }, false)
    | _ => IO.println "bad-op"; return (s, false)
  | ["lrev"] =>
    let l' := lReverse s.l
    IO.println ("[" ++ joinU64 l' ++ "]" ++ (if l' = s.l.reverse then "" else " SPECDIFF"))
    return ({ s with l := l' }, false)
  | ["llast"] =>
    let r := lLast s.l
    IO.println (fmtLast r ++ (if r = s.l.getLast? then "" else " SPECDIFF"))
    return (s, false)
  | ["llen"] =>
    let r := lLength s.l
    IO.println (toString r ++ (if r = s.l.length then "" else " SPECDIFF"))
    return (s, false)
  | ["reset"] => IO.println "ok"; return ({}, false)
  | _ => IO.println "bad-op"; return (s, false)

def run : IO Unit := do
  let _ ← forEachLine (← IO.getStdin) St {} step
  return ()

end PV.Driver.HT

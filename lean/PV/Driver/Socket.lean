import PV.Model.Socket
import PV.Spec.Socket
import PV.Driver.Util
/-! driver for the socket family (C09, C10, C19 socket part).

Ops (one answer line each):
  `sys <name> <N | eERRNO> [d=<hex>] [sa=<hex>] [v=<int>] [l=<int>] [x=<int>]`   append one native result to the script
  (`poll`: `v=` extra revents bits reported with the requested ones, `x=` revents given exactly; `setblk` / `setka` / `bind`'s reuse
  flag take any C int, non-zero = TRUE; so do `shutdown`'s two flags — the code compares them with `== TRUE`, the model follows it
  (`shutdownArgs`) and the spec line is the call with every non-zero value read as TRUE)
  `new s fam type proto` · `newfd s fd` · `free s` · `initonce` · `reset`
  `bind s addr reuse` · `connect s addr` · `listen s` · `accept s newslot` · `recv s buflen [null]`
  `recvfrom s buflen want [null]` · `send s <hex|null> [buflen]` · `sendto s addr <hex|null> [buflen]`
  `close s` · `shutdown s r w` · `setbuf s dir size` · `wait s cond` · `chk s` · `setka s b` · `setblk s b`
  `setbl s n` · `setto s n` · `local s` · `remote s`
  (addr = `null`, the sockaddr in hex, or `bad:<hex>` = an address object that `p_socket_address_to_native` rejects)

Answer of a call: `r=… e=… d=… a=… iss=… left=… g=… n=… cx=… ns=… sw=…` (see `fmtLine`); the script left
over after a call is dropped.  After `exhausted` / `mismatch` / `fault` every op answers `dead` until `reset`.
When the spec (mode record of `PV.Spec.Socket`, close-on-exec, MSG_NOSIGNAL, no swallowed hard error `sw=-`) says otherwise the line is
followed by ` SPECDIFF <spec line>`. -/
namespace PV.Driver.Socket
open PV.Socket PV.Driver PV.Generated.Socket

structure DSt where
  world  : World := []
  spec   : List (Nat × Spec.Flags) := []
  script : List Res := []
  dead   : Bool := false

def parseInt (s : String) : Option Int :=
  if s.startsWith "-" then (s.drop 1).toString.toNat?.map fun n => -(Int.ofNat n) else s.toNat?.map Int.ofNat

def parseSys : String → Option Sys
  | "socket" => some .socket | "fcntl" => some .fcntl | "setsockopt" => some .setsockopt
  | "getsockopt" => some .getsockopt | "getsockname" => some .getsockname | "getpeername" => some .getpeername
  | "bind" => some .bind | "connect" => some .connect | "listen" => some .listen | "accept" => some .accept
  | "recv" => some .recv | "recvfrom" => some .recvfrom | "send" => some .send | "sendto" => some .sendto
  | "poll" => some .poll | "shutdown" => some .shutdown | "close" => some .close | "signal" => some .signal
  | "fromnative" => some .fromNative
  | _ => none

def sysName : Sys → String
  | .socket => "socket" | .fcntl => "fcntl" | .setsockopt => "setsockopt" | .getsockopt => "getsockopt"
  | .getsockname => "getsockname" | .getpeername => "getpeername" | .bind => "bind" | .connect => "connect"
  | .listen => "listen" | .accept => "accept" | .recv => "recv" | .recvfrom => "recvfrom" | .send => "send"
  | .sendto => "sendto" | .poll => "poll" | .shutdown => "shutdown" | .close => "close" | .signal => "signal"
  | .fromNative => "fromnative"

def parseRet (s : String) : Option Ret :=
  if s.startsWith "e" then (parseInt (s.drop 1).toString).map .err else s.toNat?.map .ok

def parseExtras (r : Res) : List String → Option Res
  | [] => some r
  | t :: ts =>
    if t.startsWith "d=" then (bytesOfHex (t.drop 2).toString).bind fun b => parseExtras { r with data := b } ts
    else if t.startsWith "sa=" then (bytesOfHex (t.drop 3).toString).bind fun b => parseExtras { r with sa := b } ts
    else if t.startsWith "v=" then (parseInt (t.drop 2).toString).bind fun v => parseExtras { r with val := v } ts
    else if t.startsWith "l=" then (parseInt (t.drop 2).toString).bind fun v => parseExtras { r with len := v } ts
    -- `x=`: revents reported by poll, given exactly; the library (and so the model) looks at poll's return value only
    else if t.startsWith "x=" then (parseInt (t.drop 2).toString).bind fun _ => parseExtras r ts
    else none

def parseAddr (s : String) : Option Addr :=
  if s = "null" then some .null
  else if s.startsWith "bad:" then (bytesOfHex (s.drop 4).toString).map fun _ => .bad
  else (bytesOfHex s).map .native

def parseBool : String → Option Bool
  | "0" => some false | "1" => some true | _ => none

/-- a `pboolean` argument given as any C int: every non-zero value means TRUE -/
def parsePBool (s : String) : Option Bool :=
  match parseInt s with
  | some n => if n < -2147483648 ∨ n > 2147483647 then none else some (n ≠ 0)
  | none => none

/-- a C `int` argument -/
def parseCInt (s : String) : Option Int :=
  match parseInt s with
  | some n => if n < -2147483648 ∨ n > 2147483647 then none else some n
  | none => none

def hexOrDash (b : Bytes) : String := if b.isEmpty then "-" else hexOfBytes b

def fmtIssued : Issued → String
  | .socket d t p => s!"socket:{d}:{t}:{p}"
  | .fcntl fd c a => s!"fcntl:{fd}:{c}:{a}"
  | .setsockopt fd l o v n => s!"setsockopt:{fd}:{l}:{o}:{v}:{n}"
  | .getsockopt fd l o n => s!"getsockopt:{fd}:{l}:{o}:{n}"
  | .getsockname fd n => s!"getsockname:{fd}:{n}"
  | .getpeername fd n => s!"getpeername:{fd}:{n}"
  | .bind fd sa n => s!"bind:{fd}:{hexOrDash sa}:{n}"
  | .connect fd sa n => s!"connect:{fd}:{hexOrDash sa}:{n}"
  | .listen fd b => s!"listen:{fd}:{b}"
  | .accept fd => s!"accept:{fd}:1:1"
  | .recv fd o n f => s!"recv:{fd}:{o}:{n}:{f}"
  | .recvfrom fd o n f sl => s!"recvfrom:{fd}:{o}:{n}:{f}:{sl}"
  | .send fd o n f d => s!"send:{fd}:{o}:{n}:{f}:{hexOrDash d}"
  | .sendto fd o n f d sa sl => s!"sendto:{fd}:{o}:{n}:{f}:{hexOrDash d}:{hexOrDash sa}:{sl}"
  | .poll fd ev t n => s!"poll:{fd}:{ev}:{t}:{n}"
  | .shutdown fd h => s!"shutdown:{fd}:{h}"
  | .close fd => s!"close:{fd}"
  | .signal sg ign => s!"signal:{sg}:{b2i ign}"
  | .fromNative sa n => s!"fromnative:{hexOrDash sa}:{n}"

def fmtErr : Option PErr → String
  | none => "-"
  | some e => s!"{e.code}/{e.native}/{e.msg.replace " " "_"}"

def fmtGetters (g : Getters) (lis : String) : String :=
  s!"{g.fd},{g.family},{g.type},{g.protocol},{b2i g.keepalive},{b2i g.blocking},{g.backlog},{g.timeout},{b2i g.connected},{b2i g.closed},{lis}"

def fmtSock : Option Sock → String
  | none => fmtGetters nullGetters "-"
  | some s => fmtGetters (getters s) (toString (b2i s.listening))

/-- getters as the spec record has them (identity fields taken from the model) -/
def fmtSockSpec (s : Option Sock) (f : Option Spec.Flags) : String :=
  match s, f with
  | some s, some f =>
    fmtSock (some { s with timeout := f.timeout, listen_backlog := f.backlog, blocking := f.blocking,
                           keepalive := f.keepalive, connected := f.connected, closed := f.closed,
                           listening := f.listening })
  | s, _ => fmtSock s

def allSendsNoSignal (tr : List Ev) : String :=
  let sends := tr.filterMap fun ev => match ev.call with | .send _ _ _ f _ => some f | _ => none
  if sends.isEmpty then "-" else if sends.all (fun f => f.toNat &&& MSG_NOSIGNAL.toNat ≠ 0) then "1" else "0"

/-- direct oracle for "a call fails for a real reason": the first native failure of a data call / of the wait with a code other
    than EINTR / EAGAIN after which further native calls were issued (the failure was swallowed) -/
def swallowed : List Ev → String
  | [] => "-"
  | ev :: rest =>
    let isData := match ev.call.sys with
      | .recv | .recvfrom | .send | .sendto | .accept | .poll => true
      | _ => false
    match ev.res.ret with
    | .err e => if isData && e != EINTR && e != EAGAIN && e != EWOULDBLOCK then (if rest.isEmpty then "-" else toString e) else swallowed rest
    | .ok _ => swallowed rest

structure Line where
  out  : Outcome
  tr   : List Ev
  left : Nat
  g    : String
  n    : String
  cx   : String
  ns   : String
  sw   : String := "-"

def fmtLine (l : Line) : String :=
  let a := match l.out.addr with | none => "-" | some (sa, n) => s!"{n}:{hexOrDash sa}"
  let iss := if l.tr.isEmpty then "-" else ",".intercalate (l.tr.map fun ev => fmtIssued ev.call)
  s!"r={l.out.ret} e={fmtErr l.out.err} d={hexOrDash l.out.data} a={a} iss={iss} left={l.left} g={l.g} n={l.n} cx={l.cx} ns={l.ns} sw={l.sw}"

def specGet (sp : List (Nat × Spec.Flags)) (slot : Nat) : Option Spec.Flags := (sp.find? (·.1 = slot)).map (·.2)
def specSet (sp : List (Nat × Spec.Flags)) (slot : Nat) (f : Spec.Flags) := (slot, f) :: sp.filter (·.1 ≠ slot)
def specDel (sp : List (Nat × Spec.Flags)) (slot : Nat) := sp.filter (·.1 ≠ slot)

def fmtStop : Stop → String
  | .exhausted => "exhausted"
  | .mismatch c g => s!"mismatch {sysName c} {sysName g}"
  | .fault w => "fault " ++ w.replace " " "_"

/-- run one API call on the model: answer line, the spec's line, and the state afterwards -/
def evalCall (st : DSt) (c : WCall) : Except Stop (String × String × DSt) :=
  match wstep st.world c st.script 0 with
  | .error w => .error w
  | .ok r =>
    let (slot, newSlot) : Option Nat × Option Nat := match c with
      | .new s .. => (none, some s) | .newFromFd s _ => (none, some s)
      | .on s .accept ns => (some s, some ns)
      | .on s _ _ => (some s, none) | .free s => (some s, none) | .initOnce => (none, none)
    -- spec record
    let sp := st.spec
    let sp := match c with
      | .on s cc _ => match specGet sp s with
          | some f => specSet sp s (Spec.step f cc r.out r.tr)
          | none => sp
      | .free s => specDel sp s
      | _ => sp
    let created := r.out.sock.isSome
    let sp := match c, newSlot with
      | .new .., some ns => if created then specSet sp ns Spec.fresh else sp
      | _, some ns => if created then specSet sp ns (Spec.adopted r.tr) else sp
      | _, none => sp
    let g := match slot with | some s => fmtSock (r.world.get s) | none => "-"
    let gS := match slot with | some s => fmtSockSpec (r.world.get s) (specGet sp s) | none => "-"
    let n := match newSlot with | some s => if created then fmtSock (r.world.get s) else "-" | none => "-"
    let nS := match newSlot with | some s => if created then fmtSockSpec (r.world.get s) (specGet sp s) else "-" | none => "-"
    let adopt := match c with | .newFromFd .. => true | _ => false    -- a descriptor handed in by the caller is his business
    let cx := match r.out.sock with
      | some ns => if adopt then "-" else toString (b2i (cloexecAfter ns.fd r.tr false))
      | none => "-"
    let cxS := match r.out.sock with
      | some ns => if fcntlFdOk ns.fd r.tr && !adopt then "1" else cx     -- spec: close-on-exec, given fcntl on the fresh fd works
      | none => "-"
    let ns := allSendsNoSignal r.tr
    let nsS := if ns = "0" then "1" else ns
    let line := fmtLine { out := r.out, tr := r.tr, left := r.rest.length, g := g, n := n, cx := cx, ns := ns, sw := swallowed r.tr }
    let lineS := fmtLine { out := r.out, tr := r.tr, left := r.rest.length, g := gS, n := nS, cx := cxS, ns := nsS }
    .ok (line, lineS, { st with world := r.world, spec := sp, script := [] })

/-- run one API call, print, update.  `cSpec`: the call as the caller means it, when the code reads its arguments
    differently (`p_socket_shutdown` with a `pboolean` other than 0 / 1): the spec's line is then the one of that call. -/
def doCall (st : DSt) (c : WCall) (cSpec : Option WCall := none) : IO (DSt × Bool) := do
  match evalCall st c with
  | .error w =>
    IO.println (fmtStop w)
    return ({ st with dead := true, script := [] }, false)
  | .ok (line, lineS, st') =>
    let lineS := match cSpec with
      | none => lineS
      | some c' => match evalCall st c' with
        | .ok (_, l', _) => l'
        | .error w => fmtStop w
    IO.println (if line = lineS then line else line ++ " SPECDIFF " ++ lineS)
    return (st', false)

def bad (st : DSt) : IO (DSt × Bool) := do IO.println "bad-op"; return (st, false)

def step (st : DSt) (toks : List String) : IO (DSt × Bool) := do
  if toks = ["reset"] then IO.println "ok"; return ({}, false)
  if st.dead then IO.println "dead"; return (st, false)
  let nat (s : String) := s.toNat?
  match toks with
  | "sys" :: name :: ret :: extras =>
    match parseSys name, parseRet ret with
    | some sy, some rt =>
      match parseExtras { sys := sy, ret := rt } extras with
      | some r => IO.println "ok"; return ({ st with script := st.script ++ [r] }, false)
      | none => bad st
    | _, _ => bad st
  | ["initonce"] => doCall st .initOnce
  | ["new", s, f, t, p] =>
    match nat s, parseInt f, parseInt t, parseInt p with
    | some s, some f, some t, some p =>
      if (st.world.get s).isSome then bad st else doCall st (.new s f t p)
    | _, _, _, _ => bad st
  | ["newfd", s, fd] =>
    match nat s, parseInt fd with
    | some s, some fd => if (st.world.get s).isSome then bad st else doCall st (.newFromFd s fd)
    | _, _ => bad st
  | ["free", s] => match nat s with | some s => doCall st (.free s) | none => bad st
  | ["bind", s, a, r] =>
    match nat s, parseAddr a, parsePBool r with
    | some s, some a, some r => doCall st (.on s (.bind a r))
    | _, _, _ => bad st
  | ["connect", s, a] =>
    match nat s, parseAddr a with
    | some s, some a => doCall st (.on s (.connect a))
    | _, _ => bad st
  | ["listen", s] => match nat s with | some s => doCall st (.on s .listen) | none => bad st
  | ["accept", s, ns] =>
    match nat s, nat ns with
    | some s, some ns => if (st.world.get ns).isSome ∨ s = ns then bad st else doCall st (.on s .accept ns)
    | _, _ => bad st
  | ["recv", s, n] => match nat s, nat n with | some s, some n => doCall st (.on s (.receive false n)) | _, _ => bad st
  | ["recv", s, n, "null"] => match nat s, nat n with | some s, some n => doCall st (.on s (.receive true n)) | _, _ => bad st
  | ["recvfrom", s, n, w] =>
    match nat s, nat n, parseBool w with
    | some s, some n, some w => doCall st (.on s (.receiveFrom w false n))
    | _, _, _ => bad st
  | ["recvfrom", s, n, w, "null"] =>
    match nat s, nat n, parseBool w with
    | some s, some n, some w => doCall st (.on s (.receiveFrom w true n))
    | _, _, _ => bad st
  | ["send", s, "null", n] => match nat s, nat n with | some s, some n => doCall st (.on s (.send none n)) | _, _ => bad st
  | ["send", s, h] =>
    match nat s, bytesOfHex h with
    | some s, some b => doCall st (.on s (.send (some b) b.length))
    | _, _ => bad st
  | ["send", s, h, n] =>
    match nat s, bytesOfHex h, nat n with
    | some s, some b, some n => doCall st (.on s (.send (some b) n))
    | _, _, _ => bad st
  | ["sendto", s, a, "null", n] =>
    match nat s, parseAddr a, nat n with
    | some s, some a, some n => doCall st (.on s (.sendTo a none n))
    | _, _, _ => bad st
  | ["sendto", s, a, h] =>
    match nat s, parseAddr a, bytesOfHex h with
    | some s, some a, some b => doCall st (.on s (.sendTo a (some b) b.length))
    | _, _, _ => bad st
  | ["sendto", s, a, h, n] =>
    match nat s, parseAddr a, bytesOfHex h, nat n with
    | some s, some a, some b, some n => doCall st (.on s (.sendTo a (some b) n))
    | _, _, _, _ => bad st
  | ["close", s] => match nat s with | some s => doCall st (.on s .close) | none => bad st
  | ["shutdown", s, r, w] =>
    match nat s, parseCInt r, parseCInt w with
    | some s, some r, some w =>
      let (mr, mw) := shutdownArgs r w
      let (sr, sw) := Spec.shutdownArgs r w
      doCall st (.on s (.shutdown mr mw)) (if (mr, mw) = (sr, sw) then none else some (.on s (.shutdown sr sw)))
    | _, _, _ => bad st
  | ["setbuf", s, d, n] =>
    match nat s, parseInt d, nat n with
    | some s, some d, some n => doCall st (.on s (.setBufferSize d n))
    | _, _, _ => bad st
  | ["wait", s, c] => match nat s, parseInt c with | some s, some c => doCall st (.on s (.ioWait c)) | _, _ => bad st
  | ["chk", s] => match nat s with | some s => doCall st (.on s .checkConnectResult) | none => bad st
  | ["setka", s, b] => match nat s, parsePBool b with | some s, some b => doCall st (.on s (.setKeepalive b)) | _, _ => bad st
  | ["setblk", s, b] => match nat s, parsePBool b with | some s, some b => doCall st (.on s (.setBlocking b)) | _, _ => bad st
  | ["setbl", s, n] => match nat s, parseInt n with | some s, some n => doCall st (.on s (.setBacklog n)) | _, _ => bad st
  | ["setto", s, n] => match nat s, parseInt n with | some s, some n => doCall st (.on s (.setTimeout n)) | _, _ => bad st
  | ["local", s] => match nat s with | some s => doCall st (.on s .getLocal) | none => bad st
  | ["remote", s] => match nat s with | some s => doCall st (.on s .getRemote) | none => bad st
  | _ => bad st

def run : IO Unit := do
  let _ ← forEachLine (← IO.getStdin) DSt {} step
  return ()

end PV.Driver.Socket

import PV.Model.Tree.BST
import PV.Model.Tree.AVL
import PV.Model.Tree.RB
import PV.Driver.Util
/-! driver for the tree family (C12, C13, C14).
    ops:  new bst|rb|avl  | ins ORD | rem ORD | get ORD | each J | clear | shape | count
    Key objects are `(ord, id)`, value objects are ids; ids are handed out by a counter exactly as
    the harness does, so destroy logs can be compared object by object.
    Spec column: a strictly sorted association list. -/
namespace PV.Driver.Tree
open PV.Tree

abbrev K := Nat × Nat     -- (ordinal, object id)
abbrev V := Nat
def cmpK (a b : K) : Ordering := compare a.1 b.1

inductive AnyT where
  | bst (t : BT K V) | avl (t : AT K V) | rb (t : RT K V)

def AnyT.toBT : AnyT → BT K V
  | .bst t => t | .avl t => t.toBT | .rb t => t.toBT

structure St where
  t : AnyT := .bst .nil
  n : Int := 0                    -- nnodes
  next : Nat := 0                 -- object id counter
  spec : List (K × V) := []       -- sorted association list
  plain : Bool := false           -- tree created without destroy notifiers: nothing is ever destroyed

def fmtPair (p : K × V) : String := s!"{p.1.1}:k{p.1.2}:v{p.2}"
def fmtLog (d : List (K × V)) : String := "[" ++ " ".intercalate (d.map fun p => s!"k{p.1.2} v{p.2}") ++ "]"

partial def fmtShape : BT K V → String
  | .nil => "."
  | .node l k _ r => "(" ++ fmtShape l ++ " " ++ toString k.1 ++ " " ++ fmtShape r ++ ")"

def specIns (l : List (K × V)) (k : K) (v : V) : List (K × V) × List (K × V) :=
  match l with
  | [] => ([(k, v)], [])
  | p :: r =>
    if k.1 < p.1.1 then ((k, v) :: p :: r, [])
    else if k.1 = p.1.1 then ((k, v) :: r, [p])
    else let (r', d) := specIns r k v; (p :: r', d)

def specDel (l : List (K × V)) (o : Nat) : List (K × V) × List (K × V) :=
  (l.filter (·.1.1 ≠ o), l.filter (·.1.1 = o))

def fmtLogP (plain : Bool) (d : List (K × V)) : String := if plain then "[]" else fmtLog d

def sd (a b : String) : String := if a = b then a else a ++ " SPECDIFF " ++ b

def step (s : St) (toks : List String) : IO (St × Bool) := do
  match toks with
  | "new" :: ty :: flags =>
    let plain := flags.contains "plain"
    match ty with
    | "bst" => IO.println "ok"; return ({ t := .bst .nil, plain := plain }, false)
    | "avl" => IO.println "ok"; return ({ t := .avl .nil, plain := plain }, false)
    | "rb" => IO.println "ok"; return ({ t := .rb .nil, plain := plain }, false)
    | _ => IO.println "bad-op"; return (s, false)
  | ["ins", o] =>
    match o.toNat? with
    | none => IO.println "bad-op"; return (s, false)
    | some o =>
      let k : K := (o, s.next)
      let v : V := s.next
      let res : Option (AnyT × Bool × List (K × V)) :=
        match s.t with
        | .bst t => let (t', a, d) := t.ins cmpK k v; some (.bst t', a, d)
        | .avl t => (t.ins cmpK k v).map fun (t', _, a, d) => (.avl t', a, d)
        | .rb t => (t.ins cmpK k v).map fun (t', a, d) => (.rb t', a, d)
      match res with
      | none => IO.println "fault"; return (s, true)
      | some (t', a, d) =>
        let n' := if a then s.n + 1 else s.n
        let (sp', sdl) := specIns s.spec k v
        IO.println (sd s!"n={n'} d={fmtLogP s.plain d}" s!"n={sp'.length} d={fmtLogP s.plain sdl}")
        return ({ s with t := t', n := n', next := s.next + 1, spec := sp' }, false)
  | ["rem", o] =>
    match o.toNat? with
    | none => IO.println "bad-op"; return (s, false)
    | some o =>
      let k : K := (o, 0)
      let res : Option (AnyT × Bool × List (K × V)) :=
        match s.t with
        | .bst t => let (t', f, d) := t.del cmpK k; some (.bst t', f, d)
        | .avl t => (t.del cmpK k).map fun (t', _, f, d) => (.avl t', f, d)
        | .rb t => (t.del cmpK k).map fun (t', f, d) => (.rb t', f, d)
      match res with
      | none => IO.println "fault"; return (s, true)
      | some (t', f, d) =>
        let n' := if f then s.n - 1 else s.n
        let (sp', sdl) := specDel s.spec o
        let fs := if f then "T" else "F"
        let sfs := if sdl.isEmpty then "F" else "T"
        IO.println (sd s!"{fs} n={n'} d={fmtLogP s.plain d}" s!"{sfs} n={sp'.length} d={fmtLogP s.plain sdl}")
        return ({ s with t := t', n := n', spec := sp' }, false)
  | ["get", o] =>
    match o.toNat? with
    | none => IO.println "bad-op"; return (s, false)
    | some o =>
      let r := s.t.toBT.lookup cmpK (o, 0)
      let sp := (s.spec.find? (·.1.1 = o)).map (·.2)
      let f : Option V → String := fun | none => "nil" | some v => s!"v{v}"
      IO.println (sd (f r) (f sp)); return (s, false)
  | ["each", j] =>
    match j.toNat? with
    | none => IO.println "bad-op"; return (s, false)
    | some j =>
      let vis := s.t.toBT.foreachStop j
      let sp := if j = 0 then s.spec else s.spec.take j
      let f := fun (l : List (K × V)) => "[" ++ " ".intercalate (l.map fmtPair) ++ "]"
      IO.println (sd (f vis) (f sp)); return (s, false)
  | ["clear"] =>
    let d := s.t.toBT.toList
    let t' : AnyT := match s.t with | .bst _ => .bst .nil | .avl _ => .avl .nil | .rb _ => .rb .nil
    IO.println (sd s!"n={s.n - d.length} d={fmtLogP s.plain d}" s!"n=0 d={fmtLogP s.plain s.spec}")
    return ({ s with t := t', n := s.n - d.length, spec := [] }, false)
  | ["shape"] => IO.println (fmtShape s.t.toBT); return (s, false)
  | ["count"] => IO.println (sd (toString s.n) (toString s.spec.length)); return (s, false)
  | _ => IO.println "bad-op"; return (s, false)

def run : IO Unit := do
  let _ ← forEachLine (← IO.getStdin) St {} step
  return ()

end PV.Driver.Tree

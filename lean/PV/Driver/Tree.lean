import PV.Model.Tree.BST
import PV.Model.Tree.AVL
import PV.Model.Tree.RB
import PV.Model.Tree.Run
import PV.Driver.Util
/-! driver for the tree family (C12, C13, C14).
    ops:  new bst|rb|avl [plain|konly|vonly|data|wide|nk=ORD]… | newf … (the same call while the allocator fails) | ins ORD | insv ORD | insk | inskv | insf ORD | rem ORD | remn |
          get ORD | getk ORD | getn | each J | clear | free | shape | count | api
    (`wide`: the harness comparator answers with arbitrary magnitudes — the model's `Ordering` is the sign, nothing to do here;
     `nk=ORD`: the ordinal the NULL key compares as; `remn`/`getn`: the NULL pointer as the probe key; `free`: p_tree_free =
     clear + release, afterwards there is no tree until the next `new`; `api`: type and the NULL-argument entry points)
    Key objects are `(ord, id)`, value objects are ids; ids are handed out by a counter exactly as
    the harness does, so destroy logs can be compared object by object.
    Spec column: a strictly sorted association list. -/
namespace PV.Driver.Tree
open PV.Tree

abbrev K := Nat × Nat     -- (ordinal, object id)
abbrev V := Nat
def cmpK (a b : K) : Ordering := compare a.1 b.1

/-- the state of one of the three variants: tree and `nnodes`, exactly the state of `PV.Tree.*Step` -/
inductive AnyT where
  | bst (s : BT K V × Int) | avl (s : AT K V × Int) | rb (s : RT K V × Int)

def AnyT.toBT : AnyT → BT K V
  | .bst s => s.1 | .avl s => s.1.toBT | .rb s => s.1.toBT

/-- one public call on the model: the proven step functions of `PV.Model.Tree.Run` -/
def AnyT.step (t : AnyT) (op : Op K V) : Option (AnyT × Out K V) :=
  match t with
  | .bst s => let (s', o) := bstStep cmpK s op; some (.bst s', o)
  | .avl s => (avlStep cmpK s op).map fun (s', o) => (.avl s', o)
  | .rb s => (rbStep cmpK s op).map fun (s', o) => (.rb s', o)

structure St where
  t : AnyT := .bst (.nil, 0)
  next : Nat := 0                 -- object id counter
  spec : List (K × V) := []       -- sorted association list
  plain : Bool := false           -- tree created without destroy notifiers: nothing is ever destroyed
  konly : Bool := false           -- only a key notifier
  vonly : Bool := false           -- only a value notifier
  alive : Bool := false           -- a tree exists (after `new`, until `free`)
  nk : Nat := 0                   -- ordinal of the NULL key
  ty : String := "bst"

/-- object ids from `nullBase` on stand for the NULL pointer (a legal key and a legal value): the harness cannot tell two
    NULLs apart, so they all print as `N` -/
def nullBase : Nat := 1000000
def idStr (i : Nat) : String := if i ≥ nullBase then "N" else toString i

def fmtPair (p : K × V) : String := s!"{p.1.1}:k{idStr p.1.2}:v{idStr p.2}"
def fmtLog (d : List (K × V)) : String := "[" ++ " ".intercalate (d.map fun p => s!"k{idStr p.1.2} v{idStr p.2}") ++ "]"

partial def fmtShape : BT K V → String
  | .nil => "."
  | .node l k _ r => "(" ++ fmtShape l ++ " " ++ toString k.1 ++ " " ++ fmtShape r ++ ")"

/-- which notifiers the tree was given: 0 both, 1 none, 2 key only, 3 value only -/
def fmtLogP (mode : Nat) (d : List (K × V)) : String :=
  match mode with
  | 1 => "[]"
  | 2 => "[" ++ " ".intercalate (d.map fun p => s!"k{idStr p.1.2}") ++ "]"
  | 3 => "[" ++ " ".intercalate (d.map fun p => s!"v{idStr p.2}") ++ "]"
  | _ => fmtLog d

def sd (a b : String) : String := if a = b then a else a ++ " SPECDIFF " ++ b

def fmtOut (plain : Nat) : Out K V → String
  | .ins n d => s!"n={n} d={fmtLogP plain d}"
  | .rem f n d => (if f then "T" else "F") ++ s!" n={n} d={fmtLogP plain d}"
  | .got none => "nil"
  | .got (some v) => if v ≥ nullBase then "nil" else s!"v{v}"   -- p_tree_lookup of a pair stored with a NULL value returns NULL
  | .visited ps => "[" ++ " ".intercalate (ps.map fmtPair) ++ "]"
  | .cleared n d => s!"n={n} d={fmtLogP plain d}"
  | .num n => toString n

def doOp (s : St) (op : Op K V) (bump : Bool) : IO (St × Bool) := do
  match s.t.step op with
  | none => IO.println "fault"; return (s, true)
  | some (t', o) =>
    let (sp', so) := specStep cmpK s.spec op
    let mode := if s.plain then 1 else if s.konly then 2 else if s.vonly then 3 else 0
    IO.println (sd (fmtOut mode o) (fmtOut mode so))
    return ({ s with t := t', spec := sp', next := if bump then s.next + 1 else s.next }, false)

def step (s : St) (toks : List String) : IO (St × Bool) := do
  if !s.alive && toks.head? != some "new" && toks.head? != some "newf" then
    IO.println "bad-op"; return (s, false)
  match toks with
  | "new" :: ty :: flags =>
    let plain := flags.contains "plain"
    let konly := flags.contains "konly"
    let vonly := flags.contains "vonly"
    let nk := (flags.filterMap fun f => if f.startsWith "nk=" then (f.drop 3).toNat? else none).head?.getD 0
    let nk := if nk < 4096 then nk else 0
    let mk (t : AnyT) : St := { t := t, plain := plain, konly := konly, vonly := vonly, alive := true, nk := nk, ty := ty }
    match ty with
    | "bst" => IO.println "ok"; return (mk (.bst (.nil, 0)), false)
    | "avl" => IO.println "ok"; return (mk (.avl (.nil, 0)), false)
    | "rb" => IO.println "ok"; return (mk (.rb (.nil, 0)), false)
    | _ => IO.println "bad-op"; return (s, false)
  | "newf" :: ty :: _ =>            -- p_tree_new_full whose allocation fails: NULL, whatever the (valid) arguments; no tree afterwards
    if newFull (match ty with | "bst" => 0 | "rb" => 1 | _ => 2) true false then
      IO.println "ok held=1"; return (s, false)
    else
      IO.println "fail held=0"; return ({ s with alive := false, spec := [], t := .bst (.nil, 0) }, false)
  | ["ins", o] =>
    match o.toNat? with
    | none => IO.println "bad-op"; return (s, false)
    | some o => doOp s (.ins (o, s.next) s.next) true
  | ["insf", o] =>                 -- insert while the allocator fails: the model's own step kind (`Op.insf`): a new key is
                                   -- not added (identity), an equal key is replaced; the harness hands out an id either way
    match o.toNat? with
    | none => IO.println "bad-op"; return (s, false)
    | some o => doOp s (.insf (o, s.next) s.next) true
  | ["insv", o] =>                 -- NULL value
    match o.toNat? with
    | none => IO.println "bad-op"; return (s, false)
    | some o => doOp s (.ins (o, s.next) (nullBase + s.next)) true
  | ["insk"] => doOp s (.ins (s.nk, nullBase + s.next) s.next) true                 -- NULL key (orders as `nk`)
  | ["inskv"] => doOp s (.ins (s.nk, nullBase + s.next) (nullBase + s.next)) true   -- NULL key and NULL value
  | ["remn"] => doOp s (.rem (s.nk, 0)) false                                       -- the NULL pointer as probe
  | ["getn"] => doOp s (.get (s.nk, 0)) false
  | ["free"] =>                    -- p_tree_free: p_tree_clear, then the handle is gone
    match s.t.step .clear with
    | some (_, .cleared _ d) =>
      let (_, so) := specStep cmpK s.spec .clear
      let mode := if s.plain then 1 else if s.konly then 2 else if s.vonly then 3 else 0
      let sd' := match so with | .cleared _ d' => fmtLogP mode d' | _ => "?"
      IO.println (sd ("d=" ++ fmtLogP mode d) ("d=" ++ sd'))
      return ({ s with alive := false, spec := [] }, false)
    | _ => IO.println "fault"; return (s, true)
  | ["api"] =>                     -- creation with a bad type / without a comparator gives NULL (`newFull`); the NULL-tree calls are no-ops
    let bad := (if newFull 3 true true then " new(type=3)" else "") ++ (if newFull (-1) true true then " new(type=-1)" else "") ++
               (if newFull 2 false true then " new(func=NULL)" else "") ++ (if newFull 1 false true then " new_with_data(func=NULL)" else "") ++
               (if newFull 7 true true then " new_full(type=7)" else "") ++
               (if newFull 0 true true && newFull 1 true true && newFull 2 true true then "" else " second-tree-type")
    IO.println s!"type={s.ty}{if bad.isEmpty then " null-api=ok" else bad}"; return (s, false)
  | ["rem", o] =>
    match o.toNat? with
    | none => IO.println "bad-op"; return (s, false)
    | some o => doOp s (.rem (o, 0)) false
  | ["get", o] =>
    match o.toNat? with
    | none => IO.println "bad-op"; return (s, false)
    | some o => doOp s (.get (o, 0)) false
  | ["getk", o] =>                 -- the stored key object the comparator meets as "equal" (model: last key of the lookup path)
    match o.toNat? with
    | none => IO.println "bad-op"; return (s, false)
    | some o =>
      let fmt : Option K → String := fun | some k => s!"k{idStr k.2}" | none => "nil"
      let m := match (s.t.toBT.lookupPath cmpK (o, 0)).getLast? with
        | some k' => if cmpK (o, 0) k' == .eq then some k' else none
        | none => none
      let sp := (SM.find cmpK s.spec (o, 0)).map (·.1)
      IO.println (sd (fmt m) (fmt sp)); return (s, false)
  | ["each", j] =>
    match j.toNat? with
    | none => IO.println "bad-op"; return (s, false)
    | some j => doOp s (.each j) false
  | ["clear"] => doOp s .clear false
  | ["count"] => doOp s .count false
  | ["shape"] => IO.println (fmtShape s.t.toBT); return (s, false)
  | _ => IO.println "bad-op"; return (s, false)

def run : IO Unit := do
  let _ ← forEachLine (← IO.getStdin) St {} step
  return ()

end PV.Driver.Tree

import PV.Generated.Atomics
import PV.Driver.Util
/-! driver for the atomic-operation family (C04).

    `variant c11|sync|sim` selects the generated table; then `set32 V`, `get32`, `add32 V`, `inc32`, `dec32`,
    `cas32 OLD NEW`, `and32 V`, `or32 V`, `xor32 V` and the same with `64` (pointer-sized word; no inc / dec).
    Answer: `<returned value | - > <word afterwards>` (unsigned decimal; booleans 1 / 0), computed by
    `interp` / `simInterp` of the generated record.  When the spec function (`PV.Atomics.spec`) answers
    differently, or the record cannot be evaluated at this width, ` SPECDIFF <spec answer>` is appended.
    `T <op …>`: the op executed by a second thread (same answer: the word and, for sim, the mutex are process-wide).
    `natives`: native mutex lock / unlock calls and distinct mutexes since the last `natives`, from
    `SimFn.nativeCalls` of the generated records and the life-cycle model `simInitStep` (c11 / sync: `0 0 0`).
    `init` / `shutdown`: `p_atomic_thread_init ()` / `_shutdown ()` (the harness has called init once at start).
    `lockfree`: the generated constant; spec: TRUE for c11 / sync, FALSE for sim. -/
namespace PV.Driver.Atomics
open PV.Atomics PV.Generated.Atomics

structure St where
  variant : String := ""
  w32 : BitVec 32 := 0
  w64 : BitVec 64 := 0
  /-- sim: `pp_atomic_mutex` (identity of the mutex, `none` = NULL); the harness starts after one init call -/
  mutex : Option Nat := simInitStep simInit 0 none .init
  nextId : Nat := 1
  nLock : Nat := 0
  nUnlock : Nat := 0
  used : List Nat := []           -- distinct mutexes locked / unlocked since the last `natives`

def fmtRet {n : Nat} : Ret n → String
  | .void => "-"
  | .val v => toString v.toNat
  | .bool b => if b then "1" else "0"

def fmt {n : Nat} (x : BitVec n × Ret n) : String := fmtRet x.2 ++ " " ++ toString x.1.toNat

def opEq (a b : Op) : Bool := decide (a = b)

/-- the model's answer for `op` of the selected variant at width `n` -/
def eval (variant : String) (op : Op) (ptr : Bool) {n : Nat} (w a b : BitVec n) : Option (BitVec n × Ret n) :=
  if variant = "sim" then
    match simTable.find? (fun f => opEq f.op op && f.ptr == ptr) with
    | some f => if f.width = n then simInterp f w a b else none
    | none => none
  else
    let tbl := if variant = "c11" then c11Table else if variant = "sync" then syncTable else []
    match tbl.find? (fun i => opEq i.op op && i.ptr == ptr) with
    | some i => if i.width = n then interp i w a b else none
    | none => none

def answer {n : Nat} (variant : String) (op : Op) (ptr : Bool) (w a b : BitVec n) : String × BitVec n :=
  let sp := spec op w a b
  match eval variant op ptr w a b with
  | some m => (if fmt m = fmt sp then fmt m else fmt m ++ " SPECDIFF " ++ fmt sp, m.1)
  | none => ("no-model SPECDIFF " ++ fmt sp, sp.1)

def opOf : String → Option (Op × Nat)
  | "get" => some (.get, 0) | "set" => some (.set, 1) | "inc" => some (.inc, 0) | "dec" => some (.decAndTest, 0)
  | "cas" => some (.cas, 2) | "add" => some (.add, 1) | "and" => some (.and, 1) | "or" => some (.or, 1)
  | "xor" => some (.xor, 1)
  | _ => none

/-- bookkeeping of the native calls one operation makes (sim only) -/
def noteNatives (s : St) (op : Op) (ptr : Bool) : St :=
  if s.variant = "sim" then
    match simTable.find? (fun f => opEq f.op op && f.ptr == ptr), s.mutex with
    | some f, some id =>
      let c := f.nativeCalls true
      { s with nLock := s.nLock + c.1, nUnlock := s.nUnlock + c.2,
               used := if c.1 + c.2 > 0 ∧ !s.used.contains id then id :: s.used else s.used }
    | _, _ => s
  else s

def stepCore (s : St) (toks : List String) : IO (St × Bool) := do
  match toks with
  | ["variant", v] =>
    if v = "c11" ∨ v = "sync" ∨ v = "sim" then IO.println "ok"; return ({ s with variant := v }, false)
    else IO.println "bad-op"; return (s, false)
  | ["reset"] => IO.println "ok"; return ({ s with w32 := 0, w64 := 0 }, false)
  | "T" :: _ => IO.println "bad-op"; return (s, false)
  | ["natives"] =>
    IO.println s!"{s.nLock} {s.nUnlock} {s.used.length}"
    return ({ s with nLock := 0, nUnlock := 0, used := [] }, false)
  | ["init"] =>
    IO.println "ok"
    if s.variant = "sim" then
      return ({ s with mutex := simInitStep simInit s.nextId s.mutex .init, nextId := s.nextId + 1 }, false)
    else return (s, false)
  | ["shutdown"] =>
    IO.println "ok"
    if s.variant = "sim" then return ({ s with mutex := simInitStep simInit s.nextId s.mutex .shutdown }, false)
    else return (s, false)
  | ["lockfree"] =>
    if s.variant = "" then IO.println "bad-op"; return (s, false)
    else
      let m := if s.variant = "c11" then lockFreeC11 else if s.variant = "sync" then lockFreeSync else lockFreeSim
      let sp := s.variant != "sim"
      let f (b : Bool) := if b then "1" else "0"
      IO.println (if m = sp then f m else f m ++ " SPECDIFF " ++ f sp)
      return (s, false)
  | name :: args =>
    let (base, wide) :=
      if name.endsWith "32" then ((name.dropEnd 2).toString, false)
      else if name.endsWith "64" then ((name.dropEnd 2).toString, true)
      else ("", false)
    match opOf base, args.mapM String.toNat? with
    | some (op, arity), some vals =>
      if vals.length ≠ arity ∨ s.variant = "" ∨ (wide ∧ (base = "inc" ∨ base = "dec")) then
        IO.println "bad-op"; return (s, false)
      else
        let a := vals.getD 0 0
        let b := vals.getD 1 0
        if wide then
          let (line, w') := answer s.variant op true s.w64 (BitVec.ofNat 64 a) (BitVec.ofNat 64 b)
          IO.println line; return ({ noteNatives s op true with w64 := w' }, false)
        else
          let (line, w') := answer s.variant op false s.w32 (BitVec.ofNat 32 a) (BitVec.ofNat 32 b)
          IO.println line; return ({ noteNatives s op false with w32 := w' }, false)
    | _, _ => IO.println "bad-op"; return (s, false)
  | [] => return (s, false)

/-- `T <op …>`: the op on a second thread: the model's answer is that of the op itself -/
def step (s : St) (toks : List String) : IO (St × Bool) :=
  match toks with
  | "T" :: rest => stepCore s (if rest.isEmpty then ["T"] else rest)
  | _ => stepCore s toks

def run : IO Unit := do
  let _ ← forEachLine (← IO.getStdin) St {} step
  return ()

end PV.Driver.Atomics

import PV.Generated.Atomics
import PV.Driver.Util
/-! driver for the atomic-operation family (C04).

    `variant c11|sync|sim` selects the generated table; then `set32 V`, `get32`, `add32 V`, `inc32`, `dec32`,
    `cas32 OLD NEW`, `and32 V`, `or32 V`, `xor32 V` and the same with `64` (pointer-sized word; no inc / dec).
    Answer: `<returned value | - > <word afterwards>` (unsigned decimal; booleans 1 / 0), computed by
    `interp` / `simInterp` of the generated record.  When the spec function (`PV.Atomics.spec`) answers
    differently, or the record cannot be evaluated at this width, ` SPECDIFF <spec answer>` is appended. -/
namespace PV.Driver.Atomics
open PV.Atomics PV.Generated.Atomics

structure St where
  variant : String := ""
  w32 : BitVec 32 := 0
  w64 : BitVec 64 := 0

def fmtRet {n : Nat} : Ret n → String
  | .void => "-"
  | .val v => toString v.toNat
  | .bool b => if b then "1" else "0"

def fmt {n : Nat} (x : BitVec n × Ret n) : String := fmtRet x.2 ++ " " ++ toString x.1.toNat

def opEq (a b : Op) : Bool := decide (a = b)

/-- the model's answer for `op` of the selected variant at width `n` -/
def eval (variant : String) (op : Op) (ptr : Bool) {n : Nat} (w a b : BitVec n) : Option (BitVec n × Ret n) :=
  if variant = "sim" then
    match simTable.find? (fun f => opEq f.op op && f.ptr == ptr) with
    | some f => if f.width = n then simInterp f w a b else none
    | none => none
  else
    let tbl := if variant = "c11" then c11Table else if variant = "sync" then syncTable else []
    match tbl.find? (fun i => opEq i.op op && i.ptr == ptr) with
    | some i => if i.width = n then interp i w a b else none
    | none => none

def answer {n : Nat} (variant : String) (op : Op) (ptr : Bool) (w a b : BitVec n) : String × BitVec n :=
  let sp := spec op w a b
  match eval variant op ptr w a b with
  | some m => (if fmt m = fmt sp then fmt m else fmt m ++ " SPECDIFF " ++ fmt sp, m.1)
  | none => ("no-model SPECDIFF " ++ fmt sp, sp.1)

def opOf : String → Option (Op × Nat)
  | "get" => some (.get, 0) | "set" => some (.set, 1) | "inc" => some (.inc, 0) | "dec" => some (.decAndTest, 0)
  | "cas" => some (.cas, 2) | "add" => some (.add, 1) | "and" => some (.and, 1) | "or" => some (.or, 1)
  | "xor" => some (.xor, 1)
  | _ => none

def step (s : St) (toks : List String) : IO (St × Bool) := do
  match toks with
  | ["variant", v] =>
    if v = "c11" ∨ v = "sync" ∨ v = "sim" then IO.println "ok"; return ({ s with variant := v }, false)
    else IO.println "bad-op"; return (s, false)
  | ["reset"] => IO.println "ok"; return ({ s with w32 := 0, w64 := 0 }, false)
  | name :: args =>
    let (base, wide) :=
      if name.endsWith "32" then ((name.dropEnd 2).toString, false)
      else if name.endsWith "64" then ((name.dropEnd 2).toString, true)
      else ("", false)
    match opOf base, args.mapM String.toNat? with
    | some (op, arity), some vals =>
      if vals.length ≠ arity ∨ s.variant = "" ∨ (wide ∧ (base = "inc" ∨ base = "dec")) then
        IO.println "bad-op"; return (s, false)
      else
        let a := vals.getD 0 0
        let b := vals.getD 1 0
        if wide then
          let (line, w') := answer s.variant op true s.w64 (BitVec.ofNat 64 a) (BitVec.ofNat 64 b)
          IO.println line; return ({ s with w64 := w' }, false)
        else
          let (line, w') := answer s.variant op false s.w32 (BitVec.ofNat 32 a) (BitVec.ofNat 32 b)
          IO.println line; return ({ s with w32 := w' }, false)
    | _, _ => IO.println "bad-op"; return (s, false)
  | [] => return (s, false)

def run : IO Unit := do
  let _ ← forEachLine (← IO.getStdin) St {} step
  return ()

end PV.Driver.Atomics

import PV.Model.CondVar
import PV.Driver.Util
/-! driver for the condition-variable family (C03).

Wrapper-mapping ops (answer = what the wrapper model says over the GENERATED facts; the spec —
`specOf` — is what the property demands; a difference is printed as `SPECDIFF`):

    wait C M RC | signal C RC | bcast C RC | lock M RC | trylock M RC | unlock M RC
    newc AF RC | newm AF RC | freec C RC | freem M RC | ident | ident2 | reset
      C, M ∈ {obj, obj2, null} (`freec` / `freem`: obj, null); RC = scripted native return code;
      AF = 1: the allocation fails

There are two live objects of each kind.  The wrapper model is a function of the objects it is
given (it has no state of its own): a pointer it computes is relative to the object passed for the
parameter it was computed from, so the answer for `obj2` is the answer for `obj` with the pointers
printed relative to the second object (`C2+off`, `M2+off`).  An implementation that remembers an
object from an earlier call, or keeps state outside the object, disagrees.

Client-model op (model only, used by the check for the scheduler-driven runs):

    pcrun N M C ITEMS BCAST SEED SPUR   -- N producers × ITEMS, M consumers, capacity C,
                                        -- random schedule from SEED with ≤ SPUR spurious wake-ups
-/
namespace PV.Driver.CondVar
open PV.CondVar
open PV.Generated.CondVar (NFn)

def fnName : NFn → String
  | .cond_init => "cond_init" | .cond_destroy => "cond_destroy" | .cond_wait => "cond_wait"
  | .cond_signal => "cond_signal" | .cond_broadcast => "cond_broadcast"
  | .mutex_init => "mutex_init" | .mutex_destroy => "mutex_destroy" | .mutex_lock => "mutex_lock"
  | .mutex_trylock => "mutex_trylock" | .mutex_unlock => "mutex_unlock"
  | .other n => "other:" ++ n

/-- `ct` / `mt`: which live object was passed for the cond / mutex parameter ("" or "2") -/
def ptrStr (ct mt : String) : Ptr → String
  | .null => "NULL"
  | .cond o => "C" ++ ct ++ "+" ++ toString o
  | .mutex o => "M" ++ mt ++ "+" ++ toString o
  | .unknown => "?"

def callStr (ct mt : String) (c : NCall) : String := fnName c.fn ++ "(" ++ ",".intercalate (c.args.map (ptrStr ct mt)) ++ ")"
def callsStr (cs : List NCall) (ct mt : String := "") : String := "[" ++ " ".intercalate (cs.map (callStr ct mt)) ++ "]"

def boolStr : Option Bool → String
  | some true => "TRUE"
  | some false => "FALSE"
  | none => "?"

def fmtBool (r : BoolRes) (ct mt : String := "") : String := "ret=" ++ boolStr r.ret ++ " calls=" ++ callsStr r.calls ct mt
def fmtNew (r : NewRes) : String :=
  "obj=" ++ (if r.obj then "1" else "0") ++ " calls=" ++ callsStr r.calls ++ " freed=" ++ (if r.freed then "1" else "0")
def fmtFree (r : FreeRes) : String := "calls=" ++ callsStr r.calls ++ " freed=" ++ (if r.freed then "1" else "0")

def sel (o : Obj) : String → Option Obj
  | "obj" => some o
  | "null" => some .nullp
  | _ => none

/-- selector with the second live object: (what the wrapper is given, tag of the object) -/
def sel2 (o : Obj) : String → Option (Obj × String)
  | "obj" => some (o, "")
  | "obj2" => some (o, "2")
  | "null" => some (.nullp, "")
  | _ => none

def out2 (a b : String) : IO Unit := IO.println (if a = b then a else a ++ " SPECDIFF " ++ b)

/-- pointer identities the property needs, read off the call logs of the four calls -/
def identStr (f : Facts) : String :=
  let w := (pCondWait f .condObj .mutexObj 0).calls
  let l := (pMutexLock f .mutexObj 0).calls
  let u := (pMutexUnlock f .mutexObj 0).calls
  let sg := (pCondSignal f .condObj 0).calls
  let bc := (pCondBroadcast f .condObj 0).calls
  let arg (cs : List NCall) (i : Nat) : Option Ptr := cs.head?.bind (·.args[i]?)
  let known (p : Option Ptr) : Bool := match p with | some (.cond _) | some (.mutex _) => true | _ => false
  let mutexSame := known (arg w 1) && arg w 1 == arg l 0 && arg w 1 == arg u 0
  let condSame := known (arg w 0) && arg w 0 == arg sg 0 && arg w 0 == arg bc 0
  "ident mutex=" ++ (if mutexSame then "same" else "DIFFERENT") ++ " cond=" ++ (if condSame then "same" else "DIFFERENT")

/-- linear congruential generator for the scheduler-driven runs -/
def lcg (seed : Nat) (n : Nat) : Nat :=
  let rec go (k : Nat) (x : Nat) : Nat := match k with
    | 0 => x
    | k + 1 => go k ((x * 6364136223846793005 + 1442695040888963407) % 18446744073709551616)
  (go (n % 64 + 1) (seed + n * 2654435761)) / 4294967296

def consumerShares (total m : Nat) : List Nat :=
  (List.range m).map fun i => total / m + (if i < total % m then 1 else 0)

def pcrun (n m c items : Nat) (bc : Bool) (seed spur : Nat) : String :=
  let cfg : Cfg := { cap := c, bcast := bc, recheck := true }
  let thr := mkThreads (List.replicate n items) (consumerShares (n * items) m)
  let s0 := initState thr
  let fuel := 40 * (n * items + 1) * (n + m + 2) + 8 * spur + 100
  let (s, steps, ok) := schedRun cfg (lcg seed) fuel 0 spur s0 true
  let st := if !ok then "VIOLATED" else if isFinal s then "final" else if (enabled cfg s).all Label.isSpurious then "DEADLOCK" else "fuel"
  "pcrun " ++ st ++ " consumed=" ++ toString s.consumed.length ++ " produced=" ++ toString s.produced.length
    ++ " inorder=" ++ (if s.consumed = s.produced then "1" else "0") ++ " steps=" ++ toString steps

def step (_ : Unit) (toks : List String) : IO (Unit × Bool) := do
  let g := generated
  let sp := specOf generated
  let rcOf (x : String) : Option Int := x.toInt?
  match toks with
  | ["wait", c, m, rc] =>
    match sel2 .condObj c, sel2 .mutexObj m, rcOf rc with
    | some (c, ct), some (m, mt), some rc => out2 (fmtBool (pCondWait g c m rc) ct mt) (fmtBool (pCondWait sp c m rc) ct mt)
    | _, _, _ => IO.println "bad-op"
  | ["signal", c, rc] =>
    match sel2 .condObj c, rcOf rc with
    | some (c, ct), some rc => out2 (fmtBool (pCondSignal g c rc) ct) (fmtBool (pCondSignal sp c rc) ct)
    | _, _ => IO.println "bad-op"
  | ["bcast", c, rc] =>
    match sel2 .condObj c, rcOf rc with
    | some (c, ct), some rc => out2 (fmtBool (pCondBroadcast g c rc) ct) (fmtBool (pCondBroadcast sp c rc) ct)
    | _, _ => IO.println "bad-op"
  | ["lock", m, rc] =>
    match sel2 .mutexObj m, rcOf rc with
    | some (m, mt), some rc => out2 (fmtBool (pMutexLock g m rc) "" mt) (fmtBool (pMutexLock sp m rc) "" mt)
    | _, _ => IO.println "bad-op"
  | ["trylock", m, rc] =>
    match sel2 .mutexObj m, rcOf rc with
    | some (m, mt), some rc => out2 (fmtBool (pMutexTrylock g m rc) "" mt) (fmtBool (pMutexTrylock sp m rc) "" mt)
    | _, _ => IO.println "bad-op"
  | ["unlock", m, rc] =>
    match sel2 .mutexObj m, rcOf rc with
    | some (m, mt), some rc => out2 (fmtBool (pMutexUnlock g m rc) "" mt) (fmtBool (pMutexUnlock sp m rc) "" mt)
    | _, _ => IO.println "bad-op"
  | ["newc", af, rc] =>
    match af.toNat?, rcOf rc with
    | some af, some rc => out2 (fmtNew (runNew g g.condNew .condObj (af != 0) rc)) (fmtNew (runNew sp sp.condNew .condObj (af != 0) rc))
    | _, _ => IO.println "bad-op"
  | ["newm", af, rc] =>
    match af.toNat?, rcOf rc with
    | some af, some rc => out2 (fmtNew (runNew g g.mutexNew .mutexObj (af != 0) rc)) (fmtNew (runNew sp sp.mutexNew .mutexObj (af != 0) rc))
    | _, _ => IO.println "bad-op"
  | ["freec", c, _rc] =>
    match sel .condObj c with
    | some c => out2 (fmtFree (runFree g g.condFree (envCM c .nullp))) (fmtFree (runFree sp sp.condFree (envCM c .nullp)))
    | none => IO.println "bad-op"
  | ["freem", m, _rc] =>
    match sel .mutexObj m with
    | some m => out2 (fmtFree (runFree g g.mutexFree (envCM .nullp m))) (fmtFree (runFree sp sp.mutexFree (envCM .nullp m)))
    | none => IO.println "bad-op"
  | ["ident"] => out2 (identStr g) "ident mutex=same cond=same"
  -- the wrapper model has no state and computes every pointer from the object it is given: across
  -- the two live objects the identities are those of `ident`
  | ["ident2"] => out2 ("ident2" ++ (identStr g).drop 5) "ident2 mutex=same cond=same"
  | ["reset"] => IO.println "ok"
  | ["pcrun", n, m, c, items, bc, seed, spur] =>
    match n.toNat?, m.toNat?, c.toNat?, items.toNat?, bc.toNat?, seed.toNat?, spur.toNat? with
    | some n, some m, some c, some items, some bc, some seed, some spur =>
      IO.println (pcrun n m c items (bc != 0) seed spur)
    | _, _, _, _, _, _, _ => IO.println "bad-op"
  | _ => IO.println "bad-op"
  return ((), false)

def run : IO Unit := do
  let _ ← forEachLine (← IO.getStdin) Unit () step
  return ()

end PV.Driver.CondVar

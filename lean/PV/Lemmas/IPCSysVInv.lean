import PV.Lemmas.IPCSysV
/-! One set per name (System V semaphore machine): the binding `Bound`, what each system call does to it, what each
machine step does to it, and the invariant over arbitrary action lists. -/
namespace PV.SysV
open PV.Generated.IPCSysV
set_option linter.unusedSimpArgs false

/-- key file `f` has inode `i`, whose ftok key names the live set `id`; nothing else refers to `i` / `id`;
    inode numbers are not reused (the oracle is off) -/
structure Bound (os : OS) (f : KeyFile) (i : Ino) (id : SemId) : Prop where
  file : os.files f = some i
  key : os.semKeys (ftokOf i) = some id
  alive : (os.sems id).alive = true
  idlt : id < os.nextSem
  uniq : ∀ k, os.semKeys k = some id → k = ftokOf i
  inj : ∀ g, os.files g = some i → g = f
  ilt : i < os.nextIno
  noreuse : os.reuse = false

/-! ## per system call -/

theorem bound_open (os : OS) (f g : KeyFile) (i : Ino) (id : SemId) (flags : Nat) (hb : Bound os f i id) :
    Bound (openF os g flags).1 f i id := by
  unfold openF
  cases hg : os.files g with
  | some j => simp only; split <;> exact hb
  | none =>
    have hgf : g ≠ f := by intro e; rw [e, hb.file] at hg; cases hg
    simp only [hb.noreuse]
    split
    · refine ⟨?_, hb.key, hb.alive, hb.idlt, hb.uniq, ?_, ?_, rfl⟩
      · simp [Ne.symm hgf, hb.file]
      · intro g' hg'
        simp only at hg'
        split at hg'
        · exact absurd (Option.some.inj hg') (Nat.ne_of_gt hb.ilt)
        · exact hb.inj g' hg'
      · exact Nat.lt_succ_of_lt hb.ilt
    · exact hb

theorem open_bound_result (os : OS) (f : KeyFile) (i : Ino) (id : SemId) (hb : Bound os f i id) :
    (openF os f keyFileOpenFlags).2 = .err .EEXIST := by
  simp [openF, hb.file, hasFlag, keyFileOpenFlags, O_CREAT, O_EXCL]

theorem bound_unlink (os : OS) (f g : KeyFile) (i : Ino) (id : SemId) (hb : Bound os f i id) (hg : g ≠ f) :
    Bound (unlinkF os g).1 f i id := by
  unfold unlinkF
  cases hj : os.files g with
  | none => exact hb
  | some j =>
    refine ⟨?_, hb.key, hb.alive, hb.idlt, hb.uniq, ?_, hb.ilt, hb.noreuse⟩
    · simp [Ne.symm hg, hb.file]
    · intro g' hg'
      simp only at hg'
      split at hg'
      · cases hg'
      · exact hb.inj g' hg'

theorem bound_semget (os : OS) (f : KeyFile) (i : Ino) (id : SemId) (k : Key) (flags : Nat) (hb : Bound os f i id) :
    Bound (semgetF os k flags).1 f i id ∧ ((semgetF os k flags).1.sems id = os.sems id) ∧
    (k ≠ ftokOf i → ∀ j, (semgetF os k flags).2 = .ok j → j ≠ id) := by
  unfold semgetF
  cases hk : os.semKeys k with
  | some j =>
    simp only
    split
    · exact ⟨hb, rfl, fun _ j' h => by cases h⟩
    · refine ⟨hb, rfl, fun hne j' h => ?_⟩
      simp only [Res.ok.injEq] at h
      subst h
      intro e; subst e
      exact hne (hb.uniq k hk)
  | none =>
    simp only
    split
    · have hne : k ≠ ftokOf i := by intro e; rw [e, hb.key] at hk; cases hk
      have hid : id ≠ os.nextSem := Nat.ne_of_lt hb.idlt
      refine ⟨⟨hb.file, ?_, ?_, ?_, ?_, hb.inj, hb.ilt, hb.noreuse⟩, ?_, ?_⟩
      · simp [Ne.symm hne, hb.key]
      · simp [hid, hb.alive]
      · exact Nat.lt_succ_of_lt hb.idlt
      · intro k' hk'
        simp only at hk'
        split at hk'
        · simp only [Option.some.injEq] at hk'; exact absurd hk'.symm hid
        · exact hb.uniq k' hk'
      · simp [hid]
      · intro _ j h
        simp only [Res.ok.injEq] at h
        subst h; exact Ne.symm hid
    · exact ⟨hb, rfl, fun _ j h => by cases h⟩

theorem semget_bound_result (os : OS) (f : KeyFile) (i : Ino) (id : SemId) (hb : Bound os f i id) :
    (semgetF os (ftokOf i) semgetExclFlags).2 = .err .EEXIST ∧ (semgetF os (ftokOf i) semgetPlainFlags).2 = .ok id := by
  simp [semgetF, hb.key, hasFlag, semgetExclFlags, semgetPlainFlags, IPC_CREAT, IPC_EXCL]

/-- `semctl` on another id, or SETVAL on `id` -/
theorem bound_semctl (os : OS) (f : KeyFile) (i : Ino) (id : SemId) (h : Option SemId) (cmd v : Nat) (hb : Bound os f i id)
    (hq : h = some id → cmd ≠ IPC_RMID) :
    Bound (semctlF os h cmd v).1 f i id ∧ (h ≠ some id → (semctlF os h cmd v).1.sems id = os.sems id) := by
  unfold semctlF
  cases ha : semAlive os h with
  | none => exact ⟨hb, fun _ => rfl⟩
  | some j =>
    have hj : h = some j := by
      unfold semAlive at ha
      cases h with
      | none => cases ha
      | some j' => simp only at ha; split at ha <;> simp_all
    simp only
    by_cases e : j = id
    · subst e
      have hc := hq hj
      split
      · split
        · exact ⟨hb, fun _ => rfl⟩
        · refine ⟨⟨hb.file, hb.key, ?_, hb.idlt, hb.uniq, hb.inj, hb.ilt, hb.noreuse⟩, fun hn => absurd hj hn⟩
          simp [OS.setSem, hb.alive]
      · first
          | exact ⟨hb, fun _ => rfl⟩
          | (split
             · rename_i hcm; exact absurd hcm hc
             · exact ⟨hb, fun _ => rfl⟩)
    · have e' : id ≠ j := Ne.symm e
      split
      · split
        · exact ⟨hb, fun _ => rfl⟩
        · refine ⟨⟨hb.file, hb.key, ?_, hb.idlt, hb.uniq, hb.inj, hb.ilt, hb.noreuse⟩, fun _ => ?_⟩ <;> simp [OS.setSem, e', hb.alive]
      · split
        · refine ⟨⟨hb.file, ?_, ?_, hb.idlt, ?_, hb.inj, hb.ilt, hb.noreuse⟩, fun _ => ?_⟩
          · simp only [hb.key, Option.some.injEq, e', if_false]
          · simp [OS.setSem, e', hb.alive]
          · intro k hk
            simp only at hk
            split at hk
            · cases hk
            · exact hb.uniq k hk
          · simp [OS.setSem, e']
        · exact ⟨hb, fun _ => rfl⟩

theorem bound_semop (os : OS) (f : KeyFile) (i : Ino) (id : SemId) (p : Pid) (h : Option SemId) (op : Int) (flg : Nat) (hb : Bound os f i id) :
    Bound (semopF os p h op flg).1 f i id ∧ (h ≠ some id → (semopF os p h op flg).1.sems id = os.sems id) := by
  unfold semopF
  cases ha : semAlive os h with
  | none => exact ⟨hb, fun _ => rfl⟩
  | some j =>
    have hj : h = some j := by
      unfold semAlive at ha
      cases h with
      | none => cases ha
      | some j' => simp only at ha; split at ha <;> simp_all
    have hal : (os.sems j).alive = true := by
      subst hj; simp only [semAlive] at ha; split at ha <;> simp_all
    have key : ∀ s' : SemSet, s'.alive = true → Bound (os.setSem j s') f i id := by
      intro s' hs'
      refine ⟨hb.file, hb.key, ?_, hb.idlt, hb.uniq, hb.inj, hb.ilt, hb.noreuse⟩
      simp only [OS.setSem]; split
      · exact hs'
      · exact hb.alive
    have fr : ∀ s' : SemSet, h ≠ some id → (os.setSem j s').sems id = os.sems id := by
      intro s' hn
      have : id ≠ j := by intro e; subst e; exact hn hj
      simp [OS.setSem, this]
    simp only
    split
    · split
      · exact ⟨hb, fun _ => rfl⟩
      · exact ⟨key _ hal, fr _⟩
    · split
      · split <;> exact ⟨hb, fun _ => rfl⟩
      · split
        · exact ⟨hb, fun _ => rfl⟩
        · exact ⟨key _ hal, fr _⟩

/-- the shm calls and `close` / `stat` / `ftok` do not touch key files, set keys or sets -/
theorem bound_of_eq (os os' : OS) (f : KeyFile) (i : Ino) (id : SemId) (hb : Bound os f i id)
    (h1 : os'.files = os.files) (h2 : os'.semKeys = os.semKeys) (h3 : os'.sems = os.sems) (h4 : os'.nextSem = os.nextSem)
    (h5 : os'.nextIno = os.nextIno) (h6 : os'.reuse = os.reuse) : Bound os' f i id :=
  ⟨by rw [h1]; exact hb.file, by rw [h2]; exact hb.key, by rw [h3]; exact hb.alive, by rw [h4]; exact hb.idlt,
   by rw [h2]; exact hb.uniq, by rw [h1]; exact hb.inj, by rw [h5]; exact hb.ilt, by rw [h6]; exact hb.noreuse⟩

theorem shm_calls_frame (os : OS) (p : Pid) (k : Key) (size flags name cmd : Nat) (sid : Option SegId) (a : Option Nat) :
    (∀ os', os' = (shmgetF os k size flags name).1 ∨ os' = (shmctlF os sid cmd).1 ∨ os' = (shmatF os p sid flags).1 ∨ os' = (shmdtF os p a).1 →
      os'.files = os.files ∧ os'.semKeys = os.semKeys ∧ os'.sems = os.sems ∧ os'.nextSem = os.nextSem ∧ os'.nextIno = os.nextIno ∧ os'.reuse = os.reuse) := by
  intro os' h
  rcases h with h | h | h | h <;> subst h
  · unfold shmgetF; (repeat' split) <;> simp
  · unfold shmctlF; (repeat' split) <;> simp [OS.setSeg]
  · unfold shmatF; (repeat' split) <;> simp [OS.setSeg, OS.setProc]
  · simp only [shmdtF]; split <;> simp [OS.setSeg, OS.setProc]

/-- one system call keeps the binding unless it is `unlink f` or IPC_RMID of `id`; a `semctl` / `semop` on another
    id, and every other call, leaves the set `id` itself (value, adjustments) alone -/
theorem sysStep_bound (p : Pid) (intr : Bool) (c : Sys) (os : OS) (nm : Nat) (f : KeyFile) (i : Ino) (id : SemId) (hb : Bound os f i id)
    (h1 : c ≠ .unlink f) (h2 : ∀ v, c ≠ .semctl (some id) IPC_RMID v) :
    Bound (sysStep p intr c os nm).1 f i id ∧
    ((∀ cmd v, c ≠ .semctl (some id) cmd v) → (∀ n o fl, c ≠ .semop (some id) n o fl) → (sysStep p intr c os nm).1.sems id = os.sems id) := by
  unfold sysStep
  split
  · exact ⟨hb, fun _ _ => rfl⟩
  · cases c with
    | «open» g fl m => simp only; exact ⟨bound_open os f g i id fl hb, fun _ _ => by unfold openF; (repeat' split) <;> rfl⟩
    | close fd => exact ⟨hb, fun _ _ => rfl⟩
    | stat g => simp only; split <;> exact ⟨hb, fun _ _ => rfl⟩
    | ftok g pr => simp only; split <;> exact ⟨hb, fun _ _ => rfl⟩
    | unlink g =>
      have hg : g ≠ f := by intro e; exact h1 (by rw [e])
      simp only
      exact ⟨bound_unlink os f g i id hb hg, fun _ _ => by unfold unlinkF; split <;> rfl⟩
    | semget k n fl => simp only; exact ⟨(bound_semget os f i id k fl hb).1, fun _ _ => (bound_semget os f i id k fl hb).2.1⟩
    | semctl h cmd v =>
      have := bound_semctl os f i id h cmd v hb (by intro e c'; exact h2 v (by rw [e, c']))
      simp only
      exact ⟨this.1, fun hn _ => this.2 (by intro e; exact hn cmd v (by rw [e]))⟩
    | semop h n o fl =>
      have := bound_semop os f i id p h o fl hb
      simp only
      exact ⟨this.1, fun _ hn => this.2 (by intro e; exact hn n o fl (by rw [e]))⟩
    | shmget k sz fl =>
      have := shm_calls_frame os p k sz fl nm 0 none none _ (Or.inl rfl)
      simp only
      exact ⟨bound_of_eq os _ f i id hb this.1 this.2.1 this.2.2.1 this.2.2.2.1 this.2.2.2.2.1 this.2.2.2.2.2, fun _ _ => by rw [this.2.2.1]⟩
    | shmctl sid cmd =>
      have := shm_calls_frame os p 0 0 0 nm cmd sid none _ (Or.inr (Or.inl rfl))
      simp only
      exact ⟨bound_of_eq os _ f i id hb this.1 this.2.1 this.2.2.1 this.2.2.2.1 this.2.2.2.2.1 this.2.2.2.2.2, fun _ _ => by rw [this.2.2.1]⟩
    | shmat sid fl =>
      have := shm_calls_frame os p 0 0 fl nm 0 sid none _ (Or.inr (Or.inr (Or.inl rfl)))
      simp only
      exact ⟨bound_of_eq os _ f i id hb this.1 this.2.1 this.2.2.1 this.2.2.2.1 this.2.2.2.2.1 this.2.2.2.2.2, fun _ _ => by rw [this.2.2.1]⟩
    | shmdt a =>
      have := shm_calls_frame os p 0 0 0 nm 0 none a _ (Or.inr (Or.inr (Or.inr rfl)))
      simp only
      exact ⟨bound_of_eq os _ f i id hb this.1 this.2.1 this.2.2.1 this.2.2.2.1 this.2.2.2.2.1 this.2.2.2.2.2, fun _ _ => by rw [this.2.2.1]⟩

/-! ## per machine step -/

/-- a struct at rest: a handle of `f` refers to `id`, a handle of another name does not -/
def PSem.inv (f : KeyFile) (id : SemId) (h : PSem) : Prop :=
  if h.file = f then h.hdl = some id else h.hdl ≠ some id

/-- a semaphore machine between two of its system calls.  For `f`: a creation in flight is a plain `p_semaphore_new`
    that owns nothing yet and has read the key of `f`'s inode; a semop loop runs on `id`.  For another name: it has not
    created anything before its semget, its key is not `f`'s, and the id it works on is not `id`. -/
def SemSt.inv (f : KeyFile) (i : Ino) (id : SemId) (s : SemSt) : Prop :=
  if s.h.file = f then
    match s.pc with
    | .cOpen | .cStat | .cFtok => s.api = .new ∧ s.h.fileCreated = false ∧ s.h.semCreated = false
    | .cGetExcl | .cGetPlain => s.api = .new ∧ s.h.fileCreated = false ∧ s.h.semCreated = false ∧ s.h.unixKey = some (ftokOf i)
    | .cSetval => s.api = .new ∧ s.h.fileCreated = false ∧ s.h.semCreated = false ∧ s.h.hdl = some id
    | .op => s.h.hdl = some id
    | _ => True
  else
    match s.pc with
    | .cOpen | .cClose _ | .cStat | .cFtok => s.h.semCreated = false ∧ (s.api ≠ .new → s.h.hdl ≠ some id)
    | .cGetExcl | .cGetPlain => s.h.semCreated = false ∧ (s.api ≠ .new → s.h.hdl ≠ some id) ∧ ∃ k, s.h.unixKey = some k ∧ k ≠ ftokOf i
    | .cSetval | .op | .kRmid => s.h.hdl ≠ some id
    | .kUnlink => True

/-- no clean-up of `f` (IPC_RMID of its set, unlink of its key file) is at its system calls: no owner free in flight -/
def SemSt.quiet (f : KeyFile) (s : SemSt) : Prop :=
  s.h.file = f → s.pc ≠ .kRmid ∧ s.pc ≠ .kUnlink ∧ (∀ fd, s.pc ≠ .cClose fd)

/-- what one transition hands on: the next machine state, or the struct (stored as a handle unless a `p_semaphore_new` failed) -/
def SemOut.inv (f : KeyFile) (i : Ino) (id : SemId) (api : SemApi) : SemOut → Prop
  | .cont s' => s'.inv f i id ∧ s'.api = api
  | .done (h, r) => (api = .new → r = .ok ()) → h.inv f id

/-- a machine of another name: whatever the result of its system call — provided an `ftok` does not yield `f`'s key and a
    `semget` does not yield `id` — the next state keeps the invariant -/
theorem sem_after_inv_foreign (f : KeyFile) (i : Ino) (id : SemId) (s : SemSt) (r : Res) (hf : s.h.file ≠ f) (hi : s.inv f i id)
    (hr1 : s.pc = .cFtok → ∀ k, r = .ok k → k ≠ ftokOf i)
    (hr2 : (s.pc = .cGetExcl ∨ s.pc = .cGetPlain) → ∀ j, r = .ok j → j ≠ id) :
    SemOut.inv f i id s.api (s.after r) := by
  obtain ⟨api, h, pc, built, failing, recreated⟩ := s
  obtain ⟨fc, sc, uk, file, hdl, mode, init⟩ := h
  simp only at hf
  simp only [SemSt.inv, hf, if_false] at hi
  have hne : ∀ j : SemId, j ≠ id → (some j : Option SemId) ≠ some id := fun j hj e => hj (Option.some.inj e)
  cases pc <;> simp only at hi hr1 hr2 <;> rcases r with v | ⟨sz, na⟩ | e | _ <;>
    simp only [SemSt.after, SemSt.fail, SemSt.startClean, SemSt.afterClean, SemSt.afterGet, SemSt.created, SemSt.startCreate,
      PSem.cleaned, errOf] <;>
    (repeat' split) <;>
    simp_all [SemOut.inv, SemSt.inv, PSem.inv]

/-- a quiet machine of `f` itself, given what the bound OS answers: `open` EEXIST, `stat` ok, `ftok` the key of `i`,
    exclusive `semget` EEXIST, plain `semget` the id, `semop` never EIDRM / EINVAL -/
theorem sem_after_inv_own (f : KeyFile) (i : Ino) (id : SemId) (s : SemSt) (r : Res) (hf : s.h.file = f) (hi : s.inv f i id)
    (hq : s.quiet f)
    (r1 : s.pc = .cOpen → r = .err .EEXIST) (r2 : s.pc = .cStat → r = .ok 0) (r3 : s.pc = .cFtok → r = .ok (ftokOf i))
    (r4 : s.pc = .cGetExcl → r = .err .EEXIST) (r5 : s.pc = .cGetPlain → r = .ok id)
    (r6 : s.pc = .op → ∀ e, r = .err e → e = .EINTR ∨ e = .ERANGE) :
    SemOut.inv f i id s.api (s.after r) := by
  obtain ⟨api, h, pc, built, failing, recreated⟩ := s
  obtain ⟨fc, sc, uk, file, hdl, mode, init⟩ := h
  simp only at hf
  subst hf
  simp only [SemSt.inv, if_true] at hi
  simp only [SemSt.quiet, true_implies] at hq
  cases pc <;> simp only [ne_eq, not_true_eq_false, reduceCtorEq, not_false_eq_true, and_true, true_and, and_false, false_and,
      forall_const, SemPC.cClose.injEq, forall_eq', imp_false, true_implies, false_implies] at hi hq r1 r2 r3 r4 r5 r6 <;>
    (try subst r1) <;> (try subst r2) <;> (try subst r3) <;> (try subst r4) <;> (try subst r5) <;>
    (try rcases r with v | ⟨sz, na⟩ | e | _) <;>
    (try (rcases r6 e rfl with rfl | rfl)) <;>
    simp only [SemSt.after, SemSt.fail, SemSt.startClean, SemSt.afterClean, SemSt.afterGet, SemSt.created, SemSt.startCreate,
      PSem.cleaned, errOf, Errno.num, keyFileExistsErrno, semgetExistsErrno, acquireRetryErrno, releaseRetryErrno,
      acquireRecreateErrnos, releaseRecreateErrnos, PV.Generated.IPCSysV.EEXIST, PV.Generated.IPCSysV.EINTR, PV.Generated.IPCSysV.ERANGE] <;>
    (repeat' split) <;>
    simp_all [SemOut.inv, SemSt.inv, PSem.inv]

/-! ### what the bound OS answers -/

theorem sys_open_f (p : Pid) (intr : Bool) (nm m : Nat) (os : OS) (f : KeyFile) (i : Ino) (id : SemId) (hb : Bound os f i id) :
    (sysStep p intr (.open f keyFileOpenFlags m) os nm).2 = .err .EEXIST := by
  simp [sysStep, Sys.interruptible, open_bound_result os f i id hb]

theorem sys_stat_ftok_f (p : Pid) (intr : Bool) (nm pr : Nat) (os : OS) (f : KeyFile) (i : Ino) (id : SemId) (hb : Bound os f i id) :
    (sysStep p intr (.stat f) os nm).2 = .ok 0 ∧ (sysStep p intr (.ftok f pr) os nm).2 = .ok (ftokOf i) := by
  simp [sysStep, Sys.interruptible, hb.file]

theorem sys_semget_f (p : Pid) (intr : Bool) (nm n : Nat) (os : OS) (f : KeyFile) (i : Ino) (id : SemId) (hb : Bound os f i id) :
    (sysStep p intr (.semget (ftokOf i) n semgetExclFlags) os nm).2 = .err .EEXIST ∧
    (sysStep p intr (.semget (ftokOf i) n semgetPlainFlags) os nm).2 = .ok id := by
  have := semget_bound_result os f i id hb
  simp [sysStep, Sys.interruptible, this.1, this.2]

/-- `semop` on a live set: a unit, a wait, ERANGE at SEMVMX, or EINTR — never EIDRM / EINVAL -/
theorem sys_semop_alive (p : Pid) (intr : Bool) (nm n : Nat) (o : Int) (fl : Nat) (os : OS) (id : SemId) (ha : (os.sems id).alive = true) :
    ∀ e, (sysStep p intr (.semop (some id) n o fl) os nm).2 = .err e → e = .EINTR ∨ e = .ERANGE := by
  intro e he
  unfold sysStep at he
  split at he
  · simp only [Res.err.injEq] at he; exact Or.inl he.symm
  · simp only [semopF, semAlive, ha, if_true] at he
    (repeat' split at he) <;> simp_all

theorem sys_ftok_foreign (p : Pid) (intr : Bool) (nm pr : Nat) (os : OS) (f g : KeyFile) (i : Ino) (id : SemId) (hb : Bound os f i id) (hg : g ≠ f) :
    ∀ k, (sysStep p intr (.ftok g pr) os nm).2 = .ok k → k ≠ ftokOf i := by
  intro k hk
  simp only [sysStep, Sys.interruptible, Bool.and_false, Bool.false_eq_true, if_false] at hk
  cases hj : os.files g with
  | none => simp [hj] at hk
  | some j =>
    simp only [hj, Res.ok.injEq] at hk
    subst hk
    intro e
    simp only [ftokOf] at e
    subst e
    exact hg (hb.inj g hj)

theorem sys_semget_foreign (p : Pid) (intr : Bool) (nm n fl : Nat) (os : OS) (f : KeyFile) (i : Ino) (id : SemId) (k : Key) (hb : Bound os f i id)
    (hk : k ≠ ftokOf i) : ∀ j, (sysStep p intr (.semget k n fl) os nm).2 = .ok j → j ≠ id := by
  intro j hj
  simp only [sysStep, Sys.interruptible, Bool.and_false, Bool.false_eq_true, if_false] at hj
  exact (bound_semget os f i id k fl hb).2.2 hk j hj

/-- one transition of a semaphore machine (of any name) in a bound OS: the binding stays, the next machine state / the
    struct handed back keeps the invariant, and a machine of another name does not touch the set -/
theorem sem_step_inv (p : Pid) (intr : Bool) (nm : Nat) (s : SemSt) (os : OS) (f : KeyFile) (i : Ino) (id : SemId)
    (hb : Bound os f i id) (hi : s.inv f i id) (hq : s.quiet f) :
    Bound (sysStep p intr s.next os nm).1 f i id ∧ SemOut.inv f i id s.api (s.after (sysStep p intr s.next os nm).2) ∧
    (s.h.file ≠ f → (sysStep p intr s.next os nm).1.sems id = os.sems id) := by
  by_cases hf : s.h.file = f
  · -- the name itself
    have hq' := hq hf
    have hi' := hi
    simp only [SemSt.inv, hf, if_true] at hi'
    have hB : Bound (sysStep p intr s.next os nm).1 f i id := by
      refine (sysStep_bound p intr s.next os nm f i id hb ?_ ?_).1
      · intro e
        obtain ⟨api, h, pc, built, failing, recreated⟩ := s
        cases pc <;> simp [SemSt.next] at e hq'
      · intro v e
        obtain ⟨api, h, pc, built, failing, recreated⟩ := s
        cases pc <;> simp [SemSt.next, semSetvalCmd, IPC_RMID] at e hq'
    refine ⟨hB, ?_, fun hn => absurd hf hn⟩
    apply sem_after_inv_own f i id s _ hf hi hq
    · intro hpc
      have : s.next = .open f keyFileOpenFlags keyFileOpenMode := by simp [SemSt.next, hpc, hf]
      rw [this]; exact sys_open_f p intr nm _ os f i id hb
    · intro hpc
      have : s.next = .stat f := by simp [SemSt.next, hpc, hf]
      rw [this]; exact (sys_stat_ftok_f p intr nm 0 os f i id hb).1
    · intro hpc
      have : s.next = .ftok f ftokProj := by simp [SemSt.next, hpc, hf]
      rw [this]; exact (sys_stat_ftok_f p intr nm ftokProj os f i id hb).2
    · intro hpc
      simp only [hpc] at hi'
      have : s.next = .semget (ftokOf i) semgetExclNsems semgetExclFlags := by simp [SemSt.next, hpc, hi'.2.2.2]
      rw [this]; exact (sys_semget_f p intr nm _ os f i id hb).1
    · intro hpc
      simp only [hpc] at hi'
      have : s.next = .semget (ftokOf i) semgetPlainNsems semgetPlainFlags := by simp [SemSt.next, hpc, hi'.2.2.2]
      rw [this]; exact (sys_semget_f p intr nm _ os f i id hb).2
    · intro hpc
      simp only [hpc] at hi'
      have : s.next = .semop (some id) s.buf.1 s.buf.2.1 s.buf.2.2 := by simp [SemSt.next, hpc, hi']
      rw [this]; exact sys_semop_alive p intr nm _ _ _ os id hb.alive
  · -- another name
    have hi' := hi
    simp only [SemSt.inv, hf, if_false] at hi'
    have hnext1 : s.next ≠ .unlink f := by
      intro e
      obtain ⟨api, h, pc, built, failing, recreated⟩ := s
      cases pc <;> simp [SemSt.next] at e
      exact hf e
    have hnext2 : ∀ cmd v, s.next ≠ .semctl (some id) cmd v := by
      intro cmd v e
      obtain ⟨api, h, pc, built, failing, recreated⟩ := s
      cases pc <;> simp [SemSt.next] at e hi'
      all_goals exact hi' e.1
    have hnext3 : ∀ n o fl, s.next ≠ .semop (some id) n o fl := by
      intro n o fl e
      obtain ⟨api, h, pc, built, failing, recreated⟩ := s
      cases pc <;> simp [SemSt.next] at e hi'
      exact hi' e.1
    have hS := sysStep_bound p intr s.next os nm f i id hb hnext1 (fun v => hnext2 IPC_RMID v)
    refine ⟨hS.1, ?_, fun _ => hS.2 hnext2 hnext3⟩
    apply sem_after_inv_foreign f i id s _ hf hi
    · intro hpc
      have : s.next = .ftok s.h.file ftokProj := by simp [SemSt.next, hpc]
      rw [this]; exact sys_ftok_foreign p intr nm _ os f s.h.file i id hb hf
    · intro hpc
      rcases hpc with hpc | hpc <;> simp only [hpc] at hi' <;> obtain ⟨_, _, k, hk, hkn⟩ := hi'
      · have : s.next = .semget k semgetExclNsems semgetExclFlags := by simp [SemSt.next, hpc, hk]
        rw [this]; exact sys_semget_foreign p intr nm _ _ os f i id k hb hkn
      · have : s.next = .semget k semgetPlainNsems semgetPlainFlags := by simp [SemSt.next, hpc, hk]
        rw [this]; exact sys_semget_foreign p intr nm _ _ os f i id k hb hkn

end PV.SysV

import PV.Lemmas.IPCSysV
/-! One set per name (System V semaphore machine): the binding `Bound`, what each system call does to it, what each
machine step does to it, and the invariant over arbitrary action lists. -/
namespace PV.SysV
open PV.Generated.IPCSysV
set_option linter.unusedSimpArgs false

/-- key file `f` has inode `i`, whose ftok key names the live set `id`; nothing else refers to `i` / `id`;
    inode numbers are not reused (the oracle is off) -/
structure Bound (os : OS) (f : KeyFile) (i : Ino) (id : SemId) : Prop where
  file : os.files f = some i
  key : os.semKeys (ftokOf i) = some id
  alive : (os.sems id).alive = true
  idlt : id < os.nextSem
  uniq : ∀ k, os.semKeys k = some id → k = ftokOf i
  inj : ∀ g, os.files g = some i → g = f
  ilt : i < os.nextIno
  noreuse : os.reuse = false

/-! ## per system call -/

theorem bound_open (os : OS) (f g : KeyFile) (i : Ino) (id : SemId) (flags : Nat) (hb : Bound os f i id) :
    Bound (openF os g flags).1 f i id := by
  unfold openF
  cases hg : os.files g with
  | some j => simp only; split <;> exact hb
  | none =>
    have hgf : g ≠ f := by intro e; rw [e, hb.file] at hg; cases hg
    simp only [hb.noreuse]
    split
    · refine ⟨?_, hb.key, hb.alive, hb.idlt, hb.uniq, ?_, ?_, rfl⟩
      · simp [Ne.symm hgf, hb.file]
      · intro g' hg'
        simp only at hg'
        split at hg'
        · exact absurd (Option.some.inj hg') (Nat.ne_of_gt hb.ilt)
        · exact hb.inj g' hg'
      · exact Nat.lt_succ_of_lt hb.ilt
    · exact hb

theorem open_bound_result (os : OS) (f : KeyFile) (i : Ino) (id : SemId) (hb : Bound os f i id) :
    (openF os f keyFileOpenFlags).2 = .err .EEXIST := by
  simp [openF, hb.file, hasFlag, keyFileOpenFlags, O_CREAT, O_EXCL]

theorem bound_unlink (os : OS) (f g : KeyFile) (i : Ino) (id : SemId) (hb : Bound os f i id) (hg : g ≠ f) :
    Bound (unlinkF os g).1 f i id := by
  unfold unlinkF
  cases hj : os.files g with
  | none => exact hb
  | some j =>
    refine ⟨?_, hb.key, hb.alive, hb.idlt, hb.uniq, ?_, hb.ilt, hb.noreuse⟩
    · simp [Ne.symm hg, hb.file]
    · intro g' hg'
      simp only at hg'
      split at hg'
      · cases hg'
      · exact hb.inj g' hg'

theorem bound_semget (os : OS) (f : KeyFile) (i : Ino) (id : SemId) (k : Key) (flags : Nat) (hb : Bound os f i id) :
    Bound (semgetF os k flags).1 f i id ∧ ((semgetF os k flags).1.sems id = os.sems id) ∧
    (k ≠ ftokOf i → ∀ j, (semgetF os k flags).2 = .ok j → j ≠ id) := by
  unfold semgetF
  cases hk : os.semKeys k with
  | some j =>
    simp only
    split
    · exact ⟨hb, rfl, fun _ j' h => by cases h⟩
    · refine ⟨hb, rfl, fun hne j' h => ?_⟩
      simp only [Res.ok.injEq] at h
      subst h
      intro e; subst e
      exact hne (hb.uniq k hk)
  | none =>
    simp only
    split
    · have hne : k ≠ ftokOf i := by intro e; rw [e, hb.key] at hk; cases hk
      have hid : id ≠ os.nextSem := Nat.ne_of_lt hb.idlt
      refine ⟨⟨hb.file, ?_, ?_, ?_, ?_, hb.inj, hb.ilt, hb.noreuse⟩, ?_, ?_⟩
      · simp [Ne.symm hne, hb.key]
      · simp [hid, hb.alive]
      · exact Nat.lt_succ_of_lt hb.idlt
      · intro k' hk'
        simp only at hk'
        split at hk'
        · simp only [Option.some.injEq] at hk'; exact absurd hk'.symm hid
        · exact hb.uniq k' hk'
      · simp [hid]
      · intro _ j h
        simp only [Res.ok.injEq] at h
        subst h; exact Ne.symm hid
    · exact ⟨hb, rfl, fun _ j h => by cases h⟩

theorem semget_bound_result (os : OS) (f : KeyFile) (i : Ino) (id : SemId) (hb : Bound os f i id) :
    (semgetF os (ftokOf i) semgetExclFlags).2 = .err .EEXIST ∧ (semgetF os (ftokOf i) semgetPlainFlags).2 = .ok id := by
  simp [semgetF, hb.key, hasFlag, semgetExclFlags, semgetPlainFlags, IPC_CREAT, IPC_EXCL]

/-- `semctl` on another id, or SETVAL on `id` -/
theorem bound_semctl (os : OS) (f : KeyFile) (i : Ino) (id : SemId) (h : Option SemId) (cmd v : Nat) (hb : Bound os f i id)
    (hq : h = some id → cmd ≠ IPC_RMID) :
    Bound (semctlF os h cmd v).1 f i id ∧ (h ≠ some id → (semctlF os h cmd v).1.sems id = os.sems id) := by
  unfold semctlF
  cases ha : semAlive os h with
  | none => exact ⟨hb, fun _ => rfl⟩
  | some j =>
    have hj : h = some j := by
      unfold semAlive at ha
      cases h with
      | none => cases ha
      | some j' => simp only at ha; split at ha <;> simp_all
    simp only
    by_cases e : j = id
    · subst e
      have hc := hq hj
      split
      · split
        · exact ⟨hb, fun _ => rfl⟩
        · refine ⟨⟨hb.file, hb.key, ?_, hb.idlt, hb.uniq, hb.inj, hb.ilt, hb.noreuse⟩, fun hn => absurd hj hn⟩
          simp [OS.setSem, hb.alive]
      · first
          | exact ⟨hb, fun _ => rfl⟩
          | (split
             · rename_i hcm; exact absurd hcm hc
             · exact ⟨hb, fun _ => rfl⟩)
    · have e' : id ≠ j := Ne.symm e
      split
      · split
        · exact ⟨hb, fun _ => rfl⟩
        · refine ⟨⟨hb.file, hb.key, ?_, hb.idlt, hb.uniq, hb.inj, hb.ilt, hb.noreuse⟩, fun _ => ?_⟩ <;> simp [OS.setSem, e', hb.alive]
      · split
        · refine ⟨⟨hb.file, ?_, ?_, hb.idlt, ?_, hb.inj, hb.ilt, hb.noreuse⟩, fun _ => ?_⟩
          · simp only [hb.key, Option.some.injEq, e', if_false]
          · simp [OS.setSem, e', hb.alive]
          · intro k hk
            simp only at hk
            split at hk
            · cases hk
            · exact hb.uniq k hk
          · simp [OS.setSem, e']
        · exact ⟨hb, fun _ => rfl⟩

theorem bound_semop (os : OS) (f : KeyFile) (i : Ino) (id : SemId) (p : Pid) (h : Option SemId) (op : Int) (flg : Nat) (hb : Bound os f i id) :
    Bound (semopF os p h op flg).1 f i id ∧ (h ≠ some id → (semopF os p h op flg).1.sems id = os.sems id) := by
  unfold semopF
  cases ha : semAlive os h with
  | none => exact ⟨hb, fun _ => rfl⟩
  | some j =>
    have hj : h = some j := by
      unfold semAlive at ha
      cases h with
      | none => cases ha
      | some j' => simp only at ha; split at ha <;> simp_all
    have hal : (os.sems j).alive = true := by
      subst hj; simp only [semAlive] at ha; split at ha <;> simp_all
    have key : ∀ s' : SemSet, s'.alive = true → Bound (os.setSem j s') f i id := by
      intro s' hs'
      refine ⟨hb.file, hb.key, ?_, hb.idlt, hb.uniq, hb.inj, hb.ilt, hb.noreuse⟩
      simp only [OS.setSem]; split
      · exact hs'
      · exact hb.alive
    have fr : ∀ s' : SemSet, h ≠ some id → (os.setSem j s').sems id = os.sems id := by
      intro s' hn
      have : id ≠ j := by intro e; subst e; exact hn hj
      simp [OS.setSem, this]
    simp only
    split
    · split
      · exact ⟨hb, fun _ => rfl⟩
      · exact ⟨key _ hal, fr _⟩
    · split
      · split <;> exact ⟨hb, fun _ => rfl⟩
      · split
        · exact ⟨hb, fun _ => rfl⟩
        · exact ⟨key _ hal, fr _⟩

/-- the shm calls and `close` / `stat` / `ftok` do not touch key files, set keys or sets -/
theorem bound_of_eq (os os' : OS) (f : KeyFile) (i : Ino) (id : SemId) (hb : Bound os f i id)
    (h1 : os'.files = os.files) (h2 : os'.semKeys = os.semKeys) (h3 : os'.sems = os.sems) (h4 : os'.nextSem = os.nextSem)
    (h5 : os'.nextIno = os.nextIno) (h6 : os'.reuse = os.reuse) : Bound os' f i id :=
  ⟨by rw [h1]; exact hb.file, by rw [h2]; exact hb.key, by rw [h3]; exact hb.alive, by rw [h4]; exact hb.idlt,
   by rw [h2]; exact hb.uniq, by rw [h1]; exact hb.inj, by rw [h5]; exact hb.ilt, by rw [h6]; exact hb.noreuse⟩

theorem shm_calls_frame (os : OS) (p : Pid) (k : Key) (size flags name cmd : Nat) (sid : Option SegId) (a : Option Nat) :
    (∀ os', os' = (shmgetF os k size flags name).1 ∨ os' = (shmctlF os sid cmd).1 ∨ os' = (shmatF os p sid flags).1 ∨ os' = (shmdtF os p a).1 →
      os'.files = os.files ∧ os'.semKeys = os.semKeys ∧ os'.sems = os.sems ∧ os'.nextSem = os.nextSem ∧ os'.nextIno = os.nextIno ∧ os'.reuse = os.reuse) := by
  intro os' h
  rcases h with h | h | h | h <;> subst h
  · unfold shmgetF; (repeat' split) <;> simp
  · unfold shmctlF; (repeat' split) <;> simp [OS.setSeg]
  · unfold shmatF; (repeat' split) <;> simp [OS.setSeg, OS.setProc]
  · simp only [shmdtF]; split <;> simp [OS.setSeg, OS.setProc]

/-- one system call keeps the binding unless it is `unlink f` or IPC_RMID of `id`; a `semctl` / `semop` on another
    id, and every other call, leaves the set `id` itself (value, adjustments) alone -/
theorem sysStep_bound (p : Pid) (intr : Bool) (c : Sys) (os : OS) (nm : Nat) (f : KeyFile) (i : Ino) (id : SemId) (hb : Bound os f i id)
    (h1 : c ≠ .unlink f) (h2 : ∀ v, c ≠ .semctl (some id) IPC_RMID v) :
    Bound (sysStep p intr c os nm).1 f i id ∧
    ((∀ cmd v, c ≠ .semctl (some id) cmd v) → (∀ n o fl, c ≠ .semop (some id) n o fl) → (sysStep p intr c os nm).1.sems id = os.sems id) := by
  unfold sysStep
  split
  · exact ⟨hb, fun _ _ => rfl⟩
  · cases c with
    | «open» g fl m => simp only; exact ⟨bound_open os f g i id fl hb, fun _ _ => by unfold openF; (repeat' split) <;> rfl⟩
    | close fd => exact ⟨hb, fun _ _ => rfl⟩
    | stat g => simp only; split <;> exact ⟨hb, fun _ _ => rfl⟩
    | ftok g pr => simp only; split <;> exact ⟨hb, fun _ _ => rfl⟩
    | unlink g =>
      have hg : g ≠ f := by intro e; exact h1 (by rw [e])
      simp only
      exact ⟨bound_unlink os f g i id hb hg, fun _ _ => by unfold unlinkF; split <;> rfl⟩
    | semget k n fl => simp only; exact ⟨(bound_semget os f i id k fl hb).1, fun _ _ => (bound_semget os f i id k fl hb).2.1⟩
    | semctl h cmd v =>
      have := bound_semctl os f i id h cmd v hb (by intro e c'; exact h2 v (by rw [e, c']))
      simp only
      exact ⟨this.1, fun hn _ => this.2 (by intro e; exact hn cmd v (by rw [e]))⟩
    | semop h n o fl =>
      have := bound_semop os f i id p h o fl hb
      simp only
      exact ⟨this.1, fun _ hn => this.2 (by intro e; exact hn n o fl (by rw [e]))⟩
    | shmget k sz fl =>
      have := shm_calls_frame os p k sz fl nm 0 none none _ (Or.inl rfl)
      simp only
      exact ⟨bound_of_eq os _ f i id hb this.1 this.2.1 this.2.2.1 this.2.2.2.1 this.2.2.2.2.1 this.2.2.2.2.2, fun _ _ => by rw [this.2.2.1]⟩
    | shmctl sid cmd =>
      have := shm_calls_frame os p 0 0 0 nm cmd sid none _ (Or.inr (Or.inl rfl))
      simp only
      exact ⟨bound_of_eq os _ f i id hb this.1 this.2.1 this.2.2.1 this.2.2.2.1 this.2.2.2.2.1 this.2.2.2.2.2, fun _ _ => by rw [this.2.2.1]⟩
    | shmat sid fl =>
      have := shm_calls_frame os p 0 0 fl nm 0 sid none _ (Or.inr (Or.inr (Or.inl rfl)))
      simp only
      exact ⟨bound_of_eq os _ f i id hb this.1 this.2.1 this.2.2.1 this.2.2.2.1 this.2.2.2.2.1 this.2.2.2.2.2, fun _ _ => by rw [this.2.2.1]⟩
    | shmdt a =>
      have := shm_calls_frame os p 0 0 0 nm 0 none a _ (Or.inr (Or.inr (Or.inr rfl)))
      simp only
      exact ⟨bound_of_eq os _ f i id hb this.1 this.2.1 this.2.2.1 this.2.2.2.1 this.2.2.2.2.1 this.2.2.2.2.2, fun _ _ => by rw [this.2.2.1]⟩

/-! ## per machine step -/

/-- a struct at rest: a handle of `f` refers to `id`, a handle of another name does not -/
def PSem.inv (f : KeyFile) (id : SemId) (h : PSem) : Prop :=
  if h.file = f then h.hdl = some id else h.hdl ≠ some id

/-- a semaphore machine between two of its system calls.  For `f`: a creation in flight is a plain `p_semaphore_new`
    that owns nothing yet and has read the key of `f`'s inode; a semop loop runs on `id`.  For another name: it has not
    created anything before its semget, its key is not `f`'s, and the id it works on is not `id`. -/
def SemSt.inv (f : KeyFile) (i : Ino) (id : SemId) (s : SemSt) : Prop :=
  if s.h.file = f then
    match s.pc with
    | .cOpen | .cStat | .cFtok => s.api = .new ∧ s.h.fileCreated = false ∧ s.h.semCreated = false
    | .cGetExcl | .cGetPlain => s.api = .new ∧ s.h.fileCreated = false ∧ s.h.semCreated = false ∧ s.h.unixKey = some (ftokOf i)
    | .cSetval => s.api = .new ∧ s.h.fileCreated = false ∧ s.h.semCreated = false ∧ s.h.hdl = some id
    | .op => s.h.hdl = some id
    | _ => True
  else
    match s.pc with
    | .cOpen | .cClose _ | .cStat | .cFtok => s.h.semCreated = false ∧ (s.api ≠ .new → s.h.hdl ≠ some id)
    | .cGetExcl | .cGetPlain => s.h.semCreated = false ∧ (s.api ≠ .new → s.h.hdl ≠ some id) ∧ ∃ k, s.h.unixKey = some k ∧ k ≠ ftokOf i
    | .cSetval | .op | .kRmid => s.h.hdl ≠ some id
    | .kUnlink => True

/-- no clean-up of `f` (IPC_RMID of its set, unlink of its key file) is at its system calls: no owner free in flight -/
def SemSt.quiet (f : KeyFile) (s : SemSt) : Prop :=
  s.h.file = f → s.pc ≠ .kRmid ∧ s.pc ≠ .kUnlink ∧ (∀ fd, s.pc ≠ .cClose fd)

/-- what one transition hands on: the next machine state, or the struct (stored as a handle unless a `p_semaphore_new` failed) -/
def SemOut.inv (f : KeyFile) (i : Ino) (id : SemId) (api : SemApi) : SemOut → Prop
  | .cont s' => s'.inv f i id ∧ s'.api = api
  | .done (h, r) => (api = .new → r = .ok ()) → h.inv f id

/-- a machine of another name: whatever the result of its system call — provided an `ftok` does not yield `f`'s key and a
    `semget` does not yield `id` — the next state keeps the invariant -/
theorem sem_after_inv_foreign (f : KeyFile) (i : Ino) (id : SemId) (s : SemSt) (r : Res) (hf : s.h.file ≠ f) (hi : s.inv f i id)
    (hr1 : s.pc = .cFtok → ∀ k, r = .ok k → k ≠ ftokOf i)
    (hr2 : (s.pc = .cGetExcl ∨ s.pc = .cGetPlain) → ∀ j, r = .ok j → j ≠ id) :
    SemOut.inv f i id s.api (s.after r) := by
  obtain ⟨api, h, pc, built, failing, recreated⟩ := s
  obtain ⟨fc, sc, uk, file, hdl, mode, init⟩ := h
  simp only at hf
  simp only [SemSt.inv, hf, if_false] at hi
  have hne : ∀ j : SemId, j ≠ id → (some j : Option SemId) ≠ some id := fun j hj e => hj (Option.some.inj e)
  cases pc <;> simp only at hi hr1 hr2 <;> rcases r with v | ⟨sz, na⟩ | e | _ <;>
    simp only [SemSt.after, SemSt.fail, SemSt.startClean, SemSt.afterClean, SemSt.afterGet, SemSt.created, SemSt.startCreate,
      PSem.cleaned, errOf] <;>
    (repeat' split) <;>
    simp_all [SemOut.inv, SemSt.inv, PSem.inv]

/-- a quiet machine of `f` itself, given what the bound OS answers: `open` EEXIST, `stat` ok, `ftok` the key of `i`,
    exclusive `semget` EEXIST, plain `semget` the id, `semop` never EIDRM / EINVAL -/
theorem sem_after_inv_own (f : KeyFile) (i : Ino) (id : SemId) (s : SemSt) (r : Res) (hf : s.h.file = f) (hi : s.inv f i id)
    (hq : s.quiet f)
    (r1 : s.pc = .cOpen → r = .err .EEXIST) (r2 : s.pc = .cStat → r = .ok 0) (r3 : s.pc = .cFtok → r = .ok (ftokOf i))
    (r4 : s.pc = .cGetExcl → r = .err .EEXIST) (r5 : s.pc = .cGetPlain → r = .ok id)
    (r6 : s.pc = .op → ∀ e, r = .err e → e = .EINTR ∨ e = .ERANGE) :
    SemOut.inv f i id s.api (s.after r) := by
  obtain ⟨api, h, pc, built, failing, recreated⟩ := s
  obtain ⟨fc, sc, uk, file, hdl, mode, init⟩ := h
  simp only at hf
  subst hf
  simp only [SemSt.inv, if_true] at hi
  simp only [SemSt.quiet, true_implies] at hq
  cases pc <;> simp only [ne_eq, not_true_eq_false, reduceCtorEq, not_false_eq_true, and_true, true_and, and_false, false_and,
      forall_const, SemPC.cClose.injEq, forall_eq', imp_false, true_implies, false_implies] at hi hq r1 r2 r3 r4 r5 r6 <;>
    (try subst r1) <;> (try subst r2) <;> (try subst r3) <;> (try subst r4) <;> (try subst r5) <;>
    (try rcases r with v | ⟨sz, na⟩ | e | _) <;>
    (try (rcases r6 e rfl with rfl | rfl)) <;>
    simp only [SemSt.after, SemSt.fail, SemSt.startClean, SemSt.afterClean, SemSt.afterGet, SemSt.created, SemSt.startCreate,
      PSem.cleaned, errOf, Errno.num, keyFileExistsErrno, semgetExistsErrno, acquireRetryErrno, releaseRetryErrno,
      acquireRecreateErrnos, releaseRecreateErrnos, PV.Generated.IPCSysV.EEXIST, PV.Generated.IPCSysV.EINTR, PV.Generated.IPCSysV.ERANGE] <;>
    (repeat' split) <;>
    simp_all [SemOut.inv, SemSt.inv, PSem.inv]

/-! ### what the bound OS answers -/

theorem sys_open_f (p : Pid) (intr : Bool) (nm m : Nat) (os : OS) (f : KeyFile) (i : Ino) (id : SemId) (hb : Bound os f i id) :
    (sysStep p intr (.open f keyFileOpenFlags m) os nm).2 = .err .EEXIST := by
  simp [sysStep, Sys.interruptible, open_bound_result os f i id hb]

theorem sys_stat_ftok_f (p : Pid) (intr : Bool) (nm pr : Nat) (os : OS) (f : KeyFile) (i : Ino) (id : SemId) (hb : Bound os f i id) :
    (sysStep p intr (.stat f) os nm).2 = .ok 0 ∧ (sysStep p intr (.ftok f pr) os nm).2 = .ok (ftokOf i) := by
  simp [sysStep, Sys.interruptible, hb.file]

theorem sys_semget_f (p : Pid) (intr : Bool) (nm n : Nat) (os : OS) (f : KeyFile) (i : Ino) (id : SemId) (hb : Bound os f i id) :
    (sysStep p intr (.semget (ftokOf i) n semgetExclFlags) os nm).2 = .err .EEXIST ∧
    (sysStep p intr (.semget (ftokOf i) n semgetPlainFlags) os nm).2 = .ok id := by
  have := semget_bound_result os f i id hb
  simp [sysStep, Sys.interruptible, this.1, this.2]

/-- `semop` on a live set: a unit, a wait, ERANGE at SEMVMX, or EINTR — never EIDRM / EINVAL -/
theorem sys_semop_alive (p : Pid) (intr : Bool) (nm n : Nat) (o : Int) (fl : Nat) (os : OS) (id : SemId) (ha : (os.sems id).alive = true) :
    ∀ e, (sysStep p intr (.semop (some id) n o fl) os nm).2 = .err e → e = .EINTR ∨ e = .ERANGE := by
  intro e he
  unfold sysStep at he
  split at he
  · simp only [Res.err.injEq] at he; exact Or.inl he.symm
  · simp only [semopF, semAlive, ha, if_true] at he
    (repeat' split at he) <;> simp_all

theorem sys_ftok_foreign (p : Pid) (intr : Bool) (nm pr : Nat) (os : OS) (f g : KeyFile) (i : Ino) (id : SemId) (hb : Bound os f i id) (hg : g ≠ f) :
    ∀ k, (sysStep p intr (.ftok g pr) os nm).2 = .ok k → k ≠ ftokOf i := by
  intro k hk
  simp only [sysStep, Sys.interruptible, Bool.and_false, Bool.false_eq_true, if_false] at hk
  cases hj : os.files g with
  | none => simp [hj] at hk
  | some j =>
    simp only [hj, Res.ok.injEq] at hk
    subst hk
    intro e
    simp only [ftokOf] at e
    subst e
    exact hg (hb.inj g hj)

theorem sys_semget_foreign (p : Pid) (intr : Bool) (nm n fl : Nat) (os : OS) (f : KeyFile) (i : Ino) (id : SemId) (k : Key) (hb : Bound os f i id)
    (hk : k ≠ ftokOf i) : ∀ j, (sysStep p intr (.semget k n fl) os nm).2 = .ok j → j ≠ id := by
  intro j hj
  simp only [sysStep, Sys.interruptible, Bool.and_false, Bool.false_eq_true, if_false] at hj
  exact (bound_semget os f i id k fl hb).2.2 hk j hj

/-- one transition of a semaphore machine (of any name) in a bound OS: the binding stays, the next machine state / the
    struct handed back keeps the invariant, and a machine of another name does not touch the set -/
theorem sem_step_inv (p : Pid) (intr : Bool) (nm : Nat) (s : SemSt) (os : OS) (f : KeyFile) (i : Ino) (id : SemId)
    (hb : Bound os f i id) (hi : s.inv f i id) (hq : s.quiet f) :
    Bound (sysStep p intr s.next os nm).1 f i id ∧ SemOut.inv f i id s.api (s.after (sysStep p intr s.next os nm).2) ∧
    (s.h.file ≠ f → (sysStep p intr s.next os nm).1.sems id = os.sems id) := by
  by_cases hf : s.h.file = f
  · -- the name itself
    have hq' := hq hf
    have hi' := hi
    simp only [SemSt.inv, hf, if_true] at hi'
    have hB : Bound (sysStep p intr s.next os nm).1 f i id := by
      refine (sysStep_bound p intr s.next os nm f i id hb ?_ ?_).1
      · intro e
        obtain ⟨api, h, pc, built, failing, recreated⟩ := s
        cases pc <;> simp [SemSt.next] at e hq'
      · intro v e
        obtain ⟨api, h, pc, built, failing, recreated⟩ := s
        cases pc <;> simp [SemSt.next, semSetvalCmd, IPC_RMID] at e hq'
    refine ⟨hB, ?_, fun hn => absurd hf hn⟩
    apply sem_after_inv_own f i id s _ hf hi hq
    · intro hpc
      have : s.next = .open f keyFileOpenFlags keyFileOpenMode := by simp [SemSt.next, hpc, hf]
      rw [this]; exact sys_open_f p intr nm _ os f i id hb
    · intro hpc
      have : s.next = .stat f := by simp [SemSt.next, hpc, hf]
      rw [this]; exact (sys_stat_ftok_f p intr nm 0 os f i id hb).1
    · intro hpc
      have : s.next = .ftok f ftokProj := by simp [SemSt.next, hpc, hf]
      rw [this]; exact (sys_stat_ftok_f p intr nm ftokProj os f i id hb).2
    · intro hpc
      simp only [hpc] at hi'
      have : s.next = .semget (ftokOf i) semgetExclNsems semgetExclFlags := by simp [SemSt.next, hpc, hi'.2.2.2]
      rw [this]; exact (sys_semget_f p intr nm _ os f i id hb).1
    · intro hpc
      simp only [hpc] at hi'
      have : s.next = .semget (ftokOf i) semgetPlainNsems semgetPlainFlags := by simp [SemSt.next, hpc, hi'.2.2.2]
      rw [this]; exact (sys_semget_f p intr nm _ os f i id hb).2
    · intro hpc
      simp only [hpc] at hi'
      have : s.next = .semop (some id) s.buf.1 s.buf.2.1 s.buf.2.2 := by simp [SemSt.next, hpc, hi']
      rw [this]; exact sys_semop_alive p intr nm _ _ _ os id hb.alive
  · -- another name
    have hi' := hi
    simp only [SemSt.inv, hf, if_false] at hi'
    have hnext1 : s.next ≠ .unlink f := by
      intro e
      obtain ⟨api, h, pc, built, failing, recreated⟩ := s
      cases pc <;> simp [SemSt.next] at e
      exact hf e
    have hnext2 : ∀ cmd v, s.next ≠ .semctl (some id) cmd v := by
      intro cmd v e
      obtain ⟨api, h, pc, built, failing, recreated⟩ := s
      cases pc <;> simp [SemSt.next] at e hi'
      all_goals exact hi' e.1
    have hnext3 : ∀ n o fl, s.next ≠ .semop (some id) n o fl := by
      intro n o fl e
      obtain ⟨api, h, pc, built, failing, recreated⟩ := s
      cases pc <;> simp [SemSt.next] at e hi'
      exact hi' e.1
    have hS := sysStep_bound p intr s.next os nm f i id hb hnext1 (fun v => hnext2 IPC_RMID v)
    refine ⟨hS.1, ?_, fun _ => hS.2 hnext2 hnext3⟩
    apply sem_after_inv_foreign f i id s _ hf hi
    · intro hpc
      have : s.next = .ftok s.h.file ftokProj := by simp [SemSt.next, hpc]
      rw [this]; exact sys_ftok_foreign p intr nm _ os f s.h.file i id hb hf
    · intro hpc
      rcases hpc with hpc | hpc <;> simp only [hpc] at hi' <;> obtain ⟨_, _, k, hk, hkn⟩ := hi'
      · have : s.next = .semget k semgetExclNsems semgetExclFlags := by simp [SemSt.next, hpc, hk]
        rw [this]; exact sys_semget_foreign p intr nm _ _ os f i id k hb hkn
      · have : s.next = .semget k semgetPlainNsems semgetPlainFlags := by simp [SemSt.next, hpc, hk]
        rw [this]; exact sys_semget_foreign p intr nm _ _ os f i id k hb hkn

/-! ### the segment machine: its own system calls do not touch semaphores; its lock-semaphore sub-machine is a `SemSt` -/

def ShmSt.inv (f : KeyFile) (i : Ino) (id : SemId) (s : ShmSt) : Prop :=
  (∀ ps, s.h.sem = some ps → ps.inv f id) ∧
  (match s.pc with
   | .cSem st => st.inv f i id
   | .kSem st => st.inv f i id
   | _ => True)

def ShmSt.quiet (f : KeyFile) (s : ShmSt) : Prop :=
  match s.pc with
  | .cSem st => st.quiet f
  | .kSem st => st.quiet f
  | _ => True

def ShmOut.inv (f : KeyFile) (i : Ino) (id : SemId) : ShmOut → Prop
  | .cont s' => s'.inv f i id
  | .done (h, _) => ∀ ps, h.sem = some ps → ps.inv f id

theorem lockSt_inv (f : KeyFile) (i : Ino) (id : SemId) (s : ShmSt) : s.lockSt.inv f i id := by
  simp only [ShmSt.lockSt, SemSt.inv]
  split <;> simp

theorem startClean_free_inv (f : KeyFile) (i : Ino) (id : SemId) (ps : PSem) (hp : ps.inv f id) (st : SemSt)
    (h : ({ api := .free, h := ps, pc := .kRmid } : SemSt).startClean = .cont st) : st.inv f i id := by
  simp only [SemSt.startClean, SemSt.afterClean] at h
  (repeat' split at h) <;> simp only [Out.cont.injEq, reduceCtorEq] at h <;> subst h <;>
    simp only [SemSt.inv, PSem.inv] at hp ⊢ <;> split <;> simp_all

theorem shm_clean_inv (f : KeyFile) (i : Ino) (id : SemId) (s : ShmSt) (hs : ∀ ps, s.h.sem = some ps → ps.inv f id) :
    ShmOut.inv f i id s.cleanSem ∧ ShmOut.inv f i id s.cleanFile ∧ ShmOut.inv f i id s.startClean ∧ ShmOut.inv f i id s.afterClean := by
  have h4 : ShmOut.inv f i id s.afterClean := by
    simp only [ShmSt.afterClean]; split <;> simp [ShmOut.inv, PShm.cleaned]
  have h1 : ShmOut.inv f i id s.cleanSem := by
    simp only [ShmSt.cleanSem]
    split
    · exact h4
    · rename_i ps hps
      split
      · rename_i st hst
        exact ⟨hs, startClean_free_inv f i id ps (hs ps hps) st hst⟩
      · exact h4
  have h2 : ShmOut.inv f i id s.cleanFile := by
    simp only [ShmSt.cleanFile]; split
    · exact ⟨hs, trivial⟩
    · exact h1
  refine ⟨h1, h2, ?_, h4⟩
  simp only [ShmSt.startClean]; split
  · exact ⟨hs, trivial⟩
  · exact h2

/-- a transition of the segment machine at one of its own system calls (any result): the struct's lock handle is carried
    along unchanged or dropped, a lock-semaphore sub-machine starts in a state that keeps the invariant -/
theorem shm_after_inv_plain (f : KeyFile) (i : Ino) (id : SemId) (s : ShmSt) (r : Res) (hs : ∀ ps, s.h.sem = some ps → ps.inv f id)
    (hpc : match s.pc with | .cSem _ => False | .kSem _ => False | _ => True) : ShmOut.inv f i id (s.after r) := by
  obtain ⟨isNew, h, req, pc, built, isExists, failing⟩ := s
  simp only at hs
  cases pc <;> simp only at hpc <;> rcases r with v | ⟨sz, na⟩ | e | _ <;>
    simp only [ShmSt.after, ShmSt.fail] <;> (repeat' split) <;>
    first
    | exact (shm_clean_inv f i id _ (by simpa using hs)).1
    | exact (shm_clean_inv f i id _ (by simpa using hs)).2.1
    | exact (shm_clean_inv f i id _ (by simpa using hs)).2.2.1
    | exact (shm_clean_inv f i id _ (by simpa using hs)).2.2.2
    | exact ⟨by simpa using hs, trivial⟩
    | exact ⟨by simpa using hs, lockSt_inv f i id _⟩
    | exact (by simpa [ShmOut.inv] using hs)

theorem shm_step_inv (p : Pid) (intr : Bool) (nm : Nat) (s : ShmSt) (os : OS) (f : KeyFile) (i : Ino) (id : SemId) (hfs : ∀ n, f ≠ .shm n)
    (hb : Bound os f i id) (hi : s.inv f i id) (hq : s.quiet f) :
    Bound (sysStep p intr s.next os nm).1 f i id ∧ ShmOut.inv f i id (s.after (sysStep p intr s.next os nm).2) ∧
    (s.file ≠ f → (sysStep p intr s.next os nm).1.sems id = os.sems id) := by
  obtain ⟨isNew, h, req, pc, built, isExists, failing⟩ := s
  obtain ⟨hs, hpc⟩ := hi
  simp only at hs hpc
  cases pc with
  | cSem st =>
    simp only [ShmSt.quiet] at hq
    simp only at hpc
    have := sem_step_inv p intr nm st os f i id hb hpc hq
    refine ⟨by simpa [ShmSt.next] using this.1, ?_, by simpa [ShmSt.next, ShmSt.file] using this.2.2⟩
    have h2 := this.2.1
    simp only [ShmSt.next, ShmSt.after]
    cases hr : st.after (sysStep p intr st.next os nm).2 with
    | cont st' =>
      rw [hr] at h2
      exact ⟨hs, h2.1⟩
    | done x =>
      obtain ⟨ps, e⟩ := x
      rw [hr] at h2
      cases e with
      | ok u =>
        intro ps' hps'
        simp only [Option.some.injEq] at hps'
        subst hps'
        exact h2 (fun _ => rfl)
      | error e => exact (shm_clean_inv f i id _ (by simpa using hs)).2.2.1
  | kSem st =>
    simp only [ShmSt.quiet] at hq
    simp only at hpc
    have := sem_step_inv p intr nm st os f i id hb hpc hq
    refine ⟨by simpa [ShmSt.next] using this.1, ?_, by simpa [ShmSt.next, ShmSt.file] using this.2.2⟩
    have h2 := this.2.1
    simp only [ShmSt.next, ShmSt.after]
    cases hr : st.after (sysStep p intr st.next os nm).2 with
    | cont st' =>
      rw [hr] at h2
      exact ⟨hs, h2.1⟩
    | done x => exact (shm_clean_inv f i id _ (by simpa using hs)).2.2.2
  | _ =>
    all_goals
      refine ⟨(sysStep_bound _ _ _ _ _ f i id hb ?_ ?_).1, shm_after_inv_plain f i id _ _ hs trivial,
        fun _ => (sysStep_bound _ _ _ _ _ f i id hb ?_ ?_).2 ?_ ?_⟩
      all_goals first
        | (simp [ShmSt.next]; done)
        | (simp only [ShmSt.next, ne_eq, Sys.unlink.injEq]; exact fun e => hfs _ e.symm)

/-! ### calls in flight -/

def Handle.inv (f : KeyFile) (id : SemId) : Handle → Prop
  | .sem h => h.inv f id
  | .shm m => ∀ ps, m.sem = some ps → ps.inv f id

def Call.inv (f : KeyFile) (i : Ino) (id : SemId) : Call → Prop
  | .semNew _ s => s.inv f i id
  | .semFree s => s.inv f i id
  | .semOp _ s => s.inv f i id ∧ s.api ≠ .new
  | .shmNew _ s => s.inv f i id
  | .shmFree s => s.inv f i id
  | .lockOp _ _ s => s.inv f i id ∧ s.api ≠ .new

/-- the call in flight is not at the IPC_RMID / unlink of a clean-up of `f`: no owner free of `f` is running -/
def Call.quiet (f : KeyFile) : Call → Prop
  | .semNew _ s => s.quiet f
  | .semFree s => s.quiet f
  | .semOp _ s => s.quiet f
  | .shmNew _ s => s.quiet f
  | .shmFree s => s.quiet f
  | .lockOp _ _ s => s.quiet f

def CallOut.inv (f : KeyFile) (i : Ino) (id : SemId) : Out Call (Ret × Option (Hid × Option Handle)) → Prop
  | .cont c' => c'.inv f i id
  | .done (_, some (_, some x)) => x.inv f id
  | .done _ => True

theorem call_step_inv (p : Pid) (intr : Bool) (c : Call) (os : OS) (f : KeyFile) (i : Ino) (id : SemId) (hfs : ∀ n, f ≠ .shm n)
    (hb : Bound os f i id) (hi : c.inv f i id) (hq : c.quiet f) :
    Bound (sysStep p intr c.next os c.name).1 f i id ∧ CallOut.inv f i id (c.after (sysStep p intr c.next os c.name).2) ∧
    (c.file ≠ f → (sysStep p intr c.next os c.name).1.sems id = os.sems id) := by
  cases c with
  | semNew hid s =>
    have := sem_step_inv p intr 0 s os f i id hb hi hq
    refine ⟨this.1, ?_, this.2.2⟩
    have h2 := this.2.1
    simp only [Call.next, Call.name, Call.after]
    cases hr : s.after (sysStep p intr s.next os 0).2 with
    | cont s' => rw [hr] at h2; exact h2.1
    | done x =>
      obtain ⟨h, e⟩ := x
      rw [hr] at h2
      cases e with
      | ok u => exact h2 (fun _ => rfl)
      | error e => trivial
  | semFree s =>
    have := sem_step_inv p intr 0 s os f i id hb hi hq
    refine ⟨this.1, ?_, this.2.2⟩
    have h2 := this.2.1
    simp only [Call.next, Call.name, Call.after]
    cases hr : s.after (sysStep p intr s.next os 0).2 with
    | cont s' => rw [hr] at h2; exact h2.1
    | done x => trivial
  | semOp hid s =>
    have := sem_step_inv p intr 0 s os f i id hb hi.1 hq
    refine ⟨this.1, ?_, this.2.2⟩
    have h2 := this.2.1
    simp only [Call.next, Call.name, Call.after]
    cases hr : s.after (sysStep p intr s.next os 0).2 with
    | cont s' => rw [hr] at h2; exact ⟨h2.1, by rw [h2.2]; exact hi.2⟩
    | done x =>
      obtain ⟨h, e⟩ := x
      rw [hr] at h2
      exact h2 (fun e' => absurd e' hi.2)
  | lockOp hid m s =>
    have := sem_step_inv p intr 0 s os f i id hb hi.1 hq
    refine ⟨this.1, ?_, this.2.2⟩
    have h2 := this.2.1
    simp only [Call.next, Call.name, Call.after]
    cases hr : s.after (sysStep p intr s.next os 0).2 with
    | cont s' => rw [hr] at h2; exact ⟨h2.1, by rw [h2.2]; exact hi.2⟩
    | done x =>
      obtain ⟨h, e⟩ := x
      rw [hr] at h2
      intro ps hps
      simp only [Option.some.injEq] at hps
      subst hps
      exact h2 (fun e' => absurd e' hi.2)
  | shmNew hid s =>
    have := shm_step_inv p intr s.h.name s os f i id hfs hb hi hq
    refine ⟨this.1, ?_, this.2.2⟩
    have h2 := this.2.1
    simp only [Call.next, Call.name, Call.after]
    cases hr : s.after (sysStep p intr s.next os s.h.name).2 with
    | cont s' => rw [hr] at h2; exact h2
    | done x =>
      obtain ⟨h, e⟩ := x
      rw [hr] at h2
      cases e with
      | ok u => exact h2
      | error e => trivial
  | shmFree s =>
    have := shm_step_inv p intr 0 s os f i id hfs hb hi hq
    refine ⟨this.1, ?_, this.2.2⟩
    have h2 := this.2.1
    simp only [Call.next, Call.name, Call.after]
    cases hr : s.after (sysStep p intr s.next os 0).2 with
    | cont s' => rw [hr] at h2; exact h2
    | done x => trivial

/-! ## the invariant over arbitrary action lists -/

/-- `f` is bound to `id`; every live struct and every machine in flight (of any thread of any process) respects it -/
structure Inv (f : KeyFile) (i : Ino) (id : SemId) (g : G) : Prop where
  bound : Bound g.os f i id
  hs : ∀ h p x, g.hs h = some (p, x) → x.inv f id
  calls : ∀ t c, g.calls t = some c → c.inv f i id

def Quiet (f : KeyFile) (g : G) : Prop := ∀ t c, g.calls t = some c → c.quiet f

theorem inv_step (f : KeyFile) (i : Ino) (id : SemId) (hfs : ∀ n, f ≠ .shm n) (g : G) (t : Tid) (intr : Bool)
    (hi : Inv f i id g) (hq : Quiet f g) : Inv f i id (g.step t intr) := by
  cases hc : g.calls t with
  | none => rw [step_none g t intr hc]; exact hi
  | some c =>
    have := call_step_inv (g.pidOf t) intr c g.os f i id hfs hi.bound (hi.calls t c hc) (hq t c hc)
    refine ⟨by rw [step_os g t intr c hc]; exact this.1, ?_, ?_⟩
    · have h2 := this.2.1
      intro h p x hx
      simp only [G.step, hc] at hx
      cases hr : c.after (sysStep (g.pidOf t) intr c.next g.os c.name).2 with
      | cont c' => simp only [hr, G.setCall] at hx; exact hi.hs h p x hx
      | done y =>
        obtain ⟨ret, nh⟩ := y
        rw [hr] at h2
        cases nh with
        | none => simp only [hr, G.setCall, G.setRet] at hx; exact hi.hs h p x hx
        | some z =>
          obtain ⟨hid, ox⟩ := z
          cases ox with
          | none =>
            simp only [hr, G.setCall, G.setRet, G.setHandle] at hx
            split at hx
            · cases hx
            · exact hi.hs h p x hx
          | some x' =>
            simp only [hr, G.setCall, G.setRet, G.setHandle] at hx
            split at hx
            · simp only [Option.some.injEq, Prod.mk.injEq] at hx
              rw [← hx.2]; exact h2
            · exact hi.hs h p x hx
    · have h2 := this.2.1
      intro t' c' hc'
      simp only [G.step, hc] at hc'
      cases hr : c.after (sysStep (g.pidOf t) intr c.next g.os c.name).2 with
      | cont c'' =>
        rw [hr] at h2
        simp only [hr, G.setCall] at hc'
        split at hc'
        · simp only [Option.some.injEq] at hc'; rw [← hc']; exact h2
        · exact hi.calls t' c' hc'
      | done y =>
        obtain ⟨ret, nh⟩ := y
        have key : ∀ g' : G, g'.calls = (fun t'' => if t'' = t then none else g.calls t'') → g'.calls t' = some c' → c'.inv f i id := by
          intro g' hg' h'
          rw [hg'] at h'
          simp only at h'
          split at h'
          · cases h'
          · exact hi.calls t' c' h'
        cases nh with
        | none => simp only [hr] at hc'; exact key _ rfl hc'
        | some z =>
          obtain ⟨hid, ox⟩ := z
          cases ox <;> (simp only [hr] at hc'; exact key _ rfl hc')

theorem inv_kill (f : KeyFile) (i : Ino) (id : SemId) (g : G) (p : Pid) (hi : Inv f i id g) : Inv f i id (g.kill p) := by
  refine ⟨?_, ?_, ?_⟩
  · have hb := hi.bound
    refine ⟨hb.file, hb.key, ?_, hb.idlt, hb.uniq, hb.inj, hb.ilt, hb.noreuse⟩
    simp only [G.kill, OS.kill, hb.alive, if_true]
  · intro h q x hx
    simp only [G.kill] at hx
    split at hx
    · split at hx
      · cases hx
      · rename_i q' x' hq' _
        simp only [Option.some.injEq, Prod.mk.injEq] at hx
        exact hi.hs h q' x (by rw [hq', hx.2])
    · cases hx
  · intro t c hc
    simp only [G.kill] at hc
    split at hc
    · cases hc
    · exact hi.calls t c hc

theorem handleOf_hs (g : G) (t : Tid) (h : Hid) (x : Handle) (hx : g.handleOf t h = some x) : g.hs h = some (g.pidOf t, x) := by
  simp only [G.handleOf] at hx
  split at hx
  · rename_i p y hy
    split at hx
    · rename_i hp
      simp only [Option.some.injEq] at hx
      rw [hy, hp, hx]
    · cases hx
  · cases hx

theorem inv_setRet (f : KeyFile) (i : Ino) (id : SemId) (g : G) (t : Tid) (r : Ret) (hi : Inv f i id g) : Inv f i id (g.setRet t r) :=
  ⟨hi.bound, hi.hs, hi.calls⟩

theorem inv_setCall (f : KeyFile) (i : Ino) (id : SemId) (g : G) (t : Tid) (c : Call) (hi : Inv f i id g) (hc : c.inv f i id) :
    Inv f i id (g.setCall t (some c)) := by
  refine ⟨hi.bound, hi.hs, ?_⟩
  intro t' c' h'
  simp only [G.setCall] at h'
  split at h'
  · simp only [Option.some.injEq] at h'; rw [← h']; exact hc
  · exact hi.calls t' c' h'

theorem inv_setHandle (f : KeyFile) (i : Ino) (id : SemId) (g : G) (h : Hid) (v : Option (Pid × Handle)) (hi : Inv f i id g)
    (hv : ∀ p x, v = some (p, x) → x.inv f id) : Inv f i id (g.setHandle h v) := by
  refine ⟨hi.bound, ?_, hi.calls⟩
  intro h' p x hx
  simp only [G.setHandle] at hx
  split at hx
  · exact hv p x hx
  · exact hi.hs h' p x hx

theorem inv_startOut (f : KeyFile) (i : Ino) (id : SemId) (g : G) (t : Tid) (o : Out Call (Ret × Option (Hid × Option Handle)))
    (hi : Inv f i id g) (ho : CallOut.inv f i id o) : Inv f i id (startOut g t o) := by
  cases o with
  | cont c => exact inv_setCall f i id g t c hi ho
  | done y =>
    obtain ⟨ret, nh⟩ := y
    cases nh with
    | none => exact inv_setRet f i id g t ret hi
    | some z =>
      obtain ⟨hid, ox⟩ := z
      cases ox with
      | none => exact inv_setHandle f i id _ hid none (inv_setRet f i id g t ret hi) (by intro p x e; cases e)
      | some x =>
        refine inv_setHandle f i id _ hid _ (inv_setRet f i id g t ret hi) ?_
        intro p x' e
        simp only [Option.some.injEq, Prod.mk.injEq] at e
        rw [← e.2]; exact ho

theorem semFreeStart_inv (f : KeyFile) (i : Ino) (id : SemId) (s : PSem) (hs : s.inv f id) : CallOut.inv f i id (semFreeStart s) := by
  simp only [semFreeStart]
  split
  · rename_i st hst
    exact startClean_free_inv f i id s hs st hst
  · trivial

theorem shmFreeStart_inv (f : KeyFile) (i : Ino) (id : SemId) (m : PShm) (hm : ∀ ps, m.sem = some ps → ps.inv f id) :
    CallOut.inv f i id (shmFreeStart m) := by
  simp only [shmFreeStart]
  have := (shm_clean_inv f i id ({ isNew := false, h := m, pc := .kDt } : ShmSt) hm).2.2.1
  split
  · rename_i st hst
    rw [hst] at this
    exact this
  · trivial

theorem inv_start (f : KeyFile) (i : Ino) (id : SemId) (g : G) (t : Tid) (op : Op) (hi : Inv f i id g) : Inv f i id (g.start t op) := by
  unfold G.start
  split
  · exact inv_setRet f i id g t _ hi
  · cases op with
    | newSem h n init m =>
      simp only
      split
      · exact inv_setRet f i id g t _ hi
      · refine inv_setCall f i id g t _ hi ?_
        simp only [Call.inv, SemSt.inv]
        split <;> simp
    | newShm h n size ro =>
      simp only
      split
      · exact inv_setRet f i id g t _ hi
      · refine inv_setCall f i id g t _ hi ?_
        exact ⟨(by intro ps e; cases e), trivial⟩
    | acq h =>
      simp only
      split
      · rename_i s hs
        have := hi.hs h _ _ (handleOf_hs g t h _ hs)
        refine inv_setCall f i id g t _ hi ⟨?_, by simp⟩
        simp only [Handle.inv, PSem.inv] at this
        simp only [SemSt.inv]
        split <;> simp_all
      · exact inv_setRet f i id g t _ hi
    | rel h =>
      simp only
      split
      · rename_i s hs
        have := hi.hs h _ _ (handleOf_hs g t h _ hs)
        refine inv_setCall f i id g t _ hi ⟨?_, by simp⟩
        simp only [Handle.inv, PSem.inv] at this
        simp only [SemSt.inv]
        split <;> simp_all
      · exact inv_setRet f i id g t _ hi
    | lock h =>
      simp only
      split
      · rename_i m hm
        have := hi.hs h _ _ (handleOf_hs g t h _ hm)
        split
        · rename_i s hs
          have := this s hs
          refine inv_setCall f i id g t _ hi ⟨?_, by simp⟩
          simp only [PSem.inv] at this
          simp only [SemSt.inv]
          split <;> simp_all
        · exact inv_setRet f i id g t _ hi
      · exact inv_setRet f i id g t _ hi
    | unlock h =>
      simp only
      split
      · rename_i m hm
        have := hi.hs h _ _ (handleOf_hs g t h _ hm)
        split
        · rename_i s hs
          have := this s hs
          refine inv_setCall f i id g t _ hi ⟨?_, by simp⟩
          simp only [PSem.inv] at this
          simp only [SemSt.inv]
          split <;> simp_all
        · exact inv_setRet f i id g t _ hi
      · exact inv_setRet f i id g t _ hi
    | own h =>
      simp only
      split
      · rename_i s hs
        have := hi.hs h _ _ (handleOf_hs g t h _ hs)
        refine inv_setRet f i id _ t _ (inv_setHandle f i id g h _ hi ?_)
        intro p x e
        simp only [Option.some.injEq, Prod.mk.injEq] at e
        rw [← e.2]
        simpa [Handle.inv, PSem.inv] using this
      · rename_i m hm
        have := hi.hs h _ _ (handleOf_hs g t h _ hm)
        refine inv_setRet f i id _ t _ (inv_setHandle f i id g h _ hi ?_)
        intro p x e
        simp only [Option.some.injEq, Prod.mk.injEq] at e
        rw [← e.2]
        intro ps hps
        simp only [Option.map_eq_some_iff] at hps
        obtain ⟨s0, hs0, rfl⟩ := hps
        simpa [PSem.inv] using this s0 hs0
      · exact inv_setRet f i id g t _ hi
    | free h =>
      simp only
      split
      · rename_i s hs
        have := hi.hs h _ _ (handleOf_hs g t h _ hs)
        exact inv_startOut f i id _ t _ (inv_setHandle f i id g h none hi (by intro p x e; cases e)) (semFreeStart_inv f i id s this)
      · rename_i m hm
        have := hi.hs h _ _ (handleOf_hs g t h _ hm)
        exact inv_startOut f i id _ t _ (inv_setHandle f i id g h none hi (by intro p x e; cases e)) (shmFreeStart_inv f i id m this)
      · exact inv_setRet f i id g t _ hi
    | size h => simp only; split <;> exact inv_setRet f i id g t _ hi
    | rd h off => simp only; (repeat' split) <;> exact inv_setRet f i id g t _ hi
    | wr h off b =>
      simp only
      cases hh : g.handleOf t h with
      | none => exact inv_setRet f i id g t _ hi
      | some x =>
        cases x with
        | sem s0 => exact inv_setRet f i id g t _ hi
        | shm m =>
          simp only
          cases hos : ((addrOpt m.addr).bind fun a => g.os.store (g.pidOf t) a off b) with
          | none => exact inv_setRet f i id g t _ hi
          | some os' =>
            simp only
            refine inv_setRet f i id _ t _ ⟨?_, hi.hs, hi.calls⟩
            cases ha : addrOpt m.addr with
            | none => simp [ha] at hos
            | some a =>
              simp only [ha, Option.bind_some, OS.store] at hos
              (repeat' split at hos) <;> simp only [Option.some.injEq, reduceCtorEq] at hos
              subst hos
              exact bound_of_eq g.os _ f i id hi.bound rfl rfl rfl rfl rfl rfl

theorem inv_exec (f : KeyFile) (i : Ino) (id : SemId) (hfs : ∀ n, f ≠ .shm n) (g : G) (a : Action)
    (hi : Inv f i id g) (hq : Quiet f g) : Inv f i id (exec g a) := by
  cases a with
  | start t op => exact inv_start f i id g t op hi
  | step t intr => exact inv_step f i id hfs g t intr hi hq
  | kill p => exact inv_kill f i id g p hi

/-- no owner free of `f` in between: before every action of the schedule no call is at the IPC_RMID / unlink of a
    clean-up of `f` -/
def QuietRun (f : KeyFile) : G → List Action → Prop
  | _, [] => True
  | g, a :: as => Quiet f g ∧ QuietRun f (exec g a) as

theorem inv_execAll (f : KeyFile) (i : Ino) (id : SemId) (hfs : ∀ n, f ≠ .shm n) (as : List Action) :
    ∀ g, Inv f i id g → QuietRun f g as → Inv f i id (execAll g as) := by
  induction as with
  | nil => intro g h _; exact h
  | cons a as ih =>
    intro g h hq
    simp only [execAll, List.foldl_cons]
    exact ih (exec g a) (inv_exec f i id hfs g a h hq.1) hq.2

/-- a step of a call that works on another name leaves the set (value, SEM_UNDO adjustments, liveness) untouched -/
theorem step_frame (f : KeyFile) (i : Ino) (id : SemId) (hfs : ∀ n, f ≠ .shm n) (g : G) (t : Tid) (intr : Bool) (c : Call)
    (hi : Inv f i id g) (hq : Quiet f g) (hc : g.calls t = some c) (hf : c.file ≠ f) :
    (g.step t intr).os.sems id = g.os.sems id := by
  rw [step_os g t intr c hc]
  exact (call_step_inv (g.pidOf t) intr c g.os f i id hfs hi.bound (hi.calls t c hc) (hq t c hc)).2.2 hf

end PV.SysV
